#!/bin/bash
# MANIFEST.setup_cmd: offline; builds every registered monitor once (warms the Go build cache).
set -u
cd "$(dirname "$(readlink -f "$0")")"
export GOFLAGS=-mod=mod GOPROXY=off GOSUMDB=off GOTOOLCHAIN=local CGO_ENABLED=1
mkdir -p bin work evidence replays
rc=0
for ID in $(jq -r '.checks[].property_id' MANIFEST.json); do
  id="$(echo "$ID" | tr 'A-Z' 'a-z')"
  RACE=""; [ -f "harness/cmd/$id/RACE" ] && RACE="-race"
  ( cd harness && go build $RACE -tags verif -o "../bin/$id" "./cmd/$id" ) || { echo "setup: build of $id failed" >&2; rc=1; }
done
exit $rc
