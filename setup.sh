#!/bin/bash
# MANIFEST.setup_cmd: offline; warms the build cache by building every monitor.
set -u
cd "$(dirname "$(readlink -f "$0")")"
export GOFLAGS=-mod=mod GOPROXY=off GOSUMDB=off GOTOOLCHAIN=local CGO_ENABLED=1
mkdir -p bin work evidence replays
rc=0
for d in harness/cmd/*/; do
  id="$(basename "$d")"
  RACE=""; [ -f "$d/RACE" ] && RACE="-race"
  ( cd harness && go build $RACE -tags verif -o "../bin/$id" "./cmd/$id" ) || { echo "setup: build of $id failed" >&2; rc=1; }
done
exit $rc
