// Package hbfont binds the *font functions* of the installed HarfBuzz 6.0.0
// shared library (no headers are installed: the prototypes below are written
// by hand against the stable public C ABI). It is used as an independent glyph
// decoder by the C10 monitor and never receives modified font bytes.
//
// A Face/Font pair must be used by one goroutine at a time.
package hbfont

/*
#cgo LDFLAGS: -l:libharfbuzz.so.0
#include <stdlib.h>
#include <string.h>
#include <stdint.h>

typedef int hb_bool_t;
typedef uint32_t hb_codepoint_t;
typedef int32_t hb_position_t;
typedef uint32_t hb_tag_t;
typedef struct hb_blob_t hb_blob_t;
typedef struct hb_face_t hb_face_t;
typedef struct hb_font_t hb_font_t;
typedef struct hb_set_t hb_set_t;
typedef struct hb_draw_funcs_t hb_draw_funcs_t;
typedef void (*hb_destroy_func_t)(void *);
typedef struct { hb_tag_t tag; float value; } hb_variation_t;
typedef struct { hb_position_t x_bearing, y_bearing, width, height; } hb_glyph_extents_t;
typedef struct { hb_position_t ascender, descender, line_gap; hb_position_t reserved[9]; } hb_font_extents_t;
typedef struct {
	unsigned int axis_index; hb_tag_t tag; unsigned int name_id; unsigned int flags;
	float min_value, default_value, max_value; unsigned int reserved;
} hb_ot_var_axis_info_t;
typedef struct {
	hb_bool_t path_open; float path_start_x, path_start_y, current_x, current_y;
	uint64_t reserved[7]; // hb_var_num_t reserved1..7 (8 bytes each)
} hb_draw_state_t;

extern const char *hb_version_string(void);
extern hb_blob_t *hb_blob_create(const char *data, unsigned int length, int mode, void *user_data, hb_destroy_func_t destroy);
extern void hb_blob_destroy(hb_blob_t *);
extern hb_face_t *hb_face_create(hb_blob_t *, unsigned int index);
extern void hb_face_destroy(hb_face_t *);
extern unsigned int hb_face_count(hb_blob_t *);
extern unsigned int hb_face_get_upem(const hb_face_t *);
extern unsigned int hb_face_get_glyph_count(const hb_face_t *);
extern void hb_face_collect_unicodes(hb_face_t *, hb_set_t *);
extern hb_set_t *hb_set_create(void);
extern void hb_set_destroy(hb_set_t *);
extern hb_bool_t hb_set_next(const hb_set_t *, hb_codepoint_t *);
extern unsigned int hb_set_get_population(const hb_set_t *);
extern hb_font_t *hb_font_create(hb_face_t *);
extern void hb_font_destroy(hb_font_t *);
extern void hb_font_set_variations(hb_font_t *, const hb_variation_t *, unsigned int);
extern void hb_font_set_var_coords_design(hb_font_t *, const float *, unsigned int);
extern void hb_font_set_var_coords_normalized(hb_font_t *, const int *, unsigned int);
extern const int *hb_font_get_var_coords_normalized(hb_font_t *, unsigned int *);
extern hb_bool_t hb_font_get_nominal_glyph(hb_font_t *, hb_codepoint_t, hb_codepoint_t *);
extern hb_position_t hb_font_get_glyph_h_advance(hb_font_t *, hb_codepoint_t);
extern hb_position_t hb_font_get_glyph_v_advance(hb_font_t *, hb_codepoint_t);
extern hb_bool_t hb_font_get_glyph_v_origin(hb_font_t *, hb_codepoint_t, hb_position_t *, hb_position_t *);
extern hb_bool_t hb_font_get_glyph_extents(hb_font_t *, hb_codepoint_t, hb_glyph_extents_t *);
extern hb_bool_t hb_font_get_glyph_name(hb_font_t *, hb_codepoint_t, char *, unsigned int);
extern hb_bool_t hb_font_get_h_extents(hb_font_t *, hb_font_extents_t *);
extern void hb_font_get_glyph_shape(hb_font_t *, hb_codepoint_t, hb_draw_funcs_t *, void *);
extern hb_bool_t hb_ot_var_has_data(hb_face_t *);
extern unsigned int hb_ot_var_get_axis_count(hb_face_t *);
extern unsigned int hb_ot_var_get_axis_infos(hb_face_t *, unsigned int, unsigned int *, hb_ot_var_axis_info_t *);
extern void hb_ot_var_normalize_variations(hb_face_t *, const hb_variation_t *, unsigned int, int *, unsigned int);
extern void hb_ot_var_normalize_coords(hb_face_t *, unsigned int, const float *, int *);
extern hb_draw_funcs_t *hb_draw_funcs_create(void);
extern void hb_draw_funcs_destroy(hb_draw_funcs_t *);
extern void hb_draw_funcs_make_immutable(hb_draw_funcs_t *);
typedef void (*vr_mv)(hb_draw_funcs_t *, void *, hb_draw_state_t *, float, float, void *);
typedef void (*vr_qd)(hb_draw_funcs_t *, void *, hb_draw_state_t *, float, float, float, float, void *);
typedef void (*vr_cb)(hb_draw_funcs_t *, void *, hb_draw_state_t *, float, float, float, float, float, float, void *);
typedef void (*vr_cl)(hb_draw_funcs_t *, void *, hb_draw_state_t *, void *);
extern void hb_draw_funcs_set_move_to_func(hb_draw_funcs_t *, vr_mv, void *, hb_destroy_func_t);
extern void hb_draw_funcs_set_line_to_func(hb_draw_funcs_t *, vr_mv, void *, hb_destroy_func_t);
extern void hb_draw_funcs_set_quadratic_to_func(hb_draw_funcs_t *, vr_qd, void *, hb_destroy_func_t);
extern void hb_draw_funcs_set_cubic_to_func(hb_draw_funcs_t *, vr_cb, void *, hb_destroy_func_t);
extern void hb_draw_funcs_set_close_path_func(hb_draw_funcs_t *, vr_cl, void *, hb_destroy_func_t);

// recording sink: op (0 move, 1 line, 2 quad, 3 cubic, 4 close) followed by its arguments
typedef struct { float *v; int n, cap; int err; } vr_rec;
static void vr_push(vr_rec *r, float op, int k, const float *a) {
	if (r->n + 1 + k > r->cap) {
		int nc = r->cap ? r->cap * 2 : 256;
		while (nc < r->n + 1 + k) nc *= 2;
		float *nv = realloc(r->v, nc * sizeof(float));
		if (!nv) { r->err = 1; return; }
		r->v = nv; r->cap = nc;
	}
	r->v[r->n++] = op;
	for (int i = 0; i < k; i++) r->v[r->n++] = a[i];
}
static void vr_move(hb_draw_funcs_t *d, void *u, hb_draw_state_t *s, float x, float y, void *ud) { float a[2] = {x, y}; vr_push(u, 0, 2, a); }
static void vr_line(hb_draw_funcs_t *d, void *u, hb_draw_state_t *s, float x, float y, void *ud) { float a[2] = {x, y}; vr_push(u, 1, 2, a); }
static void vr_quad(hb_draw_funcs_t *d, void *u, hb_draw_state_t *s, float cx, float cy, float x, float y, void *ud) { float a[4] = {cx, cy, x, y}; vr_push(u, 2, 4, a); }
static void vr_cube(hb_draw_funcs_t *d, void *u, hb_draw_state_t *s, float c1x, float c1y, float c2x, float c2y, float x, float y, void *ud) { float a[6] = {c1x, c1y, c2x, c2y, x, y}; vr_push(u, 3, 6, a); }
static void vr_close(hb_draw_funcs_t *d, void *u, hb_draw_state_t *s, void *ud) { vr_push(u, 4, 0, 0); }

static hb_draw_funcs_t *vr_make_funcs(void) {
	hb_draw_funcs_t *f = hb_draw_funcs_create();
	hb_draw_funcs_set_move_to_func(f, vr_move, 0, 0);
	hb_draw_funcs_set_line_to_func(f, vr_line, 0, 0);
	hb_draw_funcs_set_quadratic_to_func(f, vr_quad, 0, 0);
	hb_draw_funcs_set_cubic_to_func(f, vr_cube, 0, 0);
	hb_draw_funcs_set_close_path_func(f, vr_close, 0, 0);
	hb_draw_funcs_make_immutable(f);
	return f;
}
static float *vr_shape(hb_font_t *font, hb_codepoint_t gid, hb_draw_funcs_t *f, int *n) {
	vr_rec r = {0, 0, 0, 0};
	hb_font_get_glyph_shape(font, gid, f, &r);
	if (r.err) { free(r.v); *n = -1; return 0; }
	*n = r.n;
	return r.v;
}
*/
import "C"

import (
	"fmt"
	"sync"
	"unsafe"
)

// Version returns hb_version_string().
func Version() string { return C.GoString(C.hb_version_string()) }

var (
	funcsOnce sync.Once
	funcs     *C.hb_draw_funcs_t
)

// Face wraps hb_face_t + a default hb_font_t (scale = upem → font units).
type Face struct {
	mem  unsafe.Pointer
	blob *C.hb_blob_t
	face *C.hb_face_t
	font *C.hb_font_t
}

// NumFaces returns hb_face_count for the file content.
func NumFaces(data []byte) int {
	if len(data) == 0 {
		return 0
	}
	mem := C.CBytes(data)
	defer C.free(mem)
	blob := C.hb_blob_create((*C.char)(mem), C.uint(len(data)), 1 /*READONLY*/, nil, nil)
	defer C.hb_blob_destroy(blob)
	return int(C.hb_face_count(blob))
}

// NewFace creates the face `index` of the (unmodified) font file content.
func NewFace(data []byte, index int) (*Face, error) {
	if len(data) == 0 {
		return nil, fmt.Errorf("empty font")
	}
	funcsOnce.Do(func() { funcs = C.vr_make_funcs() })
	f := &Face{}
	f.mem = C.CBytes(data)
	f.blob = C.hb_blob_create((*C.char)(f.mem), C.uint(len(data)), 1 /*HB_MEMORY_MODE_READONLY*/, nil, nil)
	f.face = C.hb_face_create(f.blob, C.uint(index))
	f.font = C.hb_font_create(f.face)
	return f, nil
}

// Close releases everything.
func (f *Face) Close() {
	if f.font != nil {
		C.hb_font_destroy(f.font)
		C.hb_face_destroy(f.face)
		C.hb_blob_destroy(f.blob)
		C.free(f.mem)
		f.font, f.face, f.blob, f.mem = nil, nil, nil, nil
	}
}

func (f *Face) Upem() int       { return int(C.hb_face_get_upem(f.face)) }
func (f *Face) GlyphCount() int { return int(C.hb_face_get_glyph_count(f.face)) }

// Unicodes returns the code points of hb_face_collect_unicodes in ascending order.
func (f *Face) Unicodes() []rune {
	s := C.hb_set_create()
	defer C.hb_set_destroy(s)
	C.hb_face_collect_unicodes(f.face, s)
	out := make([]rune, 0, int(C.hb_set_get_population(s)))
	cp := C.hb_codepoint_t(0xFFFFFFFF) // HB_SET_VALUE_INVALID
	for C.hb_set_next(s, &cp) != 0 {
		out = append(out, rune(cp))
	}
	return out
}

// NominalGlyph is hb_font_get_nominal_glyph.
func (f *Face) NominalGlyph(r rune) (uint32, bool) {
	var g C.hb_codepoint_t
	ok := C.hb_font_get_nominal_glyph(f.font, C.hb_codepoint_t(r), &g) != 0
	return uint32(g), ok
}

func (f *Face) HAdvance(gid uint32) int { return int(C.hb_font_get_glyph_h_advance(f.font, C.hb_codepoint_t(gid))) }
func (f *Face) VAdvance(gid uint32) int { return int(C.hb_font_get_glyph_v_advance(f.font, C.hb_codepoint_t(gid))) }

// VOrigin is hb_font_get_glyph_v_origin.
func (f *Face) VOrigin(gid uint32) (x, y int, ok bool) {
	var cx, cy C.hb_position_t
	ok = C.hb_font_get_glyph_v_origin(f.font, C.hb_codepoint_t(gid), &cx, &cy) != 0
	return int(cx), int(cy), ok
}

// Extents mirrors hb_glyph_extents_t.
type Extents struct{ XBearing, YBearing, Width, Height int }

func (f *Face) GlyphExtents(gid uint32) (Extents, bool) {
	var e C.hb_glyph_extents_t
	ok := C.hb_font_get_glyph_extents(f.font, C.hb_codepoint_t(gid), &e) != 0
	return Extents{int(e.x_bearing), int(e.y_bearing), int(e.width), int(e.height)}, ok
}

func (f *Face) GlyphName(gid uint32) (string, bool) {
	var buf [128]C.char
	ok := C.hb_font_get_glyph_name(f.font, C.hb_codepoint_t(gid), &buf[0], 128) != 0
	return C.GoString(&buf[0]), ok
}

// HExtents is hb_font_get_h_extents.
func (f *Face) HExtents() (asc, desc, gap int, ok bool) {
	var e C.hb_font_extents_t
	ok = C.hb_font_get_h_extents(f.font, &e) != 0
	return int(e.ascender), int(e.descender), int(e.line_gap), ok
}

// Seg is one recorded draw call: Op 0 move, 1 line, 2 quad, 3 cubic, 4 close.
type Seg struct {
	Op   int
	Args [6]float32
}

// Shape records hb_font_get_glyph_shape for the glyph.
func (f *Face) Shape(gid uint32) ([]Seg, error) {
	var n C.int
	p := C.vr_shape(f.font, C.hb_codepoint_t(gid), funcs, &n)
	if n < 0 {
		return nil, fmt.Errorf("recording failed")
	}
	if p == nil {
		return nil, nil
	}
	defer C.free(unsafe.Pointer(p))
	v := unsafe.Slice((*float32)(unsafe.Pointer(p)), int(n))
	var out []Seg
	for i := 0; i < len(v); {
		op := int(v[i])
		i++
		k := []int{2, 2, 4, 6, 0}[op]
		var s Seg
		s.Op = op
		copy(s.Args[:], v[i:i+k])
		i += k
		out = append(out, s)
	}
	return out, nil
}

// Axis mirrors hb_ot_var_axis_info_t.
type Axis struct {
	Tag           uint32
	Min, Def, Max float32
}

func (f *Face) HasVar() bool { return C.hb_ot_var_has_data(f.face) != 0 }

func (f *Face) Axes() []Axis {
	n := int(C.hb_ot_var_get_axis_count(f.face))
	if n == 0 {
		return nil
	}
	infos := make([]C.hb_ot_var_axis_info_t, n)
	cnt := C.uint(n)
	C.hb_ot_var_get_axis_infos(f.face, 0, &cnt, &infos[0])
	out := make([]Axis, int(cnt))
	for i := range out {
		out[i] = Axis{uint32(infos[i].tag), float32(infos[i].min_value), float32(infos[i].default_value), float32(infos[i].max_value)}
	}
	return out
}

// SetDesignCoords is hb_font_set_var_coords_design (nil resets to default).
func (f *Face) SetDesignCoords(coords []float32) {
	if len(coords) == 0 {
		C.hb_font_set_var_coords_design(f.font, nil, 0)
		return
	}
	c := make([]C.float, len(coords))
	for i, v := range coords {
		c[i] = C.float(v)
	}
	C.hb_font_set_var_coords_design(f.font, &c[0], C.uint(len(c)))
}

// Variation is hb_variation_t.
type Variation struct {
	Tag   uint32
	Value float32
}

// SetVariations is hb_font_set_variations.
func (f *Face) SetVariations(vs []Variation) {
	if len(vs) == 0 {
		C.hb_font_set_variations(f.font, nil, 0)
		return
	}
	c := make([]C.hb_variation_t, len(vs))
	for i, v := range vs {
		c[i].tag = C.hb_tag_t(v.Tag)
		c[i].value = C.float(v.Value)
	}
	C.hb_font_set_variations(f.font, &c[0], C.uint(len(c)))
}

// SetNormalizedCoords is hb_font_set_var_coords_normalized (2.14 values).
func (f *Face) SetNormalizedCoords(coords []int) {
	if len(coords) == 0 {
		C.hb_font_set_var_coords_normalized(f.font, nil, 0)
		return
	}
	c := make([]C.int, len(coords))
	for i, v := range coords {
		c[i] = C.int(v)
	}
	C.hb_font_set_var_coords_normalized(f.font, &c[0], C.uint(len(c)))
}

// NormalizedCoords is hb_font_get_var_coords_normalized (2.14 values).
func (f *Face) NormalizedCoords() []int {
	var n C.uint
	p := C.hb_font_get_var_coords_normalized(f.font, &n)
	if p == nil || n == 0 {
		return nil
	}
	v := unsafe.Slice((*C.int)(unsafe.Pointer(p)), int(n))
	out := make([]int, int(n))
	for i := range out {
		out[i] = int(v[i])
	}
	return out
}

// NormalizeCoords is hb_ot_var_normalize_coords: design → normalized 2.14 (avar applied).
func (f *Face) NormalizeCoords(design []float32) []int {
	if len(design) == 0 {
		return nil
	}
	c := make([]C.float, len(design))
	for i, v := range design {
		c[i] = C.float(v)
	}
	out := make([]C.int, len(design))
	C.hb_ot_var_normalize_coords(f.face, C.uint(len(c)), &c[0], &out[0])
	r := make([]int, len(out))
	for i := range r {
		r[i] = int(out[i])
	}
	return r
}

// NormalizeVariations is hb_ot_var_normalize_variations.
func (f *Face) NormalizeVariations(vs []Variation, nAxes int) []int {
	if nAxes == 0 {
		return nil
	}
	out := make([]C.int, nAxes)
	if len(vs) == 0 {
		C.hb_ot_var_normalize_variations(f.face, nil, 0, &out[0], C.uint(nAxes))
	} else {
		c := make([]C.hb_variation_t, len(vs))
		for i, v := range vs {
			c[i].tag = C.hb_tag_t(v.Tag)
			c[i].value = C.float(v.Value)
		}
		C.hb_ot_var_normalize_variations(f.face, &c[0], C.uint(len(c)), &out[0], C.uint(nAxes))
	}
	r := make([]int, nAxes)
	for i := range r {
		r[i] = int(out[i])
	}
	return r
}
