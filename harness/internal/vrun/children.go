package vrun

import (
	"encoding/binary"
	"fmt"
	"os"
	"os/exec"
	"path/filepath"
	"runtime"
	"sort"
	"strconv"
	"strings"
	"sync"
	"time"
)

// Exit code a worker uses when its own CPU watchdog fires.
const exitCPU = 97

// ChildCfg configures a child-process workload.
type ChildCfg struct {
	N         int           // number of cases
	Chunk     int           // cases per child invocation
	MemKiB    int           // address-space limit (ulimit -v); 0 = 6 GiB
	StallWall time.Duration // wall watchdog: journal unchanged for this long => kill (inconclusive until confirmed by CPU metering)
	Procs     int           // parallel children; 0 = GOMAXPROCS
	ExtraArgs []string      // appended to the child command line
}

// Death describes a confirmed child death attributed to one case.
type Death struct {
	Case   int
	Kind   string // "fatal" (runtime fatal error / signal), "cpu" (CPU budget exceeded), "stall"
	Detail string // tail of the child's stderr
}

// WorkDir returns (and creates) the per-property scratch directory.
func (r *Run) WorkDir() string {
	d := filepath.Join(VerifDir(), "work", r.Prop)
	os.MkdirAll(d, 0o755)
	return d
}

// WorkerLoop is the child side: it runs fn(i) for every case of the assigned
// range, journalling the case index before each call. cpuBudget is the per-case
// CPU-seconds budget enforced by an in-process watchdog reading the process CPU
// clock (the worker is single-goroutine, so process CPU ~ case CPU + GC).
func (r *Run) WorkerLoop(cpuBudget float64, fn func(i int)) {
	runtime.LockOSThread()
	jf, err := os.OpenFile(r.Journal, os.O_CREATE|os.O_RDWR, 0o644)
	if err != nil {
		fmt.Fprintln(os.Stderr, "journal:", err)
		os.Exit(3)
	}
	var mu sync.Mutex
	cur, curStart := -1, 0.0
	curBudget := cpuBudget
	// a case may lower the budget once it knows its own size (CaseBudget)
	r.caseBudget = func(b float64) {
		mu.Lock()
		if b > 0 && b < curBudget {
			curBudget = b
		}
		mu.Unlock()
	}
	write := func(i int, status int64) {
		var b [16]byte
		binary.LittleEndian.PutUint64(b[0:], uint64(int64(i)))
		binary.LittleEndian.PutUint64(b[8:], uint64(status))
		jf.WriteAt(b[:], 0)
	}
	if cpuBudget > 0 {
		go func() {
			for {
				time.Sleep(250 * time.Millisecond)
				mu.Lock()
				c, s, bud := cur, curStart, curBudget
				mu.Unlock()
				if c >= 0 && ProcessCPU()-s > bud {
					write(c, 1)
					fmt.Fprintf(os.Stderr, "worker: CPU budget %.1fs exceeded at case %d\n", bud, c)
					os.Exit(exitCPU)
				}
			}
		}()
	}
	for i := r.WorkerLo; i < r.WorkerHi; i++ {
		if r.Skip[i] {
			continue
		}
		mu.Lock()
		cur, curStart, curBudget = i, ProcessCPU(), cpuBudget
		mu.Unlock()
		write(i, 0)
		fn(i)
	}
	mu.Lock()
	cur = -1
	mu.Unlock()
	write(-1, 2)
	jf.Close()
}

// CaseBudget lowers the CPU watchdog budget of the case being run by WorkerLoop (a case
// that knows its input is small need not wait for the budget of the largest input before
// a hang is cut short). No effect outside a worker.
func (r *Run) CaseBudget(b float64) {
	if r.caseBudget != nil {
		r.caseBudget(b)
	}
}

func readJournal(path string) (idx int, status int64, ok bool) {
	b, err := os.ReadFile(path)
	if err != nil || len(b) < 16 {
		return 0, 0, false
	}
	return int(int64(binary.LittleEndian.Uint64(b[0:]))), int64(binary.LittleEndian.Uint64(b[8:])), true
}

type chunk struct {
	lo, hi int
	skip   []int
}

// RunChildren is the parent side. It partitions [0,N) into chunks, runs each in
// a child process of the same binary under an address-space limit, merges the
// children's state, and for every child death re-executes the journalled case
// alone to confirm before calling onDeath. Unconfirmed deaths are counted as
// inconclusive.
func (r *Run) RunChildren(cfg ChildCfg, onDeath func(d Death)) {
	exe, err := os.Executable()
	if err != nil {
		fmt.Fprintln(os.Stderr, err)
		os.Exit(3)
	}
	wd := r.WorkDir()
	// wipe old chunk files
	old, _ := filepath.Glob(filepath.Join(wd, "chunk-*"))
	for _, f := range old {
		os.Remove(f)
	}
	if cfg.Chunk <= 0 {
		cfg.Chunk = 500
	}
	if cfg.MemKiB <= 0 {
		cfg.MemKiB = 6 << 20
	}
	if cfg.StallWall <= 0 {
		cfg.StallWall = 300 * time.Second
	}
	procs := cfg.Procs
	if procs <= 0 {
		procs = runtime.GOMAXPROCS(0)
	}
	var qmu sync.Mutex
	var queue []chunk
	for lo := 0; lo < cfg.N; lo += cfg.Chunk {
		hi := lo + cfg.Chunk
		if hi > cfg.N {
			hi = cfg.N
		}
		queue = append(queue, chunk{lo: lo, hi: hi})
	}
	pop := func() (chunk, bool) {
		qmu.Lock()
		defer qmu.Unlock()
		if len(queue) == 0 {
			return chunk{}, false
		}
		c := queue[0]
		queue = queue[1:]
		return c, true
	}
	push := func(c chunk) {
		qmu.Lock()
		queue = append(queue, c)
		qmu.Unlock()
	}
	var inflight sync.WaitGroup
	var mergeMu sync.Mutex

	runOne := func(c chunk, tag string) (exit int, jIdx int, jStatus int64, stalled bool, tail string, out string) {
		base := filepath.Join(wd, fmt.Sprintf("chunk-%s-%d-%d", tag, c.lo, c.hi))
		out = base + ".state"
		journal := base + ".journal"
		logf := base + ".log"
		os.Remove(out)
		os.Remove(journal)
		skips := make([]string, len(c.skip))
		for i, s := range c.skip {
			skips[i] = strconv.Itoa(s)
		}
		args := []string{"--tier", r.Tier, "--seed", strconv.FormatInt(r.Seed, 10),
			"--worker", fmt.Sprintf("%d:%d:%s:%s", c.lo, c.hi, out, journal)}
		if len(skips) > 0 {
			args = append(args, "--skip", strings.Join(skips, ","))
		}
		args = append(args, cfg.ExtraArgs...)
		script := fmt.Sprintf("ulimit -v %d; ulimit -c 0; exec \"$0\" \"$@\"", cfg.MemKiB)
		cmd := exec.Command("bash", append([]string{"-c", script, exe}, args...)...)
		lf, _ := os.Create(logf)
		cmd.Stdout, cmd.Stderr = lf, lf
		cmd.Env = append(os.Environ(), "GOTRACEBACK=single", "GOMAXPROCS=2")
		if err := cmd.Start(); err != nil {
			lf.Close()
			return -1, 0, 0, false, err.Error(), out
		}
		done := make(chan error, 1)
		go func() { done <- cmd.Wait() }()
		lastIdx, lastChange := -2, time.Now()
		tick := time.NewTicker(2 * time.Second)
		defer tick.Stop()
	loop:
		for {
			select {
			case err = <-done:
				break loop
			case <-tick.C:
				idx, _, ok := readJournal(journal)
				if ok && idx != lastIdx {
					lastIdx, lastChange = idx, time.Now()
				} else if time.Since(lastChange) > cfg.StallWall {
					cmd.Process.Kill()
					err = <-done
					stalled = true
					break loop
				}
			}
		}
		lf.Close()
		exit = 0
		if err != nil {
			exit = -1
			if ee, ok := err.(*exec.ExitError); ok {
				exit = ee.ExitCode()
			}
		}
		jIdx, jStatus, _ = readJournal(journal)
		if exit != 0 {
			b, _ := os.ReadFile(logf)
			s := string(b)
			// keep the head of a goroutine dump: first lines carry the fatal error / panic text
			if len(s) > 3000 {
				s = s[:3000]
			}
			tail = s
		} else {
			os.Remove(logf)
		}
		os.Remove(journal)
		return
	}

	var dmu sync.Mutex
	var deaths []Death

	// After this many confirmed deaths the verdict cannot change any more; the remaining
	// chunks are dropped (each further hang would cost two watchdog periods).
	const maxDeaths = 40
	capped := false
	work := func() {
		defer inflight.Done()
		for {
			dmu.Lock()
			full := len(deaths) >= maxDeaths
			if full && !capped {
				capped = true
				r.Note("stopped after %d confirmed child deaths: the remaining cases were not run", len(deaths))
				r.Cover("stopped-early-after-confirmed-child-deaths")
			}
			dmu.Unlock()
			if full {
				qmu.Lock()
				queue = nil
				qmu.Unlock()
				return
			}
			c, ok := pop()
			if !ok {
				return
			}
			exit, jIdx, jStatus, stalled, tail, out := runOne(c, "w")
			if exit == 0 && !stalled {
				mergeMu.Lock()
				if err := r.MergeState(out); err != nil {
					r.Inconclusive("child state unreadable")
				}
				mergeMu.Unlock()
				os.Remove(out)
				continue
			}
			// child died: attribute to journalled case and confirm solo
			if jIdx < c.lo || jIdx >= c.hi {
				r.Inconclusive(fmt.Sprintf("child died outside a case (exit %d)", exit))
				r.Note("chunk %d-%d: exit %d journal=%d: %s", c.lo, c.hi, exit, jIdx, truncate(tail, 400))
				continue
			}
			kind := "fatal"
			if jStatus == 1 || exit == exitCPU {
				kind = "cpu"
			}
			if stalled {
				kind = "stall"
			}
			sexit, _, sStatus, sstalled, stail, sout := runOne(chunk{lo: jIdx, hi: jIdx + 1}, "solo")
			os.Remove(sout)
			switch {
			case sexit == 0 && !sstalled:
				r.Inconclusive("child death not reproduced when the case runs alone (" + kind + ")")
				r.Note("case %d: %s death not reproduced solo: %s", jIdx, kind, truncate(tail, 300))
			case sstalled:
				// a wall-clock stall alone is never a verdict; the CPU watchdog decides
				r.Inconclusive("wall-clock stall without CPU budget overrun")
			default:
				k := "fatal"
				if sStatus == 1 || sexit == exitCPU {
					k = "cpu"
				}
				dmu.Lock()
				deaths = append(deaths, Death{Case: jIdx, Kind: k, Detail: stail})
				dmu.Unlock()
			}
			c.skip = append(c.skip, jIdx)
			push(c)
		}
	}
	for k := 0; k < procs; k++ {
		inflight.Add(1)
		go work()
	}
	inflight.Wait()
	// a worker may have exited while another pushed a chunk back: drain
	for {
		qmu.Lock()
		n := len(queue)
		qmu.Unlock()
		if n == 0 {
			break
		}
		inflight.Add(1)
		work()
	}
	sort.Slice(deaths, func(i, j int) bool { return deaths[i].Case < deaths[j].Case })
	for _, d := range deaths {
		onDeath(d)
	}
}

// FatalHead extracts the first meaningful line of a crashed child's output
// ("fatal error: ...", "panic: ...", "runtime: ...").
func FatalHead(detail string) string {
	for _, l := range strings.Split(detail, "\n") {
		l = strings.TrimSpace(l)
		if strings.HasPrefix(l, "fatal error:") || strings.HasPrefix(l, "panic:") ||
			strings.HasPrefix(l, "runtime:") || strings.HasPrefix(l, "worker:") || strings.HasPrefix(l, "SIG") {
			if strings.HasPrefix(l, "runtime: out of memory") {
				return "runtime: out of memory" // the byte counts vary from run to run
			}
			return l
		}
	}
	if len(detail) > 120 {
		return detail[:120]
	}
	return detail
}
