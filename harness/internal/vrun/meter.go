package vrun

import (
	"runtime/metrics"
	"syscall"
	"unsafe"
)

const (
	clockProcessCPU = 2
	clockThreadCPU  = 3
)

func clockGettime(id int) float64 {
	var ts syscall.Timespec
	syscall.Syscall(syscall.SYS_CLOCK_GETTIME, uintptr(id), uintptr(unsafe.Pointer(&ts)), 0)
	return float64(ts.Sec) + float64(ts.Nsec)/1e9
}

// ThreadCPU returns the CPU seconds consumed by the calling OS thread. The
// caller must have called runtime.LockOSThread for the value to be meaningful.
func ThreadCPU() float64 { return clockGettime(clockThreadCPU) }

// ProcessCPU returns the CPU seconds consumed by the whole process.
func ProcessCPU() float64 { return clockGettime(clockProcessCPU) }

var allocSample = []metrics.Sample{{Name: "/gc/heap/allocs:bytes"}}

// AllocBytes returns the cumulative bytes allocated by the process (cheap,
// no stop-the-world). Only meaningful as a per-case delta when a single
// goroutine is doing the work (child-process workers).
func AllocBytes() uint64 {
	var s [1]metrics.Sample
	s[0].Name = allocSample[0].Name
	metrics.Read(s[:])
	return s[0].Value.Uint64()
}
