// Package vrun is the shared runtime of every property monitor: command line,
// deterministic seeds, evidence accounting, violation / known-finding
// reporting, replay files and worker pools.
package vrun

import (
	"crypto/sha256"
	"encoding/hex"
	"encoding/json"
	"flag"
	"fmt"
	"hash/fnv"
	"os"
	"path/filepath"
	"runtime"
	"runtime/debug"
	"sort"
	"strconv"
	"strings"
	"sync"
	"sync/atomic"
	"time"
)

// VerifDir is the root of the verification tree (the directory holding
// MANIFEST.json). It is derived from the executable location (bin/<id>) and
// can be overridden with VERIF_DIR.
func VerifDir() string {
	if d := os.Getenv("VERIF_DIR"); d != "" {
		return d
	}
	exe, err := os.Executable()
	if err == nil {
		d := filepath.Dir(filepath.Dir(exe))
		if _, err := os.Stat(filepath.Join(d, "properties.jsonl")); err == nil {
			return d
		}
	}
	return "/verif"
}

// Finding is one entry of known_findings.json.
type Finding struct {
	Property    string `json:"property"`
	ID          string `json:"id"`
	Status      string `json:"status"` // "open" | "fixed"
	Match       string `json:"match"`  // exact finding key reported by the monitor
	Description string `json:"description"`
	Predicted   string `json:"predicted,omitempty"`
	Commit      string `json:"commit,omitempty"`
	Line        string `json:"line,omitempty"` // "fixed: property=<id> <commit> <what failed>"
}

type findingsFile struct {
	Findings []Finding `json:"findings"`
}

// Violation is a refuted case.
type Violation struct {
	Key     string `json:"key"`
	Message string `json:"message"`
	Replay  string `json:"replay"`
}

// Run accumulates everything one check invocation observes.
type Run struct {
	caseBudget func(float64) // set by WorkerLoop

	Prop   string
	Tier   string
	Seed   int64
	Replay string // non-empty: replay this witness file instead of the workload
	Args   []string

	// worker mode (child process)
	Worker    bool
	WorkerLo  int
	WorkerHi  int
	WorkerOut string
	Journal   string
	Skip      map[int]bool

	start time.Time

	evals atomic.Int64

	mu        sync.Mutex
	nontriv   map[uint64]struct{}
	samples   []any
	maxSample int
	cover     map[string]int64
	inconcl   map[string]int64
	viol      []Violation
	violKeys  map[string]int
	known     []Finding
	knownHits map[string]int64
	knownEx   map[string]string
	extra     map[string]any
	notes     []string
}

// Start parses the command line shared by all monitors:
//
//	<bin> --tier quick|thorough [--replay file] [--worker lo hi out journal]
func Start(prop string) *Run {
	r := &Run{Prop: prop, start: time.Now(), maxSample: 6}
	fs := flag.NewFlagSet(prop, flag.ExitOnError)
	tier := fs.String("tier", os.Getenv("VERIF_TIER"), "quick|thorough")
	replay := fs.String("replay", "", "replay file")
	worker := fs.String("worker", "", "internal: lo:hi:out:journal")
	skip := fs.String("skip", "", "internal: comma separated case indices to skip")
	seed := fs.Int64("seed", -1, "override VERIF_SEED")
	fs.Parse(os.Args[1:])
	r.Args = fs.Args()
	r.Tier = *tier
	if r.Tier == "" {
		r.Tier = "quick"
	}
	if r.Tier != "quick" && r.Tier != "thorough" {
		fmt.Fprintf(os.Stderr, "bad tier %q\n", r.Tier)
		os.Exit(2)
	}
	r.Seed = 1
	if s := os.Getenv("VERIF_SEED"); s != "" {
		if v, err := strconv.ParseInt(strings.TrimSpace(s), 10, 64); err == nil {
			r.Seed = v
		}
	}
	if *seed >= 0 {
		r.Seed = *seed
	}
	r.Replay = *replay
	if *worker != "" {
		p := strings.SplitN(*worker, ":", 4)
		if len(p) != 4 {
			fmt.Fprintln(os.Stderr, "bad --worker")
			os.Exit(2)
		}
		r.Worker = true
		r.WorkerLo, _ = strconv.Atoi(p[0])
		r.WorkerHi, _ = strconv.Atoi(p[1])
		r.WorkerOut = p[2]
		r.Journal = p[3]
	}
	r.Skip = map[int]bool{}
	for _, s := range strings.Split(*skip, ",") {
		if s != "" {
			v, _ := strconv.Atoi(s)
			r.Skip[v] = true
		}
	}
	r.nontriv = map[uint64]struct{}{}
	r.cover = map[string]int64{}
	r.inconcl = map[string]int64{}
	r.violKeys = map[string]int{}
	r.knownHits = map[string]int64{}
	r.knownEx = map[string]string{}
	r.extra = map[string]any{}
	r.loadFindings()
	return r
}

func (r *Run) loadFindings() {
	b, err := os.ReadFile(filepath.Join(VerifDir(), "known_findings.json"))
	if err != nil {
		return
	}
	var f findingsFile
	if err := json.Unmarshal(b, &f); err != nil {
		fmt.Fprintf(os.Stderr, "known_findings.json: %v\n", err)
		os.Exit(2)
	}
	for _, e := range f.Findings {
		if e.Property == r.Prop {
			r.known = append(r.known, e)
		}
	}
}

// Thorough reports whether the thorough tier was requested.
func (r *Run) Thorough() bool { return r.Tier == "thorough" }

// Pick returns q for the quick tier and t for the thorough tier.
func (r *Run) Pick(q, t int) int {
	if r.Thorough() {
		return t
	}
	return q
}

// Eval counts executed cases.
func (r *Run) Eval(n int) { r.evals.Add(int64(n)) }

// Evals returns the number of cases counted so far.
func (r *Run) Evals() int64 { return r.evals.Load() }

// Nontrivial records the hash of a distinct non-trivial case.
func (r *Run) Nontrivial(h uint64) {
	r.mu.Lock()
	r.nontriv[h] = struct{}{}
	r.mu.Unlock()
}

// NontrivialCount returns the number of distinct non-trivial cases so far.
func (r *Run) NontrivialCount() int {
	r.mu.Lock()
	defer r.mu.Unlock()
	return len(r.nontriv)
}

// Sample keeps a written-out case for the evidence file (first few only).
func (r *Run) Sample(v any) {
	r.mu.Lock()
	if len(r.samples) < r.maxSample {
		r.samples = append(r.samples, v)
	}
	r.mu.Unlock()
}

// WantSample tells whether more samples are still wanted (cheap guard).
func (r *Run) WantSample() bool {
	r.mu.Lock()
	defer r.mu.Unlock()
	return len(r.samples) < r.maxSample
}

// Cover increments a coverage-class counter.
func (r *Run) Cover(class string) { r.CoverN(class, 1) }

// CoverN adds n to a coverage-class counter.
func (r *Run) CoverN(class string, n int64) {
	r.mu.Lock()
	r.cover[class] += n
	r.mu.Unlock()
}

// CoverGet reads a coverage counter.
func (r *Run) CoverGet(class string) int64 {
	r.mu.Lock()
	defer r.mu.Unlock()
	return r.cover[class]
}

// Inconclusive counts a case that could not be judged.
func (r *Run) Inconclusive(reason string) {
	r.mu.Lock()
	r.inconcl[reason]++
	r.mu.Unlock()
}

// Extra stores an additional key in coverage.
func (r *Run) Extra(k string, v any) {
	r.mu.Lock()
	r.extra[k] = v
	r.mu.Unlock()
}

// Note adds a free-text note to the evidence file.
func (r *Run) Note(format string, a ...any) {
	r.mu.Lock()
	r.notes = append(r.notes, fmt.Sprintf(format, a...))
	r.mu.Unlock()
}

// KnownOpen returns the open finding whose match equals key, if any.
func (r *Run) KnownOpen(key string) *Finding {
	for i := range r.known {
		if r.known[i].Status == "open" && r.known[i].Match == key {
			return &r.known[i]
		}
	}
	return nil
}

// OpenFindings lists this property's open findings.
func (r *Run) OpenFindings() []Finding {
	var out []Finding
	for _, f := range r.known {
		if f.Status == "open" {
			out = append(out, f)
		}
	}
	return out
}

// KnownHit records that an open known finding was observed (the monitor has
// already established that the observation is inside the finding's class and,
// where a predicted model exists, equals the prediction).
func (r *Run) KnownHit(id string, example string) {
	r.mu.Lock()
	r.knownHits[id]++
	if _, ok := r.knownEx[id]; !ok {
		r.knownEx[id] = example
	}
	r.mu.Unlock()
}

// Violation reports a refuted case. key identifies the failing input / call
// site; if an open known finding matches it exactly, the case is counted as a
// known finding instead. witness must be self-contained (it is written to the
// replay file).
func (r *Run) Violation(key, msg string, witness any) {
	if f := r.KnownOpen(key); f != nil {
		r.KnownHit(f.ID, msg)
		return
	}
	r.mu.Lock()
	defer r.mu.Unlock()
	r.violKeys[key]++
	if r.violKeys[key] > 1 || len(r.viol) >= 25 {
		// one replay file per key, at most 25 files
		if r.violKeys[key] == 1 {
			r.viol = append(r.viol, Violation{Key: key, Message: msg})
		}
		return
	}
	v := Violation{Key: key, Message: msg}
	v.Replay = r.writeReplay(key, msg, witness)
	r.viol = append(r.viol, v)
	if !r.Worker {
		fmt.Printf("VIOLATION property=%s replay=%s\n", r.Prop, v.Replay)
		fmt.Printf("  key=%s\n  %s\n", key, truncate(msg, 600))
	}
}

func truncate(s string, n int) string {
	if len(s) > n {
		return s[:n] + "…"
	}
	return s
}

func (r *Run) writeReplay(key, msg string, witness any) string {
	dir := filepath.Join(VerifDir(), "replays", r.Prop)
	if d := os.Getenv("VERIF_EVIDENCE_DIR"); d != "" {
		dir = filepath.Join(d, "replays", r.Prop) // scratch-repo runs keep their witnesses apart
	}
	os.MkdirAll(dir, 0o755)
	sum := sha256.Sum256([]byte(key))
	path := filepath.Join(dir, hex.EncodeToString(sum[:6])+".json")
	doc := map[string]any{
		"property": r.Prop, "tier": r.Tier, "seed": r.Seed,
		"key": key, "message": msg, "witness": witness,
	}
	b, err := json.MarshalIndent(doc, "", " ")
	if err != nil {
		b, _ = json.MarshalIndent(map[string]any{"property": r.Prop, "key": key, "message": msg,
			"witness": fmt.Sprintf("%+v", witness)}, "", " ")
	}
	os.WriteFile(path, b, 0o644)
	return path
}

// ReadReplay loads the witness of a replay file into v.
func ReadReplay(path string, v any) (key string, err error) {
	b, err := os.ReadFile(path)
	if err != nil {
		return "", err
	}
	var doc struct {
		Key     string          `json:"key"`
		Witness json.RawMessage `json:"witness"`
	}
	if err := json.Unmarshal(b, &doc); err != nil {
		return "", err
	}
	return doc.Key, json.Unmarshal(doc.Witness, v)
}

// Violations returns the number of distinct violation keys.
func (r *Run) Violations() int {
	r.mu.Lock()
	defer r.mu.Unlock()
	return len(r.violKeys)
}

// Hash64 is FNV-1a over the concatenated parts.
func Hash64(parts ...any) uint64 {
	h := fnv.New64a()
	for _, p := range parts {
		switch v := p.(type) {
		case string:
			h.Write([]byte(v))
		case []byte:
			h.Write(v)
		case []rune:
			var b [4]byte
			for _, c := range v {
				b[0], b[1], b[2], b[3] = byte(c), byte(c>>8), byte(c>>16), byte(c>>24)
				h.Write(b[:])
			}
		default:
			fmt.Fprintf(h, "%v", v)
		}
		h.Write([]byte{0xfe})
	}
	return h.Sum64()
}

// Catch runs f and returns a recovered panic value with the top frames inside
// the library, or nil.
func Catch(f func()) (pv any, where string) {
	defer func() {
		if e := recover(); e != nil {
			pv = e
			where = repoFrames(string(debug.Stack()), 6)
		}
	}()
	f()
	return nil, ""
}

// repoFrames extracts the first n stack frames that belong to go-text/typesetting.
func repoFrames(stack string, n int) string {
	lines := strings.Split(stack, "\n")
	var out []string
	for i := 0; i+1 < len(lines) && len(out) < n; i++ {
		l := lines[i]
		if strings.HasPrefix(l, "github.com/go-text/typesetting/") {
			fn := strings.TrimPrefix(l, "github.com/go-text/typesetting/")
			if k := strings.LastIndex(fn, "("); k > 0 {
				fn = fn[:k]
			}
			loc := strings.TrimSpace(lines[i+1])
			if k := strings.Index(loc, " +0x"); k > 0 {
				loc = loc[:k]
			}
			loc = strings.TrimPrefix(loc, "/repo/")
			out = append(out, fn+" "+loc)
		}
	}
	return strings.Join(out, " <- ")
}

// TopFrame returns the first frame description of a Catch "where" string with
// the line number stripped (stable key for a panic site).
func TopFrame(where string) string {
	f := where
	if k := strings.Index(f, " <- "); k >= 0 {
		f = f[:k]
	}
	if k := strings.Index(f, " "); k >= 0 {
		f = f[:k]
	}
	return f
}

// ParallelFor runs f(i) for i in [0,n) on GOMAXPROCS goroutines, in chunks.
func ParallelFor(n int, f func(i int)) {
	ParallelChunks(n, 0, func(lo, hi, _ int) {
		for i := lo; i < hi; i++ {
			f(i)
		}
	})
}

// ParallelChunks splits [0,n) into chunks and runs f(lo,hi,worker) on a pool.
// chunk<=0 picks a chunk size giving ~64 chunks per worker.
func ParallelChunks(n, chunk int, f func(lo, hi, worker int)) {
	w := runtime.GOMAXPROCS(0)
	if chunk <= 0 {
		chunk = n / (w * 64)
		if chunk < 1 {
			chunk = 1
		}
	}
	var next atomic.Int64
	var wg sync.WaitGroup
	for k := 0; k < w; k++ {
		wg.Add(1)
		go func(k int) {
			defer wg.Done()
			for {
				lo := int(next.Add(int64(chunk))) - chunk
				if lo >= n {
					return
				}
				hi := lo + chunk
				if hi > n {
					hi = n
				}
				f(lo, hi, k)
			}
		}(k)
	}
	wg.Wait()
}

// Options for Finish.
type Level struct {
	Level       string // exploration | fault_enumeration | other ...
	Rule        string
	Assumptions []string
	Floor       int  // minimal distinct_nontrivial for a conclusive run
	Exhaustive  bool // the run enumerated a finite space completely
}

type state struct {
	Evals     int64             `json:"evals"`
	Nontriv   []uint64          `json:"nontriv"`
	Samples   []any             `json:"samples"`
	Cover     map[string]int64  `json:"cover"`
	Inconcl   map[string]int64  `json:"inconcl"`
	Viol      []Violation       `json:"viol"`
	ViolKeys  map[string]int    `json:"viol_keys"`
	KnownHits map[string]int64  `json:"known_hits"`
	KnownEx   map[string]string `json:"known_ex"`
	Notes     []string          `json:"notes"`
}

// DumpState writes the accumulated counters (worker mode).
func (r *Run) DumpState(path string) error {
	r.mu.Lock()
	defer r.mu.Unlock()
	st := state{Evals: r.evals.Load(), Samples: r.samples, Cover: r.cover, Inconcl: r.inconcl,
		Viol: r.viol, ViolKeys: r.violKeys, KnownHits: r.knownHits, KnownEx: r.knownEx, Notes: r.notes}
	for h := range r.nontriv {
		st.Nontriv = append(st.Nontriv, h)
	}
	b, err := json.Marshal(st)
	if err != nil {
		return err
	}
	tmp := path + ".tmp"
	if err := os.WriteFile(tmp, b, 0o644); err != nil {
		return err
	}
	return os.Rename(tmp, path)
}

// MergeState adds a worker's dumped state.
func (r *Run) MergeState(path string) error {
	b, err := os.ReadFile(path)
	if err != nil {
		return err
	}
	var st state
	if err := json.Unmarshal(b, &st); err != nil {
		return err
	}
	r.evals.Add(st.Evals)
	r.mu.Lock()
	defer r.mu.Unlock()
	for _, h := range st.Nontriv {
		r.nontriv[h] = struct{}{}
	}
	for _, s := range st.Samples {
		if len(r.samples) < r.maxSample {
			r.samples = append(r.samples, s)
		}
	}
	for k, v := range st.Cover {
		r.cover[k] += v
	}
	for k, v := range st.Inconcl {
		r.inconcl[k] += v
	}
	for k, v := range st.KnownHits {
		r.knownHits[k] += v
		if _, ok := r.knownEx[k]; !ok {
			r.knownEx[k] = st.KnownEx[k]
		}
	}
	for _, v := range st.Viol {
		if r.violKeys[v.Key] == 0 {
			r.viol = append(r.viol, v)
			if v.Replay != "" {
				fmt.Printf("VIOLATION property=%s replay=%s\n  key=%s\n  %s\n", r.Prop, v.Replay, v.Key, truncate(v.Message, 600))
			}
		}
	}
	for k, v := range st.ViolKeys {
		r.violKeys[k] += v
	}
	r.notes = append(r.notes, st.Notes...)
	return nil
}

// Finish writes the evidence file, prints the summary lines and exits.
func (r *Run) Finish(lv Level) {
	if r.Worker {
		if err := r.DumpState(r.WorkerOut); err != nil {
			fmt.Fprintln(os.Stderr, "dump state:", err)
			os.Exit(3)
		}
		os.Exit(0)
	}
	r.mu.Lock()
	wall := time.Since(r.start).Seconds()
	cov := map[string]any{}
	for k, v := range r.extra {
		cov[k] = v
	}
	cov["evaluations"] = r.evals.Load()
	cov["distinct_nontrivial"] = len(r.nontriv)
	cov["rule"] = lv.Rule
	samples := r.samples
	if len(samples) == 0 {
		samples = []any{}
	}
	cov["samples"] = samples
	if lv.Exhaustive {
		cov["exhaustive"] = true
	}
	if len(r.cover) > 0 {
		cov["classes"] = r.cover
	}
	inconclTotal := int64(0)
	for _, v := range r.inconcl {
		inconclTotal += v
	}
	cov["inconclusive"] = r.inconcl
	cov["inconclusive_total"] = inconclTotal
	if len(r.knownHits) > 0 {
		cov["known_findings_observed"] = r.knownHits
	}
	if len(r.notes) > 0 {
		cov["notes"] = r.notes
	}
	conclusive := true
	if lv.Floor > 0 && len(r.nontriv) < lv.Floor && len(r.violKeys) == 0 && r.Replay == "" {
		conclusive = false
		cov["explanation"] = fmt.Sprintf("INCONCLUSIVE: only %d distinct non-trivial cases observed, floor is %d", len(r.nontriv), lv.Floor)
	}
	cov["verdict"] = map[bool]string{true: "held on what was observed", false: "inconclusive"}[conclusive]
	if len(r.violKeys) > 0 {
		cov["verdict"] = "violated"
		var vs []Violation
		vs = append(vs, r.viol...)
		cov["violation_list"] = vs
	}
	ev := map[string]any{
		"property_id": r.Prop,
		"tier":        r.Tier,
		"seed":        r.Seed,
		"level":       lv.Level,
		"coverage":    cov,
		"assumptions": lv.Assumptions,
		"wall_s":      wall,
		"violations":  len(r.violKeys),
	}
	nviol := len(r.violKeys)
	r.mu.Unlock()

	if r.Replay == "" {
		b, err := json.MarshalIndent(ev, "", " ")
		if err != nil {
			fmt.Fprintln(os.Stderr, "evidence:", err)
			os.Exit(3)
		}
		dir := filepath.Join(VerifDir(), "evidence")
		if d := os.Getenv("VERIF_EVIDENCE_DIR"); d != "" {
			dir = d
		}
		os.MkdirAll(dir, 0o755)
		if err := os.WriteFile(filepath.Join(dir, r.Prop+".json"), append(b, '\n'), 0o644); err != nil {
			fmt.Fprintln(os.Stderr, "evidence:", err)
			os.Exit(3)
		}
	}
	// known findings: one line per open finding observed
	ids := make([]string, 0, len(r.knownHits))
	for id := range r.knownHits {
		ids = append(ids, id)
	}
	sort.Strings(ids)
	for _, id := range ids {
		desc := id
		for _, f := range r.known {
			if f.ID == id {
				desc = f.ID + ": " + f.Description
			}
		}
		fmt.Printf("KNOWN-FINDING: property=%s %s (observed %d times; e.g. %s)\n", r.Prop, desc, r.knownHits[id], truncate(r.knownEx[id], 200))
	}
	for _, f := range r.known {
		if f.Status == "open" && r.knownHits[f.ID] == 0 && r.Replay == "" {
			fmt.Printf("NOTE property=%s open finding %s was not observed in this run\n", r.Prop, f.ID)
		}
	}
	if !conclusive {
		fmt.Printf("INCONCLUSIVE property=%s %s\n", r.Prop, cov["explanation"])
	}
	fmt.Printf("SUMMARY property=%s tier=%s seed=%d evaluations=%d distinct_nontrivial=%d inconclusive=%d violations=%d wall=%.1fs\n",
		r.Prop, r.Tier, r.Seed, r.evals.Load(), len(r.nontriv), inconclTotal, nviol, wall)
	if nviol > 0 {
		// make sure every key has a VIOLATION line
		for _, v := range r.viol {
			if v.Replay == "" {
				fmt.Printf("VIOLATION property=%s replay=%s\n  key=%s (replay file limit reached)\n", r.Prop, filepath.Join(VerifDir(), "replays", r.Prop), v.Key)
			}
		}
		os.Exit(1)
	}
	os.Exit(0)
}
