package gen

import (
	"bufio"
	"os"
	"path/filepath"
	"strconv"
	"strings"
	"sync"
)

// Script alphabets: consonants/letters, marks (vowel signs, viramas, joiners), digits.
type alphabet struct {
	Name    string
	Letters []rune
	Marks   []rune
	Others  []rune
}

func rng(lo, hi rune) []rune {
	var out []rune
	for r := lo; r <= hi; r++ {
		out = append(out, r)
	}
	return out
}

func cat(rs ...[]rune) []rune {
	var out []rune
	for _, r := range rs {
		out = append(out, r...)
	}
	return out
}

// Alphabets lists per-script building blocks for syllable-shaped and
// deliberately ill-formed sequences.
var Alphabets = []alphabet{
	{"latin", cat(rng('a', 'z'), rng('A', 'Z'), []rune("fiflffiæœßĳ")), []rune{0x300, 0x301, 0x302, 0x308, 0x323, 0x327, 0x30A, 0x20DD}, cat(rng('0', '9'), []rune(" .,;:-/⁄'\"()‐–—…"))},
	{"greek-cyrillic", cat(rng(0x391, 0x3C9), rng(0x410, 0x44F)), []rune{0x301, 0x308, 0x342, 0x345, 0x483}, []rune(" .,-0123456789")},
	{"arabic", cat(rng(0x621, 0x64A), []rune{0x671, 0x67E, 0x686, 0x698, 0x6A9, 0x6AF, 0x6CC, 0x6D2, 0x6C1}), cat(rng(0x64B, 0x655), []rune{0x670, 0x640, 0x200D, 0x200C, 0x6D6, 0x6DC}), cat(rng(0x660, 0x669), rng(0x6F0, 0x6F9), []rune(" ،؛؟.-"))},
	{"hebrew", rng(0x5D0, 0x5EA), cat(rng(0x5B0, 0x5BD), []rune{0x5BF, 0x5C1, 0x5C2, 0x5C4, 0x5C5, 0x5C7, 0x591, 0x5A3}), []rune(" ־׳״.0123456789")},
	{"syriac-thaana-nko", cat(rng(0x710, 0x72F), rng(0x780, 0x7A5), rng(0x7CA, 0x7EA)), cat(rng(0x730, 0x74A), rng(0x7A6, 0x7B0), rng(0x7EB, 0x7F3)), []rune(" ")},
	{"devanagari", cat(rng(0x904, 0x939), rng(0x958, 0x961)), cat(rng(0x93A, 0x94F), []rune{0x900, 0x901, 0x902, 0x903, 0x951, 0x952, 0x200D, 0x200C, 0x93C, 0x94D}), cat(rng(0x966, 0x96F), []rune(" ।॥."))},
	{"bengali", cat(rng(0x985, 0x9B9), []rune{0x9CE, 0x9DC, 0x9DD, 0x9DF, 0x9F0, 0x9F1}), cat(rng(0x9BC, 0x9CD), []rune{0x981, 0x982, 0x983, 0x9D7, 0x200D, 0x200C}), cat(rng(0x9E6, 0x9EF), []rune(" "))},
	{"gurmukhi-gujarati", cat(rng(0xA05, 0xA39), rng(0xA85, 0xAB9)), cat(rng(0xA3C, 0xA4D), rng(0xABC, 0xACD), []rune{0xA70, 0xA71, 0xA01, 0xA02, 0xA81, 0xA82, 0x200D}), []rune(" ")},
	{"oriya-tamil", cat(rng(0xB05, 0xB39), rng(0xB85, 0xBB9)), cat(rng(0xB3C, 0xB4D), rng(0xBBE, 0xBCD), []rune{0xB01, 0xB02, 0xB82, 0xBD7, 0x200D, 0x200C}), cat(rng(0xBE6, 0xBEF), []rune(" "))},
	{"telugu-kannada", cat(rng(0xC05, 0xC39), rng(0xC85, 0xCB9)), cat(rng(0xC3E, 0xC4D), rng(0xCBC, 0xCCD), []rune{0xC01, 0xC02, 0xC03, 0xC55, 0xC56, 0xCD5, 0xCD6, 0x200D, 0x200C}), []rune(" ")},
	{"malayalam-sinhala", cat(rng(0xD05, 0xD3A), rng(0xD85, 0xDC6), rng(0xD7A, 0xD7F)), cat(rng(0xD3B, 0xD4D), rng(0xDCA, 0xDDF), []rune{0xD02, 0xD03, 0xD57, 0xD82, 0xD83, 0xDF2, 0xDF3, 0x200D, 0x200C}), []rune(" ")},
	{"thai-lao", cat(rng(0xE01, 0xE2E), rng(0xE81, 0xEAE), []rune{0xE40, 0xE41, 0xE42, 0xE43, 0xE44, 0xEC0, 0xEC1}), cat(rng(0xE30, 0xE3A), rng(0xE47, 0xE4E), rng(0xEB0, 0xEBC), rng(0xEC8, 0xECD)), cat(rng(0xE50, 0xE59), []rune(" ๆฯ"))},
	{"tibetan", cat(rng(0xF40, 0xF6C), []rune{0xF00, 0xF0B, 0xF0D}), cat(rng(0xF71, 0xF84), rng(0xF90, 0xFBC), []rune{0xF35, 0xF37, 0xF39, 0xF18, 0xF19}), cat(rng(0xF20, 0xF29), []rune(" "))},
	{"myanmar", cat(rng(0x1000, 0x102A), []rune{0x103F, 0x104E, 0x1050, 0x1051, 0x105A, 0x1075, 0x1076}), cat(rng(0x102B, 0x103E), rng(0x1056, 0x1059), rng(0x105E, 0x1060), []rune{0x1062, 0x1071, 0x1082, 0x1087, 0x108D, 0x200D, 0x200C}), cat(rng(0x1040, 0x1049), []rune(" ၊။"))},
	{"khmer", rng(0x1780, 0x17B3), cat(rng(0x17B6, 0x17D3), []rune{0x17DD, 0x200D, 0x200C}), cat(rng(0x17E0, 0x17E9), []rune(" ។ៗ"))},
	{"hangul", cat(rng(0x1100, 0x1112), rng(0xAC00, 0xAC40), []rune{0xD7A3, 0x3131, 0x314F}), cat(rng(0x1161, 0x1175), rng(0x11A8, 0x11C2), []rune{0x302E, 0x302F, 0x115F, 0x1160}), []rune(" ")},
	{"cjk-kana", cat(rng(0x3041, 0x3096), rng(0x30A1, 0x30FA), rng(0x4E00, 0x4E40), []rune{0x3005, 0x3007, 0x9FA0, 0xFF21, 0xFF41}), []rune{0x3099, 0x309A, 0x302A, 0xFE00, 0xFE01, 0xE0100, 0xE0101}, []rune("、。「」（）・ー 　0123")},
	{"use-scripts", cat(rng(0x1A20, 0x1A54), rng(0x1B05, 0x1B33), rng(0xAA00, 0xAA28), rng(0x11400, 0x11434), rng(0x1B83, 0x1BA0), rng(0xA984, 0xA9B2), rng(0x1C00, 0x1C23)), cat(rng(0x1A55, 0x1A7F), rng(0x1B34, 0x1B44), rng(0xAA29, 0xAA36), rng(0x11435, 0x11446), rng(0x1BA1, 0x1BAD), rng(0xA9B3, 0xA9C0), rng(0x1C24, 0x1C37), []rune{0x1B00, 0x1B04, 0x200D, 0x200C, 0x25CC}), []rune(" ")},
	{"mongolian-phags", cat(rng(0x1820, 0x1878), rng(0xA840, 0xA873)), []rune{0x180B, 0x180C, 0x180D, 0x180E, 0x200D, 0x202F, 0x1885, 0x1886}, []rune(" ᠂᠃")},
	{"ethiopic-cherokee-misc", cat(rng(0x1200, 0x1248), rng(0x13A0, 0x13F4), rng(0x10A0, 0x10C5), rng(0x531, 0x556), rng(0x2D30, 0x2D67)), []rune{0x135D, 0x135E, 0x135F, 0x2D7F}, []rune(" ፡።")},
	{"emoji-symbols", []rune{0x1F600, 0x1F468, 0x1F469, 0x1F466, 0x1F467, 0x2764, 0x1F3F3, 0x1F308, 0x1F1E6, 0x1F1E7, 0x1F1FA, 0x1F1F8, 0x261D, 0x1F44D, 0x23, 0x2A, 0x31, 0x1F9D1, 0x2640, 0x2642, 0x1F3F4}, []rune{0x200D, 0xFE0F, 0xFE0E, 0x1F3FB, 0x1F3FD, 0x1F3FF, 0x20E3, 0xE0067, 0xE0062, 0xE007F}, []rune(" ")},
}

// Special code points: controls, default ignorables, variation selectors,
// surrogates, noncharacters, unassigned, spaces, fraction slash, bidi controls.
var Specials = []rune{
	0x0, 0x1, 0x9, 0xA, 0xD, 0x1F, 0x7F, 0x85, 0xA0, 0xAD, 0x34F, 0x61C, 0x115F, 0x1160, 0x17B4, 0x17B5,
	0x180B, 0x180E, 0x2000, 0x2002, 0x2003, 0x2009, 0x200A, 0x200B, 0x200C, 0x200D, 0x200E, 0x200F, 0x2010, 0x2011,
	0x2028, 0x2029, 0x202A, 0x202B, 0x202C, 0x202D, 0x202E, 0x202F, 0x205F, 0x2060, 0x2061, 0x2066, 0x2067, 0x2068, 0x2069, 0x206A, 0x206F,
	0x2044, 0x25CC, 0x3000, 0x3164, 0xFE00, 0xFE0F, 0xFEFF, 0xFFA0, 0xFFF0, 0xFFF9, 0xFFFC, 0xFFFD, 0xFFFE, 0xFFFF,
	0xD800, 0xDBFF, 0xDC00, 0xDFFF, 0xFDD0, 0xFDEF, 0x1FFFE, 0x1FFFF, 0x10FFFE, 0x10FFFF,
	0x378, 0x530, 0x2FE0, 0xE0000, 0xE0001, 0xE0020, 0xE007F, 0xE0100, 0xE01EF, 0xE0FFF, 0xE1000, 0x1BCA0, 0x1D173, 0x1D17A, 0xF0000, 0x100000,
	0x0338, 0x20D2, 0x3099, 0x0F39, 0x1DC0, 0x1AB0, 0xFE20, 0x101FD, 0x1E8D0, 0x1E944,
}

// ScriptText builds a text of about n runes from one alphabet: syllable-shaped
// sequences mixed with ill-formed ones (marks first, doubled marks, joiner
// runs, dotted circle).
func ScriptText(r *RNG, ab int, n int) []rune {
	a := Alphabets[ab%len(Alphabets)]
	var out []rune
	for len(out) < n {
		switch r.Intn(10) {
		case 0: // mark first / doubled marks
			out = append(out, Pick(r, a.Marks))
			if r.Bool() {
				out = append(out, Pick(r, a.Marks))
			}
		case 1:
			out = append(out, Pick(r, a.Others))
		case 2: // joiner runs
			out = append(out, Pick(r, a.Letters), Pick(r, []rune{0x200D, 0x200C, 0x034F, 0x2060}), Pick(r, a.Letters))
		case 3: // conjunct-like: L M L M
			m := Pick(r, a.Marks)
			out = append(out, Pick(r, a.Letters), m, Pick(r, a.Letters), m, Pick(r, a.Letters))
		case 4:
			out = append(out, 0x25CC, Pick(r, a.Marks))
		case 5:
			out = append(out, Pick(r, Specials))
		default: // syllable: letter + 0..3 marks
			out = append(out, Pick(r, a.Letters))
			for k := r.Intn(4); k > 0; k-- {
				out = append(out, Pick(r, a.Marks))
			}
		}
	}
	return out
}

// SpecialText is built from the special code points with a few letters in between.
func SpecialText(r *RNG, n int) []rune {
	var out []rune
	for len(out) < n {
		if r.Chance(2, 3) {
			out = append(out, Pick(r, Specials))
		} else {
			a := Alphabets[r.Intn(len(Alphabets))]
			out = append(out, Pick(r, a.Letters))
		}
	}
	return out
}

// CmapLocalText draws runes from a sorted list of mapped runes with locality: a
// window of 40 consecutive mapped runes.
func CmapLocalText(r *RNG, mapped []rune, n int) []rune {
	if len(mapped) == 0 {
		return nil
	}
	var out []rune
	w := 40
	base := r.Intn(len(mapped))
	for len(out) < n {
		if r.Chance(1, 12) {
			base = r.Intn(len(mapped))
		}
		k := base + r.Intn(w)
		if k >= len(mapped) {
			k = len(mapped) - 1
		}
		out = append(out, mapped[k])
	}
	return out
}

var (
	realOnce  sync.Once
	realTexts [][]rune
)

// RealTexts returns the sample paragraphs of typesetting-utils (perf_reference/texts).
func RealTexts(utilsDir string) [][]rune {
	realOnce.Do(func() {
		files, _ := filepath.Glob(filepath.Join(utilsDir, "harfbuzz/perf_reference/texts/*.txt"))
		for _, f := range files {
			b, err := os.ReadFile(f)
			if err != nil {
				continue
			}
			if len(b) > 200000 {
				b = b[:200000]
			}
			realTexts = append(realTexts, []rune(string(b)))
		}
	})
	return realTexts
}

// RealSnippet cuts a snippet of about n runes from the real texts.
func RealSnippet(r *RNG, utilsDir string, n int) []rune {
	ts := RealTexts(utilsDir)
	if len(ts) == 0 {
		return []rune("the quick brown fox")
	}
	t := ts[r.Intn(len(ts))]
	if len(t) <= n {
		return t
	}
	s := r.Intn(len(t) - n)
	return append([]rune(nil), t[s:s+n]...)
}

var (
	upOnce sync.Once
	upText map[string][][]rune
)

// UpstreamTexts maps a font file base name to the input strings of the
// upstream .tests files that use it.
func UpstreamTexts(utilsDir string) map[string][][]rune {
	upOnce.Do(func() {
		upText = map[string][][]rune{}
		files, _ := filepath.Glob(filepath.Join(utilsDir, "harfbuzz/harfbuzz_reference/*/tests/*.tests"))
		for _, f := range files {
			fh, err := os.Open(f)
			if err != nil {
				continue
			}
			sc := bufio.NewScanner(fh)
			sc.Buffer(make([]byte, 1<<20), 1<<22)
			for sc.Scan() {
				line := sc.Text()
				if strings.HasPrefix(line, "#") {
					continue
				}
				parts := strings.Split(line, ";")
				if len(parts) < 3 {
					continue
				}
				base := filepath.Base(strings.TrimPrefix(parts[0], "@"))
				var text []rune
				for _, u := range strings.Split(parts[2], ",") {
					u = strings.TrimSpace(u)
					u = strings.TrimPrefix(strings.TrimPrefix(u, "U+"), "u+")
					v, err := strconv.ParseUint(u, 16, 32)
					if err != nil || v > 0x10FFFF {
						text = nil
						break
					}
					text = append(text, rune(v))
				}
				if len(text) > 0 && len(text) < 400 {
					upText[base] = append(upText[base], text)
				}
			}
			fh.Close()
		}
	})
	return upText
}

// MutateText applies one small mutation: substring, concatenation with another
// text, adjacent swap, neighbour replacement, insertion of a mark/joiner/space.
func MutateText(r *RNG, t []rune, other []rune, mapped []rune) []rune {
	t = append([]rune(nil), t...)
	if len(t) == 0 {
		return t
	}
	switch r.Intn(6) {
	case 0:
		a := r.Intn(len(t))
		b := a + 1 + r.Intn(len(t)-a)
		t = t[a:b]
	case 1:
		t = append(t, other...)
	case 2:
		if len(t) > 1 {
			i := r.Intn(len(t) - 1)
			t[i], t[i+1] = t[i+1], t[i]
		}
	case 3:
		if len(mapped) > 0 {
			t[r.Intn(len(t))] = mapped[r.Intn(len(mapped))]
		}
	case 4:
		i := r.Intn(len(t) + 1)
		ins := Pick(r, []rune{0x200D, 0x200C, 0x20, 0x301, 0x64E, 0x94D, 0x25CC, 0xFE0F, 0x34F})
		t = append(t[:i], append([]rune{ins}, t[i:]...)...)
	default:
		if len(t) > 2 {
			i := r.Intn(len(t))
			t = append(t[:i], t[i+1:]...)
		}
	}
	if len(t) > 300 {
		t = t[:300]
	}
	return t
}
