// Package gen holds the deterministic generators shared by the monitors.
package gen

import "hash/fnv"

// RNG is SplitMix64. Every workload is a pure function of (seed, stream, index).
type RNG struct{ s uint64 }

// New derives a stream from the run seed, a stream name and a case index.
func New(seed int64, stream string, idx int) *RNG {
	h := fnv.New64a()
	h.Write([]byte(stream))
	r := &RNG{s: uint64(seed)*0x9E3779B97F4A7C15 ^ h.Sum64() ^ (uint64(idx)+1)*0xD1B54A32D192ED03}
	r.U64()
	r.U64()
	return r
}

func (r *RNG) U64() uint64 {
	r.s += 0x9E3779B97F4A7C15
	z := r.s
	z = (z ^ (z >> 30)) * 0xBF58476D1CE4E5B9
	z = (z ^ (z >> 27)) * 0x94D049BB133111EB
	return z ^ (z >> 31)
}

// Intn returns a value in [0,n). n must be > 0.
func (r *RNG) Intn(n int) int { return int(r.U64() % uint64(n)) }

// Range returns a value in [lo,hi].
func (r *RNG) Range(lo, hi int) int { return lo + r.Intn(hi-lo+1) }

// Bool returns true with probability 1/2.
func (r *RNG) Bool() bool { return r.U64()&1 == 1 }

// Chance returns true with probability num/den.
func (r *RNG) Chance(num, den int) bool { return r.Intn(den) < num }

// Pick returns a random element.
func Pick[T any](r *RNG, xs []T) T { return xs[r.Intn(len(xs))] }

// Shuffle permutes xs in place.
func Shuffle[T any](r *RNG, xs []T) {
	for i := len(xs) - 1; i > 0; i-- {
		j := r.Intn(i + 1)
		xs[i], xs[j] = xs[j], xs[i]
	}
}
