// Package uax29 is a reference transcription of the grapheme-cluster and word
// boundary rules of UAX #29 as of Unicode 14.0 / 15.0 (revisions 39 / 41; the
// word rules are unchanged in revision 43 / Unicode 15.1, the grapheme rules of
// 15.1 add GB9c which needs a property the library does not carry).
//
// Like package uax14 it works on class strings and decides every position on
// its own, rules tried in specification order, each rule an explicit pattern
// matched by scanning backwards / forwards from the position.
package uax29

// ---------------------------------------------------------------- graphemes

// GClass is a Grapheme_Cluster_Break value.
type GClass uint8

const (
	GOther GClass = iota
	GCR
	GLF
	GControl
	GExtend
	GZWJ
	GRI
	GPrepend
	GSpacingMark
	GL
	GV
	GT
	GLV
	GLVT
	NGClass
)

var gNames = [NGClass]string{"Other", "CR", "LF", "Control", "Extend", "ZWJ", "RI", "Prepend", "SpacingMark", "L", "V", "T", "LV", "LVT"}

func (c GClass) String() string { return gNames[c] }

// GChar is one character as the grapheme rules see it.
type GChar struct {
	Class   GClass
	ExtPict bool // Extended_Pictographic
}

type GRule uint8

const (
	GB1 GRule = iota
	GB2
	GB3
	GB4
	GB5
	GB6
	GB7
	GB8
	GB9
	GB9a
	GB9b
	GB11
	GB12_13
	GB999
	NGRule
)

var gRuleNames = [NGRule]string{"GB1", "GB2", "GB3", "GB4", "GB5", "GB6", "GB7", "GB8", "GB9", "GB9a", "GB9b", "GB11", "GB12-13", "GB999"}

func (r GRule) String() string { return gRuleNames[r] }

// Number is the rule number used in the comments of GraphemeBreakTest.txt.
func (r GRule) Number() int {
	switch r {
	case GB1:
		return 1 // printed as 0.2
	case GB2:
		return 2 // printed as 0.3
	case GB12_13:
		return 12 // 12.0 or 13.0
	case GB999:
		return 999
	}
	s := gRuleNames[r][2:]
	n := 0
	for _, c := range s {
		if c < '0' || c > '9' {
			break
		}
		n = n*10 + int(c-'0')
	}
	return n
}

type GDecision struct {
	Break bool
	Rule  GRule
}

// Graphemes returns one decision per position 0..len(c).
func Graphemes(c []GChar) []GDecision {
	n := len(c)
	out := make([]GDecision, n+1)
	for i := 0; i <= n; i++ {
		out[i] = gDecide(c, i)
	}
	return out
}

func gDecide(c []GChar, i int) GDecision {
	n := len(c)
	brk := func(r GRule) GDecision { return GDecision{true, r} }
	no := func(r GRule) GDecision { return GDecision{false, r} }
	// GB1: sot ÷ Any;  GB2: Any ÷ eot
	if i == 0 {
		return brk(GB1)
	}
	if i == n {
		return brk(GB2)
	}
	a, b := c[i-1].Class, c[i].Class
	// GB3: CR × LF
	if a == GCR && b == GLF {
		return no(GB3)
	}
	// GB4: (Control | CR | LF) ÷
	if a == GControl || a == GCR || a == GLF {
		return brk(GB4)
	}
	// GB5: ÷ (Control | CR | LF)
	if b == GControl || b == GCR || b == GLF {
		return brk(GB5)
	}
	// GB6: L × (L | V | LV | LVT)
	if a == GL && (b == GL || b == GV || b == GLV || b == GLVT) {
		return no(GB6)
	}
	// GB7: (LV | V) × (V | T)
	if (a == GLV || a == GV) && (b == GV || b == GT) {
		return no(GB7)
	}
	// GB8: (LVT | T) × T
	if (a == GLVT || a == GT) && b == GT {
		return no(GB8)
	}
	// GB9: × (Extend | ZWJ)
	if b == GExtend || b == GZWJ {
		return no(GB9)
	}
	// GB9a: × SpacingMark
	if b == GSpacingMark {
		return no(GB9a)
	}
	// GB9b: Prepend ×
	if a == GPrepend {
		return no(GB9b)
	}
	// GB11: \p{Extended_Pictographic} Extend* ZWJ × \p{Extended_Pictographic}
	if c[i].ExtPict && a == GZWJ {
		j := i - 2
		for j >= 0 && c[j].Class == GExtend {
			j--
		}
		if j >= 0 && c[j].ExtPict {
			return no(GB11)
		}
	}
	// GB12: sot (RI RI)* RI × RI;  GB13: [^RI] (RI RI)* RI × RI
	if b == GRI {
		cnt := 0
		for j := i - 1; j >= 0 && c[j].Class == GRI; j-- {
			cnt++
		}
		if cnt%2 == 1 {
			return no(GB12_13)
		}
	}
	// GB999: Any ÷ Any
	return brk(GB999)
}

// -------------------------------------------------------------------- words

// WClass is a Word_Break value.
type WClass uint8

const (
	WOther WClass = iota
	WCR
	WLF
	WNewline
	WExtend // Extend or Format: no rule tells them apart
	WZWJ
	WRI
	WKatakana
	WHebrew
	WALetter
	WSingleQuote
	WDoubleQuote
	WMidNumLet
	WMidLetter
	WMidNum
	WNumeric
	WExtendNumLet
	WSegSpace
	NWClass
)

var wNames = [NWClass]string{"Other", "CR", "LF", "Newline", "Extend|Format", "ZWJ", "RI", "Katakana", "Hebrew_Letter", "ALetter",
	"Single_Quote", "Double_Quote", "MidNumLet", "MidLetter", "MidNum", "Numeric", "ExtendNumLet", "WSegSpace"}

func (c WClass) String() string { return wNames[c] }

type WChar struct {
	Class   WClass
	ExtPict bool
}

type WRule uint8

const (
	WB1 WRule = iota
	WB2
	WB3
	WB3a
	WB3b
	WB3c
	WB3d
	WB4
	WB5
	WB6
	WB7
	WB7a
	WB7b
	WB7c
	WB8
	WB9
	WB10
	WB11
	WB12
	WB13
	WB13a
	WB13b
	WB15_16
	WB999
	NWRule
)

var wRuleNames = [NWRule]string{"WB1", "WB2", "WB3", "WB3a", "WB3b", "WB3c", "WB3d", "WB4", "WB5", "WB6", "WB7", "WB7a", "WB7b", "WB7c",
	"WB8", "WB9", "WB10", "WB11", "WB12", "WB13", "WB13a", "WB13b", "WB15-16", "WB999"}

func (r WRule) String() string { return wRuleNames[r] }

// Tag is the rule tag used in the comments of WordBreakTest.txt.
func (r WRule) Tag() string {
	switch r {
	case WB1:
		return "0.2"
	case WB2:
		return "0.3"
	case WB3:
		return "3.0"
	case WB3a:
		return "3.1"
	case WB3b:
		return "3.2"
	case WB3c:
		return "3.3"
	case WB3d:
		return "3.4"
	case WB4:
		return "4.0"
	case WB5:
		return "5.0"
	case WB6:
		return "6.0"
	case WB7:
		return "7.0"
	case WB7a:
		return "7.1"
	case WB7b:
		return "7.2"
	case WB7c:
		return "7.3"
	case WB8:
		return "8.0"
	case WB9:
		return "9.0"
	case WB10:
		return "10.0"
	case WB11:
		return "11.0"
	case WB12:
		return "12.0"
	case WB13:
		return "13.0"
	case WB13a:
		return "13.1"
	case WB13b:
		return "13.2"
	case WB15_16:
		return "15.0|16.0"
	}
	return "999.0"
}

type WDecision struct {
	Break bool
	Rule  WRule
}

func isNL(c WClass) bool  { return c == WCR || c == WLF || c == WNewline }
func isEFZ(c WClass) bool { return c == WExtend || c == WZWJ }
func isAHL(c WClass) bool { return c == WALetter || c == WHebrew }
func isMidNumLetQ(c WClass) bool {
	return c == WMidNumLet || c == WSingleQuote
}

// Words returns one decision per position 0..len(c).
func Words(c []WChar) []WDecision {
	n := len(c)
	out := make([]WDecision, n+1)
	for i := 0; i <= n; i++ {
		out[i] = wDecide(c, i)
	}
	return out
}

// ignored tells whether character k is skipped by WB4: an Extend, Format or
// ZWJ that does not stand at the start of text and does not follow CR, LF or
// Newline ("X (Extend | Format | ZWJ)* -> X", "except after sot, CR, LF, and Newline").
func ignored(c []WChar, k int) bool {
	return isEFZ(c[k].Class) && k > 0 && !isNL(c[k-1].Class)
}

func wDecide(c []WChar, i int) WDecision {
	n := len(c)
	brk := func(r WRule) WDecision { return WDecision{true, r} }
	no := func(r WRule) WDecision { return WDecision{false, r} }
	// WB1: sot ÷ Any;  WB2: Any ÷ eot
	if i == 0 {
		return brk(WB1)
	}
	if i == n {
		return brk(WB2)
	}
	a, b := c[i-1].Class, c[i].Class
	// WB3: CR × LF
	if a == WCR && b == WLF {
		return no(WB3)
	}
	// WB3a: (Newline | CR | LF) ÷
	if isNL(a) {
		return brk(WB3a)
	}
	// WB3b: ÷ (Newline | CR | LF)
	if isNL(b) {
		return brk(WB3b)
	}
	// WB3c: ZWJ × \p{Extended_Pictographic}
	if a == WZWJ && c[i].ExtPict {
		return no(WB3c)
	}
	// WB3d: WSegSpace × WSegSpace
	if a == WSegSpace && b == WSegSpace {
		return no(WB3d)
	}
	// WB4: X (Extend | Format | ZWJ)* -> X ; so no break before Extend, Format, ZWJ
	if isEFZ(b) {
		return no(WB4)
	}
	// the skeleton around the position, ignored characters skipped
	p1 := i - 1
	for ignored(c, p1) {
		p1--
	}
	p2 := p1 - 1
	for p2 >= 0 && ignored(c, p2) {
		p2--
	}
	n1 := i + 1
	for n1 < n && ignored(c, n1) {
		n1++
	}
	const none = NWClass
	P, PP, C, N := c[p1].Class, WClass(none), b, WClass(none)
	if p2 >= 0 {
		PP = c[p2].Class
	}
	if n1 < n {
		N = c[n1].Class
	}
	// WB5: AHLetter × AHLetter
	if isAHL(P) && isAHL(C) {
		return no(WB5)
	}
	// WB6: AHLetter × (MidLetter | MidNumLetQ) AHLetter
	if isAHL(P) && (C == WMidLetter || isMidNumLetQ(C)) && isAHL(N) {
		return no(WB6)
	}
	// WB7: AHLetter (MidLetter | MidNumLetQ) × AHLetter
	if isAHL(PP) && (P == WMidLetter || isMidNumLetQ(P)) && isAHL(C) {
		return no(WB7)
	}
	// WB7a: Hebrew_Letter × Single_Quote
	if P == WHebrew && C == WSingleQuote {
		return no(WB7a)
	}
	// WB7b: Hebrew_Letter × Double_Quote Hebrew_Letter
	if P == WHebrew && C == WDoubleQuote && N == WHebrew {
		return no(WB7b)
	}
	// WB7c: Hebrew_Letter Double_Quote × Hebrew_Letter
	if PP == WHebrew && P == WDoubleQuote && C == WHebrew {
		return no(WB7c)
	}
	// WB8: Numeric × Numeric
	if P == WNumeric && C == WNumeric {
		return no(WB8)
	}
	// WB9: AHLetter × Numeric
	if isAHL(P) && C == WNumeric {
		return no(WB9)
	}
	// WB10: Numeric × AHLetter
	if P == WNumeric && isAHL(C) {
		return no(WB10)
	}
	// WB11: Numeric (MidNum | MidNumLetQ) × Numeric
	if PP == WNumeric && (P == WMidNum || isMidNumLetQ(P)) && C == WNumeric {
		return no(WB11)
	}
	// WB12: Numeric × (MidNum | MidNumLetQ) Numeric
	if P == WNumeric && (C == WMidNum || isMidNumLetQ(C)) && N == WNumeric {
		return no(WB12)
	}
	// WB13: Katakana × Katakana
	if P == WKatakana && C == WKatakana {
		return no(WB13)
	}
	// WB13a: (AHLetter | Numeric | Katakana | ExtendNumLet) × ExtendNumLet
	if (isAHL(P) || P == WNumeric || P == WKatakana || P == WExtendNumLet) && C == WExtendNumLet {
		return no(WB13a)
	}
	// WB13b: ExtendNumLet × (AHLetter | Numeric | Katakana)
	if P == WExtendNumLet && (isAHL(C) || C == WNumeric || C == WKatakana) {
		return no(WB13b)
	}
	// WB15: sot (RI RI)* RI × RI;  WB16: [^RI] (RI RI)* RI × RI
	if C == WRI {
		cnt := 0
		for j := p1; j >= 0; j-- {
			if ignored(c, j) {
				continue
			}
			if c[j].Class != WRI {
				break
			}
			cnt++
		}
		if cnt%2 == 1 {
			return no(WB15_16)
		}
	}
	// WB999: Any ÷ Any
	return brk(WB999)
}
