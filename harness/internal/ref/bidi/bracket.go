// Copyright 2015 The Go Authors. All rights reserved.
// Use of this source code is governed by a BSD-style
// license that can be found in the LICENSE file.

package bidi

import (
	"container/list"
	"fmt"
	"sort"
)

// This file contains a port of the reference implementation of the
// Bidi Parentheses Algorithm:
// https://www.unicode.org/Public/PROGRAMS/BidiReferenceJava/BidiPBAReference.java
//
// The implementation in this file covers definitions BD14-BD16 and rule N0
// of UAX#9.
//
// Some preprocessing is done for each rune before data is passed to this
// algorithm:
//  - opening and closing brackets are identified
//  - a bracket pair type, like '(' and ')' is assigned a unique identifier that
//    is identical for the opening and closing bracket. It is left to do these
//    mappings.
//  - The BPA algorithm requires that bracket characters that are canonical
//    equivalents of each other be able to be substituted for each other.
//    It is the responsibility of the caller to do this canonicalization.
//
// In implementing BD16, this implementation departs slightly from the "logical"
// algorithm defined in UAX#9. In particular, the stack referenced there
// supports operations that go beyond a "basic" stack. An equivalent
// implementation based on a linked list is used here.

// Bidi_Paired_Bracket_Type
// BD14. An opening paired bracket is a character whose
// Bidi_Paired_Bracket_Type property value is Open.
//
// BD15. A closing paired bracket is a character whose
// Bidi_Paired_Bracket_Type property value is Close.
type bracketType byte

const (
	bpNone bracketType = iota
	bpOpen
	bpClose
)

// bracketPair holds a pair of index values for opening and closing bracket
// location of a bracket pair.
type bracketPair struct {
	opener int
	closer int
}

func (b *bracketPair) String() string {
	return fmt.Sprintf("(%v, %v)", b.opener, b.closer)
}

// bracketPairs is a slice of bracketPairs with a sort.Interface implementation.
type bracketPairs []bracketPair

func (b bracketPairs) Len() int           { return len(b) }
func (b bracketPairs) Swap(i, j int)      { b[i], b[j] = b[j], b[i] }
func (b bracketPairs) Less(i, j int) bool { return b[i].opener < b[j].opener }

// resolvePairedBrackets runs the paired bracket part of the UBA algorithm.
//
// For each rune, it takes the indexes into the original string, the class the
// bracket type (in pairTypes) and the bracket identifier (pairValues). It also
// takes the direction type for the start-of-sentence and the embedding level.
//
// The identifiers for bracket types are the rune of the canonicalized opening
// bracket for brackets (open or close) or 0 for runes that are not brackets.
func resolvePairedBrackets(s *isolatingRunSequence) {
	p := bracketPairer{
		sos:              s.sos,
		openers:          list.New(),
		codesIsolatedRun: s.types,
		indexes:          s.indexes,
	}
	dirEmbed := L
	if s.level&1 != 0 {
		dirEmbed = R
	}
	p.locateBrackets(s.p.pairTypes, s.p.pairValues)
	p.resolveBrackets(dirEmbed, s.p.initialTypes)
}

type bracketPairer struct {
	sos Class // direction corresponding to start of sequence

	// The following is a restatement of BD 16 using non-algorithmic language.
	//
	// A bracket pair is a pair of characters consisting of an opening
	// paired bracket and a closing paired bracket such that the
	// Bidi_Paired_Bracket property value of the former equals the latter,
	// subject to the following constraints.
	// - both characters of a pair occur in the same isolating run sequence
	// - the closing character of a pair follows the opening character
	// - any bracket character can belong at most to one pair, the earliest possible one
	// - any bracket character not part of a pair is treated like an ordinary character
	// - pairs may nest properly, but their spans may not overlap otherwise

	// Bracket characters with canonical decompositions are supposed to be
	// treated as if they had been normalized, to allow normalized and non-
	// normalized text to give the same result. In this implementation that step
	// is pushed out to the caller. The caller has to ensure that the pairValue
	// slices contain the rune of the opening bracket after normalization for
	// any opening or closing bracket.

	openers *list.List // list of positions for opening brackets

	// bracket pair positions sorted by location of opening bracket
	pairPositions bracketPairs

	codesIsolatedRun []Class // directional bidi codes for an isolated run
	indexes          []int   // array of index values into the original string

}

// matchOpener reports whether characters at given positions form a matching
// bracket pair.
func (p *bracketPairer) matchOpener(pairValues []rune, opener, closer int) bool {
	return pairValues[p.indexes[opener]] == pairValues[p.indexes[closer]]
}

const maxPairingDepth = 63

// locateBrackets locates matching bracket pairs according to BD16.
//
// This implementation uses a linked list instead of a stack, because, while
// elements are added at the front (like a push) they are not generally removed
// in atomic 'pop' operations, reducing the benefit of the stack archetype.
func (p *bracketPairer) locateBrackets(pairTypes []bracketType, pairValues []rune) {
	// traverse the run
	// do that explicitly (not in a for-each) so we can record position
	for i, index := range p.indexes {

		// look at the bracket type for each character
		if pairTypes[index] == bpNone || p.codesIsolatedRun[i] != ON {
			// continue scanning
			continue
		}
		switch pairTypes[index] {
		case bpOpen:
			// check if maximum pairing depth reached
			if p.openers.Len() == maxPairingDepth {
				p.openers.Init()
				return
			}
			// remember opener location, most recent first
			p.openers.PushFront(i)

		case bpClose:
			// see if there is a match
			count := 0
			for elem := p.openers.Front(); elem != nil; elem = elem.Next() {
				count++
				opener := elem.Value.(int)
				if p.matchOpener(pairValues, opener, i) {
					// if the opener matches, add nested pair to the ordered list
					p.pairPositions = append(p.pairPositions, bracketPair{opener, i})
					// remove up to and including matched opener
					for ; count > 0; count-- {
						p.openers.Remove(p.openers.Front())
					}
					break
				}
			}
			sort.Sort(p.pairPositions)
			// if we get here, the closing bracket matched no openers
			// and gets ignored
		}
	}
}

// Bracket pairs within an isolating run sequence are processed as units so
// that both the opening and the closing paired bracket in a pair resolve to
// the same direction.
//
// N0. Process bracket pairs in an isolating run sequence sequentially in
// the logical order of the text positions of the opening paired brackets
// using the logic given below. Within this scope, bidirectional types EN
// and AN are treated as R.
//
// Identify the bracket pairs in the current isolating run sequence
// according to BD16. For each bracket-pair element in the list of pairs of
// text positions:
//
// a Inspect the bidirectional types of the characters enclosed within the
// bracket pair.
//
// b If any strong type (either L or R) matching the embedding direction is
// found, set the type for both brackets in the pair to match the embedding
// direction.
//
// o [ e ] o -> o e e e o
//
// o [ o e ] -> o e o e e
//
// o [ NI e ] -> o e NI e e
//
// c Otherwise, if a strong type (opposite the embedding direction) is
// found, test for adjacent strong types as follows: 1 First, check
// backwards before the opening paired bracket until the first strong type
// (L, R, or sos) is found. If that first preceding strong type is opposite
// the embedding direction, then set the type for both brackets in the pair
// to that type. 2 Otherwise, set the type for both brackets in the pair to
// the embedding direction.
//
// o [ o ] e -> o o o o e
//
// o [ o NI ] o -> o o o NI o o
//
// e [ o ] o -> e e o e o
//
// e [ o ] e -> e e o e e
//
// e ( o [ o ] NI ) e -> e e o o o o NI e e
//
// d Otherwise, do not set the type for the current bracket pair. Note that
// if the enclosed text contains no strong types the paired brackets will
// both resolve to the same level when resolved individually using rules N1
// and N2.
//
// e ( NI ) o -> e ( NI ) o

// getStrongTypeN0 maps character's directional code to strong type as required
// by rule N0.
//
// TODO: have separate type for "strong" directionality.
func (p *bracketPairer) getStrongTypeN0(index int) Class {
	switch p.codesIsolatedRun[index] {
	// in the scope of N0, number types are treated as R
	case EN, AN, AL, R:
		return R
	case L:
		return L
	default:
		return ON
	}
}

// classifyPairContent reports the strong types contained inside a Bracket Pair,
// assuming the given embedding direction.
//
// It returns ON if no strong type is found. If a single strong type is found,
// it returns this type. Otherwise it returns the embedding direction.
//
// TODO: use separate type for "strong" directionality.
func (p *bracketPairer) classifyPairContent(loc bracketPair, dirEmbed Class) Class {
	dirOpposite := ON
	for i := loc.opener + 1; i < loc.closer; i++ {
		dir := p.getStrongTypeN0(i)
		if dir == ON {
			continue
		}
		if dir == dirEmbed {
			return dir // type matching embedding direction found
		}
		dirOpposite = dir
	}
	// return ON if no strong type found, or class opposite to dirEmbed
	return dirOpposite
}

// classBeforePair determines which strong types are present before a Bracket
// Pair. Return R or L if strong type found, otherwise ON.
func (p *bracketPairer) classBeforePair(loc bracketPair) Class {
	for i := loc.opener - 1; i >= 0; i-- {
		if dir := p.getStrongTypeN0(i); dir != ON {
			return dir
		}
	}
	// no strong types found, return sos
	return p.sos
}

// assignBracketType implements rule N0 for a single bracket pair.
func (p *bracketPairer) assignBracketType(loc bracketPair, dirEmbed Class, initialTypes []Class) {
	// rule "N0, a", inspect contents of pair
	dirPair := p.classifyPairContent(loc, dirEmbed)

	// dirPair is now L, R, or N (no strong type found)

	// the following logical tests are performed out of order compared to
	// the statement of the rules but yield the same results
	if dirPair == ON {
		return // case "d" - nothing to do
	}

	if dirPair != dirEmbed {
		// case "c": strong type found, opposite - check before (c.1)
		dirPair = p.classBeforePair(loc)
		if dirPair == dirEmbed || dirPair == ON {
			// no strong opposite type found before - use embedding (c.2)
			dirPair = dirEmbed
		}
	}
	// else: case "b", strong type found matching embedding,
	// no explicit action needed, as dirPair is already set to embedding
	// direction

	// set the bracket types to the type found
	p.setBracketsToType(loc, dirPair, initialTypes)
}

func (p *bracketPairer) setBracketsToType(loc bracketPair, dirPair Class, initialTypes []Class) {
	p.codesIsolatedRun[loc.opener] = dirPair
	p.codesIsolatedRun[loc.closer] = dirPair

	for i := loc.opener + 1; i < loc.closer; i++ {
		index := p.indexes[i]
		if initialTypes[index] != NSM {
			break
		}
		p.codesIsolatedRun[i] = dirPair
	}

	for i := loc.closer + 1; i < len(p.indexes); i++ {
		index := p.indexes[i]
		if initialTypes[index] != NSM {
			break
		}
		p.codesIsolatedRun[i] = dirPair
	}
}

// resolveBrackets implements rule N0 for a list of pairs.
func (p *bracketPairer) resolveBrackets(dirEmbed Class, initialTypes []Class) {
	for _, loc := range p.pairPositions {
		p.assignBracketType(loc, dirEmbed, initialTypes)
	}
}
