// Copyright 2015 The Go Authors. All rights reserved.
// Use of this source code is governed by a BSD-style
// license that can be found in the LICENSE file.

package bidi

import (
	"fmt"
	"log"
)

// This implementation is a port based on the reference implementation found at:
// https://www.unicode.org/Public/PROGRAMS/BidiReferenceJava/
//
// described in Unicode Bidirectional Algorithm (UAX #9).
//
// Input:
// There are two levels of input to the algorithm, since clients may prefer to
// supply some information from out-of-band sources rather than relying on the
// default behavior.
//
// - Bidi class array
// - Bidi class array, with externally supplied base line direction
//
// Output:
// Output is separated into several stages:
//
//  - levels array over entire paragraph
//  - reordering array over entire paragraph
//  - levels array over line
//  - reordering array over line
//
// Note that for conformance to the Unicode Bidirectional Algorithm,
// implementations are only required to generate correct reordering and
// character directionality (odd or even levels) over a line. Generating
// identical level arrays over a line is not required. Bidi explicit format
// codes (LRE, RLE, LRO, RLO, PDF) and BN can be assigned arbitrary levels and
// positions as long as the rest of the input is properly reordered.
//
// As the algorithm is defined to operate on a single paragraph at a time, this
// implementation is written to handle single paragraphs. Thus rule P1 is
// presumed by this implementation-- the data provided to the implementation is
// assumed to be a single paragraph, and either contains no 'B' codes, or a
// single 'B' code at the end of the input. 'B' is allowed as input to
// illustrate how the algorithm assigns it a level.
//
// Also note that rules L3 and L4 depend on the rendering engine that uses the
// result of the bidi algorithm. This implementation assumes that the rendering
// engine expects combining marks in visual order (e.g. to the left of their
// base character in RTL runs) and that it adjusts the glyphs used to render
// mirrored characters that are in RTL runs so that they render appropriately.

// level is the embedding level of a character. Even embedding levels indicate
// left-to-right order and odd levels indicate right-to-left order. The special
// level of -1 is reserved for undefined order.
type level int8

const implicitLevel level = -1

// in returns if x is equal to any of the values in set.
func (c Class) in(set ...Class) bool {
	for _, s := range set {
		if c == s {
			return true
		}
	}
	return false
}

// A paragraph contains the state of a paragraph.
type paragraph struct {
	initialTypes []Class

	// Arrays of properties needed for paired bracket evaluation in N0
	pairTypes  []bracketType // paired Bracket types for paragraph
	pairValues []rune        // rune for opening bracket or pbOpen and pbClose; 0 for pbNone

	embeddingLevel level // default: = implicitLevel;

	// at the paragraph levels
	resultTypes  []Class
	resultLevels []level

	// Index of matching PDI for isolate initiator characters. For other
	// characters, the value of matchingPDI will be set to -1. For isolate
	// initiators with no matching PDI, matchingPDI will be set to the length of
	// the input string.
	matchingPDI []int

	// Index of matching isolate initiator for PDI characters. For other
	// characters, and for PDIs with no matching isolate initiator, the value of
	// matchingIsolateInitiator will be set to -1.
	matchingIsolateInitiator []int
}

// newParagraph initializes a paragraph. The user needs to supply a few arrays
// corresponding to the preprocessed text input. The types correspond to the
// Unicode BiDi classes for each rune. pairTypes indicates the bracket type for
// each rune. pairValues provides a unique bracket class identifier for each
// rune (suggested is the rune of the open bracket for opening and matching
// close brackets, after normalization). The embedding levels are optional, but
// may be supplied to encode embedding levels of styled text.
func newParagraph(types []Class, pairTypes []bracketType, pairValues []rune, levels level) (*paragraph, error) {
	var err error
	if err = validateTypes(types); err != nil {
		return nil, err
	}
	if err = validatePbTypes(pairTypes); err != nil {
		return nil, err
	}
	if err = validatePbValues(pairValues, pairTypes); err != nil {
		return nil, err
	}
	if err = validateParagraphEmbeddingLevel(levels); err != nil {
		return nil, err
	}

	p := &paragraph{
		initialTypes:   append([]Class(nil), types...),
		embeddingLevel: levels,

		pairTypes:  pairTypes,
		pairValues: pairValues,

		resultTypes: append([]Class(nil), types...),
	}
	p.run()
	return p, nil
}

func (p *paragraph) Len() int { return len(p.initialTypes) }

// The algorithm. Does not include line-based processing (Rules L1, L2).
// These are applied later in the line-based phase of the algorithm.
func (p *paragraph) run() {
	p.determineMatchingIsolates()

	// 1) determining the paragraph level
	// Rule P1 is the requirement for entering this algorithm.
	// Rules P2, P3.
	// If no externally supplied paragraph embedding level, use default.
	if p.embeddingLevel == implicitLevel {
		p.embeddingLevel = p.determineParagraphEmbeddingLevel(0, p.Len())
	}

	// Initialize result levels to paragraph embedding level.
	p.resultLevels = make([]level, p.Len())
	setLevels(p.resultLevels, p.embeddingLevel)

	// 2) Explicit levels and directions
	// Rules X1-X8.
	p.determineExplicitEmbeddingLevels()

	// Rule X9.
	// We do not remove the embeddings, the overrides, the PDFs, and the BNs
	// from the string explicitly. But they are not copied into isolating run
	// sequences when they are created, so they are removed for all
	// practical purposes.

	// Rule X10.
	// Run remainder of algorithm one isolating run sequence at a time
	for _, seq := range p.determineIsolatingRunSequences() {
		// 3) resolving weak types
		// Rules W1-W7.
		seq.resolveWeakTypes()

		// 4a) resolving paired brackets
		// Rule N0
		resolvePairedBrackets(seq)

		// 4b) resolving neutral types
		// Rules N1-N3.
		seq.resolveNeutralTypes()

		// 5) resolving implicit embedding levels
		// Rules I1, I2.
		seq.resolveImplicitLevels()

		// Apply the computed levels and types
		seq.applyLevelsAndTypes()
	}

	// Assign appropriate levels to 'hide' LREs, RLEs, LROs, RLOs, PDFs, and
	// BNs. This is for convenience, so the resulting level array will have
	// a value for every character.
	p.assignLevelsToCharactersRemovedByX9()
}

// determineMatchingIsolates determines the matching PDI for each isolate
// initiator and vice versa.
//
// Definition BD9.
//
// At the end of this function:
//
//   - The member variable matchingPDI is set to point to the index of the
//     matching PDI character for each isolate initiator character. If there is
//     no matching PDI, it is set to the length of the input text. For other
//     characters, it is set to -1.
//   - The member variable matchingIsolateInitiator is set to point to the
//     index of the matching isolate initiator character for each PDI character.
//     If there is no matching isolate initiator, or the character is not a PDI,
//     it is set to -1.
func (p *paragraph) determineMatchingIsolates() {
	p.matchingPDI = make([]int, p.Len())
	p.matchingIsolateInitiator = make([]int, p.Len())

	for i := range p.matchingIsolateInitiator {
		p.matchingIsolateInitiator[i] = -1
	}

	for i := range p.matchingPDI {
		p.matchingPDI[i] = -1

		if t := p.resultTypes[i]; t.in(LRI, RLI, FSI) {
			depthCounter := 1
			for j := i + 1; j < p.Len(); j++ {
				if u := p.resultTypes[j]; u.in(LRI, RLI, FSI) {
					depthCounter++
				} else if u == PDI {
					if depthCounter--; depthCounter == 0 {
						p.matchingPDI[i] = j
						p.matchingIsolateInitiator[j] = i
						break
					}
				}
			}
			if p.matchingPDI[i] == -1 {
				p.matchingPDI[i] = p.Len()
			}
		}
	}
}

// determineParagraphEmbeddingLevel reports the resolved paragraph direction of
// the substring limited by the given range [start, end).
//
// Determines the paragraph level based on rules P2, P3. This is also used
// in rule X5c to find if an FSI should resolve to LRI or RLI.
func (p *paragraph) determineParagraphEmbeddingLevel(start, end int) level {
	var strongType Class = unknownClass

	// Rule P2.
	for i := start; i < end; i++ {
		if t := p.resultTypes[i]; t.in(L, AL, R) {
			strongType = t
			break
		} else if t.in(FSI, LRI, RLI) {
			i = p.matchingPDI[i] // skip over to the matching PDI
			if i > end {
				log.Panic("assert (i <= end)")
			}
		}
	}
	// Rule P3.
	switch strongType {
	case unknownClass: // none found
		// default embedding level when no strong types found is 0.
		return 0
	case L:
		return 0
	default: // AL, R
		return 1
	}
}

const maxDepth = 125

// This stack will store the embedding levels and override and isolated
// statuses
type directionalStatusStack struct {
	stackCounter        int
	embeddingLevelStack [maxDepth + 1]level
	overrideStatusStack [maxDepth + 1]Class
	isolateStatusStack  [maxDepth + 1]bool
}

func (s *directionalStatusStack) empty()     { s.stackCounter = 0 }
func (s *directionalStatusStack) pop()       { s.stackCounter-- }
func (s *directionalStatusStack) depth() int { return s.stackCounter }

func (s *directionalStatusStack) push(level level, overrideStatus Class, isolateStatus bool) {
	s.embeddingLevelStack[s.stackCounter] = level
	s.overrideStatusStack[s.stackCounter] = overrideStatus
	s.isolateStatusStack[s.stackCounter] = isolateStatus
	s.stackCounter++
}

func (s *directionalStatusStack) lastEmbeddingLevel() level {
	return s.embeddingLevelStack[s.stackCounter-1]
}

func (s *directionalStatusStack) lastDirectionalOverrideStatus() Class {
	return s.overrideStatusStack[s.stackCounter-1]
}

func (s *directionalStatusStack) lastDirectionalIsolateStatus() bool {
	return s.isolateStatusStack[s.stackCounter-1]
}

// Determine explicit levels using rules X1 - X8
func (p *paragraph) determineExplicitEmbeddingLevels() {
	var stack directionalStatusStack
	var overflowIsolateCount, overflowEmbeddingCount, validIsolateCount int

	// Rule X1.
	stack.push(p.embeddingLevel, ON, false)

	for i, t := range p.resultTypes {
		// Rules X2, X3, X4, X5, X5a, X5b, X5c
		switch t {
		case RLE, LRE, RLO, LRO, RLI, LRI, FSI:
			isIsolate := t.in(RLI, LRI, FSI)
			isRTL := t.in(RLE, RLO, RLI)

			// override if this is an FSI that resolves to RLI
			if t == FSI {
				isRTL = (p.determineParagraphEmbeddingLevel(i+1, p.matchingPDI[i]) == 1)
			}
			if isIsolate {
				p.resultLevels[i] = stack.lastEmbeddingLevel()
				if stack.lastDirectionalOverrideStatus() != ON {
					p.resultTypes[i] = stack.lastDirectionalOverrideStatus()
				}
			}

			var newLevel level
			if isRTL {
				// least greater odd
				newLevel = (stack.lastEmbeddingLevel() + 1) | 1
			} else {
				// least greater even
				newLevel = (stack.lastEmbeddingLevel() + 2) &^ 1
			}

			if newLevel <= maxDepth && overflowIsolateCount == 0 && overflowEmbeddingCount == 0 {
				if isIsolate {
					validIsolateCount++
				}
				// Push new embedding level, override status, and isolated
				// status.
				// No check for valid stack counter, since the level check
				// suffices.
				switch t {
				case LRO:
					stack.push(newLevel, L, isIsolate)
				case RLO:
					stack.push(newLevel, R, isIsolate)
				default:
					stack.push(newLevel, ON, isIsolate)
				}
				// Not really part of the spec
				if !isIsolate {
					p.resultLevels[i] = newLevel
				}
			} else {
				// This is an invalid explicit formatting character,
				// so apply the "Otherwise" part of rules X2-X5b.
				if isIsolate {
					overflowIsolateCount++
				} else { // !isIsolate
					if overflowIsolateCount == 0 {
						overflowEmbeddingCount++
					}
				}
			}

		// Rule X6a
		case PDI:
			if overflowIsolateCount > 0 {
				overflowIsolateCount--
			} else if validIsolateCount == 0 {
				// do nothing
			} else {
				overflowEmbeddingCount = 0
				for !stack.lastDirectionalIsolateStatus() {
					stack.pop()
				}
				stack.pop()
				validIsolateCount--
			}
			p.resultLevels[i] = stack.lastEmbeddingLevel()

		// Rule X7
		case PDF:
			// Not really part of the spec
			p.resultLevels[i] = stack.lastEmbeddingLevel()

			if overflowIsolateCount > 0 {
				// do nothing
			} else if overflowEmbeddingCount > 0 {
				overflowEmbeddingCount--
			} else if !stack.lastDirectionalIsolateStatus() && stack.depth() >= 2 {
				stack.pop()
			}

		case B: // paragraph separator.
			// Rule X8.

			// These values are reset for clarity, in this implementation B
			// can only occur as the last code in the array.
			stack.empty()
			overflowIsolateCount = 0
			overflowEmbeddingCount = 0
			validIsolateCount = 0
			p.resultLevels[i] = p.embeddingLevel

		default:
			p.resultLevels[i] = stack.lastEmbeddingLevel()
			if stack.lastDirectionalOverrideStatus() != ON {
				p.resultTypes[i] = stack.lastDirectionalOverrideStatus()
			}
		}
	}
}

type isolatingRunSequence struct {
	p *paragraph

	indexes []int // indexes to the original string

	types          []Class // type of each character using the index
	resolvedLevels []level // resolved levels after application of rules
	level          level
	sos, eos       Class
}

func (i *isolatingRunSequence) Len() int { return len(i.indexes) }

func maxLevel(a, b level) level {
	if a > b {
		return a
	}
	return b
}

// Rule X10, second bullet: Determine the start-of-sequence (sos) and end-of-sequence (eos) types,
// either L or R, for each isolating run sequence.
func (p *paragraph) isolatingRunSequence(indexes []int) *isolatingRunSequence {
	length := len(indexes)
	types := make([]Class, length)
	for i, x := range indexes {
		types[i] = p.resultTypes[x]
	}

	// assign level, sos and eos
	prevChar := indexes[0] - 1
	for prevChar >= 0 && isRemovedByX9(p.initialTypes[prevChar]) {
		prevChar--
	}
	prevLevel := p.embeddingLevel
	if prevChar >= 0 {
		prevLevel = p.resultLevels[prevChar]
	}

	var succLevel level
	lastType := types[length-1]
	if lastType.in(LRI, RLI, FSI) {
		succLevel = p.embeddingLevel
	} else {
		// the first character after the end of run sequence
		limit := indexes[length-1] + 1
		for ; limit < p.Len() && isRemovedByX9(p.initialTypes[limit]); limit++ {

		}
		succLevel = p.embeddingLevel
		if limit < p.Len() {
			succLevel = p.resultLevels[limit]
		}
	}
	level := p.resultLevels[indexes[0]]
	return &isolatingRunSequence{
		p:       p,
		indexes: indexes,
		types:   types,
		level:   level,
		sos:     typeForLevel(maxLevel(prevLevel, level)),
		eos:     typeForLevel(maxLevel(succLevel, level)),
	}
}

// Resolving weak types Rules W1-W7.
//
// Note that some weak types (EN, AN) remain after this processing is
// complete.
func (s *isolatingRunSequence) resolveWeakTypes() {

	// on entry, only these types remain
	s.assertOnly(L, R, AL, EN, ES, ET, AN, CS, B, S, WS, ON, NSM, LRI, RLI, FSI, PDI)

	// Rule W1.
	// Changes all NSMs.
	precedingCharacterType := s.sos
	for i, t := range s.types {
		if t == NSM {
			s.types[i] = precedingCharacterType
		} else {
			// if t.in(LRI, RLI, FSI, PDI) {
			// 	precedingCharacterType = ON
			// }
			precedingCharacterType = t
		}
	}

	// Rule W2.
	// EN does not change at the start of the run, because sos != AL.
	for i, t := range s.types {
		if t == EN {
			for j := i - 1; j >= 0; j-- {
				if t := s.types[j]; t.in(L, R, AL) {
					if t == AL {
						s.types[i] = AN
					}
					break
				}
			}
		}
	}

	// Rule W3.
	for i, t := range s.types {
		if t == AL {
			s.types[i] = R
		}
	}

	// Rule W4.
	// Since there must be values on both sides for this rule to have an
	// effect, the scan skips the first and last value.
	//
	// Although the scan proceeds left to right, and changes the type
	// values in a way that would appear to affect the computations
	// later in the scan, there is actually no problem. A change in the
	// current value can only affect the value to its immediate right,
	// and only affect it if it is ES or CS. But the current value can
	// only change if the value to its right is not ES or CS. Thus
	// either the current value will not change, or its change will have
	// no effect on the remainder of the analysis.

	for i := 1; i < s.Len()-1; i++ {
		t := s.types[i]
		if t == ES || t == CS {
			prevSepType := s.types[i-1]
			succSepType := s.types[i+1]
			if prevSepType == EN && succSepType == EN {
				s.types[i] = EN
			} else if s.types[i] == CS && prevSepType == AN && succSepType == AN {
				s.types[i] = AN
			}
		}
	}

	// Rule W5.
	for i, t := range s.types {
		if t == ET {
			// locate end of sequence
			runStart := i
			runEnd := s.findRunLimit(runStart, ET)

			// check values at ends of sequence
			t := s.sos
			if runStart > 0 {
				t = s.types[runStart-1]
			}
			if t != EN {
				t = s.eos
				if runEnd < len(s.types) {
					t = s.types[runEnd]
				}
			}
			if t == EN {
				setTypes(s.types[runStart:runEnd], EN)
			}
			// continue at end of sequence
			i = runEnd
		}
	}

	// Rule W6.
	for i, t := range s.types {
		if t.in(ES, ET, CS) {
			s.types[i] = ON
		}
	}

	// Rule W7.
	for i, t := range s.types {
		if t == EN {
			// set default if we reach start of run
			prevStrongType := s.sos
			for j := i - 1; j >= 0; j-- {
				t = s.types[j]
				if t == L || t == R { // AL's have been changed to R
					prevStrongType = t
					break
				}
			}
			if prevStrongType == L {
				s.types[i] = L
			}
		}
	}
}

// 6) resolving neutral types Rules N1-N2.
func (s *isolatingRunSequence) resolveNeutralTypes() {

	// on entry, only these types can be in resultTypes
	s.assertOnly(L, R, EN, AN, B, S, WS, ON, RLI, LRI, FSI, PDI)

	for i, t := range s.types {
		switch t {
		case WS, ON, B, S, RLI, LRI, FSI, PDI:
			// find bounds of run of neutrals
			runStart := i
			runEnd := s.findRunLimit(runStart, B, S, WS, ON, RLI, LRI, FSI, PDI)

			// determine effective types at ends of run
			var leadType, trailType Class

			// Note that the character found can only be L, R, AN, or
			// EN.
			if runStart == 0 {
				leadType = s.sos
			} else {
				leadType = s.types[runStart-1]
				if leadType.in(AN, EN) {
					leadType = R
				}
			}
			if runEnd == len(s.types) {
				trailType = s.eos
			} else {
				trailType = s.types[runEnd]
				if trailType.in(AN, EN) {
					trailType = R
				}
			}

			var resolvedType Class
			if leadType == trailType {
				// Rule N1.
				resolvedType = leadType
			} else {
				// Rule N2.
				// Notice the embedding level of the run is used, not
				// the paragraph embedding level.
				resolvedType = typeForLevel(s.level)
			}

			setTypes(s.types[runStart:runEnd], resolvedType)

			// skip over run of (former) neutrals
			i = runEnd
		}
	}
}

func setLevels(levels []level, newLevel level) {
	for i := range levels {
		levels[i] = newLevel
	}
}

func setTypes(types []Class, newType Class) {
	for i := range types {
		types[i] = newType
	}
}

// 7) resolving implicit embedding levels Rules I1, I2.
func (s *isolatingRunSequence) resolveImplicitLevels() {

	// on entry, only these types can be in resultTypes
	s.assertOnly(L, R, EN, AN)

	s.resolvedLevels = make([]level, len(s.types))
	setLevels(s.resolvedLevels, s.level)

	if (s.level & 1) == 0 { // even level
		for i, t := range s.types {
			// Rule I1.
			if t == L {
				// no change
			} else if t == R {
				s.resolvedLevels[i] += 1
			} else { // t == AN || t == EN
				s.resolvedLevels[i] += 2
			}
		}
	} else { // odd level
		for i, t := range s.types {
			// Rule I2.
			if t == R {
				// no change
			} else { // t == L || t == AN || t == EN
				s.resolvedLevels[i] += 1
			}
		}
	}
}

// Applies the levels and types resolved in rules W1-I2 to the
// resultLevels array.
func (s *isolatingRunSequence) applyLevelsAndTypes() {
	for i, x := range s.indexes {
		s.p.resultTypes[x] = s.types[i]
		s.p.resultLevels[x] = s.resolvedLevels[i]
	}
}

// Return the limit of the run consisting only of the types in validSet
// starting at index. This checks the value at index, and will return
// index if that value is not in validSet.
func (s *isolatingRunSequence) findRunLimit(index int, validSet ...Class) int {
loop:
	for ; index < len(s.types); index++ {
		t := s.types[index]
		for _, valid := range validSet {
			if t == valid {
				continue loop
			}
		}
		return index // didn't find a match in validSet
	}
	return len(s.types)
}

// Algorithm validation. Assert that all values in types are in the
// provided set.
func (s *isolatingRunSequence) assertOnly(codes ...Class) {
loop:
	for i, t := range s.types {
		for _, c := range codes {
			if t == c {
				continue loop
			}
		}
		log.Panicf("invalid bidi code %v present in assertOnly at position %d", t, s.indexes[i])
	}
}

// determineLevelRuns returns an array of level runs. Each level run is
// described as an array of indexes into the input string.
//
// Determines the level runs. Rule X9 will be applied in determining the
// runs, in the way that makes sure the characters that are supposed to be
// removed are not included in the runs.
func (p *paragraph) determineLevelRuns() [][]int {
	run := []int{}
	allRuns := [][]int{}
	currentLevel := implicitLevel

	for i := range p.initialTypes {
		if !isRemovedByX9(p.initialTypes[i]) {
			if p.resultLevels[i] != currentLevel {
				// we just encountered a new run; wrap up last run
				if currentLevel >= 0 { // only wrap it up if there was a run
					allRuns = append(allRuns, run)
					run = nil
				}
				// Start new run
				currentLevel = p.resultLevels[i]
			}
			run = append(run, i)
		}
	}
	// Wrap up the final run, if any
	if len(run) > 0 {
		allRuns = append(allRuns, run)
	}
	return allRuns
}

// Definition BD13. Determine isolating run sequences.
func (p *paragraph) determineIsolatingRunSequences() []*isolatingRunSequence {
	levelRuns := p.determineLevelRuns()

	// Compute the run that each character belongs to
	runForCharacter := make([]int, p.Len())
	for i, run := range levelRuns {
		for _, index := range run {
			runForCharacter[index] = i
		}
	}

	sequences := []*isolatingRunSequence{}

	var currentRunSequence []int

	for _, run := range levelRuns {
		first := run[0]
		if p.initialTypes[first] != PDI || p.matchingIsolateInitiator[first] == -1 {
			currentRunSequence = nil
			// int run = i;
			for {
				// Copy this level run into currentRunSequence
				currentRunSequence = append(currentRunSequence, run...)

				last := currentRunSequence[len(currentRunSequence)-1]
				lastT := p.initialTypes[last]
				if lastT.in(LRI, RLI, FSI) && p.matchingPDI[last] != p.Len() {
					run = levelRuns[runForCharacter[p.matchingPDI[last]]]
				} else {
					break
				}
			}
			sequences = append(sequences, p.isolatingRunSequence(currentRunSequence))
		}
	}
	return sequences
}

// Assign level information to characters removed by rule X9. This is for
// ease of relating the level information to the original input data. Note
// that the levels assigned to these codes are arbitrary, they're chosen so
// as to avoid breaking level runs.
func (p *paragraph) assignLevelsToCharactersRemovedByX9() {
	for i, t := range p.initialTypes {
		if t.in(LRE, RLE, LRO, RLO, PDF, BN) {
			p.resultTypes[i] = t
			p.resultLevels[i] = -1
		}
	}
	// now propagate forward the levels information (could have
	// propagated backward, the main thing is not to introduce a level
	// break where one doesn't already exist).

	if p.resultLevels[0] == -1 {
		p.resultLevels[0] = p.embeddingLevel
	}
	for i := 1; i < len(p.initialTypes); i++ {
		if p.resultLevels[i] == -1 {
			p.resultLevels[i] = p.resultLevels[i-1]
		}
	}
	// Embedding information is for informational purposes only so need not be
	// adjusted.
}

//
// Output
//

// getLevels computes levels array breaking lines at offsets in linebreaks.
// Rule L1.
//
// The linebreaks array must include at least one value. The values must be
// in strictly increasing order (no duplicates) between 1 and the length of
// the text, inclusive. The last value must be the length of the text.
func (p *paragraph) getLevels(linebreaks []int) []level {
	// Note that since the previous processing has removed all
	// P, S, and WS values from resultTypes, the values referred to
	// in these rules are the initial types, before any processing
	// has been applied (including processing of overrides).
	//
	// This example implementation has reinserted explicit format codes
	// and BN, in order that the levels array correspond to the
	// initial text. Their final placement is not normative.
	// These codes are treated like WS in this implementation,
	// so they don't interrupt sequences of WS.

	validateLineBreaks(linebreaks, p.Len())

	result := append([]level(nil), p.resultLevels...)

	// don't worry about linebreaks since if there is a break within
	// a series of WS values preceding S, the linebreak itself
	// causes the reset.
	for i, t := range p.initialTypes {
		if t.in(B, S) {
			// Rule L1, clauses one and two.
			result[i] = p.embeddingLevel

			// Rule L1, clause three.
			for j := i - 1; j >= 0; j-- {
				if isWhitespace(p.initialTypes[j]) { // including format codes
					result[j] = p.embeddingLevel
				} else {
					break
				}
			}
		}
	}

	// Rule L1, clause four.
	start := 0
	for _, limit := range linebreaks {
		for j := limit - 1; j >= start; j-- {
			if isWhitespace(p.initialTypes[j]) { // including format codes
				result[j] = p.embeddingLevel
			} else {
				break
			}
		}
		start = limit
	}

	return result
}

// getReordering returns the reordering of lines from a visual index to a
// logical index for line breaks at the given offsets.
//
// Lines are concatenated from left to right. So for example, the fifth
// character from the left on the third line is
//
//	getReordering(linebreaks)[linebreaks[1] + 4]
//
// (linebreaks[1] is the position after the last character of the second
// line, which is also the index of the first character on the third line,
// and adding four gets the fifth character from the left).
//
// The linebreaks array must include at least one value. The values must be
// in strictly increasing order (no duplicates) between 1 and the length of
// the text, inclusive. The last value must be the length of the text.
func (p *paragraph) getReordering(linebreaks []int) []int {
	validateLineBreaks(linebreaks, p.Len())

	return computeMultilineReordering(p.getLevels(linebreaks), linebreaks)
}

// Return multiline reordering array for a given level array. Reordering
// does not occur across a line break.
func computeMultilineReordering(levels []level, linebreaks []int) []int {
	result := make([]int, len(levels))

	start := 0
	for _, limit := range linebreaks {
		tempLevels := make([]level, limit-start)
		copy(tempLevels, levels[start:])

		for j, order := range computeReordering(tempLevels) {
			result[start+j] = order + start
		}
		start = limit
	}
	return result
}

// Return reordering array for a given level array. This reorders a single
// line. The reordering is a visual to logical map. For example, the
// leftmost char is string.charAt(order[0]). Rule L2.
func computeReordering(levels []level) []int {
	result := make([]int, len(levels))
	// initialize order
	for i := range result {
		result[i] = i
	}

	// locate highest level found on line.
	// Note the rules say text, but no reordering across line bounds is
	// performed, so this is sufficient.
	highestLevel := level(0)
	lowestOddLevel := level(maxDepth + 2)
	for _, level := range levels {
		if level > highestLevel {
			highestLevel = level
		}
		if level&1 != 0 && level < lowestOddLevel {
			lowestOddLevel = level
		}
	}

	for level := highestLevel; level >= lowestOddLevel; level-- {
		for i := 0; i < len(levels); i++ {
			if levels[i] >= level {
				// find range of text at or above this level
				start := i
				limit := i + 1
				for limit < len(levels) && levels[limit] >= level {
					limit++
				}

				for j, k := start, limit-1; j < k; j, k = j+1, k-1 {
					result[j], result[k] = result[k], result[j]
				}
				// skip to end of level run
				i = limit
			}
		}
	}

	return result
}

// isWhitespace reports whether the type is considered a whitespace type for the
// line break rules.
func isWhitespace(c Class) bool {
	switch c {
	case LRE, RLE, LRO, RLO, PDF, LRI, RLI, FSI, PDI, BN, WS:
		return true
	}
	return false
}

// isRemovedByX9 reports whether the type is one of the types removed in X9.
func isRemovedByX9(c Class) bool {
	switch c {
	case LRE, RLE, LRO, RLO, PDF, BN:
		return true
	}
	return false
}

// typeForLevel reports the strong type (L or R) corresponding to the level.
func typeForLevel(level level) Class {
	if (level & 0x1) == 0 {
		return L
	}
	return R
}

func validateTypes(types []Class) error {
	if len(types) == 0 {
		return fmt.Errorf("types is null")
	}
	for i, t := range types[:len(types)-1] {
		if t == B {
			return fmt.Errorf("B type before end of paragraph at index: %d", i)
		}
	}
	return nil
}

func validateParagraphEmbeddingLevel(embeddingLevel level) error {
	if embeddingLevel != implicitLevel &&
		embeddingLevel != 0 &&
		embeddingLevel != 1 {
		return fmt.Errorf("illegal paragraph embedding level: %d", embeddingLevel)
	}
	return nil
}

func validateLineBreaks(linebreaks []int, textLength int) error {
	prev := 0
	for i, next := range linebreaks {
		if next <= prev {
			return fmt.Errorf("bad linebreak: %d at index: %d", next, i)
		}
		prev = next
	}
	if prev != textLength {
		return fmt.Errorf("last linebreak was %d, want %d", prev, textLength)
	}
	return nil
}

func validatePbTypes(pairTypes []bracketType) error {
	if len(pairTypes) == 0 {
		return fmt.Errorf("pairTypes is null")
	}
	for i, pt := range pairTypes {
		switch pt {
		case bpNone, bpOpen, bpClose:
		default:
			return fmt.Errorf("illegal pairType value at %d: %v", i, pairTypes[i])
		}
	}
	return nil
}

func validatePbValues(pairValues []rune, pairTypes []bracketType) error {
	if pairValues == nil {
		return fmt.Errorf("pairValues is null")
	}
	if len(pairTypes) != len(pairValues) {
		return fmt.Errorf("pairTypes is different length from pairValues")
	}
	return nil
}
