// Copyright 2016 The Go Authors. All rights reserved.
// Use of this source code is governed by a BSD-style
// license that can be found in the LICENSE file.

package bidi

import "unicode/utf8"

// Properties provides access to BiDi properties of runes.
type Properties struct {
	entry uint8
	last  uint8
}

var trie = newBidiTrie(0)

// TODO: using this for bidirule reduces the running time by about 5%. Consider
// if this is worth exposing or if we can find a way to speed up the Class
// method.
//
// // CompactClass is like Class, but maps all of the BiDi control classes
// // (LRO, RLO, LRE, RLE, PDF, LRI, RLI, FSI, PDI) to the class Control.
// func (p Properties) CompactClass() Class {
// 	return Class(p.entry & 0x0F)
// }

// Class returns the Bidi class for p.
func (p Properties) Class() Class {
	c := Class(p.entry & 0x0F)
	if c == Control {
		c = controlByteToClass[p.last&0xF]
	}
	return c
}

// IsBracket reports whether the rune is a bracket.
func (p Properties) IsBracket() bool { return p.entry&0xF0 != 0 }

// IsOpeningBracket reports whether the rune is an opening bracket.
// IsBracket must return true.
func (p Properties) IsOpeningBracket() bool { return p.entry&openMask != 0 }

// TODO: find a better API and expose.
func (p Properties) reverseBracket(r rune) rune {
	return xorMasks[p.entry>>xorMaskShift] ^ r
}

var controlByteToClass = [16]Class{
	0xD: LRO, // U+202D LeftToRightOverride,
	0xE: RLO, // U+202E RightToLeftOverride,
	0xA: LRE, // U+202A LeftToRightEmbedding,
	0xB: RLE, // U+202B RightToLeftEmbedding,
	0xC: PDF, // U+202C PopDirectionalFormat,
	0x6: LRI, // U+2066 LeftToRightIsolate,
	0x7: RLI, // U+2067 RightToLeftIsolate,
	0x8: FSI, // U+2068 FirstStrongIsolate,
	0x9: PDI, // U+2069 PopDirectionalIsolate,
}

// LookupRune returns properties for r.
func LookupRune(r rune) (p Properties, size int) {
	var buf [4]byte
	n := utf8.EncodeRune(buf[:], r)
	return Lookup(buf[:n])
}

// TODO: these lookup methods are based on the generated trie code. The returned
// sizes have slightly different semantics from the generated code, in that it
// always returns size==1 for an illegal UTF-8 byte (instead of the length
// of the maximum invalid subsequence). Most Transformers, like unicode/norm,
// leave invalid UTF-8 untouched, in which case it has performance benefits to
// do so (without changing the semantics). Bidi requires the semantics used here
// for the bidirule implementation to be compatible with the Go semantics.
//  They ultimately should perhaps be adopted by all trie implementations, for
// convenience sake.
// This unrolled code also boosts performance of the secure/bidirule package by
// about 30%.
// So, to remove this code:
//   - add option to trie generator to define return type.
//   - always return 1 byte size for ill-formed UTF-8 runes.

// Lookup returns properties for the first rune in s and the width in bytes of
// its encoding. The size will be 0 if s does not hold enough bytes to complete
// the encoding.
func Lookup(s []byte) (p Properties, sz int) {
	c0 := s[0]
	switch {
	case c0 < 0x80: // is ASCII
		return Properties{entry: bidiValues[c0]}, 1
	case c0 < 0xC2:
		return Properties{}, 1
	case c0 < 0xE0: // 2-byte UTF-8
		if len(s) < 2 {
			return Properties{}, 0
		}
		i := bidiIndex[c0]
		c1 := s[1]
		if c1 < 0x80 || 0xC0 <= c1 {
			return Properties{}, 1
		}
		return Properties{entry: trie.lookupValue(uint32(i), c1)}, 2
	case c0 < 0xF0: // 3-byte UTF-8
		if len(s) < 3 {
			return Properties{}, 0
		}
		i := bidiIndex[c0]
		c1 := s[1]
		if c1 < 0x80 || 0xC0 <= c1 {
			return Properties{}, 1
		}
		o := uint32(i)<<6 + uint32(c1)
		i = bidiIndex[o]
		c2 := s[2]
		if c2 < 0x80 || 0xC0 <= c2 {
			return Properties{}, 1
		}
		return Properties{entry: trie.lookupValue(uint32(i), c2), last: c2}, 3
	case c0 < 0xF8: // 4-byte UTF-8
		if len(s) < 4 {
			return Properties{}, 0
		}
		i := bidiIndex[c0]
		c1 := s[1]
		if c1 < 0x80 || 0xC0 <= c1 {
			return Properties{}, 1
		}
		o := uint32(i)<<6 + uint32(c1)
		i = bidiIndex[o]
		c2 := s[2]
		if c2 < 0x80 || 0xC0 <= c2 {
			return Properties{}, 1
		}
		o = uint32(i)<<6 + uint32(c2)
		i = bidiIndex[o]
		c3 := s[3]
		if c3 < 0x80 || 0xC0 <= c3 {
			return Properties{}, 1
		}
		return Properties{entry: trie.lookupValue(uint32(i), c3)}, 4
	}
	// Illegal rune
	return Properties{}, 1
}

// LookupString returns properties for the first rune in s and the width in
// bytes of its encoding. The size will be 0 if s does not hold enough bytes to
// complete the encoding.
func LookupString(s string) (p Properties, sz int) {
	c0 := s[0]
	switch {
	case c0 < 0x80: // is ASCII
		return Properties{entry: bidiValues[c0]}, 1
	case c0 < 0xC2:
		return Properties{}, 1
	case c0 < 0xE0: // 2-byte UTF-8
		if len(s) < 2 {
			return Properties{}, 0
		}
		i := bidiIndex[c0]
		c1 := s[1]
		if c1 < 0x80 || 0xC0 <= c1 {
			return Properties{}, 1
		}
		return Properties{entry: trie.lookupValue(uint32(i), c1)}, 2
	case c0 < 0xF0: // 3-byte UTF-8
		if len(s) < 3 {
			return Properties{}, 0
		}
		i := bidiIndex[c0]
		c1 := s[1]
		if c1 < 0x80 || 0xC0 <= c1 {
			return Properties{}, 1
		}
		o := uint32(i)<<6 + uint32(c1)
		i = bidiIndex[o]
		c2 := s[2]
		if c2 < 0x80 || 0xC0 <= c2 {
			return Properties{}, 1
		}
		return Properties{entry: trie.lookupValue(uint32(i), c2), last: c2}, 3
	case c0 < 0xF8: // 4-byte UTF-8
		if len(s) < 4 {
			return Properties{}, 0
		}
		i := bidiIndex[c0]
		c1 := s[1]
		if c1 < 0x80 || 0xC0 <= c1 {
			return Properties{}, 1
		}
		o := uint32(i)<<6 + uint32(c1)
		i = bidiIndex[o]
		c2 := s[2]
		if c2 < 0x80 || 0xC0 <= c2 {
			return Properties{}, 1
		}
		o = uint32(i)<<6 + uint32(c2)
		i = bidiIndex[o]
		c3 := s[3]
		if c3 < 0x80 || 0xC0 <= c3 {
			return Properties{}, 1
		}
		return Properties{entry: trie.lookupValue(uint32(i), c3)}, 4
	}
	// Illegal rune
	return Properties{}, 1
}

// BracketPairs lists the (opening, closing) pairs of Unicode's BidiBrackets
// data (BD14-BD16) in code point order of the opening bracket.
func BracketPairs() [][2]rune {
	var out [][2]rune
	for r := rune(0); r <= 0x10FFFF; r++ {
		if r >= 0xD800 && r <= 0xDFFF {
			continue
		}
		if p, _ := LookupRune(r); p.IsOpeningBracket() {
			out = append(out, [2]rune{r, p.reverseBracket(r)})
		}
	}
	return out
}
