// This file is the only addition to the verbatim copy of
// golang.org/x/text@v0.21.0/unicode/bidi (core.go, bracket.go, prop.go,
// tables15.0.0.go, trieval.go). It exposes the resolved embedding levels of the
// reference implementation of UAX #9 contained in core.go, which the public
// API of x/text hides.

package bidi

// Paragraph level choices for [Levels].
const (
	ForceLTR = 0 // paragraph embedding level 0 (HL1 override of P2/P3)
	ForceRTL = 1 // paragraph embedding level 1
	AutoLTR  = 2 // rules P2/P3: first strong character, level 0 when there is none
	AutoRTL  = 3 // rule P2, level 1 when there is no strong character
)

// Levels returns one resolved embedding level per element of text, after rule
// L1 applied to the text taken as a single line. text may hold several
// paragraphs: each paragraph separator (class B) ends a paragraph, belongs to
// it, and every paragraph is resolved on its own with the same para choice.
// Values that are not Unicode scalar values are treated as U+FFFD, which is
// what a conversion to a Go string does.
//
// para is one of ForceLTR, ForceRTL, AutoLTR, AutoRTL.
//
// With canonicalBrackets, bracket pairs are identified as BD14-BD16 require
// (a closing bracket pairs with the opening bracket of BidiBrackets.txt,
// U+2329/U+232A being equivalent to U+3008/U+3009). Without it every bracket
// is its own pair value, which is what x/text's own Paragraph.prepareInput
// feeds to this core: no pair is ever found and rule N0 never applies.
func Levels(text []rune, para int, canonicalBrackets bool) []int8 {
	out := make([]int8, 0, len(text))
	start := 0
	for start < len(text) {
		end := start
		for end < len(text) {
			p, _ := LookupRune(text[end])
			end++
			if p.Class() == B {
				break
			}
		}
		out = append(out, paragraphLevels(text[start:end], para, canonicalBrackets)...)
		start = end
	}
	return out
}

func paragraphLevels(text []rune, para int, canonicalBrackets bool) []int8 {
	n := len(text)
	types := make([]Class, n)
	pairTypes := make([]bracketType, n)
	pairValues := make([]rune, n)
	for i, r := range text {
		if r < 0 || r > 0x10FFFF || (r >= 0xD800 && r <= 0xDFFF) {
			r = 0xFFFD
		}
		props, _ := LookupRune(r)
		types[i] = props.Class()
		switch {
		case props.IsOpeningBracket():
			pairTypes[i] = bpOpen
			pairValues[i] = r
		case props.IsBracket():
			pairTypes[i] = bpClose
			pairValues[i] = r
			if canonicalBrackets {
				pairValues[i] = props.reverseBracket(r)
			}
		default:
			pairTypes[i] = bpNone
		}
		if canonicalBrackets && pairValues[i] == 0x2329 {
			pairValues[i] = 0x3008
		}
	}
	lvl := level(implicitLevel)
	switch para {
	case ForceLTR:
		lvl = 0
	case ForceRTL:
		lvl = 1
	}
	p, err := newParagraph(types, pairTypes, pairValues, lvl)
	if err != nil {
		panic("ref/bidi: " + err.Error())
	}
	if para == AutoRTL && p.embeddingLevel == 0 {
		// P3 chose 0: because of an L, or because nothing strong was found?
		strong := false
		for i := 0; i < n; i++ {
			if t := types[i]; t.in(L, AL, R) {
				strong = true
				break
			} else if t.in(FSI, LRI, RLI) {
				i = p.matchingPDI[i]
			}
		}
		if !strong {
			p, err = newParagraph(types, pairTypes, pairValues, 1)
			if err != nil {
				panic("ref/bidi: " + err.Error())
			}
		}
	}
	res := make([]int8, n)
	for i, l := range p.getLevels([]int{n}) {
		res[i] = int8(l)
	}
	return res
}
