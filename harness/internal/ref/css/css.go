// Package css is a reference model of the style-matching steps of the CSS
// font matching algorithm (CSS Fonts Module, section 5.2 "Matching font
// styles", step 4: font-stretch, then font-style, then font-weight).
//
// It is a transcription of the specification prose: each step builds the
// list of values "checked" in the order the text prescribes and takes the
// first one that a face of the matching set has. It shares no code and no
// structure with fontscan/match.go.
//
// Sources transcribed (quoted in the comments below):
//   - CSS Fonts Module Level 3, §5.2, steps 4.a (font-stretch) and 4.b
//     (font-style);
//   - for font-weight, CSS Fonts Module Level 4, §5.2: Level 3 only defines
//     the multiples of 100 ("400: 500 is checked first…"), Level 4 gives the
//     rule for any weight in three intervals (<400, [400,500], >500), which is
//     the wording of the property and coincides with Level 3 on multiples of
//     100 (SelfTest checks that the two transcriptions agree there).
package css

// Face is one font face of the matching set.
type Face struct {
	Stretch float64 // width as a fraction of normal (1 = normal), > 0
	Italic  bool    // italic or oblique (the two are not distinguished, as the spec permits)
	Weight  float64 // 1..1000
}

// Request is the requested style; Unset* select the initial values of the
// properties (font-stretch: normal, font-style: normal, font-weight: 400).
type Request struct {
	Stretch      float64
	UnsetStretch bool
	Italic       bool
	UnsetStyle   bool
	Weight       float64
	UnsetWeight  bool
}

// Trace says how each step found its value (for coverage accounting).
type Trace struct {
	Stretch StretchHow
	Style   StyleHow
	Weight  WeightHow
}

type StretchHow uint8

const (
	StretchExact          StretchHow = iota
	StretchNarrowerFirst             // desired <= normal, a narrower width exists
	StretchWiderFallback             // desired <= normal, no narrower width: nearest wider
	StretchWiderFirst                // desired > normal, a wider width exists
	StretchNarrowFallback            // desired > normal, no wider width: nearest narrower
	NStretchHow
)

var StretchHowNames = [...]string{"exact", "narrower checked first (desired<=normal)", "wider as fallback (desired<=normal)", "wider checked first (desired>normal)", "narrower as fallback (desired>normal)"}

type StyleHow uint8

const (
	StyleExact StyleHow = iota
	StyleFallbackToItalic
	StyleFallbackToNormal
	NStyleHow
)

var StyleHowNames = [...]string{"exact", "normal requested, only italic/oblique", "italic requested, only normal"}

type WeightHow uint8

const (
	WeightExact        WeightHow = iota
	WeightLightLighter           // desired < 400: below, descending
	WeightLightBolder            // desired < 400: nothing below, above ascending
	WeightMidUpTo500             // 400..500: >= desired ascending up to 500
	WeightMidLighter             // 400..500: below desired, descending
	WeightMidAbove500            // 400..500: above 500, ascending
	WeightBoldBolder             // desired > 500: above, ascending
	WeightBoldLighter            // desired > 500: nothing above, below descending
	NWeightHow
)

var WeightHowNames = [...]string{"exact", "<400: lighter", "<400: bolder as fallback", "400-500: bolder up to 500", "400-500: lighter", "400-500: bolder above 500 as last resort", ">500: bolder", ">500: lighter as fallback"}

const (
	normalStretch = 1.0
	normalWeight  = 400.0
)

// The steps below "check" values in an order given by the text. The values
// that exist are first put in ascending order without duplicates (ordered);
// firstBelow(x) / firstAbove(x) then walk the existing values below / above x
// in the order the text names. Small sets stay on the stack.

type ordered []float64

// order puts the distinct values of vs in ascending order into buf.
func order(buf []float64, vs []float64) ordered {
	o := buf[:0]
	for _, x := range vs {
		// insertion keeping ascending order, dropping duplicates
		i := len(o)
		for i > 0 && o[i-1] > x {
			i--
		}
		if i > 0 && o[i-1] == x {
			continue
		}
		o = append(o, 0)
		copy(o[i+1:], o[i:])
		o[i] = x
	}
	return o
}

func (o ordered) has(x float64) bool {
	for _, v := range o {
		if v == x {
			return true
		}
	}
	return false
}

// firstBelow: the first value met when the values below x are checked in
// descending order (ok=false if there is none).
func (o ordered) firstBelow(x float64) (float64, bool) {
	for i := len(o) - 1; i >= 0; i-- {
		if o[i] < x {
			return o[i], true
		}
	}
	return 0, false
}

// firstAbove: the first value met when the values above x are checked in
// ascending order.
func (o ordered) firstAbove(x float64) (float64, bool) {
	for _, v := range o {
		if v > x {
			return v, true
		}
	}
	return 0, false
}

// MatchStretch: "font-stretch is tried first. If the matching set contains
// faces with width values matching the font-stretch value, faces with other
// width values are removed from the matching set. If there is no face that
// exactly matches the width value the nearest width is used instead. If the
// value of font-stretch is 'normal' or one of the condensed values, narrower
// width values are checked first, then wider values. If the value of
// font-stretch is one of the expanded values, wider values are checked first,
// followed by narrower values."
// (Level 4 states the same for numeric widths: "less than or equal to 100%:
// below the desired value in descending order followed by above in ascending
// order; otherwise above ascending followed by below descending".)
func MatchStretch(widths []float64, desired float64) (float64, StretchHow) {
	var buf [24]float64
	ws := order(buf[:0], widths)
	if ws.has(desired) {
		return desired, StretchExact
	}
	if desired <= normalStretch {
		// narrower width values are checked first, then wider values
		if w, ok := ws.firstBelow(desired); ok {
			return w, StretchNarrowerFirst
		}
		if w, ok := ws.firstAbove(desired); ok {
			return w, StretchWiderFallback
		}
	} else {
		// wider values are checked first, followed by narrower values
		if w, ok := ws.firstAbove(desired); ok {
			return w, StretchWiderFirst
		}
		if w, ok := ws.firstBelow(desired); ok {
			return w, StretchNarrowFallback
		}
	}
	panic("css: empty matching set")
}

// MatchStyle: "font-style is tried next. If the value of font-style is
// 'italic', italic faces are checked first, then oblique, then normal faces.
// If the value is 'oblique', oblique faces are checked first, then italic
// faces and then normal faces. If the value is 'normal', normal faces are
// checked first, then oblique faces, then italic faces. Faces with other
// style values are excluded from the matching set. User agents are permitted
// to distinguish between italic and oblique faces within platform font
// families but this is not required, so all italic or oblique faces may be
// treated as italic faces."
func MatchStyle(hasNormal, hasItalic bool, desiredItalic bool) (italic bool, how StyleHow) {
	const (
		normal  = 0
		oblique = 1 // treated as italic
		ital    = 2
	)
	present := func(style int) bool {
		if style == normal {
			return hasNormal
		}
		return hasItalic
	}
	checked := [3]int{normal, oblique, ital}
	if desiredItalic {
		checked = [3]int{ital, oblique, normal}
	}
	for _, style := range checked {
		if present(style) {
			italic = style != normal
			switch {
			case italic == desiredItalic:
				return italic, StyleExact
			case italic:
				return italic, StyleFallbackToItalic
			default:
				return italic, StyleFallbackToNormal
			}
		}
	}
	panic("css: empty matching set")
}

// MatchWeight is the Level 4 rule, the weights being checked in the order
// the text gives, restricted to the weights that exist. "If the desired weight is
// available that face matches. Otherwise:
//   - If the desired weight is inclusively between 400 and 500, weights
//     greater than or equal to the target weight are checked in ascending order
//     until 500 is hit and checked, followed by weights less than the target
//     weight in descending order, followed by weights greater than 500, until
//     a match is found.
//   - If the desired weight is less than 400, weights less than or equal to
//     the desired weight are checked in descending order followed by weights
//     above the desired weight in ascending order until a match is found.
//   - If the desired weight is greater than 500, weights greater than or equal
//     to the desired weight are checked in ascending order followed by weights
//     below the desired weight in descending order until a match is found."
func MatchWeight(weights []float64, desired float64) (float64, WeightHow) {
	var buf [24]float64
	ws := order(buf[:0], weights)
	if ws.has(desired) {
		return desired, WeightExact
	}
	switch {
	case desired >= 400 && desired <= 500:
		// >= target ascending until 500 is hit and checked
		if w, ok := ws.firstAbove(desired); ok && w <= 500 {
			return w, WeightMidUpTo500
		}
		// then less than the target, descending
		if w, ok := ws.firstBelow(desired); ok {
			return w, WeightMidLighter
		}
		// then greater than 500
		if w, ok := ws.firstAbove(500); ok {
			return w, WeightMidAbove500
		}
	case desired < 400:
		if w, ok := ws.firstBelow(desired); ok {
			return w, WeightLightLighter
		}
		if w, ok := ws.firstAbove(desired); ok {
			return w, WeightLightBolder
		}
	default: // > 500
		if w, ok := ws.firstAbove(desired); ok {
			return w, WeightBoldBolder
		}
		if w, ok := ws.firstBelow(desired); ok {
			return w, WeightBoldLighter
		}
	}
	panic("css: empty matching set")
}

// matchWeight3 is the Level 3 text, defined for multiples of 100 only:
// "if the desired weight is available that face matches. Otherwise:
//   - If the desired weight is less than 400, weights below the desired weight
//     are checked in descending order followed by weights above the desired
//     weight in ascending order until a match is found.
//   - If the desired weight is greater than 500, weights above the desired
//     weight are checked in ascending order followed by weights below the
//     desired weight in descending order until a match is found.
//   - If the desired weight is 400, 500 is checked first and then the rule for
//     desired weights less than 400 is used.
//   - If the desired weight is 500, 400 is checked first and then the rule for
//     desired weights less than 400 is used."
func matchWeight3(weights []float64, desired float64) float64 {
	// deliberately written with explicit lists, unlike MatchWeight
	present := map[float64]bool{}
	for _, w := range weights {
		present[w] = true
	}
	if present[desired] {
		return desired
	}
	var order []float64
	lightRule := func(d float64) {
		for w := d - 100; w >= 100; w -= 100 {
			order = append(order, w)
		}
		for w := d + 100; w <= 900; w += 100 {
			order = append(order, w)
		}
	}
	switch {
	case desired == 400:
		order = append(order, 500)
		lightRule(400)
	case desired == 500:
		order = append(order, 400)
		lightRule(500)
	case desired < 400:
		lightRule(desired)
	default:
		for w := desired + 100; w <= 900; w += 100 {
			order = append(order, w)
		}
		for w := desired - 100; w >= 100; w -= 100 {
			order = append(order, w)
		}
	}
	for _, w := range order {
		if present[w] {
			return w
		}
	}
	panic("css: empty matching set")
}

// Select narrows a non-empty matching set: stretch, then style, then weight.
// It returns the (stretch, style, weight) every remaining face has.
func Select(faces []Face, req Request) (Face, Trace) {
	if len(faces) == 0 {
		panic("css: empty matching set")
	}
	var tr Trace
	desiredStretch := req.Stretch
	if req.UnsetStretch {
		desiredStretch = normalStretch
	}
	desiredItalic := req.Italic
	if req.UnsetStyle {
		desiredItalic = false
	}
	desiredWeight := req.Weight
	if req.UnsetWeight {
		desiredWeight = normalWeight
	}
	var buf [24]float64
	values := buf[:0]

	// 4.a font-stretch, on the whole matching set
	for _, f := range faces {
		values = append(values, f.Stretch)
	}
	var stretch float64
	stretch, tr.Stretch = MatchStretch(values, desiredStretch)
	// "faces with widths other than this value are removed from the matching set"

	// 4.b font-style, on what remains
	var hasN, hasI bool
	for _, f := range faces {
		if f.Stretch != stretch {
			continue
		}
		if f.Italic {
			hasI = true
		} else {
			hasN = true
		}
	}
	var italic bool
	italic, tr.Style = MatchStyle(hasN, hasI, desiredItalic)
	// "Faces with other style values are excluded from the matching set."

	// 4.c font-weight, on what remains
	values = values[:0]
	for _, f := range faces {
		if f.Stretch == stretch && f.Italic == italic {
			values = append(values, f.Weight)
		}
	}
	var weight float64
	weight, tr.Weight = MatchWeight(values, desiredWeight)
	return Face{Stretch: stretch, Italic: italic, Weight: weight}, tr
}

// SelfTest compares the Level 3 and Level 4 transcriptions of the weight rule
// on every non-empty subset of {100,…,900} and every desired multiple of 100.
// It returns a description of the first disagreement, or "".
func SelfTest() string {
	for mask := 1; mask < 1<<9; mask++ {
		var ws []float64
		for b := 0; b < 9; b++ {
			if mask&(1<<b) != 0 {
				ws = append(ws, float64(100*(b+1)))
			}
		}
		for d := 100.0; d <= 900; d += 100 {
			w4, _ := MatchWeight(ws, d)
			if w3 := matchWeight3(ws, d); w3 != w4 {
				return "weight rule: Level 3 and Level 4 transcriptions differ"
			}
		}
	}
	return ""
}
