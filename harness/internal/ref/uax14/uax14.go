// Package uax14 is a reference transcription of the Unicode Line Breaking
// Algorithm, UAX #14 revision 47 (Unicode 14.0; the rule set is unchanged in
// revision 49 / Unicode 15.0), with rule LB25 replaced by the regular-expression
// tailoring of "Example 7" (section 8.2) and LB13 tailored accordingly - the
// rule set whose conformance file (LineBreakTest-14.0.0.txt) the library ships
// and whose tailoring the library documents.
//
// The transcription is deliberately naive: the input is a string of classes
// (plus the three character properties that rules LB1, LB30 and LB30b name),
// and every boundary position is decided on its own by trying the rules in the
// order of the specification. Each rule is an explicit pattern around the
// position, matched with backward / forward scans. There is no cursor and no
// state carried from one position to the next.
package uax14

// Class is a Line_Break property value.
type Class uint8

const (
	XX Class = iota
	BK
	CR
	LF
	NL
	SP
	ZW
	ZWJ
	CM
	WJ
	GL
	CL
	CP
	EX
	IS
	SY
	OP
	QU
	NS
	B2
	BA
	BB
	HY
	CB
	IN
	AL
	HL
	NU
	PR
	PO
	ID
	EB
	EM
	JL
	JV
	JT
	H2
	H3
	RI
	AI
	SG
	SA
	CJ
	NClass
)

var classNames = [NClass]string{"XX", "BK", "CR", "LF", "NL", "SP", "ZW", "ZWJ", "CM", "WJ", "GL", "CL", "CP", "EX", "IS", "SY",
	"OP", "QU", "NS", "B2", "BA", "BB", "HY", "CB", "IN", "AL", "HL", "NU", "PR", "PO", "ID", "EB", "EM", "JL", "JV", "JT", "H2", "H3",
	"RI", "AI", "SG", "SA", "CJ"}

func (c Class) String() string {
	if c < NClass {
		return classNames[c]
	}
	return "?"
}

// Char is one input character as the rules see it.
type Char struct {
	Class     Class // Line_Break value before LB1
	Mark      bool  // General_Category Mn or Mc (LB1: SA characters)
	Wide      bool  // East_Asian_Width F, W or H (LB30)
	ExtPictCn bool  // Extended_Pictographic and General_Category Cn (LB30b)
}

// Op is the outcome at one position.
type Op uint8

const (
	Prohibited Op = iota // ×
	Allowed              // ÷
	Mandatory            // !
)

// Rule identifies the (sub-)rule that decided a position.
type Rule uint8

const (
	LB2 Rule = iota
	LB3
	LB4
	LB5_1 // CR × LF
	LB5_2 // CR !
	LB5_3 // LF !
	LB5_4 // NL !
	LB6
	LB7_1 // × SP
	LB7_2 // × ZW
	LB8
	LB8a
	LB9
	LB11_1 // × WJ
	LB11_2 // WJ ×
	LB12
	LB12a
	LB13_1 // × EX
	LB13_2 // [^NU] × CL
	LB13_3 // [^NU] × CP
	LB13_4 // [^NU] × IS
	LB13_5 // [^NU] × SY
	LB14
	LB15
	LB16
	LB17
	LB18
	LB19_1 // × QU
	LB19_2 // QU ×
	LB20_1 // ÷ CB
	LB20_2 // CB ÷
	LB21_1 // × BA
	LB21_2 // × HY
	LB21_3 // × NS
	LB21_4 // BB ×
	LB21a
	LB21b
	LB22
	LB23_1 // (AL|HL) × NU
	LB23_2 // NU × (AL|HL)
	LB23a_1
	LB23a_2
	LB24_1
	LB24_2
	LB25_1a // (PR|PO) × NU
	LB25_1b // (PR|PO) × (OP|HY) NU
	LB25_2  // (OP|HY) × NU
	LB25_3  // NU × (NU|SY|IS)
	LB25_4  // NU (NU|SY|IS)* × (NU|SY|IS|CL|CP)
	LB25_5  // NU (NU|SY|IS)* (CL|CP)? × (PO|PR)
	LB26_1
	LB26_2
	LB26_3
	LB27_1
	LB27_2
	LB28
	LB29
	LB30_1
	LB30_2
	LB30a
	LB30b_1
	LB30b_2
	LB31
	NRule
)

var ruleNames = [NRule]string{"LB2", "LB3", "LB4", "LB5.1", "LB5.2", "LB5.3", "LB5.4", "LB6", "LB7.1", "LB7.2", "LB8", "LB8a", "LB9",
	"LB11.1", "LB11.2", "LB12", "LB12a", "LB13.1", "LB13.2", "LB13.3", "LB13.4", "LB13.5", "LB14", "LB15", "LB16", "LB17", "LB18",
	"LB19.1", "LB19.2", "LB20.1", "LB20.2", "LB21.1", "LB21.2", "LB21.3", "LB21.4", "LB21a", "LB21b", "LB22", "LB23.1", "LB23.2",
	"LB23a.1", "LB23a.2", "LB24.1", "LB24.2", "LB25.1a", "LB25.1b", "LB25.2", "LB25.3", "LB25.4", "LB25.5", "LB26.1", "LB26.2", "LB26.3",
	"LB27.1", "LB27.2", "LB28", "LB29", "LB30.1", "LB30.2", "LB30a", "LB30b.1", "LB30b.2", "LB31"}

func (r Rule) String() string {
	if r < NRule {
		return ruleNames[r]
	}
	return "?"
}

// Number is the rule number as printed in the comments of LineBreakTest.txt
// ("[25.03]" -> 25), used by the oracle self-test.
func (r Rule) Number() int {
	s := ruleNames[r][2:]
	n := 0
	for _, c := range s {
		if c < '0' || c > '9' {
			break
		}
		n = n*10 + int(c-'0')
	}
	if r == LB2 || r == LB3 {
		return 0
	}
	if r == LB31 {
		return 999
	}
	return n
}

// Decision is the outcome at one position with the rule that produced it.
// LB10 tells that one of the two elements around the position is a combining
// mark or ZWJ that rule LB10 turned into AL.
type Decision struct {
	Op   Op
	Rule Rule
	LB10 bool
}

// resolve is rule LB1 with the default resolutions of the specification:
// AI, SG, XX -> AL; SA -> CM if General_Category is Mn or Mc, else AL; CJ -> NS.
// (CB is kept: LB20 deals with it.)
func resolve(c Char) Class {
	switch c.Class {
	case AI, SG, XX:
		return AL
	case SA:
		if c.Mark {
			return CM
		}
		return AL
	case CJ:
		return NS
	}
	return c.Class
}

func isCMorZWJ(c Class) bool { return c == CM || c == ZWJ }

// noAttach lists the classes X after which LB9 does not attach marks
// ("where X is any line break class except BK, CR, LF, NL, SP, or ZW").
func noAttach(c Class) bool {
	return c == BK || c == CR || c == LF || c == NL || c == SP || c == ZW
}

// elem is one element of the string as rules LB11-LB31 see it after
// LB9 ("treat X (CM|ZWJ)* as X") and LB10 ("treat any remaining CM or ZWJ as AL").
type elem struct {
	class Class
	base  int  // index of the character that carries the element
	lb10  bool // a CM/ZWJ seen as AL
}

// fold applies LB9 and LB10. elemOf[k] is the element that starts at raw
// index k, or -1 if character k is absorbed into an earlier element.
func fold(res []Class) (elems []elem, elemOf []int) {
	elemOf = make([]int, len(res))
	for k, c := range res {
		if !isCMorZWJ(c) {
			elemOf[k] = len(elems)
			elems = append(elems, elem{class: c, base: k})
			continue
		}
		// scan back over the run of CM/ZWJ this character belongs to
		j := k - 1
		for j >= 0 && isCMorZWJ(res[j]) {
			j--
		}
		if j >= 0 && !noAttach(res[j]) {
			elemOf[k] = -1 // LB9: part of X (CM|ZWJ)*
			continue
		}
		// the run starts the text or follows BK, CR, LF, NL, SP, ZW
		if k == j+1 {
			elemOf[k] = len(elems) // LB10: first of the run is AL ...
			elems = append(elems, elem{class: AL, base: k, lb10: true})
		} else {
			elemOf[k] = -1 // ... and the rest attaches to that AL by LB9
		}
	}
	return elems, elemOf
}

func in(c Class, set ...Class) bool {
	for _, s := range set {
		if c == s {
			return true
		}
	}
	return false
}

// Analyse returns one decision per position 0..len(chars): position i lies
// between chars[i-1] and chars[i].
func Analyse(chars []Char) []Decision {
	n := len(chars)
	res := make([]Class, n)
	for i, c := range chars {
		res[i] = resolve(c)
	}
	elems, elemOf := fold(res)
	out := make([]Decision, n+1)
	for i := 0; i <= n; i++ {
		out[i] = decide(chars, res, elems, elemOf, i)
	}
	return out
}

func decide(chars []Char, res []Class, F []elem, elemOf []int, i int) Decision {
	n := len(res)
	no := func(r Rule) Decision { return Decision{Op: Prohibited, Rule: r} }
	yes := func(r Rule) Decision { return Decision{Op: Allowed, Rule: r} }
	must := func(r Rule) Decision { return Decision{Op: Mandatory, Rule: r} }

	// LB2: never break at the start of text.  sot ×
	if i == 0 {
		return no(LB2)
	}
	// LB3: always break at the end of text.  ! eot
	if i == n {
		return must(LB3)
	}
	a, b := res[i-1], res[i] // the characters themselves: LB4-LB9 come before any folding

	// LB4: BK !
	if a == BK {
		return must(LB4)
	}
	// LB5: CR × LF, CR !, LF !, NL !
	if a == CR && b == LF {
		return no(LB5_1)
	}
	if a == CR {
		return must(LB5_2)
	}
	if a == LF {
		return must(LB5_3)
	}
	if a == NL {
		return must(LB5_4)
	}
	// LB6: × ( BK | CR | LF | NL )
	if in(b, BK, CR, LF, NL) {
		return no(LB6)
	}
	// LB7: × SP, × ZW
	if b == SP {
		return no(LB7_1)
	}
	if b == ZW {
		return no(LB7_2)
	}
	// LB8: ZW SP* ÷
	{
		j := i - 1
		for j >= 0 && res[j] == SP {
			j--
		}
		if j >= 0 && res[j] == ZW {
			return yes(LB8)
		}
	}
	// LB8a: ZWJ ×
	if a == ZWJ {
		return no(LB8a)
	}
	// LB9: do not break a combining character sequence: X (CM|ZWJ)*, X not in BK CR LF NL SP ZW
	if isCMorZWJ(b) && !noAttach(a) {
		return no(LB9)
	}

	// From here on the rules see the folded string (LB9, LB10).
	e := elemOf[i]
	if e < 1 {
		// cannot happen: an absorbed character was decided by LB9, and i >= 1
		panic("uax14: internal: position inside an absorbed sequence")
	}
	P, C := F[e-1].class, F[e].class
	lb10 := F[e-1].lb10 || F[e].lb10
	no = func(r Rule) Decision { return Decision{Op: Prohibited, Rule: r, LB10: lb10} }
	yes = func(r Rule) Decision { return Decision{Op: Allowed, Rule: r, LB10: lb10} }

	// beforeSpaces: the element in front of the (possibly empty) run of SP that ends at the position
	beforeSP := func() (Class, bool) {
		j := e - 1
		for j >= 0 && F[j].class == SP {
			j--
		}
		if j < 0 {
			return 0, false
		}
		return F[j].class, true
	}

	// LB11: × WJ, WJ ×
	if C == WJ {
		return no(LB11_1)
	}
	if P == WJ {
		return no(LB11_2)
	}
	// LB12: GL ×
	if P == GL {
		return no(LB12)
	}
	// LB12a: [^SP BA HY] × GL
	if C == GL && !in(P, SP, BA, HY) {
		return no(LB12a)
	}
	// LB13 as tailored by Example 7: × EX, [^NU] × CL, [^NU] × CP, [^NU] × IS, [^NU] × SY
	if C == EX {
		return no(LB13_1)
	}
	if P != NU {
		switch C {
		case CL:
			return no(LB13_2)
		case CP:
			return no(LB13_3)
		case IS:
			return no(LB13_4)
		case SY:
			return no(LB13_5)
		}
	}
	// LB14: OP SP* ×
	if x, ok := beforeSP(); ok && x == OP {
		return no(LB14)
	}
	// LB15: QU SP* × OP
	if x, ok := beforeSP(); ok && x == QU && C == OP {
		return no(LB15)
	}
	// LB16: (CL | CP) SP* × NS
	if x, ok := beforeSP(); ok && (x == CL || x == CP) && C == NS {
		return no(LB16)
	}
	// LB17: B2 SP* × B2
	if x, ok := beforeSP(); ok && x == B2 && C == B2 {
		return no(LB17)
	}
	// LB18: SP ÷
	if P == SP {
		return yes(LB18)
	}
	// LB19: × QU, QU ×
	if C == QU {
		return no(LB19_1)
	}
	if P == QU {
		return no(LB19_2)
	}
	// LB20: ÷ CB, CB ÷
	if C == CB {
		return yes(LB20_1)
	}
	if P == CB {
		return yes(LB20_2)
	}
	// LB21: × BA, × HY, × NS, BB ×
	if C == BA {
		return no(LB21_1)
	}
	if C == HY {
		return no(LB21_2)
	}
	if C == NS {
		return no(LB21_3)
	}
	if P == BB {
		return no(LB21_4)
	}
	// LB21a: HL (HY | BA) ×
	if e >= 2 && F[e-2].class == HL && (P == HY || P == BA) {
		return no(LB21a)
	}
	// LB21b: SY × HL
	if P == SY && C == HL {
		return no(LB21b)
	}
	// LB22: × IN
	if C == IN {
		return no(LB22)
	}
	// LB23: (AL | HL) × NU, NU × (AL | HL)
	if (P == AL || P == HL) && C == NU {
		return no(LB23_1)
	}
	if P == NU && (C == AL || C == HL) {
		return no(LB23_2)
	}
	// LB23a: PR × (ID | EB | EM), (ID | EB | EM) × PO
	if P == PR && in(C, ID, EB, EM) {
		return no(LB23a_1)
	}
	if in(P, ID, EB, EM) && C == PO {
		return no(LB23a_2)
	}
	// LB24: (PR | PO) × (AL | HL), (AL | HL) × (PR | PO)
	if (P == PR || P == PO) && (C == AL || C == HL) {
		return no(LB24_1)
	}
	if (P == AL || P == HL) && (C == PR || C == PO) {
		return no(LB24_2)
	}
	// LB25, Example 7:
	//   (PR | PO) × ( OP | HY )? NU
	if P == PR || P == PO {
		if C == NU {
			return no(LB25_1a)
		}
		if (C == OP || C == HY) && e+1 < len(F) && F[e+1].class == NU {
			return no(LB25_1b)
		}
	}
	//   ( OP | HY ) × NU
	if (P == OP || P == HY) && C == NU {
		return no(LB25_2)
	}
	//   NU × (NU | SY | IS)
	if P == NU && in(C, NU, SY, IS) {
		return no(LB25_3)
	}
	//   NU (NU | SY | IS)* × (NU | SY | IS | CL | CP)
	// numBefore(j): do the elements ending at index j match  NU (NU|SY|IS)* ?
	numBefore := func(j int) bool {
		for j >= 0 && in(F[j].class, NU, SY, IS) {
			if F[j].class == NU {
				return true
			}
			j--
		}
		return false
	}
	if in(C, NU, SY, IS, CL, CP) && numBefore(e-1) {
		return no(LB25_4)
	}
	//   NU (NU | SY | IS)* (CL | CP)? × (PO | PR)
	if C == PO || C == PR {
		if numBefore(e - 1) {
			return no(LB25_5)
		}
		if (P == CL || P == CP) && numBefore(e-2) {
			return no(LB25_5)
		}
	}
	// LB26: JL × (JL | JV | H2 | H3), (JV | H2) × (JV | JT), (JT | H3) × JT
	if P == JL && in(C, JL, JV, H2, H3) {
		return no(LB26_1)
	}
	if (P == JV || P == H2) && (C == JV || C == JT) {
		return no(LB26_2)
	}
	if (P == JT || P == H3) && C == JT {
		return no(LB26_3)
	}
	// LB27: (JL | JV | JT | H2 | H3) × PO, PR × (JL | JV | JT | H2 | H3)
	if in(P, JL, JV, JT, H2, H3) && C == PO {
		return no(LB27_1)
	}
	if P == PR && in(C, JL, JV, JT, H2, H3) {
		return no(LB27_2)
	}
	// LB28: (AL | HL) × (AL | HL)
	if (P == AL || P == HL) && (C == AL || C == HL) {
		return no(LB28)
	}
	// LB29: IS × (AL | HL)
	if P == IS && (C == AL || C == HL) {
		return no(LB29)
	}
	// LB30: (AL | HL | NU) × [OP-[\p{ea=F}\p{ea=W}\p{ea=H}]]
	//       [CP-[\p{ea=F}\p{ea=W}\p{ea=H}]] × (AL | HL | NU)
	if in(P, AL, HL, NU) && C == OP && !chars[F[e].base].Wide {
		return no(LB30_1)
	}
	if P == CP && !chars[F[e-1].base].Wide && in(C, AL, HL, NU) {
		return no(LB30_2)
	}
	// LB30a: sot (RI RI)* RI × RI, [^RI] (RI RI)* RI × RI
	if C == RI {
		cnt := 0
		for j := e - 1; j >= 0 && F[j].class == RI; j-- {
			cnt++
		}
		if cnt%2 == 1 {
			return no(LB30a)
		}
	}
	// LB30b: EB × EM, [\p{Extended_Pictographic}&\p{Cn}] × EM
	if P == EB && C == EM {
		return no(LB30b_1)
	}
	if C == EM && !F[e-1].lb10 && chars[F[e-1].base].ExtPictCn {
		return no(LB30b_2)
	}
	// LB31: break everywhere else.  ALL ÷, ÷ ALL
	return yes(LB31)
}
