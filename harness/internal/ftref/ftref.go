// Package ftref is a thin cgo binding to the installed FreeType (2.12.1) used
// as an independent glyph decoder by the C10 monitor.
//
// Only unmodified corpus font bytes are ever handed to it. A Library and the
// faces created from it must be used by one goroutine at a time (FreeType's
// FT_Library is not thread safe); create one Library per worker.
package ftref

/*
#cgo pkg-config: freetype2
#include <stdlib.h>
#include <string.h>
#include <ft2build.h>
#include FT_FREETYPE_H
#include FT_OUTLINE_H
#include FT_MULTIPLE_MASTERS_H
#include FT_TRUETYPE_TABLES_H
#include FT_BBOX_H

static int vr_has_glyph_names(FT_Face f) { return FT_HAS_GLYPH_NAMES(f) ? 1 : 0; }
static int vr_is_scalable(FT_Face f)     { return FT_IS_SCALABLE(f) ? 1 : 0; }
static int vr_is_sfnt(FT_Face f)         { return FT_IS_SFNT(f) ? 1 : 0; }
static int vr_has_mm(FT_Face f)          { return FT_HAS_MULTIPLE_MASTERS(f) ? 1 : 0; }
static int vr_has_vertical(FT_Face f)    { return FT_HAS_VERTICAL(f) ? 1 : 0; }
static int vr_unicode_charmap(FT_Face f) { return f->charmap && f->charmap->encoding == FT_ENCODING_UNICODE; }
static int vr_charmap_ids(FT_Face f, int *pid, int *eid) {
	if (!f->charmap) return 0;
	*pid = f->charmap->platform_id; *eid = f->charmap->encoding_id; return 1;
}

typedef struct {
	long advX, advY;          // slot->advance (font units with NO_SCALE)
	long horiAdvance, vertAdvance, horiBearingX, horiBearingY, width, height;
	long linHori, linVert;
	int  format;              // 1 = outline, 2 = bitmap, 0 = other
	int  nPoints, nContours;
	long cbox[4];             // xMin, yMin, xMax, yMax of the outline control box
} vr_glyph;

static int vr_load(FT_Face f, unsigned gid, vr_glyph *g) {
	memset(g, 0, sizeof *g);
	FT_Error e = FT_Load_Glyph(f, gid, FT_LOAD_NO_SCALE | FT_LOAD_NO_HINTING | FT_LOAD_NO_BITMAP | FT_LOAD_IGNORE_TRANSFORM);
	if (e) return e;
	FT_GlyphSlot s = f->glyph;
	g->advX = s->advance.x; g->advY = s->advance.y;
	g->horiAdvance = s->metrics.horiAdvance; g->vertAdvance = s->metrics.vertAdvance;
	g->horiBearingX = s->metrics.horiBearingX; g->horiBearingY = s->metrics.horiBearingY;
	g->width = s->metrics.width; g->height = s->metrics.height;
	g->linHori = s->linearHoriAdvance; g->linVert = s->linearVertAdvance;
	if (s->format == FT_GLYPH_FORMAT_OUTLINE) {
		g->format = 1;
		g->nPoints = s->outline.n_points; g->nContours = s->outline.n_contours;
		FT_BBox b; FT_Outline_Get_CBox(&s->outline, &b);
		g->cbox[0] = b.xMin; g->cbox[1] = b.yMin; g->cbox[2] = b.xMax; g->cbox[3] = b.yMax;
	} else if (s->format == FT_GLYPH_FORMAT_BITMAP) {
		g->format = 2;
	}
	return 0;
}

// copies the raw outline of the glyph currently in the slot
static void vr_outline(FT_Face f, long *xy, unsigned char *tags, short *ends) {
	FT_Outline *o = &f->glyph->outline;
	for (int i = 0; i < o->n_points; i++) { xy[2*i] = o->points[i].x; xy[2*i+1] = o->points[i].y; tags[i] = (unsigned char)o->tags[i]; }
	for (int i = 0; i < o->n_contours; i++) ends[i] = o->contours[i];
}

// ---- FT_Outline_Decompose with a recording sink -------------------------
typedef struct { double *v; int n, cap; int err; } vr_rec;
static void vr_push(vr_rec *r, double op, int k, const double *a) {
	if (r->n + 1 + k > r->cap) {
		int nc = r->cap ? r->cap * 2 : 256;
		while (nc < r->n + 1 + k) nc *= 2;
		double *nv = realloc(r->v, nc * sizeof(double));
		if (!nv) { r->err = 1; return; }
		r->v = nv; r->cap = nc;
	}
	r->v[r->n++] = op;
	for (int i = 0; i < k; i++) r->v[r->n++] = a[i];
}
static int vr_move(const FT_Vector *to, void *u)  { double a[2] = {to->x, to->y}; vr_push(u, 0, 2, a); return 0; }
static int vr_line(const FT_Vector *to, void *u)  { double a[2] = {to->x, to->y}; vr_push(u, 1, 2, a); return 0; }
static int vr_conic(const FT_Vector *c, const FT_Vector *to, void *u) { double a[4] = {c->x, c->y, to->x, to->y}; vr_push(u, 2, 4, a); return 0; }
static int vr_cubic(const FT_Vector *c1, const FT_Vector *c2, const FT_Vector *to, void *u) {
	double a[6] = {c1->x, c1->y, c2->x, c2->y, to->x, to->y}; vr_push(u, 3, 6, a); return 0; }

// decomposes the outline in the slot; returns a malloc'ed array (caller frees) of
// op,args... records; *n = number of doubles; <0 on error
static double *vr_decompose(FT_Face f, int *n) {
	vr_rec r = {0, 0, 0, 0};
	FT_Outline_Funcs fn = { vr_move, vr_line, vr_conic, vr_cubic, 0, 0 };
	FT_Error e = FT_Outline_Decompose(&f->glyph->outline, &fn, &r);
	if (e || r.err) { free(r.v); *n = -1; return 0; }
	*n = r.n;
	return r.v;
}

typedef struct { unsigned long tag; long min, def, max; } vr_axis;

static int vr_mm_axes(FT_Library lib, FT_Face f, vr_axis *out, int cap) {
	FT_MM_Var *mm = 0;
	if (FT_Get_MM_Var(f, &mm)) return -1;
	int n = mm->num_axis;
	for (int i = 0; i < n && i < cap; i++) {
		out[i].tag = mm->axis[i].tag; out[i].min = mm->axis[i].minimum; out[i].def = mm->axis[i].def; out[i].max = mm->axis[i].maximum;
	}
	FT_Done_MM_Var(lib, mm);
	return n;
}
*/
import "C"

import (
	"fmt"
	"unsafe"
)

// Library wraps an FT_Library.
type Library struct {
	lib C.FT_Library
}

// NewLibrary creates a FreeType library instance.
func NewLibrary() (*Library, error) {
	l := &Library{}
	if e := C.FT_Init_FreeType(&l.lib); e != 0 {
		return nil, fmt.Errorf("FT_Init_FreeType: error %d", int(e))
	}
	return l, nil
}

// Version returns the runtime version of the FreeType library.
func (l *Library) Version() string {
	var a, b, c C.FT_Int
	C.FT_Library_Version(l.lib, &a, &b, &c)
	return fmt.Sprintf("%d.%d.%d", int(a), int(b), int(c))
}

// Close releases the library (faces must be closed first).
func (l *Library) Close() {
	if l.lib != nil {
		C.FT_Done_FreeType(l.lib)
		l.lib = nil
	}
}

// Face is one FT_Face over a private C copy of the font bytes.
type Face struct {
	lib  *Library
	face C.FT_Face
	mem  unsafe.Pointer
}

// NumFaces opens the file just to read the number of faces it holds.
func (l *Library) NumFaces(data []byte) int {
	f, err := l.NewFace(data, -1)
	if err != nil {
		return 0
	}
	n := int(f.face.num_faces)
	f.Close()
	return n
}

// NewFace opens face `index` of the font file content (never modified).
func (l *Library) NewFace(data []byte, index int) (*Face, error) {
	if len(data) == 0 {
		return nil, fmt.Errorf("empty font")
	}
	f := &Face{lib: l}
	f.mem = C.CBytes(data)
	if e := C.FT_New_Memory_Face(l.lib, (*C.FT_Byte)(f.mem), C.FT_Long(len(data)), C.FT_Long(index), &f.face); e != 0 {
		C.free(f.mem)
		return nil, fmt.Errorf("FT_New_Memory_Face: error %d", int(e))
	}
	return f, nil
}

// Close releases the face and its copy of the bytes.
func (f *Face) Close() {
	if f.face != nil {
		C.FT_Done_Face(f.face)
		f.face = nil
	}
	if f.mem != nil {
		C.free(f.mem)
		f.mem = nil
	}
}

func (f *Face) NumGlyphs() int        { return int(f.face.num_glyphs) }
func (f *Face) Upem() int             { return int(f.face.units_per_EM) }
func (f *Face) IsScalable() bool      { return C.vr_is_scalable(f.face) != 0 }
func (f *Face) IsSFNT() bool          { return C.vr_is_sfnt(f.face) != 0 }
func (f *Face) HasGlyphNames() bool   { return C.vr_has_glyph_names(f.face) != 0 }
func (f *Face) HasMM() bool           { return C.vr_has_mm(f.face) != 0 }
func (f *Face) HasVertical() bool     { return C.vr_has_vertical(f.face) != 0 }
func (f *Face) UnicodeCharmap() bool  { return C.vr_unicode_charmap(f.face) != 0 }
func (f *Face) Ascender() int         { return int(f.face.ascender) }
func (f *Face) Descender() int        { return int(f.face.descender) }
func (f *Face) Height() int           { return int(f.face.height) }
func (f *Face) NumFacesInFile() int   { return int(f.face.num_faces) }
func (f *Face) NumFixedSizes() int    { return int(f.face.num_fixed_sizes) }

// CharmapIDs returns platform and encoding id of the selected charmap.
func (f *Face) CharmapIDs() (pid, eid int, ok bool) {
	var p, e C.int
	if C.vr_charmap_ids(f.face, &p, &e) == 0 {
		return 0, 0, false
	}
	return int(p), int(e), true
}

// CharIndex maps a code point through the selected charmap (0 = missing).
func (f *Face) CharIndex(r rune) uint32 {
	return uint32(C.FT_Get_Char_Index(f.face, C.FT_ULong(r)))
}

// Chars enumerates the selected charmap (code, gid) in ascending code order.
func (f *Face) Chars(fn func(r rune, gid uint32)) {
	var gid C.FT_UInt
	c := C.FT_Get_First_Char(f.face, &gid)
	for gid != 0 {
		fn(rune(c), uint32(gid))
		c = C.FT_Get_Next_Char(f.face, c, &gid)
	}
}

// GlyphName returns the glyph name (only meaningful if HasGlyphNames).
func (f *Face) GlyphName(gid uint32) (string, bool) {
	var buf [128]C.char
	if e := C.FT_Get_Glyph_Name(f.face, C.FT_UInt(gid), C.FT_Pointer(unsafe.Pointer(&buf[0])), 128); e != 0 {
		return "", false
	}
	return C.GoString(&buf[0]), true
}

// Glyph holds the unscaled metrics of one loaded glyph.
type Glyph struct {
	AdvanceX, AdvanceY       int
	HoriAdvance, VertAdvance int
	HoriBearingX             int
	HoriBearingY             int
	Width, Height            int
	LinearHori, LinearVert   int
	IsOutline, IsBitmap      bool
	NPoints, NContours       int
	XMin, YMin, XMax, YMax   int // control box of the outline
}

// Load loads a glyph with NO_SCALE|NO_HINTING|NO_BITMAP; it stays in the
// slot for Outline/Decompose until the next Load.
func (f *Face) Load(gid uint32) (Glyph, error) {
	var g C.vr_glyph
	if e := C.vr_load(f.face, C.uint(gid), &g); e != 0 {
		return Glyph{}, fmt.Errorf("FT_Load_Glyph(%d): error %d", gid, int(e))
	}
	return Glyph{
		AdvanceX: int(g.advX), AdvanceY: int(g.advY),
		HoriAdvance: int(g.horiAdvance), VertAdvance: int(g.vertAdvance),
		HoriBearingX: int(g.horiBearingX), HoriBearingY: int(g.horiBearingY),
		Width: int(g.width), Height: int(g.height),
		LinearHori: int(g.linHori), LinearVert: int(g.linVert),
		IsOutline: g.format == 1, IsBitmap: g.format == 2,
		NPoints: int(g.nPoints), NContours: int(g.nContours),
		XMin: int(g.cbox[0]), YMin: int(g.cbox[1]), XMax: int(g.cbox[2]), YMax: int(g.cbox[3]),
	}, nil
}

// Point is one raw outline point.
type Point struct {
	X, Y int
	Tag  byte // bit0: on curve; bit1: cubic control (when off curve)
}

// Outline returns the raw points and contour end indices of the glyph in the slot.
func (f *Face) Outline(g Glyph) ([]Point, []int) {
	if !g.IsOutline || g.NPoints == 0 {
		return nil, nil
	}
	xy := make([]C.long, 2*g.NPoints)
	tags := make([]C.uchar, g.NPoints)
	ends := make([]C.short, g.NContours+1)
	C.vr_outline(f.face, &xy[0], &tags[0], &ends[0])
	pts := make([]Point, g.NPoints)
	for i := range pts {
		pts[i] = Point{int(xy[2*i]), int(xy[2*i+1]), byte(tags[i])}
	}
	e := make([]int, g.NContours)
	for i := range e {
		e[i] = int(ends[i])
	}
	return pts, e
}

// Seg is one decomposed segment: Op 0 move, 1 line, 2 quad, 3 cubic.
type Seg struct {
	Op   int
	Args [6]float64 // x,y pairs; 1, 1, 2, 3 points
}

// Decompose runs FT_Outline_Decompose on the glyph in the slot.
func (f *Face) Decompose() ([]Seg, error) {
	var n C.int
	p := C.vr_decompose(f.face, &n)
	if n < 0 {
		return nil, fmt.Errorf("FT_Outline_Decompose failed")
	}
	if p == nil || n == 0 {
		if p != nil {
			C.free(unsafe.Pointer(p))
		}
		return nil, nil
	}
	defer C.free(unsafe.Pointer(p))
	v := unsafe.Slice((*float64)(unsafe.Pointer(p)), int(n))
	var out []Seg
	for i := 0; i < len(v); {
		op := int(v[i])
		i++
		k := []int{2, 2, 4, 6}[op]
		var s Seg
		s.Op = op
		copy(s.Args[:], v[i:i+k])
		i += k
		out = append(out, s)
	}
	return out, nil
}

// Axis is one variation axis; values are design coordinates.
type Axis struct {
	Tag           uint32
	Min, Def, Max float64
}

// Axes returns the variation axes (FT_Get_MM_Var), nil if not variable.
func (f *Face) Axes() []Axis {
	if !f.HasMM() {
		return nil
	}
	var buf [64]C.vr_axis
	n := int(C.vr_mm_axes(f.lib.lib, f.face, &buf[0], 64))
	if n <= 0 || n > 64 {
		return nil
	}
	out := make([]Axis, n)
	for i := range out {
		out[i] = Axis{uint32(buf[i].tag), float64(buf[i].min) / 65536, float64(buf[i].def) / 65536, float64(buf[i].max) / 65536}
	}
	return out
}

// SetDesignCoords applies design coordinates (converted to 16.16).
func (f *Face) SetDesignCoords(coords []float64) error {
	if len(coords) == 0 {
		return fmt.Errorf("no coordinates")
	}
	c := make([]C.FT_Fixed, len(coords))
	for i, v := range coords {
		x := v * 65536
		if x >= 0 {
			x += 0.5
		} else {
			x -= 0.5
		}
		c[i] = C.FT_Fixed(int64(x))
	}
	if e := C.FT_Set_Var_Design_Coordinates(f.face, C.FT_UInt(len(c)), &c[0]); e != 0 {
		return fmt.Errorf("FT_Set_Var_Design_Coordinates: error %d", int(e))
	}
	return nil
}

// SetBlendCoords applies normalized coordinates given in 2.14.
func (f *Face) SetBlendCoords(coords []int) error {
	if len(coords) == 0 {
		return fmt.Errorf("no coordinates")
	}
	c := make([]C.FT_Fixed, len(coords))
	for i, v := range coords {
		c[i] = C.FT_Fixed(v * 4)
	}
	if e := C.FT_Set_Var_Blend_Coordinates(f.face, C.FT_UInt(len(c)), &c[0]); e != 0 {
		return fmt.Errorf("FT_Set_Var_Blend_Coordinates: error %d", int(e))
	}
	return nil
}

// BlendCoords returns the current normalized coordinates in 16.16.
func (f *Face) BlendCoords(n int) ([]int, error) {
	if n == 0 {
		return nil, nil
	}
	c := make([]C.FT_Fixed, n)
	if e := C.FT_Get_Var_Blend_Coordinates(f.face, C.FT_UInt(n), &c[0]); e != 0 {
		return nil, fmt.Errorf("FT_Get_Var_Blend_Coordinates: error %d", int(e))
	}
	out := make([]int, n)
	for i := range out {
		out[i] = int(c[i])
	}
	return out, nil
}
