package c06

import (
	"fmt"
	"sort"
	"strings"
	"unicode"

	"github.com/go-text/typesetting/segmenter"
	ucd "github.com/go-text/typesetting/unicodedata"

	"verifharness/internal/ref/uax14"
	"verifharness/internal/ref/uax29"
	"verifharness/internal/vrun"
)

// ------------------------------------------------------------ observation

type segObs struct {
	Off, Len int
	Mand     bool
}

// observation is everything the three iterators report after one Init.
type observation struct {
	Lines, Graphemes, Words []segObs
	// first violation of the iteration laws that do not need the reference
	// (non-empty, consecutive, offsets consistent, Text == input[Offset:...])
	LineStruct, GraphemeStruct, WordStruct string
}

func sameRunes(a, b []rune) bool {
	if len(a) != len(b) {
		return false
	}
	for i := range a {
		if a[i] != b[i] {
			return false
		}
	}
	return true
}

// observe runs Init and drains the three iterators. order varies the order in
// which the iterators are created and stepped (they are documented as
// independent views of one Init).
func observe(seg *segmenter.Segmenter, text []rune, order int) (o observation, panicMsg string) {
	n := len(text)
	limit := n + 2
	pv, where := vrun.Catch(func() {
		seg.Init(text)
		var li *segmenter.LineIterator
		var gi *segmenter.GraphemeIterator
		var wi *segmenter.WordIterator
		switch order % 3 {
		case 0:
			li, gi, wi = seg.LineIterator(), seg.GraphemeIterator(), seg.WordIterator()
		case 1:
			wi, gi, li = seg.WordIterator(), seg.GraphemeIterator(), seg.LineIterator()
		default:
			gi, wi, li = seg.GraphemeIterator(), seg.WordIterator(), seg.LineIterator()
		}
		// one case in four: a second iterator of each kind lives at the same time and is
		// stepped ahead of the first one (peeking); both must yield the same segments
		shadow := order%4 == 3
		var li2 *segmenter.LineIterator
		var gi2 *segmenter.GraphemeIterator
		var wi2 *segmenter.WordIterator
		var l2, g2, w2 []segObs
		if shadow {
			li2, gi2, wi2 = seg.LineIterator(), seg.GraphemeIterator(), seg.WordIterator()
		}
		peek := func(k int) {
			if !shadow {
				return
			}
			for j := 0; j < 2; j++ {
				switch k {
				case 0:
					if len(l2) <= limit && li2.Next() {
						l := li2.Line()
						l2 = append(l2, segObs{l.Offset, len(l.Text), l.IsMandatoryBreak})
					}
				case 1:
					if len(g2) <= limit && gi2.Next() {
						g := gi2.Grapheme()
						g2 = append(g2, segObs{g.Offset, len(g.Text), false})
					}
				default:
					if len(w2) <= limit && wi2.Next() {
						w := wi2.Word()
						w2 = append(w2, segObs{w.Offset, len(w.Text), false})
					}
				}
			}
		}
		stepL := func() bool {
			peek(0)
			if !li.Next() {
				return false
			}
			l := li.Line()
			if o.LineStruct == "" && (l.Offset < 0 || l.Offset+len(l.Text) > n || !sameRunes(l.Text, text[l.Offset:l.Offset+len(l.Text)])) {
				o.LineStruct = fmt.Sprintf("segment %d: Text is not input[Offset:Offset+len(Text)] (Offset=%d, len=%d)", len(o.Lines), l.Offset, len(l.Text))
			}
			o.Lines = append(o.Lines, segObs{l.Offset, len(l.Text), l.IsMandatoryBreak})
			return len(o.Lines) <= limit
		}
		stepG := func() bool {
			peek(1)
			if !gi.Next() {
				return false
			}
			g := gi.Grapheme()
			if o.GraphemeStruct == "" && (g.Offset < 0 || g.Offset+len(g.Text) > n || !sameRunes(g.Text, text[g.Offset:g.Offset+len(g.Text)])) {
				o.GraphemeStruct = fmt.Sprintf("segment %d: Text is not input[Offset:Offset+len(Text)] (Offset=%d, len=%d)", len(o.Graphemes), g.Offset, len(g.Text))
			}
			o.Graphemes = append(o.Graphemes, segObs{g.Offset, len(g.Text), false})
			return len(o.Graphemes) <= limit
		}
		stepW := func() bool {
			peek(2)
			if !wi.Next() {
				return false
			}
			w := wi.Word()
			if o.WordStruct == "" && (w.Offset < 0 || w.Offset+len(w.Text) > n || !sameRunes(w.Text, text[w.Offset:w.Offset+len(w.Text)])) {
				o.WordStruct = fmt.Sprintf("word %d: Text is not input[Offset:Offset+len(Text)] (Offset=%d, len=%d)", len(o.Words), w.Offset, len(w.Text))
			}
			o.Words = append(o.Words, segObs{w.Offset, len(w.Text), false})
			return len(o.Words) <= limit
		}
		if order%2 == 0 {
			for stepL() {
			}
			for stepG() {
			}
			for stepW() {
			}
		} else {
			// interleaved stepping
			a, b, c := true, true, true
			for a || b || c {
				if a {
					a = stepW()
				}
				if b {
					b = stepL()
				}
				if c {
					c = stepG()
				}
			}
		}
		if shadow {
			for k := 0; k < 3; k++ {
				for j := 0; j <= limit; j++ {
					peek(k)
				}
			}
			if o.LineStruct == "" && !sameSegs(l2, o.Lines) {
				o.LineStruct = "a second LineIterator alive at the same time yields other segments than the first"
			}
			if o.GraphemeStruct == "" && !sameSegs(g2, o.Graphemes) {
				o.GraphemeStruct = "a second GraphemeIterator alive at the same time yields other segments than the first"
			}
			if o.WordStruct == "" && !sameSegs(w2, o.Words) {
				o.WordStruct = "a second WordIterator alive at the same time yields other words than the first"
			}
		}
	})
	if pv != nil {
		return o, fmt.Sprintf("panic: %v at %s", pv, where)
	}
	// partition laws for lines and graphemes
	part := func(segs []segObs, what string) string {
		pos := 0
		for k, s := range segs {
			if s.Len <= 0 {
				return fmt.Sprintf("%s %d is empty", what, k)
			}
			if s.Off != pos {
				return fmt.Sprintf("%s %d starts at %d, previous one ended at %d", what, k, s.Off, pos)
			}
			pos += s.Len
		}
		if pos != n {
			return fmt.Sprintf("%ss cover %d of %d runes", what, pos, n)
		}
		return ""
	}
	if len(o.Lines) > limit || len(o.Graphemes) > limit || len(o.Words) > limit {
		return o, "an iterator yields more segments than the input has runes"
	}
	if o.LineStruct == "" {
		o.LineStruct = part(o.Lines, "line")
	}
	if o.GraphemeStruct == "" {
		o.GraphemeStruct = part(o.Graphemes, "grapheme")
	}
	if o.WordStruct == "" {
		pos := 0
		for k, s := range o.Words {
			if s.Len <= 0 {
				o.WordStruct = fmt.Sprintf("word %d is empty", k)
				break
			}
			if s.Off < pos {
				o.WordStruct = fmt.Sprintf("word %d starts at %d, inside or before the previous word (ended at %d)", k, s.Off, pos)
				break
			}
			pos = s.Off + s.Len
		}
	}
	return o, ""
}

func sameSegs(a, b []segObs) bool {
	if len(a) != len(b) {
		return false
	}
	for i := range a {
		if a[i] != b[i] {
			return false
		}
	}
	return true
}

// -------------------------------------------------------------- reference

type reference struct {
	line []uax14.Decision
	gra  []uax29.GDecision
	word []uax29.WDecision
}

func (t *classTable) reference(text []rune) reference {
	return reference{
		line: uax14.Analyse(t.lineChars(text)),
		gra:  uax29.Graphemes(t.graphemeChars(text)),
		word: uax29.Words(t.wordChars(text)),
	}
}

// nontrivial: some interior position is decided by a rule other than the default one.
func (r reference) nontrivial() bool {
	n := len(r.line) - 1
	for i := 1; i < n; i++ {
		if r.line[i].Rule != uax14.LB31 || r.gra[i].Rule != uax29.GB999 || r.word[i].Rule != uax29.WB999 {
			return true
		}
	}
	return false
}

// --------------------------------------------------------------- findings

// Every distinct defect class has its own stable key:
//
//	C06/panic
//	C06/line/structure, C06/grapheme/structure, C06/words/structure
//	C06/line/<rule>/extra-break | missing-break       library vs. the rule that decides the position in the reference
//	C06/line-mandatory/<rule>/extra | missing         break opportunity agrees, mandatory flag does not
//	C06/grapheme/<rule>/extra-break | missing-break
//	C06/wordbreak/<rule>/extra-break | missing-break  a reported word starts/ends where <rule> forbids, or spans a boundary <rule> requires
//	C06/words/adjacent-word-dropped                   a word that starts where the previous reported word ends is not reported
//	C06/words/word-dropped                            any other word that is not reported
//	C06/words/non-word-reported                       a reported segment holds no rune of unicodedata.Word
//	C06/reuse/line | grapheme | words                 reused Segmenter differs from a fresh one
type finding struct {
	Key string
	Pos int
}

var (
	lineKeys    [uax14.NRule][2]string
	mandKeys    [uax14.NRule][2]string
	graKeys     [uax29.NGRule][2]string
	wordKeys    [uax29.NWRule][2]string
	wordRuleGrp [uax29.NWRule]string
)

func init() {
	for r := uax14.Rule(0); r < uax14.NRule; r++ {
		lineKeys[r] = [2]string{"C06/line/" + r.String() + "/extra-break", "C06/line/" + r.String() + "/missing-break"}
		mandKeys[r] = [2]string{"C06/line-mandatory/" + r.String() + "/extra", "C06/line-mandatory/" + r.String() + "/missing"}
	}
	for r := uax29.GRule(0); r < uax29.NGRule; r++ {
		graKeys[r] = [2]string{"C06/grapheme/" + r.String() + "/extra-break", "C06/grapheme/" + r.String() + "/missing-break"}
	}
	for r := uax29.WRule(0); r < uax29.NWRule; r++ {
		g := r.String()
		switch r {
		case uax29.WB6, uax29.WB7:
			g = "WB6-7"
		case uax29.WB7b, uax29.WB7c:
			g = "WB7b-c"
		case uax29.WB11, uax29.WB12:
			g = "WB11-12"
		}
		wordRuleGrp[r] = g
		wordKeys[r] = [2]string{"C06/wordbreak/" + g + "/extra-break", "C06/wordbreak/" + g + "/missing-break"}
	}
}

const (
	keyPanic        = "C06/panic"
	keyLineStruct   = "C06/line/structure"
	keyGraStruct    = "C06/grapheme/structure"
	keyWordStruct   = "C06/words/structure"
	keyAdjDropped   = "C06/words/adjacent-word-dropped"
	keyWordDropped  = "C06/words/word-dropped"
	keyNonWord      = "C06/words/non-word-reported"
	keyReuseLine    = "C06/reuse/line"
	keyReuseGra     = "C06/reuse/grapheme"
	keyReuseWords   = "C06/reuse/words"
	extra, missing  = 0, 1
	zoneMust        = 0
	zoneMustNot     = 1
	zoneUnspecified = 2
)

// wordZone classifies a reference word segment against the documented
// contract of WordIterator ("a word is formed by runes with the Alphabetic
// property, or with a General_Category of Number, delimited by the Word
// Boundary Unicode Property"; unicodedata.Word is that rune set):
//   - the segment starts with such a rune: it is a word and must be reported;
//   - the segment holds no such rune: it is not a word and must not be reported;
//   - anything else (e.g. "_a", a leading mark): the documentation does not
//     settle it, either answer is accepted.
func wordZone(text []rune) int {
	if unicode.Is(ucd.Word, text[0]) {
		return zoneMust
	}
	for _, r := range text[1:] {
		if unicode.Is(ucd.Word, r) {
			return zoneUnspecified
		}
	}
	return zoneMustNot
}

// compare judges one observation against the reference. The three laws are
// judged independently so that one defect class does not hide another.
func compare(text []rune, ref reference, o observation, st *stats) []finding {
	var fs []finding
	n := len(text)
	add := func(k string, pos int) {
		for _, f := range fs {
			if f.Key == k {
				return
			}
		}
		fs = append(fs, finding{k, pos})
	}
	// ---- lines
	if o.LineStruct != "" {
		add(keyLineStruct, 0)
	} else {
		lib := make([]uint8, n+1) // 1 boundary, 2 mandatory
		pos := 0
		for _, s := range o.Lines {
			pos += s.Len
			lib[pos] = 1
			if s.Mand {
				lib[pos] = 2
			}
		}
		for i := 1; i <= n; i++ {
			d := ref.line[i]
			switch {
			case d.Op == uax14.Prohibited && lib[i] != 0:
				add(lineKeys[d.Rule][extra], i)
			case d.Op != uax14.Prohibited && lib[i] == 0:
				add(lineKeys[d.Rule][missing], i)
			case d.Op == uax14.Allowed && lib[i] == 2:
				add(mandKeys[d.Rule][extra], i)
			case d.Op == uax14.Mandatory && lib[i] == 1:
				add(mandKeys[d.Rule][missing], i)
			}
		}
	}
	// ---- graphemes
	if o.GraphemeStruct != "" {
		add(keyGraStruct, 0)
	} else {
		lib := make([]bool, n+1)
		pos := 0
		for _, s := range o.Graphemes {
			pos += s.Len
			lib[pos] = true
		}
		for i := 1; i <= n; i++ {
			d := ref.gra[i]
			if !d.Break && lib[i] {
				add(graKeys[d.Rule][extra], i)
			} else if d.Break && !lib[i] {
				add(graKeys[d.Rule][missing], i)
			}
		}
	}
	// ---- words
	if o.WordStruct != "" {
		add(keyWordStruct, 0)
	} else if n > 0 {
		covered := make([]bool, n)  // rune belongs to some reported word
		endsAt := make([]bool, n+1) // a reported word ends here
		exact := make([]bool, n+1)  // a reported word starts here and is exactly a reference segment
		for _, w := range o.Words {
			a, b := w.Off, w.Off+w.Len
			ok := true
			if !ref.word[a].Break {
				add(wordKeys[ref.word[a].Rule][extra], a)
				ok = false
			}
			if !ref.word[b].Break {
				add(wordKeys[ref.word[b].Rule][extra], b)
				ok = false
			}
			for k := a + 1; k < b; k++ {
				if ref.word[k].Break {
					add(wordKeys[ref.word[k].Rule][missing], k)
					ok = false
				}
			}
			for k := a; k < b; k++ {
				covered[k] = true
			}
			endsAt[b] = true
			if ok {
				exact[a] = true
				if wordZone(text[a:b]) == zoneMustNot {
					add(keyNonWord, a)
				}
			}
		}
		// completeness over the reference segments
		a := 0
		observablePrev := false // the previous segment already counted the shared boundary
		for b := 1; b <= n; b++ {
			if !ref.word[b].Break {
				continue
			}
			z := wordZone(text[a:b])
			if st != nil {
				st.wordZones[z]++
				if exact[a] {
					st.wordsReported[z]++
				}
				if z == zoneMust {
					// positions whose decision shows in WordIterator's output
					for k := a; k <= b; k++ {
						if k >= 1 && k < n && !(k == a && a > 0 && observablePrev) {
							st.wordObservable[ref.word[k].Rule]++
						}
					}
				}
				observablePrev = z == zoneMust
			}
			if z == zoneMust && !exact[a] {
				touched := false
				for k := a; k < b; k++ {
					if covered[k] {
						touched = true
						break
					}
				}
				// a word that overlaps the segment without being equal to it has already
				// produced a wordbreak finding above; an untouched segment was dropped
				if !touched {
					if endsAt[a] {
						add(keyAdjDropped, a)
					} else {
						add(keyWordDropped, a)
					}
				}
			}
			a = b
		}
	}
	return fs
}

// ------------------------------------------------------------------ stats

type stats struct {
	lineRules      [uax14.NRule]int64 // interior positions only
	lineLB10       int64
	lineMandatory  int64
	graRules       [uax29.NGRule]int64
	wordRules      [uax29.NWRule]int64
	wordObservable [uax29.NWRule]int64
	wordZones      [3]int64
	wordsReported  [3]int64
	cases          map[string]int64
	nontriv        map[string]int64
	runes          int64
	lenBuckets     [8]int64
	reuseChecked   int64
	hashes         []uint64
}

func newStats() *stats { return &stats{cases: map[string]int64{}, nontriv: map[string]int64{}} }

func lenBucket(n int) int {
	switch {
	case n <= 1:
		return 0
	case n <= 2:
		return 1
	case n <= 4:
		return 2
	case n <= 8:
		return 3
	case n <= 16:
		return 4
	case n <= 32:
		return 5
	case n <= 64:
		return 6
	}
	return 7
}

var lenBucketNames = [8]string{"len<=1", "len=2", "len3-4", "len5-8", "len9-16", "len17-32", "len33-64", "len>64"}

func (s *stats) countRef(ref reference) {
	n := len(ref.line) - 1
	for i := 1; i < n; i++ {
		s.lineRules[ref.line[i].Rule]++
		if ref.line[i].LB10 {
			s.lineLB10++
		}
		if ref.line[i].Op == uax14.Mandatory {
			s.lineMandatory++
		}
		s.graRules[ref.gra[i].Rule]++
		s.wordRules[ref.word[i].Rule]++
	}
}

func (s *stats) merge(o *stats) {
	for i := range s.lineRules {
		s.lineRules[i] += o.lineRules[i]
	}
	s.lineLB10 += o.lineLB10
	s.lineMandatory += o.lineMandatory
	for i := range s.graRules {
		s.graRules[i] += o.graRules[i]
	}
	for i := range s.wordRules {
		s.wordRules[i] += o.wordRules[i]
		s.wordObservable[i] += o.wordObservable[i]
	}
	for i := range s.wordZones {
		s.wordZones[i] += o.wordZones[i]
		s.wordsReported[i] += o.wordsReported[i]
	}
	for k, v := range o.cases {
		s.cases[k] += v
	}
	for k, v := range o.nontriv {
		s.nontriv[k] += v
	}
	s.runes += o.runes
	for i := range s.lenBuckets {
		s.lenBuckets[i] += o.lenBuckets[i]
	}
	s.reuseChecked += o.reuseChecked
}

// ------------------------------------------------------------- collector

// Witness is the self-contained replay input.
type Witness struct {
	Text    []rune   `json:"text"`
	History [][]rune `json:"history,omitempty"` // texts given to the same Segmenter before Text
	Law     string   `json:"law,omitempty"`
	Pos     int      `json:"position,omitempty"`
	Stream  string   `json:"stream,omitempty"`
}

type best struct {
	count  int64
	w      Witness
	hasWit bool
}

func lessRunes(a, b []rune) bool {
	if len(a) != len(b) {
		return len(a) < len(b)
	}
	for i := range a {
		if a[i] != b[i] {
			return a[i] < b[i]
		}
	}
	return false
}

type collector map[string]*best

// offer records one occurrence; the smallest witness (shortest, then
// lexicographically first) is kept so that the reported witness does not
// depend on goroutine scheduling.
func (c collector) offer(key string, pos int, text []rune, stream string, history func() [][]rune) {
	b := c[key]
	if b == nil {
		b = &best{}
		c[key] = b
	}
	b.count++
	if b.hasWit && !lessRunes(text, b.w.Text) {
		return
	}
	b.hasWit = true
	b.w = Witness{Text: append([]rune(nil), text...), Law: key, Pos: pos, Stream: stream}
	if history != nil {
		b.w.History = history()
	}
}

func (c collector) merge(o collector) {
	for k, ob := range o {
		b := c[k]
		if b == nil {
			c[k] = ob
			continue
		}
		b.count += ob.count
		if ob.hasWit && (!b.hasWit || lessRunes(ob.w.Text, b.w.Text)) {
			b.w, b.hasWit = ob.w, true
		}
	}
}

// ------------------------------------------------------------ the monitor

type monitor struct {
	run *vrun.Run
	t   *classTable
}

type worker struct {
	st   *stats
	coll collector
}

func newWorker() *worker { return &worker{st: newStats(), coll: collector{}} }

// judge runs one case. reused may be nil; history regenerates the texts the
// reused Segmenter saw before this one (only called for a reuse finding).
func (m *monitor) judge(w *worker, stream string, text []rune, order int, reused *segmenter.Segmenter, history func() [][]rune, hashIt bool) {
	st := w.st
	st.cases[stream]++
	st.runes += int64(len(text))
	st.lenBuckets[lenBucket(len(text))]++
	ref := m.t.reference(text)
	st.countRef(ref)
	if ref.nontrivial() {
		st.nontriv[stream]++
		if hashIt {
			st.hashes = append(st.hashes, vrun.Hash64(text))
		}
	}
	var fresh segmenter.Segmenter
	of, pan := observe(&fresh, text, order)
	if pan != "" {
		w.coll.offer(keyPanic, 0, text, stream, nil)
	} else {
		for _, f := range compare(text, ref, of, st) {
			w.coll.offer(f.Key, f.Pos, text, stream, nil)
		}
	}
	if reused != nil {
		st.reuseChecked++
		or, pan2 := observe(reused, text, order+1)
		if pan2 != "" && pan == "" {
			w.coll.offer(keyPanic, 0, text, stream, history)
		} else if pan2 == "" && pan == "" {
			if !sameSegs(or.Lines, of.Lines) || or.LineStruct != of.LineStruct {
				w.coll.offer(keyReuseLine, 0, text, stream, history)
			}
			if !sameSegs(or.Graphemes, of.Graphemes) || or.GraphemeStruct != of.GraphemeStruct {
				w.coll.offer(keyReuseGra, 0, text, stream, history)
			}
			if !sameSegs(or.Words, of.Words) || or.WordStruct != of.WordStruct {
				w.coll.offer(keyReuseWords, 0, text, stream, history)
			}
		}
	}
}

// keysOf returns every finding key a witness produces (replay, shrinking).
func (m *monitor) keysOf(w Witness) map[string]int {
	out := map[string]int{}
	ref := m.t.reference(w.Text)
	var fresh segmenter.Segmenter
	of, pan := observe(&fresh, w.Text, 0)
	if pan != "" {
		out[keyPanic] = 0
		return out
	}
	for _, f := range compare(w.Text, ref, of, nil) {
		out[f.Key] = f.Pos
	}
	if len(w.History) > 0 {
		var re segmenter.Segmenter
		for k, h := range w.History {
			if _, p := observe(&re, h, k); p != "" {
				out[keyPanic] = 0
				return out
			}
		}
		or, p := observe(&re, w.Text, 1)
		if p != "" {
			out[keyPanic] = 0
			return out
		}
		if !sameSegs(or.Lines, of.Lines) || or.LineStruct != of.LineStruct {
			out[keyReuseLine] = 0
		}
		if !sameSegs(or.Graphemes, of.Graphemes) || or.GraphemeStruct != of.GraphemeStruct {
			out[keyReuseGra] = 0
		}
		if !sameSegs(or.Words, of.Words) || or.WordStruct != of.WordStruct {
			out[keyReuseWords] = 0
		}
	}
	return out
}

// shrink removes runes (and history entries) while the same key keeps firing.
func (m *monitor) shrink(w Witness, key string) Witness {
	fires := func(c Witness) bool { _, ok := m.keysOf(c)[key]; return ok }
	if !fires(w) {
		return w
	}
	if strings.HasPrefix(key, "C06/reuse/") {
		// shortest suffix of the history that still reproduces
		for k := 1; k < len(w.History); k *= 2 {
			c := w
			c.History = w.History[len(w.History)-k:]
			if fires(c) {
				w = c
				break
			}
		}
		return w
	}
	w.History = nil
	budget := 4000
	for chunk := (len(w.Text) + 1) / 2; chunk >= 1; {
		removed := false
		for lo := 0; lo+chunk <= len(w.Text) && budget > 0; {
			c := w
			c.Text = append(append([]rune(nil), w.Text[:lo]...), w.Text[lo+chunk:]...)
			budget--
			if len(c.Text) > 0 && fires(c) {
				w = c
				removed = true
			} else {
				lo++
			}
		}
		if !removed || chunk > len(w.Text) {
			chunk /= 2
		}
		if budget <= 0 {
			break
		}
	}
	w.Pos = m.keysOf(w)[key]
	return w
}

// ------------------------------------------------------------- reporting

func hexRunes(text []rune) string {
	var sb strings.Builder
	for i, r := range text {
		if i > 0 {
			sb.WriteByte(' ')
		}
		fmt.Fprintf(&sb, "%04X", r)
	}
	return sb.String()
}

func (m *monitor) classString(text []rune, kind string) string {
	var p []string
	for _, r := range text {
		v := m.t.of(r)
		switch kind {
		case "line":
			s := v.lclass().String()
			if k := v.gcKind(); k != gcOther {
				s += "/" + gcNames[k]
			}
			if v.wide() {
				s += "/wide"
			}
			if v.extPict() {
				s += "/ExtPict"
			}
			p = append(p, s)
		case "grapheme":
			s := v.gclass().String()
			if v.extPict() {
				s += "/ExtPict"
			}
			p = append(p, s)
		default:
			s := v.wclass().String()
			if v.extPict() {
				s += "/ExtPict"
			}
			if v.inWord() {
				s += "/Word"
			}
			p = append(p, s)
		}
	}
	return strings.Join(p, " ")
}

func marks(n int, isBreak func(i int) string, text []rune) string {
	var sb strings.Builder
	for i := 0; i <= n; i++ {
		sb.WriteString(isBreak(i))
		if i < n {
			fmt.Fprintf(&sb, " %04X ", text[i])
		}
	}
	return sb.String()
}

// describe writes the message of a violation: the input, its classes, what
// the library reported and what the reference derives, rule by rule.
func (m *monitor) describe(key string, w Witness) string {
	text := w.Text
	n := len(text)
	ref := m.t.reference(text)
	var fresh segmenter.Segmenter
	o, pan := observe(&fresh, text, 0)
	var sb strings.Builder
	fmt.Fprintf(&sb, "%s at position %d of %q [%s]. ", key, w.Pos, string(text), hexRunes(text))
	if pan != "" {
		sb.WriteString(pan)
		return sb.String()
	}
	segs := func(ss []segObs) string {
		var p []string
		for _, s := range ss {
			x := fmt.Sprintf("[%d:%d]", s.Off, s.Off+s.Len)
			if s.Mand {
				x += "!"
			}
			p = append(p, x)
		}
		return strings.Join(p, " ")
	}
	switch {
	case strings.HasPrefix(key, "C06/line"):
		fmt.Fprintf(&sb, "classes: %s. library lines: %s (%s). reference: %s", m.classString(text, "line"), segs(o.Lines), o.LineStruct,
			marks(n, func(i int) string { return opName(ref.line[i].Op) + "[" + ref.line[i].Rule.String() + "]" }, text))
	case strings.HasPrefix(key, "C06/grapheme"):
		fmt.Fprintf(&sb, "classes: %s. library graphemes: %s (%s). reference: %s", m.classString(text, "grapheme"), segs(o.Graphemes), o.GraphemeStruct,
			marks(n, func(i int) string {
				if ref.gra[i].Break {
					return "÷[" + ref.gra[i].Rule.String() + "]"
				}
				return "×[" + ref.gra[i].Rule.String() + "]"
			}, text))
	case strings.HasPrefix(key, "C06/reuse"):
		var re segmenter.Segmenter
		for k, h := range w.History {
			observe(&re, h, k)
		}
		or, _ := observe(&re, text, 1)
		fmt.Fprintf(&sb, "after %d earlier Init calls on the same Segmenter: lines %s graphemes %s words %s; fresh Segmenter: lines %s graphemes %s words %s",
			len(w.History), segs(or.Lines), segs(or.Graphemes), segs(or.Words), segs(o.Lines), segs(o.Graphemes), segs(o.Words))
	default:
		var want []string
		a := 0
		for b := 1; b <= n; b++ {
			if ref.word[b].Break {
				z := wordZone(text[a:b])
				want = append(want, fmt.Sprintf("[%d:%d]%s", a, b, [3]string{"=word", "=not-a-word", "=unspecified"}[z]))
				a = b
			}
		}
		fmt.Fprintf(&sb, "classes: %s. library words: %s (%s). reference segments: %s; reference boundaries: %s", m.classString(text, "word"), segs(o.Words), o.WordStruct,
			strings.Join(want, " "), marks(n, func(i int) string {
				if ref.word[i].Break {
					return "÷[" + ref.word[i].Rule.String() + "]"
				}
				return "×[" + ref.word[i].Rule.String() + "]"
			}, text))
	}
	return sb.String()
}

// emit turns the collected findings into violations, one per key, in key order.
func (m *monitor) emit(c collector) {
	keys := make([]string, 0, len(c))
	for k := range c {
		keys = append(keys, k)
	}
	sort.Strings(keys)
	for _, k := range keys {
		b := c[k]
		w := m.shrink(b.w, k)
		msg := m.describe(k, w)
		m.run.CoverN("finding["+k+"]", b.count)
		m.run.Violation(k, msg, w)
		if f := m.run.KnownOpen(k); f != nil {
			for i := int64(1); i < b.count && i < 1000000; i++ {
				m.run.KnownHit(f.ID, msg)
			}
		}
	}
}
