package c06

import (
	"fmt"
	"sort"
	"unicode"

	ucd "github.com/go-text/typesetting/unicodedata"

	"verifharness/internal/ref/uax14"
	"verifharness/internal/ref/uax29"
	"verifharness/internal/vrun"
)

// The property is stated over "the library's character classes": every class
// and character property the reference uses is read through the library's
// exported lookups, once per code point, into this table.
//
// packed entry:
//
//	bits 0-5   Line_Break class (uax14.Class)
//	bits 6-7   general category kind: 0 other, 1 Mn, 2 Mc, 3 Cn (LookupType == nil)
//	bit  8     LargeEastAsian (East_Asian_Width F, W, H)
//	bit  9     Extended_Pictographic
//	bits 10-13 Grapheme_Cluster_Break class
//	bits 14-18 Word_Break class (CR, LF, ZWJ split off by code point)
//	bit  19    member of unicodedata.Word
const maxRune = 0x10FFFF

type info uint32

func (v info) lclass() uax14.Class  { return uax14.Class(v & 63) }
func (v info) gcKind() int          { return int(v>>6) & 3 }
func (v info) wide() bool           { return v&(1<<8) != 0 }
func (v info) extPict() bool        { return v&(1<<9) != 0 }
func (v info) gclass() uax29.GClass { return uax29.GClass(v >> 10 & 15) }
func (v info) wclass() uax29.WClass { return uax29.WClass(v >> 14 & 31) }
func (v info) inWord() bool         { return v&(1<<19) != 0 }

const (
	gcOther = 0
	gcMn    = 1
	gcMc    = 2
	gcCn    = 3
)

var gcNames = [4]string{"-", "Mn", "Mc", "Cn"}

// lineKey etc. are the parts of the entry that some line / grapheme / word
// rule (or the library's word filter) can distinguish.
func (v info) lineKey() info     { return v & (1<<10 - 1) }
func (v info) graphemeKey() info { return v & (15<<10 | 1<<9) }
func (v info) wordKey() info     { return v & (31<<14 | 1<<9 | 1<<19) }

func (v info) String() string {
	s := fmt.Sprintf("lb=%s gc=%s", v.lclass(), gcNames[v.gcKind()])
	if v.wide() {
		s += " wide"
	}
	if v.extPict() {
		s += " ExtPict"
	}
	s += fmt.Sprintf(" gcb=%s wb=%s", v.gclass(), v.wclass())
	if v.inWord() {
		s += " Word"
	}
	return s
}

type classTable struct {
	tab []info // maxRune+1 entries

	// representatives
	joint    []info          // distinct full entries, sorted
	members  map[info][]rune // joint key -> all code points, ascending
	lineReps []rune          // smallest code point per line key
	graReps  []rune
	wordReps []rune
	jointRep []rune
}

func (t *classTable) of(r rune) info {
	if r < 0 || r > maxRune {
		return 0
	}
	return t.tab[r]
}

func lineClassMap() map[*unicode.RangeTable]uax14.Class {
	return map[*unicode.RangeTable]uax14.Class{
		ucd.BreakXX: uax14.XX, ucd.BreakBK: uax14.BK, ucd.BreakCR: uax14.CR, ucd.BreakLF: uax14.LF, ucd.BreakNL: uax14.NL,
		ucd.BreakSP: uax14.SP, ucd.BreakZW: uax14.ZW, ucd.BreakZWJ: uax14.ZWJ, ucd.BreakCM: uax14.CM, ucd.BreakWJ: uax14.WJ,
		ucd.BreakGL: uax14.GL, ucd.BreakCL: uax14.CL, ucd.BreakCP: uax14.CP, ucd.BreakEX: uax14.EX, ucd.BreakIS: uax14.IS,
		ucd.BreakSY: uax14.SY, ucd.BreakOP: uax14.OP, ucd.BreakQU: uax14.QU, ucd.BreakNS: uax14.NS, ucd.BreakB2: uax14.B2,
		ucd.BreakBA: uax14.BA, ucd.BreakBB: uax14.BB, ucd.BreakHY: uax14.HY, ucd.BreakCB: uax14.CB, ucd.BreakIN: uax14.IN,
		ucd.BreakAL: uax14.AL, ucd.BreakHL: uax14.HL, ucd.BreakNU: uax14.NU, ucd.BreakPR: uax14.PR, ucd.BreakPO: uax14.PO,
		ucd.BreakID: uax14.ID, ucd.BreakEB: uax14.EB, ucd.BreakEM: uax14.EM, ucd.BreakJL: uax14.JL, ucd.BreakJV: uax14.JV,
		ucd.BreakJT: uax14.JT, ucd.BreakH2: uax14.H2, ucd.BreakH3: uax14.H3, ucd.BreakRI: uax14.RI, ucd.BreakAI: uax14.AI,
		ucd.BreakSG: uax14.SG, ucd.BreakSA: uax14.SA, ucd.BreakCJ: uax14.CJ,
	}
}

func graphemeClassMap() map[*unicode.RangeTable]uax29.GClass {
	return map[*unicode.RangeTable]uax29.GClass{
		nil: uax29.GOther, ucd.GraphemeBreakCR: uax29.GCR, ucd.GraphemeBreakLF: uax29.GLF, ucd.GraphemeBreakControl: uax29.GControl,
		ucd.GraphemeBreakExtend: uax29.GExtend, ucd.GraphemeBreakZWJ: uax29.GZWJ, ucd.GraphemeBreakRegional_Indicator: uax29.GRI,
		ucd.GraphemeBreakPrepend: uax29.GPrepend, ucd.GraphemeBreakSpacingMark: uax29.GSpacingMark, ucd.GraphemeBreakL: uax29.GL,
		ucd.GraphemeBreakV: uax29.GV, ucd.GraphemeBreakT: uax29.GT, ucd.GraphemeBreakLV: uax29.GLV, ucd.GraphemeBreakLVT: uax29.GLVT,
	}
}

// the library merges (CR, LF, Newline) and (Extend, Format, ZWJ) into one table
// each; CR, LF and ZWJ are single code points by definition of the property.
const (
	wMergedNewline = 100
	wMergedExtend  = 101
)

func wordClassMap() map[*unicode.RangeTable]int {
	return map[*unicode.RangeTable]int{
		nil: int(uax29.WOther), ucd.WordBreakALetter: int(uax29.WALetter), ucd.WordBreakDouble_Quote: int(uax29.WDoubleQuote),
		ucd.WordBreakExtendFormat: wMergedExtend, ucd.WordBreakExtendNumLet: int(uax29.WExtendNumLet),
		ucd.WordBreakHebrew_Letter: int(uax29.WHebrew), ucd.WordBreakKatakana: int(uax29.WKatakana),
		ucd.WordBreakMidLetter: int(uax29.WMidLetter), ucd.WordBreakMidNum: int(uax29.WMidNum), ucd.WordBreakMidNumLet: int(uax29.WMidNumLet),
		ucd.WordBreakNewlineCRLF: wMergedNewline, ucd.WordBreakNumeric: int(uax29.WNumeric),
		ucd.WordBreakRegional_Indicator: int(uax29.WRI), ucd.WordBreakSingle_Quote: int(uax29.WSingleQuote),
		ucd.WordBreakWSegSpace: int(uax29.WSegSpace),
	}
}

// buildClassTable scans every code point through the library's lookups.
// It returns an error text when the library hands out something the
// reference has no name for (the run is then inconclusive).
func buildClassTable() (*classTable, string) {
	t := &classTable{tab: make([]info, maxRune+1)}
	lm, gm, wm := lineClassMap(), graphemeClassMap(), wordClassMap()
	if len(lm) != int(uax14.NClass) {
		return nil, "line class tables of the library are not pairwise distinct"
	}
	errs := make([]string, 64)
	vrun.ParallelChunks(maxRune+1, 4096, func(lo, hi, w int) {
		for r := rune(lo); r < rune(hi); r++ {
			var v info
			lc, ok := lm[ucd.LookupLineBreakClass(r)]
			if !ok {
				errs[w%64] = fmt.Sprintf("LookupLineBreakClass(U+%04X) returns a table the reference does not know", r)
				continue
			}
			v |= info(lc)
			switch ucd.LookupType(r) {
			case unicode.Mn:
				v |= gcMn << 6
			case unicode.Mc:
				v |= gcMc << 6
			case nil:
				v |= gcCn << 6
			}
			if unicode.Is(ucd.LargeEastAsian, r) {
				v |= 1 << 8
			}
			if unicode.Is(ucd.Extended_Pictographic, r) {
				v |= 1 << 9
			}
			gc, ok := gm[ucd.LookupGraphemeBreakClass(r)]
			if !ok {
				errs[w%64] = fmt.Sprintf("LookupGraphemeBreakClass(U+%04X) returns a table the reference does not know", r)
				continue
			}
			v |= info(gc) << 10
			wc, ok := wm[ucd.LookupWordBreakClass(r)]
			if !ok {
				errs[w%64] = fmt.Sprintf("LookupWordBreakClass(U+%04X) returns a table the reference does not know", r)
				continue
			}
			switch wc {
			case wMergedNewline:
				switch r {
				case 0x0D:
					wc = int(uax29.WCR)
				case 0x0A:
					wc = int(uax29.WLF)
				default:
					wc = int(uax29.WNewline)
				}
			case wMergedExtend:
				if r == 0x200D {
					wc = int(uax29.WZWJ)
				} else {
					wc = int(uax29.WExtend)
				}
			}
			v |= info(wc) << 14
			if unicode.Is(ucd.Word, r) {
				v |= 1 << 19
			}
			t.tab[r] = v
		}
	})
	for _, e := range errs {
		if e != "" {
			return nil, e
		}
	}
	// the three code points the split relies on must be where the standard puts them
	if t.tab[0x0D].wclass() != uax29.WCR || t.tab[0x0A].wclass() != uax29.WLF || t.tab[0x200D].wclass() != uax29.WZWJ {
		return nil, "library word classes of U+000D / U+000A / U+200D are not Newline / Newline / Extend-Format"
	}
	t.members = map[info][]rune{}
	for r := rune(0); r <= maxRune; r++ {
		t.members[t.tab[r]] = append(t.members[t.tab[r]], r)
	}
	for k := range t.members {
		t.joint = append(t.joint, k)
	}
	sort.Slice(t.joint, func(i, j int) bool { return t.joint[i] < t.joint[j] })
	pick := func(key func(info) info) []rune {
		first := map[info]rune{}
		for _, k := range t.joint {
			r := t.members[k][0]
			if old, ok := first[key(k)]; !ok || r < old {
				first[key(k)] = r
			}
		}
		var out []rune
		for _, r := range first {
			out = append(out, r)
		}
		sort.Slice(out, func(i, j int) bool { return out[i] < out[j] })
		return out
	}
	t.lineReps = pick(info.lineKey)
	t.graReps = pick(info.graphemeKey)
	t.wordReps = pick(info.wordKey)
	t.jointRep = pick(func(v info) info { return v })
	return t, ""
}

// find returns the smallest code point whose entry satisfies pred, or -1.
func (t *classTable) find(pred func(info) bool) rune {
	best := rune(-1)
	for _, k := range t.joint {
		if pred(k) {
			if r := t.members[k][0]; best < 0 || r < best {
				best = r
			}
		}
	}
	return best
}

func (t *classTable) lineChars(text []rune) []uax14.Char {
	out := make([]uax14.Char, len(text))
	for i, r := range text {
		v := t.of(r)
		k := v.gcKind()
		out[i] = uax14.Char{Class: v.lclass(), Mark: k == gcMn || k == gcMc, Wide: v.wide(), ExtPictCn: v.extPict() && k == gcCn}
	}
	return out
}

func (t *classTable) graphemeChars(text []rune) []uax29.GChar {
	out := make([]uax29.GChar, len(text))
	for i, r := range text {
		v := t.of(r)
		out[i] = uax29.GChar{Class: v.gclass(), ExtPict: v.extPict()}
	}
	return out
}

func (t *classTable) wordChars(text []rune) []uax29.WChar {
	out := make([]uax29.WChar, len(text))
	for i, r := range text {
		v := t.of(r)
		out[i] = uax29.WChar{Class: v.wclass(), ExtPict: v.extPict()}
	}
	return out
}
