// Package c06 monitors "Grapheme, word and line boundaries follow UAX #29 /
// UAX #14 for every string".
//
// Events: the segments reported by segmenter.LineIterator (with
// IsMandatoryBreak), GraphemeIterator and WordIterator after Segmenter.Init,
// on a fresh Segmenter and on one that has processed other texts before.
// Oracle: internal/ref/uax14 and internal/ref/uax29 (rule-by-rule,
// position-by-position transcriptions of the specification) over the
// library's own character classes; the oracle first has to reproduce the
// three conformance files shipped in /repo/segmenter/test.
package c06

import (
	"fmt"
	"os"
	"path/filepath"
	"runtime"
	"sort"
	"strconv"
	"strings"
	"time"

	"github.com/go-text/typesetting/segmenter"

	"verifharness/internal/corpus"
	"verifharness/internal/gen"
	"verifharness/internal/ref/uax14"
	"verifharness/internal/ref/uax29"
	"verifharness/internal/vrun"
)

const ruleSet = "UAX #14 revision 47 (Unicode 14.0.0; rules identical in revision 49 / Unicode 15.0.0) with LB25 replaced by the Example 7 regular-expression tailoring and LB13 tailored accordingly; " +
	"UAX #29 grapheme rules GB1-GB13/GB999 of Unicode 14.0/15.0 (no GB9c) and word rules WB1-WB16/WB999 (unchanged 11.0-15.1); classes from the library's lookups"

// ----------------------------------------------------------- enumeration

// family is an exhaustive enumeration of all strings of length 1..maxLen over
// an alphabet, in order of length.
type family struct {
	name     string
	alphabet []rune
	maxLen   int
	hashLen  int // strings up to this length enter the distinct-non-trivial hash set
}

func (f family) total() int {
	t, p := 0, 1
	for l := 1; l <= f.maxLen; l++ {
		p *= len(f.alphabet)
		t += p
	}
	return t
}

func (f family) tuple(idx int, buf []rune) []rune {
	a := len(f.alphabet)
	p := a
	l := 1
	for idx >= p {
		idx -= p
		p *= a
		l++
	}
	buf = buf[:0]
	for k := 0; k < l; k++ {
		buf = append(buf, f.alphabet[idx%a])
		idx /= a
	}
	return buf
}

// source is any indexed, deterministic stream of cases.
type source struct {
	name    string
	n       int
	chunk   int
	text    func(i int, buf []rune) []rune
	hashLen int // -1: hash every case
	// every reuseEvery-th case is also run on the chunk's reused Segmenter and
	// compared with the fresh one (0 or 1: every case)
	reuseEvery int
}

func (m *monitor) runSource(s source, workers []*worker) {
	if s.n <= 0 {
		return
	}
	chunk := s.chunk
	if chunk <= 0 {
		chunk = 512
	}
	vrun.ParallelChunks(s.n, chunk, func(lo, hi, k int) {
		w := workers[k]
		var reused segmenter.Segmenter // one Segmenter per chunk: its history is cases lo..i-1
		buf := make([]rune, 0, 128)
		for i := lo; i < hi; i++ {
			text := s.text(i, buf)
			hashIt := s.hashLen < 0 || len(text) <= s.hashLen
			if s.reuseEvery > 1 && i%s.reuseEvery != 0 {
				m.judge(w, s.name, text, i, nil, nil, hashIt)
				continue
			}
			hist := func() [][]rune {
				var h [][]rune
				for j := lo; j < i; j++ {
					if s.reuseEvery > 1 && j%s.reuseEvery != 0 {
						continue
					}
					h = append(h, append([]rune(nil), s.text(j, nil)...))
				}
				return h
			}
			m.judge(w, s.name, text, i, &reused, hist, hashIt)
		}
	})
	m.run.Eval(s.n)
}

func (m *monitor) familySource(f family) source {
	return source{name: "tuples/" + f.name, n: f.total(), chunk: 1024, hashLen: f.hashLen, reuseEvery: 4,
		text: func(i int, buf []rune) []rune { return f.tuple(i, buf) }}
}

// sampledTuples draws n random tuples of length minLen..maxLen over an alphabet.
func (m *monitor) sampledTuples(name string, alphabet []rune, minLen, maxLen, n int) source {
	return source{name: name, n: n, chunk: 1024, hashLen: 0, reuseEvery: 4,
		text: func(i int, buf []rune) []rune {
			r := gen.New(m.run.Seed, "C06/"+name, i)
			buf = buf[:0]
			for k := r.Range(minLen, maxLen); k > 0; k-- {
				buf = append(buf, alphabet[r.Intn(len(alphabet))])
			}
			return buf
		}}
}

// --------------------------------------------------------- focused alphabets

// letter picks the preferred code point if the library gives it the wanted
// classes, else the smallest code point that has them, else -1.
func (m *monitor) letter(preferred rune, pred func(info) bool) rune {
	if pred(m.t.of(preferred)) {
		return preferred
	}
	return m.t.find(pred)
}

func (m *monitor) lb(preferred rune, c uax14.Class) rune {
	return m.letter(preferred, func(v info) bool { return v.lclass() == c })
}

func compact(rs ...rune) []rune {
	var out []rune
	seen := map[rune]bool{}
	for _, r := range rs {
		if r >= 0 && !seen[r] {
			seen[r] = true
			out = append(out, r)
		}
	}
	return out
}

func (m *monitor) focusedFamilies() []family {
	q := func(quick, thorough int) int { return m.run.Pick(quick, thorough) }
	cm := m.lb(0x0301, uax14.CM)
	zwj := m.lb(0x200D, uax14.ZWJ)
	sp := m.lb(' ', uax14.SP)
	al := m.lb('a', uax14.AL)
	nu := m.lb('1', uax14.NU)
	ri := m.lb(0x1F1E6, uax14.RI)
	extPictCn := m.t.find(func(v info) bool { return v.extPict() && v.gcKind() == gcCn })
	extPict := m.letter(0x1F600, func(v info) bool { return v.extPict() && v.gcKind() == gcOther && v.lclass() == uax14.ID })
	wideCM := m.t.find(func(v info) bool { return v.lclass() == uax14.CM && v.wide() })
	wideOP := m.letter(0x3008, func(v info) bool { return v.lclass() == uax14.OP && v.wide() })
	saMark := m.t.find(func(v info) bool { return v.lclass() == uax14.SA && (v.gcKind() == gcMn || v.gcKind() == gcMc) })
	saLetter := m.t.find(func(v info) bool { return v.lclass() == uax14.SA && v.gcKind() == gcOther })
	wb := func(preferred rune, c uax29.WClass) rune {
		return m.letter(preferred, func(v info) bool { return v.wclass() == c })
	}
	gb := func(preferred rune, c uax29.GClass) rune {
		return m.letter(preferred, func(v info) bool { return v.gclass() == c })
	}
	return []family{
		{name: "numeric", maxLen: q(5, 6), hashLen: 4, alphabet: compact(nu, m.lb('/', uax14.SY), m.lb(',', uax14.IS), m.lb('}', uax14.CL),
			m.lb(')', uax14.CP), m.lb('$', uax14.PR), m.lb('%', uax14.PO), m.lb('(', uax14.OP), m.lb('-', uax14.HY), cm, sp, al)},
		{name: "spaces", maxLen: q(5, 7), hashLen: 4, alphabet: compact(sp, cm, zwj, m.lb('(', uax14.OP), m.lb('"', uax14.QU), m.lb('}', uax14.CL),
			m.lb(0x3005, uax14.NS), m.lb(0x2014, uax14.B2), m.lb(0x200B, uax14.ZW), al)},
		{name: "regional", maxLen: q(7, 9), hashLen: 5, alphabet: compact(ri, cm, zwj, al, sp)},
		{name: "emoji", maxLen: q(6, 7), hashLen: 4, alphabet: compact(extPict, extPictCn, m.lb(0x1F466, uax14.EB), m.lb(0x1F3FB, uax14.EM),
			m.letter(0xFE0F, func(v info) bool { return v.gclass() == uax29.GExtend && v.lclass() == uax14.CM }), zwj, al, m.lb(0x00A9, uax14.AL))},
		{name: "wordmid", maxLen: q(4, 5), hashLen: 4, alphabet: compact(wb('a', uax29.WALetter), wb(0x05D0, uax29.WHebrew), wb(':', uax29.WMidLetter),
			wb(',', uax29.WMidNum), wb('.', uax29.WMidNumLet), wb('\'', uax29.WSingleQuote), wb('"', uax29.WDoubleQuote), wb('1', uax29.WNumeric),
			wb(0x0301, uax29.WExtend), wb(0x200D, uax29.WZWJ), wb('_', uax29.WExtendNumLet), wb(0x30A2, uax29.WKatakana),
			m.letter(0x65E5, func(v info) bool { return v.wclass() == uax29.WOther && v.inWord() }), wb('\n', uax29.WLF), wb(' ', uax29.WSegSpace))},
		{name: "hangul", maxLen: q(5, 6), hashLen: 4, alphabet: compact(gb(0x1100, uax29.GL), gb(0x1160, uax29.GV), gb(0x11A8, uax29.GT), gb(0xAC00, uax29.GLV),
			gb(0xAC01, uax29.GLVT), gb(0x0301, uax29.GExtend), gb(0x0600, uax29.GPrepend), gb(0x0903, uax29.GSpacingMark), al)},
		{name: "mandatory", maxLen: q(5, 6), hashLen: 4, alphabet: compact(m.lb(0x2028, uax14.BK), 0x2029, 0x000B, m.lb('\r', uax14.CR), m.lb('\n', uax14.LF),
			m.lb(0x0085, uax14.NL), cm, zwj, sp, m.lb(0x200B, uax14.ZW), al)},
		{name: "widths", maxLen: q(4, 5), hashLen: 4, alphabet: compact(m.lb(')', uax14.CP), m.lb('(', uax14.OP), wideOP, wideCM, cm, al, nu,
			m.lb(0x05D0, uax14.HL), saMark, saLetter, m.lb('}', uax14.CL), zwj, sp)},
	}
}

// ------------------------------------------------------------ random text

type textGen struct {
	m    *monitor
	hot  []info // joint keys whose classes take part in context-dependent rules
	all  []info
	real [][]rune // real text pool (conformance lines, samples, corpus texts)
}

func (m *monitor) newTextGen(real [][]rune) *textGen {
	g := &textGen{m: m, all: m.t.joint, real: real}
	hotL := map[uax14.Class]bool{uax14.SP: true, uax14.CM: true, uax14.ZWJ: true, uax14.NU: true, uax14.RI: true, uax14.OP: true, uax14.CL: true,
		uax14.CP: true, uax14.QU: true, uax14.IS: true, uax14.SY: true, uax14.PR: true, uax14.PO: true, uax14.HY: true, uax14.B2: true, uax14.ZW: true,
		uax14.EM: true, uax14.EB: true, uax14.HL: true, uax14.BA: true, uax14.NS: true, uax14.BK: true, uax14.CR: true, uax14.LF: true, uax14.NL: true,
		uax14.SA: true, uax14.GL: true, uax14.WJ: true}
	for _, k := range m.t.joint {
		wc := k.wclass()
		if hotL[k.lclass()] || k.extPict() || k.gclass() == uax29.GPrepend || k.gclass() == uax29.GSpacingMark ||
			(wc != uax29.WOther && wc != uax29.WALetter) {
			g.hot = append(g.hot, k)
		}
	}
	return g
}

func (g *textGen) runeOf(r *gen.RNG, k info) rune {
	ms := g.m.t.members[k]
	if r.Chance(4, 5) {
		return ms[0]
	}
	return ms[r.Intn(len(ms))]
}

func (g *textGen) key(r *gen.RNG, hotNum, den int) info {
	if r.Chance(hotNum, den) {
		return g.hot[r.Intn(len(g.hot))]
	}
	return g.all[r.Intn(len(g.all))]
}

func (g *textGen) length(r *gen.RNG, max int) int {
	if r.Bool() {
		return 1 + r.Intn(12)
	}
	return 1 + r.Intn(max)
}

// text generates one random string of at most 64 runes.
func (g *textGen) text(r *gen.RNG) []rune {
	n := g.length(r, 64)
	out := make([]rune, 0, n)
	switch mode := r.Intn(10); {
	case mode <= 5: // a small per-string alphabet, so that contexts repeat and interact
		k := 2 + r.Intn(7)
		alpha := make([]rune, k)
		for i := range alpha {
			alpha[i] = g.runeOf(r, g.key(r, 3, 5))
		}
		// SP, CM, ZWJ, NU, RI are over-represented
		if r.Chance(2, 3) {
			alpha = append(alpha, gen.Pick(r, []rune{' ', 0x0301, 0x200D, '1', 0x1F1E6, 0x0308, 0x00AD, 0xFE0F}))
		}
		for i := 0; i < n; i++ {
			out = append(out, alpha[r.Intn(len(alpha))])
		}
	case mode <= 7: // independent draws
		for i := 0; i < n; i++ {
			out = append(out, g.runeOf(r, g.key(r, 7, 10)))
		}
	case mode == 8 && len(g.real) > 0: // real text with hostile insertions
		src := g.real[r.Intn(len(g.real))]
		if len(src) > 0 {
			lo := r.Intn(len(src))
			hi := lo + n
			if hi > len(src) {
				hi = len(src)
			}
			out = append(out, src[lo:hi]...)
		}
		for k := r.Intn(4); k >= 0 && len(out) < 64; k-- {
			p := r.Intn(len(out) + 1)
			out = append(out, 0)
			copy(out[p+1:], out[p:])
			out[p] = g.runeOf(r, g.key(r, 9, 10))
		}
	default: // arbitrary code points, some hot ones mixed in
		for i := 0; i < n; i++ {
			if r.Chance(3, 10) {
				out = append(out, g.runeOf(r, g.key(r, 1, 1)))
			} else {
				out = append(out, rune(r.Intn(maxRune+1)))
			}
		}
	}
	return out
}

// -------------------------------------------------------------- real text

var builtinSamples = []string{
	"日本語のテキストは、単語の間にスペースを入れません。カタカナとひらがなと漢字が混ざります。「引用」や（括弧）、１２３円、100%。",
	"中文文本通常不使用空格。标点符号“引号”和（括号）以及数字 3.14、1,000 元、50％。",
	"한국어 문장은 띄어쓰기를 사용합니다. 자모 분해: 한국어, 값 ₩1,000.",
	"ภาษาไทยไม่มีการเว้นวรรคระหว่างคำ ตัวเลข ๑๒๓ และ 100 บาท",
	"ພາສາລາວ ບໍ່ມີຍະຫວ່າງລະຫວ່າງຄຳ។ ភាសាខ្មែរ មិនមានដកឃ្លា",
	"हिन्दी में संयुक्ताक्षर होते हैं: क्षत्रिय, ज्ञान, श्री। मूल्य ₹1,23,456.78 है।",
	"தமிழ் எழுத்துக்கள்: கொக்கு, ஸ்ரீ, க்ஷ. বাংলা লিপি: ক্ষ, জ্ঞ, র‍্য",
	"עברית: צה״ל, ארה״ב, מנכ״ל, ג׳ירפה, צ׳יפס. תש״ף 5780. א״ב \"ציטוט\" ו'גרש'.",
	"العربية: السَّلَامُ عَلَيْكُمْ، النص ١٢٣٫٤٥ و ٪٥٠ (بين قوسين) «اقتباس».",
	"Emoji: 👨‍👩‍👧‍👦 👩🏽‍💻 🏳️‍🌈 🇫🇷🇩🇪🇯🇵 🇺🇸🇨 1️⃣ #️⃣ ©️ ☝🏿 👍🏻 🧑‍🤝‍🧑 😀😀‍😀",
	"Prices: $1,234.56, €9.99, -5%, (12.5) 3/4, 1)2,3 + 10:30, 2024-01-15, №5, £-3, $(100), 50%-off.",
	"French : « Bonjour ! » dit-il ; l'été, aujourd'hui, c'est-à-dire… n° 5 — fin.",
	"URLs https://example.com/a/b?c=d&e=f#g and e-mail user.name+tag@example.co.uk, file_name-v2.0.tar.gz, can't won't O'Neil's 3.14.15.",
	"Tabs\tand\nnewlines\r\nand line separators paragraph\u0085next line\u000bVT\u000cFF end",
	"Zero​width​spaces, soft­hyphens, non breaking spaces, word⁠joiner, á̈ combining, ́leading mark.",
	"각 각 한글 한ᆫ 가́ ؀١٢ ःक ൎക",
	"Ελληνικά, Кириллица, ქართული, Հայերեն, አማርኛ ፡ ቃላት ። ᚠᚢᚦ ᏣᎳᎩ",
	"— dashes — em—dash, en–dash, hyphen‐minus-minus, 10–20, A–B, ——, ‘single’ “double” ‚low‘ „low“ »guillemets«",
	"math: x²+y²=z², a≤b, f(x)=∑ᵢxᵢ, 5×3÷2, ½+¼, 1e-10, 0x1F, ±0.5°C, 100 km/h, H₂O",
	"ｆｕｌｌｗｉｄｔｈ　ＴＥＸＴ（全角）１２３、ﾊﾝｶｸｶﾀｶﾅ。「かぎ」『二重』【墨付き】〈山〉",
}

// loadRealText gathers real text: the perf texts and upstream test inputs of
// typesetting-utils, the built-in multilingual samples.
func loadRealText() (texts [][]rune, shorts [][]rune, notes []string) {
	for _, s := range builtinSamples {
		texts = append(texts, []rune(s))
	}
	dir := corpus.UtilsDir()
	pt, _ := filepath.Glob(filepath.Join(dir, "harfbuzz/perf_reference/texts/*.txt"))
	sort.Strings(pt)
	for _, p := range pt {
		b, err := os.ReadFile(p)
		if err != nil {
			continue
		}
		texts = append(texts, []rune(string(b)))
		notes = append(notes, fmt.Sprintf("%s (%d bytes)", filepath.Base(p), len(b)))
	}
	// upstream shaping tests: the input field "U+0041,U+0042"
	var tests []string
	filepath.Walk(filepath.Join(dir, "harfbuzz/harfbuzz_reference"), func(p string, st os.FileInfo, err error) error {
		if err == nil && !st.IsDir() && strings.HasSuffix(p, ".tests") {
			tests = append(tests, p)
		}
		return nil
	})
	sort.Strings(tests)
	seen := map[string]bool{}
	for _, p := range tests {
		b, err := os.ReadFile(p)
		if err != nil {
			continue
		}
		for _, l := range strings.Split(string(b), "\n") {
			f := strings.Split(l, ";")
			if len(f) < 4 || seen[f[2]] {
				continue
			}
			seen[f[2]] = true
			var rs []rune
			for _, u := range strings.Split(f[2], ",") {
				u = strings.TrimPrefix(strings.TrimSpace(u), "U+")
				v, err := strconv.ParseUint(u, 16, 32)
				if err != nil || v > maxRune {
					rs = nil
					break
				}
				rs = append(rs, rune(v))
			}
			if len(rs) > 0 {
				shorts = append(shorts, rs)
			}
		}
	}
	notes = append(notes, fmt.Sprintf("%d distinct inputs of %d upstream .tests files", len(shorts), len(tests)))
	return texts, shorts, notes
}

// ------------------------------------------------------------------- main

func Main() {
	run := vrun.Start("C06")
	level := vrun.Level{Level: "exploration",
		Assumptions: []string{
			"reference = " + ruleSet,
			"LB1 uses the default resolutions (AI, SG, XX -> AL; SA -> CM for Mn/Mc else AL; CJ -> NS)",
			"character classes and properties are the library's (unicodedata.Lookup*Class, LookupType, Extended_Pictographic, LargeEastAsian, Word); CR/LF/ZWJ are told apart by code point inside the library's merged word classes",
			"WordIterator contract as documented: a reference word segment whose first rune is in unicodedata.Word must be reported once, in order; a segment without any such rune must not be reported; other segments are unspecified",
			"rune domain 0..0x10FFFF (surrogate values and noncharacters included)",
		}}
	t, problem := buildClassTable()
	if problem != "" {
		run.Inconclusive("class table: " + problem)
		run.Note("class table could not be built: %s", problem)
		level.Rule = "no case was judged"
		level.Floor = 1
		run.Finish(level)
	}
	m := &monitor{run: run, t: t}

	// ---- oracle self-test
	st, ok := selfTest(t)
	run.Extra("oracle_self_test", st)
	run.Extra("rule_set", ruleSet)
	if !ok {
		run.Inconclusive("oracle self-test failed: the reference does not reproduce the conformance files shipped with the library")
		for _, r := range st {
			for _, e := range r.Examples {
				run.Note("self-test %s: %s", r.File, e)
			}
		}
		level.Rule = "oracle self-test failed; no case was judged"
		level.Floor = 1
		run.Finish(level)
	}

	// ---- replay
	if run.Replay != "" {
		var w Witness
		if _, err := vrun.ReadReplay(run.Replay, &w); err != nil {
			fmt.Println("replay:", err)
			os.Exit(2)
		}
		run.Eval(1)
		ks := m.keysOf(w)
		keys := make([]string, 0, len(ks))
		for k := range ks {
			keys = append(keys, k)
		}
		sort.Strings(keys)
		for _, k := range keys {
			w2 := w
			w2.Pos = ks[k]
			run.Violation(k, m.describe(k, w2), w2)
		}
		level.Rule = "replay"
		run.Finish(level)
	}

	// ---- representatives (computed by scanning all code points)
	run.Extra("representatives", map[string]any{
		"code_points_scanned": maxRune + 1,
		"joint_classes":       len(t.joint),
		"line":                len(t.lineReps),
		"grapheme":            len(t.graReps),
		"word":                len(t.wordReps),
		"line_key":            "(Line_Break class, gc in {Mn,Mc,Cn,other}, LargeEastAsian, Extended_Pictographic)",
		"grapheme_key":        "(Grapheme_Cluster_Break class, Extended_Pictographic)",
		"word_key":            "(Word_Break class with CR/LF/ZWJ split, Extended_Pictographic, member of unicodedata.Word)",
	})

	workers := make([]*worker, runtime.GOMAXPROCS(0))
	for i := range workers {
		workers[i] = newWorker()
	}
	var sources []source

	// (1) exhaustive tuples over the per-family representatives
	sources = append(sources,
		m.familySource(family{name: "line", alphabet: t.lineReps, maxLen: run.Pick(3, 4), hashLen: 3}),
		m.familySource(family{name: "grapheme", alphabet: t.graReps, maxLen: run.Pick(5, 6), hashLen: 4}),
		m.familySource(family{name: "word", alphabet: t.wordReps, maxLen: run.Pick(4, 5), hashLen: 3}),
		m.familySource(family{name: "joint", alphabet: t.jointRep, maxLen: run.Pick(2, 3), hashLen: 2}),
	)
	if !run.Thorough() {
		sources = append(sources,
			m.sampledTuples("sampled/line4", t.lineReps, 4, 4, 600000),
			m.sampledTuples("sampled/word5", t.wordReps, 5, 5, 300000),
			m.sampledTuples("sampled/joint3", t.jointRep, 3, 3, 300000),
		)
	} else {
		sources = append(sources,
			m.sampledTuples("sampled/line5", t.lineReps, 5, 5, 4000000),
			m.sampledTuples("sampled/joint4", t.jointRep, 4, 4, 2000000),
		)
	}
	// (2) deeper exhaustive enumeration over small alphabets around one rule family each
	var famNotes []string
	for _, f := range m.focusedFamilies() {
		sources = append(sources, m.familySource(f))
		// beyond the exhaustive length: sampled strings over the same alphabet, up to 3 runes longer
		if n := map[string]int{"numeric": 400000, "spaces": 300000, "regional": 100000, "wordmid": 300000}[f.name]; n > 0 {
			sources = append(sources, m.sampledTuples("sampled/"+f.name, f.alphabet, f.maxLen+1, f.maxLen+3, run.Pick(n, 8*n)))
		}
		famNotes = append(famNotes, fmt.Sprintf("%s: %d letters [%s], length<=%d, %d strings", f.name, len(f.alphabet), hexRunes(f.alphabet), f.maxLen, f.total()))
	}
	run.Extra("focused_alphabets", famNotes)

	// (3) real text
	texts, shorts, rnotes := loadRealText()
	run.Extra("real_text_sources", rnotes)
	conf := [][]rune{}
	for _, f := range []string{"LineBreakTest.txt", "GraphemeBreakTest.txt", "WordBreakTest.txt"} {
		ls, _, _ := parseUCDFile(filepath.Join(corpus.RepoDir(), "segmenter", "test", f))
		for _, l := range ls {
			conf = append(conf, l.text)
		}
	}
	pool := append(append([][]rune{}, texts...), conf...)
	pool = append(pool, shorts...)
	sources = append(sources,
		source{name: "real/upstream-inputs", n: len(shorts), hashLen: -1, text: func(i int, _ []rune) []rune { return shorts[i] }},
		source{name: "real/conformance-lines", n: len(conf), hashLen: -1, text: func(i int, _ []rune) []rune { return conf[i] }},
		source{name: "real/windows", n: run.Pick(40000, 400000), chunk: 64, hashLen: -1, text: func(i int, _ []rune) []rune {
			r := gen.New(run.Seed, "C06/real", i)
			src := texts[r.Intn(len(texts))]
			if i < len(texts) && len(texts[i]) <= 4096 {
				return texts[i] // every short sample once as a whole
			}
			n := 1 + r.Intn(200)
			lo := r.Intn(len(src))
			hi := lo + n
			if hi > len(src) {
				hi = len(src)
			}
			return src[lo:hi]
		}},
		source{name: "real/joined-inputs", n: run.Pick(20000, 200000), chunk: 64, hashLen: -1, text: func(i int, buf []rune) []rune {
			r := gen.New(run.Seed, "C06/joined", i)
			buf = buf[:0]
			for k := 2 + r.Intn(5); k > 0; k-- {
				buf = append(buf, pool[r.Intn(len(pool))]...)
				if len(buf) > 300 {
					buf = buf[:300]
					break
				}
				if r.Bool() {
					buf = append(buf, gen.Pick(r, []rune{' ', '\n', 0x3000, ',', 0x200B, '-'}))
				}
			}
			return buf
		}},
	)

	// (4) random strings up to length 64, biased towards SP/CM/ZWJ/NU/RI and the other context classes
	tg := m.newTextGen(pool)
	sources = append(sources, source{name: "random", n: run.Pick(400000, 3000000), chunk: 64, hashLen: -1,
		text: func(i int, _ []rune) []rune { return tg.text(gen.New(run.Seed, "C06/random", i)) }})

	// (5) reuse histories: one Segmenter, texts of very different lengths (empty ones included) in all orders
	sources = append(sources, source{name: "reuse-histories", n: run.Pick(200000, 1000000), chunk: 6, hashLen: -1,
		text: func(i int, _ []rune) []rune {
			r := gen.New(run.Seed, "C06/reuse", i)
			switch r.Intn(6) {
			case 0:
				return nil // empty paragraph
			case 1:
				return []rune{tg.runeOf(r, tg.key(r, 1, 2))}
			case 2:
				src := texts[r.Intn(len(texts))]
				lo := r.Intn(len(src))
				hi := lo + 1 + r.Intn(120)
				if hi > len(src) {
					hi = len(src)
				}
				return src[lo:hi]
			case 3:
				p := pool[r.Intn(len(pool))]
				return p[:min(len(p), 1+r.Intn(80))]
			}
			return tg.text(r)
		}})

	timing := map[string]float64{}
	for _, s := range sources {
		t0 := time.Now()
		m.runSource(s, workers)
		timing[s.name] = float64(time.Since(t0).Milliseconds()) / 1000
	}
	run.Extra("source_wall_s", timing) // information only, no verdict depends on it

	// ---- merge, report
	total := newStats()
	coll := collector{}
	for _, w := range workers {
		total.merge(w.st)
		for _, h := range w.st.hashes {
			run.Nontrivial(h)
		}
		coll.merge(w.coll)
	}
	// interior positions only: LB2/LB3, GB1/GB2, WB1/WB2 decide the two ends of every string
	for r := uax14.LB4; r < uax14.NRule; r++ {
		run.CoverN("line:"+r.String(), total.lineRules[r])
	}
	run.CoverN("line:positions-with-LB10-element", total.lineLB10)
	run.CoverN("line:mandatory-interior-breaks", total.lineMandatory)
	for r := uax29.GB3; r < uax29.NGRule; r++ {
		run.CoverN("grapheme:"+r.String(), total.graRules[r])
	}
	for r := uax29.WB3; r < uax29.NWRule; r++ {
		run.CoverN("word:"+r.String(), total.wordRules[r])
		// word boundaries are only visible through WordIterator: a position can be judged
		// when it lies inside, at the start or at the end of a segment that must be reported
		run.CoverN("word-observable:"+r.String(), total.wordObservable[r])
	}
	zn := [3]string{"starts-with-Word-rune(must-report)", "no-Word-rune(must-not-report)", "unspecified"}
	for z := 0; z < 3; z++ {
		run.CoverN("word-segments:"+zn[z], total.wordZones[z])
		run.CoverN("word-segments-reported:"+zn[z], total.wordsReported[z])
	}
	for k, v := range total.cases {
		run.CoverN("cases:"+k, v)
		run.CoverN("nontrivial:"+k, total.nontriv[k])
	}
	for i, v := range total.lenBuckets {
		run.CoverN("length:"+lenBucketNames[i], v)
	}
	run.CoverN("reuse:cases-compared-with-fresh-segmenter", total.reuseChecked)
	run.CoverN("runes-processed", total.runes)
	unreached := []string{}
	for r := uax14.LB4; r < uax14.NRule; r++ {
		if total.lineRules[r] == 0 {
			unreached = append(unreached, r.String())
		}
	}
	for r := uax29.GB3; r < uax29.NGRule; r++ {
		if total.graRules[r] == 0 {
			unreached = append(unreached, r.String())
		}
	}
	for r := uax29.WB3; r < uax29.NWRule; r++ {
		if total.wordRules[r] == 0 {
			unreached = append(unreached, r.String())
		}
	}
	run.Extra("rules_never_deciding", unreached)
	if len(unreached) > 0 {
		run.Inconclusive("some rule never decided a position: " + strings.Join(unreached, ","))
	}

	// samples
	for _, s := range [][]rune{[]rune("1)2,3 $(4)"), []rune("א״́א日本語"), {0x1F600, 0x1F600, 0x200D, 0x1F600, 0x1F1E6, 0x0301, 0x1F1E7, 0x1F1E8},
		tg.text(gen.New(run.Seed, "C06/random", 0)), tg.text(gen.New(run.Seed, "C06/random", 1))} {
		run.Sample(m.sample(s))
	}

	m.emit(coll)

	level.Rule = "cases: (1) every string of class representatives (one rune per distinguishable class tuple, found by scanning all code points) up to the per-family length, " +
		"(2) every string over 8 focused alphabets (numeric, spaces, regional indicators, emoji, word-medial, hangul, mandatory breaks, widths) up to length 4-10, " +
		"(3) real text (samples in 25 scripts, corpus texts, upstream shaping inputs, conformance lines, windows and concatenations), (4) random strings <= 64 runes biased to SP/CM/ZWJ/NU/RI, " +
		"(5) reuse histories; (1)-(2) are continued by sampled strings 1-3 runes longer. Every case is judged for line, grapheme and word laws independently on a fresh Segmenter; " +
		"every case of (3)-(5) and every 4th case of (1)-(2) is also run on a Segmenter reused across the preceding cases of its chunk and must give the same segments. " +
		"non-trivial = some interior position is decided by a rule other than LB31/GB999/WB999 in the reference; distinct_nontrivial counts hashes of non-trivial strings of streams (3)-(5) and of tuples up to length 3-5 " +
		"(longer exhaustive tuples are distinct by construction and are counted in classes nontrivial:*, not hashed)"
	level.Floor = run.Pick(300000, 2000000)
	run.Finish(level)
}

func (m *monitor) sample(text []rune) map[string]any {
	ref := m.t.reference(text)
	var s segmenter.Segmenter
	o, _ := observe(&s, text, 0)
	n := len(text)
	words := []string{}
	if o.WordStruct == "" { // offsets are only trustworthy when the iteration laws hold
		for _, w := range o.Words {
			words = append(words, string(text[w.Off:w.Off+w.Len]))
		}
	}
	return map[string]any{
		"text": string(text), "runes": hexRunes(text),
		"reference_line": marks(n, func(i int) string { return opName(ref.line[i].Op) + "[" + ref.line[i].Rule.String() + "]" }, text),
		"reference_grapheme": marks(n, func(i int) string {
			if ref.gra[i].Break {
				return "÷[" + ref.gra[i].Rule.String() + "]"
			}
			return "×[" + ref.gra[i].Rule.String() + "]"
		}, text),
		"reference_word": marks(n, func(i int) string {
			if ref.word[i].Break {
				return "÷[" + ref.word[i].Rule.String() + "]"
			}
			return "×[" + ref.word[i].Rule.String() + "]"
		}, text),
		"library_lines": fmt.Sprint(o.Lines), "library_graphemes": fmt.Sprint(o.Graphemes), "library_words": words,
	}
}
