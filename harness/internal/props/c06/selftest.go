package c06

import (
	"fmt"
	"os"
	"path/filepath"
	"regexp"
	"strconv"
	"strings"

	"verifharness/internal/corpus"
	"verifharness/internal/ref/uax14"
	"verifharness/internal/ref/uax29"
)

// Oracle self-test: before any verdict the reference must reproduce every
// line of the three conformance files the repository ships (boundaries, and
// the rule numbers printed in the comments of those files). The library is
// not involved here: only the reference and the library's class lookups.

type ucdLine struct {
	lineNo int
	text   []rune
	brk    []bool   // len(text)+1
	tags   []string // rule tags from the comment, len(text)+1 when present
	raw    string
}

var tagRE = regexp.MustCompile(`\[([0-9.]+)\]`)

func parseUCDFile(path string) ([]ucdLine, string, error) {
	b, err := os.ReadFile(path)
	if err != nil {
		return nil, "", err
	}
	var out []ucdLine
	header := ""
	for no, l := range strings.Split(string(b), "\n") {
		if no == 0 {
			header = strings.TrimSpace(strings.TrimPrefix(l, "#"))
		}
		if l == "" || strings.HasPrefix(l, "#") {
			continue
		}
		data, comment, _ := strings.Cut(l, "#")
		u := ucdLine{lineNo: no + 1, raw: l}
		for _, f := range strings.Fields(data) {
			switch f {
			case "÷":
				u.brk = append(u.brk, true)
			case "×":
				u.brk = append(u.brk, false)
			default:
				v, err := strconv.ParseUint(f, 16, 32)
				if err != nil || v > maxRune {
					return nil, header, fmt.Errorf("%s:%d: bad field %q", path, no+1, f)
				}
				u.text = append(u.text, rune(v))
			}
		}
		if len(u.brk) != len(u.text)+1 {
			return nil, header, fmt.Errorf("%s:%d: %d marks for %d code points", path, no+1, len(u.brk), len(u.text))
		}
		for _, m := range tagRE.FindAllStringSubmatch(comment, -1) {
			u.tags = append(u.tags, m[1])
		}
		if len(u.tags) != len(u.brk) {
			u.tags = nil
		}
		out = append(out, u)
	}
	return out, header, nil
}

type selfTestResult struct {
	File         string   `json:"file"`
	Header       string   `json:"header"`
	Lines        int      `json:"lines"`
	Positions    int      `json:"positions"`
	BoundaryFail int      `json:"lines_with_boundary_mismatch"`
	TagChecked   int      `json:"positions_with_rule_tag"`
	TagFail      int      `json:"positions_with_rule_tag_mismatch"`
	Examples     []string `json:"examples,omitempty"`
}

func tagMajor(tag string) int {
	s, _, _ := strings.Cut(tag, ".")
	v, _ := strconv.Atoi(s)
	return v
}

func graphemeTag(r uax29.GRule) string {
	switch r {
	case uax29.GB1:
		return "0.2"
	case uax29.GB2:
		return "0.3"
	case uax29.GB9a:
		return "9.1"
	case uax29.GB9b:
		return "9.2"
	case uax29.GB12_13:
		return "12.0|13.0"
	case uax29.GB999:
		return "999.0"
	}
	return strconv.Itoa(r.Number()) + ".0"
}

// selfTest returns the three results and whether the oracle may be trusted.
func selfTest(t *classTable) ([]selfTestResult, bool) {
	dir := filepath.Join(corpus.RepoDir(), "segmenter", "test")
	ok := true
	var res []selfTestResult
	note := func(r *selfTestResult, s string) {
		if len(r.Examples) < 8 {
			r.Examples = append(r.Examples, s)
		}
	}
	// ---- lines
	{
		r := selfTestResult{File: "LineBreakTest.txt"}
		lines, header, err := parseUCDFile(filepath.Join(dir, r.File))
		r.Header = header
		if err != nil {
			r.Examples = []string{err.Error()}
			ok = false
		}
		for _, u := range lines {
			r.Lines++
			dec := uax14.Analyse(t.lineChars(u.text))
			bad := false
			for i, d := range dec {
				r.Positions++
				want := u.brk[i]
				if i == 0 {
					// the file prints × at the start (LB2) and ÷ at the end (LB3)
					want = false
				}
				if (d.Op != uax14.Prohibited) != want {
					bad = true
					note(&r, fmt.Sprintf("line %d pos %d: reference %s by %s, file says %v: %s", u.lineNo, i, opName(d.Op), d.Rule, u.brk[i], u.raw))
				}
				if u.tags != nil {
					r.TagChecked++
					// the generator of the file lists "RI RI ÷ RI" as its own rule 30.13; in the
					// specification that break is the default LB31
					generatorOnly := u.tags[i] == "30.13" && d.Rule == uax14.LB31
					if tagMajor(u.tags[i]) != d.Rule.Number() && !generatorOnly {
						r.TagFail++
						note(&r, fmt.Sprintf("line %d pos %d: reference decides by %s, file by [%s]: %s", u.lineNo, i, d.Rule, u.tags[i], u.raw))
					}
				}
			}
			if bad {
				r.BoundaryFail++
			}
		}
		if r.Lines == 0 || r.BoundaryFail > 0 || r.TagFail > 0 {
			ok = false
		}
		res = append(res, r)
	}
	// ---- graphemes
	{
		r := selfTestResult{File: "GraphemeBreakTest.txt"}
		lines, header, err := parseUCDFile(filepath.Join(dir, r.File))
		r.Header = header
		if err != nil {
			r.Examples = []string{err.Error()}
			ok = false
		}
		for _, u := range lines {
			r.Lines++
			dec := uax29.Graphemes(t.graphemeChars(u.text))
			bad := false
			for i, d := range dec {
				r.Positions++
				if d.Break != u.brk[i] {
					bad = true
					note(&r, fmt.Sprintf("line %d pos %d: reference break=%v by %s: %s", u.lineNo, i, d.Break, d.Rule, u.raw))
				}
				if u.tags != nil {
					r.TagChecked++
					if !strings.Contains("|"+graphemeTag(d.Rule)+"|", "|"+u.tags[i]+"|") {
						r.TagFail++
						note(&r, fmt.Sprintf("line %d pos %d: reference decides by %s, file by [%s]: %s", u.lineNo, i, d.Rule, u.tags[i], u.raw))
					}
				}
			}
			if bad {
				r.BoundaryFail++
			}
		}
		if r.Lines == 0 || r.BoundaryFail > 0 || r.TagFail > 0 {
			ok = false
		}
		res = append(res, r)
	}
	// ---- words
	{
		r := selfTestResult{File: "WordBreakTest.txt"}
		lines, header, err := parseUCDFile(filepath.Join(dir, r.File))
		r.Header = header
		if err != nil {
			r.Examples = []string{err.Error()}
			ok = false
		}
		for _, u := range lines {
			r.Lines++
			dec := uax29.Words(t.wordChars(u.text))
			bad := false
			for i, d := range dec {
				r.Positions++
				if d.Break != u.brk[i] {
					bad = true
					note(&r, fmt.Sprintf("line %d pos %d: reference break=%v by %s: %s", u.lineNo, i, d.Break, d.Rule, u.raw))
				}
				if u.tags != nil {
					r.TagChecked++
					if !strings.Contains("|"+d.Rule.Tag()+"|", "|"+u.tags[i]+"|") {
						r.TagFail++
						note(&r, fmt.Sprintf("line %d pos %d: reference decides by %s, file by [%s]: %s", u.lineNo, i, d.Rule, u.tags[i], u.raw))
					}
				}
			}
			if bad {
				r.BoundaryFail++
			}
		}
		if r.Lines == 0 || r.BoundaryFail > 0 || r.TagFail > 0 {
			ok = false
		}
		res = append(res, r)
	}
	return res, ok
}

func opName(o uax14.Op) string {
	switch o {
	case uax14.Prohibited:
		return "×"
	case uax14.Allowed:
		return "÷"
	}
	return "!"
}
