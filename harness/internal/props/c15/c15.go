// Package c15 monitors "Style matching follows the CSS font matching
// algorithm".
//
// Events: the index list returned by fontSet.retainsBestMatches (through the
// verif hook fontscan.VerifRetainsBestMatches) for a candidate list and a
// requested aspect, and, for a sample, the aspect of the face the public path
// FontMap.AddFace / SetQuery / ResolveFace / FontMetadata returns.
// Oracle: internal/ref/css, a transcription of the prose of CSS Fonts §5.2
// (stretch, then style, then weight). The result must be non-empty, every
// member must carry exactly the (stretch, style, weight) the reference
// selects, and it must be every candidate carrying that triple, in input
// order.
package c15

import (
	"bytes"
	"fmt"
	"sync"

	"github.com/go-text/typesetting/font"
	ot "github.com/go-text/typesetting/font/opentype"
	"github.com/go-text/typesetting/fontscan"

	"verifharness/internal/corpus"
	"verifharness/internal/gen"
	"verifharness/internal/ref/css"
	"verifharness/internal/vrun"
)

// Witness is a self-contained case. Aspect fields use the library's numeric
// encoding (style 1 normal / 2 italic, weight, stretch as a fraction; 0 = unset
// in the query).
type Witness struct {
	Path       string        `json:"path"` // "hook" | "public"
	Aspects    []font.Aspect `json:"aspects"`
	Candidates []int         `json:"candidates"` // indices into aspects, in input order
	Query      font.Aspect   `json:"query"`
}

// ---------------------------------------------------------------------------
// grids

var stretchGrid = []font.Stretch{font.StretchUltraCondensed, font.StretchExtraCondensed, font.StretchCondensed, font.StretchSemiCondensed,
	font.StretchNormal, font.StretchSemiExpanded, font.StretchExpanded, font.StretchExtraExpanded, font.StretchUltraExpanded}

var styleGrid = []font.Style{font.StyleNormal, font.StyleItalic}

// weightGrid: the property's grid {100..900 step 50, 950} (18 values) plus the
// ends of the CSS weight range and one value strictly inside (400,450).
var weightGrid = func() []font.Weight {
	ws := []font.Weight{1}
	for w := 100; w <= 950; w += 50 {
		ws = append(ws, font.Weight(w))
		if w == 400 {
			ws = append(ws, 425)
		}
	}
	return append(ws, 1000)
}()

// query weights: the grid, unset, and the values next to the 400 / 500 boundaries
var queryWeights = append(append([]font.Weight{0}, weightGrid...), 399, 401, 499, 501)

func fullGrid(stretches []font.Stretch, styles []font.Style, weights []font.Weight) []font.Aspect {
	var out []font.Aspect
	for _, st := range stretches {
		for _, sl := range styles {
			for _, w := range weights {
				out = append(out, font.Aspect{Style: sl, Weight: w, Stretch: st})
			}
		}
	}
	return out
}

func allQueries() []font.Aspect {
	var out []font.Aspect
	for _, st := range append([]font.Stretch{0}, stretchGrid...) {
		for _, sl := range append([]font.Style{0}, styleGrid...) {
			for _, w := range queryWeights {
				out = append(out, font.Aspect{Style: sl, Weight: w, Stretch: st})
			}
		}
	}
	return out
}

// ---------------------------------------------------------------------------
// reference

func toFace(a font.Aspect) css.Face {
	return css.Face{Stretch: float64(a.Stretch), Italic: a.Style == font.StyleItalic, Weight: float64(a.Weight)}
}

func toRequest(q font.Aspect) css.Request {
	return css.Request{
		Stretch: float64(q.Stretch), UnsetStretch: q.Stretch == 0,
		Italic: q.Style == font.StyleItalic, UnsetStyle: q.Style == 0,
		Weight: float64(q.Weight), UnsetWeight: q.Weight == 0,
	}
}

// expected returns the reference triple and the candidates that carry it.
func expected(aspects []font.Aspect, cands []int, q font.Aspect, faces []css.Face, keep []int) (css.Face, css.Trace, []int) {
	faces = faces[:0]
	for _, i := range cands {
		faces = append(faces, toFace(aspects[i]))
	}
	want, tr := css.Select(faces, toRequest(q))
	keep = keep[:0]
	for _, i := range cands {
		if toFace(aspects[i]) == want {
			keep = append(keep, i)
		}
	}
	return want, tr, keep
}

// ---------------------------------------------------------------------------
// statistics per worker

type stats struct {
	evals      int64
	nontrivial int64 // evaluations where the narrowing removed at least one candidate
	stretch    [css.NStretchHow]int64
	style      [css.NStyleHow]int64
	weight     [css.NWeightHow]int64
	unset      [3]int64
	retained   [4]int64 // 1, 2, 3, >3 candidates retained
	streams    map[string]int64
	hashes     []uint64
}

func (s *stats) merge(o *stats) {
	s.evals += o.evals
	s.nontrivial += o.nontrivial
	for i := range s.stretch {
		s.stretch[i] += o.stretch[i]
	}
	for i := range s.style {
		s.style[i] += o.style[i]
	}
	for i := range s.weight {
		s.weight[i] += o.weight[i]
	}
	for i := range s.unset {
		s.unset[i] += o.unset[i]
	}
	for i := range s.retained {
		s.retained[i] += o.retained[i]
	}
	for k, v := range o.streams {
		if s.streams == nil {
			s.streams = map[string]int64{}
		}
		s.streams[k] += v
	}
}

type scratch struct {
	faces []css.Face
	keep  []int
	cands []int
}

// reporter receives the stable key of the failing law and a constructor of the
// message and witness (only built for the first few hits of a key).
type reporter func(key string, mk func() (string, Witness))

func describe(a font.Aspect) string {
	return fmt.Sprintf("(stretch %v, style %d, weight %v)", a.Stretch, a.Style, a.Weight)
}

// judgeHook evaluates one case through the hook. It returns whether the
// narrowing was non-trivial.
func judgeHook(aspects []font.Aspect, cands []int, q font.Aspect, st *stats, sc *scratch, rep reporter) bool {
	st.evals++
	if cap(sc.faces) < len(cands) {
		sc.faces = make([]css.Face, 0, 2*len(cands))
	}
	want, tr, keep := expected(aspects, cands, q, sc.faces, sc.keep)
	sc.keep = keep
	sc.cands = append(sc.cands[:0], cands...)
	var got []int
	wit := func() Witness {
		return Witness{Path: "hook", Aspects: append([]font.Aspect(nil), aspects...), Candidates: append([]int(nil), cands...), Query: q}
	}
	if panicked(func() { got = fontscan.VerifRetainsBestMatches(aspects, sc.cands, q) }) {
		rep("C15/panic", func() (string, Witness) {
			// executed again for the first few hits only: vrun.Catch collects the stack, which is slow
			pv, where := vrun.Catch(func() { fontscan.VerifRetainsBestMatches(aspects, append([]int(nil), cands...), q) })
			return fmt.Sprintf("retainsBestMatches panicked: %v at %s", pv, where), wit()
		})
		return false
	}
	if law := compare(aspects, cands, want, keep, got); law != "" {
		got = append([]int(nil), got...)
		rep(law, func() (string, Witness) { return explain(law, aspects, cands, q, want, keep, got), wit() })
		return false
	}
	st.stretch[tr.Stretch]++
	st.style[tr.Style]++
	st.weight[tr.Weight]++
	if q.Stretch == 0 {
		st.unset[0]++
	}
	if q.Style == 0 {
		st.unset[1]++
	}
	if q.Weight == 0 {
		st.unset[2]++
	}
	if n := len(keep); n > 3 {
		st.retained[3]++
	} else {
		st.retained[n-1]++
	}
	if len(keep) < len(cands) && (tr.Stretch != css.StretchExact || tr.Style != css.StyleExact || tr.Weight != css.WeightExact) {
		st.nontrivial++
		return true
	}
	return false
}

// panicked runs f and reports whether it panicked (no stack collection).
func panicked(f func()) (p bool) {
	defer func() {
		if recover() != nil {
			p = true
		}
	}()
	f()
	return false
}

// compare returns "" or the key of the first law the result breaks.
func compare(aspects []font.Aspect, cands []int, want css.Face, keep, got []int) string {
	if len(got) == 0 {
		return "C15/empty"
	}
	isCand := func(i int) bool {
		for _, c := range cands {
			if c == i {
				return true
			}
		}
		return false
	}
	for _, i := range got {
		if i < 0 || i >= len(aspects) || !isCand(i) {
			return "C15/not-a-candidate"
		}
		f := toFace(aspects[i])
		switch {
		case f.Stretch != want.Stretch:
			return "C15/stretch"
		case f.Italic != want.Italic:
			return "C15/style"
		case f.Weight != want.Weight:
			return "C15/weight"
		}
	}
	same := len(got) == len(keep)
	for k := 0; same && k < len(got); k++ {
		same = got[k] == keep[k]
	}
	if !same {
		return "C15/not-all-retained"
	}
	return ""
}

func explain(law string, aspects []font.Aspect, cands []int, q font.Aspect, want css.Face, keep, got []int) string {
	var cs, gs []string
	for _, i := range cands {
		cs = append(cs, describe(aspects[i]))
	}
	for _, i := range got {
		if i >= 0 && i < len(aspects) {
			gs = append(gs, describe(aspects[i]))
		} else {
			gs = append(gs, fmt.Sprintf("index %d", i))
		}
	}
	what := map[string]string{
		"C15/empty":            "empty result for a non-empty candidate list",
		"C15/not-a-candidate":  "the result contains an index that is not a candidate",
		"C15/stretch":          "wrong stretch",
		"C15/style":            "wrong style",
		"C15/weight":           "wrong weight",
		"C15/not-all-retained": "the result is not the list of all candidates carrying the selected triple, in input order",
	}[law]
	return fmt.Sprintf("%s: query %s on candidates %v returns %v %v; CSS Fonts 5.2 selects (stretch %v, italic=%v, weight %v), i.e. candidates %v",
		what, describe(q), cs, got, gs, want.Stretch, want.Italic, want.Weight, keep)
}

// ---------------------------------------------------------------------------
// public path

type faceSet struct {
	faces []*font.Face
	index map[*font.Font]int
}

var (
	fontBytesOnce sync.Once
	fontBytes     []byte
	fontID        = "repo/Roboto-Regular.ttf"
)

const publicRune = 'a'

func newFaceSet(n int) (*faceSet, error) {
	fontBytesOnce.Do(func() {
		if f := corpus.ByID(fontID); f != nil {
			fontBytes = f.Bytes()
		}
	})
	if len(fontBytes) == 0 {
		return nil, fmt.Errorf("corpus font %s not found", fontID)
	}
	fs := &faceSet{index: map[*font.Font]int{}}
	for i := 0; i < n; i++ {
		ld, err := ot.NewLoader(bytes.NewReader(fontBytes))
		if err != nil {
			return nil, err
		}
		ft, err := font.NewFont(ld)
		if err != nil {
			return nil, err
		}
		if _, ok := ft.NominalGlyph(publicRune); !ok {
			return nil, fmt.Errorf("%s does not map %q", fontID, publicRune)
		}
		fs.index[ft] = i
		fs.faces = append(fs.faces, font.NewFace(ft))
	}
	return fs, nil
}

type quietLogger struct{}

func (quietLogger) Printf(string, ...interface{}) {}

const family = "verif family"

func buildMap(fs *faceSet, aspects []font.Aspect) *fontscan.FontMap {
	fm := fontscan.NewFontMap(quietLogger{})
	for i, a := range aspects {
		fm.AddFace(fs.faces[i], fontscan.Location{File: fmt.Sprintf("mem-%d", i)}, font.Description{Family: family, Aspect: a})
	}
	return fm
}

// resolve returns the aspect and the index of the face the map resolves.
func resolve(fs *faceSet, fm *fontscan.FontMap, q font.Aspect) (font.Aspect, int, string) {
	fm.SetQuery(fontscan.Query{Families: []string{family}, Aspect: q})
	face := fm.ResolveFace(publicRune)
	if face == nil {
		return font.Aspect{}, -1, "ResolveFace returned nil"
	}
	idx, ok := fs.index[face.Font]
	if !ok {
		return font.Aspect{}, -1, "ResolveFace returned a face that was never added"
	}
	_, asp := fm.FontMetadata(face.Font)
	return asp, idx, ""
}

// judgePublic: one database (every face of one family, all covering the rune),
// several queries on the same FontMap.
func judgePublic(fs *faceSet, aspects []font.Aspect, queries []font.Aspect, st *stats, sc *scratch, rep reporter) (nontrivial bool) {
	cands := make([]int, len(aspects))
	for i := range cands {
		cands[i] = i
	}
	var fm *fontscan.FontMap
	if pv, where := vrun.Catch(func() { fm = buildMap(fs, aspects) }); pv != nil {
		rep("C15/panic", func() (string, Witness) {
			return fmt.Sprintf("AddFace panicked: %v at %s", pv, where), Witness{Path: "public", Aspects: aspects, Candidates: cands}
		})
		return false
	}
	for _, q := range queries {
		st.evals++
		want, tr, keep := expected(aspects, cands, q, sc.faces, sc.keep)
		sc.keep = keep
		wit := Witness{Path: "public", Aspects: append([]font.Aspect(nil), aspects...), Candidates: cands, Query: q}
		var asp font.Aspect
		var idx int
		var problem string
		if pv, where := vrun.Catch(func() { asp, idx, problem = resolve(fs, fm, q) }); pv != nil {
			rep("C15/panic", func() (string, Witness) { return fmt.Sprintf("public path panicked: %v at %s", pv, where), wit })
			continue
		}
		ok := problem == "" && toFace(asp) == want && asp == aspects[idx]
		if !ok {
			// same query on a fresh map: separates a matching error from a stale cache
			var asp2 font.Aspect
			var p2 string
			vrun.Catch(func() { asp2, _, p2 = resolve(fs, buildMap(fs, aspects), q) })
			key := "C15/public-path"
			if p2 == "" && toFace(asp2) == want {
				key = "C15/public-path-stale"
			}
			if problem == "" {
				problem = fmt.Sprintf("resolved face #%d with metadata %s", idx, describe(asp))
			}
			rep(key, func() (string, Witness) {
				return fmt.Sprintf("query %s on a one-family map of %d faces: %s; the specification selects (stretch %v, italic=%v, weight %v)", describe(q), len(aspects), problem, want.Stretch, want.Italic, want.Weight), wit
			})
			continue
		}
		if idx == keep[0] {
			st.streams["public: resolved face is the first added face with the selected triple"]++
		} else {
			st.streams["public: resolved face is a later face with the selected triple"]++
		}
		if len(keep) < len(cands) && (tr.Stretch != css.StretchExact || tr.Style != css.StyleExact || tr.Weight != css.WeightExact) {
			st.nontrivial++
			nontrivial = true
		}
	}
	return nontrivial
}

// ---------------------------------------------------------------------------
// generators

func randAspect(r *gen.RNG, offGrid bool) font.Aspect {
	a := font.Aspect{Style: gen.Pick(r, styleGrid), Stretch: gen.Pick(r, stretchGrid)}
	switch {
	case offGrid && r.Chance(1, 3):
		a.Weight = font.Weight(r.Range(1, 1000))
	case r.Chance(1, 3): // around the 400 / 500 boundaries
		a.Weight = gen.Pick(r, []font.Weight{300, 350, 400, 425, 450, 500, 550, 600})
	default:
		a.Weight = gen.Pick(r, weightGrid)
	}
	if offGrid && r.Chance(1, 4) {
		a.Stretch = gen.Pick(r, []font.Stretch{0.55, 0.8, 0.9, 0.99, 1.01, 1.0625, 1.2, 1.75, 3})
	}
	return a
}

func randQuery(r *gen.RNG, aspects []font.Aspect, offGrid bool) font.Aspect {
	q := randAspect(r, offGrid)
	if r.Chance(1, 3) { // start from a candidate, then move one field
		q = gen.Pick(r, aspects)
		switch r.Intn(4) {
		case 0:
			q.Weight += font.Weight(gen.Pick(r, []int{-50, -1, 1, 50}))
			if q.Weight < 1 {
				q.Weight = 1
			}
		case 1:
			q.Stretch = gen.Pick(r, stretchGrid)
		case 2:
			q.Style = 3 - q.Style
		}
	}
	if r.Chance(1, 5) {
		q.Stretch = 0
	}
	if r.Chance(1, 5) {
		q.Style = 0
	}
	if r.Chance(1, 5) {
		q.Weight = 0
	}
	return q
}

// randCase: up to 12 aspects (duplicates allowed), candidates a shuffled
// sub-list of them (faces outside the candidate list must be ignored).
func randCase(r *gen.RNG) Witness {
	n := r.Range(1, 12)
	offGrid := r.Chance(1, 3)
	w := Witness{Path: "hook"}
	for i := 0; i < n; i++ {
		if i > 0 && r.Chance(1, 6) {
			w.Aspects = append(w.Aspects, w.Aspects[r.Intn(i)]) // duplicate aspect
			continue
		}
		if i > 0 && r.Chance(1, 3) { // a neighbour: same in two fields
			a := w.Aspects[r.Intn(i)]
			switch r.Intn(3) {
			case 0:
				a.Weight = randAspect(r, offGrid).Weight
			case 1:
				a.Stretch = randAspect(r, offGrid).Stretch
			default:
				a.Style = 3 - a.Style
			}
			w.Aspects = append(w.Aspects, a)
			continue
		}
		w.Aspects = append(w.Aspects, randAspect(r, offGrid))
	}
	for i := 0; i < n; i++ {
		w.Candidates = append(w.Candidates, i)
	}
	if r.Chance(1, 2) {
		gen.Shuffle(r, w.Candidates)
	}
	if r.Chance(1, 3) && n > 1 {
		w.Candidates = w.Candidates[:r.Range(1, n)]
	}
	w.Query = randQuery(r, w.Aspects, offGrid)
	return w
}

func setHash(stream string, aspects []font.Aspect, cands []int) uint64 {
	h := vrun.Hash64(stream)
	for _, i := range cands {
		a := aspects[i]
		h = h*0x100000001b3 ^ (uint64(a.Style) | uint64(a.Weight*8)<<8 | uint64(a.Stretch*4096)<<32)
		h ^= h >> 29
		h *= 0xBF58476D1CE4E5B9
	}
	return h
}

// ---------------------------------------------------------------------------

func Main() {
	run := vrun.Start("C15")
	var repMu sync.Mutex
	hits := map[string]int{}
	rep := func(key string, mk func() (string, Witness)) {
		repMu.Lock()
		defer repMu.Unlock()
		hits[key]++
		if hits[key] > 20 {
			return // the key is already reported with a replay file
		}
		msg, w := mk()
		run.Violation(key, msg, w)
	}

	if msg := css.SelfTest(); msg != "" {
		run.Inconclusive("oracle self-test failed: " + msg)
		run.Finish(vrun.Level{Level: "exploration", Rule: "oracle self-test failed, nothing judged", Floor: 1})
	}

	if run.Replay != "" {
		var w Witness
		if _, err := vrun.ReadReplay(run.Replay, &w); err != nil {
			fmt.Println("replay:", err)
			return
		}
		st := &stats{streams: map[string]int64{}}
		if w.Path == "public" {
			fs, err := newFaceSet(len(w.Aspects))
			if err != nil {
				fmt.Println("replay:", err)
				return
			}
			judgePublic(fs, w.Aspects, []font.Aspect{w.Query}, st, &scratch{}, rep)
		} else {
			judgeHook(w.Aspects, w.Candidates, w.Query, st, &scratch{}, rep)
		}
		run.Eval(int(st.evals))
		run.Finish(vrun.Level{Level: "exploration", Rule: "replay"})
	}

	total := &stats{streams: map[string]int64{}}
	var totMu sync.Mutex
	flush := func(st *stats) {
		totMu.Lock()
		total.merge(st)
		for _, h := range st.hashes {
			run.Nontrivial(h)
		}
		totMu.Unlock()
	}
	newSt := func() *stats { return &stats{streams: map[string]int64{}} }

	queries := allQueries()
	grid := fullGrid(stretchGrid, styleGrid, weightGrid)
	run.Extra("grid", map[string]any{"stretches": len(stretchGrid), "styles": len(styleGrid), "weights": weightGrid, "aspects": len(grid), "queries": len(queries), "query_weights": queryWeights})

	// every query on one candidate list; returns whether some query narrowed it
	sweep := func(stream string, aspects []font.Aspect, cands []int, qs []font.Aspect, st *stats, sc *scratch) {
		nt := false
		for _, q := range qs {
			if judgeHook(aspects, cands, q, st, sc, rep) {
				nt = true
			}
		}
		st.streams[stream] += int64(len(qs))
		if nt {
			st.hashes = append(st.hashes, setHash(stream, aspects, cands))
		}
	}

	// (1) per dimension, exhaustive subsets
	{
		st, sc := newSt(), &scratch{}
		var qs []font.Aspect
		for _, s := range append([]font.Stretch{0}, stretchGrid...) {
			qs = append(qs, font.Aspect{Stretch: s}, font.Aspect{Stretch: s, Style: font.StyleItalic, Weight: 700})
		}
		for mask := 1; mask < 1<<len(stretchGrid); mask++ {
			var as []font.Aspect
			var cs []int
			for b, s := range stretchGrid {
				if mask&(1<<b) != 0 {
					cs = append(cs, len(as))
					as = append(as, font.Aspect{Style: font.StyleNormal, Weight: 400, Stretch: s})
				}
			}
			sweep("stretch: all subsets of the 9 stretches", as, cs, qs, st, sc)
		}
		qs = qs[:0]
		for _, s := range append([]font.Style{0}, styleGrid...) {
			qs = append(qs, font.Aspect{Style: s})
		}
		for mask := 1; mask < 4; mask++ {
			var as []font.Aspect
			var cs []int
			for b, s := range styleGrid {
				if mask&(1<<b) != 0 {
					cs = append(cs, len(as))
					as = append(as, font.Aspect{Style: s, Weight: 400, Stretch: 1})
				}
			}
			sweep("style: all subsets of the 2 styles", as, cs, qs, st, sc)
		}
		flush(st)
	}
	{
		var qs []font.Aspect
		for _, w := range queryWeights {
			qs = append(qs, font.Aspect{Weight: w})
		}
		nw := len(weightGrid)
		vrun.ParallelChunks(1<<nw, 1024, func(lo, hi, _ int) {
			st, sc := newSt(), &scratch{}
			as := make([]font.Aspect, 0, nw)
			cs := make([]int, 0, nw)
			for mask := lo; mask < hi; mask++ {
				if mask == 0 {
					continue
				}
				as, cs = as[:0], cs[:0]
				for b, w := range weightGrid {
					if mask&(1<<b) != 0 {
						cs = append(cs, len(as))
						as = append(as, font.Aspect{Style: font.StyleNormal, Weight: w, Stretch: 1})
					}
				}
				sweep(fmt.Sprintf("weight: all subsets of the %d weights", nw), as, cs, qs, st, sc)
			}
			flush(st)
		})
	}

	// (2) all candidate sets of size <= 2 of the full grid (and the doubled singletons) x every query
	vrun.ParallelChunks(len(grid), 1, func(lo, hi, _ int) {
		for i := lo; i < hi; i++ {
			st, sc := newSt(), &scratch{}
			sweep("grid: sets of size 1", []font.Aspect{grid[i]}, []int{0}, queries, st, sc)
			sweep("grid: one aspect carried by two faces", []font.Aspect{grid[i], grid[i]}, []int{0, 1}, queries, st, sc)
			for j := i + 1; j < len(grid); j++ {
				sweep("grid: sets of size 2", []font.Aspect{grid[i], grid[j]}, []int{0, 1}, queries, st, sc)
			}
			flush(st)
		}
	})

	// (3) all candidate sets of size 3: reduced grid in quick, full grid in thorough
	{
		g3 := fullGrid([]font.Stretch{font.StretchCondensed, font.StretchNormal, font.StretchExpanded}, styleGrid,
			[]font.Weight{100, 300, 350, 400, 450, 500, 550, 700, 900})
		name := "reduced grid (3 stretches x 2 styles x 9 weights): sets of size 3"
		if run.Thorough() {
			// the property's own grid: 9 stretches x 2 styles x {100..900 step 50, 950}
			var w18 []font.Weight
			for w := 100; w <= 950; w += 50 {
				w18 = append(w18, font.Weight(w))
			}
			g3 = fullGrid(stretchGrid, styleGrid, w18)
			name = fmt.Sprintf("property grid (9 stretches x 2 styles x 18 weights = %d aspects): sets of size 3", len(g3))
		}
		qs3 := queries
		if run.Thorough() {
			// every requested aspect of the property's grid plus unset fields
			qs3 = nil
			for _, q := range queries {
				if w := int(q.Weight); w == 0 || (w >= 100 && w <= 950 && w%50 == 0) {
					qs3 = append(qs3, q)
				}
			}
		}
		run.Extra("size3_queries", len(qs3))
		type pair struct{ i, j int }
		var pairs []pair
		for i := 0; i < len(g3); i++ {
			for j := i + 1; j < len(g3); j++ {
				pairs = append(pairs, pair{i, j})
			}
		}
		vrun.ParallelChunks(len(pairs), 1, func(lo, hi, _ int) {
			st, sc := newSt(), &scratch{}
			for p := lo; p < hi; p++ {
				i, j := pairs[p].i, pairs[p].j
				for k := j + 1; k < len(g3); k++ {
					sweep(name, []font.Aspect{g3[i], g3[j], g3[k]}, []int{0, 1, 2}, qs3, st, sc)
				}
			}
			flush(st)
		})
	}

	// (4) random larger sets (up to 12 faces, duplicates, candidate sub-lists, off-grid values)
	{
		n := run.Pick(2000000, 20000000)
		vrun.ParallelChunks(n, 0, func(lo, hi, _ int) {
			st, sc := newSt(), &scratch{}
			for i := lo; i < hi; i++ {
				w := randCase(gen.New(run.Seed, "C15/rand", i))
				if judgeHook(w.Aspects, w.Candidates, w.Query, st, sc, rep) {
					st.hashes = append(st.hashes, setHash("rand", w.Aspects, w.Candidates)^vrun.Hash64(w.Query.Style, w.Query.Weight, w.Query.Stretch))
				}
				if i < 3 {
					_, _, keep := expected(w.Aspects, w.Candidates, w.Query, nil, nil)
					run.Sample(map[string]any{"path": "hook", "aspects": w.Aspects, "candidates": w.Candidates, "query": w.Query, "retained": keep})
				}
			}
			st.streams["random sets of 1..12 faces"] += int64(hi - lo)
			flush(st)
		})
	}

	// (5) public path
	{
		n := run.Pick(20000, 200000)
		const perMap = 5
		var pool sync.Pool
		var failOnce sync.Once
		vrun.ParallelChunks(n, 0, func(lo, hi, _ int) {
			var fs *faceSet
			if v := pool.Get(); v != nil {
				fs = v.(*faceSet)
			} else {
				var err error
				if fs, err = newFaceSet(12); err != nil {
					failOnce.Do(func() { run.Inconclusive("public path: " + err.Error()) })
					return
				}
			}
			defer pool.Put(fs)
			st, sc := newSt(), &scratch{}
			for i := lo; i < hi; i++ {
				r := gen.New(run.Seed, "C15/public", i)
				w := randCase(r)
				qs := []font.Aspect{w.Query}
				for len(qs) < perMap {
					qs = append(qs, randQuery(r, w.Aspects, false))
				}
				if r.Chance(1, 4) {
					qs = append(qs, qs[0]) // a repeated query (served from the map's cache)
				}
				if judgePublic(fs, w.Aspects, qs, st, sc, rep) {
					st.hashes = append(st.hashes, vrun.Hash64("public", fmt.Sprint(w.Aspects), fmt.Sprint(qs)))
				}
				st.streams["public path: queries through AddFace/SetQuery/ResolveFace/FontMetadata"] += int64(len(qs))
				if i < 2 {
					var asp font.Aspect
					idx := -1
					vrun.Catch(func() { asp, idx, _ = resolve(fs, buildMap(fs, w.Aspects), w.Query) })
					run.Sample(map[string]any{"path": "public", "aspects": w.Aspects, "query": w.Query, "resolved_face": idx, "resolved_metadata": asp})
				}
			}
			flush(st)
		})
	}

	// evidence
	run.Eval(int(total.evals))
	for k, v := range total.streams {
		run.CoverN("stream="+k, v)
	}
	for i, v := range total.stretch {
		run.CoverN("stretch step: "+css.StretchHowNames[i], v)
	}
	for i, v := range total.style {
		run.CoverN("style step: "+css.StyleHowNames[i], v)
	}
	for i, v := range total.weight {
		run.CoverN("weight step: "+css.WeightHowNames[i], v)
	}
	for i, n := range []string{"stretch", "style", "weight"} {
		run.CoverN("query field unset: "+n, total.unset[i])
	}
	for i, n := range []string{"1", "2", "3", ">3"} {
		run.CoverN("faces retained: "+n, total.retained[i])
	}
	run.Extra("nontrivial_evaluations", total.nontrivial)

	size3 := "size 3 of a reduced grid (3 stretches x 2 styles x 9 weights)"
	if run.Thorough() {
		size3 = "size 3 of the property's grid (9 stretches x 2 styles x {100..900 step 50, 950})"
	}
	run.Finish(vrun.Level{
		Level: "exploration",
		Rule: "exhaustive: every non-empty subset of the 9 stretches, of the 2 styles and of the " + fmt.Sprint(len(weightGrid)) + " weights x every query value of that dimension (+unset); every candidate set of size <= 2 of the " +
			fmt.Sprint(len(grid)) + "-aspect grid and every set of " + size3 + " x all " + fmt.Sprint(len(queries)) + " queries (grid values, unset fields, weights 399/401/499/501; in the thorough tier the size-3 sets take the queries of the property's grid plus unset fields). generated: " +
			fmt.Sprint(run.Pick(2000000, 20000000)) + " random candidate lists of 1..12 faces (duplicates, sub-lists, off-grid values) and " + fmt.Sprint(run.Pick(20000, 200000)) + " one-family FontMaps queried through the public API. " +
			"non-trivial = the narrowing removes at least one candidate and at least one of the three steps is decided by a search order rather than by an exact value. nontrivial_evaluations counts such evaluations; distinct_nontrivial counts, by hash, the distinct candidate sets of the exhaustive streams having at least one such query plus the distinct non-trivial random and public cases",
		Assumptions: []string{
			"reference: internal/ref/css, transcription of CSS Fonts Level 3 §5.2 steps 4.a/4.b and of the Level 4 wording of the weight rule (three intervals); self-test: equals the Level 3 weight rule on all subsets of multiples of 100",
			"italic and oblique are one style (font.StyleItalic), as the specification permits",
			"candidate aspects have non-zero fields; unset (zero) fields occur in queries only and mean normal / normal / 400",
			"public path: all faces are parsed from " + fontID + " (distinct *font.Font each), one family, every face covers the resolved rune",
		},
		Floor: 50000,
	})
}
