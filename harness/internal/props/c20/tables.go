package c20

import (
	"fmt"
	"unicode"

	ucd "github.com/go-text/typesetting/unicodedata"
)

// named is an exported per-class table of the library with a label for the
// evidence file. The label lists are only used for naming and for the
// "well-formed RangeTable" check; the class arrays the lookups iterate come
// from the verif hook (unicodedata.Verif*), never from these lists.
type named struct {
	name string
	t    *unicode.RangeTable
}

func gcTables() []named {
	return []named{
		{"Cc", ucd.Cc}, {"Cf", ucd.Cf}, {"Co", ucd.Co}, {"Cs", ucd.Cs},
		{"Ll", ucd.Ll}, {"Lm", ucd.Lm}, {"Lo", ucd.Lo}, {"Lt", ucd.Lt}, {"Lu", ucd.Lu},
		{"Mc", ucd.Mc}, {"Me", ucd.Me}, {"Mn", ucd.Mn},
		{"Nd", ucd.Nd}, {"Nl", ucd.Nl}, {"No", ucd.No},
		{"Pc", ucd.Pc}, {"Pd", ucd.Pd}, {"Pe", ucd.Pe}, {"Pf", ucd.Pf}, {"Pi", ucd.Pi}, {"Po", ucd.Po}, {"Ps", ucd.Ps},
		{"Sc", ucd.Sc}, {"Sk", ucd.Sk}, {"Sm", ucd.Sm}, {"So", ucd.So},
		{"Zl", ucd.Zl}, {"Zp", ucd.Zp}, {"Zs", ucd.Zs},
	}
}

func lbTables() []named {
	return []named{
		{"BK", ucd.BreakBK}, {"CR", ucd.BreakCR}, {"LF", ucd.BreakLF}, {"NL", ucd.BreakNL}, {"SP", ucd.BreakSP},
		{"NU", ucd.BreakNU}, {"AL", ucd.BreakAL}, {"IS", ucd.BreakIS}, {"PR", ucd.BreakPR}, {"PO", ucd.BreakPO},
		{"OP", ucd.BreakOP}, {"CL", ucd.BreakCL}, {"CP", ucd.BreakCP}, {"QU", ucd.BreakQU}, {"HY", ucd.BreakHY},
		{"SG", ucd.BreakSG}, {"GL", ucd.BreakGL}, {"NS", ucd.BreakNS}, {"EX", ucd.BreakEX}, {"SY", ucd.BreakSY},
		{"HL", ucd.BreakHL}, {"ID", ucd.BreakID}, {"IN", ucd.BreakIN}, {"BA", ucd.BreakBA}, {"BB", ucd.BreakBB},
		{"B2", ucd.BreakB2}, {"ZW", ucd.BreakZW}, {"CM", ucd.BreakCM}, {"EB", ucd.BreakEB}, {"EM", ucd.BreakEM},
		{"WJ", ucd.BreakWJ}, {"ZWJ", ucd.BreakZWJ}, {"H2", ucd.BreakH2}, {"H3", ucd.BreakH3}, {"JL", ucd.BreakJL},
		{"JV", ucd.BreakJV}, {"JT", ucd.BreakJT}, {"RI", ucd.BreakRI}, {"CB", ucd.BreakCB}, {"AI", ucd.BreakAI},
		{"CJ", ucd.BreakCJ}, {"SA", ucd.BreakSA}, {"XX", ucd.BreakXX},
	}
}

func gbTables() []named {
	return []named{
		{"CR", ucd.GraphemeBreakCR}, {"Control", ucd.GraphemeBreakControl}, {"Extend", ucd.GraphemeBreakExtend},
		{"L", ucd.GraphemeBreakL}, {"LF", ucd.GraphemeBreakLF}, {"LV", ucd.GraphemeBreakLV}, {"LVT", ucd.GraphemeBreakLVT},
		{"Prepend", ucd.GraphemeBreakPrepend}, {"Regional_Indicator", ucd.GraphemeBreakRegional_Indicator},
		{"SpacingMark", ucd.GraphemeBreakSpacingMark}, {"T", ucd.GraphemeBreakT}, {"V", ucd.GraphemeBreakV}, {"ZWJ", ucd.GraphemeBreakZWJ},
	}
}

func wbTables() []named {
	return []named{
		{"ALetter", ucd.WordBreakALetter}, {"Double_Quote", ucd.WordBreakDouble_Quote}, {"ExtendFormat", ucd.WordBreakExtendFormat},
		{"ExtendNumLet", ucd.WordBreakExtendNumLet}, {"Hebrew_Letter", ucd.WordBreakHebrew_Letter}, {"Katakana", ucd.WordBreakKatakana},
		{"MidLetter", ucd.WordBreakMidLetter}, {"MidNum", ucd.WordBreakMidNum}, {"MidNumLet", ucd.WordBreakMidNumLet},
		{"NewlineCRLF", ucd.WordBreakNewlineCRLF}, {"Numeric", ucd.WordBreakNumeric}, {"Regional_Indicator", ucd.WordBreakRegional_Indicator},
		{"Single_Quote", ucd.WordBreakSingle_Quote}, {"WSegSpace", ucd.WordBreakWSegSpace},
	}
}

func miscTables() []named {
	return []named{
		{"LargeEastAsian", ucd.LargeEastAsian}, {"Extended_Pictographic", ucd.Extended_Pictographic},
		{"IndicVirama", ucd.IndicVirama}, {"IndicVowel_Dependent", ucd.IndicVowel_Dependent},
		{"STerm", ucd.STerm}, {"Word", ucd.Word},
	}
}

// labels gives a name to every table of a hook array: the exported name when
// the pointer is one of the exported tables, "#i" otherwise.
func labels(tabs []*unicode.RangeTable, known []named, numeric bool) []string {
	out := make([]string, len(tabs))
	for i, t := range tabs {
		out[i] = fmt.Sprintf("#%d", i)
		if numeric {
			out[i] = fmt.Sprintf("%d", i)
			continue
		}
		for _, k := range known {
			if k.t == t {
				out[i] = k.name
			}
		}
	}
	return out
}

// scanIs is the linear-scan membership test: it visits every range of the
// table and assumes nothing about order or disjointness.
func scanIs(t *unicode.RangeTable, r rune) bool {
	if t == nil || r < 0 {
		return false
	}
	found := false
	for _, rg := range t.R16 {
		if rune(rg.Lo) <= r && r <= rune(rg.Hi) {
			s := rune(rg.Stride)
			if s <= 1 || (r-rune(rg.Lo))%s == 0 {
				found = true
			}
		}
	}
	for _, rg := range t.R32 {
		if rune(rg.Lo) <= r && r <= rune(rg.Hi) {
			s := rune(rg.Stride)
			if s <= 1 || (r-rune(rg.Lo))%s == 0 {
				found = true
			}
		}
	}
	return found
}

// structure checks what unicode.Is relies on (its bisection precondition):
// positive strides, Lo<=Hi, ranges in ascending order and pairwise disjoint,
// R32 entirely above R16 and above 0xFFFF.
func structure(t *unicode.RangeTable) []string {
	var out []string
	if t == nil {
		return nil
	}
	prevHi := int64(-1)
	for i, rg := range t.R16 {
		if rg.Stride == 0 {
			out = append(out, fmt.Sprintf("R16[%d] stride 0", i))
		}
		if rg.Lo > rg.Hi {
			out = append(out, fmt.Sprintf("R16[%d] Lo %#x > Hi %#x", i, rg.Lo, rg.Hi))
		}
		if int64(rg.Lo) <= prevHi {
			out = append(out, fmt.Sprintf("R16[%d] Lo %#x not above previous Hi %#x", i, rg.Lo, prevHi))
		}
		if rg.Stride > 1 && (rg.Hi-rg.Lo)%rg.Stride != 0 {
			out = append(out, fmt.Sprintf("R16[%d] Hi %#x not on the stride grid", i, rg.Hi))
		}
		prevHi = int64(rg.Hi)
	}
	for i, rg := range t.R32 {
		if rg.Stride == 0 {
			out = append(out, fmt.Sprintf("R32[%d] stride 0", i))
		}
		if rg.Lo > rg.Hi {
			out = append(out, fmt.Sprintf("R32[%d] Lo %#x > Hi %#x", i, rg.Lo, rg.Hi))
		}
		if rg.Lo < 0x10000 {
			out = append(out, fmt.Sprintf("R32[%d] Lo %#x below 0x10000", i, rg.Lo))
		}
		if int64(rg.Lo) <= prevHi {
			out = append(out, fmt.Sprintf("R32[%d] Lo %#x not above previous Hi %#x", i, rg.Lo, prevHi))
		}
		if rg.Hi > unicode.MaxRune {
			out = append(out, fmt.Sprintf("R32[%d] Hi %#x above MaxRune", i, rg.Hi))
		}
		if rg.Stride > 1 && (rg.Hi-rg.Lo)%rg.Stride != 0 {
			out = append(out, fmt.Sprintf("R32[%d] Hi %#x not on the stride grid", i, rg.Hi))
		}
		prevHi = int64(rg.Hi)
	}
	return out
}

// expansion is the result of a linear scan of a class array, written out for
// every code point: the first class that lists it and how many classes do.
type expansion struct {
	first []int16
	count []uint8
}

func expand(tabs []*unicode.RangeTable) expansion {
	e := expansion{first: make([]int16, nCP), count: make([]uint8, nCP)}
	for i := range e.first {
		e.first[i] = -1
	}
	mark := func(i int, r int64) {
		if r < 0 || r >= nCP {
			return
		}
		if e.count[r] < 255 {
			e.count[r]++
		}
		if e.first[r] < 0 {
			e.first[r] = int16(i)
		}
	}
	for i, t := range tabs {
		if t == nil {
			continue
		}
		for _, rg := range t.R16 {
			s := int64(rg.Stride)
			if s < 1 {
				s = 1
			}
			for r := int64(rg.Lo); r <= int64(rg.Hi); r += s {
				mark(i, r)
			}
		}
		for _, rg := range t.R32 {
			s := int64(rg.Stride)
			if s < 1 {
				s = 1
			}
			for r := int64(rg.Lo); r <= int64(rg.Hi) && r < nCP; r += s {
				mark(i, r)
			}
		}
	}
	return e
}
