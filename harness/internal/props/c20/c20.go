// Package c20 monitors "Unicode and language lookups are coherent total
// functions".
//
// Events: the return values of the exported lookups of unicodedata, language
// and di for every code point / table entry / Direction byte, plus generated
// tag strings and code point pairs.
// Oracles: a linear scan of the table each lookup consults (class arrays via
// the verif hook of unicodedata, language.ScriptRanges, unicode.Categories),
// the algebraic laws of the statement (inverse, involution, idempotence,
// round trip, independence of Direction components) and, for "canonical" and
// "composition exclusion", golang.org/x/text/unicode/norm on code points
// assigned in its Unicode version (normalisation of assigned code points is
// frozen by the Unicode stability policy).
package c20

import (
	"fmt"
	"sort"
	"strings"
	"sync"
	"unicode"
	"unicode/utf8"

	"golang.org/x/text/unicode/bidi"
	"golang.org/x/text/unicode/norm"

	"github.com/go-text/typesetting/di"
	"github.com/go-text/typesetting/harfbuzz"
	"github.com/go-text/typesetting/language"
	ucd "github.com/go-text/typesetting/unicodedata"

	"verifharness/internal/gen"
	"verifharness/internal/vrun"
)

const nCP = 0x110000

// Witness is the self-contained input of one judged case.
type Witness struct {
	Kind  string `json:"kind"` // codepoint | pair | tag | langid | direction | table
	CP    int32  `json:"cp,omitempty"`
	A     int32  `json:"a,omitempty"`
	B     int32  `json:"b,omitempty"`
	Tag   string `json:"tag,omitempty"`
	TagHx string `json:"tag_hex,omitempty"`
	ID    int    `json:"id,omitempty"`
	Dir   int    `json:"dir,omitempty"`
	Table string `json:"table,omitempty"`
}

type reporter func(key, msg string, w Witness)

// ---------------------------------------------------------------------------
// reference data built once

type refData struct {
	scripts                   []language.ScriptRange
	scriptFirst               []int32 // index into scripts, -1
	scriptCount               []uint8
	stdCats                   []*unicode.RangeTable // the 2-letter tables of unicode.Categories, sorted by name
	stdCatNames               []string
	std, own, lb, gb, wb, ccc expansion
	ownT, lbT, gbT, wbT, cccT []*unicode.RangeTable
	ownN, lbN, gbN, wbN, cccN []string
	assigned                  []bool // assigned in Go's / x/text's Unicode version
}

func buildRef() *refData {
	d := &refData{}
	d.scripts = append(d.scripts, language.ScriptRanges[:]...)
	d.scriptFirst = make([]int32, nCP)
	d.scriptCount = make([]uint8, nCP)
	for i := range d.scriptFirst {
		d.scriptFirst[i] = -1
	}
	for i, sr := range d.scripts {
		for r := int64(sr.Start); r <= int64(sr.End); r++ {
			if r < 0 || r >= nCP {
				continue
			}
			if d.scriptCount[r] < 255 {
				d.scriptCount[r]++
			}
			if d.scriptFirst[r] < 0 {
				d.scriptFirst[r] = int32(i)
			}
		}
	}
	for name := range unicode.Categories {
		if len(name) == 2 {
			d.stdCatNames = append(d.stdCatNames, name)
		}
	}
	sort.Strings(d.stdCatNames)
	for _, n := range d.stdCatNames {
		d.stdCats = append(d.stdCats, unicode.Categories[n])
	}
	d.std = expand(d.stdCats)
	for _, k := range gcTables() {
		d.ownT = append(d.ownT, k.t)
		d.ownN = append(d.ownN, k.name)
	}
	d.own = expand(d.ownT)
	d.lbT = ucd.VerifLineBreaks()
	d.lbN = labels(d.lbT, lbTables(), false)
	d.lb = expand(d.lbT)
	d.gbT = ucd.VerifGraphemeBreaks()
	d.gbN = labels(d.gbT, gbTables(), false)
	d.gb = expand(d.gbT)
	d.wbT = ucd.VerifWordBreaks()
	d.wbN = labels(d.wbT, wbTables(), false)
	d.wb = expand(d.wbT)
	d.cccT = ucd.VerifCombiningClasses()
	d.cccN = labels(d.cccT, nil, true)
	d.ccc = expand(d.cccT)
	d.assigned = make([]bool, nCP)
	for r := 0; r < nCP; r++ {
		d.assigned[r] = d.std.count[r] > 0
	}
	return d
}

// ---------------------------------------------------------------------------
// per-worker statistics (merged after the parallel phases)

type stats struct {
	evals   int64
	cover   map[string]int64
	hist    map[string]map[string]int64
	nontriv []uint64
}

func newStats() *stats {
	return &stats{cover: map[string]int64{}, hist: map[string]map[string]int64{}}
}

func (s *stats) c(class string) { s.cover[class]++ }

func (s *stats) h(prop, class string) {
	m := s.hist[prop]
	if m == nil {
		m = map[string]int64{}
		s.hist[prop] = m
	}
	m[class]++
}

func (s *stats) merge(o *stats) {
	s.evals += o.evals
	for k, v := range o.cover {
		s.cover[k] += v
	}
	for p, m := range o.hist {
		if s.hist[p] == nil {
			s.hist[p] = map[string]int64{}
		}
		for k, v := range m {
			s.hist[p][k] += v
		}
	}
	s.nontriv = append(s.nontriv, o.nontriv...)
}

func mix(kind uint64, a, b uint64) uint64 {
	z := kind*0x9E3779B97F4A7C15 ^ (a+1)*0xBF58476D1CE4E5B9 ^ (b+1)*0x94D049BB133111EB
	z ^= z >> 29
	z *= 0xD1B54A32D192ED03
	z ^= z >> 32
	return z
}

// ---------------------------------------------------------------------------
// code point laws

func tabName(names []string, tabs []*unicode.RangeTable, t *unicode.RangeTable) string {
	if t == nil {
		return "nil"
	}
	for i, x := range tabs {
		if x == t {
			return names[i]
		}
	}
	return "foreign-table"
}

// isExclusion: c (which has a canonical decomposition) is not a primary
// composite, i.e. it has the Full_Composition_Exclusion property.
func isExclusion(c rune) bool { return !norm.NFC.IsNormalString(string(c)) }

func isSurrogate(c rune) bool { return 0xD800 <= c && c <= 0xDFFF }

// checkCP judges every per-code-point law for c.
func checkCP(d *refData, c rune, st *stats, rep reporter) {
	w := Witness{Kind: "codepoint", CP: int32(c)}
	nontrivial := false

	// script
	{
		got := language.LookupScript(c)
		want := language.Unknown
		if d.scriptCount[c] > 1 {
			rep("C20/script-overlap", fmt.Sprintf("%U is listed by %d entries of language.ScriptRanges", c, d.scriptCount[c]), w)
		}
		if i := d.scriptFirst[c]; i >= 0 {
			want = d.scripts[i].Script
		}
		if got != want {
			rep("C20/script-lookup", fmt.Sprintf("LookupScript(%U)=%s, linear scan of ScriptRanges gives %s", c, got, want), w)
		}
		if got != language.Unknown {
			nontrivial = true
		}
		st.h("script", got.String())
	}
	// general category: the table LookupType consults is unicode.Categories (2-letter keys)
	{
		got := ucd.LookupType(c)
		var want *unicode.RangeTable
		if d.std.count[c] > 1 {
			rep("C20/gc-overlap", fmt.Sprintf("%U is in %d two-letter tables of unicode.Categories", c, d.std.count[c]), w)
		}
		if i := d.std.first[c]; i >= 0 {
			want = d.stdCats[i]
		}
		if got != want {
			rep("C20/gc-lookup", fmt.Sprintf("LookupType(%U)=%s, linear scan gives %s", c, tabName(d.stdCatNames, d.stdCats, got), tabName(d.stdCatNames, d.stdCats, want)), w)
		}
		name := tabName(d.stdCatNames, d.stdCats, got)
		st.h("general_category", name)
		if got != nil {
			nontrivial = true
		}
		// the package's own exported per-category tables: at most one per code point
		if d.own.count[c] > 1 {
			rep("C20/gc-own-overlap", fmt.Sprintf("%U is in %d of the exported general-category tables of unicodedata", c, d.own.count[c]), w)
		}
		ownName := "nil"
		if i := d.own.first[c]; i >= 0 {
			ownName = d.ownN[i]
		}
		if ownName != name {
			// Not judged: LookupType agrees with the table it consults. See the
			// rule text of the evidence for what this class means.
			st.c("skew:gc unicodedata tables vs unicode.Categories")
			st.h("gc_skew(LookupType->unicodedata table)", name+"->"+ownName)
		}
	}
	// line break class
	{
		got := ucd.LookupLineBreakClass(c)
		want := ucd.BreakXX
		if d.lb.count[c] > 1 {
			rep("C20/linebreak-overlap", fmt.Sprintf("%U is in %d line break class tables", c, d.lb.count[c]), w)
		}
		if i := d.lb.first[c]; i >= 0 {
			want = d.lbT[i]
		}
		if got != want {
			rep("C20/linebreak-lookup", fmt.Sprintf("LookupLineBreakClass(%U)=%s, linear scan gives %s", c, tabName(d.lbN, d.lbT, got), tabName(d.lbN, d.lbT, want)), w)
		}
		if d.lb.first[c] >= 0 {
			nontrivial = true
			st.h("line_break", tabName(d.lbN, d.lbT, got))
		} else {
			st.h("line_break", "XX(default)")
		}
	}
	// grapheme break class
	{
		got := ucd.LookupGraphemeBreakClass(c)
		var want *unicode.RangeTable
		if d.gb.count[c] > 1 {
			rep("C20/grapheme-overlap", fmt.Sprintf("%U is in %d grapheme break class tables", c, d.gb.count[c]), w)
		}
		if i := d.gb.first[c]; i >= 0 {
			want = d.gbT[i]
		}
		if got != want {
			rep("C20/grapheme-lookup", fmt.Sprintf("LookupGraphemeBreakClass(%U)=%s, linear scan gives %s", c, tabName(d.gbN, d.gbT, got), tabName(d.gbN, d.gbT, want)), w)
		}
		if got != nil {
			nontrivial = true
		}
		st.h("grapheme_break", tabName(d.gbN, d.gbT, got))
	}
	// word break class
	{
		got := ucd.LookupWordBreakClass(c)
		var want *unicode.RangeTable
		if d.wb.count[c] > 1 {
			rep("C20/word-overlap", fmt.Sprintf("%U is in %d word break class tables", c, d.wb.count[c]), w)
		}
		if i := d.wb.first[c]; i >= 0 {
			want = d.wbT[i]
		}
		if got != want {
			rep("C20/word-lookup", fmt.Sprintf("LookupWordBreakClass(%U)=%s, linear scan gives %s", c, tabName(d.wbN, d.wbT, got), tabName(d.wbN, d.wbT, want)), w)
		}
		if got != nil {
			nontrivial = true
		}
		st.h("word_break", tabName(d.wbN, d.wbT, got))
	}
	// combining class
	{
		got := ucd.LookupCombiningClass(c)
		want := uint8(0)
		if d.ccc.count[c] > 1 {
			rep("C20/ccc-overlap", fmt.Sprintf("%U is in %d combining class tables", c, d.ccc.count[c]), w)
		}
		if i := d.ccc.first[c]; i >= 0 {
			want = uint8(i)
		}
		if got != want {
			rep("C20/ccc-lookup", fmt.Sprintf("LookupCombiningClass(%U)=%d, linear scan gives %d", c, got, want), w)
		}
		if got != 0 {
			nontrivial = true
		}
		st.h("combining_class", fmt.Sprint(got))
		if d.assigned[c] && !isSurrogate(c) {
			if n := norm.NFD.PropertiesString(string(c)).CCC(); n != got {
				st.c("skew:ccc vs x/text norm on assigned code points")
			}
		}
	}
	// mirroring is an involution
	{
		m, ok := ucd.LookupMirrorChar(c)
		if !ok {
			if m != c {
				rep("C20/mirror-identity", fmt.Sprintf("LookupMirrorChar(%U)=(%U,false): documented to return the input itself", c, m), w)
			}
			st.c("mirror:none")
			if !isSurrogate(c) {
				if p, _ := bidi.LookupRune(c); p.IsBracket() {
					st.c("skew:bidi bracket without mirror")
				}
			}
		} else {
			nontrivial = true
			m2, ok2 := ucd.LookupMirrorChar(m)
			if !ok2 || m2 != c {
				rep("C20/mirror-involution", fmt.Sprintf("LookupMirrorChar(%U)=(%U,true) but LookupMirrorChar(%U)=(%U,%v)", c, m, m, m2, ok2), w)
			}
			if m == c {
				st.c("mirror:self")
			} else {
				st.c("mirror:pair-member")
			}
		}
	}
	// decomposition, and composition as its inverse
	{
		a, b, ok := ucd.Decompose(c)
		var kind string
		switch {
		case !ok:
			kind = "decompose:none"
		case c >= ucd.HangulSBase && c < ucd.HangulSBase+ucd.HangulSCount:
			kind = "decompose:hangul"
		case b == 0:
			kind = "decompose:singleton"
		default:
			kind = "decompose:pair"
		}
		st.c(kind)
		if ok {
			nontrivial = true
		}
		judgeNorm := d.assigned[c] && !isSurrogate(c)
		if ok && b != 0 {
			ab, cok := ucd.Compose(a, b)
			if !(cok && ab == c) {
				switch {
				case !judgeNorm:
					st.c("inconclusive:decomposable code point outside the reference Unicode version")
				case isExclusion(c):
					st.c("compose:excluded (composition exclusion, Compose need not invert)")
				default:
					rep("C20/compose-inverse", fmt.Sprintf("Decompose(%U)=(%U,%U) but Compose(%U,%U)=(%U,%v) and %U is not a composition exclusion", c, a, b, a, b, ab, cok, c), w)
				}
			} else {
				st.c("compose:inverts decomposition")
				if judgeNorm && isExclusion(c) {
					st.c("skew:Compose returns a composition exclusion")
				}
			}
		}
		// "canonical": the one-step decomposition expands to the same NFD as
		// the reference, for code points assigned in the reference version
		if judgeNorm {
			ref := norm.NFD.String(string(c))
			var lib string
			switch {
			case !ok:
				lib = string(c)
			case b == 0:
				lib = string(a)
			default:
				lib = string(a) + string(b)
			}
			okInputs := (!ok) || (validScalar(a) && (b == 0 || validScalar(b)))
			if ok && lib == string(c) {
				rep("C20/decompose-canonical", fmt.Sprintf("Decompose(%U) reports success but returns the code point itself", c), w)
			} else if (!ok && ref != string(c)) || !okInputs || norm.NFD.String(lib) != ref {
				rep("C20/decompose-canonical", fmt.Sprintf("Decompose(%U)=(%U,%U,%v) but the canonical decomposition (NFD, x/text Unicode %s) is %U", c, a, b, ok, norm.Version, []rune(ref)), w)
			}
		} else if ok {
			st.c("inconclusive:decomposition not cross-checked (unassigned in reference version or surrogate)")
		}
	}
	// Cross-table identities of the Unicode data. They say something about the
	// content of the tables, which the statement does not (a lookup that agrees
	// with a wrong table satisfies it), so they are recorded as skew classes and
	// never judged; on a coherent data set all of them are zero.
	{
		isS := c >= ucd.HangulSBase && c < ucd.HangulSBase+ucd.HangulSCount
		isLV := isS && (c-ucd.HangulSBase)%ucd.HangulTCount == 0
		gb := ucd.LookupGraphemeBreakClass(c)
		if (gb == ucd.GraphemeBreakLV) != isLV || (gb == ucd.GraphemeBreakLVT) != (isS && !isLV) {
			st.c("skew:grapheme class LV/LVT differs from the Hangul syllable arithmetic")
		}
		lb := ucd.LookupLineBreakClass(c)
		if (lb == ucd.BreakH2) != isLV || (lb == ucd.BreakH3) != (isS && !isLV) {
			st.c("skew:line break class H2/H3 differs from the Hangul syllable arithmetic")
		}
		if gcx := ucd.LookupType(c); gcx != nil && gcx != unicode.Co && d.lb.first[c] < 0 {
			st.c("skew:code point assigned in the Go toolchain's Unicode version has no line break class (default XX)")
		}
		gc := ucd.LookupType(c)
		if gc != nil && gc != unicode.Co && gc != unicode.Cs && language.LookupScript(c) == language.Unknown {
			st.c("skew:code point assigned in the Go toolchain's Unicode version has script Unknown")
		}
		if ucd.LookupCombiningClass(c) != 0 && gc != nil && gc != unicode.Mn && gc != unicode.Mc && gc != unicode.Me {
			st.c("skew:non-zero combining class on a non-mark")
		}
	}
	st.evals++
	if nontrivial {
		st.nontriv = append(st.nontriv, mix(1, uint64(c), 0))
	}
}

func validScalar(r rune) bool { return r >= 0 && r <= unicode.MaxRune && !isSurrogate(r) }

// checkPair: Compose(a,b)=c => Decompose(c)=(a,b).
func checkPair(a, b rune, st *stats, rep reporter) {
	st.evals++
	c, ok := ucd.Compose(a, b)
	if !ok {
		return
	}
	st.nontriv = append(st.nontriv, mix(2, uint64(a), uint64(b)))
	a2, b2, ok2 := ucd.Decompose(c)
	if !ok2 || a2 != a || b2 != b {
		rep("C20/decompose-inverse", fmt.Sprintf("Compose(%U,%U)=%U but Decompose(%U)=(%U,%U,%v)", a, b, c, c, a2, b2, ok2), Witness{Kind: "pair", A: int32(a), B: int32(b)})
		return
	}
	if c >= ucd.HangulSBase && c < ucd.HangulSBase+ucd.HangulSCount {
		st.c("pair:composes (hangul)")
	} else {
		st.c("pair:composes (table)")
	}
}

// ---------------------------------------------------------------------------
// language

// refCanon is the documented canonical form of NewLanguage: lower case,
// '_' -> '-', everything but ASCII letters, digits and '-' stripped. The
// library additionally maps '@' to '-' (as HarfBuzz does); the documentation
// does not say so and the statement does not depend on it, so both readings
// are accepted (atDash).
func refCanon(s string, atDash bool) string {
	out := make([]byte, 0, len(s))
	for i := 0; i < len(s); {
		r, n := utf8.DecodeRuneInString(s[i:])
		i += n
		switch {
		case r >= 'a' && r <= 'z', r >= '0' && r <= '9', r == '-':
			out = append(out, byte(r))
		case r >= 'A' && r <= 'Z':
			out = append(out, byte(r-'A'+'a'))
		case r == '_':
			out = append(out, '-')
		case r == '@' && atDash:
			out = append(out, '-')
		}
	}
	return string(out)
}

func tagWitness(s string) Witness {
	return Witness{Kind: "tag", Tag: s, TagHx: fmt.Sprintf("%x", s)}
}

func checkTag(s string, st *stats, rep reporter) {
	st.evals++
	got := string(language.NewLanguage(s))
	again := string(language.NewLanguage(got))
	if again != got {
		rep("C20/newlanguage-idempotent", fmt.Sprintf("NewLanguage(%q)=%q but NewLanguage of that is %q", s, got, again), tagWitness(s))
		return
	}
	for i := 0; i < len(got); i++ {
		ch := got[i]
		if !(ch >= 'a' && ch <= 'z' || ch >= '0' && ch <= '9' || ch == '-') {
			rep("C20/newlanguage-canonical", fmt.Sprintf("NewLanguage(%q)=%q contains %q, outside the canonical alphabet [a-z0-9-]", s, got, ch), tagWitness(s))
			return
		}
	}
	if got != refCanon(s, true) && got != refCanon(s, false) {
		rep("C20/newlanguage-canonical", fmt.Sprintf("NewLanguage(%q)=%q, the documented canonical form is %q", s, got, refCanon(s, false)), tagWitness(s))
		return
	}
	if got != s {
		st.nontriv = append(st.nontriv, vrun.Hash64("tag", s))
		switch {
		case len(got) == len(s):
			st.c("tag:case or separator folded")
		case got == "":
			st.c("tag:everything stripped")
		default:
			st.c("tag:characters stripped")
		}
	} else {
		st.c("tag:already canonical")
	}
}

type langTable struct {
	tags  []language.Language // index = LangID
	index map[language.Language]int
}

func readLangTable() langTable {
	lt := langTable{index: map[language.Language]int{}}
	for i := 0; i < 1<<16; i++ {
		l := language.LangID(i).Language()
		if l == "<invalid language>" {
			break
		}
		lt.tags = append(lt.tags, l)
	}
	for i := len(lt.tags) - 1; i >= 1; i-- {
		lt.index[lt.tags[i]] = i
	}
	return lt
}

// checkLangID: identifier id round-trips through its tag.
func checkLangID(lt langTable, id int, st *stats, rep reporter) {
	st.evals++
	w := Witness{Kind: "langid", ID: id}
	if id <= 0 || id >= len(lt.tags) {
		return
	}
	tag := lt.tags[id]
	if first := lt.index[tag]; first != id {
		rep("C20/langtable-duplicate", fmt.Sprintf("language table lists %q at %d and %d", tag, first, id), w)
		return
	}
	if c := language.NewLanguage(string(tag)); c != tag {
		rep("C20/langtable-canonical", fmt.Sprintf("language table tag %q (id %d) is not canonical: NewLanguage gives %q", tag, id, c), w)
	}
	got, ok := language.NewLangID(tag)
	if !ok || int(got) != id {
		st.c(fmt.Sprintf("langid:round trip FAILS for id %d %q -> (%d,%v) %q", id, tag, got, ok, got.Language()))
		rep("C20/langid-roundtrip", fmt.Sprintf("LangID(%d).Language()=%q but NewLangID(%q)=(%d,%v) [whose tag is %q]", id, tag, tag, got, ok, got.Language()), w)
		return
	}
	st.nontriv = append(st.nontriv, mix(3, uint64(id), 0))
	if strings.IndexByte(string(tag), '-') >= 0 {
		st.c("langid:round trip (tag with subtags)")
	} else {
		st.c("langid:round trip (primary tag)")
	}
}

// checkDerived: NewLangID on an arbitrary canonical tag agrees with a linear
// scan of the table under the documented rule (exact entry, else the entry of
// the primary subtag, else unknown).
func checkDerived(lt langTable, l language.Language, st *stats, rep reporter) {
	st.evals++
	got, ok := language.NewLangID(l)
	w := Witness{Kind: "tag", Tag: string(l), TagHx: fmt.Sprintf("%x", string(l))}
	exact, hasExact := lt.index[l]
	prim, hasPrim := lt.index[l.Primary()]
	switch {
	case hasExact:
		if !ok || int(got) != exact {
			// same defect class as the round trip: reported under that key
			rep("C20/langid-roundtrip", fmt.Sprintf("table has %q at %d but NewLangID(%q)=(%d,%v)", l, exact, l, got, ok), w)
			return
		}
		st.c("langid-lookup:exact")
	case hasPrim:
		if !ok || int(got) != prim {
			rep("C20/langid-derived", fmt.Sprintf("NewLangID(%q)=(%d,%v); its primary %q is entry %d", l, got, ok, l.Primary(), prim), w)
			return
		}
		st.c("langid-lookup:mapped to primary")
		st.nontriv = append(st.nontriv, vrun.Hash64("derived", string(l)))
	case l.Primary() == "":
		// The table's entry 0 is the zero languageInfo with the empty tag, so
		// NewLangID answers (0,true) for "" and for tags with an empty primary
		// subtag ("-", "-fr"). LangID 0 is documented as "not known"; the
		// statement does not cover this corner: recorded, not judged.
		if ok && got != 0 {
			rep("C20/langid-derived", fmt.Sprintf("NewLangID(%q)=(%d,true) [%q] for a tag with an empty primary subtag", l, got, got.Language()), w)
			return
		}
		if ok {
			st.c("langid-lookup:empty primary answered (0,true)")
		} else {
			st.c("langid-lookup:unknown")
		}
	default:
		if ok {
			rep("C20/langid-derived", fmt.Sprintf("NewLangID(%q)=(%d,true) [%q] but neither the tag nor its primary is in the table", l, got, got.Language()), w)
			return
		}
		st.c("langid-lookup:unknown")
	}
}

var tagAlphabets = []string{
	"abcdefghijklmnopqrstuvwxyz",
	"ABCDEFGHIJKLMNOPQRSTUVWXYZ",
	"0123456789",
	"-_",
	"@. :;,/\\+=*~\x00\t\n\x7f",
}

var oddRunes = []rune{0x80, 0xAA, 0xB5, 0xC0, 0xDF, 0xE9, 0xFE, 0xFF, 0x100, 0x130, 0x131, 0x17F, 0x212A, 0x2010, 0x2013, 0xFF0D, 0xFF21, 0xFF41, 0xFF10, 0xFFFD, 0x1D400, 0xE0061, 0x10FFFF}

func genTag(r *gen.RNG, lt langTable) string {
	var sb strings.Builder
	letters := func(n int, mode int) {
		for i := 0; i < n; i++ {
			c := byte('a' + r.Intn(26))
			if mode == 1 || (mode == 2 && r.Bool()) {
				c -= 32
			}
			if mode == 3 && r.Chance(1, 3) {
				c = byte('0' + r.Intn(10))
			}
			sb.WriteByte(c)
		}
	}
	sep := func() {
		if r.Bool() {
			sb.WriteByte('-')
		} else {
			sb.WriteByte('_')
		}
	}
	switch r.Intn(7) {
	case 0: // BCP47 shaped, random case
		mode := r.Intn(3)
		letters(r.Range(2, 3), mode)
		for k := r.Intn(4); k > 0; k-- {
			sep()
			letters(r.Range(1, 8), []int{mode, 3}[r.Intn(2)])
		}
	case 1: // a table tag, perturbed
		t := []byte(lt.tags[r.Range(1, len(lt.tags)-1)])
		for i := range t {
			if r.Chance(1, 3) && t[i] >= 'a' && t[i] <= 'z' {
				t[i] -= 32
			}
			if t[i] == '-' && r.Bool() {
				t[i] = '_'
			}
		}
		sb.Write(t)
		for k := r.Intn(3); k > 0; k-- {
			sep()
			letters(r.Range(1, 8), r.Intn(4))
		}
	case 2: // arbitrary bytes (mostly invalid UTF-8)
		for k := r.Intn(13); k > 0; k-- {
			sb.WriteByte(byte(r.U64()))
		}
	case 3: // mixed alphabets with non-ASCII runes
		for k := r.Intn(16); k > 0; k-- {
			if r.Chance(1, 4) {
				sb.WriteRune(gen.Pick(r, oddRunes))
			} else if r.Chance(1, 8) {
				sb.WriteRune(rune(r.Intn(nCP)))
			} else {
				a := gen.Pick(r, tagAlphabets)
				sb.WriteByte(a[r.Intn(len(a))])
			}
		}
	case 4: // over-long subtags, empty subtags, separators at the edges
		if r.Bool() {
			sep()
		}
		for k := r.Range(1, 4); k > 0; k-- {
			switch r.Intn(3) {
			case 0:
				letters(r.Range(9, 64), r.Intn(4))
			case 1: // empty subtag
			default:
				letters(r.Range(1, 8), r.Intn(4))
			}
			sep()
			if r.Chance(1, 4) {
				sep()
			}
		}
	case 5: // POSIX locale shaped
		letters(2, 0)
		sb.WriteByte('_')
		letters(2, 1)
		if r.Bool() {
			sb.WriteString(gen.Pick(r, []string{".UTF-8", ".utf8", ".ISO-8859-15", "@euro", ".UTF-8@latin", "@"}))
		}
	default: // private use / extension shaped
		letters(r.Range(1, 3), r.Intn(3))
		for k := r.Intn(3); k > 0; k-- {
			sep()
			letters(1, r.Intn(3))
			sep()
			letters(r.Range(1, 8), 3)
		}
	}
	return sb.String()
}

// ---------------------------------------------------------------------------
// direction

type dirObs struct {
	vertical, axisVertical, toward, hasOrient, sideways bool
}

func observe(d di.Direction) dirObs {
	return dirObs{d.IsVertical(), d.Axis() == di.Vertical, d.Progression() == di.TowardTopLeft, d.HasVerticalOrientation(), d.IsSideways()}
}

// view is everything observable about d: its getters and the getters of the
// value on the other axis (the sideways bit only shows on the vertical axis).
type dirView struct{ self, switched dirObs }

func viewOf(d di.Direction) dirView { return dirView{observe(d), observe(d.SwitchAxis())} }

func checkDirection(v int, st *stats, rep reporter) {
	d0 := di.Direction(v)
	w := Witness{Kind: "direction", Dir: v}
	o0 := observe(d0)
	st.evals++
	if o0.vertical != o0.axisVertical {
		rep("C20/direction-getters", fmt.Sprintf("Direction(%d): IsVertical=%v but Axis()==Vertical is %v", v, o0.vertical, o0.axisVertical), w)
	}
	if o0.sideways && !o0.vertical {
		rep("C20/direction-getters", fmt.Sprintf("Direction(%d): IsSideways on a horizontal direction", v), w)
	}
	// SetProgression changes the progression only
	for _, p := range []di.Progression{di.FromTopLeft, di.TowardTopLeft} {
		d := d0
		d.SetProgression(p)
		st.evals++
		got, want := viewOf(d), viewOf(d0)
		want.self.toward = p == di.TowardTopLeft
		want.switched.toward = p == di.TowardTopLeft
		if got != want {
			rep("C20/direction-setprogression", fmt.Sprintf("Direction(%d).SetProgression(%v) -> %d: observed %+v, want %+v", v, p, d, got, want), w)
		}
		d2 := d
		d2.SetProgression(p)
		if d2 != d {
			rep("C20/direction-setprogression", fmt.Sprintf("Direction(%d).SetProgression(%v) is not idempotent: %d then %d", v, p, d, d2), w)
		}
		if (p == di.TowardTopLeft) != o0.toward {
			st.c("direction:SetProgression changes the progression")
		} else {
			st.c("direction:SetProgression keeps the progression")
		}
	}
	// SetSideways makes the direction vertical with a set orientation, keeps the progression
	for _, s := range []bool{false, true} {
		d := d0
		d.SetSideways(s)
		st.evals++
		o := observe(d)
		if o.toward != o0.toward {
			rep("C20/direction-setsideways", fmt.Sprintf("Direction(%d).SetSideways(%v) -> %d changed the progression", v, s, d), w)
		}
		if !o.vertical || !o.axisVertical || !o.hasOrient || o.sideways != s {
			rep("C20/direction-setsideways", fmt.Sprintf("Direction(%d).SetSideways(%v) -> %d: observed %+v, want vertical with orientation set and sideways=%v", v, s, d, o, s), w)
		}
		d2 := d
		d2.SetSideways(s)
		if d2 != d {
			rep("C20/direction-setsideways", fmt.Sprintf("Direction(%d).SetSideways(%v) is not idempotent: %d then %d", v, s, d, d2), w)
		}
		if o0.vertical {
			st.c("direction:SetSideways on a vertical direction")
		} else {
			st.c("direction:SetSideways on a horizontal direction")
		}
		// setters commute (independent components)
		for _, p := range []di.Progression{di.FromTopLeft, di.TowardTopLeft} {
			x, y := d0, d0
			x.SetProgression(p)
			x.SetSideways(s)
			y.SetSideways(s)
			y.SetProgression(p)
			st.evals++
			if viewOf(x) != viewOf(y) {
				rep("C20/direction-commute", fmt.Sprintf("Direction(%d): SetProgression(%v);SetSideways(%v) -> %d but the other order -> %d", v, p, s, x, y), w)
			}
			if ox := observe(x); ox.toward != (p == di.TowardTopLeft) || ox.sideways != s || !ox.vertical || !ox.hasOrient {
				rep("C20/direction-commute", fmt.Sprintf("Direction(%d): after SetProgression(%v);SetSideways(%v) observed %+v", v, p, s, ox), w)
			}
		}
	}
	// SwitchAxis flips the axis only, and is an involution
	{
		d := d0.SwitchAxis()
		st.evals++
		o := observe(d)
		if o.vertical == o0.vertical || o.toward != o0.toward || o.hasOrient != o0.hasOrient {
			rep("C20/direction-switchaxis", fmt.Sprintf("Direction(%d).SwitchAxis() -> %d: observed %+v from %+v", v, d, o, o0), w)
		}
		if d.SwitchAxis() != d0 {
			rep("C20/direction-switchaxis", fmt.Sprintf("Direction(%d).SwitchAxis().SwitchAxis() = %d", v, d.SwitchAxis()), w)
		}
		st.c("direction:SwitchAxis")
	}
	// not part of the statement: recorded only
	hb := d0.Harfbuzz()
	wantHB := map[[2]bool]harfbuzz.Direction{{false, false}: harfbuzz.LeftToRight, {false, true}: harfbuzz.RightToLeft, {true, false}: harfbuzz.TopToBottom, {true, true}: harfbuzz.BottomToTop}[[2]bool{o0.vertical, o0.toward}]
	if hb != wantHB {
		st.c("skew:Harfbuzz() differs from (axis, progression)")
	}
	st.nontriv = append(st.nontriv, mix(4, uint64(v), 0))
}

func checkDirectionConstants(rep reporter) {
	type exp struct {
		d        di.Direction
		name     string
		vertical bool
		toward   bool
	}
	for _, e := range []exp{{di.DirectionLTR, "DirectionLTR", false, false}, {di.DirectionRTL, "DirectionRTL", false, true}, {di.DirectionTTB, "DirectionTTB", true, false}, {di.DirectionBTT, "DirectionBTT", true, true}} {
		o := observe(e.d)
		if o.vertical != e.vertical || o.toward != e.toward {
			rep("C20/direction-constants", fmt.Sprintf("%s: vertical=%v toward-top-left=%v", e.name, o.vertical, o.toward), Witness{Kind: "direction", Dir: int(e.d)})
		}
	}
}

// ---------------------------------------------------------------------------
// tables

// checkVerticalOrientation: the per-script vertical orientation lookup agrees with a
// linear scan of its table for every script of the script table (and a few values no
// script has); scripts the table does not list are fully sideways without exceptions.
func checkVerticalOrientation(d *refData, st *stats, rep reporter) {
	table := ucd.VerifUprightOrMixedScripts()
	scripts := map[uint32]bool{0: true, 1: true, 0xFFFFFFFF: true}
	for _, sr := range d.scripts {
		scripts[uint32(sr.Script)] = true
	}
	for _, e := range table {
		sc, _, _ := e.VerifFields()
		scripts[sc] = true
	}
	for sc := range scripts {
		got := ucd.LookupVerticalOrientation(language.Script(sc))
		want := ucd.ScriptVerticalOrientation{}
		found := false
		for _, e := range table {
			if s2, _, _ := e.VerifFields(); s2 == sc {
				want, found = e, true
				break
			}
		}
		gs, gm, ge := got.VerifFields()
		st.c("vertical-orientation-lookups")
		if found {
			st.c("vertical-orientation: script listed in the table")
			if got != want {
				_, wm, _ := want.VerifFields()
				rep("C20/vertical-orientation-lookup", fmt.Sprintf("LookupVerticalOrientation(%s) = {script %s, sideways %v, exceptions %v}; the table entry of that script says sideways %v",
					language.Script(sc), language.Script(gs), gm, ge != nil, wm), Witness{Kind: "table"})
			}
		} else if gs != sc || !gm || ge != nil {
			rep("C20/vertical-orientation-lookup", fmt.Sprintf("LookupVerticalOrientation(%s), a script the table does not list, = {script %s, sideways %v, exceptions %v}; documented default: fully sideways",
				language.Script(sc), language.Script(gs), gm, ge != nil), Witness{Kind: "table"})
		}
	}
}

func checkTables(d *refData, st *stats, rep reporter) {
	checkVerticalOrientation(d, st, rep)
	type set struct {
		prop  string
		tabs  []*unicode.RangeTable
		names []string
	}
	var misc set
	misc.prop = "misc"
	for _, k := range miscTables() {
		misc.tabs = append(misc.tabs, k.t)
		misc.names = append(misc.names, k.name)
	}
	sets := []set{{"general_category(unicode.Categories)", d.stdCats, d.stdCatNames}, {"general_category(unicodedata)", d.ownT, d.ownN},
		{"line_break", d.lbT, d.lbN}, {"grapheme_break", d.gbT, d.gbN}, {"word_break", d.wbT, d.wbN}, {"combining_class", d.cccT, d.cccN}, misc}
	// exported class tables that the lookup arrays do not contain can never be returned
	for _, chk := range []struct {
		prop  string
		known []named
		tabs  []*unicode.RangeTable
	}{{"line_break", lbTables(), d.lbT}, {"grapheme_break", gbTables(), d.gbT}, {"word_break", wbTables(), d.wbT}} {
		for _, k := range chk.known {
			n := 0
			for _, t := range chk.tabs {
				if t == k.t {
					n++
				}
			}
			if n != 1 {
				st.c(fmt.Sprintf("skew:exported %s class %s occurs %d times in the lookup array", chk.prop, k.name, n))
			}
		}
	}
	type job struct {
		prop, name string
		t          *unicode.RangeTable
	}
	var jobs []job
	for _, s := range sets {
		for i, t := range s.tabs {
			if t != nil {
				jobs = append(jobs, job{s.prop, s.names[i], t})
			}
		}
	}
	var mu sync.Mutex
	vrun.ParallelFor(len(jobs), func(i int) {
		j := jobs[i]
		w := Witness{Kind: "table", Table: j.prop + "/" + j.name}
		loc := newStats()
		for _, p := range structure(j.t) {
			mu.Lock()
			rep("C20/table-structure", fmt.Sprintf("table %s/%s: %s", j.prop, j.name, p), w)
			mu.Unlock()
		}
		// unicode.Is (what the lookups call) against the linear scan, every code point
		members := 0
		for r := rune(0); r < nCP; r++ {
			a, b := unicode.Is(j.t, r), scanIs(j.t, r)
			if a != b {
				mu.Lock()
				rep("C20/table-bisection", fmt.Sprintf("table %s/%s: unicode.Is(%U)=%v but a linear scan of its ranges gives %v", j.prop, j.name, r, a, b), Witness{Kind: "table", Table: j.prop + "/" + j.name, CP: int32(r)})
				mu.Unlock()
				break
			}
			if b {
				members++
			}
		}
		loc.evals = nCP
		loc.c("table:well-formed and bisection == linear scan")
		if members == 0 {
			loc.c("table:empty")
		}
		mu.Lock()
		st.merge(loc)
		mu.Unlock()
	})
	// ScriptRanges: sorted and pairwise disjoint
	for i, sr := range d.scripts {
		w := Witness{Kind: "table", Table: fmt.Sprintf("ScriptRanges[%d]", i)}
		if sr.Start > sr.End {
			rep("C20/script-table-order", fmt.Sprintf("ScriptRanges[%d] = [%U,%U] is empty", i, sr.Start, sr.End), w)
		}
		if i > 0 && sr.Start <= d.scripts[i-1].End {
			rep("C20/script-table-order", fmt.Sprintf("ScriptRanges[%d] starts at %U, not above the end %U of the previous entry", i, sr.Start, d.scripts[i-1].End), w)
		}
		if sr.Start < 0 || sr.End > unicode.MaxRune {
			rep("C20/script-table-order", fmt.Sprintf("ScriptRanges[%d] = [%#x,%#x] leaves the code space", i, sr.Start, sr.End), w)
		}
	}
	st.evals += int64(len(d.scripts))
	st.cover["table:ScriptRanges entries"] += int64(len(d.scripts))
}

// ---------------------------------------------------------------------------

func Main() {
	run := vrun.Start("C20")
	var repMu sync.Mutex
	rep := func(key, msg string, w Witness) {
		repMu.Lock()
		defer repMu.Unlock()
		run.Violation(key, msg, w)
	}
	d := buildRef()
	lt := readLangTable()

	if run.Replay != "" {
		var w Witness
		if _, err := vrun.ReadReplay(run.Replay, &w); err != nil {
			fmt.Println("replay:", err)
			return
		}
		st := newStats()
		switch w.Kind {
		case "codepoint":
			checkCP(d, rune(w.CP), st, rep)
		case "pair":
			checkPair(rune(w.A), rune(w.B), st, rep)
		case "tag":
			s := w.Tag
			if w.TagHx != "" {
				var b []byte
				fmt.Sscanf(w.TagHx, "%x", &b)
				s = string(b)
			}
			checkTag(s, st, rep)
			checkDerived(lt, language.NewLanguage(s), st, rep)
		case "langid":
			checkLangID(lt, w.ID, st, rep)
		case "direction":
			checkDirection(w.Dir, st, rep)
			checkDirectionConstants(rep)
		case "table":
			checkTables(d, st, rep)
		}
		run.Eval(int(st.evals))
		run.Finish(vrun.Level{Level: "exploration", Rule: "replay"})
	}

	total := newStats()
	var totMu sync.Mutex
	flush := func(st *stats) {
		totMu.Lock()
		total.merge(st)
		totMu.Unlock()
	}

	// (1) the tables themselves
	{
		st := newStats()
		checkTables(d, st, rep)
		flush(st)
	}

	// (2) every code point
	firsts := map[rune]bool{}
	seconds := map[rune]bool{}
	{
		var fsMu sync.Mutex
		vrun.ParallelChunks(nCP, 2048, func(lo, hi, _ int) {
			st := newStats()
			lf, ls := map[rune]bool{}, map[rune]bool{}
			body := func(c rune) {
				checkCP(d, c, st, rep)
				if a, b, ok := ucd.Decompose(c); ok && b != 0 {
					lf[a], ls[b] = true, true
				}
			}
			if pv, _ := vrun.Catch(func() {
				for c := rune(lo); c < rune(hi); c++ {
					body(c)
				}
			}); pv != nil {
				// find the code point(s) that panic, one lookup at a time
				for c := rune(lo); c < rune(hi); c++ {
					totality(c, rep)
				}
			}
			flush(st)
			fsMu.Lock()
			for k := range lf {
				firsts[k] = true
			}
			for k := range ls {
				seconds[k] = true
			}
			fsMu.Unlock()
		})
	}

	// (3) pairs: Compose(a,b)=c => Decompose(c)=(a,b)
	F := sortedRunes(firsts)
	S := sortedRunes(seconds)
	run.Extra("pair_first_parts", len(F))
	run.Extra("pair_second_parts", len(S))
	pairScope := func(name string, as, bs func(i int) rune, na, nb int) {
		vrun.ParallelChunks(na, 0, func(lo, hi, _ int) {
			st := newStats()
			for i := lo; i < hi; i++ {
				a := as(i)
				if pv, where := vrun.Catch(func() {
					for j := 0; j < nb; j++ {
						checkPair(a, bs(j), st, rep)
					}
				}); pv != nil {
					rep("C20/panic/Compose", fmt.Sprintf("panic with first part %U: %v at %s", a, pv, where), Witness{Kind: "pair", A: int32(a)})
				}
			}
			st.cover["pairs:"+name] += int64(hi-lo) * int64(nb)
			flush(st)
		})
	}
	all := func(i int) rune { return rune(i) }
	pairScope("first parts x every code point", func(i int) rune { return F[i] }, all, len(F), nCP)
	pairScope("every code point x second parts", all, func(j int) rune { return S[j] }, nCP, len(S))
	if run.Thorough() {
		// every code point x (every BMP code point, every combining mark: general category M*, ccc != 0, Hangul V/T jamo)
		var bs []rune
		for c := rune(0); c < nCP; c++ {
			if c <= 0xFFFF || unicode.Is(unicode.M, c) || ucd.LookupCombiningClass(c) != 0 {
				bs = append(bs, c)
			}
		}
		run.Extra("pair_thorough_second_parts", len(bs))
		pairScope("every code point x (BMP + all combining marks)", all, func(j int) rune { return bs[j] }, nCP, len(bs))
	}

	// (4) language table
	{
		st := newStats()
		for id := 0; id < len(lt.tags); id++ {
			if pv, where := vrun.Catch(func() { checkLangID(lt, id, st, rep) }); pv != nil {
				rep("C20/panic/language", fmt.Sprintf("panic on LangID %d: %v at %s", id, pv, where), Witness{Kind: "langid", ID: id})
			}
		}
		descents := 0
		for i := 2; i < len(lt.tags); i++ {
			if lt.tags[i] <= lt.tags[i-1] {
				descents++
			}
		}
		if descents > 1 {
			rep("C20/langtable-order", fmt.Sprintf("the language table is not made of two ascending segments (%d descents)", descents), Witness{Kind: "langid"})
		}
		st.cover["langtable:entries"] += int64(len(lt.tags) - 1)
		// derived tags of every entry
		for id := 1; id < len(lt.tags); id++ {
			t := string(lt.tags[id])
			for _, suf := range []string{"", "-xx", "-zz-yy", "-x-priv", "-a", "a", "-", "-0"} {
				checkDerived(lt, language.Language(t+suf), st, rep)
			}
			if p := lt.tags[id].Primary(); p != lt.tags[id] {
				checkDerived(lt, p, st, rep)
				checkDerived(lt, p+"-qq", st, rep)
			}
			if len(t) > 1 {
				checkDerived(lt, language.Language(t[:len(t)-1]), st, rep)
			}
		}
		for _, t := range []string{"", "-", "--", "a", "zzz", "zzz-zz", "und", "und-xx", "x-priv", "-fr", "fr-", "fr--be"} {
			checkDerived(lt, language.Language(t), st, rep)
		}
		flush(st)
	}

	// (5) tag strings: exhaustive small scopes + generated
	{
		// every single code point as a one-rune string, every byte string of length <= 2
		vrun.ParallelChunks(nCP, 4096, func(lo, hi, _ int) {
			st := newStats()
			for c := lo; c < hi; c++ {
				s := string(rune(c))
				if pv, where := vrun.Catch(func() { checkTag(s, st, rep) }); pv != nil {
					rep("C20/panic/language", fmt.Sprintf("panic on tag %q: %v at %s", s, pv, where), tagWitness(s))
				}
			}
			st.cover["tags:single code point (exhaustive)"] += int64(hi - lo)
			flush(st)
		})
		vrun.ParallelChunks(256, 1, func(lo, hi, _ int) {
			st := newStats()
			for a := lo; a < hi; a++ {
				if pv, where := vrun.Catch(func() {
					checkTag(string([]byte{byte(a)}), st, rep)
					for b := 0; b < 256; b++ {
						checkTag(string([]byte{byte(a), byte(b)}), st, rep)
					}
				}); pv != nil {
					rep("C20/panic/language", fmt.Sprintf("panic on a tag starting with byte %#x: %v at %s", a, pv, where), tagWitness(string([]byte{byte(a)})))
				}
			}
			st.cover["tags:byte strings of length<=2 (exhaustive)"] += int64(hi-lo) * 257
			flush(st)
		})
		{
			st := newStats()
			checkTag("", st, rep)
			flush(st)
		}
		n := run.Pick(1000000, 4000000)
		vrun.ParallelChunks(n, 0, func(lo, hi, _ int) {
			st := newStats()
			for i := lo; i < hi; i++ {
				r := gen.New(run.Seed, "C20/tag", i)
				s := genTag(r, lt)
				if pv, where := vrun.Catch(func() {
					checkTag(s, st, rep)
					checkDerived(lt, language.NewLanguage(s), st, rep)
				}); pv != nil {
					rep("C20/panic/language", fmt.Sprintf("panic on tag %q: %v at %s", s, pv, where), tagWitness(s))
				}
				if i < 3 {
					run.Sample(map[string]any{"tag": s, "canonical": string(language.NewLanguage(s))})
				}
			}
			st.cover["tags:generated"] += int64(hi - lo)
			flush(st)
		})
	}

	// (6) direction: all 256 byte values
	{
		st := newStats()
		checkDirectionConstants(rep)
		for v := 0; v < 256; v++ {
			checkDirection(v, st, rep)
		}
		flush(st)
	}

	// evidence
	run.Eval(int(total.evals))
	for k, v := range total.cover {
		run.CoverN(k, v)
	}
	for _, h := range total.nontriv {
		run.Nontrivial(h)
	}
	hist := map[string]any{}
	for p, m := range total.hist {
		hist[p+"_classes_returned"] = len(m)
		if p != "script" && p != "combining_class" {
			hist[p] = m
		}
	}
	run.Extra("lookup_histograms", hist)
	run.Extra("language_table_entries", len(lt.tags)-1)
	run.Extra("reference_unicode_version", map[string]string{"go unicode": unicode.Version, "x/text norm": norm.Version})
	run.Sample(map[string]any{"cp": "U+00E9", "decompose": fmt.Sprint(ucd.Decompose(0xE9)), "script": language.LookupScript(0xE9).String(), "ccc": ucd.LookupCombiningClass(0xE9)})
	run.Sample(map[string]any{"cp": "U+0F43", "decompose": fmt.Sprint(ucd.Decompose(0x0F43)), "exclusion": isExclusion(0x0F43)})
	run.Sample(map[string]any{"cp": "U+0028", "mirror": fmt.Sprint(ucd.LookupMirrorChar('('))})
	run.Sample(map[string]any{"langid": int(language.LangFr), "tag": string(language.LangFr.Language())})

	run.Finish(vrun.Level{
		Level: "exploration",
		Rule: "exhaustive: all 0x110000 code points x {script, general category, line/grapheme/word class, combining class, mirror, decompose/compose}; " +
			"every class table (well-formed, unicode.Is == linear scan on all code points); pairs (first parts x all code points, all code points x second parts" +
			map[bool]string{true: ", all code points x (BMP + all combining marks)", false: ""}[run.Thorough()] + "); every language table entry; all 256 Direction bytes; " +
			"every 1-rune and <=2-byte tag string. generated: " + fmt.Sprint(run.Pick(1000000, 4000000)) + " tag strings. " +
			"non-trivial = a code point with at least one non-default lookup result, a pair that composes, a table entry that round-trips, a tag that canonicalisation changes, a tag mapped to its primary, a Direction byte; distinct by hash",
		Assumptions: []string{
			"composition exclusions and 'canonical' are taken from golang.org/x/text/unicode/norm (Unicode " + norm.Version + ") for code points assigned in that version; others are counted as inconclusive",
			"the table LookupType consults is unicode.Categories of the Go toolchain (two-letter keys); unicodedata's own category tables are only compared as skew",
			"NewLanguage canonical form as documented (lower case, '_' to '-', strip the rest); '@' may map to '-' or be stripped",
			"NewLangID on tags that are not table entries is judged against its documentation (exact entry, else primary subtag's entry, else unknown)",
		},
		Floor: 250000,
	})
}

// totality re-runs each lookup on c separately to attribute a panic.
func totality(c rune, rep reporter) {
	w := Witness{Kind: "codepoint", CP: int32(c)}
	fns := []struct {
		name string
		f    func()
	}{
		{"LookupScript", func() { language.LookupScript(c) }},
		{"LookupType", func() { ucd.LookupType(c) }},
		{"LookupLineBreakClass", func() { ucd.LookupLineBreakClass(c) }},
		{"LookupGraphemeBreakClass", func() { ucd.LookupGraphemeBreakClass(c) }},
		{"LookupWordBreakClass", func() { ucd.LookupWordBreakClass(c) }},
		{"LookupCombiningClass", func() { ucd.LookupCombiningClass(c) }},
		{"LookupMirrorChar", func() { ucd.LookupMirrorChar(c) }},
		{"Decompose", func() {
			a, b, _ := ucd.Decompose(c)
			ucd.Compose(a, b)
		}},
	}
	for _, fn := range fns {
		if pv, where := vrun.Catch(fn.f); pv != nil {
			rep("C20/panic/"+fn.name, fmt.Sprintf("%s(%U) panicked: %v at %s", fn.name, c, pv, where), w)
		}
	}
}

func sortedRunes(m map[rune]bool) []rune {
	out := make([]rune, 0, len(m))
	for k := range m {
		out = append(out, k)
	}
	sort.Slice(out, func(i, j int) bool { return out[i] < out[j] })
	return out
}
