package wrap

import (
	"bytes"
	"math"
	"sync"

	"github.com/go-text/typesetting/di"
	"github.com/go-text/typesetting/font"
	"github.com/go-text/typesetting/shaping"
	"golang.org/x/image/math/fixed"

	"verifharness/internal/corpus"
	"verifharness/internal/gen"
	refbidi "verifharness/internal/ref/bidi"
)

// alphabet of the synthetic paragraphs (line-break classes in comments)
var alphabet = []rune{
	'a', 'b', // AL
	' ',    // SP
	' ',    // GL
	'-',    // HY
	'\n',   // LF
	' ',    // BK
	'中',    // ID
	'́',    // CM
	'‍',    // ZWJ
	'1',    // NU
	',',    // IS
	'א',    // HL
	0x85,   // NL (mandatory)
	0x0B,   // BK (VT)
	'\r',   // CR
	0x2029, // BK (PS)
}

var smallAlphabet = []rune{'a', ' ', '-', '\n', '́', '中'}

func isSpaceRune(r rune) bool {
	return r == ' ' || r == ' ' || r == '\n' || r == ' '
}

// structure describes how a text is shaped into clusters and runs.
type structure struct {
	clusterCut []bool // len(text)-1: true = cluster boundary after rune i
	runCut     []bool // per cluster boundary (same indexing): true = run boundary (only where clusterCut)
	levels     []int  // one per run
	twoGlyphs  []bool // per cluster (in order): cluster has two glyphs
	advPick    []int  // per glyph: index into advances
	vertical   bool
}

var advances = []int{640, 320, 480, 0, 33, 1000}

// build converts a text + structure into RunSpecs satisfying C01's laws.
func build(text []rune, st structure) []RunSpec {
	n := len(text)
	type cl struct{ start, runes int }
	var clusters []cl
	start := 0
	for i := 0; i < n; i++ {
		if i == n-1 || st.clusterCut[i] {
			clusters = append(clusters, cl{start, i + 1 - start})
			start = i + 1
		}
	}
	var runs []RunSpec
	cur := RunSpec{Offset: 0, Vertical: st.vertical}
	gcount := 0
	runIdx := 0
	level := func() int {
		if runIdx < len(st.levels) {
			return st.levels[runIdx]
		}
		return 0
	}
	flush := func(end int) {
		cur.Count = end - cur.Offset
		cur.Level = level()
		if cur.Level%2 == 1 {
			// visual order: clusters reversed, glyph order inside a cluster kept
			var rev []GlyphSpec
			i := len(cur.Glyphs)
			for i > 0 {
				j := i - 1
				for j > 0 && cur.Glyphs[j-1].Cluster == cur.Glyphs[i-1].Cluster {
					j--
				}
				rev = append(rev, cur.Glyphs[j:i]...)
				i = j
			}
			cur.Glyphs = rev
		}
		runs = append(runs, cur)
		runIdx++
		cur = RunSpec{Offset: end, Vertical: st.vertical}
	}
	for ci, c := range clusters {
		ng := 1
		if ci < len(st.twoGlyphs) && st.twoGlyphs[ci] {
			ng = 2
		}
		for k := 0; k < ng; k++ {
			adv := 640
			if gcount < len(st.advPick) {
				adv = advances[st.advPick[gcount]%len(advances)]
			}
			ext := adv
			if ext == 0 {
				ext = 100
			}
			r := text[c.start]
			if c.runes == 1 && ng == 1 && isSpaceRune(r) {
				ext = 0
				if adv == 0 {
					adv = 320
				}
			}
			if r == '́' && c.runes == 1 {
				adv = 0
			}
			cur.Glyphs = append(cur.Glyphs, GlyphSpec{ID: uint32(100 + gcount), Cluster: c.start, Runes: c.runes, Glyphs: ng, Adv: adv, Ext: ext})
			gcount++
		}
		end := c.start + c.runes
		if end == n {
			flush(end)
		} else if st.runCut[end-1] {
			flush(end)
		}
	}
	return runs
}

// totalPx returns the ceiling of the total advance in pixels.
func totalPx(runs []RunSpec) int {
	t := 0
	for _, r := range runs {
		for _, g := range r.Glyphs {
			t += g.Adv
		}
	}
	return (t + 63) / 64
}

// randomStructure draws a cluster/run structure.
func randomStructure(r *gen.RNG, n int, paraRTL bool, maxRuns int) structure {
	st := structure{clusterCut: make([]bool, n), runCut: make([]bool, n)}
	nruns := 1
	for i := 0; i < n-1; i++ {
		st.clusterCut[i] = !r.Chance(1, 5)
		if st.clusterCut[i] && nruns < maxRuns && r.Chance(1, 4) {
			st.runCut[i] = true
			nruns++
		}
	}
	base := 0
	if paraRTL {
		base = 1
	}
	mode := r.Intn(4)
	for i := 0; i < nruns; i++ {
		switch mode {
		case 0:
			st.levels = append(st.levels, base)
		case 1:
			st.levels = append(st.levels, base+r.Intn(2))
		default:
			st.levels = append(st.levels, base+r.Intn(4))
		}
	}
	for i := 0; i < n; i++ {
		st.twoGlyphs = append(st.twoGlyphs, r.Chance(1, 6))
	}
	uniform := r.Chance(1, 2)
	for i := 0; i < 2*n; i++ {
		if uniform {
			st.advPick = append(st.advPick, 0)
		} else {
			st.advPick = append(st.advPick, r.Intn(len(advances)))
		}
	}
	return st
}

func randomConfig(r *gen.RNG, c *Case, total int) {
	c.Policy = r.Intn(3)
	if r.Chance(1, 2) {
		c.TruncateAfter = r.Intn(4)
	}
	c.TextContinues = r.Chance(1, 3)
	c.DisableTrim = r.Chance(1, 4)
	switch r.Intn(4) {
	case 0:
		c.TruncGlyphs = 0
	case 1:
		c.TruncGlyphs, c.TruncAdv = 1, 640
	case 2:
		c.TruncGlyphs, c.TruncAdv = 3, 900
	default:
		c.TruncGlyphs, c.TruncAdv = 1, (total+2)*64 // wider than any line
	}
	c.Iterative = r.Chance(1, 2)
	c.SliceIter = r.Chance(1, 4)
	nw := 1
	if c.Iterative && r.Chance(1, 2) {
		nw = 1 + r.Intn(4)
	}
	for i := 0; i < nw; i++ {
		switch r.Intn(7) {
		case 0:
			c.Widths = append(c.Widths, 0)
		case 1:
			c.Widths = append(c.Widths, total+1)
		case 2:
			// "do not wrap" widths, beyond what a 26.6 fixed-point number holds
			c.Widths = append(c.Widths, gen.Pick(r, []int{1 << 25, 1<<25 - 1, 1 << 26, math.MaxInt32, math.MaxInt32 + 1, math.MaxInt}))
		default:
			c.Widths = append(c.Widths, r.Intn(total+2))
		}
	}
	if r.Chance(1, 5) {
		c.WordSp = gen.Pick(r, []int{-128, 64, 256})
	}
	if r.Chance(1, 4) {
		c.LetterSp = gen.Pick(r, []int{-128, 64, 128, 256})
	}
	if r.Chance(1, 6) {
		// runs that were wrapped before (laid out again for another width)
		c.StaleVisual = 1 + r.Intn(7)
	}
}

// RandomCase draws one synthetic case.
func RandomCase(r *gen.RNG, maxLen int) *Case {
	n := 1 + r.Intn(maxLen)
	c := &Case{Origin: "synthetic-random"}
	ab := alphabet
	if r.Chance(1, 3) {
		ab = smallAlphabet
	}
	for i := 0; i < n; i++ {
		if r.Chance(2, 5) {
			c.Text = append(c.Text, 'a')
		} else {
			c.Text = append(c.Text, gen.Pick(r, ab))
		}
	}
	c.ParaRTL = r.Chance(1, 3)
	st := randomStructure(r, n, c.ParaRTL, 5)
	if r.Chance(1, 12) {
		st.vertical = true
		c.ParaVer = true
		if r.Bool() {
			// orientation flags, as Segmenter.Split sets them on the runs (and an application
			// may or may not set them on the paragraph direction)
			c.RunOrient = uint8(1 + r.Intn(3))
			c.ParaOrient = uint8(r.Intn(3))
		}
	}
	c.Runs = build(c.Text, st)
	randomConfig(r, c, totalPx(c.Runs))
	return c
}

// LargeCase draws a long paragraph cut into many runs (more than the wrapper's
// internal 100-entry line buffer), so that lines hold several runs each.
func LargeCase(r *gen.RNG) *Case {
	n := 120 + r.Intn(280)
	c := &Case{Origin: "synthetic-large"}
	for i := 0; i < n; i++ {
		switch r.Intn(7) {
		case 0, 1:
			c.Text = append(c.Text, ' ')
		case 2:
			c.Text = append(c.Text, gen.Pick(r, alphabet))
		default:
			c.Text = append(c.Text, 'a')
		}
	}
	c.ParaRTL = r.Chance(1, 4)
	st := structure{clusterCut: make([]bool, n), runCut: make([]bool, n)}
	base := 0
	if c.ParaRTL {
		base = 1
	}
	nruns := 1
	for i := 0; i < n-1; i++ {
		st.clusterCut[i] = !r.Chance(1, 8)
		if st.clusterCut[i] && r.Chance(1, 2) {
			st.runCut[i] = true
			nruns++
		}
	}
	mixed := r.Chance(1, 3)
	for i := 0; i < nruns; i++ {
		if mixed {
			st.levels = append(st.levels, base+r.Intn(2))
		} else {
			st.levels = append(st.levels, base)
		}
	}
	for i := 0; i < n; i++ {
		st.twoGlyphs = append(st.twoGlyphs, r.Chance(1, 10))
	}
	c.Runs = build(c.Text, st)
	total := totalPx(c.Runs)
	randomConfig(r, c, total)
	// widths giving 5..40 lines
	c.Widths = []int{total/(5+r.Intn(36)) + 1}
	if r.Chance(3, 4) {
		c.TruncateAfter = 0
	}
	return c
}

// EnumSmall enumerates the exhaustive small scope for one text: every cluster
// partition, every run split on cluster boundaries, direction patterns, every
// width 0..total+1, the three policies and truncation settings. emit is called
// for each case (the Case value is reused: copy if kept).
func EnumSmall(text []rune, full bool, emit func(c *Case)) {
	n := len(text)
	for cm := 0; cm < 1<<(n-1); cm++ {
		st := structure{clusterCut: make([]bool, n), runCut: make([]bool, n)}
		var cuts []int
		for i := 0; i < n-1; i++ {
			if cm>>i&1 == 1 {
				st.clusterCut[i] = true
				cuts = append(cuts, i)
			}
		}
		for rm := 0; rm < 1<<len(cuts); rm++ {
			for i := range st.runCut {
				st.runCut[i] = false
			}
			nruns := 1
			for k, ci := range cuts {
				if rm>>k&1 == 1 {
					st.runCut[ci] = true
					nruns++
				}
			}
			// direction patterns: all LTR; alternating starting RTL; (full) all parities for <=3 runs
			var patterns [][]int
			patterns = append(patterns, make([]int, nruns))
			alt := make([]int, nruns)
			for i := range alt {
				alt[i] = (i + 1) % 2
			}
			patterns = append(patterns, alt)
			if full && nruns >= 2 && nruns <= 3 {
				for pm := 1; pm < 1<<nruns; pm++ {
					p := make([]int, nruns)
					for i := range p {
						p[i] = pm >> i & 1
					}
					patterns = append(patterns, p)
				}
			}
			for pi, pat := range patterns {
				for paraRTL := 0; paraRTL < 2; paraRTL++ {
					if paraRTL == 1 && pi == 0 && !full {
						continue
					}
					st.levels = make([]int, nruns)
					for i := range pat {
						// parity pattern relative to nothing: level = parity (+2 if below base)
						st.levels[i] = pat[i]
						if paraRTL == 1 && pat[i] == 0 {
							st.levels[i] = 2
						}
					}
					runs := build(text, st)
					total := totalPx(runs)
					for pol := 0; pol < 3; pol++ {
						for tr := 0; tr <= 2; tr++ {
							for w := 0; w <= total+1; w++ {
								c := &Case{Text: text, Runs: runs, ParaRTL: paraRTL == 1, Policy: pol, TruncateAfter: tr,
									Widths: []int{w}, Origin: "synthetic-exhaustive"}
								if tr > 0 {
									c.TruncGlyphs, c.TruncAdv = 1, 320
									c.TextContinues = (w+cm+rm)%3 == 0
								}
								c.Iterative = (w+pol+tr+cm)%2 == 0
								c.SliceIter = (w+rm)%5 == 0
								c.DisableTrim = (w+pol+rm)%7 == 0
								emit(c)
							}
						}
					}
				}
			}
		}
	}
}

// ---------------------------------------------------------------- real paragraphs

type realFonts struct {
	faces []*font.Face
	names []string
}

var (
	realOnce sync.Once
	real     realFonts
)

var realFontIDs = []string{
	"ot/common/DejaVuSans.ttf",
	"hb/perf_reference/fonts/Amiri-Regular.ttf",
	"hb/perf_reference/fonts/NotoSansDevanagari-Regular.ttf",
	"ot/common/mplus-1p-regular.ttf",
	"ot/common/FreeSerif.ttf",
	"hb/perf_reference/fonts/Roboto-Regular.ttf",
}

func loadReal() {
	realOnce.Do(func() {
		for _, id := range realFontIDs {
			f := corpus.ByID(id)
			if f == nil {
				continue
			}
			fc, err := font.ParseTTF(bytes.NewReader(f.Bytes()))
			if err != nil {
				continue
			}
			real.faces = append(real.faces, fc)
			real.names = append(real.names, id)
		}
	})
}

type realMap struct{ prefer int }

func (m realMap) ResolveFace(r rune) *font.Face {
	if _, ok := real.faces[m.prefer].NominalGlyph(r); ok {
		return real.faces[m.prefer]
	}
	for _, f := range real.faces {
		if _, ok := f.NominalGlyph(r); ok {
			return f
		}
	}
	return real.faces[0]
}

var words = [][]string{
	{"the", "quick", "brown", "fox", "jumps", "over", "a", "lazy", "dog", "office", "fi", "ffl", "re-use", "état", "3.14", "1,000", "well-known", "AVATAR", "Typesetting"},
	{"مرحبا", "بالعالم", "السلام", "عليكم", "لا", "الله", "كتاب", "مَدْرَسَة", "١٢٣"},
	{"שלום", "עולם", "סֵפֶר", "ירושלים"},
	{"नमस्ते", "दुनिया", "क्षत्रिय", "हिन्दी", "श्री"},
	{"日本語", "中文", "テキスト", "한국어"},
	{" ", " ", " ", "  ", "\n", " ", ", ", ". ", " - ", " ", "(", ")", "!", "‍", "­"},
}

// RealCase shapes a generated multi-script paragraph with corpus fonts.
func RealCase(r *gen.RNG) *Case {
	loadReal()
	if len(real.faces) == 0 {
		return nil
	}
	var text []rune
	nw := 2 + r.Intn(9)
	mix := r.Intn(4)
	for i := 0; i < nw; i++ {
		var lst []string
		switch {
		case mix == 0:
			lst = words[0]
		case mix == 1:
			lst = words[r.Intn(2)]
		default:
			lst = words[r.Intn(5)]
		}
		text = append(text, []rune(gen.Pick(r, lst))...)
		if i != nw-1 {
			text = append(text, []rune(gen.Pick(r, words[5]))...)
		}
	}
	c := &Case{Origin: "real-shaped", Text: text, ParaRTL: r.Chance(1, 3)}
	dir := di.DirectionLTR
	if c.ParaRTL {
		dir = di.DirectionRTL
	}
	var seg shaping.Segmenter
	size := fixed.I(gen.Pick(r, []int{10, 16, 24}))
	ins := seg.Split(shaping.Input{Text: text, RunStart: 0, RunEnd: len(text), Direction: dir, Size: size}, realMap{prefer: r.Intn(len(real.faces))})
	var sh shaping.HarfbuzzShaper
	for _, in := range ins {
		out := sh.Shape(in)
		rs := RunSpec{Offset: out.Runes.Offset, Count: out.Runes.Count}
		if out.Direction.Progression() == di.TowardTopLeft {
			rs.Level = 1
		} else if c.ParaRTL {
			rs.Level = 2
		}
		for _, g := range out.Glyphs {
			rs.Glyphs = append(rs.Glyphs, GlyphSpec{ID: uint32(g.GlyphID), Cluster: g.ClusterIndex, Runes: g.RuneCount, Glyphs: g.GlyphCount,
				Adv: int(g.XAdvance), Ext: int(g.Width), Off: int(g.XOffset)})
		}
		if len(rs.Glyphs) == 0 {
			return nil // a run without glyphs cannot be cut; not in C02's input space (C01 allows it only for ignorables)
		}
		c.Runs = append(c.Runs, rs)
	}
	c.LevelsFromDirection = true
	upgradeLevels(c)
	randomConfig(r, c, totalPx(c.Runs))
	return c
}

// upgradeLevels replaces the direction-derived run levels of a real paragraph by
// the reference UBA levels (x/text core, with x/text's own bracket preparation so
// that they describe the runs the library produced) when every run is uniform.
func upgradeLevels(c *Case) {
	for _, r := range c.Text {
		if p, _ := refbidi.LookupRune(r); p.Class() == refbidi.B {
			return // several paragraphs: one wrap direction cannot describe them
		}
	}
	paraRTL := c.ParaRTL
	if !paraRTL {
		// x/text: default LTR means first strong character (rules P2/P3)
		iso := 0
	scan:
		for _, r := range c.Text {
			p, _ := refbidi.LookupRune(r)
			switch p.Class() {
			case refbidi.LRI, refbidi.RLI, refbidi.FSI:
				iso++
			case refbidi.PDI:
				if iso > 0 {
					iso--
				}
			case refbidi.L:
				if iso == 0 {
					break scan
				}
			case refbidi.R, refbidi.AL:
				if iso == 0 {
					paraRTL = true
					break scan
				}
			}
		}
	}
	para := refbidi.ForceLTR
	if paraRTL {
		para = refbidi.ForceRTL
	}
	lv := refbidi.Levels(c.Text, para, false)
	if len(lv) != len(c.Text) {
		return
	}
	levels := make([]int, len(c.Runs))
	for i, rs := range c.Runs {
		l := int(lv[rs.Offset])
		for k := rs.Offset; k < rs.Offset+rs.Count; k++ {
			if int(lv[k]) != l {
				return
			}
		}
		if l%2 != rs.Level%2 {
			return // direction disagrees with the reference: C07's business
		}
		levels[i] = l
	}
	for i := range c.Runs {
		c.Runs[i].Level = levels[i]
	}
	c.ParaRTL = paraRTL
	c.LevelsFromDirection = false
}
