package wrap

import (
	"fmt"
	"os"
	"strings"
	"sync"
	"sync/atomic"
	"time"

	"verifharness/internal/gen"
	"verifharness/internal/vrun"
)

// judge applies the monitor of one property to an executed case.
func judge(prop string, c *Case, res *Result) (fs []Finding, knownDeep int) {
	if c.Glyphless {
		// totality only, and only under C02
		if prop != "C02" {
			return nil, 0
		}
		if res.Panic != nil {
			return []Finding{{"C02/panic/" + vrun.TopFrame(res.Where), fmt.Sprintf("wrapping a paragraph holding a run without glyphs panicked: %v at %s", res.Panic, res.Where)}}, 0
		}
		if res.Aborted {
			return []Finding{{"C02/non-termination", "wrapping a paragraph holding a run without glyphs does not terminate (logical step bound)"}}, 0
		}
		return nil, 0
	}
	switch prop {
	case "C02":
		return JudgeC02(c, res), 0
	case "C03":
		return JudgeC03(c, res), 0
	case "C04":
		return JudgeC04(c, res), 0
	case "C08":
		return JudgeC08(c, res)
	}
	return nil, 0
}

type workerSlot struct {
	mu    sync.Mutex
	c     *Case
	since time.Time
}

// Main runs the wrap workload under the monitor of property prop.
func Main(prop string) {
	run := vrun.Start(prop)
	var maxRatio atomic.Int64

	handle := func(c *Case) {
		res := c.Execute()
		run.Eval(1)
		if res.Calls > 0 {
			ratio := int64(res.Calls * 100 / (len(c.Text) + len(c.Runs) + 4))
			for {
				old := maxRatio.Load()
				if ratio <= old || maxRatio.CompareAndSwap(old, ratio) {
					break
				}
			}
		}
		fs, deep := judge(prop, c, &res)
		_ = deep
		classify(run, prop, c, &res)
		seen := map[string]bool{}
		for _, f := range fs {
			if seen[f.Key] {
				continue
			}
			seen[f.Key] = true
			run.Violation(f.Key, f.Msg, c)
		}
	}

	if run.Replay != "" {
		var c Case
		if _, err := vrun.ReadReplay(run.Replay, &c); err != nil {
			fmt.Println("replay:", err)
			os.Exit(2)
		}
		Describe(&c)
		handle(&c)
		run.Finish(vrun.Level{Level: "exploration", Rule: "replay of one witness"})
	}

	// stall watchdog: wall clock never decides; a stalled case is re-run under the
	// logical step counter, which does.
	slots := make([]workerSlot, 64)
	go func() {
		for {
			time.Sleep(5 * time.Second)
			for i := range slots {
				s := &slots[i]
				s.mu.Lock()
				c, since := s.c, s.since
				s.mu.Unlock()
				if c != nil && time.Since(since) > 90*time.Second {
					cc := *c
					cc.SliceIter = false
					res := cc.Execute()
					if res.Aborted {
						run.Violation("C02/non-termination", "wrapper does not terminate (stalled with the slice iterator; confirmed by the logical step bound)", c)
					} else {
						run.Inconclusive("wall-clock stall not confirmed by the step counter")
					}
					run.Finish(vrun.Level{Level: "exploration", Rule: "aborted after a stall"})
				}
			}
		}
	}()
	guarded := func(worker int, c *Case) {
		s := &slots[worker%len(slots)]
		s.mu.Lock()
		s.c, s.since = c, time.Now()
		s.mu.Unlock()
		handle(c)
		s.mu.Lock()
		s.c = nil
		s.mu.Unlock()
	}

	// (1) exhaustive small scope
	var texts [][]rune
	maxLen := run.Pick(3, 4)
	var rec func(cur []rune)
	rec = func(cur []rune) {
		if len(cur) > 0 {
			texts = append(texts, append([]rune(nil), cur...))
		}
		if len(cur) == maxLen {
			return
		}
		for _, r := range smallAlphabet {
			rec(append(cur, r))
		}
	}
	rec(nil)
	if !run.Thorough() {
		// sampled length-4 texts
		for i := 0; i < 150; i++ {
			r := gen.New(run.Seed, "wrap/len4", i)
			t := make([]rune, 4)
			for k := range t {
				t[k] = gen.Pick(r, smallAlphabet)
			}
			texts = append(texts, t)
		}
	}
	var exh atomic.Int64
	vrun.ParallelChunks(len(texts), 1, func(lo, hi, worker int) {
		for i := lo; i < hi; i++ {
			EnumSmall(texts[i], run.Thorough(), func(c *Case) {
				exh.Add(1)
				guarded(worker, c)
			})
		}
	})
	// the empty paragraph (no rune, no run) under every configuration
	for v := 0; v < 2*3*3*2*2*2; v++ {
		k := v
		rtl, k := k%2 == 1, k/2
		pol, k := k%3, k/3
		tr, k := k%3, k/3
		cont, k := k%2 == 1, k/2
		iter, k := k%2 == 1, k/2
		c := &Case{ParaRTL: rtl, Policy: pol, TruncateAfter: tr, TextContinues: cont, Iterative: iter, Widths: []int{[]int{0, 50}[k%2]}, Origin: "synthetic-empty-paragraph"}
		if tr > 0 {
			c.TruncGlyphs, c.TruncAdv = 1, 320
		}
		exh.Add(1)
		guarded(0, c)
	}
	run.Extra("exhaustive_small_scope_cases", exh.Load())
	run.Extra("exhaustive_small_scope_texts", len(texts))

	// (2) sampled larger synthetic
	nRand := run.Pick(300000, 6000000)
	vrun.ParallelChunks(nRand, 0, func(lo, hi, worker int) {
		for i := lo; i < hi; i++ {
			r := gen.New(run.Seed, "wrap/random", i)
			ml := 8
			if i%3 == 0 {
				ml = 24
			}
			guarded(worker, RandomCase(r, ml))
		}
	})

	// (2a) paragraphs where one run lost all its glyphs: totality only
	nGl := run.Pick(30000, 300000)
	vrun.ParallelChunks(nGl, 0, func(lo, hi, worker int) {
		for i := lo; i < hi; i++ {
			r := gen.New(run.Seed, "wrap/glyphless", i)
			c := RandomCase(r, 8)
			if c == nil || len(c.Runs) == 0 {
				continue
			}
			c.Runs[r.Intn(len(c.Runs))].Glyphs = nil
			if r.Chance(1, 4) {
				c.Runs[r.Intn(len(c.Runs))].Glyphs = nil
			}
			c.Glyphless = true
			c.Origin = "synthetic-glyphless-run"
			guarded(worker, c)
		}
	})

	// (2b) long paragraphs cut into more than 100 runs
	nLarge := run.Pick(3000, 60000)
	vrun.ParallelChunks(nLarge, 0, func(lo, hi, worker int) {
		for i := lo; i < hi; i++ {
			guarded(worker, LargeCase(gen.New(run.Seed, "wrap/large", i)))
		}
	})

	// (3) real shaped paragraphs
	nReal := run.Pick(6000, 200000)
	vrun.ParallelChunks(nReal, 0, func(lo, hi, worker int) {
		for i := lo; i < hi; i++ {
			r := gen.New(run.Seed, "wrap/real", i)
			var c *Case
			if pv, _ := vrun.Catch(func() { c = RealCase(r) }); pv != nil {
				run.Inconclusive("shaping panicked while preparing a real paragraph (C01)")
				continue
			}
			if c == nil {
				run.Inconclusive("real paragraph with a glyph-less run (outside the input space)")
				continue
			}
			guarded(worker, c)
		}
	})

	run.Extra("max_iterator_calls_per_(runes+runs+4)_x100", maxRatio.Load())
	run.Finish(vrun.Level{
		Level: "exploration",
		Rule: "cases: (1) exhaustive small scope: every text of length<=" + fmt.Sprint(maxLen) + " over {a,SP,HY,LF,CM,ID} x every cluster partition x every run split x direction patterns x both paragraph directions x every width 0..total+1 x 3 policies x TruncateAfterLines 0..2; " +
			"(2) random synthetic paragraphs (length<=24 plus long ones of 120-400 runes cut into up to 200 runs, 13-letter alphabet, multi-glyph / multi-rune clusters, levels up to base+3, spacing, varying per-line widths, truncators, both iterators); (3) real multi-script paragraphs itemised by shaping.Segmenter and shaped by HarfbuzzShaper with corpus fonts. " +
			nontrivialRule(prop) + " distinct by hash of (text, run structure, config, widths)",
		Assumptions: []string{
			"break opportunities are those reported by segmenter.Segmenter (subject of C06)",
			"input runs satisfy C01's laws by construction",
			"the truncator is recognised by a Size marker, never guessed",
			"mutation of the caller's input runs by the wrapper is recorded (class input-mutated) but not judged",
		},
		Floor: 20000,
	})
}

func nontrivialRule(prop string) string {
	switch prop {
	case "C02":
		return "non-trivial = >=2 lines, or a cut inside an input run, or a multi-glyph/multi-rune cluster, or mixed directions;"
	case "C03":
		return "non-trivial = some line ends before the paragraph end;"
	case "C04":
		return "non-trivial = some line ends before the paragraph end, or a truncator was appended;"
	case "C08":
		return "non-trivial = some line holds >=2 runs of different levels, or a whitespace glyph sits at a line end;"
	}
	return ""
}

func hashCase(c *Case) uint64 {
	var sb strings.Builder
	for _, r := range c.Runs {
		fmt.Fprintf(&sb, "%d,%d,%d|", r.Offset, r.Count, r.Level)
		for _, g := range r.Glyphs {
			fmt.Fprintf(&sb, "%d:%d:%d:%d;", g.Cluster, g.Runes, g.Adv, g.Ext)
		}
	}
	return vrun.Hash64(c.Text, sb.String(), c.ParaRTL, c.Policy, c.TruncateAfter, c.TextContinues, c.DisableTrim, c.TruncGlyphs, c.TruncAdv, fmt.Sprint(c.Widths), c.Iterative, c.SliceIter, c.WordSp, c.LetterSp)
}

// classify records coverage classes and the non-triviality of a case.
func classify(run *vrun.Run, prop string, c *Case, res *Result) {
	if res.Panic != nil || res.Aborted {
		return
	}
	nlines := 0
	earlyEnd, hasTrunc, cutInside, mixed, multi, wsEnd, multiLevelLine := false, false, false, false, false, false, false
	n := len(c.Text)
	for _, lo := range res.Lines {
		if len(lo.Runs) == 0 {
			continue
		}
		nlines++
		lv := map[int]bool{}
		for _, r := range lo.Runs {
			if isTruncator(r) {
				hasTrunc = true
				continue
			}
			if r.Runes.Offset+r.Runes.Count < n {
				earlyEnd = true
			}
			for _, ir := range res.Input {
				if ir.Runes.Offset <= r.Runes.Offset && r.Runes.Offset < ir.Runes.Offset+ir.Runes.Count {
					if r.Runes != ir.Runes {
						cutInside = true
					}
				}
			}
			if r.Runes.Offset >= 0 && r.Runes.Offset < n {
				for i, rs := range c.Runs {
					if rs.Offset <= r.Runes.Offset && r.Runes.Offset < rs.Offset+rs.Count {
						lv[c.Runs[i].Level] = true
					}
				}
			}
			if len(r.Glyphs) > 0 {
				for _, g := range []int{0, len(r.Glyphs) - 1} {
					if axisExt(r.Direction, r.Glyphs[g]) == 0 {
						wsEnd = true
					}
				}
			}
		}
		if len(lv) > 1 {
			multiLevelLine = true
		}
	}
	dirs := map[int]bool{}
	for _, r := range c.Runs {
		dirs[r.Level%2] = true
		for _, g := range r.Glyphs {
			if g.Runes > 1 || g.Glyphs > 1 {
				multi = true
			}
		}
	}
	mixed = len(dirs) > 1
	nt := false
	switch prop {
	case "C02":
		nt = nlines >= 2 || cutInside || multi || mixed
	case "C03":
		nt = earlyEnd
	case "C04":
		nt = earlyEnd || hasTrunc
	case "C08":
		nt = multiLevelLine || wsEnd
	}
	if nt {
		run.Nontrivial(hashCase(c))
	}
	run.Cover("origin=" + c.Origin)
	if c.Origin == "real-shaped" {
		if c.LevelsFromDirection {
			run.Cover("real: levels from run directions only")
		} else {
			run.Cover("real: reference UBA levels")
			for _, r := range c.Runs {
				b := 0
				if c.ParaRTL {
					b = 1
				}
				if r.Level >= b+2 {
					run.Cover("real: run at level >= base+2")
					break
				}
			}
		}
	}
	run.Cover(fmt.Sprintf("policy=%d", c.Policy))
	run.Cover(fmt.Sprintf("lines=%s", bucketN(nlines)))
	if hasTrunc {
		run.Cover("truncator-appended")
	}
	if res.Truncated > 0 {
		run.Cover("runes-truncated")
	}
	if cutInside {
		run.Cover("cut-inside-input-run")
	}
	if mixed {
		run.Cover("mixed-directions")
	}
	if multi {
		run.Cover("multi-rune-or-multi-glyph-cluster")
	}
	if c.Iterative {
		run.Cover("api=Prepare+WrapNextLine")
	} else {
		run.Cover("api=WrapParagraph")
	}
	if c.SliceIter {
		run.Cover("iterator=slice")
	} else {
		run.Cover("iterator=counting")
	}
	if c.LetterSp != 0 || c.WordSp != 0 {
		run.Cover("spacing-applied")
	}
	if len(c.Widths) > 1 {
		run.Cover("varying-widths")
	}
	if res.Mutated {
		run.Cover("input-mutated-by-wrapper(not judged)")
	}
	if c.ParaVer {
		run.Cover("vertical")
	}
	if nt && run.WantSample() && len(c.Text) <= 12 && nlines >= 2 {
		var ls []string
		for _, lo := range res.Lines {
			var parts []string
			for _, r := range lo.Runs {
				if isTruncator(r) {
					parts = append(parts, fmt.Sprintf("TRUNC{%d,%d}", r.Runes.Offset, r.Runes.Count))
				} else {
					parts = append(parts, fmt.Sprintf("[%d,%d)v%d", r.Runes.Offset, r.Runes.Offset+r.Runes.Count, r.VisualIndex))
				}
			}
			ls = append(ls, strings.Join(parts, " "))
		}
		run.Sample(map[string]any{"text": string(c.Text), "runs": len(c.Runs), "policy": c.Policy, "widths": c.Widths, "truncate_after": c.TruncateAfter, "lines": ls, "truncated": res.Truncated})
	}
}

func bucketN(n int) string {
	switch {
	case n <= 3:
		return fmt.Sprint(n)
	case n <= 8:
		return "4-8"
	}
	return "9+"
}

// Describe prints a case, its execution and every law failure (replay mode).
func Describe(c *Case) {
	fmt.Printf("text=%q paraRTL=%v policy=%d truncAfter=%d textContinues=%v disableTrim=%v truncGlyphs=%d truncAdv=%d widths=%v iterative=%v slice=%v ws=%d ls=%d\n",
		string(c.Text), c.ParaRTL, c.Policy, c.TruncateAfter, c.TextContinues, c.DisableTrim, c.TruncGlyphs, c.TruncAdv, c.Widths, c.Iterative, c.SliceIter, c.WordSp, c.LetterSp)
	res := c.Execute()
	x := newCtx(c, &res)
	mark := func(b []bool) string {
		s := ""
		for i, v := range b {
			if v {
				s += fmt.Sprint(i, " ")
			}
		}
		return s
	}
	fmt.Println("LB:", mark(x.lb), " MB:", mark(x.mb), " GB:", mark(x.gb), " CS:", mark(x.cs))
	for i, r := range res.Input {
		fmt.Printf(" in run %d [%d,+%d) level %d dir %v adv %d:", i, r.Runes.Offset, r.Runes.Count, c.Runs[i].Level, r.Direction, r.Advance)
		for _, g := range r.Glyphs {
			a, b := shapingLS(g)
			fmt.Printf(" {c%d r%d g%d adv%d ext%d off%d ls%d,%d}", g.ClusterIndex, g.RuneCount, g.GlyphCount, axisAdv(r.Direction, g), axisExt(r.Direction, g), axisOff(r.Direction, g), a, b)
		}
		fmt.Println()
	}
	if res.Panic != nil {
		fmt.Println("PANIC", res.Panic, res.Where)
	}
	fmt.Println("aborted:", res.Aborted, "calls:", res.Calls, "truncated:", res.Truncated, "mutated:", res.Mutated)
	for i, lo := range res.Lines {
		fmt.Printf(" line %d (maxWidth %d, done %v, next %d, nil %v):", i, lo.MaxWidth, lo.Done, lo.NextLine, lo.NilLine)
		for _, r := range lo.Runs {
			if isTruncator(r) {
				fmt.Printf(" TRUNC{%d,%d adv %d v%d}", r.Runes.Offset, r.Runes.Count, r.Advance, r.VisualIndex)
				continue
			}
			fmt.Printf(" [%d,%d) adv %d v%d (", r.Runes.Offset, r.Runes.Offset+r.Runes.Count, r.Advance, r.VisualIndex)
			for _, g := range r.Glyphs {
				fmt.Printf("c%d:%d ", g.ClusterIndex, axisAdv(r.Direction, g))
			}
			fmt.Print(")")
		}
		fmt.Println()
	}
	for _, p := range []string{"C02", "C03", "C04", "C08"} {
		fs, _ := judge(p, c, &res)
		for _, f := range fs {
			fmt.Println("  FINDING", f.Key, "::", f.Msg)
		}
	}
}
