// Package wrap holds the shared workload, execution and oracles for the line
// wrapping properties C02 (conservation), C03 (permitted breaks), C04 (width,
// greediness, truncation) and C08 (visual order, trailing-space trimming).
package wrap

import (
	"fmt"

	"github.com/go-text/typesetting/di"
	"github.com/go-text/typesetting/font"
	"github.com/go-text/typesetting/shaping"
	"golang.org/x/image/math/fixed"
)

// GlyphSpec is a self-contained description of one input glyph. All distances
// are 26.6 fixed point values along the run's axis.
type GlyphSpec struct {
	ID      uint32 `json:"id"`
	Cluster int    `json:"cl"`
	Runes   int    `json:"rc"`
	Glyphs  int    `json:"gc"`
	Adv     int    `json:"adv"`
	Ext     int    `json:"ext"` // extent on the run's axis (Width / Height); 0 = whitespace
	Off     int    `json:"off,omitempty"`
}

// RunSpec is one shaped input run.
type RunSpec struct {
	Offset   int         `json:"offset"`
	Count    int         `json:"count"`
	Level    int         `json:"level"`              // embedding level (parity = direction)
	Vertical bool        `json:"vertical,omitempty"` // TTB/BTT run: advances are stored negated in YAdvance
	Glyphs   []GlyphSpec `json:"glyphs"`             // in slice (visual) order
}

// Case is one self-contained wrapping execution.
type Case struct {
	Text    []rune    `json:"text"`
	Runs    []RunSpec `json:"runs"`
	ParaRTL bool      `json:"para_rtl"`
	ParaVer bool      `json:"para_vertical,omitempty"`
	// orientation flags of vertical directions (di.Direction.SetSideways): 0 unset, 1 upright,
	// 2 sideways, for the paragraph; for the runs also 3 = alternating, as Split resolves them
	ParaOrient uint8 `json:"para_orientation,omitempty"`
	RunOrient  uint8 `json:"run_orientation,omitempty"`

	Policy        int  `json:"policy"` // 0 WhenNecessary, 1 Never, 2 Always
	TruncateAfter int  `json:"truncate_after"`
	TextContinues bool `json:"text_continues"`
	DisableTrim   bool `json:"disable_trim"`
	// Truncator: 0 = zero value Output, n>0 = n glyphs of advance TruncAdv/n each
	TruncGlyphs int `json:"trunc_glyphs"`
	TruncAdv    int `json:"trunc_adv"`

	Widths    []int `json:"widths"`    // per line max width, last one repeated; a single value for WrapParagraph
	Iterative bool  `json:"iterative"` // Prepare + WrapNextLine instead of WrapParagraph
	SliceIter bool  `json:"slice_iter"`

	WordSp   int `json:"word_spacing,omitempty"`
	LetterSp int `json:"letter_spacing,omitempty"`

	// StaleVisual != 0: the input runs (and the truncator) carry the visual indices of
	// an earlier wrapping, as when an application lays wrapped runs out again.
	StaleVisual int `json:"stale_visual,omitempty"`

	Origin string `json:"origin,omitempty"` // generator description
	// LevelsFromDirection: run levels were derived from the shaped runs' directions only
	// (real paragraphs): the true UBA levels may be deeper.
	LevelsFromDirection bool `json:"levels_from_direction,omitempty"`
	// Glyphless: one run lost all its glyphs (a run of deleted default ignorables). Such
	// runs cannot be cut and are outside the modelled input space: only totality is judged.
	Glyphless bool `json:"glyphless,omitempty"`
}

const (
	runSize   = fixed.Int26_6(16 << 6) // Size marker of content runs
	truncSize = fixed.Int26_6(7777)    // Size marker of the truncator
	truncGID  = 0xFFFFF0
)

func (c *Case) paraDir() di.Direction {
	d := di.DirectionLTR
	if c.ParaVer {
		d = di.DirectionTTB
	}
	if c.ParaRTL {
		d.SetProgression(di.TowardTopLeft)
	}
	if c.ParaVer && c.ParaOrient != 0 {
		d.SetSideways(c.ParaOrient == 2)
	}
	return d
}

func runDir(rs RunSpec) di.Direction {
	d := di.DirectionLTR
	if rs.Vertical {
		d = di.DirectionTTB
	}
	if rs.Level%2 == 1 {
		d.SetProgression(di.TowardTopLeft)
	}
	return d
}

// runDirAt is runDir with the orientation flags of the case.
func (c *Case) runDirAt(i int) di.Direction {
	d := runDir(c.Runs[i])
	if c.Runs[i].Vertical && c.RunOrient != 0 {
		d.SetSideways(c.RunOrient == 2 || (c.RunOrient == 3 && i%2 == 0))
	}
	return d
}

// axisAdv reads the advance of g on the axis of dir, as a positive-is-forward
// quantity in the library's own sign convention (vertical advances are
// negative in the library; we keep the library's raw value).
func axisAdv(dir di.Direction, g shaping.Glyph) fixed.Int26_6 {
	if dir.IsVertical() {
		return g.YAdvance
	}
	return g.XAdvance
}

func axisOff(dir di.Direction, g shaping.Glyph) fixed.Int26_6 {
	if dir.IsVertical() {
		return g.YOffset
	}
	return g.XOffset
}

func axisExt(dir di.Direction, g shaping.Glyph) fixed.Int26_6 {
	if dir.IsVertical() {
		return g.Height
	}
	return g.Width
}

// BuildRuns constructs the shaping.Output values of the case (spacing applied
// through the library's own AddSpacing, as an application would).
func (c *Case) BuildRuns() []shaping.Output {
	outs := make([]shaping.Output, len(c.Runs))
	for i, rs := range c.Runs {
		o := shaping.Output{
			Size:      runSize,
			Direction: c.runDirAt(i),
			Runes:     shaping.Range{Offset: rs.Offset, Count: rs.Count},
			Glyphs:    make([]shaping.Glyph, len(rs.Glyphs)),
		}
		for j, g := range rs.Glyphs {
			sg := shaping.Glyph{
				ClusterIndex: g.Cluster, RuneCount: g.Runes, GlyphCount: g.Glyphs,
				GlyphID: font.GID(g.ID),
			}
			if rs.Vertical {
				sg.YAdvance = -fixed.Int26_6(g.Adv)
				sg.Height = -fixed.Int26_6(g.Ext)
				sg.YOffset = fixed.Int26_6(g.Off)
				sg.Width = 64
			} else {
				sg.XAdvance = fixed.Int26_6(g.Adv)
				sg.Width = fixed.Int26_6(g.Ext)
				sg.XOffset = fixed.Int26_6(g.Off)
				sg.Height = -64
			}
			o.Glyphs[j] = sg
		}
		o.RecomputeAdvance()
		if c.StaleVisual != 0 {
			o.VisualIndex = int32((i*5+c.StaleVisual)%9) - 1
		}
		outs[i] = o
	}
	if c.WordSp != 0 || c.LetterSp != 0 {
		shaping.AddSpacing(outs, c.Text, fixed.Int26_6(c.WordSp), fixed.Int26_6(c.LetterSp))
	}
	return outs
}

// Truncator builds the truncator run.
func (c *Case) Truncator() shaping.Output {
	if c.TruncGlyphs == 0 {
		return shaping.Output{}
	}
	o := shaping.Output{Size: truncSize, Direction: c.paraDir()}
	per := c.TruncAdv / c.TruncGlyphs
	for i := 0; i < c.TruncGlyphs; i++ {
		g := shaping.Glyph{GlyphID: truncGID, RuneCount: 1, GlyphCount: 1, ClusterIndex: i}
		a := per
		if i == 0 {
			a = c.TruncAdv - per*(c.TruncGlyphs-1)
		}
		if c.ParaVer {
			g.YAdvance = -fixed.Int26_6(a)
			g.Height = -fixed.Int26_6(a)
		} else {
			g.XAdvance = fixed.Int26_6(a)
			g.Width = fixed.Int26_6(a)
		}
		o.Glyphs = append(o.Glyphs, g)
	}
	o.RecomputeAdvance()
	o.Runes = shaping.Range{Offset: 0, Count: c.TruncGlyphs}
	o.VisualIndex = int32(c.StaleVisual)
	return o
}

// Config builds the WrapConfig.
func (c *Case) Config() shaping.WrapConfig {
	cfg := shaping.WrapConfig{
		Direction:                     c.paraDir(),
		TruncateAfterLines:            c.TruncateAfter,
		Truncator:                     c.Truncator(),
		TextContinues:                 c.TextContinues,
		BreakPolicy:                   shaping.LineBreakPolicy(c.Policy),
		DisableTrailingWhitespaceTrim: c.DisableTrim,
	}
	if (len(c.Text)+c.TruncateAfter)%2 == 1 {
		// the other documented way of setting the truncator: every other field set first,
		// then the helper (which must leave them alone)
		cfg.Truncator = shaping.Output{}
		cfg = cfg.WithTruncator(fixedShaper{c.Truncator()}, shaping.Input{})
	}
	return cfg
}

// fixedShaper is a shaping.Shaper returning a prepared run.
type fixedShaper struct{ out shaping.Output }

func (f fixedShaper) Shape(shaping.Input) shaping.Output { return f.out }

// isTruncator recognises the truncator in an output line by its Size marker
// (never guessed from counts).
func isTruncator(o shaping.Output) bool { return o.Size != runSize }

// CopyOutputs deep-copies runs (glyph slices included; letter spacing fields
// are carried by struct copy).
func CopyOutputs(in []shaping.Output) []shaping.Output {
	out := make([]shaping.Output, len(in))
	for i, o := range in {
		out[i] = o
		out[i].Glyphs = append([]shaping.Glyph(nil), o.Glyphs...)
	}
	return out
}

// countingIter is the harness's own RunIterator: a logical clock (number of
// Save calls) and an abort switch for runaway loops.
type countingIter struct {
	runs     []shaping.Output
	idx      int
	saved    int
	saves    int
	calls    int
	maxCalls int
}

type abortSentinel struct{ calls int }

func (it *countingIter) tick() {
	it.calls++
	if it.maxCalls > 0 && it.calls > it.maxCalls {
		panic(abortSentinel{it.calls})
	}
}

func (it *countingIter) Next() (int, shaping.Output, bool) {
	it.tick()
	if it.idx >= len(it.runs) {
		return it.idx, shaping.Output{}, false
	}
	it.idx++
	return it.idx - 1, it.runs[it.idx-1], true
}

func (it *countingIter) Peek() (int, shaping.Output, bool) {
	it.tick()
	if it.idx >= len(it.runs) {
		return it.idx, shaping.Output{}, false
	}
	return it.idx, it.runs[it.idx], true
}

func (it *countingIter) Save()    { it.tick(); it.saves++; it.saved = it.idx }
func (it *countingIter) Restore() { it.tick(); it.idx = it.saved }

// LineOut is one returned line, deep-copied at return.
type LineOut struct {
	Runs      []shaping.Output
	Truncated int
	NextLine  int
	Done      bool
	MaxWidth  int
	NilLine   bool
	Saves     int // iterator Save() calls during this WrapNextLine
}

// Result is everything observed from one execution.
type Result struct {
	Lines     []LineOut
	Truncated int
	Panic     any
	Where     string
	Aborted   bool // logical step bound exceeded (non-termination verdict)
	Calls     int
	Input     []shaping.Output // deep copy before the call (after spacing)
	After     []shaping.Output // the caller's runs after the call
	Mutated   bool
	ParaFast  bool
}

func (c *Case) widthFor(line int) int {
	if len(c.Widths) == 0 {
		return 0
	}
	if line < len(c.Widths) {
		return c.Widths[line]
	}
	return c.Widths[len(c.Widths)-1]
}

// stepBound is the logical-clock bound for a whole execution: every loop
// iteration of the wrapper consumes an iterator element or a break candidate;
// the bound is far above the calibrated maximum (see evidence: max_calls_ratio).
func (c *Case) stepBound() int {
	n := len(c.Text) + len(c.Runs) + 4
	return 400*n*n + 4000
}

// Execute runs the case against the real wrapper.
func (c *Case) Execute() (res Result) {
	runs := c.BuildRuns()
	res.Input = CopyOutputs(runs)
	cfg := c.Config()
	var it shaping.RunIterator
	var cit *countingIter
	if c.SliceIter {
		it = shaping.NewSliceIterator(runs)
	} else {
		cit = &countingIter{runs: runs, maxCalls: c.stepBound()}
		it = cit
	}
	defer func() {
		if e := recover(); e != nil {
			if ab, ok := e.(abortSentinel); ok {
				res.Aborted = true
				res.Calls = ab.calls
			} else {
				panic(e)
			}
		}
	}()
	var lw shaping.LineWrapper
	pv, where := catch(func() {
		if !c.Iterative {
			lines, tr := lw.WrapParagraph(cfg, c.widthFor(0), c.Text, it)
			res.Truncated = tr
			for _, l := range lines {
				res.Lines = append(res.Lines, LineOut{Runs: CopyOutputs(l), MaxWidth: c.widthFor(0), NilLine: l == nil})
			}
			return
		}
		lw.Prepare(cfg, c.Text, it)
		guard := 4*len(c.Text) + 16
		for i := 0; ; i++ {
			before := 0
			if cit != nil {
				before = cit.saves
			}
			w := c.widthFor(i)
			wl, done := lw.WrapNextLine(w)
			lo := LineOut{Runs: CopyOutputs(wl.Line), Truncated: wl.Truncated, NextLine: wl.NextLine, Done: done, MaxWidth: w, NilLine: wl.Line == nil}
			if cit != nil {
				lo.Saves = cit.saves - before
			}
			res.Lines = append(res.Lines, lo)
			if done {
				res.Truncated = wl.Truncated
				break
			}
			if i > guard {
				res.Aborted = true
				break
			}
		}
	})
	if pv != nil {
		if ab, ok := pv.(abortSentinel); ok {
			res.Aborted = true
			res.Calls = ab.calls
		} else {
			res.Panic, res.Where = pv, where
		}
	}
	if cit != nil && !res.Aborted {
		res.Calls = cit.calls
	}
	res.After = runs
	res.Mutated = !outputsEqual(res.Input, runs)
	return res
}

func outputsEqual(a, b []shaping.Output) bool {
	if len(a) != len(b) {
		return false
	}
	for i := range a {
		if a[i].Advance != b[i].Advance || len(a[i].Glyphs) != len(b[i].Glyphs) || a[i].Runes != b[i].Runes {
			return false
		}
		for j := range a[i].Glyphs {
			if a[i].Glyphs[j] != b[i].Glyphs[j] {
				return false
			}
		}
	}
	return true
}

func (c *Case) String() string {
	return fmt.Sprintf("text=%q runs=%d paraRTL=%v policy=%d trunc=%d widths=%v iter=%v", string(c.Text), len(c.Runs), c.ParaRTL, c.Policy, c.TruncateAfter, c.Widths, c.Iterative)
}
