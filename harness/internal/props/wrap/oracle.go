package wrap

import (
	"fmt"
	"sort"

	"github.com/go-text/typesetting/di"
	"github.com/go-text/typesetting/segmenter"
	"github.com/go-text/typesetting/shaping"
	"golang.org/x/image/math/fixed"

	"verifharness/internal/vrun"
)

var catch = vrun.Catch

// Finding is one law failure.
type Finding struct {
	Key string // stable law key, e.g. "C02/advance-sum"
	Msg string
}

// ctx holds everything derived from the input of one case.
type ctx struct {
	c   *Case
	res *Result
	n   int // paragraph length

	lb, mb, gb []bool // index e in 0..n: e is a UAX#14 boundary / mandatory / UAX#29 grapheme boundary (position *after* rune e-1)
	cs         []bool // cluster starts of the input runs ∪ run starts ∪ {n}
	runOf      []int  // rune -> input run index
	levels     []int  // per input run

	lines []lineInfo
}

type lineInfo struct {
	idx       int
	content   []shaping.Output // runs without the truncator
	trunc     *shaping.Output
	s, e      int // rune range of the content (s==e when no content)
	maxWidth  int
	isLast    bool
	truncLine bool // this line is the one on which the truncation countdown reached zero
}

func newCtx(c *Case, res *Result) *ctx {
	x := &ctx{c: c, res: res, n: len(c.Text)}
	n := x.n
	x.lb = make([]bool, n+1)
	x.mb = make([]bool, n+1)
	x.gb = make([]bool, n+1)
	x.cs = make([]bool, n+1)
	var seg segmenter.Segmenter
	seg.Init(c.Text)
	li := seg.LineIterator()
	for li.Next() {
		l := li.Line()
		e := l.Offset + len(l.Text)
		if e >= 0 && e <= n {
			x.lb[e] = true
			if l.IsMandatoryBreak {
				x.mb[e] = true
			}
		}
	}
	gi := seg.GraphemeIterator()
	for gi.Next() {
		g := gi.Grapheme()
		e := g.Offset + len(g.Text)
		if e >= 0 && e <= n {
			x.gb[e] = true
		}
	}
	x.cs[n] = true
	x.runOf = make([]int, n)
	for i, r := range res.Input {
		if r.Runes.Offset >= 0 && r.Runes.Offset <= n {
			x.cs[r.Runes.Offset] = true
		}
		for k := 0; k < r.Runes.Count; k++ {
			if p := r.Runes.Offset + k; p >= 0 && p < n {
				x.runOf[p] = i
			}
		}
		for _, g := range r.Glyphs {
			if g.ClusterIndex >= 0 && g.ClusterIndex <= n {
				x.cs[g.ClusterIndex] = true
			}
		}
	}
	x.levels = make([]int, len(c.Runs))
	for i, r := range c.Runs {
		x.levels[i] = r.Level
	}
	// line table
	for i, lo := range res.Lines {
		li := lineInfo{idx: i, maxWidth: lo.MaxWidth}
		if li.maxWidth > 1<<24 {
			li.maxWidth = 1 << 24 // "do not wrap" widths: wider than any paragraph of the workload, and safe in 26.6
		}
		for k := range lo.Runs {
			r := lo.Runs[k]
			if isTruncator(r) {
				rr := r
				li.trunc = &rr
			} else {
				li.content = append(li.content, r)
			}
		}
		x.lines = append(x.lines, li)
	}
	for i := range x.lines {
		li := &x.lines[i]
		li.isLast = i == len(x.lines)-1
		if len(li.content) > 0 {
			li.s = li.content[0].Runes.Offset
			last := li.content[len(li.content)-1]
			li.e = last.Runes.Offset + last.Runes.Count
		} else if li.trunc != nil {
			li.s, li.e = li.trunc.Runes.Offset, li.trunc.Runes.Offset
		}
	}
	return x
}

func (x *ctx) basePara() int {
	if x.c.ParaRTL {
		return 1
	}
	return 0
}

// ---------------------------------------------------------------- C02

// JudgeC02 checks termination, non-empty lines, rune coverage, glyph
// conservation and the advance sum.
func JudgeC02(c *Case, res *Result) []Finding {
	var out []Finding
	add := func(k, f string, a ...any) { out = append(out, Finding{"C02/" + k, fmt.Sprintf(f, a...)}) }
	if res.Panic != nil {
		add("panic/"+vrun.TopFrame(res.Where), "wrapping panicked: %v at %s", res.Panic, res.Where)
		return out
	}
	if res.Aborted {
		add("non-termination", "wrapper exceeded the logical step bound (%d iterator calls for %d runes / %d runs)", res.Calls, len(c.Text), len(c.Runs))
		return out
	}
	x := newCtx(c, res)
	n := x.n
	pos := 0
	for i, lo := range res.Lines {
		if len(lo.Runs) == 0 {
			if c.Iterative {
				if !lo.Done {
					add("empty-line", "WrapNextLine returned an empty line %d without done", i)
				}
				continue
			}
			add("empty-line", "WrapParagraph returned an empty line %d", i)
			continue
		}
		for k, r := range lo.Runs {
			if isTruncator(r) {
				if k != len(lo.Runs)-1 || i != len(res.Lines)-1 {
					add("truncator-position", "truncator at run %d of line %d is not the last run of the last line", k, i)
				}
				continue
			}
			if r.Runes.Offset != pos {
				add("rune-chain", "line %d run %d starts at rune %d, expected %d (gap or overlap)", i, k, r.Runes.Offset, pos)
				return out
			}
			if r.Runes.Count <= 0 {
				add("rune-chain", "line %d run %d has rune count %d", i, k, r.Runes.Count)
				return out
			}
			pos += r.Runes.Count
			if pos > n {
				add("rune-chain", "line %d run %d ends at rune %d beyond the paragraph (%d)", i, k, pos, n)
				return out
			}
			// inside exactly one input run
			in := -1
			for q, ir := range res.Input {
				if ir.Runes.Offset <= r.Runes.Offset && r.Runes.Offset+r.Runes.Count <= ir.Runes.Offset+ir.Runes.Count {
					in = q
					break
				}
			}
			if in < 0 {
				add("run-piece", "line %d run %d [%d,+%d) is not inside one input run", i, k, r.Runes.Offset, r.Runes.Count)
				continue
			}
			ir := res.Input[in]
			if r.Direction != ir.Direction {
				add("run-piece", "line %d run %d direction %v differs from its input run's %v", i, k, r.Direction, ir.Direction)
			}
			lo0, hi0 := r.Runes.Offset, r.Runes.Offset+r.Runes.Count
			if !x.cs[lo0] || !x.cs[hi0] {
				add("cluster-split", "line %d run %d [%d,%d) cuts through a glyph cluster of the input", i, k, lo0, hi0)
				continue
			}
			var want []shaping.Glyph
			for _, g := range ir.Glyphs {
				if g.ClusterIndex >= lo0 && g.ClusterIndex < hi0 {
					want = append(want, g)
				}
			}
			if len(want) != len(r.Glyphs) {
				add("glyph-set", "line %d run %d [%d,%d): %d glyphs, the clusters of that range hold %d in the input", i, k, lo0, hi0, len(r.Glyphs), len(want))
				continue
			}
			var sum fixed.Int26_6
			for gi, g := range r.Glyphs {
				w := want[gi]
				sum += axisAdv(r.Direction, g)
				if g.GlyphID != w.GlyphID || g.ClusterIndex != w.ClusterIndex || g.RuneCount != w.RuneCount || g.GlyphCount != w.GlyphCount ||
					g.Width != w.Width || g.Height != w.Height || g.XBearing != w.XBearing || g.YBearing != w.YBearing || g.Mask != w.Mask {
					add("glyph-identity", "line %d run %d glyph %d is %+v, input has %+v at that place", i, k, gi, g, w)
					break
				}
				// cross-axis values never change
				if r.Direction.IsVertical() {
					if g.XAdvance != w.XAdvance || g.XOffset != w.XOffset {
						add("glyph-edit", "line %d run %d glyph %d cross-axis advance/offset changed", i, k, gi)
					}
				} else if g.YAdvance != w.YAdvance || g.YOffset != w.YOffset {
					add("glyph-edit", "line %d run %d glyph %d cross-axis advance/offset changed", i, k, gi)
				}
				if msg := glyphEditOK(c, r, k, gi, len(r.Glyphs), g, w); msg != "" {
					add("glyph-edit", "line %d run %d glyph %d (cluster %d): %s", i, k, gi, g.ClusterIndex, msg)
				}
			}
			if r.Advance != sum {
				add("advance-sum", "line %d run %d [%d,%d): Advance=%d but its glyphs' advances sum to %d", i, k, lo0, hi0, r.Advance, sum)
			}
		}
		if c.Iterative && lo.NextLine != pos && len(lo.Runs) > 0 {
			add("next-line", "line %d reports NextLine=%d but its content ends at %d", i, lo.NextLine, pos)
		}
	}
	if pos+res.Truncated != n {
		add("coverage", "lines cover runes [0,%d) and truncated=%d, paragraph has %d runes", pos, res.Truncated, n)
	}
	// the truncator reports the cut range
	for _, li := range x.lines {
		if li.trunc != nil && (li.trunc.Runes.Offset != pos || li.trunc.Runes.Count != res.Truncated) {
			add("truncator-range", "truncator reports runes {%d,%d}, kept text ends at %d and truncated=%d", li.trunc.Runes.Offset, li.trunc.Runes.Count, pos, res.Truncated)
		}
	}
	return out
}

// glyphEditOK decides whether the main-axis advance/offset/letter-spacing of an
// output glyph g is the input glyph w, possibly with the two documented edits:
// (a) leading letter-space trimmed on the first glyph (slice order) of the
// line's first run; (b) advance of a whitespace glyph at an end of its run set
// to zero by trailing-whitespace trimming (C08 judges which glyph exactly).
func glyphEditOK(c *Case, r shaping.Output, runIdx, gi, ng int, g, w shaping.Glyph) string {
	dir := r.Direction
	gs, ge := shaping.VerifLetterSpacing(g)
	ws, we := shaping.VerifLetterSpacing(w)
	adv, off := axisAdv(dir, w), axisOff(dir, w)
	// candidate expected values
	type exp struct{ adv, off, s, e fixed.Int26_6 }
	cands := []exp{{adv, off, ws, we}}
	if runIdx == 0 && gi == 0 {
		cands = append(cands, exp{adv - ws, off - ws, 0, we})
	}
	if !c.DisableTrim && axisExt(dir, w) == 0 && (gi == 0 || gi == ng-1) {
		for _, e := range cands {
			cands = append(cands, exp{0, e.off, e.s, e.e})
		}
	}
	for _, e := range cands {
		if axisAdv(dir, g) == e.adv && axisOff(dir, g) == e.off && gs == e.s && ge == e.e {
			return ""
		}
	}
	return fmt.Sprintf("advance/offset/letter-spacing %d/%d/%d,%d is neither the input's %d/%d/%d,%d nor a documented edit of it",
		axisAdv(dir, g), axisOff(dir, g), gs, ge, adv, off, ws, we)
}

// ---------------------------------------------------------------- shared measures

// inputGlyphsIn returns the input glyphs (slice order per run, runs in logical
// order) of the clusters in [s,e), one slice per input run touched.
type piece struct {
	run    int
	dir    di.Direction
	glyphs []shaping.Glyph
}

func (x *ctx) pieces(s, e int) []piece {
	var out []piece
	for i, ir := range x.res.Input {
		lo, hi := ir.Runes.Offset, ir.Runes.Offset+ir.Runes.Count
		if hi <= s || lo >= e {
			continue
		}
		p := piece{run: i, dir: ir.Direction}
		for _, g := range ir.Glyphs {
			if g.ClusterIndex >= s && g.ClusterIndex < e {
				p.glyphs = append(p.glyphs, g)
			}
		}
		out = append(out, p)
	}
	return out
}

// endGlyph is the glyph at the end of the piece in its own reading direction.
func endGlyph(p piece) (shaping.Glyph, bool) {
	if len(p.glyphs) == 0 {
		return shaping.Glyph{}, false
	}
	if p.dir.Progression() == di.FromTopLeft {
		return p.glyphs[len(p.glyphs)-1], true
	}
	return p.glyphs[0], true
}

// discount of a glyph at the line end: its whole advance if it is whitespace
// (zero extent), else its trailing letter spacing.
func endDiscount(dir di.Direction, g shaping.Glyph) fixed.Int26_6 {
	if axisExt(dir, g) == 0 {
		return axisAdv(dir, g)
	}
	_, e := shaping.VerifLetterSpacing(g)
	return e
}

// measure returns the bounds [lo,hi] of the width of a hypothetical line
// holding the clusters of [s,e), under every reading of the statement's
// "not counting one trailing whitespace glyph or the trailing letter spacing
// at the line end in paragraph direction": total advance minus
//   - nothing / the leading letter space of the first glyph (trimmed at line start),
//   - reading A: the end glyph of the logically last run if that run has the
//     paragraph's direction (what the wrapper documents), reading B: the glyph
//     that is visually last in paragraph direction.
//
// exact is true when all readings coincide.
func (x *ctx) measure(s, e int) (lo, hi fixed.Int26_6, exact bool) {
	ps := x.pieces(s, e)
	var total fixed.Int26_6
	for _, p := range ps {
		for _, g := range p.glyphs {
			total += axisAdv(p.dir, g)
		}
	}
	if len(ps) == 0 {
		return 0, 0, true
	}
	// leading trim: Glyphs[0] of the first piece, when it carries start letter spacing
	var lead fixed.Int26_6
	if len(ps[0].glyphs) > 0 {
		lead, _ = shaping.VerifLetterSpacing(ps[0].glyphs[0])
	}
	para := x.c.paraDir()
	// reading A
	var dA fixed.Int26_6
	last := ps[len(ps)-1]
	if last.dir == para {
		if g, ok := endGlyph(last); ok {
			dA = endDiscount(last.dir, g)
		}
	}
	// reading B: visually last piece in paragraph direction
	lv := make([]int, len(ps))
	for i, p := range ps {
		lv[i] = x.levels[p.run]
	}
	vis := l2order(lv, x.basePara())
	vi := 0
	for i := range ps {
		if para.Progression() == di.FromTopLeft {
			if vis[i] > vis[vi] {
				vi = i
			}
		} else if vis[i] < vis[vi] {
			vi = i
		}
	}
	var dB fixed.Int26_6
	vp := ps[vi]
	if len(vp.glyphs) > 0 {
		// the glyph slice is in visual order: the visual end in paragraph direction
		g := vp.glyphs[len(vp.glyphs)-1]
		if para.Progression() != di.FromTopLeft {
			g = vp.glyphs[0]
		}
		dB = endDiscount(vp.dir, g)
	}
	dmax, dmin := fixed.Int26_6(0), fixed.Int26_6(0)
	for _, d := range []fixed.Int26_6{dA, dB} {
		if d > dmax {
			dmax = d
		}
		if d < dmin {
			dmin = d
		}
	}
	lpos, lneg := lead, lead
	if lpos < 0 {
		lpos = 0
	}
	if lneg > 0 {
		lneg = 0
	}
	exact = dA == dB && lead == 0
	if dA == dB {
		// both readings of "the line end in paragraph direction" name the same glyph:
		// the statement's measure is unambiguous, use it on both sides
		dmax, dmin = dA, dA
	}
	// lo: most lenient reading (largest discounts); hi: strictest (no positive discount)
	lo = total - dmax - lpos
	hi = total - dmin - lneg
	return lo, hi, exact
}

// measureA is the wrapper's documented reading (reading A with leading trim),
// used where an exact figure is needed and readings coincide.
func (x *ctx) measureA(s, e int) fixed.Int26_6 {
	ps := x.pieces(s, e)
	var total fixed.Int26_6
	for _, p := range ps {
		for _, g := range p.glyphs {
			total += axisAdv(p.dir, g)
		}
	}
	if len(ps) == 0 {
		return 0
	}
	if len(ps[0].glyphs) > 0 {
		lead, _ := shaping.VerifLetterSpacing(ps[0].glyphs[0])
		total -= lead
	}
	last := ps[len(ps)-1]
	if last.dir == x.c.paraDir() {
		if g, ok := endGlyph(last); ok {
			total -= endDiscount(last.dir, g)
		}
	}
	return total
}

// l2order applies rule L2 of UAX#9 to a sequence of run levels and returns
// the visual position (0 = leftmost) of each run.
func l2order(levels []int, base int) []int {
	n := len(levels)
	order := make([]int, n) // order[visual] = logical
	for i := range order {
		order[i] = i
	}
	maxL, minOdd := base, 1<<30
	for _, l := range levels {
		if l > maxL {
			maxL = l
		}
		if l%2 == 1 && l < minOdd {
			minOdd = l
		}
	}
	if base%2 == 1 && base < minOdd {
		minOdd = base
	}
	if minOdd == 1<<30 {
		minOdd = maxL + 1
	}
	for k := maxL; k >= minOdd && k >= 1; k-- {
		i := 0
		for i < n {
			if levels[order[i]] >= k {
				j := i
				for j < n && levels[order[j]] >= k {
					j++
				}
				for a, b := i, j-1; a < b; a, b = a+1, b-1 {
					order[a], order[b] = order[b], order[a]
				}
				i = j
			} else {
				i++
			}
		}
	}
	// L2 reverses sequences down to the lowest odd level; the paragraph itself
	// at an odd base level is reversed as a whole by the k=base pass above
	// because every level is >= base.
	pos := make([]int, n)
	for v, l := range order {
		pos[l] = v
	}
	return pos
}

// permitted reports whether a line may end at rune position e under the policy
// (grapheme = grapheme boundaries allowed).
func (x *ctx) permitted(e int, grapheme bool) bool {
	if e == x.n {
		return true
	}
	if !x.cs[e] {
		return false
	}
	return x.lb[e] || (grapheme && x.gb[e])
}

// nextPermitted returns the first permitted break position > s.
func (x *ctx) nextPermitted(s int, grapheme bool) int {
	for e := s + 1; e <= x.n; e++ {
		if x.permitted(e, grapheme) {
			return e
		}
	}
	return x.n
}

// truncLineIndex returns the index (in res.Lines) of the line on which the
// truncation countdown reaches zero, or -1.
func (x *ctx) truncCountdownLine() int {
	if x.c.TruncateAfter <= 0 {
		return -1
	}
	if x.c.Iterative {
		// every WrapNextLine call decrements the countdown while more is true
		return x.c.TruncateAfter - 1
	}
	return -2 // WrapParagraph drops nil lines that still count: unknown from the line list
}

// ---------------------------------------------------------------- C03

func JudgeC03(c *Case, res *Result) []Finding {
	var out []Finding
	if res.Panic != nil || res.Aborted {
		return nil // C02's business
	}
	add := func(k, f string, a ...any) { out = append(out, Finding{"C03/" + k, fmt.Sprintf(f, a...)}) }
	x := newCtx(c, res)
	n := x.n
	for _, li := range x.lines {
		if len(li.content) == 0 {
			continue
		}
		s, e := li.s, li.e
		if e < 0 || e > n || s < 0 || s >= e {
			continue // malformed ranges are C02's business
		}
		truncating := li.trunc != nil || (li.isLast && res.Truncated > 0) || (c.TruncateAfter > 0 && li.isLast && x.lastIsCountdownLine())
		if !x.cs[e] {
			add("inside-cluster", "line %d ends at rune %d inside a shaped glyph cluster", li.idx, e)
			continue
		}
		if e != n {
			switch {
			case x.lb[e]:
			case c.Policy != 1 && x.gb[e]:
			default:
				cls := "not-a-break-opportunity"
				if c.Policy == 1 && x.gb[e] {
					cls = "never-policy-inside-segment"
				}
				if truncating {
					cls += "/truncated-line"
				}
				add(cls, "line %d [%d,%d) ends at rune %d which is neither a UAX#14 opportunity nor (policy %d) a permitted grapheme boundary; text %q", li.idx, s, e, e, c.Policy, string(c.Text))
			}
		}
		// mandatory breaks end their line
		for m := s + 1; m < e; m++ {
			if x.mb[m] && x.cs[m] {
				add("mandatory-ignored", "line %d [%d,%d) continues past the mandatory break after rune %d; text %q", li.idx, s, e, m-1, string(c.Text))
				break
			}
		}
		// WhenNecessary: a word is split only if it cannot fit on a line by itself.
		// The word is the UAX#14 segment around e, with opportunities that fall
		// inside a shaped cluster merged away.
		if c.Policy == 0 && e != n && !x.lb[e] && !truncating {
			w0 := 0
			for b := e - 1; b > 0; b-- {
				if x.lb[b] && x.cs[b] {
					w0 = b
					break
				}
			}
			w1 := n
			for b := e + 1; b < n; b++ {
				if x.lb[b] && x.cs[b] {
					w1 = b
					break
				}
			}
			minW := li.maxWidth
			for _, w := range c.Widths {
				if w < minW {
					minW = w
				}
			}
			_, hi, _ := x.measure(w0, w1)
			if hi.Ceil() <= minW {
				add("whennecessary-split", "line %d [%d,%d) splits the word [%d,%d) although it fits on a line by itself (width %d <= %d); text %q", li.idx, s, e, w0, w1, hi.Ceil(), minW, string(c.Text))
			}
		}
	}
	return out
}

// lastIsCountdownLine: in iterative mode the number of WrapNextLine calls is
// known exactly; the last returned line is the truncating one iff the number of
// calls equals TruncateAfterLines.
func (x *ctx) lastIsCountdownLine() bool {
	if x.c.TruncateAfter <= 0 {
		return false
	}
	if x.c.Iterative {
		return len(x.res.Lines) == x.c.TruncateAfter
	}
	// WrapParagraph drops nil lines which still count; the last line may be the
	// truncating one whenever the countdown could have been reached.
	return len(x.res.Lines) <= x.c.TruncateAfter
}

// ---------------------------------------------------------------- C04

func JudgeC04(c *Case, res *Result) []Finding {
	var out []Finding
	if res.Panic != nil || res.Aborted {
		return nil
	}
	add := func(k, f string, a ...any) { out = append(out, Finding{"C04/" + k, fmt.Sprintf(f, a...)}) }
	x := newCtx(c, res)
	n := x.n
	nl := 0
	for _, lo := range res.Lines {
		if len(lo.Runs) > 0 {
			nl++
		}
	}
	if c.TruncateAfter > 0 && nl > c.TruncateAfter {
		add("too-many-lines", "%d lines returned with TruncateAfterLines=%d", nl, c.TruncateAfter)
	}
	if c.TruncateAfter == 0 {
		if res.Truncated != 0 {
			add("truncated-without-limit", "truncated=%d with TruncateAfterLines=0", res.Truncated)
		}
		for _, li := range x.lines {
			if li.trunc != nil {
				add("truncator-without-limit", "truncator present on line %d with TruncateAfterLines=0", li.idx)
			}
		}
	}
	if len(c.Text) == 0 && len(c.Runs) == 0 {
		// the empty paragraph: with TruncateAfterLines = 1 its only possible line is the
		// k-th one, so a text declared to continue gets its truncator (reporting the
		// empty cut range); otherwise there is nothing to return
		hasTrunc := false
		for _, li := range x.lines {
			if li.trunc != nil {
				hasTrunc = true
			}
		}
		if want := c.TruncateAfter == 1 && c.TextContinues; want != hasTrunc {
			add("truncator-presence", "empty paragraph, TruncateAfterLines=%d TextContinues=%v: truncator present=%v (lines returned: %d)", c.TruncateAfter, c.TextContinues, hasTrunc, len(res.Lines))
		}
		return out
	}
	tadv := c.Truncator().Advance
	// width laws presuppose that extending a line never shrinks it: they are judged
	// only for horizontal text whose glyph advances are all non-negative (vertical
	// advances are negative by the library's convention; negative spacing can make
	// advances negative)
	widthLaws := !c.ParaVer
	for _, ir := range res.Input {
		if ir.Direction.IsVertical() {
			widthLaws = false
		}
		for _, g := range ir.Glyphs {
			ls0, ls1 := shaping.VerifLetterSpacing(g)
			if axisAdv(ir.Direction, g) < 0 || ls0 < 0 || ls1 < 0 {
				// negative letter spacing makes "not counting the trailing letter spacing" a
				// penalty: a longer line can then measure less than a shorter one
				widthLaws = false
			}
		}
	}
	for _, li := range x.lines {
		countdown := c.TruncateAfter > 0 && li.isLast && x.lastIsCountdownLine()
		// truncation contract
		if li.trunc != nil {
			if !li.isLast {
				add("truncator-not-last", "truncator on line %d which is not the last line", li.idx)
			}
			if !(res.Truncated > 0 || c.TextContinues) {
				add("truncator-unneeded", "truncator appended although no rune was cut and the text does not continue")
			}
		}
		if li.isLast && c.TruncateAfter > 0 && len(res.Lines) == c.TruncateAfter {
			// the countdown reached zero on this line: truncator iff runes cut or text continues
			want := res.Truncated > 0 || c.TextContinues
			if want != (li.trunc != nil) {
				add("truncator-presence", "countdown reached zero: truncated=%d TextContinues=%v but truncator present=%v", res.Truncated, c.TextContinues, li.trunc != nil)
			}
		}
		if li.isLast && res.Truncated > 0 && li.trunc == nil {
			add("truncator-missing", "truncated=%d runes but no truncator run on the last line", res.Truncated)
		}
		if len(li.content) == 0 || !widthLaws {
			continue
		}
		s, e := li.s, li.e
		if s < 0 || e > n || s >= e || !x.cs[e] || !x.cs[s] {
			continue
		}
		grapheme := c.Policy == 2 || (c.Policy == 0 && (countdown || li.trunc != nil))
		limit := li.maxWidth
		// (1) width bound, measured on the output line itself, in exact 26.6 arithmetic:
		// the line (plus the truncator's advance on the truncated line: "filled against
		// the width reduced by the truncator's advance") must not exceed maxWidth
		lo, _, _ := x.measure(s, e)
		outW := outputWidth(c, li)
		if outW < lo {
			lo = outW
		}
		need := lo
		if li.trunc != nil {
			need += tadv
			limit = li.maxWidth - tadv.Ceil() // for the message only
		}
		if need > fixed.I(li.maxWidth) {
			// exemption: single unbreakable unit
			first := x.nextPermitted(s, grapheme || c.Policy == 0)
			// the single-unit exemption is for ordinary lines: on the truncated line a unit
			// that does not fit beside the truncator is cut (the line then holds the
			// truncator alone), whatever the break policy
			if e > first || li.trunc != nil {
				cls := "over-wide"
				if li.trunc != nil {
					cls = "over-wide-truncated-line"
				}
				add(cls, "line %d [%d,%d) measures %d (most lenient reading) > limit %d and holds more than one unbreakable unit (first permitted break at %d); text %q", li.idx, s, e, lo.Ceil(), limit, first, string(c.Text))
			}
		}
		// (2) greedy: a line ending at an optional break could not have been extended
		if e != n && !(x.mb[e]) {
			splitWord := !x.lb[e]
			g2 := grapheme || (c.Policy == 0 && splitWord)
			e2 := x.nextPermitted(e, g2)
			// a mandatory break between e and e2 would stop the extension earlier: e2 is the
			// first permitted break, mandatory ones are permitted breaks, so e2 <= that break.
			_, hi, _ := x.measure(s, e2)
			lim2 := li.maxWidth
			cls := "not-greedy"
			if countdown || li.trunc != nil {
				cls = "not-greedy-truncated-line"
				if !(e2 == n && !c.TextContinues) {
					lim2 = li.maxWidth - tadv.Ceil()
				}
			}
			if hi.Ceil() <= lim2 {
				add(cls, "line %d [%d,%d) ends at an optional break although extending it to the next permitted break %d measures %d <= %d; policy %d text %q", li.idx, s, e, e2, hi.Ceil(), lim2, c.Policy, string(c.Text))
			}
		}
	}
	// truncated count
	if c.TruncateAfter > 0 {
		kept := 0
		for _, li := range x.lines {
			if len(li.content) > 0 {
				kept = li.e
			}
		}
		if res.Truncated != n-kept {
			add("truncated-count", "truncated=%d but %d of %d runes are kept", res.Truncated, kept, n)
		}
	}
	return out
}

// outputWidth measures the returned line from its own glyphs: sum of advances,
// not counting (if not already zeroed) the larger of the two readings of the
// trailing discount: the end glyph of the logically last run when it has the
// paragraph's direction, and the glyph that is visually last in paragraph
// direction (by the line's own VisualIndex). Glyphs inside the line never get a
// discount.
func outputWidth(c *Case, li lineInfo) fixed.Int26_6 {
	var total fixed.Int26_6
	for _, r := range li.content {
		for _, g := range r.Glyphs {
			total += axisAdv(r.Direction, g)
		}
	}
	if len(li.content) == 0 {
		return total
	}
	para := c.paraDir()
	var best fixed.Int26_6
	// reading A
	last := li.content[len(li.content)-1]
	if last.Direction == para && len(last.Glyphs) > 0 {
		g := last.Glyphs[len(last.Glyphs)-1]
		if last.Direction.Progression() != di.FromTopLeft {
			g = last.Glyphs[0]
		}
		if d := endDiscount(last.Direction, g); d > best {
			best = d
		}
	}
	// reading B
	vi := 0
	for i, r := range li.content {
		if para.Progression() == di.FromTopLeft {
			if r.VisualIndex > li.content[vi].VisualIndex {
				vi = i
			}
		} else if r.VisualIndex < li.content[vi].VisualIndex {
			vi = i
		}
	}
	if vr := li.content[vi]; len(vr.Glyphs) > 0 {
		g := vr.Glyphs[len(vr.Glyphs)-1]
		if para.Progression() != di.FromTopLeft {
			g = vr.Glyphs[0]
		}
		if d := endDiscount(vr.Direction, g); d > best {
			best = d
		}
	}
	return total - best
}

// ---------------------------------------------------------------- C08

// JudgeC08 checks the visual order and the trimming target. knownParity tells
// whether the open finding "only the parity of the level reaches the wrapper"
// is registered: inside its class the output must equal the predicted model.
func JudgeC08(c *Case, res *Result) (out []Finding, knownClassHits int) {
	if res.Panic != nil || res.Aborted {
		return nil, 0
	}
	add := func(k, f string, a ...any) { out = append(out, Finding{"C08/" + k, fmt.Sprintf(f, a...)}) }
	x := newCtx(c, res)
	base := x.basePara()
	para := c.paraDir()
	for li, lo := range res.Lines {
		nr := len(lo.Runs)
		if nr == 0 {
			continue
		}
		if !c.Iterative && len(res.Lines) == 1 && nr == 1 && lo.Runs[0].VisualIndex == 0 && len(c.Runs) == 1 {
			// single-run fast path of WrapParagraph: index 0 is the only permutation
		}
		seen := make([]bool, nr)
		perm := true
		for _, r := range lo.Runs {
			v := int(r.VisualIndex)
			if v < 0 || v >= nr || seen[v] {
				perm = false
				break
			}
			seen[v] = true
		}
		if !perm {
			vs := []int32{}
			for _, r := range lo.Runs {
				vs = append(vs, r.VisualIndex)
			}
			add("not-a-permutation", "line %d visual indices %v are not a permutation of 0..%d", li, vs, nr-1)
			continue
		}
		levels := make([]int, nr)
		reduced := make([]int, nr)
		deep := false
		okLevels := true
		for k, r := range lo.Runs {
			if isTruncator(r) {
				// the truncator goes with or against the paragraph by its progression (the axis
				// and the orientation flags of vertical directions play no part in rule L2)
				levels[k] = base
				if r.Direction.Progression() != para.Progression() {
					levels[k] = base + 1
				}
			} else {
				if r.Runes.Offset < 0 || r.Runes.Offset >= x.n {
					okLevels = false
					break
				}
				levels[k] = x.levels[x.runOf[r.Runes.Offset]]
			}
			if levels[k] >= base+2 {
				deep = true
			}
			reduced[k] = base + (levels[k]-base)%2
		}
		if !okLevels {
			continue
		}
		want := l2order(levels, base)
		got := make([]int, nr)
		for k, r := range lo.Runs {
			got[k] = int(r.VisualIndex)
		}
		if !equalInts(got, want) {
			if deep {
				pred := l2order(reduced, base)
				if equalInts(got, pred) {
					knownClassHits++
					// inside the known class and equal to its predicted model: reported under the
					// key of the open finding (vrun turns it into KNOWN-FINDING while that entry is listed)
					add("order-deep-levels", "line %d levels %v (paragraph level %d): visual indices %v follow rule L2 applied to the parities only (%v), rule L2 on the levels gives %v", li, levels, base, got, pred, want)
				} else {
					add("order-deep-levels-unpredicted", "line %d levels %v (paragraph level %d): visual indices %v equal neither rule L2 %v nor the known parity-reduced behaviour %v", li, levels, base, got, want, pred)
				}
			} else {
				add("order", "line %d levels %v (paragraph level %d): visual indices %v, rule L2 gives %v", li, levels, base, got, want)
			}
		}
		// trimming target
		if len(x.lines[li].content) == 0 {
			continue
		}
		// locate the content run that is visually last in paragraph direction (the
		// truncator, appended after trimming, is not a trimming target)
		endRun := -1
		for k, r := range lo.Runs {
			if isTruncator(r) {
				continue
			}
			if endRun < 0 {
				endRun = k
				continue
			}
			if para.Progression() == di.FromTopLeft {
				if r.VisualIndex > lo.Runs[endRun].VisualIndex {
					endRun = k
				}
			} else if r.VisualIndex < lo.Runs[endRun].VisualIndex {
				endRun = k
			}
		}
		for k, r := range lo.Runs {
			if isTruncator(r) {
				continue
			}
			// which input glyphs
			in := res.Input[x.runOf[r.Runes.Offset]]
			var want []shaping.Glyph
			for _, g := range in.Glyphs {
				if g.ClusterIndex >= r.Runes.Offset && g.ClusterIndex < r.Runes.Offset+r.Runes.Count {
					want = append(want, g)
				}
			}
			if len(want) != len(r.Glyphs) {
				continue // C02's business
			}
			for gi, g := range r.Glyphs {
				w := want[gi]
				lead, _ := shaping.VerifLetterSpacing(w)
				zeroed := axisAdv(r.Direction, g) == 0 && axisAdv(r.Direction, w) != 0 && axisAdv(r.Direction, w)-lead != 0
				isEnd := k == endRun && ((para.Progression() == di.FromTopLeft && gi == len(r.Glyphs)-1) || (para.Progression() != di.FromTopLeft && gi == 0))
				if zeroed && !isEnd {
					add("trim-wrong-glyph", "line %d run %d glyph %d had its advance zeroed but is not the visually last glyph in paragraph direction", li, k, gi)
				}
				if zeroed && c.DisableTrim {
					add("trim-when-disabled", "line %d run %d glyph %d zeroed although trimming is disabled", li, k, gi)
				}
				if isEnd && !c.DisableTrim && axisExt(r.Direction, w) == 0 && axisAdv(r.Direction, g) != 0 {
					// the visually last glyph is whitespace but kept its advance
					fast := !c.Iterative && len(res.Lines) == 1 && len(c.Runs) == 1 // WrapParagraph's single-run shortcut returns the run untouched
					if !fast {
						add("trim-missing", "line %d run %d glyph %d is the visually last glyph, is whitespace, but keeps advance %d", li, k, gi, axisAdv(r.Direction, g))
					}
				}
			}
		}
	}
	return out, knownClassHits
}

func equalInts(a, b []int) bool {
	if len(a) != len(b) {
		return false
	}
	for i := range a {
		if a[i] != b[i] {
			return false
		}
	}
	return true
}

// sortedKeys is a small helper for deterministic output.
func sortedKeys(m map[string]int) []string {
	ks := make([]string, 0, len(m))
	for k := range m {
		ks = append(ks, k)
	}
	sort.Strings(ks)
	return ks
}

func shapingLS(g shaping.Glyph) (fixed.Int26_6, fixed.Int26_6) { return shaping.VerifLetterSpacing(g) }
