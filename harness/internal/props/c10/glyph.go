package c10

import (
	"fmt"
	"math"
	"strings"

	"github.com/go-text/typesetting/font"
	ot "github.com/go-text/typesetting/font/opentype"
	"golang.org/x/image/font/sfnt"
	"golang.org/x/image/math/fixed"

	"verifharness/internal/ftref"
	"verifharness/internal/hbfont"
	"verifharness/internal/vrun"
)

// checkCoords compares the normalized coordinates of one setting.
func (m *monitor) checkCoords(l *local, fi *faceInfo, rf *refs, st *setting, gc []int) {
	ax := fi.raw.axes
	// properties of the setting that name the known reference limitations
	outsideAtDefault, negTie := false, false
	for i, a := range ax {
		if i >= len(st.design) {
			break
		}
		d := float64(st.design[i])
		if st.via != nil {
			d = a.Def
			for _, ai := range st.via {
				if ai == i {
					d = float64(st.design[i])
				}
			}
		}
		if (d > a.Max && a.Max == a.Def) || (d < a.Min && a.Min == a.Def) {
			outsideAtDefault = true
		}
		if d < a.Def && d >= a.Min && a.Def != a.Min {
			v := (d - a.Def) / (a.Def - a.Min) * 16384
			if v-math.Floor(v) == 0.5 {
				negTie = true
			}
		}
	}
	var obs []refObs
	var vals [][]int
	if rf.hb != nil {
		hc := rf.hb.NormalizedCoords()
		if hc == nil {
			hc = make([]int, len(gc)) // HarfBuzz drops an all-default vector
		}
		ok := len(hc) == len(gc)
		for i := 0; ok && i < len(gc); i++ {
			ok = hc[i] == gc[i]
		}
		obs = append(obs, refObs{"hb", ok, fmtInts(hc)})
		vals = append(vals, hc)
		l.inc("cmp/normcoords/hb=" + agreeStr(ok))
	}
	if outsideAtDefault && rf.ft != nil {
		// FreeType 2.12.1 is known to be wrong exactly here (+-1 instead of 0): it is not
		// heard, HarfBuzz - the reference the statement names - decides alone
		l.inc("ref/ft/skipped: normalized coordinates beyond an axis end that equals the default")
	}
	if rf.ft != nil && (rf.ftOK || rf.ftElsewhere) && !outsideAtDefault {
		if bc, err := rf.ft.BlendCoords(len(gc)); err == nil {
			fc := make([]int, len(bc))
			ok := true
			for i, v := range bc {
				fc[i] = int(math.Floor(float64(v)/4 + 0.5))
				// FreeType works in 16.16: one 2.14 unit of double rounding
				if d := fc[i] - gc[i]; d > 1 || d < -1 {
					ok = false
				}
			}
			obs = append(obs, refObs{"ft", ok, fmtInts(fc)})
			vals = append(vals, fc)
			l.inc("cmp/normcoords/ft=" + agreeStr(ok))
		}
	}
	v, who := judge(obs, func(i, j int) bool {
		a, b := vals[i], vals[j]
		if len(a) != len(b) {
			return false
		}
		for k := range a {
			if d := a[k] - b[k]; d > 1 || d < -1 {
				return false
			}
		}
		return true
	})
	cls := "fvar-avar"
	if v == vSplit || v == vSingle {
		switch {
		case who == "ft" && outsideAtDefault:
			cls = "fvar-avar [design value beyond an axis end that equals the default: FreeType 2.12.1 yields +-1, not 0]"
		case who == "hb" && negTie:
			cls = "fvar-avar [exact negative half-way case k-0.5: HarfBuzz 6.0.0 rounds half up, library and newer HarfBuzz round half away from zero]"
		}
	}
	v = hbDecides(v, who, true, cls)
	m.record(l, fi, "normcoords", cls, v, who, func() (string, Witness) {
		w := Witness{Font: fi.id, Quantity: "normcoords", Design: st.design, ViaSet: st.via, Values: map[string]string{"go": fmtInts(gc)}}
		for _, o := range obs {
			w.Values[o.name] = o.val
		}
		return fmt.Sprintf("%s design=%v via=%v: normalized coordinates go=%v %s", fi.id, st.design, st.via, gc, obsStr(obs)), w
	})
}

func devBucket(d float64) string {
	switch {
	case d <= 0.001:
		return "<=0.001"
	case d <= 0.05:
		return "<=0.05"
	case d <= 0.25:
		return "<=0.25"
	case d <= 0.5:
		return "<=0.5"
	case d <= 1:
		return "<=1"
	case d <= 1.5:
		return "<=1.5"
	case d <= 2:
		return "<=2"
	}
	return ">2"
}

// checkGlyph observes one glyph under one setting in every decoder.
func (m *monitor) checkGlyph(l *local, fi *faceInfo, rf *refs, face *font.Face, st *setting, coords []int, gid uint32) {
	m.run.Eval(1)
	isVar := st.isVar()
	raw := fi.raw
	tabK := fi.tabK
	if isVar {
		tabK += "-var"
	}
	var ck int8
	if fi.tabK == "glyf" && raw.ok {
		ck = raw.compositeKind(int(gid), 0)
	}
	gkind := glyphKindName(ck)
	transformed := ck&cmpTransformed != 0
	composite := ck != cmpSimple
	useMyMetrics := ck&cmpUseMyMetric != 0
	wit := func(q string) Witness {
		return Witness{Font: fi.id, Quantity: q, GID: gid, Design: st.design, ViaSet: st.via, Values: map[string]string{}}
	}
	where := func() string {
		if isVar {
			return fmt.Sprintf("%s gid=%d design=%v via=%v", fi.id, gid, st.design, st.via)
		}
		return fmt.Sprintf("%s gid=%d", fi.id, gid)
	}

	// ---- library side
	var (
		gAdv, gVAdv float32
		gExt        font.GlyphExtents
		gExtOK      bool
		gData       font.GlyphData
	)
	pv, wh := vrun.Catch(func() {
		gAdv = face.HorizontalAdvance(font.GID(gid))
		gVAdv = face.VerticalAdvance(font.GID(gid))
		gExt, gExtOK = face.GlyphExtents(font.GID(gid))
		gData = face.GlyphData(font.GID(gid))
	})
	if pv != nil {
		w := wit("panic")
		w.Values["go"] = fmt.Sprint("panic: ", pv)
		m.violation(l, "C10/panic/"+vrun.TopFrame(wh), fmt.Sprintf("%s: panic %v at %s", where(), pv, wh), w)
		return
	}
	var gSegs []ot.Segment
	switch d := gData.(type) {
	case font.GlyphOutline:
		gSegs = d.Segments
	case font.GlyphBitmap:
		if d.Outline != nil {
			gSegs = d.Outline.Segments
		}
	case font.GlyphSVG:
		gSegs = d.Outline.Segments
	}
	gOut := goOutline(gSegs)

	// ---- references
	var (
		hbOut, ftOut, xiOut outline
		hbHas, ftHas, xiHas bool
		ftG                 ftref.Glyph
		xiRaw               sfnt.Segments
	)
	if rf.hb != nil {
		if s, err := rf.hb.Shape(gid); err == nil {
			hbOut, hbHas = hbOutline(s), true
		}
	}
	ftLoaded := false
	if rf.ftOK {
		if g, err := rf.ft.Load(gid); err == nil {
			ftLoaded, ftG = true, g
			if g.IsOutline {
				if s, err := rf.ft.Decompose(); err == nil {
					ftOut, ftHas = ftOutline(s), true
				}
			}
		} else {
			l.inc("ref/ft/load-glyph-error")
		}
	}
	xiShift := 0.0 // x/image does not move the outline to the left side bearing
	if rf.xi != nil && !isVar && fi.tabK != "cff2" {
		ppem := fixed.Int26_6(rf.xi.UnitsPerEm())
		if s, err := rf.xi.LoadGlyph(&rf.xbuf, sfnt.GlyphIndex(gid), ppem, nil); err == nil {
			xiRaw = append(sfnt.Segments(nil), s...)
			xiOut, xiHas = xiOutline(s), true
			switch {
			case fi.tabK == "glyf" && !raw.ok, fi.tabK == "glyf+cff":
				xiHas = false
			case fi.tabK == "glyf" && useMyMetrics:
				// the shift to the left side bearing then follows the component's
				// metrics, which this harness does not model for x/image
				xiHas = false
				l.inc("ref/ximage/skipped: USE_MY_METRICS composite (left-side-bearing shift not modelled)")
			case fi.tabK == "glyf":
				if _, xMin, _, _, _, ok := raw.glyfHeader(int(gid)); ok {
					if lsb, ok := raw.lsb(int(gid)); ok {
						xiShift = float64(lsb - xMin)
					} else {
						xiHas = false
					}
				}
				xiOut.translate(xiShift, 0)
			case fi.tabK == "cff" && (gOut.hasFraction() || (hbHas && hbOut.hasFraction())):
				// x/image rounds every fractional charstring operand: not a decoder of such glyphs
				xiHas = false
				l.inc("ref/ximage/skipped: fractional CFF operands (x/image rounds each operand)")
			}
		} else {
			l.inc("ref/ximage/load-glyph-error")
		}
	}

	nontrivial := len(gOut) > 0

	// ---- horizontal advance
	{
		g := float64(gAdv)
		type rv struct {
			v, tol float64
		}
		var obs []refObs
		var vals []rv
		addRef := func(name string, v, tol float64) {
			ok := math.Abs(v-g) <= tol
			obs = append(obs, refObs{name, ok, fmt.Sprint(v)})
			vals = append(vals, rv{v, tol})
			l.inc("cmp/hadvance/" + name + "=" + agreeStr(ok))
		}
		tHB, tFT := eps, eps
		if isVar {
			// HarfBuzz rounds to the nearest integer; FreeType interpolates in
			// 16.16 with its own finer normalized coordinates and rounds
			tHB, tFT = 0.75, 1.5+eps
		}
		if rf.hb != nil {
			addRef("hb", float64(rf.hb.HAdvance(gid)), tHB)
		}
		if ftLoaded {
			addRef("ft", float64(ftG.HoriAdvance), tFT)
		}
		if isVar && raw.ok && raw.hvar != nil {
			if base, ok := raw.hAdvance(int(gid)); ok {
				if d, ok := raw.hvar.advanceDelta(int(gid), coords); ok {
					addRef("raw", float64(base)+d, 0.01)
				}
			}
		}
		if !isVar {
			if rf.xi != nil {
				if a, err := rf.xi.GlyphAdvance(&rf.xbuf, sfnt.GlyphIndex(gid), fixed.Int26_6(rf.xi.UnitsPerEm()), 0); err == nil {
					addRef("ximage", float64(a), eps)
				}
			}
			if raw.ok {
				if a, ok := raw.hAdvance(int(gid)); ok {
					addRef("raw", float64(a), eps)
				}
			}
		}
		v, who := judge(obs, func(i, j int) bool { return math.Abs(vals[i].v-vals[j].v) <= vals[i].tol+vals[j].tol })
		cls := "hmtx"
		if isVar {
			cls = "hmtx+HVAR"
			if !raw.has("HVAR") {
				cls = "hmtx+gvar-phantoms"
			}
		}
		if v == vSplit && who == "ft" {
			rawAgrees := false
			for _, o := range obs {
				if o.name == "raw" && o.agree {
					rawAgrees = true
				}
			}
			switch {
			case useMyMetrics:
				cls += " [USE_MY_METRICS composite whose own hmtx/HVAR entry differs from the component's: FreeType takes the component's metrics]"
			case isVar && rawAgrees:
				cls += " [HVAR evaluated from the raw table agrees with the library and HarfBuzz; FreeType 2.12.1 differs]"
			case ftG.HoriAdvance < 0:
				cls += " [negative phantom-point advance: FreeType does not clamp to 0]"
			}
		}
		v = hbDecides(v, who, isVar, cls)
		m.record(l, fi, "hadvance", cls, v, who, func() (string, Witness) {
			w := wit("hadvance")
			w.Values["go"] = fmt.Sprint(g)
			for _, o := range obs {
				w.Values[o.name] = o.val
			}
			return fmt.Sprintf("%s: HorizontalAdvance go=%v %s", where(), g, obsStr(obs)), w
		})
		if g != 0 {
			nontrivial = true
		}
	}

	// ---- vertical advance (only where a vmtx table exists: without it every
	// decoder applies its own fallback convention, which is not decoding)
	if raw.ok && raw.has("vmtx") && raw.has("vhea") {
		g := float64(gVAdv)
		type rv struct {
			v, tol float64
		}
		var obs []refObs
		var vals []rv
		addRef := func(name string, v, tol float64) {
			ok := math.Abs(v-g) <= tol
			obs = append(obs, refObs{name, ok, fmt.Sprint(v)})
			vals = append(vals, rv{v, tol})
			l.inc("cmp/vadvance/" + name + "=" + agreeStr(ok))
		}
		tHB, tFT := eps, eps
		if isVar {
			tHB, tFT = 0.75, 1.5+eps
		}
		if rf.hb != nil {
			addRef("hb", float64(rf.hb.VAdvance(gid)), tHB)
		}
		if isVar && raw.vvar != nil {
			if base, ok := raw.vAdvance(int(gid)); ok {
				if d, ok := raw.vvar.advanceDelta(int(gid), coords); ok {
					addRef("raw", -(float64(base) + d), 0.01)
				}
			}
		}
		if ftLoaded && rf.ft.HasVertical() {
			addRef("ft", -float64(ftG.VertAdvance), tFT)
		}
		if !isVar {
			if a, ok := raw.vAdvance(int(gid)); ok {
				addRef("raw", -float64(a), eps)
			}
		}
		v, who := judge(obs, func(i, j int) bool { return math.Abs(vals[i].v-vals[j].v) <= vals[i].tol+vals[j].tol })
		cls := "vmtx"
		if isVar {
			cls = "vmtx+VVAR"
			if !raw.has("VVAR") {
				cls = "vmtx+gvar-phantoms"
			}
		}
		if v == vSplit && who == "ft" && useMyMetrics {
			cls += " [USE_MY_METRICS composite: FreeType takes the component's metrics]"
		} else if v == vSplit && who == "ft" && isVar {
			for _, o := range obs {
				if o.name == "raw" && o.agree {
					cls += " [VVAR evaluated from the raw table agrees with the library and HarfBuzz; FreeType 2.12.1 differs]"
				}
			}
		}
		if !isVar && v == vViolated {
			v = vObserved // the statement names horizontal advances only for static faces
		}
		v = hbDecides(v, who, isVar, cls)
		m.record(l, fi, "vadvance", cls, v, who, func() (string, Witness) {
			w := wit("vadvance")
			w.Values["go"] = fmt.Sprint(g)
			for _, o := range obs {
				w.Values[o.name] = o.val
			}
			return fmt.Sprintf("%s: VerticalAdvance go=%v %s", where(), g, obsStr(obs)), w
		})
	}

	// ---- outline
	{
		var obs []refObs
		var outs []outline
		var tols []tolFn
		var skips []float64
		add := func(name string, o outline, tol tolFn, skip float64) {
			d := outlineDiff(gOut, o, tol, skip)
			obs = append(obs, refObs{name, d == "", d})
			outs = append(outs, o)
			tols = append(tols, tol)
			skips = append(skips, skip)
			l.inc("cmp/outline/" + name + "=" + agreeStr(d == ""))
			if isVar {
				if dev, same := maxDeviation(gOut, o); same {
					l.inc("deviation/outline-var/" + name + "/" + devBucket(dev))
				} else {
					l.inc("deviation/outline-var/" + name + "/structure-differs")
				}
			}
		}
		if hbHas {
			if isVar {
				add("hb", hbOut, tolVarHB, 0.5)
			} else {
				add("hb", hbOut, tolExact, 0)
			}
		}
		if ftHas {
			switch {
			case isVar && composite:
				add("ft", ftOut, tolVarFTComposite, 3)
			case isVar:
				add("ft", ftOut, tolVarFT, 2)
			case transformed:
				// integer rounding of transformed points can merge or split neighbours
				add("ft", ftOut, tolFTStatic(true), 1.5)
			default:
				add("ft", ftOut, tolFTStatic(false), 0)
			}
		}
		if xiHas {
			if transformed {
				add("ximage", xiOut, tolXI(true), 1.5)
			} else {
				add("ximage", xiOut, tolXI(false), 0)
			}
		}
		v, who := judge(obs, func(i, j int) bool {
			return outlineDiff(outs[i], outs[j], sumTol(tols[i], tols[j]), math.Max(skips[i], skips[j])) == ""
		})
		cls := tabK + "/" + gkind
		if gData == nil {
			cls = fi.tabK + "/no-glyph-data"
		}
		m.record(l, fi, "outline", cls, v, who, func() (string, Witness) {
			w := wit("outline")
			w.Values["go"] = gOut.String()
			if gData == nil {
				w.Values["go"] = "GlyphData returned nil"
			}
			for i, o := range obs {
				w.Values[o.name] = outs[i].String()
				w.Values[o.name+"-diff"] = o.val
			}
			return fmt.Sprintf("%s (%s): outline go={%s} %s", where(), cls, w.Values["go"], obsStr(obs)), w
		})
		l.add("segments-compared", int64(gOut.nsegs()))
	}

	// ---- extents
	{
		noContours := len(gOut) == 0 && (!hbHas || len(hbOut) == 0) && (!ftHas || ftG.NPoints == 0) && (hbHas || ftHas)
		hasStrikes := raw.has("sbix") || raw.has("CBDT") || raw.has("EBDT") || raw.has("bdat")
		gb := extBox(float64(gExt.XBearing), float64(gExt.YBearing), float64(gExt.Width), float64(gExt.Height))
		var obs []refObs
		var vals []box
		var tols []tolFn
		add := func(name string, b box, tol tolFn) {
			ok := boxNear(gb, b, tol)
			obs = append(obs, refObs{name, ok, b.String()})
			vals = append(vals, b)
			tols = append(tols, tol)
			l.inc("cmp/extents/" + name + "=" + agreeStr(ok))
		}
		var hbB box
		hbOK := false
		if rf.hb != nil {
			var e hbfont.Extents
			e, hbOK = rf.hb.GlyphExtents(gid)
			hbB = extBox(float64(e.XBearing), float64(e.YBearing), float64(e.Width), float64(e.Height))
			if hbOK != gExtOK {
				l.inc(fmt.Sprintf("extents-availability: go=%v hb=%v (%s)", gExtOK, hbOK, fi.tabK))
			}
		}
		mutual := func(i, j int) bool { return boxNear(vals[i], vals[j], sumTol(tols[i], tols[j])) }
		switch {
		case !gExtOK:
			l.inc("verdict/extents=not-available-in-library")
			// two decoders that both see a non-empty, identical box while the
			// library has none at all: same defect family as a missing outline
			if hbOK && ftHas && ftG.NPoints > 0 && gData == nil {
				fb := box{float64(ftG.XMin), float64(ftG.YMin), float64(ftG.XMax), float64(ftG.YMax)}
				t := tolFn(tolVarFTComposite)
				if boxNear(hbB, fb, t) && (hbB[2] > hbB[0] || hbB[3] > hbB[1]) {
					w := wit("extents")
					w.Values["go"] = "GlyphExtents returned false, GlyphData nil"
					w.Values["hb"], w.Values["ft"] = hbB.String(), fb.String()
					l.inc("verdict/extents=violated")
					l.inc("violated-observations-by-face/" + fi.id)
					m.run.Violation("C10/extents/"+fi.tabK+"/no-glyph-data", fmt.Sprintf("%s: GlyphExtents reports no extents and GlyphData is nil, hb=%v ft=%v", where(), hbB, fb), w)
				}
			}
		case noContours && hasStrikes:
			// metrics of a bitmap strike scaled to font units: HarfBuzz is the
			// only other reader, and it rounds the scaled values
			if hbOK {
				add("hb", hbB, tolVar) // scaled from the strike's ppem to font units, rounded by HarfBuzz
			}
			v, who := judge(obs, mutual)
			m.record(l, fi, "extents", "bitmap-strike", v, who, func() (string, Witness) {
				return fmt.Sprintf("%s: bitmap strike extents go=%v %s", where(), gb, obsStr(obs)), wit("extents")
			})
		case noContours:
			// A glyph without contours has an empty box in every decoder (width
			// = height = 0 is checked); where the empty box is *placed* is a
			// convention (HarfBuzz/FreeType: origin; library: at the left side
			// bearing), not a decoded quantity.
			if gExt.Width != 0 || gExt.Height != 0 {
				w := wit("extents")
				w.Values["go"] = gb.String()
				if hbOK {
					w.Values["hb"] = hbB.String()
				}
				m.violation(l, "C10/extents/"+tabK+"/empty-glyph-nonempty-box", fmt.Sprintf("%s: glyph without contours in all decoders has extents %+v", where(), gExt), w)
			} else if gExt.XBearing != 0 || gExt.YBearing != 0 {
				l.inc("verdict/extents=empty-glyph-box-placement-convention")
				m.run.Inconclusive("extents/" + fi.tabK + " [glyph without contours in every decoder: empty box (width=height=0 everywhere) placed at (lsb,0) by the library, at the origin by HarfBuzz/FreeType: placement of an empty box is a convention]")
			} else {
				l.inc("verdict/extents=held")
			}
		default:
			if hbOK {
				t := tolFn(tolExact)
				if isVar {
					t = tolHalf
				}
				add("hb", hbB, t)
			}
			if ftHas && ftG.NPoints > 0 {
				// the library rounds the box of a CFF glyph, FreeType truncates every point
				t := tolFTStatic(transformed || (fi.tabK != "glyf" && (gOut.hasFraction() || (hbHas && hbOut.hasFraction()))))
				if isVar {
					t = tolVarFT
					if composite {
						t = tolVarFTComposite
					}
				}
				add("ft", box{float64(ftG.XMin), float64(ftG.YMin), float64(ftG.XMax), float64(ftG.YMax)}, t)
			}
			if xiHas && len(xiRaw) > 0 {
				// control box of everything x/image emits (incl. single-point contours)
				first := true
				var b box
				for si, sg := range xiRaw {
					if sg.Op == sfnt.SegmentOpMoveTo && (si+1 == len(xiRaw) || xiRaw[si+1].Op == sfnt.SegmentOpMoveTo) {
						continue // a bare moveto draws nothing
					}
					n := 1
					if sg.Op == sfnt.SegmentOpQuadTo {
						n = 2
					} else if sg.Op == sfnt.SegmentOpCubeTo {
						n = 3
					}
					for i := 0; i < n; i++ {
						x, y := float64(sg.Args[i].X)+xiShift, -float64(sg.Args[i].Y)
						if first {
							b, first = box{x, y, x, y}, false
						}
						b[0], b[1], b[2], b[3] = math.Min(b[0], x), math.Min(b[1], y), math.Max(b[2], x), math.Max(b[3], y)
					}
				}
				add("ximage", b, tolXI(transformed))
			}
			if !isVar && fi.tabK == "glyf" && raw.ok {
				// the stored header box, placed at the left side bearing
				if nc, x0, y0, x1, y1, ok := raw.glyfHeader(int(gid)); ok && nc != 0 {
					if lsb, ok := raw.lsb(int(gid)); ok {
						w := math.Abs(float64(x1 - x0))
						add("raw", box{float64(lsb), math.Min(float64(y0), float64(y1)), float64(lsb) + w, math.Max(float64(y0), float64(y1))}, tolExact)
					}
				}
			}
			v, who := judge(obs, mutual)
			cls := tabK + "/" + gkind
			if v == vSplit && fi.tabK == "glyf" && !isVar {
				rawAgrees := false
				for _, o := range obs {
					if o.name == "raw" && o.agree {
						rawAgrees = true
					}
				}
				if rawAgrees && (who == "ft" || who == "ximage" || who == "ft+ximage") {
					cls = "glyf [stored header box differs from the control box of the points; library and HarfBuzz read the header, FreeType and x/image recompute]"
				}
			}
			v = hbDecides(v, who, isVar, cls)
			m.record(l, fi, "extents", cls, v, who, func() (string, Witness) {
				w := wit("extents")
				w.Values["go"] = gb.String()
				for _, o := range obs {
					w.Values[o.name] = o.val
				}
				return fmt.Sprintf("%s (%s %s): GlyphExtents go=%v %s", where(), tabK, gkind, gb, obsStr(obs)), w
			})
		}
	}

	// ---- glyph name (static pass only)
	if !isVar {
		var gName string
		if pv, wh := vrun.Catch(func() { gName = face.GlyphName(font.GID(gid)) }); pv != nil {
			w := wit("panic")
			m.violation(l, "C10/panic/"+vrun.TopFrame(wh), fmt.Sprintf("%s: GlyphName panic %v at %s", where(), pv, wh), w)
		} else {
			var obs []refObs
			if rf.hb != nil {
				n, ok := rf.hb.GlyphName(gid)
				if !ok {
					n = ""
				}
				obs = append(obs, refObs{"hb", n == gName, fmt.Sprintf("%q", n)})
				l.inc("cmp/glyphname/hb=" + agreeStr(n == gName))
			}
			if rf.ft != nil && rf.ft.IsSFNT() && rf.ft.HasGlyphNames() {
				if n, ok := rf.ft.GlyphName(gid); ok {
					obs = append(obs, refObs{"ft", n == gName, fmt.Sprintf("%q", n)})
					l.inc("cmp/glyphname/ft=" + agreeStr(n == gName))
				}
			}
			v, who := judge(obs, func(i, j int) bool { return obs[i].val == obs[j].val })
			if v == vViolated {
				v = vObserved // glyph names are not among the quantities of the statement
			}
			m.record(l, fi, "glyphname", "post-or-cff", v, who, func() (string, Witness) {
				w := wit("glyphname")
				w.Values["go"] = fmt.Sprintf("%q", gName)
				for _, o := range obs {
					w.Values[o.name] = o.val
				}
				return fmt.Sprintf("%s: GlyphName go=%q %s", where(), gName, obsStr(obs)), w
			})
		}
	}

	if nontrivial {
		m.run.Nontrivial(vrun.Hash64(fi.id, gid, st.name, fmt.Sprint(st.design)))
		l.inc("glyphs/nontrivial")
	}
	l.inc("glyphs/" + tabK + "/" + gkind)
	if m.run.WantSample() && nontrivial && gid%7 == 3 {
		m.run.Sample(map[string]any{"font": fi.id, "gid": gid, "design": st.design, "hadvance": gAdv,
			"extents": fmt.Sprintf("%+v", gExt), "segments": gOut.nsegs(), "contours": len(gOut),
			"references": fmt.Sprintf("hb=%v ft=%v ximage=%v raw=%v", hbHas, ftHas, xiHas, raw.ok)})
	}
}

// hbDecides: for variable-font settings the statement names one reference, the shaper's
// font functions. When HarfBuzz is the only reference heard for an observation and it
// differs (and no documented skew class explains the difference), that is a violation,
// not an inconclusive "single reference differs".
func hbDecides(v verdict, who string, isVar bool, class string) verdict {
	if isVar && v == vSingle && who == "hb" && !strings.Contains(class, "[") {
		return vViolated
	}
	return v
}
