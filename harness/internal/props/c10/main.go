package c10

import (
	"fmt"
	"math"
	"runtime"
	"sort"
	"strings"

	"github.com/go-text/typesetting/font"
	"golang.org/x/image/font/sfnt"
	"golang.org/x/image/math/fixed"

	"verifharness/internal/corpus"
	"verifharness/internal/ftref"
	"verifharness/internal/gen"
	"verifharness/internal/hbfont"
	"verifharness/internal/props/c11"
	"verifharness/internal/vrun"
)

const chunkGlyphs = 2048

// kinds used for the round-robin choice of the quick tier, in priority order
var kindOrder = []string{"cff2", "bitmap", "collection", "var-hvar", "var-gvar", "cff", "glyf", "other"}

func classify(fr corpus.FaceRef, nFacesInFile int) *faceInfo {
	fi := &faceInfo{ref: fr, id: fr.String()}
	fi.raw = parseRaw(fr.File.Bytes(), fr.Index)
	raw := fi.raw
	fi.nGlyph = raw.numGlyphs
	fi.nAxes = len(raw.axes)
	switch {
	case raw.has("CFF2"):
		fi.tabK = "cff2"
	case raw.has("CFF ") && raw.has("glyf"):
		fi.tabK = "glyf+cff" // decoders choose differently; see skewClasses
	case raw.has("CFF "):
		fi.tabK = "cff"
	case raw.has("glyf"):
		fi.tabK = "glyf"
	default:
		fi.tabK = "none"
	}
	isBitmap := raw.has("EBDT") || raw.has("CBDT") || raw.has("sbix") || raw.has("bdat")
	isVar := fi.nAxes > 0
	add := func(k string) { fi.kinds = append(fi.kinds, k) }
	if fi.tabK == "cff2" {
		add("cff2")
	}
	if isBitmap {
		add("bitmap")
	}
	if nFacesInFile > 1 {
		add("collection")
	}
	if isVar && raw.has("HVAR") {
		add("var-hvar")
	}
	if isVar && raw.has("gvar") && !raw.has("HVAR") {
		add("var-gvar")
	}
	if fi.tabK == "cff" || fi.tabK == "glyf+cff" {
		add("cff")
	}
	if fi.tabK == "glyf" {
		add("glyf")
	}
	if !raw.ok {
		add("other") // woff / dfont container: no raw-table witness
	}
	if len(fi.kinds) == 0 {
		add("other")
	}
	fi.kind = fi.kinds[0]
	return fi
}

// designSettings lists the design-coordinate configurations of a variable face.
func designSettings(fi *faceInfo, seed int64, nRandom int) []*setting {
	ax := fi.raw.axes
	n := len(ax)
	if n == 0 {
		return nil
	}
	def := func() []float32 {
		d := make([]float32, n)
		for i, a := range ax {
			d[i] = float32(a.Def)
		}
		return d
	}
	var out []*setting
	add := func(name string, d []float32, via []int) {
		out = append(out, &setting{name: name, design: d, via: via})
	}
	add("default", def(), nil)
	lim := n
	if lim > 8 {
		lim = 8
	}
	for i := 0; i < lim; i++ {
		if ax[i].Min != ax[i].Def {
			d := def()
			d[i] = float32(ax[i].Min)
			add(fmt.Sprintf("axis%d-min", i), d, nil)
		}
		if ax[i].Max != ax[i].Def {
			d := def()
			d[i] = float32(ax[i].Max)
			add(fmt.Sprintf("axis%d-max", i), d, nil)
		}
	}
	if n > 1 {
		lo, hi := def(), def()
		for i, a := range ax {
			lo[i], hi[i] = float32(a.Min), float32(a.Max)
		}
		add("all-min", lo, nil)
		add("all-max", hi, nil)
	}
	below, above := def(), def()
	for i, a := range ax {
		span := a.Max - a.Min + 1
		below[i], above[i] = float32(a.Min-span), float32(a.Max+span)
	}
	add("outside-below", below, nil)
	add("outside-above", above, nil)
	// avar knees and the middle of each avar segment
	knees := 0
	for i := 0; i < n && i < len(fi.raw.avar) && knees < 12; i++ {
		m := fi.raw.avar[i]
		toDesign := func(v float64) float32 {
			if v < 0 {
				return float32(ax[i].Def + v*(ax[i].Def-ax[i].Min))
			}
			return float32(ax[i].Def + v*(ax[i].Max-ax[i].Def))
		}
		for j := 0; j < len(m) && knees < 12; j++ {
			from := m[j][0]
			if from != -16384 && from != 0 && from != 16384 {
				d := def()
				d[i] = toDesign(float64(from) / 16384)
				add(fmt.Sprintf("axis%d-knee%d", i, j), d, nil)
				knees++
			}
			if j+1 < len(m) && m[j+1][0]-from > 1 && knees < 12 {
				d := def()
				d[i] = toDesign((float64(from) + float64(m[j+1][0])) / 2 / 16384)
				add(fmt.Sprintf("axis%d-mid%d", i, j), d, nil)
				knees++
			}
		}
	}
	for k := 0; k < nRandom; k++ {
		r := gen.New(seed, "C10/design/"+fi.id, k)
		d := def()
		var via []int
		subset := k%2 == 1 // every other random setting goes through SetVariations on a subset of axes
		for i, a := range ax {
			if subset && n > 1 && r.Chance(1, 3) {
				continue
			}
			u := float64(r.Intn(1025)) / 1024
			d[i] = float32(a.Min + (a.Max-a.Min)*u)
			via = append(via, i)
		}
		if !subset {
			via = nil
		} else if len(via) == 0 {
			via = []int{0}
			d[0] = float32(ax[0].Min + (ax[0].Max-ax[0].Min)*0.25)
		}
		add(fmt.Sprintf("random%d", k), d, via)
	}
	return out
}

type unit struct {
	fi     *faceInfo
	what   int // 0 font-level + cmap, 1 glyph range
	st     *setting
	lo, hi int
}

func (m *monitor) runUnit(u unit, worker int) {
	l := m.newLocal()
	defer m.merge(l)
	rf := openRefs(m.libs[worker], u.fi)
	defer rf.close()
	if rf.hb == nil {
		l.inc("ref/hb/rejects-face")
	}
	if !rf.ftOK {
		l.inc("ref/ft/rejects-face-or-not-scalable")
	}
	if rf.xi == nil {
		l.inc("ref/ximage/rejects-face")
	}
	switch u.what {
	case 0:
		m.checkFontLevel(l, u.fi, rf)
		m.checkCmap(l, u.fi, rf)
	case 1:
		face, gc, ok := m.applySetting(l, u.fi, rf, u.st)
		if !ok {
			return
		}
		if u.st.isVar() && u.lo == 0 {
			m.run.Eval(1)
			m.checkCoords(l, u.fi, rf, u.st, gc)
		}
		for g := u.lo; g < u.hi; g++ {
			m.checkGlyph(l, u.fi, rf, face, u.st, gc, uint32(g))
		}
	}
}

func (m *monitor) unitsFor(fi *faceInfo, nRandom int) []unit {
	var us []unit
	us = append(us, unit{fi: fi, what: 0})
	static := &setting{name: "static"}
	sts := []*setting{static}
	sts = append(sts, designSettings(fi, m.run.Seed, nRandom)...)
	for _, st := range sts {
		for lo := 0; lo < fi.nGlyph; lo += chunkGlyphs {
			hi := lo + chunkGlyphs
			if hi > fi.nGlyph {
				hi = fi.nGlyph
			}
			us = append(us, unit{fi: fi, what: 1, st: st, lo: lo, hi: hi})
		}
	}
	return us
}

// synthFaces registers the harness-built fonts with well-formed but unusual character
// maps (c11.WellFormedCmapFonts) and returns their references.
func synthFaces() []corpus.FaceRef {
	var out []corpus.FaceRef
	for _, nf := range c11.WellFormedCmapFonts() {
		f := corpus.RegisterMem("synth/cmap/"+nf.Name+".ttf", nf.Data)
		if fs, err := f.Fonts(); err == nil && len(fs) == 1 {
			out = append(out, corpus.FaceRef{File: f, Index: 0})
		}
	}
	return out
}

func Main() {
	run := vrun.Start("C10")
	synth := synthFaces()
	m := &monitor{run: run, stats: map[string]int64{}, examples: map[string][]string{}}
	nw := runtime.GOMAXPROCS(0)
	for i := 0; i < nw; i++ {
		lib, err := ftref.NewLibrary()
		if err != nil {
			fmt.Println("FreeType:", err)
			run.Inconclusive("FreeType library unavailable")
			run.Finish(vrun.Level{Level: "exploration", Rule: "references unavailable", Floor: 1})
		}
		m.libs = append(m.libs, lib)
	}
	run.Extra("references", map[string]string{"harfbuzz": hbfont.Version(), "freetype": m.libs[0].Version(), "x/image": "v0.23.0"})

	if run.Replay != "" {
		m.replay()
		return
	}
	if len(run.Args) > 0 && run.Args[0] == "probe" {
		m.probe(run.Args[1:])
		return
	}

	// ---- faces
	all := corpus.Faces()
	perFile := map[string]int{}
	for _, fr := range all {
		perFile[fr.File.ID]++
	}
	infos := make([]*faceInfo, len(all))
	vrun.ParallelFor(len(all), func(i int) { infos[i] = classify(all[i], perFile[all[i].File.ID]) })
	var chosen []*faceInfo
	if run.Thorough() {
		chosen = infos
	} else {
		// ~70 faces: the 4 faces with the most glyphs of every kind (the corpus
		// is dominated by 100-glyph test fonts; the few real-world fonts are the
		// ones that use the rare operators), then round-robin over the kinds in
		// an order given by the seed.
		byKind := map[string][]*faceInfo{}
		for _, fi := range infos {
			// the quick tier leaves the very large faces to the thorough tier
			if fi.nGlyph > 12000 {
				continue
			}
			byKind[fi.kind] = append(byKind[fi.kind], fi)
		}
		taken := map[*faceInfo]bool{}
		for _, k := range kindOrder {
			l := append([]*faceInfo(nil), byKind[k]...)
			sort.SliceStable(l, func(i, j int) bool { return l[i].nGlyph > l[j].nGlyph })
			for i := 0; i < 4 && i < len(l); i++ {
				chosen = append(chosen, l[i])
				taken[l[i]] = true
			}
		}
		for ki, k := range kindOrder {
			gen.Shuffle(gen.New(run.Seed, "C10/faces/"+k, ki), byKind[k])
		}
		const want = 72
		for round := 0; len(chosen) < want; round++ {
			any := false
			for _, k := range kindOrder {
				if round < len(byKind[k]) {
					any = true
					if fi := byKind[k][round]; !taken[fi] && len(chosen) < want {
						chosen = append(chosen, fi)
						taken[fi] = true
					}
				}
			}
			if !any {
				break
			}
		}
	}
	// harness-built character maps: every run, both tiers
	for _, fr := range synth {
		fi := classify(fr, 1)
		chosen = append(chosen, fi)
		run.Cover("faces/synthetic-cmap")
	}
	nRandom := run.Pick(2, 5)
	var units []unit
	for _, fi := range chosen {
		run.Cover("faces/kind=" + fi.kind)
		for _, k := range fi.kinds {
			run.Cover("faces/has=" + k)
		}
		units = append(units, m.unitsFor(fi, nRandom)...)
	}
	if !run.Thorough() {
		// the very large faces (CJK, CID-keyed CFF) are sampled in the quick tier: static
		// setting, the first chunks of glyph ids plus chunks spread over the glyph range
		var large []*faceInfo
		for _, fi := range infos {
			if fi.nGlyph > 12000 {
				large = append(large, fi)
			}
		}
		gen.Shuffle(gen.New(run.Seed, "C10/large-faces", 0), large)
		if len(large) > 10 {
			large = large[:10]
		}
		static := &setting{name: "static"}
		for _, fi := range large {
			run.Cover("faces/large-sampled")
			seen := map[int]bool{}
			for j := 0; j < 12; j++ {
				lo := j * chunkGlyphs // the first chunks
				if j >= 4 {
					lo = (j - 4) * fi.nGlyph / 8 / chunkGlyphs * chunkGlyphs
				}
				if lo >= fi.nGlyph || seen[lo] {
					continue
				}
				seen[lo] = true
				hi := lo + chunkGlyphs
				if hi > fi.nGlyph {
					hi = fi.nGlyph
				}
				units = append(units, unit{fi: fi, what: 1, st: static, lo: lo, hi: hi})
			}
		}
	}
	// large units first: better balance
	sort.SliceStable(units, func(i, j int) bool { return units[i].hi-units[i].lo > units[j].hi-units[j].lo })
	run.Extra("faces_chosen", len(chosen))
	run.Extra("faces_in_corpus", len(infos))
	run.Extra("work_units", len(units))

	vrun.ParallelChunks(len(units), 1, func(lo, hi, worker int) {
		for i := lo; i < hi; i++ {
			m.runUnit(units[i], worker)
		}
	})
	m.finish()
}

func (m *monitor) finish() {
	run := m.run
	keys := make([]string, 0, len(m.stats))
	for k := range m.stats {
		keys = append(keys, k)
	}
	sort.Strings(keys)
	for _, k := range keys {
		run.CoverN(k, m.stats[k])
	}
	// agreement rates per quantity and reference
	rates := map[string]string{}
	for _, k := range keys {
		if strings.HasPrefix(k, "cmp/") && strings.HasSuffix(k, "=agree") {
			base := strings.TrimSuffix(k, "=agree")
			a, d := m.stats[k], m.stats[base+"=differ"]
			rates[strings.TrimPrefix(base, "cmp/")] = fmt.Sprintf("%d/%d (%.4f%%)", a, a+d, 100*float64(a)/math.Max(1, float64(a+d)))
		}
	}
	for _, k := range keys {
		if strings.HasPrefix(k, "cmp/") && strings.HasSuffix(k, "=differ") {
			base := strings.TrimSuffix(k, "=differ")
			if _, ok := m.stats[base+"=agree"]; !ok {
				rates[strings.TrimPrefix(base, "cmp/")] = fmt.Sprintf("0/%d", m.stats[k])
			}
		}
	}
	run.Extra("agreement_library_vs_reference", rates)
	run.Extra("inconclusive_examples", m.examples)
	run.Extra("skew_classes", skewClasses)
	run.Finish(vrun.Level{
		Level: "exploration",
		Rule: "exhaustive per face: every glyph id (advance, extents, outline, name) and every code point enumerated by any decoder (character map), for faces without variations and for each design-coordinate setting of variable faces " +
			"(default, each axis min/max, all min/max, outside the range, avar knees and segment middles, random incl. SetVariations on axis subsets). quick = 72 faces: the 4 largest of each kind plus a seed-driven round-robin by kind (faces over 12000 glyphs left to thorough), 2 random settings; thorough = whole corpus, 5 random settings. " +
			"non-trivial = glyph with a non-empty outline or a non-zero advance, distinct by (face, gid, design coordinates), plus mapped runes distinct by (face, rune)",
		Assumptions: []string{
			"HarfBuzz 6.0.0, FreeType 2.12.1, x/image v0.23.0 are independent decoders of unmodified corpus bytes; raw.go reads head/hmtx/vmtx/glyf headers/fvar/avar directly",
			"consensus: violated only if >=2 references agree with each other and none supports the library; exact for static faces (documented integer-rounding allowances of FreeType and x/image), +-1 font unit for interpolated values",
			"glyph 0 and 'not mapped' are the same character-map answer",
			"vertical advances are compared only where a vmtx table exists",
		},
		Floor: 20000,
	})
}

// skewClasses documents the reference limitations that are counted as
// inconclusive instead of being judged (filled in from what was measured on
// the unchanged tree; see the final report of the monitor's author).
var skewClasses = map[string]string{
	"extents: empty-glyph-box-placement-convention":                         "glyph without contours in every decoder: all agree the box is empty (width=height=0, checked); HarfBuzz/FreeType put the empty box at the origin, the library at (lsb,0). Placement of an empty box is a convention, not a decoded quantity; counted under classes, not judged.",
	"extents: stored header box differs from the control box of the points": "static glyf glyph whose header xMin/yMin/xMax/yMax are not the control box of its points (raw header read by the harness agrees with the library and HarfBuzz; FreeType and x/image recompute from points).",
	"extents: bitmap-strike":                                                "glyph without outline in a face with sbix/CBDT/EBDT strikes: metrics scaled from strike ppem to font units; HarfBuzz is the only other reader (and rounds): single reference, +-1.",
	"hadvance/vadvance: USE_MY_METRICS composite":                           "FreeType gives such a composite the metrics of the flagged component; the font's own hmtx/HVAR entry (read raw by the harness) is what the library, HarfBuzz and x/image return.",
	"hadvance: negative phantom-point advance":                              "gvar fonts without HVAR where phantom points cross: library and HarfBuzz clamp to 0, FreeType does not.",
	"hadvance/vadvance: HVAR/VVAR evaluated from the raw table agrees":      "FreeType 2.12.1 returns another value (it falls back to gvar phantom points for some subset fonts); the harness's own Item Variation Store evaluation agrees with the library and HarfBuzz.",
	"normcoords: beyond an axis end that equals the default":                "FreeType 2.12.1 normalizes any out-of-range design value to +-1 even when that end of the axis is the default (should be 0); FreeType is then at another point of the design space and is not used for that setting.",
	"normcoords: exact negative half-way case":                              "pre-avar value exactly k-0.5 in 2.14: HarfBuzz 6.0.0 rounds half up (measured: -1.5 -> -1), the library and current upstream HarfBuzz round half away from zero; avar slope can turn the 1-unit difference into 2. FreeType's 16.16 value lies between.",
	"cmap: entry points beyond maxp.numGlyphs":                              "FreeType validates glyph indices and answers 0; HarfBuzz, x/image and the library return the stored index.",
	"cmap: symbol / Macintosh / several subtables":                          "the font offers several character maps with different content and the decoders prefer different ones (HarfBuzz and the library: symbol (3,0) first and U+F000 remapping; HarfBuzz 6.0.0 has no Macintosh-platform decoder).",
	"outline/extents: glyf+cff":                                             "face carrying both 'glyf' and 'CFF ': FreeType chooses by sfnt version, HarfBuzz always glyf, the library CFF for outlines and glyf for extents. Judged by consensus like any other face.",
	"ximage skipped":                                                        "x/image is not consulted for variable settings, CFF2, CFF glyphs with fractional operands (it rounds each operand), USE_MY_METRICS composites (left-side-bearing shift not modelled) and faces with both glyf and CFF.",
	"vadvance static, glyphname, hextents":                                  "not among the quantities of the statement: a consensus against the library is counted as inconclusive 'OUTSIDE THE STATEMENT (observed only)' and never raised.",
}

func (m *monitor) replay() {
	var w Witness
	if _, err := vrun.ReadReplay(m.run.Replay, &w); err != nil {
		fmt.Println("replay:", err)
		m.run.Finish(vrun.Level{Level: "exploration", Rule: "replay"})
	}
	fr, ok := corpus.ParseRef(w.Font)
	if !ok {
		fmt.Println("replay: unknown face", w.Font)
		m.run.Finish(vrun.Level{Level: "exploration", Rule: "replay"})
	}
	n := 0
	for _, x := range corpus.Faces() {
		if x.File.ID == fr.File.ID {
			n++
		}
	}
	fi := classify(fr, n)
	l := m.newLocal()
	rf := openRefs(m.libs[0], fi)
	defer rf.close()
	st := &setting{name: "replay", design: w.Design, via: w.ViaSet}
	switch w.Quantity {
	case "upem", "hextents":
		m.checkFontLevel(l, fi, rf)
	case "cmap":
		m.checkCmap(l, fi, rf)
	default:
		face, gc, ok := m.applySetting(l, fi, rf, st)
		if ok {
			if st.isVar() {
				m.checkCoords(l, fi, rf, st, gc)
			}
			if w.Quantity != "normcoords" {
				m.checkGlyph(l, fi, rf, face, st, gc, w.GID)
			}
		}
	}
	m.merge(l)
	m.run.Finish(vrun.Level{Level: "exploration", Rule: "replay"})
}

// probe prints what every decoder returns for one glyph (diagnostic aid:
// `bin/c10 probe <font-id#index> <gid> [d1,d2,...]`).
func (m *monitor) probe(args []string) {
	if len(args) < 2 {
		fmt.Println("usage: probe <font#idx> <gid> [design,coords]")
		return
	}
	fr, ok := corpus.ParseRef(args[0])
	if !ok {
		fmt.Println("unknown face")
		return
	}
	fi := classify(fr, 1)
	var gid int
	fmt.Sscanf(args[1], "%d", &gid)
	st := &setting{name: "probe"}
	if len(args) > 2 {
		for _, s := range strings.Split(args[2], ",") {
			var v float64
			fmt.Sscanf(s, "%g", &v)
			st.design = append(st.design, float32(v))
		}
	}
	rf := openRefs(m.libs[0], fi)
	defer rf.close()
	l := m.newLocal()
	fmt.Printf("face %s tab=%s kinds=%v nGlyphs=%d axes=%+v avar=%v rawok=%v\n", fi.id, fi.tabK, fi.kinds, fi.nGlyph, fi.raw.axes, fi.raw.avar, fi.raw.ok)
	fmt.Printf("refs: hb=%v ft=%v(ok=%v) ximage=%v\n", rf.hb != nil, rf.ft != nil, rf.ftOK, rf.xi != nil)
	face, gc, ok := m.applySetting(l, fi, rf, st)
	if !ok {
		return
	}
	if st.isVar() {
		fmt.Println("go coords", gc)
		if rf.hb != nil {
			fmt.Println("hb coords", rf.hb.NormalizedCoords())
		}
		if rf.ftOK {
			bc, err := rf.ft.BlendCoords(len(gc))
			fmt.Println("ft coords(16.16)", bc, err)
		}
	}
	g := uint32(gid)
	ck := fi.raw.compositeKind(gid, 0)
	nc, x0, y0, x1, y1, hok := fi.raw.glyfHeader(gid)
	lsb, _ := fi.raw.lsb(gid)
	radv, _ := fi.raw.hAdvance(gid)
	fmt.Printf("raw: compositeKind=%d header nc=%d box=%d,%d,%d,%d ok=%v lsb=%d adv=%d\n", ck, nc, x0, y0, x1, y1, hok, lsb, radv)
	fmt.Println("go adv", face.HorizontalAdvance(font.GID(g)), "vadv", face.VerticalAdvance(font.GID(g)))
	ge, gok := face.GlyphExtents(font.GID(g))
	fmt.Printf("go extents %+v %v\n", ge, gok)
	d := face.GlyphData(font.GID(g))
	fmt.Printf("go data type %T\n", d)
	if o, ok := d.(font.GlyphOutline); ok {
		fmt.Println("go outline", goOutline(o.Segments).String())
	}
	if rf.hb != nil {
		e, eok := rf.hb.GlyphExtents(g)
		fmt.Println("hb adv", rf.hb.HAdvance(g), "vadv", rf.hb.VAdvance(g), "extents", e, eok)
		s, _ := rf.hb.Shape(g)
		fmt.Println("hb outline", hbOutline(s).String())
		if o, ok := d.(font.GlyphOutline); ok {
			dev, same := maxDeviation(goOutline(o.Segments), hbOutline(s))
			fmt.Println("go-vs-hb max deviation", dev, same)
		}
	}
	if rf.ftOK {
		gl, err := rf.ft.Load(g)
		fmt.Printf("ft glyph %+v err=%v\n", gl, err)
		if err == nil && gl.IsOutline {
			s, _ := rf.ft.Decompose()
			fmt.Println("ft outline", ftOutline(s).String())
			if o, ok := d.(font.GlyphOutline); ok {
				dev, same := maxDeviation(goOutline(o.Segments), ftOutline(s))
				fmt.Println("go-vs-ft max deviation", dev, same)
			}
		}
	}
	if rf.xi != nil {
		s, err := rf.xi.LoadGlyph(&rf.xbuf, sfnt.GlyphIndex(g), fixed.Int26_6(rf.xi.UnitsPerEm()), nil)
		fmt.Println("ximage outline (unshifted)", xiOutline(s).String(), err)
	}
	if rf.hb != nil && rf.ftOK {
		hs, _ := rf.hb.Shape(g)
		if gl, err := rf.ft.Load(g); err == nil && gl.IsOutline {
			fs, _ := rf.ft.Decompose()
			fmt.Println("hb-vs-ft diff (ft static tolerance):", outlineDiff(hbOutline(hs), ftOutline(fs), sumTol(tolExact, tolFTStatic(false)), 0))
		}
	}
	m.checkGlyph(l, fi, rf, face, st, gc, g)
	for k, v := range l.stats {
		fmt.Println("  ", k, v)
	}
}
