package c10

import (
	"encoding/binary"
	"sync"
)

// Independent, minimal reader of the sfnt container and of the few tables
// whose values are pure read-outs (head.unitsPerEm, hmtx/vmtx advances and
// side bearings, glyf headers and composite flags, fvar axes, avar maps).
// It never goes through the library under test.

type rawFont struct {
	ok     bool
	tables map[string][]byte

	upem       int
	hasHead    bool
	numGlyphs  int
	numHM      int // hhea.numberOfHMetrics
	numVM      int
	locaLong   bool
	axes       []rawAxis
	avar       [][][2]int // per axis: (from,to) pairs in 2.14
	hvar, vvar *rawAdvVar
	cmapSubs   [][3]int // (platform, encoding, offset) of every cmap subtable
	transfMemo map[int]int8
	memoMu     sync.Mutex
}

type rawAxis struct {
	Tag           uint32
	Min, Def, Max float64
}

func be16(b []byte) int  { return int(binary.BigEndian.Uint16(b)) }
func bes16(b []byte) int { return int(int16(binary.BigEndian.Uint16(b))) }
func be32(b []byte) int  { return int(binary.BigEndian.Uint32(b)) }

// parseRaw reads face `index` of a plain sfnt or a 'ttcf' collection. Other
// containers (woff, dfont) are not handled: ok stays false and the raw-table
// witness is simply unavailable for that file.
func parseRaw(data []byte, index int) *rawFont {
	rf := &rawFont{tables: map[string][]byte{}, transfMemo: map[int]int8{}}
	if len(data) < 12 {
		return rf
	}
	off := 0
	switch string(data[:4]) {
	case "ttcf":
		n := be32(data[8:])
		if index >= n || 12+4*n > len(data) {
			return rf
		}
		off = be32(data[12+4*index:])
	case "\x00\x01\x00\x00", "OTTO", "true", "typ1":
		if index != 0 {
			return rf
		}
	default:
		return rf
	}
	if off+12 > len(data) {
		return rf
	}
	nt := be16(data[off+4:])
	if off+12+16*nt > len(data) {
		return rf
	}
	for i := 0; i < nt; i++ {
		e := data[off+12+16*i:]
		tag := string(e[:4])
		o, l := be32(e[8:]), be32(e[12:])
		if o < 0 || l < 0 || o+l > len(data) {
			continue
		}
		if _, dup := rf.tables[tag]; !dup {
			rf.tables[tag] = data[o : o+l]
		}
	}
	rf.ok = true
	if h := rf.tables["head"]; len(h) >= 54 {
		rf.hasHead = true
		rf.upem = be16(h[18:])
		rf.locaLong = be16(h[50:]) == 1
	}
	if m := rf.tables["maxp"]; len(m) >= 6 {
		rf.numGlyphs = be16(m[4:])
	}
	if h := rf.tables["hhea"]; len(h) >= 36 {
		rf.numHM = be16(h[34:])
	}
	if h := rf.tables["vhea"]; len(h) >= 36 {
		rf.numVM = be16(h[34:])
	}
	rf.parseFvar()
	rf.parseAvar()
	if t, ok := rf.tables["HVAR"]; ok {
		rf.hvar = parseAdvVar(t)
	}
	if t, ok := rf.tables["VVAR"]; ok {
		rf.vvar = parseAdvVar(t)
	}
	if t := rf.tables["cmap"]; len(t) >= 4 {
		n := be16(t[2:])
		for i := 0; i < n && 4+8*(i+1) <= len(t); i++ {
			e := t[4+8*i:]
			rf.cmapSubs = append(rf.cmapSubs, [3]int{be16(e), be16(e[2:]), be32(e[4:])})
		}
	}
	return rf
}

func (rf *rawFont) has(tag string) bool { _, ok := rf.tables[tag]; return ok }

// metric reads (advance, sideBearing) of gid from an hmtx/vmtx table with n
// long metrics; ok=false when the table does not cover the glyph in the
// regular way (then the raw witness abstains).
func rawMetric(tb []byte, n, numGlyphs, gid int) (adv, sb int, okAdv, okSb bool) {
	if n <= 0 || len(tb) < 4*n || gid >= numGlyphs {
		return
	}
	if gid < n {
		return be16(tb[4*gid:]), bes16(tb[4*gid+2:]), true, true
	}
	adv, okAdv = be16(tb[4*(n-1):]), true
	o := 4*n + 2*(gid-n)
	if o+2 <= len(tb) {
		sb, okSb = bes16(tb[o:]), true
	}
	return
}

func (rf *rawFont) hAdvance(gid int) (int, bool) {
	a, _, ok, _ := rawMetric(rf.tables["hmtx"], rf.numHM, rf.numGlyphs, gid)
	return a, ok
}

func (rf *rawFont) vAdvance(gid int) (int, bool) {
	a, _, ok, _ := rawMetric(rf.tables["vmtx"], rf.numVM, rf.numGlyphs, gid)
	return a, ok
}

func (rf *rawFont) lsb(gid int) (int, bool) {
	_, s, _, ok := rawMetric(rf.tables["hmtx"], rf.numHM, rf.numGlyphs, gid)
	return s, ok
}

// glyfData returns the bytes of one glyph record (nil: empty or unreadable).
func (rf *rawFont) glyfData(gid int) []byte {
	loca, glyf := rf.tables["loca"], rf.tables["glyf"]
	if gid < 0 || gid >= rf.numGlyphs {
		return nil
	}
	var a, b int
	if rf.locaLong {
		if 4*(gid+2) > len(loca) {
			return nil
		}
		a, b = be32(loca[4*gid:]), be32(loca[4*gid+4:])
	} else {
		if 2*(gid+2) > len(loca) {
			return nil
		}
		a, b = 2*be16(loca[2*gid:]), 2*be16(loca[2*gid+2:])
	}
	if a >= b || b > len(glyf) || b-a < 10 {
		return nil
	}
	return glyf[a:b]
}

// glyfHeader returns numberOfContours and the header box.
func (rf *rawFont) glyfHeader(gid int) (nc, xMin, yMin, xMax, yMax int, ok bool) {
	d := rf.glyfData(gid)
	if d == nil {
		return
	}
	return bes16(d), bes16(d[2:]), bes16(d[4:]), bes16(d[6:]), bes16(d[8:]), true
}

// Composite properties of a glyf glyph, by walking the component records.
const (
	cmpSimple      = 0
	cmpComposite   = 1  // composite, no transform
	cmpTransformed = 2  // some component (recursively) carries a scale / 2x2
	cmpAnchored    = 4  // some component is placed by point matching
	cmpScaledOff   = 8  // SCALED_COMPONENT_OFFSET used together with a transform
	cmpUseMyMetric = 16 // some component carries USE_MY_METRICS
)

func (rf *rawFont) compositeKind(gid, depth int) int8 {
	rf.memoMu.Lock()
	v, ok := rf.transfMemo[gid]
	rf.memoMu.Unlock()
	if ok {
		return v
	}
	if depth > 16 {
		return cmpComposite
	}
	d := rf.glyfData(gid)
	var out int8
	if d != nil && bes16(d) < 0 {
		out = cmpComposite
		p := d[10:]
		for len(p) >= 4 {
			flags := be16(p)
			child := be16(p[2:])
			p = p[4:]
			if flags&1 != 0 {
				if len(p) < 4 {
					break
				}
				p = p[4:]
			} else {
				if len(p) < 2 {
					break
				}
				p = p[2:]
			}
			if flags&2 == 0 {
				out |= cmpAnchored
			}
			if flags&0x0200 != 0 {
				out |= cmpUseMyMetric
			}
			tr := false
			switch {
			case flags&0x08 != 0:
				if len(p) < 2 {
					break
				}
				tr = bes16(p) != 0x4000
				p = p[2:]
			case flags&0x40 != 0:
				if len(p) < 4 {
					break
				}
				tr = bes16(p) != 0x4000 || bes16(p[2:]) != 0x4000
				p = p[4:]
			case flags&0x80 != 0:
				if len(p) < 8 {
					break
				}
				tr = bes16(p) != 0x4000 || bes16(p[2:]) != 0 || bes16(p[4:]) != 0 || bes16(p[6:]) != 0x4000
				p = p[8:]
			}
			if tr {
				out |= cmpTransformed
				if flags&0x0800 != 0 && flags&0x1000 == 0 {
					out |= cmpScaledOff
				}
			}
			ck := rf.compositeKind(child, depth+1)
			out |= ck &^ cmpComposite
			if flags&0x20 == 0 {
				break
			}
		}
	}
	rf.memoMu.Lock()
	rf.transfMemo[gid] = out
	rf.memoMu.Unlock()
	return out
}

func (rf *rawFont) parseFvar() {
	t := rf.tables["fvar"]
	if len(t) < 16 {
		return
	}
	off, cnt, size := be16(t[4:]), be16(t[8:]), be16(t[10:])
	if size < 20 {
		return
	}
	for i := 0; i < cnt; i++ {
		o := off + i*size
		if o+20 > len(t) {
			rf.axes = nil
			return
		}
		fx := func(b []byte) float64 { return float64(int32(binary.BigEndian.Uint32(b))) / 65536 }
		rf.axes = append(rf.axes, rawAxis{Tag: binary.BigEndian.Uint32(t[o:]), Min: fx(t[o+4:]), Def: fx(t[o+8:]), Max: fx(t[o+12:])})
	}
}

func (rf *rawFont) parseAvar() {
	t := rf.tables["avar"]
	if len(t) < 8 || be16(t) != 1 {
		return
	}
	n := be16(t[6:])
	p := t[8:]
	for i := 0; i < n; i++ {
		if len(p) < 2 {
			rf.avar = nil
			return
		}
		c := be16(p)
		p = p[2:]
		if len(p) < 4*c {
			rf.avar = nil
			return
		}
		var m [][2]int
		for j := 0; j < c; j++ {
			m = append(m, [2]int{bes16(p[4*j:]), bes16(p[4*j+2:])})
		}
		p = p[4*c:]
		rf.avar = append(rf.avar, m)
	}
}
