package c10

// Independent evaluation of HVAR / VVAR advance deltas from the raw table
// bytes (OpenType "Item Variation Store" and "DeltaSetIndexMap" formats,
// transcribed from the specification).

type rawIVS struct {
	axisCount int
	regions   [][][3]int // region -> axis -> (start, peak, end) in 2.14
	data      []rawIVD
}

type rawIVD struct {
	regionIdx []int
	deltas    [][]int // item -> one delta per region index
}

type rawAdvVar struct {
	ok      bool
	ivs     rawIVS
	hasMap  bool
	mapping []uint32 // raw entries
	inner   uint
}

func parseIVS(t []byte) (rawIVS, bool) {
	var s rawIVS
	if len(t) < 8 || be16(t) != 1 {
		return s, false
	}
	regOff := be32(t[2:])
	n := be16(t[6:])
	if 8+4*n > len(t) || regOff+4 > len(t) {
		return s, false
	}
	r := t[regOff:]
	s.axisCount = be16(r)
	rc := be16(r[2:])
	if 4+6*s.axisCount*rc > len(r) {
		return s, false
	}
	for i := 0; i < rc; i++ {
		var reg [][3]int
		for a := 0; a < s.axisCount; a++ {
			p := r[4+6*(i*s.axisCount+a):]
			reg = append(reg, [3]int{bes16(p), bes16(p[2:]), bes16(p[4:])})
		}
		s.regions = append(s.regions, reg)
	}
	for i := 0; i < n; i++ {
		off := be32(t[8+4*i:])
		if off == 0 || off+6 > len(t) {
			s.data = append(s.data, rawIVD{})
			continue
		}
		d := t[off:]
		itemCount := be16(d)
		wc := be16(d[2:])
		long := wc&0x8000 != 0
		wc &= 0x7FFF
		ric := be16(d[4:])
		if 6+2*ric > len(d) || wc > ric {
			return s, false
		}
		var ivd rawIVD
		for k := 0; k < ric; k++ {
			ivd.regionIdx = append(ivd.regionIdx, be16(d[6+2*k:]))
		}
		wsz, ssz := 2, 1
		if long {
			wsz, ssz = 4, 2
		}
		row := wc*wsz + (ric-wc)*ssz
		p := d[6+2*ric:]
		if itemCount*row > len(p) {
			return s, false
		}
		for it := 0; it < itemCount; it++ {
			q := p[it*row:]
			ds := make([]int, ric)
			for k := 0; k < ric; k++ {
				switch {
				case k < wc && long:
					ds[k] = int(int32(uint32(be32(q))))
					q = q[4:]
				case k < wc:
					ds[k] = bes16(q)
					q = q[2:]
				case long:
					ds[k] = bes16(q)
					q = q[2:]
				default:
					ds[k] = int(int8(q[0]))
					q = q[1:]
				}
			}
			ivd.deltas = append(ivd.deltas, ds)
		}
		s.data = append(s.data, ivd)
	}
	return s, true
}

func (s *rawIVS) scalar(region int, coords []int) float64 {
	if region >= len(s.regions) {
		return 0
	}
	sc := 1.0
	for a, r := range s.regions[region] {
		start, peak, end := r[0], r[1], r[2]
		c := 0
		if a < len(coords) {
			c = coords[a]
		}
		if peak == 0 || start > peak || peak > end || (start < 0 && end > 0) {
			continue
		}
		if c == peak {
			continue
		}
		if c <= start || c >= end {
			return 0
		}
		if c < peak {
			sc *= float64(c-start) / float64(peak-start)
		} else {
			sc *= float64(end-c) / float64(end-peak)
		}
	}
	return sc
}

func (s *rawIVS) delta(outer, inner int, coords []int) (float64, bool) {
	if outer >= len(s.data) {
		return 0, false
	}
	d := s.data[outer]
	if inner >= len(d.deltas) {
		return 0, false
	}
	sum := 0.0
	for k, ri := range d.regionIdx {
		sum += s.scalar(ri, coords) * float64(d.deltas[inner][k])
	}
	return sum, true
}

// parseAdvVar reads an HVAR or VVAR table.
func parseAdvVar(t []byte) *rawAdvVar {
	v := &rawAdvVar{}
	if len(t) < 12 || be16(t) != 1 {
		return v
	}
	ivsOff, mapOff := be32(t[4:]), be32(t[8:])
	if ivsOff == 0 || ivsOff >= len(t) {
		return v
	}
	var ok bool
	v.ivs, ok = parseIVS(t[ivsOff:])
	if !ok {
		return v
	}
	if mapOff != 0 {
		if mapOff+4 > len(t) {
			return v
		}
		m := t[mapOff:]
		format, ef := int(m[0]), int(m[1])
		var count int
		if format == 0 {
			count = be16(m[2:])
			m = m[4:]
		} else if format == 1 {
			if len(m) < 6 {
				return v
			}
			count = be32(m[2:])
			m = m[6:]
		} else {
			return v
		}
		esz := (ef&0x30)>>4 + 1
		v.inner = uint(ef&0x0F) + 1
		if count*esz > len(m) {
			return v
		}
		for i := 0; i < count; i++ {
			var e uint32
			for b := 0; b < esz; b++ {
				e = e<<8 | uint32(m[i*esz+b])
			}
			v.mapping = append(v.mapping, e)
		}
		v.hasMap = count > 0
	}
	v.ok = true
	return v
}

// advanceDelta returns the interpolated advance delta of a glyph.
func (v *rawAdvVar) advanceDelta(gid int, coords []int) (float64, bool) {
	if !v.ok {
		return 0, false
	}
	outer, inner := 0, gid
	if v.hasMap {
		i := gid
		if i >= len(v.mapping) {
			i = len(v.mapping) - 1
		}
		e := v.mapping[i]
		outer, inner = int(e>>v.inner), int(e&(1<<v.inner-1))
	}
	return v.ivs.delta(outer, inner, coords)
}
