package c10

import (
	"fmt"
	"math"
	"strings"
)

// Normal form of an outline: a list of closed contours, each a cyclic list
// of segments. Zero-length lines are dropped, every contour is closed with a
// line if its last point is not its first, contours without segments (bare
// moves, single points) are dropped. Two outlines are the same drawing iff
// their contours, in order, are equal up to rotation of the cyclic lists.

type pt struct{ X, Y float64 }

type nseg struct {
	Op   int // 1 line, 2 quad, 3 cubic
	From pt
	P    [3]pt // control points then end point (1, 2 or 3 used)
}

func (s nseg) end() pt { return s.P[s.Op-1] }

func (s nseg) length() float64 {
	e := s.end()
	return math.Max(math.Abs(e.X-s.From.X), math.Abs(e.Y-s.From.Y))
}

type contour []nseg
type outline []contour

type builder struct {
	out        outline
	cur        contour
	start, pos pt
	open       bool
}

func (b *builder) moveTo(p pt) {
	b.closePath()
	b.start, b.pos, b.open = p, p, true
}

func (b *builder) lineTo(p pt) {
	if !b.open {
		b.moveTo(b.pos)
	}
	if p == b.pos {
		return
	}
	b.cur = append(b.cur, nseg{Op: 1, From: b.pos, P: [3]pt{p}})
	b.pos = p
}

func (b *builder) quadTo(c, p pt) {
	if !b.open {
		b.moveTo(b.pos)
	}
	b.cur = append(b.cur, nseg{Op: 2, From: b.pos, P: [3]pt{c, p}})
	b.pos = p
}

func (b *builder) cubeTo(c1, c2, p pt) {
	if !b.open {
		b.moveTo(b.pos)
	}
	b.cur = append(b.cur, nseg{Op: 3, From: b.pos, P: [3]pt{c1, c2, p}})
	b.pos = p
}

func (b *builder) closePath() {
	if b.open {
		if b.pos != b.start && len(b.cur) > 0 {
			b.cur = append(b.cur, nseg{Op: 1, From: b.pos, P: [3]pt{b.start}})
		}
		if len(b.cur) > 0 {
			b.out = append(b.out, b.cur)
		}
		b.cur = nil
		b.open = false
		b.pos = b.start
	}
}

func (b *builder) finish() outline {
	b.closePath()
	return b.out
}

func (o outline) nsegs() int {
	n := 0
	for _, c := range o {
		n += len(c)
	}
	return n
}

func (o outline) hasFraction() bool {
	for _, c := range o {
		for _, s := range c {
			for i := 0; i < s.Op; i++ {
				if s.P[i].X != math.Trunc(s.P[i].X) || s.P[i].Y != math.Trunc(s.P[i].Y) {
					return true
				}
			}
		}
	}
	return false
}

// cbox returns the control box (all points, including control points).
func (o outline) cbox() (xmin, ymin, xmax, ymax float64, ok bool) {
	first := true
	add := func(p pt) {
		if first {
			xmin, xmax, ymin, ymax, first = p.X, p.X, p.Y, p.Y, false
			return
		}
		xmin, xmax = math.Min(xmin, p.X), math.Max(xmax, p.X)
		ymin, ymax = math.Min(ymin, p.Y), math.Max(ymax, p.Y)
	}
	for _, c := range o {
		for _, s := range c {
			add(s.From)
			for i := 0; i < s.Op; i++ {
				add(s.P[i])
			}
		}
	}
	return xmin, ymin, xmax, ymax, !first
}

func (o outline) translate(dx, dy float64) {
	for _, c := range o {
		for i := range c {
			c[i].From.X += dx
			c[i].From.Y += dy
			for j := 0; j < c[i].Op; j++ {
				c[i].P[j].X += dx
				c[i].P[j].Y += dy
			}
		}
	}
}

func (o outline) String() string {
	var sb strings.Builder
	for ci, c := range o {
		if ci > 0 {
			sb.WriteString(" | ")
		}
		for i, s := range c {
			if i == 0 {
				fmt.Fprintf(&sb, "M%g,%g", s.From.X, s.From.Y)
			}
			sb.WriteString(" " + "?LQC"[s.Op:s.Op+1])
			for j := 0; j < s.Op; j++ {
				fmt.Fprintf(&sb, "%g,%g ", s.P[j].X, s.P[j].Y)
			}
		}
		if sb.Len() > 1500 {
			sb.WriteString("…")
			break
		}
	}
	return sb.String()
}

// tolFn gives the admissible absolute deviation for one coordinate, given the
// value on the side under test (the library) and the reference value.
type tolFn func(lib, ref float64) float64

func near(a, b pt, tol tolFn) bool {
	return math.Abs(a.X-b.X) <= tol(a.X, b.X) && math.Abs(a.Y-b.Y) <= tol(a.Y, b.Y)
}

func segNear(a, b nseg, tol tolFn) bool {
	if a.Op != b.Op {
		return false
	}
	for i := 0; i < a.Op; i++ {
		if !near(a.P[i], b.P[i], tol) {
			return false
		}
	}
	return true
}

// contourEq compares two cyclic segment lists (a = library, b = reference).
// skip > 0 additionally lets either side drop line segments not longer than
// skip (points that a decoder rounding to integers merges or separates).
func contourEq(a, b contour, tol tolFn, skip float64) bool {
	if skip <= 0 {
		n := len(a)
		if n != len(b) {
			return false
		}
		for k := 0; k < n; k++ {
			if !segNear(a[0], b[k], tol) {
				continue
			}
			ok := true
			for i := 1; i < n; i++ {
				if !segNear(a[i], b[(i+k)%n], tol) {
					ok = false
					break
				}
			}
			if ok {
				return true
			}
		}
		return false
	}
	short := func(s nseg) bool { return s.Op == 1 && s.length() <= skip }
	// anchor: first segment of a that cannot be skipped
	ia := -1
	for i, s := range a {
		if !short(s) {
			ia = i
			break
		}
	}
	if ia < 0 {
		for _, s := range b {
			if !short(s) {
				return false
			}
		}
		return true
	}
	na, nb := len(a), len(b)
	for k := 0; k < nb; k++ {
		if !segNear(a[ia], b[k], tol) {
			continue
		}
		i, j := 1, 1 // consumed counts after the anchor
		ok := true
		for i < na || j < nb {
			var sa, sb nseg
			if i < na {
				sa = a[(ia+i)%na]
			}
			if j < nb {
				sb = b[(k+j)%nb]
			}
			switch {
			case i < na && j < nb && segNear(sa, sb, tol):
				i++
				j++
			case i < na && short(sa):
				i++
			case j < nb && short(sb):
				j++
			default:
				ok = false
			}
			if !ok {
				break
			}
		}
		if ok {
			return true
		}
	}
	return false
}

// outlineDiff returns "" when the outlines are the same drawing, otherwise a
// short description of the first difference.
func outlineDiff(lib, ref outline, tol tolFn, skip float64) string {
	if skip > 0 {
		// contours made only of skippable lines may vanish on either side
		lib, ref = dropTiny(lib, skip), dropTiny(ref, skip)
	}
	if len(lib) != len(ref) {
		return fmt.Sprintf("contour count %d vs %d", len(lib), len(ref))
	}
	for i := range lib {
		if !contourEq(lib[i], ref[i], tol, skip) {
			return fmt.Sprintf("contour %d differs (%d vs %d segments)", i, len(lib[i]), len(ref[i]))
		}
	}
	return ""
}

func dropTiny(o outline, skip float64) outline {
	var out outline
	for _, c := range o {
		tiny := true
		for _, s := range c {
			if !(s.Op == 1 && s.length() <= skip) {
				tiny = false
				break
			}
		}
		if !tiny {
			out = append(out, c)
		}
	}
	return out
}

// maxDeviation returns the largest coordinate difference between two outlines
// of identical structure (best rotation per contour); ok=false if the
// structures differ. Diagnostic only.
func maxDeviation(a, b outline) (float64, bool) {
	if len(a) != len(b) {
		return 0, false
	}
	worst := 0.0
	for ci := range a {
		ca, cb := a[ci], b[ci]
		n := len(ca)
		if n != len(cb) {
			return 0, false
		}
		best := math.Inf(1)
		for k := 0; k < n; k++ {
			d := 0.0
			ok := true
			for i := 0; i < n && ok; i++ {
				sa, sb := ca[i], cb[(i+k)%n]
				if sa.Op != sb.Op {
					ok = false
					break
				}
				for j := 0; j < sa.Op; j++ {
					d = math.Max(d, math.Max(math.Abs(sa.P[j].X-sb.P[j].X), math.Abs(sa.P[j].Y-sb.P[j].Y)))
				}
			}
			if ok && d < best {
				best = d
			}
		}
		if math.IsInf(best, 1) {
			return 0, false
		}
		worst = math.Max(worst, best)
	}
	return worst, true
}
