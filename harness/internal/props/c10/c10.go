// Package c10 monitors "Decoded glyph metrics and outlines match independent
// decoders".
//
// Events: for every glyph id and every mapped rune of a corpus face, what the
// font package returns (Upem, NominalGlyph, HorizontalAdvance,
// VerticalAdvance, GlyphExtents, GlyphData outline segments, GlyphName,
// FontHExtents, NormalizeVariations/Coords) and what three live decoders and
// an independent raw-table reader return for the same unmodified bytes:
// HarfBuzz 6.0.0 font functions (internal/hbfont), FreeType 2.12.1
// (internal/ftref), golang.org/x/image/font/sfnt, raw.go.
//
// Oracle: consensus (see judge). A library value is refuted only when at
// least two references agree with each other and none supports the library.
package c10

import (
	"fmt"
	"math"
	"sort"
	"strings"
	"sync"

	"github.com/go-text/typesetting/font"
	ot "github.com/go-text/typesetting/font/opentype"
	"golang.org/x/image/font/sfnt"
	"golang.org/x/image/math/fixed"

	"verifharness/internal/corpus"
	"verifharness/internal/ftref"
	"verifharness/internal/hbfont"
	"verifharness/internal/vrun"
)

// ---------------------------------------------------------------------------
// witnesses

// Witness is the self-contained description of one refuted observation.
type Witness struct {
	Font     string            `json:"font"` // corpus id "#" face index
	Quantity string            `json:"quantity"`
	GID      uint32            `json:"gid,omitempty"`
	Rune     int32             `json:"rune,omitempty"`
	Design   []float32         `json:"design_coords,omitempty"` // nil: face without variations
	ViaSet   []int             `json:"set_variations_axes,omitempty"`
	Values   map[string]string `json:"values"` // "go", "hb", "ft", "ximage", "raw"
}

// ---------------------------------------------------------------------------
// consensus oracle

type refObs struct {
	name string
	// agree reports whether the reference supports the library value.
	agree bool
	val   string
}

type verdict int

const (
	vHeld verdict = iota
	vViolated
	vSplit      // some reference supports the library, another does not
	vSingle     // one covering reference, and it differs
	vRefsDiffer // ≥2 references differ from the library and from each other
	vUncovered
	vObserved // consensus against the library on a quantity the statement does not name
)

// judge applies the consensus rule. mutual(i,j) tells whether references i
// and j (both differing from the library) agree with each other.
func judge(obs []refObs, mutual func(i, j int) bool) (verdict, string) {
	if len(obs) == 0 {
		return vUncovered, ""
	}
	var dis []int
	var names []string
	nAgree := 0
	for i, o := range obs {
		if o.agree {
			nAgree++
		} else {
			dis = append(dis, i)
			names = append(names, o.name)
		}
	}
	if len(dis) == 0 {
		return vHeld, ""
	}
	who := strings.Join(names, "+")
	if nAgree > 0 {
		return vSplit, who
	}
	if len(dis) == 1 {
		return vSingle, who
	}
	for a := 0; a < len(dis); a++ {
		for b := a + 1; b < len(dis); b++ {
			if mutual(dis[a], dis[b]) {
				return vViolated, who
			}
		}
	}
	return vRefsDiffer, who
}

// ---------------------------------------------------------------------------
// per-face context

type faceInfo struct {
	ref    corpus.FaceRef
	id     string
	kind   string // primary kind used for the round-robin choice
	kinds  []string
	tabK   string // outline table kind: glyf | cff | cff2 | none
	nGlyph int
	nAxes  int
	raw    *rawFont
}

type refs struct {
	hb   *hbfont.Face
	ft   *ftref.Face
	ftOK bool // FreeType opened the face and it is scalable
	// FreeType normalized the design coordinates to another point than HarfBuzz
	ftElsewhere bool
	xi          *sfnt.Font
	xbuf        sfnt.Buffer
}

func (r *refs) close() {
	if r.hb != nil {
		r.hb.Close()
	}
	if r.ft != nil {
		r.ft.Close()
	}
}

type monitor struct {
	run   *vrun.Run
	libs  []*ftref.Library
	mu    sync.Mutex
	stats map[string]int64
	// first examples per inconclusive class
	examples map[string][]string
}

type local struct {
	stats map[string]int64
	m     *monitor
}

func (l *local) add(k string, n int64) { l.stats[k] += n }
func (l *local) inc(k string)          { l.stats[k]++ }

func (m *monitor) newLocal() *local { return &local{stats: map[string]int64{}, m: m} }

func (m *monitor) merge(l *local) {
	m.mu.Lock()
	for k, v := range l.stats {
		m.stats[k] += v
	}
	m.mu.Unlock()
}

func (m *monitor) example(class, s string) {
	m.mu.Lock()
	if len(m.examples[class]) < 4 {
		m.examples[class] = append(m.examples[class], s)
	}
	m.mu.Unlock()
}

func openRefs(lib *ftref.Library, fi *faceInfo) *refs {
	r := &refs{}
	data := fi.ref.File.Bytes()
	idx := fi.ref.Index
	if hbfont.NumFaces(data) > idx {
		r.hb, _ = hbfont.NewFace(data, idx)
		if r.hb != nil && r.hb.GlyphCount() == 0 {
			r.hb.Close()
			r.hb = nil
		}
	}
	if f, err := lib.NewFace(data, idx); err == nil {
		r.ft = f
		r.ftOK = f.IsScalable() && f.IsSFNT()
	}
	if c, err := sfnt.ParseCollection(data); err == nil && idx < c.NumFonts() {
		if f, err := c.Font(idx); err == nil {
			r.xi = f
		}
	}
	return r
}

// ---------------------------------------------------------------------------
// tolerances

const eps = 1e-3

func isInt(v float64) bool { return v == math.Trunc(v) }

// tolerance models; see the package documentation of each reference.
func tolExact(lib, ref float64) float64 { return eps }

// FreeType keeps integer font units: CFF fractions are truncated, transformed
// composite points are rounded per product.
func tolFTStatic(transformed bool) tolFn {
	return func(lib, ref float64) float64 {
		if transformed || !isInt(lib) || !isInt(ref) {
			return 1 + eps
		}
		return eps
	}
}

// x/image computes implied on-curve points with integer division and
// transforms with 2.14 integer arithmetic.
func tolXI(transformed bool) tolFn {
	return func(lib, ref float64) float64 {
		if transformed {
			// implied points truncated before a 2.14 integer transform
			return 1.5 + eps
		}
		if !isInt(lib) || !isInt(ref) {
			return 0.5 + eps
		}
		return eps
	}
}

// interpolated values: the design allows one font unit. HarfBuzz keeps
// unrounded floats for points (so it is compared much tighter) and rounds
// advances and box edges to the nearest integer.
func tolVar(lib, ref float64) float64   { return 1 + eps }
func tolVarHB(lib, ref float64) float64 { return 0.25 }

// box edges and advances rounded to the nearest integer by HarfBuzz (0.5),
// plus what a one-unit difference of the normalized coordinates can move
func tolHalf(lib, ref float64) float64 { return 0.75 }

// FreeType interpolates in 16.16 with its own (finer) normalized coordinates
// and rounds every point to an integer: measured deviations reach 1.5 units
// on simple glyphs. For composites it also rounds the points of every
// component and every component offset before adding them.
func tolVarFT(lib, ref float64) float64          { return 1.5 + eps }
func tolVarFTComposite(lib, ref float64) float64 { return 2.5 + eps }

func sumTol(a, b tolFn) tolFn {
	return func(x, y float64) float64 { return a(x, y) + b(y, x) }
}

// ---------------------------------------------------------------------------
// conversions to the outline normal form

func goOutline(segs []ot.Segment) outline {
	var b builder
	p := func(s ot.SegmentPoint) pt { return pt{float64(s.X), float64(s.Y)} }
	for _, s := range segs {
		switch s.Op {
		case ot.SegmentOpMoveTo:
			b.moveTo(p(s.Args[0]))
		case ot.SegmentOpLineTo:
			b.lineTo(p(s.Args[0]))
		case ot.SegmentOpQuadTo:
			b.quadTo(p(s.Args[0]), p(s.Args[1]))
		case ot.SegmentOpCubeTo:
			b.cubeTo(p(s.Args[0]), p(s.Args[1]), p(s.Args[2]))
		}
	}
	return b.finish()
}

func hbOutline(segs []hbfont.Seg) outline {
	var b builder
	p := func(a [6]float32, i int) pt { return pt{float64(a[2*i]), float64(a[2*i+1])} }
	for _, s := range segs {
		switch s.Op {
		case 0:
			b.moveTo(p(s.Args, 0))
		case 1:
			b.lineTo(p(s.Args, 0))
		case 2:
			b.quadTo(p(s.Args, 0), p(s.Args, 1))
		case 3:
			b.cubeTo(p(s.Args, 0), p(s.Args, 1), p(s.Args, 2))
		case 4:
			b.closePath()
		}
	}
	return b.finish()
}

func ftOutline(segs []ftref.Seg) outline {
	var b builder
	p := func(a [6]float64, i int) pt { return pt{a[2*i], a[2*i+1]} }
	for _, s := range segs {
		switch s.Op {
		case 0:
			b.moveTo(p(s.Args, 0))
		case 1:
			b.lineTo(p(s.Args, 0))
		case 2:
			b.quadTo(p(s.Args, 0), p(s.Args, 1))
		case 3:
			b.cubeTo(p(s.Args, 0), p(s.Args, 1), p(s.Args, 2))
		}
	}
	return b.finish()
}

func xiOutline(segs sfnt.Segments) outline {
	var b builder
	p := func(q fixed.Point26_6) pt { return pt{float64(q.X), -float64(q.Y)} }
	for _, s := range segs {
		switch s.Op {
		case sfnt.SegmentOpMoveTo:
			b.moveTo(p(s.Args[0]))
		case sfnt.SegmentOpLineTo:
			b.lineTo(p(s.Args[0]))
		case sfnt.SegmentOpQuadTo:
			b.quadTo(p(s.Args[0]), p(s.Args[1]))
		case sfnt.SegmentOpCubeTo:
			b.cubeTo(p(s.Args[0]), p(s.Args[1]), p(s.Args[2]))
		}
	}
	return b.finish()
}

// box is (xMin, yMin, xMax, yMax).
type box [4]float64

func (b box) String() string { return fmt.Sprintf("[x %g..%g y %g..%g]", b[0], b[2], b[1], b[3]) }

func boxNear(lib, ref box, tol tolFn) bool {
	for i := 0; i < 4; i++ {
		if math.Abs(lib[i]-ref[i]) > tol(lib[i], ref[i]) {
			return false
		}
	}
	return true
}

func extBox(xb, yb, w, h float64) box { return box{xb, yb + h, xb + w, yb} }

// ---------------------------------------------------------------------------
// the per-glyph comparison

// setting is one configuration of design coordinates (nil design = face
// without variations).
type setting struct {
	name   string
	design []float32
	via    []int // non-nil: applied through SetVariations on this subset of axes
}

func (s *setting) isVar() bool { return s != nil && s.design != nil }

func (m *monitor) violation(l *local, key, msg string, w Witness) {
	l.inc("verdict/violated")
	m.run.Violation(key, msg, w)
}

func glyphKindName(k int8) string {
	switch {
	case k == cmpSimple:
		return "simple"
	case k&cmpAnchored != 0:
		return "composite-anchored"
	case k&cmpTransformed != 0:
		return "composite-transformed"
	}
	return "composite"
}

// applySetting configures the three variable-capable decoders; returns the
// library face or nil when the library panicked.
func (m *monitor) applySetting(l *local, fi *faceInfo, rf *refs, st *setting) (*font.Face, []int, bool) {
	ft := fi.ref.Font()
	face := font.NewFace(ft)
	if !st.isVar() {
		return face, nil, true
	}
	var coords []font.VarCoord
	pv, where := vrun.Catch(func() {
		if st.via != nil {
			var vs []font.Variation
			for _, ai := range st.via {
				vs = append(vs, font.Variation{Tag: font.Tag(fi.raw.axes[ai].Tag), Value: st.design[ai]})
			}
			face.SetVariations(vs)
			coords = face.Coords()
		} else {
			coords = ft.NormalizeVariations(st.design)
			face.SetCoords(coords)
		}
	})
	if pv != nil {
		m.violation(l, "C10/panic/"+vrun.TopFrame(where), fmt.Sprintf("%s: NormalizeVariations/SetVariations(%v) panicked: %v at %s", fi.id, st.design, pv, where),
			Witness{Font: fi.id, Quantity: "normcoords", Design: st.design, ViaSet: st.via, Values: map[string]string{"go": fmt.Sprint("panic: ", pv)}})
		return nil, nil, false
	}
	gc := make([]int, len(coords))
	for i, c := range coords {
		gc[i] = int(c)
	}
	if rf.hb != nil {
		if st.via != nil {
			var vs []hbfont.Variation
			for _, ai := range st.via {
				vs = append(vs, hbfont.Variation{Tag: fi.raw.axes[ai].Tag, Value: st.design[ai]})
			}
			rf.hb.SetVariations(vs)
		} else {
			rf.hb.SetDesignCoords(st.design)
		}
	}
	if rf.ftOK {
		d := make([]float64, len(st.design))
		for i, v := range st.design {
			d[i] = float64(v)
		}
		if st.via != nil {
			// unspecified axes stay at their default
			for i := range d {
				d[i] = fi.raw.axes[i].Def
			}
			for _, ai := range st.via {
				// a variation addresses every axis carrying its tag
				for j := range d {
					if fi.raw.axes[j].Tag == fi.raw.axes[ai].Tag {
						d[j] = float64(st.design[ai])
					}
				}
			}
		}
		if err := rf.ft.SetDesignCoords(d); err != nil {
			rf.ftOK = false
			l.inc("ref/ft/set-design-coords-failed: " + fi.id)
		}
	}
	// FreeType must sit at the same point of the design space as HarfBuzz to
	// be a witness for glyph quantities (it is not for values outside an axis
	// range whose violated end equals the default: FreeType 2.12.1 then
	// normalizes to +-1 instead of 0). The coordinates themselves are judged
	// by checkCoords.
	if rf.ftOK && rf.hb != nil {
		hc := rf.hb.NormalizedCoords()
		if hc == nil {
			hc = make([]int, len(gc))
		}
		if bc, err := rf.ft.BlendCoords(len(hc)); err == nil {
			for i, v := range bc {
				if d := int(math.Floor(float64(v)/4+0.5)) - hc[i]; d > 1 || d < -1 {
					rf.ftOK = false
					rf.ftElsewhere = true
					l.inc("ref/ft/skipped: normalized coordinates differ from HarfBuzz (unit)")
					break
				}
			}
		}
	}
	return face, gc, true
}

func fmtInts(v []int) string { return fmt.Sprint(v) }

func agreeStr(ok bool) string {
	if ok {
		return "agree"
	}
	return "differ"
}

func obsStr(obs []refObs) string {
	var s []string
	for _, o := range obs {
		s = append(s, o.name+"="+o.val)
	}
	return strings.Join(s, " ")
}

// record turns a verdict into counters / violations / inconclusives.
func (m *monitor) record(l *local, fi *faceInfo, quantity, class string, v verdict, who string, describe func() (string, Witness)) {
	switch v {
	case vHeld:
		l.inc("verdict/" + quantity + "=held")
	case vUncovered:
		l.inc("verdict/" + quantity + "=uncovered")
	case vViolated:
		msg, w := describe()
		l.inc("verdict/" + quantity + "=violated")
		l.inc("violated-observations-by-face/" + fi.id)
		m.run.Violation("C10/"+quantity+"/"+class, msg, w)
	default:
		reason := map[verdict]string{vSplit: "references split, library supported; differing: ", vSingle: "single reference differs: ", vRefsDiffer: "references differ from the library and from each other: ",
			vObserved: "OUTSIDE THE STATEMENT (observed only): references agree with each other and differ from the library: "}[v]
		cls := quantity + "/" + class + ": " + reason + who
		l.inc("verdict/" + quantity + "=inconclusive")
		m.run.Inconclusive(cls)
		m.mu.Lock()
		need := len(m.examples[cls]) < 4
		m.mu.Unlock()
		if need {
			msg, _ := describe()
			m.example(cls, msg)
		}
	}
}

// ---------------------------------------------------------------------------
// font-level quantities and the character map

func (m *monitor) checkFontLevel(l *local, fi *faceInfo, rf *refs) {
	ft := fi.ref.Font()
	m.run.Eval(1)
	// units per em
	{
		g := int(ft.Upem())
		var obs []refObs
		add := func(name string, v int) {
			obs = append(obs, refObs{name, v == g, fmt.Sprint(v)})
			l.inc("cmp/upem/" + name + "=" + agreeStr(v == g))
		}
		if rf.hb != nil {
			add("hb", rf.hb.Upem())
		}
		if rf.ftOK {
			add("ft", rf.ft.Upem())
		}
		if rf.xi != nil {
			add("ximage", int(rf.xi.UnitsPerEm()))
		}
		if fi.raw.ok && fi.raw.hasHead && !fi.raw.has("bhed") {
			add("raw", fi.raw.upem)
		}
		v, who := judge(obs, func(i, j int) bool { return obs[i].val == obs[j].val })
		m.record(l, fi, "upem", "head", v, who, func() (string, Witness) {
			w := Witness{Font: fi.id, Quantity: "upem", Values: map[string]string{"go": fmt.Sprint(g)}}
			for _, o := range obs {
				w.Values[o.name] = o.val
			}
			return fmt.Sprintf("%s: Upem go=%d %s", fi.id, g, obsStr(obs)), w
		})
	}
	// horizontal font extents: HarfBuzz is the only live reference
	{
		face := font.NewFace(ft)
		var fe font.FontExtents
		var ok bool
		if pv, wh := vrun.Catch(func() { fe, ok = face.FontHExtents() }); pv != nil {
			m.violation(l, "C10/panic/"+vrun.TopFrame(wh), fmt.Sprintf("%s: FontHExtents panic %v at %s", fi.id, pv, wh), Witness{Font: fi.id, Quantity: "panic"})
		} else if rf.hb != nil {
			a, d, g, hok := rf.hb.HExtents()
			if ok && hok {
				same := float64(fe.Ascender) == float64(a) && float64(fe.Descender) == float64(d) && float64(fe.LineGap) == float64(g)
				l.inc("cmp/hextents/hb=" + agreeStr(same))
				obs := []refObs{{"hb", same, fmt.Sprintf("%d/%d/%d", a, d, g)}}
				v, who := judge(obs, func(i, j int) bool { return false })
				m.record(l, fi, "hextents", "hhea-os2", v, who, func() (string, Witness) {
					return fmt.Sprintf("%s: FontHExtents go=%v/%v/%v hb=%d/%d/%d", fi.id, fe.Ascender, fe.Descender, fe.LineGap, a, d, g), Witness{Font: fi.id, Quantity: "hextents"}
				})
			} else if ok != hok {
				l.inc(fmt.Sprintf("hextents-availability: go=%v hb=%v", ok, hok))
			}
		}
	}
}

func (m *monitor) checkCmap(l *local, fi *faceInfo, rf *refs) {
	ft := fi.ref.Font()
	// union of the code points any decoder enumerates
	set := map[rune]struct{}{}
	var goN int
	if pv, wh := vrun.Catch(func() {
		it := ft.Cmap.Iter()
		for it.Next() {
			r, _ := it.Char()
			set[r] = struct{}{}
			goN++
		}
	}); pv != nil {
		m.violation(l, "C10/panic/"+vrun.TopFrame(wh), fmt.Sprintf("%s: Cmap.Iter panic %v at %s", fi.id, pv, wh), Witness{Font: fi.id, Quantity: "panic"})
		return
	}
	if rf.hb != nil {
		for _, r := range rf.hb.Unicodes() {
			set[r] = struct{}{}
		}
	}
	ftCmap := rf.ft != nil && rf.ft.IsSFNT() && rf.ft.UnicodeCharmap()
	if ftCmap {
		rf.ft.Chars(func(r rune, gid uint32) { set[r] = struct{}{} })
	}
	// a few code points nobody lists (all decoders must say "not mapped")
	for _, r := range []rune{0, 0x20, 0x41, 0xFFFF, 0x10FFFF, 0xD800, 0xE000, 0xF020, 0xF0041} {
		set[r] = struct{}{}
	}
	runes := make([]rune, 0, len(set))
	for r := range set {
		runes = append(runes, r)
	}
	sort.Slice(runes, func(i, j int) bool { return runes[i] < runes[j] })
	cls := "lookup"
	for _, r := range runes {
		m.run.Eval(1)
		var g font.GID
		var ok bool
		if pv, wh := vrun.Catch(func() { g, ok = ft.NominalGlyph(r) }); pv != nil {
			m.violation(l, "C10/panic/"+vrun.TopFrame(wh), fmt.Sprintf("%s: NominalGlyph(%U) panic %v at %s", fi.id, r, pv, wh), Witness{Font: fi.id, Quantity: "panic", Rune: r})
			return
		}
		if !ok {
			g = 0
		}
		// "glyph 0" and "not mapped" are the same answer
		var obs []refObs
		add := func(name string, v uint32) {
			same := v == uint32(g)
			obs = append(obs, refObs{name, same, fmt.Sprint(v)})
			l.inc("cmp/cmap/" + name + "=" + agreeStr(same))
		}
		if rf.hb != nil {
			hg, hok := rf.hb.NominalGlyph(r)
			if !hok {
				hg = 0
			}
			add("hb", hg)
		}
		if ftCmap {
			add("ft", rf.ft.CharIndex(r))
		}
		if rf.xi != nil {
			if xg, err := rf.xi.GlyphIndex(&rf.xbuf, r); err == nil {
				add("ximage", uint32(xg))
			}
		}
		v, who := judge(obs, func(i, j int) bool { return obs[i].val == obs[j].val })
		cls := cls
		if v == vSplit || v == vSingle {
			cls += cmapSkew(fi, who, int(g))
		}
		m.record(l, fi, "cmap", cls, v, who, func() (string, Witness) {
			w := Witness{Font: fi.id, Quantity: "cmap", Rune: r, Values: map[string]string{"go": fmt.Sprintf("%d,%v", g, ok)}}
			for _, o := range obs {
				w.Values[o.name] = o.val
			}
			return fmt.Sprintf("%s: NominalGlyph(%U) go=(%d,%v) %s", fi.id, r, g, ok, obsStr(obs)), w
		})
		if g != 0 {
			l.inc("runes/mapped")
			m.run.Nontrivial(vrun.Hash64(fi.id, "rune", int(r)))
		}
	}
	l.add("runes/enumerated-by-library", int64(goN))
}

func (r *refs) ftCharmapIDs() (int, int, bool) {
	if r.ft == nil {
		return 0, 0, false
	}
	return r.ft.CharmapIDs()
}

// cmapSkew names the font property behind a character-map disagreement
// between references (decoders choosing different subtables).
func cmapSkew(fi *faceInfo, who string, g int) string {
	subs := fi.raw.cmapSubs
	hasSymbol, nUni, nMac := false, 0, 0
	offs := map[int]bool{}
	for _, s := range subs {
		switch {
		case s[0] == 3 && s[1] == 0:
			hasSymbol = true
		case s[0] == 0 || s[0] == 3:
			if !offs[s[2]] {
				nUni++
			}
			offs[s[2]] = true
		case s[0] == 1:
			nMac++
		}
	}
	switch {
	case strings.Contains(who, "ft") && !strings.Contains(who, "hb") && fi.raw.ok && g >= fi.nGlyph:
		return " [entry points beyond maxp.numGlyphs: FreeType answers 0]"
	case hasSymbol && nUni > 0:
		return " [symbol (3,0) subtable next to Unicode ones: HarfBuzz and the library prefer the symbol one]"
	case hasSymbol:
		return " [symbol (3,0) subtable only: U+F000 remapping is implemented by HarfBuzz and the library]"
	case nUni == 0 && nMac > 0:
		return " [only Macintosh-platform subtables: HarfBuzz 6.0.0 does not decode them]"
	case nUni > 1:
		return " [several Unicode subtables with different content: decoders prefer different ones]"
	case nUni >= 1 && nMac >= 1:
		return " [Unicode and Macintosh subtables with different content: decoders prefer different ones]"
	}
	return ""
}
