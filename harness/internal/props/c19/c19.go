// Package c19 monitors "Written font files read back unchanged".
//
// Events: the byte string returned by opentype.WriteTTF for a generated table
// list, the caller's backing arrays before and after the call, and what
// opentype.NewLoader reads back from the output.
// Oracle: an independent sfnt directory reader (below) + canary comparison.
package c19

import (
	"bytes"
	"encoding/binary"
	"fmt"
	"hash/fnv"
	"math/bits"
	"sort"

	"github.com/go-text/typesetting/font"
	ot "github.com/go-text/typesetting/font/opentype"

	"verifharness/internal/corpus"
	"verifharness/internal/gen"
	"verifharness/internal/vrun"
)

// TableSpec is a self-contained description of one input table.
type TableSpec struct {
	Tag     uint32 `json:"tag"`
	Content []byte `json:"content"`
	Spare   int    `json:"spare"` // spare capacity behind the slice (canary filled)
}

type Witness struct {
	Tables []TableSpec `json:"tables"`
	Font   string      `json:"font,omitempty"`
}

// shortReader is a Resource whose Read hands out at most max bytes per call (legal for an
// io.Reader); ReadAt and Seek go straight to the underlying reader.
type shortReader struct {
	r   *bytes.Reader
	max int
}

func (s *shortReader) Read(p []byte) (int, error) {
	if len(p) > s.max {
		p = p[:s.max]
	}
	return s.r.Read(p)
}
func (s *shortReader) ReadAt(p []byte, off int64) (int, error) { return s.r.ReadAt(p, off) }
func (s *shortReader) Seek(off int64, whence int) (int64, error) { return s.r.Seek(off, whence) }

// refChecksum is the sfnt table checksum: big-endian uint32 word sum of the
// body zero-padded to a multiple of four.
func refChecksum(b []byte) uint32 {
	var sum uint32
	for i := 0; i < len(b); i += 4 {
		var w [4]byte
		copy(w[:], b[i:])
		sum += binary.BigEndian.Uint32(w[:])
	}
	return sum
}

// checkOne runs WriteTTF on the case and returns "" or the law that failed.
func checkOne(w Witness) (law, msg string) {
	n := len(w.Tables)
	const canary = 0xA5
	backing := make([][]byte, n)
	before := make([][]byte, n)
	// the table list itself has spare capacity holding two sentinel entries the caller
	// still owns (writing a subset of a longer list): WriteTTF must not touch them
	sentinel := ot.Table{Tag: 0x73656E74, Content: []byte{canary, canary, canary}}
	all := make([]ot.Table, n+2)
	all[n], all[n+1] = sentinel, sentinel
	tables := all[:n]
	for i, t := range w.Tables {
		// layout: [8 canary][content][spare canary][8 canary]
		arr := make([]byte, 8+len(t.Content)+t.Spare+8)
		for j := range arr {
			arr[j] = canary
		}
		copy(arr[8:], t.Content)
		backing[i] = arr
		before[i] = append([]byte(nil), arr...)
		tables[i] = ot.Table{Tag: ot.Tag(t.Tag), Content: arr[8 : 8+len(t.Content) : 8+len(t.Content)+t.Spare]}
	}
	var out []byte
	if pv, where := vrun.Catch(func() { out = ot.WriteTTF(tables) }); pv != nil {
		return "panic", fmt.Sprintf("WriteTTF panicked: %v at %s", pv, where)
	}
	for k := n; k < n+2; k++ {
		if all[k].Tag != sentinel.Tag || len(all[k].Content) != 3 || all[k].Content[0] != canary {
			return "caller-buffer-modified", fmt.Sprintf("WriteTTF(list[:%d]) modified list[%d] (spare capacity of the caller's table list): now tag %#x, %d bytes", n, k, uint32(all[k].Tag), len(all[k].Content))
		}
	}
	for i := range tables {
		if uint32(tables[i].Tag) != w.Tables[i].Tag {
			return "caller-buffer-modified", fmt.Sprintf("WriteTTF changed entry %d of the caller's table list", i)
		}
	}
	for i := range backing {
		if !bytes.Equal(backing[i], before[i]) {
			k := 0
			for k < len(before[i]) && backing[i][k] == before[i][k] {
				k++
			}
			return "caller-buffer-modified", fmt.Sprintf("table %d (len %d, spare %d): caller's backing array modified at offset %d relative to slice start", i, len(w.Tables[i].Content), w.Tables[i].Spare, k-8)
		}
	}
	// independent structural reader
	if len(out) < 12+16*n {
		return "short-file", fmt.Sprintf("file has %d bytes, header+directory need %d", len(out), 12+16*n)
	}
	if v := binary.BigEndian.Uint32(out); v != 0x00010000 && v != 0x4F54544F && v != 0x74727565 {
		return "bad-magic", fmt.Sprintf("sfnt version %#x", v)
	}
	if got := int(binary.BigEndian.Uint16(out[4:])); got != n {
		return "numTables", fmt.Sprintf("numTables=%d want %d", got, n)
	}
	if n >= 1 {
		es := bits.Len(uint(n)) - 1
		sr := (1 << es) * 16
		rs := n*16 - sr
		g1, g2, g3 := int(binary.BigEndian.Uint16(out[6:])), int(binary.BigEndian.Uint16(out[8:])), int(binary.BigEndian.Uint16(out[10:]))
		if g1 != sr || g2 != es || g3 != rs {
			return "search-fields", fmt.Sprintf("n=%d: searchRange/entrySelector/rangeShift = %d/%d/%d want %d/%d/%d", n, g1, g2, g3, sr, es, rs)
		}
	}
	type ent struct{ tag, cs, off, length uint32 }
	var prevTag uint32
	type span struct{ lo, hi uint32 }
	var spans []span
	for i := 0; i < n; i++ {
		e := out[12+16*i:]
		en := ent{binary.BigEndian.Uint32(e), binary.BigEndian.Uint32(e[4:]), binary.BigEndian.Uint32(e[8:]), binary.BigEndian.Uint32(e[12:])}
		if en.tag != w.Tables[i].Tag {
			return "dir-tag", fmt.Sprintf("entry %d tag %#x want %#x", i, en.tag, w.Tables[i].Tag)
		}
		if i > 0 && en.tag <= prevTag {
			return "dir-order", fmt.Sprintf("entry %d tag %#x not above previous %#x", i, en.tag, prevTag)
		}
		prevTag = en.tag
		c := w.Tables[i].Content
		if int(en.length) != len(c) {
			return "dir-length", fmt.Sprintf("entry %d length %d want %d", i, en.length, len(c))
		}
		if uint64(en.off)+uint64(en.length) > uint64(len(out)) || int(en.off) < 12+16*n {
			return "dir-offset", fmt.Sprintf("entry %d [%d,+%d) outside file of %d bytes (directory ends at %d)", i, en.off, en.length, len(out), 12+16*n)
		}
		if !bytes.Equal(out[en.off:en.off+en.length], c) {
			return "body", fmt.Sprintf("entry %d body differs from input", i)
		}
		if want := refChecksum(c); en.cs != want {
			return "checksum", fmt.Sprintf("entry %d (len %d ≡ %d mod 4) checksum %#x want %#x", i, len(c), len(c)%4, en.cs, want)
		}
		if en.length > 0 {
			spans = append(spans, span{en.off, en.off + en.length})
		}
	}
	sort.Slice(spans, func(i, j int) bool { return spans[i].lo < spans[j].lo })
	for i := 1; i < len(spans); i++ {
		if spans[i].lo < spans[i-1].hi {
			return "overlap", "table bodies overlap"
		}
	}
	// the collection entry point accepts the written file too (a file without tables is
	// 12 bytes long: a reader that wants more than the sfnt header to identify it fails here)
	{
		var lds []*ot.Loader
		var err error
		if pv, where := vrun.Catch(func() { lds, err = ot.NewLoaders(bytes.NewReader(out)) }); pv != nil {
			return "panic", fmt.Sprintf("NewLoaders panicked on written file: %v at %s", pv, where)
		}
		if err != nil || len(lds) != 1 {
			return "reload", fmt.Sprintf("NewLoaders on the written file (%d tables, %d bytes): %d loaders, err=%v", n, len(out), len(lds), err)
		}
		if got := len(lds[0].Tables()); got != n {
			return "reload-tags", fmt.Sprintf("NewLoaders: loader reports %d tables, want %d", got, n)
		}
	}
	// the same through a resource whose Read returns fewer bytes than asked for, as io.Reader
	// allows (a pipe-backed or buffered file): header, directory and bodies read back unchanged
	if n >= 1 {
		chunk := 1 + len(out)%13
		var lds []*ot.Loader
		var err error
		if pv, where := vrun.Catch(func() { lds, err = ot.NewLoaders(&shortReader{r: bytes.NewReader(out), max: chunk}) }); pv != nil {
			return "panic", fmt.Sprintf("NewLoaders panicked on a resource reading %d bytes at a time: %v at %s", chunk, pv, where)
		}
		if err != nil || len(lds) != 1 {
			return "reload-short-reads", fmt.Sprintf("NewLoaders on a resource whose Read returns at most %d bytes per call: %d loaders, err=%v", chunk, len(lds), err)
		}
		tags := lds[0].Tables()
		if len(tags) != n {
			return "reload-short-reads", fmt.Sprintf("resource whose Read returns at most %d bytes per call: loader reports %d tables, want %d", chunk, len(tags), n)
		}
		for i, tg := range tags {
			if uint32(tg) != w.Tables[i].Tag {
				return "reload-short-reads", fmt.Sprintf("resource whose Read returns at most %d bytes per call: Tables() entry %d is %#x, want %#x", chunk, i, uint32(tg), w.Tables[i].Tag)
			}
		}
		for _, t := range w.Tables {
			var raw []byte
			if pv, where := vrun.Catch(func() { raw, err = lds[0].RawTable(ot.Tag(t.Tag)) }); pv != nil {
				return "panic", fmt.Sprintf("RawTable panicked on a resource reading %d bytes at a time: %v at %s", chunk, pv, where)
			}
			if err != nil || !bytes.Equal(raw, t.Content) {
				return "reload-short-reads", fmt.Sprintf("resource whose Read returns at most %d bytes per call: RawTable(%#x) err=%v, %d bytes, want %d", chunk, t.Tag, err, len(raw), len(t.Content))
			}
		}
	}
	// read back through the library's loader
	if n >= 1 {
		var ld *ot.Loader
		var err error
		rd := bytes.NewReader(out)
		defer func() {
			// loading does not depend on where earlier reads left the resource: a second
			// NewLoader on the same reader, not rewound, sees the same file
			if law != "" {
				return
			}
			var ld2 *ot.Loader
			var err2 error
			if pv, where := vrun.Catch(func() { ld2, err2 = ot.NewLoader(rd) }); pv != nil {
				law, msg = "panic", fmt.Sprintf("second NewLoader on the same reader panicked: %v at %s", pv, where)
			} else if err2 != nil {
				law, msg = "reload", fmt.Sprintf("second NewLoader on the same reader (not rewound after the reads of the first): %v", err2)
			} else if got := len(ld2.Tables()); got != n {
				law, msg = "reload-tags", fmt.Sprintf("second NewLoader on the same reader reports %d tables, want %d", got, n)
			}
		}()
		if pv, where := vrun.Catch(func() { ld, err = ot.NewLoader(rd) }); pv != nil {
			return "panic", fmt.Sprintf("NewLoader panicked on written file: %v at %s", pv, where)
		}
		if err != nil {
			return "reload", fmt.Sprintf("NewLoader rejects the written file: %v", err)
		}
		tags := ld.Tables()
		if len(tags) != n {
			return "reload-tags", fmt.Sprintf("loader reports %d tables, want %d", len(tags), n)
		}
		for i, tg := range tags {
			if uint32(tg) != w.Tables[i].Tag {
				return "reload-tags", fmt.Sprintf("Tables() entry %d is %#x, want %#x", i, uint32(tg), w.Tables[i].Tag)
			}
		}
		for _, t := range w.Tables {
			var raw []byte
			if pv, where := vrun.Catch(func() { raw, err = ld.RawTable(ot.Tag(t.Tag)) }); pv != nil {
				return "panic", fmt.Sprintf("RawTable panicked: %v at %s", pv, where)
			}
			if err != nil {
				return "reload-table", fmt.Sprintf("RawTable(%#x): %v", t.Tag, err)
			}
			if !bytes.Equal(raw, t.Content) {
				return "reload-body", fmt.Sprintf("RawTable(%#x) differs from the input (%d vs %d bytes)", t.Tag, len(raw), len(t.Content))
			}
		}
		// the same through one reused destination buffer (RawTableTo), longest table first so
		// that the buffer is longer than most tables read into it, then in directory order
		order := make([]int, len(w.Tables))
		for i := range order {
			order[i] = i
		}
		sort.SliceStable(order, func(a, b int) bool { return len(w.Tables[order[a]].Content) > len(w.Tables[order[b]].Content) })
		for i := range w.Tables {
			order = append(order, i)
		}
		var buf []byte
		for _, k := range order {
			t := w.Tables[k]
			var raw []byte
			if pv, where := vrun.Catch(func() { raw, err = ld.RawTableTo(ot.Tag(t.Tag), buf) }); pv != nil {
				return "panic", fmt.Sprintf("RawTableTo panicked: %v at %s", pv, where)
			}
			if err != nil {
				return "reload-table", fmt.Sprintf("RawTableTo(%#x) into a reused buffer of length %d: %v", t.Tag, len(buf), err)
			}
			if !bytes.Equal(raw, t.Content) {
				return "reload-body", fmt.Sprintf("RawTableTo(%#x) into a reused buffer of length %d differs from the input (%d vs %d bytes)", t.Tag, len(buf), len(raw), len(t.Content))
			}
			buf = raw
		}
		// the tag list is the loader's own: a caller that edits the returned slice does not
		// change what the next call returns
		for i := range tags {
			tags[i] = 0
		}
		again := ld.Tables()
		if len(again) != n {
			return "reload-tags", fmt.Sprintf("second Tables() reports %d tables, want %d", len(again), n)
		}
		for i, tg := range again {
			if uint32(tg) != w.Tables[i].Tag {
				return "reload-tags", fmt.Sprintf("second Tables() call, after the caller overwrote the slice the first one returned: entry %d is %#x, want %#x", i, uint32(tg), w.Tables[i].Tag)
			}
		}
	}
	return "", ""
}

func genCase(r *gen.RNG, nTables, maxLen int, forceLen int) Witness {
	var w Witness
	tag := uint32(r.Intn(0x100))
	// half of the cases spread their tags over the whole unsigned 32-bit range (first byte
	// >= 0x80 included), the others stay in the low range where real tags live
	wide := r.Bool()
	for i := 0; i < nTables; i++ {
		step := uint64(0x01000000)
		if wide {
			step = (uint64(1)<<32 - uint64(tag) - 1) / uint64(nTables-i)
		}
		if step < 1 {
			step = 1
		}
		tag += 1 + uint32(r.U64()%step)
		if i == 0 && r.Chance(1, 6) {
			tag = 0 // the smallest tag is a legal one
		}
		if wide && i == nTables-1 && r.Chance(1, 4) {
			tag = 0xFFFFFFFF // and so is the largest
		}
		l := forceLen
		if l < 0 {
			switch r.Intn(4) {
			case 0:
				l = r.Intn(8)
			case 1:
				l = r.Intn(68)
			default:
				l = r.Intn(maxLen + 1)
			}
		}
		c := make([]byte, l)
		for j := range c {
			c[j] = byte(r.U64())
		}
		if l > 0 && r.Chance(1, 3) {
			c[l-1] = 0xFF // make a lost last byte visible in the checksum
		}
		if i > 0 && r.Chance(1, 8) {
			// same length and same sfnt checksum as the previous table, different bytes: its
			// 32-bit words in another order (the last, possibly partial, word stays in place)
			p := w.Tables[i-1].Content
			if words := len(p) / 4; words >= 2 {
				c = append([]byte(nil), p...)
				k := 1 + r.Intn(words-1)
				for j := 0; j < words; j++ {
					copy(c[4*j:4*j+4], p[4*((j+k)%words):])
				}
			}
		}
		w.Tables = append(w.Tables, TableSpec{Tag: tag, Content: c, Spare: r.Intn(8)})
	}
	return w
}

func Main() {
	run := vrun.Start("C19")
	judge := func(w Witness) {
		run.Eval(1)
		law, msg := checkOne(w)
		nt := 0
		for _, t := range w.Tables {
			if len(t.Content)%4 != 0 || t.Spare > 0 {
				nt++
			}
		}
		if nt > 0 {
			h := vrun.Hash64(w.Font)
			for _, t := range w.Tables {
				h = vrun.Hash64(h, t.Tag, t.Content, t.Spare)
			}
			run.Nontrivial(h)
		}
		run.Cover(fmt.Sprintf("ntables=%d", bucket(len(w.Tables))))
		for _, t := range w.Tables {
			run.Cover(fmt.Sprintf("len%%4=%d", len(t.Content)%4))
		}
		if law != "" {
			run.Violation("C19/"+law, msg, w)
		} else if run.WantSample() && len(w.Tables) > 0 && len(w.Tables) < 4 {
			s := []string{}
			for _, t := range w.Tables {
				s = append(s, fmt.Sprintf("tag=%#x len=%d spare=%d", t.Tag, len(t.Content), t.Spare))
			}
			run.Sample(s)
		}
	}
	if run.Replay != "" {
		var w Witness
		if _, err := vrun.ReadReplay(run.Replay, &w); err != nil {
			fmt.Println("replay:", err)
			return
		}
		judge(w)
		run.Finish(vrun.Level{Level: "exploration", Rule: "replay"})
	}

	// (1) exhaustive small scope: 1 table, lengths 0..67, spare 0..7, two fill patterns
	var cases []Witness
	for l := 0; l <= 67; l++ {
		for sp := 0; sp <= 7; sp++ {
			for pat := 0; pat < 2; pat++ {
				c := make([]byte, l)
				for j := range c {
					if pat == 0 {
						c[j] = byte(j + 1)
					} else {
						c[j] = 0xFF
					}
				}
				cases = append(cases, Witness{Tables: []TableSpec{{Tag: 0x61626364, Content: c, Spare: sp}}})
			}
		}
	}
	// (2) table counts 0..40 with every residue
	for n := 0; n <= 40; n++ {
		for rep := 0; rep < run.Pick(100, 1000); rep++ {
			r := gen.New(run.Seed, "C19/count", n*1000+rep)
			cases = append(cases, genCase(r, n, 67, -1))
		}
	}
	// (3) random lengths up to 4096
	for i := 0; i < run.Pick(20000, 200000); i++ {
		r := gen.New(run.Seed, "C19/rand", i)
		cases = append(cases, genCase(r, r.Intn(12), 4096, -1))
	}
	vrun.ParallelFor(len(cases), func(i int) { judge(cases[i]) })

	// (4) every corpus sfnt re-written from its own tables and re-parsed
	files := corpus.Files()
	nf := len(files)
	order := make([]int, len(files))
	for i := range order {
		order[i] = i
	}
	gen.Shuffle(gen.New(run.Seed, "C19/files", 0), order)
	vrun.ParallelFor(nf, func(k int) {
		f := files[order[k]]
		lds, err := ot.NewLoaders(bytes.NewReader(f.Bytes()))
		if err != nil {
			return
		}
		for _, ld := range lds {
			var w Witness
			w.Font = f.ID
			tags := ld.Tables()
			sort.Slice(tags, func(i, j int) bool { return tags[i] < tags[j] })
			ok := true
			for _, tg := range tags {
				raw, err := ld.RawTable(tg)
				if err != nil {
					ok = false
					break
				}
				w.Tables = append(w.Tables, TableSpec{Tag: uint32(tg), Content: raw, Spare: int(tg) % 5})
			}
			if !ok || len(w.Tables) == 0 {
				run.Inconclusive("corpus font with unreadable table")
				continue
			}
			run.Cover("corpus-font-rewritten")
			judge(w)
			// the re-written file parses into the same font: compare a digest of what
			// font.NewFont exposes (upem, character map, advances, extents)
			d0, ok0 := fontDigest(ld)
			if ok0 {
				tabs := make([]ot.Table, len(w.Tables))
				for i, t := range w.Tables {
					tabs[i] = ot.Table{Tag: ot.Tag(t.Tag), Content: t.Content}
				}
				var d1 string
				ok1 := false
				if pv, _ := vrun.Catch(func() {
					ld2, err := ot.NewLoader(bytes.NewReader(ot.WriteTTF(tabs)))
					if err == nil {
						d1, ok1 = fontDigest(ld2)
					}
				}); pv != nil || !ok1 || d0 != d1 {
					run.Violation("C19/reparse-font-differs", fmt.Sprintf("font %s re-written from its own tables does not parse to the same font (ok=%v)", f.ID, ok1), w)
				} else {
					run.Cover("corpus-font-reparsed-equal")
				}
			}
		}
	})

	run.Finish(vrun.Level{
		Level: "exploration",
		Rule: "cases: (1) exhaustive 1-table lengths 0..67 x spare capacity 0..7 x 2 fills; (2) table counts 0..40 x random lengths; (3) random lists, lengths<=4096; (4) corpus fonts re-written from their own tables. " +
			"non-trivial = some table has len%4!=0 or spare capacity>0; distinct by hash of (tags, contents, spare)",
		Assumptions: []string{"reference sfnt reader in c19.go (header arithmetic, directory, checksum by word sum of zero-padded body)", "tags in input strictly ascending (the documented precondition)"},
		Floor:       500,
	})
}

func bucket(n int) int {
	switch {
	case n <= 2:
		return n
	case n <= 8:
		return 8
	case n <= 16:
		return 16
	case n <= 32:
		return 32
	}
	return 40
}

// fontDigest summarises what font.NewFont exposes for a loader.
func fontDigest(ld *ot.Loader) (string, bool) {
	var out string
	ok := false
	vrun.Catch(func() {
		ft, err := font.NewFont(ld)
		if err != nil {
			return
		}
		face := font.NewFace(ft)
		h := fnv.New64a()
		fmt.Fprint(h, ft.Upem())
		if ft.Cmap != nil {
			it := ft.Cmap.Iter()
			// order-independent: the iteration order of a format 0 cmap is Go map order
			var acc uint64
			for n := 0; n < 70000 && it.Next(); n++ {
				r, g := it.Char()
				acc += (uint64(r)*0x9E3779B97F4A7C15 + 1) * (uint64(g)*0xD1B54A32D192ED03 + 7)
			}
			fmt.Fprint(h, acc)
		}
		for g := font.GID(0); g < 64; g++ {
			e, has := face.GlyphExtents(g)
			fmt.Fprint(h, face.HorizontalAdvance(g), e, has, ft.GlyphName(g))
		}
		out, ok = fmt.Sprintf("%x", h.Sum64()), true
	})
	return out, ok
}
