package c09

// Structure-aware mutants of GSUB/GPOS: the harness walks the lookup list with its
// own minimal reader (header -> LookupList -> Lookup -> subtables -> Coverage
// tables), aims one field of a Coverage table (format, count, a glyph, a range's
// start / end / startCoverageIndex) or one of the first words of the subtable that
// owns it, and tells the executor which glyphs the coverage lists so that the
// shaping queries actually reach the mutated lookup (with every feature of the
// font switched on).

import (
	"fmt"

	"verifharness/internal/corpus"
	"verifharness/internal/gen"
)

type covSite struct {
	sub, cov int // absolute offsets of the subtable and of its coverage table
	gpos     bool
	typ      int
	format   int // coverage format
	count    int
	glyphs   []uint16 // up to 8 glyphs it lists
}

var covCache = map[string][]covSite{}

// childSite is a table hanging off a subtable (a PairSet, a LigatureSet, a rule set,
// a MarkArray ...) that starts with a count of fixed-size records; the parser has to
// check count*size against the bytes that are left.
type childSite struct {
	sub, child int // absolute offsets of the owning subtable and of the count field
	gpos       bool
	typ        int
	rec        int // bytes per record
	name       string
	glyphs     []uint16 // the glyph that selects this child, then others of the coverage
}

var childCache = map[string][]childSite{}

func popcount16(v int) int {
	n := 0
	for ; v != 0; v &= v - 1 {
		n++
	}
	return n
}

// walkChildren lists the counted child tables of the subtables found by walkLayout.
func walkChildren(b []byte, t tbl, covs []covSite) []childSite {
	var out []childSite
	end := t.off + t.length
	seen := map[int]bool{}
	for _, cs := range covs {
		if seen[cs.sub] || cs.sub+12 > end {
			continue
		}
		seen[cs.sub] = true
		f := u16(b, cs.sub)
		ty, gpos, sub := cs.typ, cs.gpos, cs.sub
		ctx := (!gpos && (ty == 5 || ty == 6)) || (gpos && (ty == 7 || ty == 8))
		chain := (!gpos && ty == 6) || (gpos && ty == 8)
		// offset arrays: (position of the count, record size of the children, name)
		arr, rec, name := -1, 2, ""
		switch {
		case !gpos && f == 1 && ty >= 2 && ty <= 4:
			arr, name = sub+4, [...]string{"Sequence", "AlternateSet", "LigatureSet"}[ty-2]
		case ctx && f == 1:
			arr, name = sub+4, "RuleSet"
		case ctx && f == 2 && !chain:
			arr, name = sub+6, "ClassRuleSet"
		case ctx && f == 2 && chain:
			arr, name = sub+10, "ChainClassRuleSet"
		case gpos && ty == 2 && f == 1:
			arr, name = sub+8, "PairSet"
			rec = 2 * (1 + popcount16(u16(b, sub+4)) + popcount16(u16(b, sub+6)))
		case gpos && ty == 3 && f == 1:
			out = append(out, childSite{sub: sub, child: sub + 4, gpos: gpos, typ: ty, rec: 4, name: "EntryExit records", glyphs: cs.glyphs})
		case gpos && (ty == 4 || ty == 6) && f == 1:
			cc := u16(b, sub+6)
			if m := sub + u16(b, sub+8); m+2 <= end {
				out = append(out, childSite{sub: sub, child: m, gpos: gpos, typ: ty, rec: 4, name: "MarkArray", glyphs: cs.glyphs})
			}
			if m := sub + u16(b, sub+10); m+2 <= end && cc > 0 {
				out = append(out, childSite{sub: sub, child: m, gpos: gpos, typ: ty, rec: 2 * cc, name: "BaseArray/Mark2Array", glyphs: cs.glyphs})
			}
		case gpos && ty == 5 && f == 1:
			if m := sub + u16(b, sub+8); m+2 <= end {
				out = append(out, childSite{sub: sub, child: m, gpos: gpos, typ: ty, rec: 4, name: "MarkArray", glyphs: cs.glyphs})
			}
			if m := sub + u16(b, sub+10); m+2 <= end {
				out = append(out, childSite{sub: sub, child: m, gpos: gpos, typ: ty, rec: 2, name: "LigatureArray", glyphs: cs.glyphs})
			}
		}
		if arr < 0 || arr+2 > end {
			continue
		}
		n := u16(b, arr)
		for i := 0; i < n && i < 3 && arr+4+2*i <= end; i++ {
			o := u16(b, arr+2+2*i)
			if o == 0 || sub+o+2 > end {
				continue
			}
			ch := childSite{sub: sub, child: sub + o, gpos: gpos, typ: ty, rec: rec, name: fmt.Sprintf("%s[%d]", name, i)}
			// coverage index i selects child i (format 1 coverage lists its first glyphs in order)
			if cs.format == 1 && i < len(cs.glyphs) && !(ctx && f == 2) {
				ch.glyphs = append(ch.glyphs, cs.glyphs[i])
			}
			ch.glyphs = append(ch.glyphs, cs.glyphs...)
			out = append(out, ch)
		}
	}
	return out
}

// genChildCountCase sets the count of a child table in the window where a length
// check made in the wrong unit (records, 16-bit words, bytes) still passes: around the
// number of records that fit in the bytes left, and around its double and its half.
func genChildCountCase(seed int64, k int, files []*corpus.File) *Case {
	buildTagIndex(files)
	var sites []tagSite
	sites = append(sites, tagIndex[0x47535542]...) // GSUB
	ng := len(sites)
	sites = append(sites, tagIndex[0x47504f53]...) // GPOS
	if len(sites) == 0 {
		return genFileCase(seed, k, files)
	}
	// GPOS twice as often: its children hold records, not only offsets
	si := k % (len(sites) + len(sites) - ng)
	if si >= len(sites) {
		si = ng + (si - len(sites))
	}
	site := sites[si]
	key := fmt.Sprintf("%s/%d", site.file.ID, site.t.off)
	chs, ok := childCache[key]
	if !ok {
		covs, okc := covCache[key]
		if !okc {
			covs = walkLayout(site.file.Bytes(), site.t, si >= ng)
			covCache[key] = covs
		}
		chs = walkChildren(site.file.Bytes(), site.t, covs)
		childCache[key] = chs
	}
	if len(chs) == 0 {
		return genLayoutCase(seed, k, files)
	}
	r := gen.New(seed, "C09/layout-child", k)
	ch := chs[r.Intn(len(chs))]
	left := site.t.off + site.t.length - ch.child - 2
	fit := left / ch.rec
	cands := []int{fit + 1, fit + 2, 2 * fit, 2*fit - 1, 2*fit + 1, fit + fit/2, fit/2 + 1, 4 * fit, fit}
	v := cands[r.Intn(len(cands))]
	if v > 0xFFFF {
		v = 0xFFFF
	}
	tag := "GSUB"
	if ch.gpos {
		tag = "GPOS"
	}
	return &Case{File: site.file.ID, Kind: "layout-child-count", Focus: ch.glyphs,
		Edits: []Edit{{Off: ch.child, Data: put16(uint16(v))}},
		Note: fmt.Sprintf("%s lookup type %d subtable@%d %s@%d count %d -> %d (%d records of %d bytes fit)", tag, ch.typ, ch.sub-site.t.off, ch.name, ch.child-site.t.off,
			u16(site.file.Bytes(), ch.child), v, fit, ch.rec)}
}

func walkLayout(b []byte, t tbl, gpos bool) []covSite {
	var out []covSite
	end := t.off + t.length
	if end > len(b) || t.length < 10 {
		return nil
	}
	ll := t.off + u16(b, t.off+8)
	if ll+2 > end {
		return nil
	}
	extType := 7
	if gpos {
		extType = 9
	}
	nl := u16(b, ll)
	for i := 0; i < nl && i < 512 && len(out) < 4096; i++ {
		lk := ll + u16(b, ll+2+2*i)
		if lk+6 > end {
			continue
		}
		typ, ns := u16(b, lk), u16(b, lk+4)
		for j := 0; j < ns && j < 64; j++ {
			sub := lk + u16(b, lk+6+2*j)
			ty := typ
			if ty == extType && sub+8 <= end {
				ty = u16(b, sub+2)
				sub += u32(b, sub+4)
			}
			if sub+4 > end || sub < t.off {
				continue
			}
			f := u16(b, sub)
			var covs []int
			ctx := (!gpos && (ty == 5 || ty == 6)) || (gpos && (ty == 7 || ty == 8))
			chain := (!gpos && ty == 6) || (gpos && ty == 8)
			switch {
			case ctx && f == 3 && !chain:
				n := u16(b, sub+2)
				for q := 0; q < n && q < 8; q++ {
					covs = append(covs, u16(b, sub+6+2*q))
				}
			case ctx && f == 3 && chain:
				p := sub + 2
				for part := 0; part < 3; part++ {
					n := u16(b, p)
					p += 2
					for q := 0; q < n && q < 8 && p+2 <= end; q++ {
						covs = append(covs, u16(b, p))
						p += 2
					}
				}
			case gpos && ty >= 4 && ty <= 6:
				covs = append(covs, u16(b, sub+2), u16(b, sub+4))
			default:
				covs = append(covs, u16(b, sub+2))
			}
			for _, co := range covs {
				cov := sub + co
				if co == 0 || cov+4 > end {
					continue
				}
				cs := covSite{sub: sub, cov: cov, gpos: gpos, typ: ty, format: u16(b, cov), count: u16(b, cov+2)}
				switch cs.format {
				case 1:
					for q := 0; q < cs.count && cov+6+2*q <= end; q++ {
						if q < 4 || q >= cs.count-4 {
							cs.glyphs = append(cs.glyphs, uint16(u16(b, cov+4+2*q)))
						}
					}
				case 2:
					for q := 0; q < cs.count && cov+10+6*q <= end; q++ {
						if q < 4 || q >= cs.count-4 {
							cs.glyphs = append(cs.glyphs, uint16(u16(b, cov+4+6*q)))
						}
					}
				default:
					continue
				}
				out = append(out, cs)
			}
		}
	}
	return out
}

var layoutValues = []uint16{0x4000, 0xFFFF, 0, 1, 0x7FFF, 0x8000, 2}

func genLayoutCase(seed int64, k int, files []*corpus.File) *Case {
	buildTagIndex(files)
	var sites []tagSite
	sites = append(sites, tagIndex[0x47535542]...) // GSUB
	ng := len(sites)
	sites = append(sites, tagIndex[0x47504f53]...) // GPOS
	if len(sites) == 0 {
		return genFileCase(seed, k, files)
	}
	si := k % len(sites)
	site := sites[si]
	key := fmt.Sprintf("%s/%d", site.file.ID, site.t.off)
	covs, ok := covCache[key]
	if !ok {
		covs = walkLayout(site.file.Bytes(), site.t, si >= ng)
		covCache[key] = covs
	}
	if len(covs) == 0 {
		return genFileCase(seed, k, files)
	}
	r := gen.New(seed, "C09/layout", k)
	cs := covs[r.Intn(len(covs))]
	// the fields of this coverage table and of the owning subtable
	type field struct {
		off  int
		name string
	}
	fields := []field{{cs.cov, "cov.format"}, {cs.cov + 2, "cov.count"}}
	idx := []int{0, 1, cs.count - 1, cs.count / 2}
	for _, q := range idx {
		if q < 0 || q >= cs.count {
			continue
		}
		if cs.format == 1 {
			fields = append(fields, field{cs.cov + 4 + 2*q, fmt.Sprintf("cov.glyph[%d]", q)})
		} else {
			fields = append(fields, field{cs.cov + 4 + 6*q, fmt.Sprintf("cov.range[%d].start", q)},
				field{cs.cov + 6 + 6*q, fmt.Sprintf("cov.range[%d].end", q)},
				field{cs.cov + 8 + 6*q, fmt.Sprintf("cov.range[%d].startIndex", q)})
		}
	}
	for o := 2; o <= 14; o += 2 {
		fields = append(fields, field{cs.sub + o, fmt.Sprintf("subtable+%d", o)})
	}
	f := fields[r.Intn(len(fields))]
	v := gen.Pick(r, layoutValues)
	if r.Chance(1, 6) {
		v = uint16(cs.count + r.Intn(3) - 1)
	}
	tag := "GSUB"
	if cs.gpos {
		tag = "GPOS"
	}
	c := &Case{File: site.file.ID, Kind: "layout-coverage-field", Focus: cs.glyphs,
		Note: fmt.Sprintf("%s lookup type %d subtable@%d coverage@%d (format %d, %d entries) %s=%#x", tag, cs.typ, cs.sub-site.t.off, cs.cov-site.t.off, cs.format, cs.count, f.name, v)}
	if f.off+2 <= len(site.file.Bytes()) {
		c.Edits = []Edit{{Off: f.off, Data: put16(v)}}
	}
	return c
}

// gdefCaretDevices lists the absolute offsets of the Device / VariationIndex tables of
// the format 3 caret values of GDEF's LigCaretList, with the glyph each belongs to.
func gdefCaretDevices(b []byte, t tbl) (devs []int, glyphs []uint16) {
	end := t.off + t.length
	if t.length < 12 || end > len(b) {
		return
	}
	lc := t.off + u16(b, t.off+8)
	if lc == t.off || lc+4 > end {
		return
	}
	cov := lc + u16(b, lc)
	n := u16(b, lc+2)
	for i := 0; i < n && i < 512 && lc+4+2*i+2 <= end; i++ {
		lg := lc + u16(b, lc+4+2*i)
		if lg+2 > end {
			continue
		}
		// the glyph of coverage index i (format 1 only; else the first glyph of the coverage)
		var gid uint16
		if cov+4 <= end && u16(b, cov) == 1 && i < u16(b, cov+2) && cov+4+2*i+2 <= end {
			gid = uint16(u16(b, cov+4+2*i))
		} else if cov+6 <= end {
			gid = uint16(u16(b, cov+4))
		}
		nc := u16(b, lg)
		for j := 0; j < nc && j < 16 && lg+2+2*j+2 <= end; j++ {
			cv := lg + u16(b, lg+2+2*j)
			if cv+6 <= end && u16(b, cv) == 3 {
				if d := cv + u16(b, cv+4); d+6 <= end {
					devs = append(devs, d)
					glyphs = append(glyphs, gid)
				}
			}
		}
	}
	return
}

// genCaretDeviceCase rewrites the three header fields of such a table: hinting Device
// tables (formats 1..3) with sizes starting at 0, reversed or huge ranges.
func genCaretDeviceCase(seed int64, k int, files []*corpus.File) *Case {
	buildTagIndex(files)
	sites := tagIndex[0x47444546] // GDEF
	if len(sites) == 0 {
		return nil
	}
	for try := 0; try < len(sites); try++ {
		site := sites[(k+try)%len(sites)]
		devs, glyphs := gdefCaretDevices(site.file.Bytes(), site.t)
		if len(devs) == 0 {
			continue
		}
		r := gen.New(seed, "C09/caret-device", k)
		i := r.Intn(len(devs))
		hdr := [][3]uint16{{0, 0, 1}, {0, 0xFFFF, 1}, {0, 1, 2}, {0, 0, 3}, {5, 3, 1}, {0, 0x7FFF, 3}, {1, 0, 2}, {0xFFFF, 0xFFFF, 1}}[r.Intn(8)]
		data := append(append(put16(hdr[0]), put16(hdr[1])...), put16(hdr[2])...)
		return &Case{File: site.file.ID, Kind: "gdef-caret-device", Focus: []uint16{glyphs[i]},
			Edits: []Edit{{Off: devs[i], Data: data}},
			Note:  fmt.Sprintf("GDEF caret of glyph %d: device header startSize=%d endSize=%d deltaFormat=%d", glyphs[i], hdr[0], hdr[1], hdr[2])}
	}
	return nil
}
