// Package c09 monitors "Font loading and querying are total on arbitrary bytes".
//
// Events: for one mutated (or fault-injected) corpus file: the outcome of
// opening it, of every query of a fixed catalogue on every returned face and
// of one shaping call; thread CPU seconds, bytes allocated, recovered panic
// site or child death.
// Oracle: no panic, no fatal error, CPU <= 10 s, allocation <= 64 MiB + 256*len.
package c09

import (
	"bytes"
	_ "embed"
	"encoding/binary"
	"encoding/json"
	"errors"
	"fmt"
	"hash/fnv"
	"io"
	"os"
	"runtime"
	"sort"
	"strings"
	"time"

	"github.com/go-text/typesetting/di"
	"github.com/go-text/typesetting/font"
	ot "github.com/go-text/typesetting/font/opentype"
	"github.com/go-text/typesetting/font/opentype/tables"
	"github.com/go-text/typesetting/fontscan"
	"github.com/go-text/typesetting/harfbuzz"
	"github.com/go-text/typesetting/language"
	"github.com/go-text/typesetting/shaping"
	"golang.org/x/image/math/fixed"

	"verifharness/internal/corpus"
	"verifharness/internal/gen"
	"verifharness/internal/vrun"
)

// Edit overwrites bytes at an offset.
type Edit struct {
	Off  int    `json:"off"`
	Data []byte `json:"data"`
}

// Case is a self-contained mutant description (relative to a corpus file).
type Case struct {
	File     string `json:"file"`
	Kind     string `json:"kind"`
	Edits    []Edit `json:"edits,omitempty"`
	Truncate int    `json:"truncate,omitempty"` // >0: keep this many bytes
	FaultAt  int    `json:"fault_at,omitempty"` // >0: the k-th Resource call fails
	FaultHow int    `json:"fault_how,omitempty"`
	Note     string `json:"note,omitempty"`
	// Focus lists glyphs the mutation is about: the executor shapes the runes mapped to them
	Focus []uint16 `json:"focus,omitempty"`
}

func (c *Case) bytes() []byte {
	f := corpus.ByID(c.File)
	if f == nil {
		return nil
	}
	b := append([]byte(nil), f.Bytes()...)
	for _, e := range c.Edits {
		if e.Off >= 0 && e.Off+len(e.Data) <= len(b) {
			copy(b[e.Off:], e.Data)
		}
	}
	if c.Truncate > 0 && c.Truncate < len(b) {
		b = b[:c.Truncate]
	}
	return b
}

// ---- minimal container reader of the harness (to aim the mutations)

type tbl struct {
	tag         uint32
	dirOff      int // offset of the directory entry
	off, length int
}

type layout struct {
	kind   string // sfnt, ttc, woff, dfont, other
	tables []tbl
	hdr    []int // offsets of interesting header fields (4-byte aligned words)
}

func u16(b []byte, o int) int {
	if o+2 > len(b) {
		return 0
	}
	return int(binary.BigEndian.Uint16(b[o:]))
}

func u32(b []byte, o int) int {
	if o+4 > len(b) {
		return 0
	}
	return int(binary.BigEndian.Uint32(b[o:]))
}

func sfntDir(b []byte, base int, lay *layout) {
	n := u16(b, base+4)
	for i := 0; i < n && i < 200; i++ {
		e := base + 12 + 16*i
		if e+16 > len(b) {
			break
		}
		lay.tables = append(lay.tables, tbl{tag: uint32(u32(b, e)), dirOff: e, off: u32(b, e+8), length: u32(b, e+12)})
	}
	for o := base; o < base+12; o += 2 {
		lay.hdr = append(lay.hdr, o)
	}
}

func parseLayout(b []byte) layout {
	var lay layout
	if len(b) < 12 {
		lay.kind = "other"
		return lay
	}
	switch string(b[:4]) {
	case "ttcf":
		lay.kind = "ttc"
		n := u32(b, 8)
		for o := 0; o < 12; o += 4 {
			lay.hdr = append(lay.hdr, o)
		}
		for i := 0; i < n && i < 16; i++ {
			lay.hdr = append(lay.hdr, 12+4*i)
			off := u32(b, 12+4*i)
			if off+12 <= len(b) {
				sfntDir(b, off, &lay)
			}
		}
	case "wOFF":
		lay.kind = "woff"
		for o := 0; o < 44; o += 4 {
			lay.hdr = append(lay.hdr, o)
		}
		n := u16(b, 12)
		for i := 0; i < n && i < 200; i++ {
			e := 44 + 20*i
			if e+20 > len(b) {
				break
			}
			lay.tables = append(lay.tables, tbl{tag: uint32(u32(b, e)), dirOff: e, off: u32(b, e+4), length: u32(b, e+8)})
		}
	default:
		if u32(b, 0) == 0x100 {
			lay.kind = "dfont"
			for o := 0; o < 16; o += 4 {
				lay.hdr = append(lay.hdr, o)
			}
			mo := u32(b, 4)
			for o := mo; o < mo+64 && o+2 <= len(b); o += 2 {
				lay.hdr = append(lay.hdr, o)
			}
		} else {
			lay.kind = "sfnt"
			sfntDir(b, 0, &lay)
		}
	}
	return lay
}

// ---- mutation generator

var fieldValues16 = []uint16{0, 1, 2, 0x7FFF, 0x8000, 0xFFFF, 0xFFFE, 0x0100}
var fieldValues32 = []uint32{0, 1, 0x7FFFFFFF, 0x80000000, 0xFFFFFFFF, 0x0000FFFF, 0x00010000}

func put16(v uint16) []byte { return []byte{byte(v >> 8), byte(v)} }
func put32(v uint32) []byte { return []byte{byte(v >> 24), byte(v >> 16), byte(v >> 8), byte(v)} }

var layouts = map[string]*layout{}

// GenCase builds mutant number idx.
func genFileCase(seed int64, idx int, files []*corpus.File) *Case {
	f := files[idx%len(files)]
	j := idx / len(files)
	r := gen.New(seed, "C09/case", idx)
	b := f.Bytes()
	lay := layouts[f.ID]
	if lay == nil {
		l := parseLayout(b)
		lay = &l
		layouts[f.ID] = lay
	}
	c := &Case{File: f.ID}
	nt := len(lay.tables)
	pickTable := func() tbl {
		// systematic walk over the tables first, then random
		if j < 4*nt {
			return lay.tables[j%nt]
		}
		return lay.tables[r.Intn(nt)]
	}
	kind := r.Intn(20)
	if nt == 0 && kind < 17 {
		kind = 17
	}
	switch {
	case kind < 3: // truncation at a table boundary or 0..64 bytes into the table
		t := pickTable()
		k := 0
		if r.Bool() {
			k = r.Intn(65)
		}
		c.Kind, c.Truncate = "truncate", t.off+k
		if c.Truncate <= 0 || c.Truncate >= len(b) {
			c.Truncate = 1 + r.Intn(len(b))
		}
		c.Note = fmt.Sprintf("table %s +%d", tagStr(t.tag), k)
	case kind < 11: // aligned 16/32-bit field in the first 256 bytes of a table
		t := pickTable()
		span := t.length
		if span > 256 {
			span = 256
		}
		if span < 2 || t.off < 0 || t.off+span > len(b) {
			c.Kind = "random-bytes"
			c.Edits = []Edit{{Off: r.Intn(len(b)), Data: []byte{byte(r.U64())}}}
			break
		}
		nedits := 1
		if r.Chance(1, 4) {
			nedits = 2
		}
		c.Kind = "table-field"
		for e := 0; e < nedits; e++ {
			o := t.off + 2*r.Intn(span/2)
			var data []byte
			switch r.Intn(8) {
			case 0:
				data = put16(uint16(t.length))
			case 1:
				data = put16(uint16(t.length - 1))
			case 2:
				data = put32(uint32(len(b)))
			case 3:
				data = put16(uint16(r.U64()))
			case 4:
				data = put32(gen.Pick(r, fieldValues32))
			default:
				data = put16(gen.Pick(r, fieldValues16))
			}
			if o+len(data) > len(b) {
				data = data[:len(b)-o]
			}
			c.Edits = append(c.Edits, Edit{Off: o, Data: data})
			c.Note += fmt.Sprintf("%s+%d ", tagStr(t.tag), o-t.off)
		}
	case kind < 14: // deeper field of a table (anywhere inside)
		t := pickTable()
		if t.length < 4 || t.off < 0 || t.off+t.length > len(b) {
			c.Kind = "random-bytes"
			c.Edits = []Edit{{Off: r.Intn(len(b)), Data: []byte{byte(r.U64())}}}
			break
		}
		o := t.off + 2*r.Intn(t.length/2)
		c.Kind = "table-deep-field"
		c.Edits = []Edit{{Off: o, Data: put16(gen.Pick(r, fieldValues16))}}
		c.Note = fmt.Sprintf("%s+%d", tagStr(t.tag), o-t.off)
	case kind < 17 && kind >= 11 && lay.kind == "woff" && r.Intn(3) != 0:
		// WOFF: the compressed and the original length of one table set together (a reader
		// that sizes a buffer from both is only bounded by the file when one of them is sane)
		t := pickTable()
		v := gen.Pick(r, []uint32{0x40000000, 0x7FFFFFFF, 0xFFFFFFFF, uint32(len(b)) * 40000})
		v2 := v
		if r.Bool() {
			v2 = gen.Pick(r, []uint32{0x40000000, 0x7FFFFFFF, 0xFFFFFFFF, uint32(len(b)) * 30000})
		}
		c.Kind = "woff-directory-lengths"
		c.Edits = []Edit{{Off: t.dirOff + 8, Data: put32(v)}, {Off: t.dirOff + 12, Data: put32(v2)}}
		c.Note = fmt.Sprintf("%s compLength=%#x origLength=%#x", tagStr(t.tag), v, v2)
	case kind < 16: // directory entry: offset / length / tag / checksum
		t := pickTable()
		which := r.Intn(3)
		var data []byte
		switch r.Intn(6) {
		case 0:
			data = put32(uint32(len(b)))
		case 1:
			data = put32(uint32(len(b) - 1))
		case 2:
			data = put32(uint32(len(b) - t.length + 1))
		default:
			data = put32(gen.Pick(r, fieldValues32))
		}
		off := t.dirOff + []int{8, 12, 0}[which]
		if lay.kind == "woff" {
			off = t.dirOff + []int{4, 8, 12}[which]
		}
		c.Kind = "directory-field"
		c.Edits = []Edit{{Off: off, Data: data}}
		c.Note = fmt.Sprintf("%s dir+%d", tagStr(t.tag), off-t.dirOff)
	case kind < 17: // swapped table bodies (directory entries exchange offset+length)
		t1, t2 := pickTable(), lay.tables[r.Intn(nt)]
		if lay.kind == "woff" || t1.dirOff+16 > len(b) || t2.dirOff+16 > len(b) {
			c.Kind = "random-bytes"
			c.Edits = []Edit{{Off: r.Intn(len(b)), Data: []byte{byte(r.U64())}}}
			break
		}
		c.Kind = "swap-bodies"
		c.Edits = []Edit{
			{Off: t1.dirOff + 8, Data: append([]byte(nil), b[t2.dirOff+8:t2.dirOff+16]...)},
			{Off: t2.dirOff + 8, Data: append([]byte(nil), b[t1.dirOff+8:t1.dirOff+16]...)},
		}
		c.Note = tagStr(t1.tag) + "<->" + tagStr(t2.tag)
	case kind < 18: // container header field
		if len(lay.hdr) == 0 {
			c.Kind = "random-bytes"
			c.Edits = []Edit{{Off: r.Intn(len(b)), Data: []byte{byte(r.U64())}}}
			break
		}
		o := gen.Pick(r, lay.hdr)
		c.Kind = "header-field"
		if r.Bool() {
			c.Edits = []Edit{{Off: o, Data: put16(gen.Pick(r, fieldValues16))}}
		} else {
			c.Edits = []Edit{{Off: o, Data: put32(gen.Pick(r, fieldValues32))}}
		}
		if o+len(c.Edits[0].Data) > len(b) {
			c.Edits[0].Data = c.Edits[0].Data[:len(b)-o]
		}
	case kind < 19: // 1-4 random bytes
		c.Kind = "random-bytes"
		for k := 1 + r.Intn(4); k > 0; k-- {
			c.Edits = append(c.Edits, Edit{Off: r.Intn(len(b)), Data: []byte{byte(r.U64())}})
		}
	default: // faulting resource: the k-th Read/ReadAt/Seek fails or is short
		c.Kind = "resource-fault"
		c.FaultAt = 1 + r.Intn(60)
		c.FaultHow = r.Intn(3)
	}
	return c
}

func tagStr(t uint32) string {
	b := []byte{byte(t >> 24), byte(t >> 16), byte(t >> 8), byte(t)}
	for i := range b {
		if b[i] < 0x20 || b[i] > 0x7e {
			b[i] = '?'
		}
	}
	return string(b)
}

// ---- faulting resource

type faultRes struct {
	r     *bytes.Reader
	calls int
	at    int
	how   int
}

var errInjected = errors.New("injected I/O fault")

func (f *faultRes) hit() bool {
	f.calls++
	return f.at > 0 && f.calls == f.at
}

func (f *faultRes) Read(p []byte) (int, error) {
	if f.hit() {
		switch f.how {
		case 0:
			return 0, errInjected
		case 1:
			if len(p) > 1 {
				n, _ := f.r.Read(p[:len(p)/2])
				return n, nil // short read, no error
			}
		default:
			return 0, io.EOF
		}
	}
	return f.r.Read(p)
}

func (f *faultRes) ReadAt(p []byte, off int64) (int, error) {
	if f.hit() {
		switch f.how {
		case 0:
			return 0, errInjected
		case 1:
			if len(p) > 1 {
				n, _ := f.r.ReadAt(p[:len(p)/2], off)
				return n, io.ErrUnexpectedEOF
			}
		default:
			return 0, io.EOF
		}
	}
	return f.r.ReadAt(p, off)
}

func (f *faultRes) Seek(off int64, whence int) (int64, error) {
	if f.hit() && f.how == 0 {
		return 0, errInjected
	}
	return f.r.Seek(off, whence)
}

// ---- the query catalogue

type outcome struct {
	opened   bool   // NewLoaders succeeded
	faces    int    // usable faces
	errStage string // which stage rejected
	digest   uint64 // hash of all query results
	panicV   any
	where    string
	cpu      float64
	alloc    uint64
	queries  int
}

var probeRunes = []rune{'a', ' ', 'A', '1', 0x4E2D, 0x627, 0x5D0, 0x915, 0xE01, 0x1F600, 0xFFFF, 0x10FFFF, 0}

var lineMetrics = []font.LineMetric{font.UnderlinePosition, font.UnderlineThickness, font.StrikethroughPosition, font.StrikethroughThickness,
	font.SuperscriptEmYSize, font.SuperscriptEmXOffset, font.SubscriptEmYSize, font.SubscriptEmYOffset, font.SubscriptEmXOffset, font.CapHeight, font.XHeight}

func execute(c *Case, data []byte, seed uint64) (o outcome) {
	h := fnv.New64a()
	w := func(a ...any) { fmt.Fprint(h, a...); o.queries++ }
	runtime.LockOSThread()
	cpu0, al0 := vrun.ThreadCPU(), vrun.AllocBytes()
	o.panicV, o.where = vrun.Catch(func() {
		var res ot.Resource = bytes.NewReader(data)
		if c.FaultAt > 0 {
			res = &faultRes{r: bytes.NewReader(data), at: c.FaultAt, how: c.FaultHow}
		}
		lds, err := ot.NewLoaders(res)
		if err != nil {
			o.errStage = "container"
			return
		}
		o.opened = true
		if len(lds) > 6 {
			lds = lds[:6]
		}
		for li, ld := range lds {
			desc, _ := font.Describe(ld, nil)
			w(desc.Family, desc.Aspect)
			if fp, err := fontscan.VerifFootprintFromLoader(ld, false); err == nil {
				w(fp.Family, fp.Runes.Len(), len(fp.Scripts))
			}
			ft, err := font.NewFont(ld)
			if err != nil {
				if o.errStage == "" {
					o.errStage = "table-parser"
				}
				continue
			}
			o.faces++
			queryFace(ft, w, seed+uint64(li), c.Focus)
		}
		// the collection entry point
		if c.FaultAt == 0 {
			if fs, err := font.ParseTTC(bytes.NewReader(data)); err == nil {
				w(len(fs))
			}
		}
	})
	o.cpu = vrun.ThreadCPU() - cpu0
	o.alloc = vrun.AllocBytes() - al0
	o.digest = h.Sum64()
	return o
}

func queryFace(ft *font.Font, w func(a ...any), seed uint64, focus []uint16) {
	face := font.NewFace(ft)
	w(ft.Upem(), ft.HasVerticalMetrics(), ft.IsMonospace())
	d := ft.Describe()
	w(d.Family, d.Aspect)
	// character map
	var runes []rune
	if ft.Cmap != nil {
		// the iteration order of a format 0 cmap is Go map order: sort before digesting
		type rg struct {
			r rune
			g font.GID
		}
		var pairs []rg
		it := ft.Cmap.Iter()
		for n := 0; n < 4096 && it.Next(); n++ {
			r, g := it.Char()
			pairs = append(pairs, rg{r, g})
		}
		sort.Slice(pairs, func(i, j int) bool { return pairs[i].r < pairs[j].r })
		for n, p := range pairs {
			if n < 24 || n%97 == 0 {
				runes = append(runes, p.r)
				w(p.r, p.g)
			}
		}
		if rr, ok := ft.Cmap.(font.CmapRuneRanger); ok {
			rs := rr.RuneRanges(nil)
			w(len(rs))
		}
	}
	for _, r := range probeRunes {
		g, ok := ft.NominalGlyph(r)
		w(g, ok)
		g, ok = ft.VariationGlyph(r, 0xFE0F)
		w(g, ok)
		g, ok = ft.VariationGlyph(r, 0xE0100)
		w(g, ok)
	}
	// glyph queries
	rs := seed*0x9E3779B97F4A7C15 + 12345
	next := func() uint64 { rs ^= rs << 13; rs ^= rs >> 7; rs ^= rs << 17; return rs }
	gids := []font.GID{0, 1, 2, 3, 0xFFFF, 0x10000, font.GID(^uint32(0))}
	for _, r := range runes {
		if g, ok := ft.NominalGlyph(r); ok && len(gids) < 28 {
			gids = append(gids, g)
		}
	}
	for k := 0; k < 5; k++ {
		gids = append(gids, font.GID(next()%4096))
	}
	for k, g := range focus {
		if k < 8 {
			gids = append(gids, font.GID(g))
		}
	}
	queryGlyphs := func() {
		for _, g := range gids {
			w(face.HorizontalAdvance(g), face.VerticalAdvance(g))
			x, y, ok := face.GlyphVOrigin(g)
			w(x, y, ok)
			x, y, ok = ft.GlyphHOrigin(g)
			w(x, y, ok)
			e, ok := face.GlyphExtents(g)
			w(e, ok)
			w(ft.GlyphName(g))
			x, y, ok = ft.GetGlyphContourPoint(g, 0)
			w(x, y, ok)
			x, y, ok = ft.GetGlyphContourPoint(g, 0xFFFF)
			w(x, y, ok)
			switch gd := face.GlyphData(g).(type) {
			case font.GlyphOutline:
				w(len(gd.Segments))
				if n := len(gd.Segments); n > 0 {
					w(gd.Segments[0], gd.Segments[n-1])
				}
			case font.GlyphBitmap:
				w(gd.Format, gd.Width, gd.Height, len(gd.Data))
			case font.GlyphSVG:
				w(len(gd.Source))
			}
		}
		he, ok := face.FontHExtents()
		w(he, ok)
		ve, ok := face.FontVExtents()
		w(ve, ok)
		for _, m := range lineMetrics {
			w(face.LineMetric(m))
		}
	}
	queryGlyphs()
	// glyph names: a spread over the glyph range plus the sizes of the built-in name tables
	// (predefined CFF charsets of 87 / 166 / 229 entries, 258 Macintosh names, 391 standard strings)
	for _, g := range []int{85, 86, 87, 164, 165, 166, 227, 228, 229, 230, 257, 258, 259, 390, 391, 392, 500, 700, 900, 1200, 2000, 5000, 20000, 65534} {
		w(ft.GlyphName(font.GID(g)))
	}
	w(len(ft.BitmapSizes()))
	for _, bs := range ft.BitmapSizes() {
		face.SetPpem(bs.XPpem, bs.YPpem)
		break
	}
	// variations
	face.SetVariations([]font.Variation{{Tag: ot.MustNewTag("wght"), Value: 650}, {Tag: ot.MustNewTag("wdth"), Value: 80}, {Tag: ot.MustNewTag("opsz"), Value: 20}, {Tag: ot.MustNewTag("slnt"), Value: -5}})
	w(face.Coords())
	// NormalizeVariations documents a panic for a wrong length: use the axis count
	if n := len(face.Coords()); n > 0 {
		cs := make([]float32, n)
		for i := range cs {
			cs[i] = []float32{100, 900, -1e9, 1e9, 0}[i%5]
		}
		w(ft.NormalizeVariations(cs))
	}
	queryGlyphs()
	// layout tables: walk what is public
	w(len(ft.GSUB.Lookups), len(ft.GPOS.Lookups), len(ft.GSUB.Scripts), len(ft.GSUB.Features), len(ft.Morx), len(ft.Kern), len(ft.Kerx))
	for _, s := range ft.GSUB.Scripts {
		w(s.Tag, len(s.LangSys))
	}
	// ligature carets (GDEF LigCaretList), a query of the buffer-level Font: every glyph the
	// caret coverage lists among the first 3000, both axes
	if cov := ft.GDEF.LigCaretList.Coverage; cov != nil {
		hf := harfbuzz.NewFont(face)
		n := 0
		for g := 0; g < 3000 && n < 64; g++ {
			if _, ok := cov.Index(tables.GlyphID(g)); ok {
				n++
				w(hf.GetOTLigatureCarets(harfbuzz.LeftToRight, font.GID(g)), hf.GetOTLigatureCarets(harfbuzz.TopToBottom, font.GID(g)))
			}
		}
	}
	// shaping with the face: the sampled cmap runes (up to ~66, spread over the character
	// map, so that substitution / positioning / morx / kerx lookups are actually reached),
	// in chunks of 24 runes, three directions, with the script of each chunk
	text := append([]rune(nil), runes...)
	for len(text) < 8 {
		text = append(text, probeRunes[len(text)%4])
	}
	var sh shaping.HarfbuzzShaper
	for lo := 0; lo < len(text); lo += 24 {
		hi := lo + 24
		if hi > len(text) {
			hi = len(text)
		}
		chunk := text[lo:hi]
		script := language.Common
		for _, r := range chunk {
			if sc := language.LookupScript(r); sc != language.Common && sc != language.Inherited && sc != language.Unknown {
				script = sc
				break
			}
		}
		for _, dir := range []di.Direction{di.DirectionLTR, di.DirectionRTL, di.DirectionTTB} {
			out := sh.Shape(shaping.Input{Text: chunk, RunStart: 0, RunEnd: len(chunk), Direction: dir, Face: face, Size: fixed.I(16),
				Script: script, Language: language.NewLanguage("en")})
			w(len(out.Glyphs), out.Advance)
		}
	}
	// AAT tracking is only applied under a point size, which shaping.Shape never sets: one
	// buffer level call with Ptem for fonts carrying a 'trak' table
	if len(ft.Trak.Horiz.TrackTable) != 0 || len(ft.Trak.Vert.TrackTable) != 0 || len(ft.Trak.Horiz.SizeTable) != 0 {
		for _, d := range []harfbuzz.Direction{harfbuzz.LeftToRight, harfbuzz.TopToBottom} {
			hf := harfbuzz.NewFont(face)
			hf.Ptem = 12
			buf := harfbuzz.NewBuffer()
			buf.AddRunes(text, 0, len(text))
			buf.Props.Direction = d
			buf.GuessSegmentProperties()
			buf.Props.Direction = d
			buf.Shape(hf, nil)
			w(len(buf.Info))
		}
	}
	// every feature of the font switched on (alternates, stylistic sets, ... are otherwise
	// never applied), on the first chunk and on the runes of the focus glyphs
	var feats []shaping.FontFeature
	seenTag := map[font.Tag]bool{}
	for _, l := range []*font.Layout{&ft.GSUB.Layout, &ft.GPOS.Layout} {
		for _, f := range l.Features {
			if !seenTag[f.Tag] && len(feats) < 64 {
				seenTag[f.Tag] = true
				feats = append(feats, shaping.FontFeature{Tag: f.Tag, Value: 1})
			}
		}
	}
	var focusText []rune
	if len(focus) > 0 && ft.Cmap != nil {
		want := map[font.GID]bool{}
		for _, g := range focus {
			want[font.GID(g)] = true
		}
		it := ft.Cmap.Iter()
		for n := 0; n < 70000 && it.Next() && len(focusText) < 16; n++ {
			if r, g := it.Char(); want[g] {
				focusText = append(focusText, r)
			}
		}
		sort.Slice(focusText, func(i, j int) bool { return focusText[i] < focusText[j] })
		// each focus rune also next to every other one (pairs, ligatures, contexts)
		if n := len(focusText); n > 0 && n <= 6 {
			for i := 0; i < n; i++ {
				for j := 0; j < n; j++ {
					focusText = append(focusText, focusText[i], focusText[j])
				}
			}
		}
	}
	// hinting device tables (GPOS, GDEF) are only consulted under a pixel size
	if len(ft.BitmapSizes()) == 0 {
		face.SetPpem(12, 12)
	}
	first := text
	if len(first) > 24 {
		first = first[:24]
	}
	for ti, tx := range [][]rune{first, focusText} {
		if len(tx) == 0 {
			continue
		}
		script := language.Common
		for _, r := range tx {
			if sc := language.LookupScript(r); sc != language.Common && sc != language.Inherited && sc != language.Unknown {
				script = sc
				break
			}
		}
		dirs := []di.Direction{di.DirectionLTR}
		if ti == 1 {
			dirs = []di.Direction{di.DirectionLTR, di.DirectionRTL}
		}
		for _, dir := range dirs {
			for _, ff := range [][]shaping.FontFeature{feats, nil} {
				if ti == 0 && ff == nil {
					continue // already shaped above
				}
				out := sh.Shape(shaping.Input{Text: tx, RunStart: 0, RunEnd: len(tx), Direction: dir, Face: face, Size: fixed.I(16),
					Script: script, Language: language.NewLanguage("en"), FontFeatures: ff})
				w(len(out.Glyphs), out.Advance)
			}
		}
	}
}

// cpuBudgetFor is proportional to the input: 10 s plus 3 s per MiB (the 20 MB
// collections of the corpus need several seconds for the whole catalogue even
// unmutated, more on a loaded machine).
func cpuBudgetFor(n int) float64 { return cpuBudget + 3*float64(n)/(1<<20) }

const (
	cpuBudget  = 10.0
	allocFixed = 384 << 20
	allocPerB  = 256
)

//go:embed crafted.json
var craftedJSON []byte

var parentDigest = map[string]uint64{}

// Main runs the monitor.
func Main() {
	run := vrun.Start("C09")
	files := corpus.Files()

	one := func(c *Case) {
		data := c.bytes()
		if data == nil {
			run.Inconclusive("corpus file not found")
			return
		}
		// the worker's watchdog cuts a hang short after 3x the budget of this input (three
		// executions may follow each other below: the re-measurements)
		run.CaseBudget(4.5 * cpuBudgetFor(len(data)))
		o := execute(c, data, 7)
		// a CPU reading above the budget is re-measured: the verdict is the minimum of
		// three runs (first-touch page faults of a freshly restored VM are charged to the
		// thread clock once, an algorithmic blow-up every time)
		for k := 0; k < 2 && o.panicV == nil && o.cpu > cpuBudgetFor(len(data)); k++ {
			run.Cover("cpu-remeasured")
			run.Note("re-measured: %.1f CPU s, %d bytes, %s %s %s", o.cpu, len(data), c.File, c.Kind, c.Note)
			if o2 := execute(c, data, 7); o2.cpu < o.cpu {
				o.cpu = o2.cpu
			}
		}
		run.Eval(1)
		run.Cover("mutation=" + c.Kind)
		if f := corpus.ByID(c.File); f != nil {
			run.Cover("container=" + containerOf(f.Bytes()))
		}
		if o.panicV != nil {
			run.Violation("C09/panic/"+vrun.TopFrame(o.where), fmt.Sprintf("panic on mutated font (%s %s): %v at %s", c.Kind, c.Note, o.panicV, o.where), c)
			return
		}
		switch {
		case o.cpu > 3:
			run.Cover("cpu>3s")
			run.Note("slow case: %.1f CPU s, %d bytes, %s %s %s edits=%v trunc=%d fault=%d", o.cpu, len(data), c.File, c.Kind, c.Note, c.Edits, c.Truncate, c.FaultAt)
		case o.cpu > 1:
			run.Cover("cpu>1s")
		}
		if b := cpuBudgetFor(len(data)); o.cpu > b {
			run.Violation("C09/cpu-budget", fmt.Sprintf("%.1f CPU seconds for a %d-byte input, budget %.0f s (%s %s)", o.cpu, len(data), b, c.Kind, c.Note), c)
		}
		if lim := uint64(allocFixed + allocPerB*len(data)); o.alloc > lim {
			run.Violation("C09/alloc-budget"+editedTable(c), fmt.Sprintf("%d MiB allocated for a %d-byte input, budget %d MiB (%s %s)", o.alloc>>20, len(data), lim>>20, c.Kind, c.Note), c)
		}
		switch {
		case !o.opened:
			run.Cover("outcome=rejected-by-container")
		case o.faces == 0:
			run.Cover("outcome=rejected-by-table-parser")
			run.Nontrivial(vrun.Hash64(c.File, c.Kind, fmt.Sprint(c.Edits), c.Truncate, c.FaultAt, c.FaultHow))
		default:
			pd, ok := parentDigest[c.File]
			if !ok {
				pc := &Case{File: c.File}
				po := execute(pc, corpus.ByID(c.File).Bytes(), 7)
				pd = po.digest
				parentDigest[c.File] = pd
			}
			if pd != o.digest {
				run.Cover("outcome=accepted-and-differs-from-parent")
				run.Nontrivial(vrun.Hash64(c.File, c.Kind, fmt.Sprint(c.Edits), c.Truncate, c.FaultAt, c.FaultHow))
				if run.WantSample() {
					run.Sample(map[string]any{"file": c.File, "kind": c.Kind, "note": c.Note, "faces": o.faces, "queries": o.queries, "cpu_s": o.cpu, "alloc_bytes": o.alloc})
				}
			} else {
				run.Cover("outcome=accepted-same-as-parent")
			}
		}
	}

	if run.Replay != "" {
		var c Case
		if _, err := vrun.ReadReplay(run.Replay, &c); err != nil {
			fmt.Println("replay:", err)
			os.Exit(2)
		}
		fmt.Printf("case: %+v\n", c)
		one(&c)
		run.Finish(vrun.Level{Level: "fault_enumeration", Rule: "replay of one witness"})
	}

	// deterministic file order
	sort.Slice(files, func(i, j int) bool { return files[i].ID < files[j].ID })
	nFiles := len(files)
	per := run.Pick(300, 3000)
	total := nFiles * per

	if run.Worker {
		run.WorkerLoop(cpuBudgetFor(24<<20)*1.5, func(i int) { one(GenCase(run.Seed, i, files)) })
		run.Finish(vrun.Level{})
	}

	// calibration on the unmutated corpus: maximum CPU / allocation, must stay far below the budgets
	var maxCPU, maxCPUratio float64
	var maxAllocRatio float64
	calib := 0
	for i, f := range files {
		if !run.Thorough() && i%8 != 0 && len(f.Bytes()) < 4<<20 {
			continue // quick: every 8th file, and every large one
		}
		o := execute(&Case{File: f.ID}, f.Bytes(), 7)
		calib++
		if o.panicV != nil {
			run.Violation("C09/panic-unmutated/"+vrun.TopFrame(o.where), fmt.Sprintf("panic on an unmodified corpus font: %v at %s", o.panicV, o.where), &Case{File: f.ID, Kind: "unmutated"})
			continue
		}
		if o.cpu > maxCPU {
			maxCPU = o.cpu
		}
		if r := o.cpu / cpuBudgetFor(len(f.Bytes())); r > maxCPUratio {
			maxCPUratio = r
		}
		if r := float64(o.alloc) / float64(allocFixed+allocPerB*len(f.Bytes())); r > maxAllocRatio {
			maxAllocRatio = r
		}
	}
	run.Extra("calibration_unmutated_files", calib)
	run.Extra("calibration_max_cpu_s", maxCPU)
	run.Extra("calibration_max_alloc_over_budget", maxAllocRatio)
	if maxCPUratio > 0.25 || maxAllocRatio > 0.25 {
		run.Inconclusive(fmt.Sprintf("budgets not 4x above the unmutated corpus maximum (cpu %.2fs, alloc ratio %.2f)", maxCPU, maxAllocRatio))
	}

	// crafted multi-field witnesses of repaired defects that no stream reaches by itself
	var crafted []Case
	if err := json.Unmarshal(craftedJSON, &crafted); err != nil {
		run.Inconclusive("crafted.json unreadable: " + err.Error())
	}
	for i := range crafted {
		one(&crafted[i])
	}

	run.Extra("files", nFiles)
	run.RunChildren(vrun.ChildCfg{N: total, Chunk: 1500, MemKiB: 8 << 20, StallWall: 10 * time.Minute}, func(d vrun.Death) {
		c := GenCase(run.Seed, d.Case, files)
		head := vrun.FatalHead(d.Detail)
		switch d.Kind {
		case "cpu":
			run.Violation("C09/cpu-budget", fmt.Sprintf("more than %.0f CPU seconds on a mutated font (%s %s), confirmed alone", cpuBudgetFor(24<<20)*1.5, c.Kind, c.Note), c)
		default:
			key := head
			if k := strings.Index(key, ":"); k > 0 && strings.HasPrefix(key, "fatal error") {
				key = strings.TrimSpace(key)
			}
			run.Violation("C09/fatal/"+key, fmt.Sprintf("process died on a mutated font (%s %s), confirmed alone: %s", c.Kind, c.Note, d.Detail), c)
		}
	})
	run.Finish(vrun.Level{Level: "fault_enumeration",
		Rule: "case i: corpus file (i mod #files) x one structure-aware mutation: truncation at a table boundary or 0..64 bytes into a table; an aligned 16/32-bit field in the first 256 bytes of a table (walked systematically over the tables first) or deeper, set to {0,1,2,0x7FFF,0x8000,0xFFFF,table length,length-1,file length,random}; a directory entry's offset/length/tag; swapped table bodies; a container header field (sfnt/TTC/WOFF/dfont); 1-4 random bytes; or a faulting Resource whose k-th Read/ReadAt/Seek fails, is short, or reports EOF. Then open + describe + footprint + query catalogue + shaping on every face. " +
			"non-trivial = mutant accepted with >=1 face whose query digest differs from its parent's, or rejected by a table parser (not by the container check); distinct by hash(file, mutation)",
		Assumptions: []string{"CPU per case measured on a locked OS thread; allocation by runtime/metrics delta in single-goroutine child processes under ulimit -v 8 GiB", "budgets: 10 s + 3 s/MiB CPU, 384 MiB + 256 B per input byte; calibration on the unmutated corpus recorded in coverage"},
		Floor:       2000})
}

func containerOf(b []byte) string { return parseLayout(b).kind }

// editedTable names the table the first edit of the case falls in ("/GSUB"), "" when
// the case does not edit table contents.
func editedTable(c *Case) string {
	f := corpus.ByID(c.File)
	if f == nil || len(c.Edits) == 0 {
		return ""
	}
	lay := parseLayout(f.Bytes())
	o := c.Edits[len(c.Edits)-1].Off
	for _, t := range lay.tables {
		if o >= t.off && o < t.off+t.length {
			return "/" + strings.TrimSpace(tagStr(t.tag))
		}
	}
	return ""
}

// ---- tag-driven systematic stream and recursion mutants

type tagSite struct {
	file *corpus.File
	t    tbl
}

var (
	tagIndex map[uint32][]tagSite
	tagList  []uint32
)

func buildTagIndex(files []*corpus.File) {
	if tagIndex != nil {
		return
	}
	tagIndex = map[uint32][]tagSite{}
	for _, f := range files {
		lay := parseLayout(f.Bytes())
		layouts[f.ID] = &lay
		if lay.kind != "sfnt" && lay.kind != "ttc" {
			continue
		}
		for _, t := range lay.tables {
			if t.off >= 0 && t.length >= 2 && t.off+t.length <= len(f.Bytes()) {
				tagIndex[t.tag] = append(tagIndex[t.tag], tagSite{f, t})
			}
		}
	}
	// prefer small files: a mutant of a 16 MB CJK font costs as much as 500 mutants of
	// a test font; big files are kept only for the tags that exist nowhere else
	for tg, sites := range tagIndex {
		var small []tagSite
		for _, st := range sites {
			if len(st.file.Bytes()) <= 2<<20 {
				small = append(small, st)
			}
		}
		if len(small) > 0 {
			tagIndex[tg] = small
		}
	}
	for tg := range tagIndex {
		tagList = append(tagList, tg)
	}
	sort.Slice(tagList, func(i, j int) bool { return tagList[i] < tagList[j] })
}

var sysValues16 = []uint16{0, 1, 0x7FFF, 0x8000, 0xFFFF}
var sysValues32 = []uint32{0, 1, 0x7FFFFFFF, 0x80000000, 0xFFFFFFFF, 0xFFFFFFF0}

// genTagCase: every table tag of the corpus gets the same share of mutants (rare
// tables such as SVG, sbix, CBLC, MVAR, kerx are otherwise drowned by the hundreds
// of small test fonts), and inside a table the fields are walked systematically:
// case k of a tag = (site k mod #sites, aligned offset, width, value).
func genTagCase(seed int64, k int, files []*corpus.File) *Case {
	buildTagIndex(files)
	short := k%3 == 2
	window := false
	if short {
		k /= 3
		// every other one: the count-window variant below
		window, short = k%2 == 1, k%2 == 0
		k /= 2
	}
	tg := tagList[k%len(tagList)]
	k /= len(tagList)
	sites := tagIndex[tg]
	site := sites[k%len(sites)]
	k /= len(sites)
	if window && site.t.length >= 8 {
		// one 16-bit field read as a count of s-byte records: the values around what fits
		// in the bytes that follow it, and around twice that (a length check made in
		// 16-bit words where bytes are meant, or on the wrong record size, still passes)
		type wv struct{ s, mul, add int }
		wvs := []wv{{2, 2, 0}, {4, 2, 0}, {6, 2, 0}, {8, 2, 0}, {12, 2, 0}, {16, 2, 0}, {2, 1, 1}, {4, 1, 1}, {6, 1, 1}, {8, 1, 1}}
		w := wvs[k%len(wvs)]
		k /= len(wvs)
		span := site.t.length
		if span > 256 {
			span = 256
		}
		off := 2 * (k % (span / 2))
		fit := (site.t.length - off - 2) / w.s
		v := fit*w.mul + w.add
		if v > 0xFFFF {
			v = 0xFFFF
		}
		return &Case{File: site.file.ID, Kind: "tag-window-count",
			Edits: []Edit{{Off: site.t.off + off, Data: put16(uint16(v))}},
			Note:  fmt.Sprintf("%s+%d=%d (%d records of %d bytes fit in the rest of the table)", tagStr(tg), off, v, fit, w.s)}
	}
	if short && site.t.dirOff+16 <= len(site.file.Bytes()) {
		// two-field variant: the table is cut short in the directory (length 4..40, so that
		// only its header is left) and one 16-bit field of what is left - a count, a record
		// size, an offset - is set to a small or a huge value
		lens := []int{4, 6, 8, 10, 12, 14, 16, 18, 20, 24, 28, 32, 40}
		L := lens[k%len(lens)]
		k /= len(lens)
		if L > site.t.length {
			L = site.t.length
		}
		vals := []uint16{0, 1, 2, 3, 4, 7, 8, 0x7FFF, 0xFFFF}
		v := vals[k%len(vals)]
		k /= len(vals)
		off := 2 * (k % (L / 2))
		return &Case{File: site.file.ID, Kind: "tag-short-table-field",
			Edits: []Edit{{Off: site.t.dirOff + 12, Data: put32(uint32(L))}, {Off: site.t.off + off, Data: put16(v)}},
			Note:  fmt.Sprintf("%s length=%d +%d=%#x", tagStr(tg), L, off, v)}
	}
	span := site.t.length
	if span > 512 {
		span = 512
	}
	nv := len(sysValues16) + len(sysValues32) + 2
	off := 2 * ((k / nv) % (span / 2))
	vi := k % nv
	var data []byte
	switch {
	case vi < len(sysValues16):
		data = put16(sysValues16[vi])
	case vi < len(sysValues16)+len(sysValues32):
		data = put32(sysValues32[vi-len(sysValues16)])
	case vi == nv-2:
		data = put32(uint32(site.t.length))
	default:
		data = put32(uint32(len(site.file.Bytes())))
	}
	o := site.t.off + off
	if o+len(data) > len(site.file.Bytes()) {
		data = data[:len(site.file.Bytes())-o]
	}
	return &Case{File: site.file.ID, Kind: "tag-systematic-field", Edits: []Edit{{Off: o, Data: data}}, Note: fmt.Sprintf("%s+%d", tagStr(tg), off)}
}

// sbixDupeCycle turns one or two glyph records of an 'sbix' strike into 'dupe' records
// ("use the graphic of glyph N") that reference themselves or each other.
func sbixDupeCycle(site tagSite, r *gen.RNG) *Case {
	b := site.file.Bytes()
	maxp, ok := findTable(site.file, 0x6d617870)
	t := site.t
	if !ok || maxp.off+6 > len(b) || t.length < 12 {
		return nil
	}
	ng := u16(b, maxp.off+4)
	ns := u32(b, t.off+4)
	if ns == 0 || ns > 64 {
		return nil
	}
	st := t.off + u32(b, t.off+8+4*r.Intn(ns))
	if st+4+4*(ng+1) > t.off+t.length {
		return nil
	}
	var big []int
	for g := 0; g < ng && g < 70000; g++ {
		if u32(b, st+4+4*(g+1))-u32(b, st+4+4*g) >= 10 {
			big = append(big, g)
		}
	}
	if len(big) == 0 {
		return nil
	}
	g := big[r.Intn(len(big))]
	target := g
	if r.Chance(1, 3) && len(big) > 1 {
		target = big[r.Intn(len(big))]
	}
	rec := func(g, to int) []Edit {
		o := st + u32(b, st+4+4*g)
		return []Edit{{Off: o + 4, Data: []byte("dupe")}, {Off: o + 8, Data: put16(uint16(to))}}
	}
	c := &Case{File: site.file.ID, Kind: "sbix-dupe-cycle", Focus: []uint16{uint16(g), uint16(target)},
		Edits: rec(g, target), Note: fmt.Sprintf("sbix glyph %d is a dupe of glyph %d", g, target)}
	if target != g {
		c.Edits = append(c.Edits, rec(target, g)...)
	}
	for _, e := range c.Edits {
		if e.Off+len(e.Data) > len(b) {
			return nil
		}
	}
	return c
}

// recursion mutants: a composite glyph that includes itself, and a CFF global
// subroutine that calls itself (as last instruction, and followed by return).
func genRecursionCase(seed int64, k int, files []*corpus.File) *Case {
	buildTagIndex(files)
	r := gen.New(seed, "C09/recursion", k)
	if k%8 == 7 {
		if sites := tagIndex[0x73626978]; len(sites) > 0 { // sbix
			if c := sbixDupeCycle(sites[(k/8)%len(sites)], r); c != nil {
				return c
			}
		}
	}
	if k%2 == 0 {
		sites := tagIndex[0x676c7966] // glyf
		if len(sites) > 0 {
			site := sites[(k/2)%len(sites)]
			if (k/2)%3 == 2 {
				if c := compositeChain(site, r); c != nil {
					return c
				}
			}
			if c := selfComposite(site, r); c != nil {
				return c
			}
		}
	}
	sites := tagIndex[0x43464620] // "CFF "
	if len(sites) == 0 {
		return genFileCase(seed, k, files)
	}
	site := sites[(k/2)%len(sites)]
	if (k/2)%3 == 1 {
		if c := cffFanout(site, r); c != nil {
			return c
		}
	}
	if c := cffSelfCall(site, r, k%4 >= 2); c != nil {
		return c
	}
	return genFileCase(seed, k, files)
}

func findTable(f *corpus.File, tag uint32) (tbl, bool) {
	lay := layouts[f.ID]
	if lay == nil {
		l := parseLayout(f.Bytes())
		lay = &l
		layouts[f.ID] = lay
	}
	for _, t := range lay.tables {
		if t.tag == tag {
			return t, true
		}
	}
	return tbl{}, false
}

// compositeChain rewrites a chain of composite glyphs so that every component of
// composite i is composite i+1: the expansion has fan-out^depth leaves (a "billion
// laughs" outline) although no cycle exists.
func compositeChain(site tagSite, r *gen.RNG) *Case {
	b := site.file.Bytes()
	head, ok1 := findTable(site.file, 0x68656164)
	loca, ok2 := findTable(site.file, 0x6c6f6361)
	if !ok1 || !ok2 || head.off+52 > len(b) {
		return nil
	}
	long := u16(b, head.off+50) == 1
	n := loca.length / 2
	if long {
		n = loca.length / 4
	}
	glyphOff := func(i int) int {
		if long {
			return u32(b, loca.off+4*i)
		}
		return 2 * u16(b, loca.off+2*i)
	}
	type comp struct {
		gid  int
		idxs []int // file offsets of the glyphIndex fields
	}
	var comps []comp
	for g := 0; g+1 < n && g < 70000 && len(comps) < 64; g++ {
		lo, hi := site.t.off+glyphOff(g), site.t.off+glyphOff(g+1)
		if hi-lo < 16 || hi > len(b) || int16(u16(b, lo)) >= 0 {
			continue
		}
		c := comp{gid: g}
		for p := lo + 10; p+4 <= hi; {
			flags := u16(b, p)
			c.idxs = append(c.idxs, p+2)
			p += 4
			if flags&1 != 0 {
				p += 4
			} else {
				p += 2
			}
			switch {
			case flags&0x08 != 0:
				p += 2
			case flags&0x40 != 0:
				p += 4
			case flags&0x80 != 0:
				p += 8
			}
			if flags&0x20 == 0 {
				break
			}
		}
		if len(c.idxs) >= 2 {
			comps = append(comps, c)
		}
	}
	if len(comps) < 6 {
		return nil
	}
	gen.Shuffle(r, comps)
	depth := len(comps)
	if depth > 28 {
		depth = 28
	}
	c := &Case{File: site.file.ID, Kind: "glyf-composite-fanout", Note: fmt.Sprintf("chain of %d composites, fan-out %d, root glyph %d", depth, len(comps[0].idxs), comps[0].gid)}
	for i := 0; i+1 < depth; i++ {
		for _, o := range comps[i].idxs {
			c.Edits = append(c.Edits, Edit{Off: o, Data: put16(uint16(comps[i+1].gid))})
		}
	}
	return c
}

func selfComposite(site tagSite, r *gen.RNG) *Case {
	b := site.file.Bytes()
	head, ok1 := findTable(site.file, 0x68656164)
	loca, ok2 := findTable(site.file, 0x6c6f6361)
	if !ok1 || !ok2 || head.off+52 > len(b) {
		return nil
	}
	long := u16(b, head.off+50) == 1
	n := loca.length / 2
	if long {
		n = loca.length / 4
	}
	glyphOff := func(i int) int {
		if long {
			return u32(b, loca.off+4*i)
		}
		return 2 * u16(b, loca.off+2*i)
	}
	var composites []int
	for g := 0; g+1 < n && g < 70000; g++ {
		o := site.t.off + glyphOff(g)
		if glyphOff(g+1)-glyphOff(g) >= 16 && o+14 <= len(b) && int16(u16(b, o)) < 0 {
			composites = append(composites, g)
		}
	}
	if len(composites) == 0 {
		return nil
	}
	g := composites[r.Intn(len(composites))]
	target := g
	if r.Chance(1, 3) && len(composites) > 1 { // two-glyph cycle
		target = composites[r.Intn(len(composites))]
	}
	o := site.t.off + glyphOff(g)
	c := &Case{File: site.file.ID, Kind: "glyf-composite-cycle", Edits: []Edit{{Off: o + 12, Data: put16(uint16(target))}}, Note: fmt.Sprintf("glyph %d includes glyph %d", g, target)}
	if target != g {
		o2 := site.t.off + glyphOff(target)
		c.Edits = append(c.Edits, Edit{Off: o2 + 12, Data: put16(uint16(g))})
	}
	return c
}

// cffIndex reads a CFF INDEX at off and returns the data offsets of its objects.
func cffIndex(b []byte, off int) (objs [][2]int, end int, ok bool) {
	if off+2 > len(b) {
		return nil, 0, false
	}
	count := u16(b, off)
	if count == 0 {
		return nil, off + 2, true
	}
	if off+3 > len(b) {
		return nil, 0, false
	}
	osz := int(b[off+2])
	if osz < 1 || osz > 4 || off+3+(count+1)*osz > len(b) {
		return nil, 0, false
	}
	rd := func(i int) int {
		v := 0
		for k := 0; k < osz; k++ {
			v = v<<8 | int(b[off+3+i*osz+k])
		}
		return v
	}
	base := off + 3 + (count+1)*osz - 1
	for i := 0; i < count; i++ {
		lo, hi := base+rd(i), base+rd(i+1)
		if lo > hi || hi > len(b) {
			return nil, 0, false
		}
		objs = append(objs, [2]int{lo, hi})
	}
	return objs, base + rd(count), true
}

// cffFanout fills global subroutines 0..d-1 with calls to the next one: the call
// depth stays within the interpreter's limit but the number of executed calls is
// (subr length / 2) ^ d.
func cffFanout(site tagSite, r *gen.RNG) *Case {
	b := site.file.Bytes()
	o := site.t.off
	if o+4 > len(b) {
		return nil
	}
	p := o + int(b[o+2])
	var gsubrs [][2]int
	for i := 0; i < 4; i++ {
		objs, end, ok := cffIndex(b, p)
		if !ok {
			return nil
		}
		if i == 3 {
			gsubrs = objs
		}
		p = end
	}
	if len(gsubrs) < 4 || len(gsubrs) >= 1240 {
		return nil
	}
	d := len(gsubrs) - 1
	if d > 9 {
		d = 9
	}
	c := &Case{File: site.file.ID, Kind: "cff-subr-fanout", Note: fmt.Sprintf("global subrs 0..%d each call the next one repeatedly", d-1)}
	for i := 0; i < d; i++ {
		s := gsubrs[i]
		n := s[1] - s[0]
		if n < 4 {
			return nil
		}
		body := make([]byte, n)
		for k := 0; k+1 < n; k += 2 {
			body[k], body[k+1] = byte(139+(i+1-107)), 29 // <i+1 - bias> callgsubr
		}
		if n%2 == 1 {
			body[n-1] = 11 // return
		}
		c.Edits = append(c.Edits, Edit{Off: s[0], Data: body})
	}
	if cs := cffCharStrings(b, o); cs != nil {
		for k := 0; k < 3 && k < len(cs); k++ {
			g := cs[r.Intn(len(cs))]
			if g[1]-g[0] >= 2 {
				c.Edits = append(c.Edits, Edit{Off: g[0], Data: []byte{32, 29}})
			}
		}
	}
	return c
}

func cffSelfCall(site tagSite, r *gen.RNG, withReturn bool) *Case {
	b := site.file.Bytes()
	o := site.t.off
	if o+4 > len(b) {
		return nil
	}
	p := o + int(b[o+2]) // header size
	var gsubrs [][2]int
	for i := 0; i < 4; i++ { // Name, Top DICT, String, Global Subr
		objs, end, ok := cffIndex(b, p)
		if !ok {
			return nil
		}
		if i == 3 {
			gsubrs = objs
		}
		p = end
	}
	if len(gsubrs) == 0 || len(gsubrs) >= 1240 {
		return nil
	}
	// global subr 0: its last bytes become "<0 - bias> callgsubr [return]" (bias 107)
	s0 := gsubrs[0]
	need := 2
	tail := []byte{32, 29} // -107 callgsubr
	if withReturn {
		need, tail = 3, []byte{32, 29, 11}
	}
	if s0[1]-s0[0] < need {
		return nil
	}
	c := &Case{File: site.file.ID, Kind: "cff-subr-self-call", Note: fmt.Sprintf("gsubr 0 calls itself (return after: %v)", withReturn),
		Edits: []Edit{{Off: s0[1] - need, Data: tail}}}
	// make the charstrings reach it: every occurrence cannot be patched without parsing the
	// Top DICT; instead patch the first bytes of a few objects after the global subrs that
	// look like charstrings (the CharStrings INDEX is located through the Top DICT operator 17)
	if cs := cffCharStrings(b, o); cs != nil {
		for k := 0; k < 3 && k < len(cs); k++ {
			g := cs[r.Intn(len(cs))]
			if g[1]-g[0] >= 2 {
				c.Edits = append(c.Edits, Edit{Off: g[0], Data: []byte{32, 29}})
			}
		}
	}
	return c
}

// cffCharStrings finds the CharStrings INDEX through operator 17 of the first Top DICT.
func cffCharStrings(b []byte, o int) [][2]int {
	p := o + int(b[o+2])
	_, end, ok := cffIndex(b, p) // Name
	if !ok {
		return nil
	}
	tops, _, ok := cffIndex(b, end)
	if !ok || len(tops) == 0 {
		return nil
	}
	d := b[tops[0][0]:tops[0][1]]
	var stack []int
	for i := 0; i < len(d); {
		c := int(d[i])
		switch {
		case c >= 32 && c <= 246:
			stack = append(stack, c-139)
			i++
		case c >= 247 && c <= 250 && i+1 < len(d):
			stack = append(stack, (c-247)*256+int(d[i+1])+108)
			i += 2
		case c >= 251 && c <= 254 && i+1 < len(d):
			stack = append(stack, -(c-251)*256-int(d[i+1])-108)
			i += 2
		case c == 28 && i+2 < len(d):
			stack = append(stack, int(int16(uint16(d[i+1])<<8|uint16(d[i+2]))))
			i += 3
		case c == 29 && i+4 < len(d):
			stack = append(stack, int(int32(uint32(d[i+1])<<24|uint32(d[i+2])<<16|uint32(d[i+3])<<8|uint32(d[i+4]))))
			i += 5
		case c == 30: // real number: skip nibbles
			i++
			for i < len(d) && d[i]&0x0f != 0x0f && d[i]>>4 != 0x0f {
				i++
			}
			i++
			stack = append(stack, 0)
		case c == 12:
			stack = stack[:0]
			i += 2
		default:
			if c == 17 && len(stack) > 0 {
				objs, _, ok := cffIndex(b, o+stack[len(stack)-1])
				if ok {
					return objs
				}
				return nil
			}
			stack = stack[:0]
			i++
		}
	}
	return nil
}

// bitmapIndexCase is a two-field structural mutant of an embedded-bitmap location
// table (CBLC/EBLC/bloc): the index format of one index subtable is switched to each
// of the five formats (the corpus only has some of them) and one 32-bit word of the
// subtable body - a count, an image size or an offset, depending on the format - is
// set to a boundary value.
func bitmapIndexCase(site tagSite, k int) *Case {
	b := site.file.Bytes()
	t := site.t
	if t.length < 8+48 {
		return nil
	}
	numSizes := u32(b, t.off+4)
	if numSizes <= 0 || numSizes > 64 || 8+48*numSizes > t.length {
		return nil
	}
	size := k % numSizes
	k /= numSizes
	rec := t.off + 8 + 48*size
	arrOff, nSub := u32(b, rec), u32(b, rec+8)
	if nSub <= 0 || arrOff < 0 || arrOff+8*nSub > t.length {
		return nil
	}
	if nSub > 4 {
		nSub = 4
	}
	sub := k % nSub
	k /= nSub
	add := u32(b, t.off+arrOff+8*sub+4)
	hdr := arrOff + add
	if add < 0 || hdr+8+20 > t.length {
		return nil
	}
	format := 1 + k%5
	k /= 5
	word := 4 * (k % 5)
	k /= 5
	val := sysValues32[k%len(sysValues32)]
	c := &Case{File: site.file.ID, Kind: "bitmap-index-format",
		Note: fmt.Sprintf("%s size %d subtable %d format %d body+%d=%#x", tagStr(t.tag), size, sub, format, word, val)}
	c.Edits = []Edit{{Off: t.off + hdr, Data: put16(uint16(format))}, {Off: t.off + hdr + 8 + word, Data: put32(val)}}
	return c
}

func genBitmapIndexCase(seed int64, k int, files []*corpus.File) *Case {
	buildTagIndex(files)
	var sites []tagSite
	for _, tg := range []uint32{0x43424c43, 0x45424c43, 0x626c6f63} { // CBLC, EBLC, bloc
		sites = append(sites, tagIndex[tg]...)
	}
	if len(sites) == 0 {
		return genFileCase(seed, k, files)
	}
	if c := bitmapIndexCase(sites[k%len(sites)], k/len(sites)); c != nil {
		return c
	}
	return genFileCase(seed, k, files)
}

// GenCase dispatches case idx to one of the streams.
func GenCase(seed int64, idx int, files []*corpus.File) *Case {
	switch idx % 8 {
	case 0, 1, 2:
		return genTagCase(seed, idx/8*3+idx%8, files)
	case 3:
		switch (idx / 8) % 4 {
		case 0:
			return genRecursionCase(seed, idx/32, files)
		case 1:
			return genBitmapIndexCase(seed, idx/32, files)
		case 2:
			return genLayoutCase(seed, idx/32, files)
		default:
			if (idx/32)%2 == 0 {
				if (idx/64)%16 == 5 {
					if c := genCaretDeviceCase(seed, idx/1024, files); c != nil {
						return c
					}
				}
				return genChildCountCase(seed, idx/64, files)
			}
			return genCFFDictCase(seed, idx/64, files)
		}
	}
	return genFileCase(seed, idx, files)
}
