package c09

// Structure-aware mutants of the CFF Top DICT (and, through its Private entry, of the
// Private DICT): one operator byte is replaced by another operator, or one operand
// by a boundary value. DICT operators are single bytes, which the 16-bit field mutants
// never aim at; dropping or turning an operator changes which defaults apply (charset,
// encoding, FDSelect, CharStrings, Private) without breaking the table's framing.

import (
	"fmt"

	"verifharness/internal/corpus"
	"verifharness/internal/gen"
)

type dictTok struct {
	off, n int // token bytes [off, off+n)
	op     bool
}

func dictTokens(b []byte, lo, hi int) []dictTok {
	var out []dictTok
	for p := lo; p < hi; {
		c := b[p]
		n, op := 1, false
		switch {
		case c <= 21:
			op = true
			if c == 12 {
				n = 2
			}
		case c == 28:
			n = 3
		case c == 29:
			n = 5
		case c == 30:
			n = 1
			for p+n < hi {
				v := b[p+n]
				n++
				if v&0x0F == 0x0F || v>>4 == 0x0F {
					break
				}
			}
		case c >= 32 && c <= 246:
		case c >= 247 && c <= 254:
			n = 2
		}
		if p+n > hi {
			break
		}
		out = append(out, dictTok{p, n, op})
		p += n
	}
	return out
}

func cffDictCase(site tagSite, r *gen.RNG) *Case {
	b := site.file.Bytes()
	o := site.t.off
	if o+4 > len(b) || b[o] != 1 {
		return nil
	}
	p := o + int(b[o+2])
	_, end, ok := cffIndex(b, p) // Name INDEX
	if !ok {
		return nil
	}
	tops, _, ok := cffIndex(b, end)
	if !ok || len(tops) == 0 {
		return nil
	}
	top := tops[0]
	toks := dictTokens(b, top[0], top[1])
	if len(toks) == 0 {
		return nil
	}
	// the Private DICT: operands "size offset" before operator 18
	for i, t := range toks {
		if t.op && t.n == 1 && b[t.off] == 18 && i >= 2 && r.Chance(1, 3) {
			num := func(t dictTok) (int, bool) {
				c := int(b[t.off])
				switch {
				case c == 28:
					return int(int16(u16(b, t.off+1))), true
				case c == 29:
					return int(int32(u32(b, t.off+1))), true
				case c >= 32 && c <= 246:
					return c - 139, true
				case c >= 247 && c <= 250:
					return (c-247)*256 + int(b[t.off+1]) + 108, true
				}
				return 0, false
			}
			sz, ok1 := num(toks[i-2])
			of, ok2 := num(toks[i-1])
			if ok1 && ok2 && sz > 0 && of > 0 && o+of+sz <= len(b) {
				if pt := dictTokens(b, o+of, o+of+sz); len(pt) > 0 {
					toks = pt
				}
			}
			break
		}
	}
	t := toks[r.Intn(len(toks))]
	c := &Case{File: site.file.ID, Kind: "cff-dict-token"}
	switch {
	case t.op:
		nv := byte(r.Intn(22))
		if nv == 12 || nv == b[t.off] {
			nv = 13 // UniqueID: ignored, i.e. the operator and its operands are dropped
		}
		c.Edits = []Edit{{Off: t.off, Data: []byte{nv}}}
		c.Note = fmt.Sprintf("operator %d at CFF+%d becomes %d", b[t.off], t.off-o, nv)
	case t.n == 5:
		v := gen.Pick(r, []uint32{0, 1, 0x7FFFFFFF, 0x80000000, 0xFFFFFFFF, uint32(site.t.length), uint32(site.t.length - 1)})
		c.Edits = []Edit{{Off: t.off + 1, Data: put32(v)}}
		c.Note = fmt.Sprintf("32-bit operand at CFF+%d becomes %#x", t.off-o, v)
	case t.n == 3:
		v := gen.Pick(r, []uint16{0, 1, 0x7FFF, 0x8000, 0xFFFF})
		c.Edits = []Edit{{Off: t.off + 1, Data: put16(v)}}
		c.Note = fmt.Sprintf("16-bit operand at CFF+%d becomes %#x", t.off-o, v)
	default:
		v := gen.Pick(r, []byte{32, 139, 140, 246, 247, 251, 254})
		c.Edits = []Edit{{Off: t.off, Data: []byte{v}}}
		c.Note = fmt.Sprintf("operand byte at CFF+%d becomes %d", t.off-o, v)
	}
	return c
}

func genCFFDictCase(seed int64, k int, files []*corpus.File) *Case {
	buildTagIndex(files)
	sites := tagIndex[0x43464620] // "CFF "
	if len(sites) == 0 {
		return genFileCase(seed, k, files)
	}
	r := gen.New(seed, "C09/cffdict", k)
	if c := cffDictCase(sites[k%len(sites)], r); c != nil {
		return c
	}
	return genFileCase(seed, k, files)
}
