package c13

import (
	"fmt"

	"github.com/go-text/typesetting/di"
	"github.com/go-text/typesetting/font"
	"github.com/go-text/typesetting/shaping"
	"golang.org/x/image/math/fixed"

	"verifharness/internal/gen"
	"verifharness/internal/vrun"
)

// ---- generator -----------------------------------------------------------------------------

func genPara(r *gen.RNG, w *Witness) ParaSpec {
	ps := ParaSpec{Size: []int{640, 768, 1024, 2048}[r.Intn(4)], TruncText: []rune("…")}
	k := 1 + r.Intn(len(w.Faces))
	perm := make([]int, len(w.Faces))
	for j := range perm {
		perm[j] = j
	}
	gen.Shuffle(r, perm)
	ps.Faces = perm[:k]
	target := 4 + r.Intn(56)
	if r.Chance(1, 15) {
		target = 250 + r.Intn(150) // enough runs and lines to exhaust the wrapper's line buffer
	}
	ign := func() {
		for j := 0; j < 1+r.Intn(3); j++ {
			ps.Text = append(ps.Text, []rune{0x00AD, 0x200C, 0x200D, 0x2060}[r.Intn(4)])
		}
	}
	// Default ignorables at the start or the end of a right-to-left paragraph
	// holding left-to-right text form a run of their own, which fonts without a
	// space glyph shape to zero glyphs.
	ignLead, ignTrail := r.Chance(1, 6), r.Chance(1, 6)
	if ignLead {
		ign()
	}
	for len(ps.Text) < target {
		switch r.Intn(10) {
		case 0, 1, 2, 3, 4:
			fi := pool[w.Faces[ps.Faces[r.Intn(k)]].Font]
			ps.Text = append(ps.Text, genFontText(r, fi, 8)...)
		case 5, 6, 7:
			ps.Text = append(ps.Text, ' ')
		case 8:
			ps.Text = append(ps.Text, mixedPieces[r.Intn(len(mixedPieces))]...)
		default:
			ps.Text = append(ps.Text, []rune{'\n', '-', 0x00AD, ',', ' ', ' '}[r.Intn(6)])
		}
	}
	if ignTrail {
		ign()
	}
	ps.Dir = uint8(di.DirectionLTR)
	if r.Chance(1, 4) || ((ignLead || ignTrail) && r.Chance(2, 3)) {
		ps.Dir = uint8(di.DirectionRTL)
	}
	if r.Chance(1, 5) {
		ps.WordSp = []int{-64, 96, 256}[r.Intn(3)]
	}
	if r.Chance(1, 5) {
		ps.LetterSp = []int{-32, 64, 128}[r.Intn(3)]
	}
	return ps
}

func genWrapCfg(r *gen.RNG, dir uint8) *WrapCfg {
	c := &WrapCfg{Dir: dir, Policy: uint8(r.Intn(3))}
	if r.Chance(1, 6) {
		c.Dir ^= 1 // paragraph direction opposite to the itemisation's
	}
	if r.Chance(1, 2) {
		c.TruncLines = 1 + r.Intn(3)
		c.Truncator = r.Bool()
		c.TextContinues = r.Chance(1, 3)
	}
	c.NoTrim = r.Chance(1, 4)
	return c
}

func genWidth(r *gen.RNG) int {
	switch r.Intn(8) {
	case 0:
		return 0
	case 1:
		return 1000 + r.Intn(300) // wider than the paragraph
	case 2:
		return 1 + r.Intn(30)
	default:
		return 50 + r.Intn(700)
	}
}

func genWrapperHistory(r *gen.RNG, i int) Witness {
	w := Witness{Object: "wrapper"}
	ids := pickFonts(r, 1+r.Intn(3), false)
	if ns := poolIDs["nospace"]; len(ns) > 0 && r.Chance(1, 4) {
		ids[0] = ns[r.Intn(len(ns))]
	}
	for _, id := range ids {
		fs := FaceSpec{Font: id}
		if pool[id].class == "bitmap" {
			fs.Ppem = [2]uint16{16, 16}
		}
		w.Faces = append(w.Faces, fs)
	}
	np := 2 + r.Intn(3)
	for j := 0; j < np; j++ {
		w.Paras = append(w.Paras, genPara(r, &w))
	}
	n := 5 + r.Intn(36)
	session := false
	cur := 0
	for len(w.Ops) < n {
		k := r.Intn(100)
		switch {
		case k < 35 && session:
			w.Ops = append(w.Ops, Op{K: "nextline", Width: genWidth(r)})
		case k < 60:
			cur = r.Intn(np)
			w.Ops = append(w.Ops, Op{K: "prepare", Para: cur, Cfg: genWrapCfg(r, w.Paras[cur].Dir)})
			session = true
		default:
			cur = r.Intn(np)
			w.Ops = append(w.Ops, Op{K: "wrappara", Para: cur, Cfg: genWrapCfg(r, w.Paras[cur].Dir), Width: genWidth(r)})
			session = false
		}
	}
	return w
}

// ---- fixtures ------------------------------------------------------------------------------

type paraRT struct {
	text  []rune
	runs  []shaping.Output
	trunc shaping.Output
	adv   int
	// uncovered: some run has a rune that no glyph cluster covers (typically a
	// run shaped to zero glyphs). For such runs the wrapper's rune->glyph
	// mapping is not written at all, see the known class below.
	uncovered bool
}

// hasUncovered reports whether a rune of the run lies outside every glyph
// cluster [ClusterIndex, ClusterIndex+RuneCount] (the inclusive range the
// wrapper's mapping fills).
func hasUncovered(run shaping.Output) bool {
	if run.Runes.Count <= 0 {
		return false
	}
	cov := make([]bool, run.Runes.Count)
	for _, g := range run.Glyphs {
		for i := g.ClusterIndex - run.Runes.Offset; i <= g.ClusterIndex-run.Runes.Offset+g.RuneCount; i++ {
			if i >= 0 && i < len(cov) {
				cov[i] = true
			}
		}
	}
	for _, c := range cov {
		if !c {
			return true
		}
	}
	return false
}

func buildPara(ps *ParaSpec, faces []*faceRT) (p paraRT) {
	var fl []*font.Face
	for _, k := range ps.Faces {
		fl = append(fl, faces[k].face)
	}
	p.text = ps.Text
	in := shaping.Input{Text: ps.Text, RunStart: 0, RunEnd: len(ps.Text), Direction: di.Direction(ps.Dir), Size: fixed.Int26_6(ps.Size), Language: "en"}
	for _, item := range (&shaping.Segmenter{}).Split(in, &cmapFontmap{faces: fl}) {
		p.runs = append(p.runs, (&shaping.HarfbuzzShaper{}).Shape(item))
	}
	if ps.WordSp != 0 || ps.LetterSp != 0 {
		shaping.AddSpacing(p.runs, ps.Text, fixed.Int26_6(ps.WordSp), fixed.Int26_6(ps.LetterSp))
	}
	for _, r := range p.runs {
		if hasUncovered(r) {
			p.uncovered = true
		}
		a := r.Advance.Ceil()
		if a < 0 {
			a = -a
		}
		p.adv += a
	}
	tt := ps.TruncText
	if len(tt) == 0 {
		tt = []rune("…")
	}
	p.trunc = (&shaping.HarfbuzzShaper{}).Shape(shaping.Input{Text: tt, RunEnd: len(tt), Direction: di.Direction(ps.Dir), Face: fl[0], Size: fixed.Int26_6(ps.Size)})
	return p
}

// countIter is the harness's RunIterator: a slice iterator with a step budget,
// so that a wrapper that does not terminate ends as "inconclusive" instead of
// hanging the run.
type budgetExceeded struct{}

type countIter struct {
	runs       []shaping.Output
	idx, saved int
	budget     int
}

func (c *countIter) tick() {
	c.budget--
	if c.budget < 0 {
		panic(budgetExceeded{})
	}
}

func (c *countIter) Next() (int, shaping.Output, bool) {
	i, r, ok := c.Peek()
	if ok {
		c.idx++
	}
	return i, r, ok
}

func (c *countIter) Peek() (int, shaping.Output, bool) {
	c.tick()
	if c.idx >= len(c.runs) {
		return c.idx, shaping.Output{}, false
	}
	return c.idx, c.runs[c.idx], true
}
func (c *countIter) Save()    { c.tick(); c.saved = c.idx }
func (c *countIter) Restore() { c.idx = c.saved }

func newIter(p *paraRT) *countIter { return &countIter{runs: copyOutputs(p.runs), budget: 2_000_000} }

func wrapConfig(c *WrapCfg, p *paraRT) shaping.WrapConfig {
	cfg := shaping.WrapConfig{
		Direction:                     di.Direction(c.Dir),
		TruncateAfterLines:            c.TruncLines,
		TextContinues:                 c.TextContinues,
		BreakPolicy:                   shaping.LineBreakPolicy(c.Policy),
		DisableTrailingWhitespaceTrim: c.NoTrim,
	}
	if c.Truncator {
		cfg.Truncator = copyOutput(p.trunc)
	}
	return cfg
}

func isBudget(pv any) bool { _, ok := pv.(budgetExceeded); return ok }

// ---- interpreter -----------------------------------------------------------------------------

func judgeWrapper(w Witness) (vs []violation, st *histStats) {
	st = newStats()
	faces, ok := buildFaces(&w)
	if !ok {
		st.c("skipped/font-missing")
		return
	}
	paras := make([]paraRT, len(w.Paras))
	for i := range w.Paras {
		if pv, _ := vrun.Catch(func() { paras[i] = buildPara(&w.Paras[i], faces) }); pv != nil {
			st.c("inconclusive/fixture-shaping-panicked")
			return
		}
		if len(paras[i].runs) > 1 {
			st.c("fixture=several-runs")
		}
		if paras[i].uncovered {
			st.c("fixture=has-run-with-runes-outside-every-glyph-cluster")
		}
		if len(paras[i].runs) > 40 {
			st.c("fixture=more-than-40-runs")
		}
		if w.Paras[i].WordSp != 0 || w.Paras[i].LetterSp != 0 {
			st.c("fixture=with-added-spacing")
		}
	}
	var reused shaping.LineWrapper
	var shadow *shaping.LineWrapper // fresh at the Prepare of the current session
	var curPara *paraRT

	type keptLine struct {
		line, copy shaping.Line
		op         int
	}
	var kept []keptLine
	recheck := func(at int) {
		for _, k := range kept {
			if d := diffLine(k.line, k.copy); d != "" {
				vs = append(vs, violation{"C13/wrapper/retained-line-changed", fmt.Sprintf("a line returned by op %d changed after op %d (before the next Prepare/WrapParagraph): %s", k.op, at, d), at})
				kept = nil
				return
			}
		}
		st.cover["retained-line-recomparisons"] += int64(len(kept))
	}
	width := func(p *paraRT, permille int) int { return p.adv * permille / 1000 }
	// Known class: runMapper.mapping is reused without being cleared and is not
	// written for runes outside every glyph cluster, so for such paragraphs a
	// used wrapper reads indices left by an earlier run. Failures on paragraphs
	// holding such a run get their own key; all other paragraphs keep the
	// generic keys, so other leaks stay visible.
	classify := func(key string, p *paraRT) string {
		if p != nil && p.uncovered {
			return "C13/wrapper/stale-rune-mapping-for-runes-without-glyphs"
		}
		return key
	}
	uses := 0
	for i := range w.Ops {
		op := &w.Ops[i]
		st.ops++
		switch op.K {
		case "wrappara":
			kept = kept[:0] // invalidation point
			p := &paras[op.Para]
			mw := width(p, op.Width)
			var lines, linesF []shaping.Line
			var tr, trF int
			pv, where := vrun.Catch(func() { lines, tr = reused.WrapParagraph(wrapConfig(op.Cfg, p), mw, p.text, newIter(p)) })
			pvF, _ := vrun.Catch(func() {
				linesF, trF = (&shaping.LineWrapper{}).WrapParagraph(wrapConfig(op.Cfg, p), mw, p.text, newIter(p))
			})
			if pv != nil || pvF != nil {
				if pv != nil && pvF == nil && !isBudget(pv) {
					vs = append(vs, violation{classify("C13/wrapper/panic-only-when-reused", p), fmt.Sprintf("WrapParagraph panicked on the reused wrapper only: %v at %s", pv, where), i})
				} else if isBudget(pv) != isBudget(pvF) {
					vs = append(vs, violation{"C13/wrapper/step-budget-only-one-side", "WrapParagraph exceeded the iterator step budget on exactly one of reused/fresh", i})
				} else {
					st.c("inconclusive/wrap-panics-on-fresh-too")
				}
				return
			}
			st.c("op=WrapParagraph")
			st.c(fmt.Sprintf("policy=%d", op.Cfg.Policy))
			if op.Cfg.TruncLines > 0 {
				st.c("config=truncating")
			}
			if len(lines) > 1 {
				st.c("paragraph=several-lines")
			}
			total := 0
			for _, l := range lines {
				total += len(l)
			}
			if total > 100 {
				st.c("paragraph=more-than-100-runs-in-lines(line buffer exhausted)")
			}
			if tr != trF {
				vs = append(vs, violation{classify("C13/wrapper/wrapparagraph-differs-from-fresh", p), fmt.Sprintf("WrapParagraph(para %d, width %d, cfg %+v): truncated %d on the reused wrapper, %d on a fresh one", op.Para, mw, *op.Cfg, tr, trF), i})
			} else if d := diffLines(lines, linesF); d != "" {
				vs = append(vs, violation{classify("C13/wrapper/wrapparagraph-differs-from-fresh", p), fmt.Sprintf("WrapParagraph(para %d %+q, width %d, cfg %+v) on the reused wrapper differs from a fresh one: %s", op.Para, string(p.text), mw, *op.Cfg, d), i})
			}
			for _, l := range lines {
				kept = append(kept, keptLine{l, copyLine(l), i})
			}
			shadow, curPara = nil, nil
			uses++
		case "prepare":
			kept = kept[:0] // invalidation point
			p := &paras[op.Para]
			shadow = &shaping.LineWrapper{}
			curPara = p
			pv, where := vrun.Catch(func() { reused.Prepare(wrapConfig(op.Cfg, p), p.text, newIter(p)) })
			pvF, _ := vrun.Catch(func() { shadow.Prepare(wrapConfig(op.Cfg, p), p.text, newIter(p)) })
			if pv != nil || pvF != nil {
				if pv != nil && pvF == nil {
					vs = append(vs, violation{"C13/wrapper/panic-only-when-reused", fmt.Sprintf("Prepare panicked on the reused wrapper only: %v at %s", pv, where), i})
				}
				return
			}
			st.c("op=Prepare")
			if i > 0 && w.Ops[i-1].K != "wrappara" {
				st.c("op=Prepare-abandoning-a-session")
			}
			uses++
		case "nextline":
			if shadow == nil {
				continue
			}
			mw := width(curPara, op.Width)
			var l, lF shaping.WrappedLine
			var done, doneF bool
			pv, where := vrun.Catch(func() { l, done = reused.WrapNextLine(mw) })
			pvF, _ := vrun.Catch(func() { lF, doneF = shadow.WrapNextLine(mw) })
			if pv != nil || pvF != nil {
				if pv != nil && pvF == nil && !isBudget(pv) {
					vs = append(vs, violation{classify("C13/wrapper/panic-only-when-reused", curPara), fmt.Sprintf("WrapNextLine panicked on the reused wrapper only: %v at %s", pv, where), i})
				} else if isBudget(pv) != isBudget(pvF) {
					vs = append(vs, violation{"C13/wrapper/step-budget-only-one-side", "WrapNextLine exceeded the iterator step budget on exactly one of reused/fresh", i})
				} else {
					st.c("inconclusive/wrap-panics-on-fresh-too")
				}
				return
			}
			st.c("op=WrapNextLine")
			if l.Line == nil {
				st.c("op=WrapNextLine-after-done")
			}
			if done != doneF || l.Truncated != lF.Truncated || l.NextLine != lF.NextLine {
				vs = append(vs, violation{classify("C13/wrapper/nextline-differs-from-fresh", curPara), fmt.Sprintf("WrapNextLine(%d): reused wrapper (done %v, truncated %d, next %d), wrapper fresh at Prepare (done %v, truncated %d, next %d)", mw, done, l.Truncated, l.NextLine, doneF, lF.Truncated, lF.NextLine), i})
			} else if d := diffLine(l.Line, lF.Line); d != "" {
				vs = append(vs, violation{classify("C13/wrapper/nextline-differs-from-fresh", curPara), fmt.Sprintf("WrapNextLine(%d) on the reused wrapper differs from a wrapper that was fresh at Prepare: %s", mw, d), i})
			}
			if l.Line != nil {
				kept = append(kept, keptLine{l.Line, copyLine(l.Line), i})
			}
		}
		if uses >= 2 {
			st.nontrivial = true
		}
		recheck(i)
	}
	return
}
