// Package c13 monitors "Reusable objects never leak state between uses".
//
// Events: histories of operations on one shaping.HarfbuzzShaper, one font.Face,
// one shaping.Segmenter, one shaping.LineWrapper, one segmenter.Segmenter.
// Oracle: every result equals the result of the same call on an object
// constructed fresh for that call; results returned earlier are deep-copied at
// return and compared again after every later operation up to the documented
// invalidation point. See DESIGN §6 C13.
package c13

import (
	"fmt"
	"os"
	"strings"
	"time"

	"github.com/go-text/typesetting/font"
	ot "github.com/go-text/typesetting/font/opentype"
	"github.com/go-text/typesetting/font/opentype/tables"
	"github.com/go-text/typesetting/shaping"

	"verifharness/internal/gen"
	"verifharness/internal/vrun"
)

// ---- witness (self-contained, JSON-able) ---------------------------------------------

type VarSetting struct {
	Tag   string  `json:"tag"`
	Value float32 `json:"value"`
}

// FaceSpec describes one font.Face of a history: a corpus font and its
// initial settings (applied before the first operation).
type FaceSpec struct {
	Font   string       `json:"font"`
	Vars   []VarSetting `json:"vars,omitempty"`
	Coords []float32    `json:"coords,omitempty"` // normalized, one per axis
	Ppem   [2]uint16    `json:"ppem,omitempty"`
}

type Feat struct {
	Tag   string `json:"tag"`
	Value uint32 `json:"value"`
}

type WrapCfg struct {
	Dir           uint8 `json:"dir"`
	TruncLines    int   `json:"trunc_lines"`
	Truncator     bool  `json:"truncator"`
	TextContinues bool  `json:"text_continues"`
	Policy        uint8 `json:"policy"`
	NoTrim        bool  `json:"no_trim"`
}

// ParaSpec is a paragraph fixture for the line wrapper: text itemised over
// Faces (first face covering each rune) and shaped with fresh shapers.
type ParaSpec struct {
	Text      []rune `json:"text"`
	Faces     []int  `json:"faces"`
	Dir       uint8  `json:"dir"`
	Size      int    `json:"size"`
	WordSp    int    `json:"word_spacing,omitempty"`
	LetterSp  int    `json:"letter_spacing,omitempty"`
	Vertical  bool   `json:"vertical,omitempty"`
	TruncText []rune `json:"trunc_text,omitempty"`
}

// Op is one operation; which fields are meaningful depends on K.
type Op struct {
	K string `json:"k"`
	// shape / split
	Face   int    `json:"face,omitempty"`
	Text   []rune `json:"text,omitempty"`
	Start  int    `json:"start,omitempty"`
	End    int    `json:"end,omitempty"`
	Dir    uint8  `json:"dir,omitempty"`
	Size   int    `json:"size,omitempty"`
	Feats  []Feat `json:"feats,omitempty"`
	Script uint32 `json:"script,omitempty"`
	Lang   string `json:"lang,omitempty"`
	Faces  []int  `json:"faces,omitempty"` // split: fontmap faces
	// cache
	N int `json:"n,omitempty"`
	// face setters
	Vars   []VarSetting `json:"vars,omitempty"`
	Vars2  []VarSetting `json:"vars2,omitempty"` // train: N setters alternating between Vars and Vars2 (or Ppem and Ppem+1)
	Coords []float32    `json:"coords,omitempty"`
	// InPlace: SetCoords is given the slice of the previous SetCoords call, updated in place
	// (an application animating an axis without allocating)
	InPlace bool      `json:"in_place,omitempty"`
	Ppem    [2]uint16 `json:"ppem,omitempty"`
	// face queries
	Query  string `json:"query,omitempty"`
	GID    uint32 `json:"gid,omitempty"`
	Metric uint8  `json:"metric,omitempty"`
	// wrapper
	Para  int      `json:"para,omitempty"`
	Cfg   *WrapCfg `json:"cfg,omitempty"`
	Width int      `json:"width,omitempty"`
	// uax segmenter
	Iters []string `json:"iters,omitempty"`
	Order []int    `json:"order,omitempty"`
}

// Witness is one history on one object.
type Witness struct {
	Object string     `json:"object"` // shaper | face | segmenter | wrapper | uaxsegmenter
	Mode   string     `json:"mode,omitempty"`
	Faces  []FaceSpec `json:"faces,omitempty"`
	Paras  []ParaSpec `json:"paras,omitempty"`
	Ops    []Op       `json:"ops"`
}

// ---- runtime faces ----------------------------------------------------------------------

// faceRT is a live face of a history with the settings the harness applied last.
type faceRT struct {
	info   *fontInfo
	face   *font.Face
	vars   []VarSetting // last SetVariations argument (coordKind == "vars")
	coords []float32    // last SetCoords argument (coordKind == "coords")
	kind   string       // "", "vars", "coords"
	ppem   [2]uint16
	ppemOn bool
	own    []tables.Coord // the caller-side slice last given to SetCoords
}

func toVariations(vs []VarSetting) []font.Variation {
	out := make([]font.Variation, len(vs))
	for i, v := range vs {
		out[i] = font.Variation{Tag: ot.MustNewTag(v.Tag), Value: v.Value}
	}
	return out
}

func toCoords(cs []float32) []tables.Coord {
	out := make([]tables.Coord, len(cs))
	for i, c := range cs {
		out[i] = tables.NewCoord(float64(c))
	}
	return out
}

// apply puts the recorded settings on a face.
func (f *faceRT) apply(face *font.Face) {
	switch f.kind {
	case "vars":
		face.SetVariations(toVariations(f.vars))
	case "coords":
		face.SetCoords(toCoords(f.coords))
	}
	if f.ppemOn {
		face.SetPpem(f.ppem[0], f.ppem[1])
	}
}

// fresh returns a newly constructed face with the same current settings.
func (f *faceRT) fresh() *font.Face {
	nf := font.NewFace(f.info.font)
	f.apply(nf)
	return nf
}

func (f *faceRT) setVars(vs []VarSetting) {
	f.kind, f.vars, f.coords = "vars", vs, nil
	f.face.SetVariations(toVariations(vs))
}

func (f *faceRT) setCoords(cs []float32, inPlace bool) {
	f.kind, f.coords, f.vars = "coords", cs, nil
	nc := toCoords(cs)
	if inPlace && len(f.own) == len(nc) && len(nc) != 0 {
		copy(f.own, nc)
	} else {
		f.own = nc
	}
	f.face.SetCoords(f.own)
}

func (f *faceRT) setPpem(p [2]uint16) {
	f.ppem, f.ppemOn = p, true
	f.face.SetPpem(p[0], p[1])
}

func (f *faceRT) settings() string {
	return fmt.Sprintf("%s vars=%v coords=%v ppem=%v/%v", f.kind, f.vars, f.coords, f.ppem, f.ppemOn)
}

// buildFaces constructs the faces of a witness. ok is false if a font is missing.
func buildFaces(w *Witness) ([]*faceRT, bool) {
	loadPool()
	var out []*faceRT
	for i := range w.Faces {
		fs := &w.Faces[i]
		info := pool[fs.Font]
		if info == nil {
			return nil, false
		}
		rt := &faceRT{info: info, face: font.NewFace(info.font)}
		if len(fs.Vars) > 0 {
			rt.setVars(fs.Vars)
		} else if len(fs.Coords) > 0 {
			rt.setCoords(fs.Coords, false)
		}
		if fs.Ppem != [2]uint16{} {
			rt.setPpem(fs.Ppem)
		}
		out = append(out, rt)
	}
	return out, true
}

// ---- deep copy / equality of shaping results -----------------------------------------------

func copyGlyph(g shaping.Glyph) shaping.Glyph {
	c := shaping.Glyph{
		Width: g.Width, Height: g.Height, XBearing: g.XBearing, YBearing: g.YBearing,
		XAdvance: g.XAdvance, YAdvance: g.YAdvance, XOffset: g.XOffset, YOffset: g.YOffset,
		ClusterIndex: g.ClusterIndex, RuneCount: g.RuneCount, GlyphCount: g.GlyphCount,
		GlyphID: g.GlyphID, Mask: g.Mask,
	}
	s, e := shaping.VerifLetterSpacing(g)
	shaping.VerifSetLetterSpacing(&c, s, e)
	return c
}

func copyOutput(o shaping.Output) shaping.Output {
	c := o
	if o.Glyphs != nil {
		c.Glyphs = make([]shaping.Glyph, len(o.Glyphs))
		for i, g := range o.Glyphs {
			c.Glyphs[i] = copyGlyph(g)
		}
	}
	return c
}

func copyOutputs(os []shaping.Output) []shaping.Output {
	if os == nil {
		return nil
	}
	out := make([]shaping.Output, len(os))
	for i := range os {
		out[i] = copyOutput(os[i])
	}
	return out
}

func copyLine(l shaping.Line) shaping.Line { return shaping.Line(copyOutputs(l)) }

func copyLines(ls []shaping.Line) []shaping.Line {
	if ls == nil {
		return nil
	}
	out := make([]shaping.Line, len(ls))
	for i := range ls {
		out[i] = copyLine(ls[i])
	}
	return out
}

// diffOutput returns "" when a and b are deeply equal (exported fields and the
// two letter-spacing fields behind the hook); faces compare by identity unless
// ignoreFace is set.
func diffOutput(a, b shaping.Output, ignoreFace bool) string {
	switch {
	case a.Advance != b.Advance:
		return fmt.Sprintf("Advance %d vs %d", a.Advance, b.Advance)
	case a.Size != b.Size:
		return fmt.Sprintf("Size %d vs %d", a.Size, b.Size)
	case a.LineBounds != b.LineBounds:
		return fmt.Sprintf("LineBounds %v vs %v", a.LineBounds, b.LineBounds)
	case a.GlyphBounds != b.GlyphBounds:
		return fmt.Sprintf("GlyphBounds %v vs %v", a.GlyphBounds, b.GlyphBounds)
	case a.Direction != b.Direction:
		return fmt.Sprintf("Direction %d vs %d", a.Direction, b.Direction)
	case a.Runes != b.Runes:
		return fmt.Sprintf("Runes %v vs %v", a.Runes, b.Runes)
	case a.VisualIndex != b.VisualIndex:
		return fmt.Sprintf("VisualIndex %d vs %d", a.VisualIndex, b.VisualIndex)
	case !ignoreFace && a.Face != b.Face:
		return "Face differs"
	case len(a.Glyphs) != len(b.Glyphs):
		return fmt.Sprintf("%d glyphs vs %d (%s | %s)", len(a.Glyphs), len(b.Glyphs), glyphStr(a.Glyphs), glyphStr(b.Glyphs))
	}
	for i := range a.Glyphs {
		ga, gb := a.Glyphs[i], b.Glyphs[i]
		sa, ea := shaping.VerifLetterSpacing(ga)
		sb, eb := shaping.VerifLetterSpacing(gb)
		if ga != gb || sa != sb || ea != eb {
			return fmt.Sprintf("glyph %d: %+v (ls %d,%d) vs %+v (ls %d,%d)", i, ga, sa, ea, gb, sb, eb)
		}
	}
	return ""
}

func glyphStr(gs []shaping.Glyph) string {
	var sb strings.Builder
	for i, g := range gs {
		if i >= 12 {
			sb.WriteString("…")
			break
		}
		fmt.Fprintf(&sb, "%d:%d ", g.GlyphID, g.XAdvance+g.YAdvance)
	}
	return sb.String()
}

func diffLine(a, b shaping.Line) string {
	if (a == nil) != (b == nil) {
		return fmt.Sprintf("nil line: %v vs %v", a == nil, b == nil)
	}
	if len(a) != len(b) {
		return fmt.Sprintf("%d runs vs %d", len(a), len(b))
	}
	for i := range a {
		if d := diffOutput(a[i], b[i], false); d != "" {
			return fmt.Sprintf("run %d: %s", i, d)
		}
	}
	return ""
}

func diffLines(a, b []shaping.Line) string {
	if len(a) != len(b) {
		return fmt.Sprintf("%d lines vs %d", len(a), len(b))
	}
	for i := range a {
		if d := diffLine(a[i], b[i]); d != "" {
			return fmt.Sprintf("line %d: %s", i, d)
		}
	}
	return ""
}

// ---- shared text generator ----------------------------------------------------------------

var mixedPieces = [][]rune{
	[]rune("abc"), []rune("Hello"), []rune("fi"), []rune("אבג"), []rune("שלום"), []rune("سلام"), []rune("123"), []rune("٣٤"),
	[]rune("漢字"), []rune("かな"), []rune("한글"), []rune("абв"), []rune("कि"), []rune("ไทย"), []rune("👍🏽"), []rune("👨‍👩‍👧"), []rune("🇫🇷"),
	{' '}, {' '}, {' '}, {'\n'}, {'-'}, {','}, {'.'}, {'('}, {')'}, {0x00A0}, {0x00AD}, {0x200B}, {0x200D}, {0x0301}, {0x2028}, {'\r', '\n'}, {'/'}, {'"'}, {0x3001}, {0x2014},
}

func genMixedText(r *gen.RNG, maxLen int) []rune {
	n := r.Intn(maxLen + 1)
	var t []rune
	for len(t) < n {
		if r.Chance(1, 30) {
			t = append(t, rune(r.Intn(0x110000)))
			continue
		}
		t = append(t, mixedPieces[r.Intn(len(mixedPieces))]...)
	}
	if len(t) > maxLen {
		t = t[:maxLen]
	}
	return t
}

// genFontText draws a text aimed at a font: pieces of its sample, cmap-local
// runes, spaces and a few joiners/marks.
func genFontText(r *gen.RNG, fi *fontInfo, maxLen int) []rune {
	n := 1 + r.Intn(maxLen)
	var t []rune
	for len(t) < n {
		switch r.Intn(8) {
		case 0, 1, 2, 3:
			a := r.Intn(len(fi.sample))
			b := a + 1 + r.Intn(8)
			if b > len(fi.sample) {
				b = len(fi.sample)
			}
			t = append(t, fi.sample[a:b]...)
		case 4, 5:
			w := r.Intn(len(fi.runes))
			for j := 0; j < 1+r.Intn(4); j++ {
				t = append(t, fi.runes[(w+r.Intn(40))%len(fi.runes)])
			}
		case 6:
			t = append(t, ' ')
		default:
			t = append(t, []rune{0x200D, 0x0301, 0x200C, '\n', 0x00AD, 0xFE0F, '$'}[r.Intn(7)])
		}
	}
	if len(t) > maxLen {
		t = t[:maxLen]
	}
	return t
}

// ---- reporting -------------------------------------------------------------------------------

type violation struct {
	key, msg string
	at       int // index of the op (witness is cut after it)
}

type histStats struct {
	cover      map[string]int64
	nontrivial bool
	ops        int
}

func newStats() *histStats { return &histStats{cover: map[string]int64{}} }

func (s *histStats) c(class string) { s.cover[class]++ }

func judge(w Witness) ([]violation, *histStats) {
	switch w.Object {
	case "shaper":
		return judgeShaper(w)
	case "face":
		return judgeFace(w)
	case "segmenter":
		return judgeSegmenter(w)
	case "wrapper":
		return judgeWrapper(w)
	case "uaxsegmenter":
		return judgeUAX(w)
	}
	return []violation{{key: "C13/bad-witness", msg: "unknown object " + w.Object}}, newStats()
}

func report(run *vrun.Run, w Witness, vs []violation, st *histStats) {
	run.Eval(st.ops)
	for c, n := range st.cover {
		run.CoverN(w.Object+"/"+c, n)
	}
	run.Cover("histories/" + w.Object)
	if st.nontrivial {
		h := vrun.Hash64(w.Object, w.Mode, len(w.Ops))
		for _, op := range w.Ops {
			h = vrun.Hash64(h, op.K, op.Face, op.Text, op.Start, op.End, op.Dir, op.Size, op.N, op.GID, op.Query, op.Para, op.Width, fmt.Sprint(op.Vars, op.Coords, op.Ppem, op.Feats, op.Order))
		}
		run.Nontrivial(h)
		run.Cover("nontrivial-histories/" + w.Object)
	}
	seen := map[string]bool{}
	for _, v := range vs {
		if seen[v.key] {
			continue
		}
		seen[v.key] = true
		cut := w
		if v.at+1 < len(w.Ops) {
			cut.Ops = w.Ops[:v.at+1]
		}
		run.Violation(v.key, fmt.Sprintf("%s history (mode %q), op %d of %d: %s", w.Object, w.Mode, v.at, len(w.Ops), v.msg), cut)
	}
}

// Main is the entry point of the C13 monitor.
func Main() {
	run := vrun.Start("C13")
	loadPool()
	for _, n := range poolNote {
		run.Note("%s", n)
	}
	if run.Replay != "" {
		var w Witness
		if _, err := vrun.ReadReplay(run.Replay, &w); err != nil {
			fmt.Println("replay:", err)
			run.Finish(vrun.Level{Level: "exploration", Rule: "replay (unreadable)"})
		}
		vs, st := judge(w)
		report(run, w, vs, st)
		run.Finish(vrun.Level{Level: "exploration", Rule: "replay"})
	}
	if len(poolIDs["variable"]) < 4 || len(poolIDs["static"]) < 3 {
		run.Note("font pool too small: %v", poolIDs)
		run.Finish(vrun.Level{Level: "exploration", Rule: "font pool unavailable", Floor: 1})
	}

	type stream struct {
		name string
		n    int
		gen  func(r *gen.RNG, i int) Witness
	}
	streams := []stream{
		{"shaper", run.Pick(6000, 150000), genShaperHistory},
		{"face", run.Pick(4000, 100000), genFaceHistory},
		{"segmenter", run.Pick(4000, 100000), genSegmenterHistory},
		{"wrapper", run.Pick(3000, 80000), genWrapperHistory},
		{"uaxsegmenter", run.Pick(6000, 150000), genUAXHistory},
	}
	only := os.Getenv("VERIF_C13_ONLY") // debugging aid: run a single stream
	for _, s := range streams {
		s := s
		if only != "" && only != s.name {
			continue
		}
		t0 := time.Now()
		defer func() {
			fmt.Fprintf(os.Stderr, "stream %s: %d histories in %.1fs\n", s.name, s.n, time.Since(t0).Seconds())
		}()
		vrun.ParallelFor(s.n, func(i int) {
			r := gen.New(run.Seed, "C13/"+s.name, i)
			w := s.gen(r, i)
			vs, st := judge(w)
			report(run, w, vs, st)
			if i < 2 && len(vs) == 0 {
				run.Sample(map[string]any{"object": w.Object, "mode": w.Mode, "faces": w.Faces, "n_ops": len(w.Ops), "first_ops": w.Ops[:min(4, len(w.Ops))]})
			}
		})
	}

	run.Finish(vrun.Level{
		Level: "exploration",
		Rule: "histories of 5..40 operations on one object, five object kinds (shaper, face, segmenter, wrapper, uaxsegmenter); every result compared with the same call on a freshly constructed object, " +
			"retained results re-compared after every later operation up to the documented invalidation point; one face history in 16 holds a train of 254..257, 510..512 or 65534..65537 setters between two queries of the same glyphs (wrapping generation counters). " +
			"non-trivial history = shaper: a font-cache hit or eviction happened (LRU model in the harness, measured); face: a query repeated after a setter; segmenter/wrapper/uaxsegmenter: the object served >= 2 different inputs. distinct by hash of the operation list",
		Assumptions: []string{
			"faces are mutated only by the harness between operations (never during one); histories are single-goroutine",
			"shaper histories come in three modes so that known defect classes cannot mask others: plain (distinct fonts, no face mutation), shared-font (several faces of one font, settings fixed before first use), mutating (distinct fonts, SetVariations/SetCoords/SetPpem between shapes)",
			"WrapNextLine is only called after an explicit Prepare (documented precondition); every wrapper call gets its own deep copy of the shaped runs because the wrapper zeroes trailing-space advances in place",
			"a panic that also happens on the fresh object is C01/C02's business: the history stops, counted inconclusive",
		},
		Floor: run.Pick(5000, 100000),
	})
}
