package c13

import (
	"fmt"

	"github.com/go-text/typesetting/di"
	"github.com/go-text/typesetting/font"
	"github.com/go-text/typesetting/language"
	"github.com/go-text/typesetting/segmenter"
	"github.com/go-text/typesetting/shaping"
	"golang.org/x/image/math/fixed"

	"verifharness/internal/gen"
	"verifharness/internal/vrun"
)

// ---- shaping.Segmenter -----------------------------------------------------------------------

// cmapFontmap selects the first face whose cmap has the rune (pure function).
type cmapFontmap struct {
	faces  []*font.Face
	script language.Script
	calls  int
}

func (m *cmapFontmap) ResolveFace(r rune) *font.Face {
	m.calls++
	for _, f := range m.faces {
		if _, ok := f.Font.Cmap.Lookup(r); ok {
			return f
		}
	}
	// a script-dependent fallback so that SetScript matters
	return m.faces[int(uint32(m.script)%uint32(len(m.faces)))]
}

func (m *cmapFontmap) SetScript(s language.Script) { m.script = s }

func genSegmenterHistory(r *gen.RNG, i int) Witness {
	w := Witness{Object: "segmenter"}
	for _, id := range pickFonts(r, 2+r.Intn(3), false) {
		w.Faces = append(w.Faces, FaceSpec{Font: id})
	}
	n := 5 + r.Intn(36)
	for len(w.Ops) < n {
		t := genMixedText(r, 30)
		op := Op{K: "split", Text: t, Start: 0, End: len(t)}
		if r.Chance(1, 3) {
			a, b := r.Intn(len(t)+1), r.Intn(len(t)+1)
			if a > b {
				a, b = b, a
			}
			op.Start, op.End = a, b
		}
		op.Dir = uint8([]di.Direction{di.DirectionLTR, di.DirectionRTL, di.DirectionTTB, di.DirectionBTT}[r.Intn(4)])
		op.Lang = []string{"", "en", "ar", "fr", "zh", "xx"}[r.Intn(6)]
		op.Size = 64 * (1 + r.Intn(40))
		k := 1 + r.Intn(len(w.Faces))
		perm := make([]int, len(w.Faces))
		for j := range perm {
			perm[j] = j
		}
		gen.Shuffle(r, perm)
		op.Faces = perm[:k]
		w.Ops = append(w.Ops, op)
	}
	return w
}

func eqInputs(a, b []shaping.Input) string {
	if len(a) != len(b) {
		return fmt.Sprintf("%d runs vs %d", len(a), len(b))
	}
	for i := range a {
		x, y := a[i], b[i]
		same := len(x.Text) == len(y.Text) && (len(x.Text) == 0 || &x.Text[0] == &y.Text[0])
		if !same || x.RunStart != y.RunStart || x.RunEnd != y.RunEnd || x.Direction != y.Direction || x.Face != y.Face ||
			x.Size != y.Size || x.Script != y.Script || x.Language != y.Language || len(x.FontFeatures) != len(y.FontFeatures) {
			return fmt.Sprintf("run %d: [%d,%d) dir %d %s %q vs [%d,%d) dir %d %s %q (same Text slice: %v, same face: %v)", i,
				x.RunStart, x.RunEnd, x.Direction, x.Script, string(x.Language), y.RunStart, y.RunEnd, y.Direction, y.Script, string(y.Language), same, x.Face == y.Face)
		}
	}
	return ""
}

func judgeSegmenter(w Witness) (vs []violation, st *histStats) {
	st = newStats()
	faces, ok := buildFaces(&w)
	if !ok {
		st.c("skipped/font-missing")
		return
	}
	var reused shaping.Segmenter
	var prev, prevCopy []shaping.Input
	prevOp := -1
	for i := range w.Ops {
		op := &w.Ops[i]
		st.ops++
		st.c("op=Split")
		if i >= 1 {
			st.nontrivial = true
		}
		var fl []*font.Face
		for _, k := range op.Faces {
			fl = append(fl, faces[k].face)
		}
		in := shaping.Input{Text: op.Text, RunStart: op.Start, RunEnd: op.End, Direction: di.Direction(op.Dir),
			Language: language.Language(op.Lang), Size: fixed.Int26_6(op.Size)}
		if prevOp >= 0 {
			if d := eqInputs(prev, prevCopy); d != "" {
				vs = append(vs, violation{"C13/segmenter/retained-result-changed", fmt.Sprintf("the result of op %d changed before the next Split: %s", prevOp, d), i})
			}
			st.c("retained-result-recomparisons")
		}
		var out, outF []shaping.Input
		pv, where := vrun.Catch(func() { out = reused.Split(in, &cmapFontmap{faces: fl}) })
		pvF, _ := vrun.Catch(func() { outF = (&shaping.Segmenter{}).Split(in, &cmapFontmap{faces: fl}) })
		if pv != nil || pvF != nil {
			if pv != nil && pvF == nil {
				vs = append(vs, violation{"C13/segmenter/panic-only-when-reused", fmt.Sprintf("Split panicked on the reused Segmenter only: %v at %s", pv, where), i})
			} else {
				st.c("inconclusive/split-panics-on-fresh-too")
			}
			return
		}
		if len(out) > 1 {
			st.c("split=several-runs")
		}
		if d := eqInputs(out, outF); d != "" {
			vs = append(vs, violation{"C13/segmenter/fresh-differs", fmt.Sprintf("Split(%+q [%d,%d) dir %d lang %q) on the reused Segmenter differs from a fresh one: %s", string(op.Text), op.Start, op.End, op.Dir, op.Lang, d), i})
		}
		prev, prevCopy, prevOp = out, append([]shaping.Input(nil), out...), i
	}
	return
}

// ---- segmenter.Segmenter (UAX #14 / #29) ------------------------------------------------------

func genUAXHistory(r *gen.RNG, i int) Witness {
	w := Witness{Object: "uaxsegmenter"}
	n := 5 + r.Intn(36)
	var prevInit []rune
	for len(w.Ops) < n {
		if len(w.Ops) == 0 || r.Chance(1, 2) {
			t := genMixedText(r, 40)
			if prevInit != nil && r.Chance(1, 3) {
				// same length, other content: the judge hands every text over in one recycled
				// buffer, so a Segmenter that recognises "the same slice" keeps stale results
				t = append([]rune(nil), prevInit...)
				gen.Shuffle(r, t)
			}
			prevInit = t
			w.Ops = append(w.Ops, Op{K: "init", Text: t})
			continue
		}
		op := Op{K: "iter"}
		k := 1 + r.Intn(3)
		for j := 0; j < k; j++ {
			op.Iters = append(op.Iters, []string{"line", "grapheme", "word"}[r.Intn(3)])
		}
		steps := r.Intn(60)
		for j := 0; j < steps; j++ {
			op.Order = append(op.Order, r.Intn(k))
		}
		w.Ops = append(w.Ops, op)
	}
	return w
}

type uaxIter struct {
	kind string
	l    *segmenter.LineIterator
	g    *segmenter.GraphemeIterator
	w    *segmenter.WordIterator
}

func newUAXIter(seg *segmenter.Segmenter, kind string) *uaxIter {
	it := &uaxIter{kind: kind}
	switch kind {
	case "line":
		it.l = seg.LineIterator()
	case "grapheme":
		it.g = seg.GraphemeIterator()
	default:
		it.w = seg.WordIterator()
	}
	return it
}

type uaxRec struct {
	ok        bool
	offset    int
	text      []rune // as returned (aliases the segmenter's storage)
	copy      []rune
	mandatory bool
}

func (it *uaxIter) step() uaxRec {
	switch it.kind {
	case "line":
		if !it.l.Next() {
			return uaxRec{}
		}
		l := it.l.Line()
		return uaxRec{true, l.Offset, l.Text, append([]rune(nil), l.Text...), l.IsMandatoryBreak}
	case "grapheme":
		if !it.g.Next() {
			return uaxRec{}
		}
		g := it.g.Grapheme()
		return uaxRec{true, g.Offset, g.Text, append([]rune(nil), g.Text...), false}
	default:
		if !it.w.Next() {
			return uaxRec{}
		}
		g := it.w.Word()
		return uaxRec{true, g.Offset, g.Text, append([]rune(nil), g.Text...), false}
	}
}

func (a uaxRec) diff(b uaxRec) string {
	if a.ok != b.ok || a.offset != b.offset || a.mandatory != b.mandatory || string(a.copy) != string(b.copy) {
		return fmt.Sprintf("(ok %v, offset %d, %+q, mandatory %v) vs (ok %v, offset %d, %+q, mandatory %v)", a.ok, a.offset, string(a.copy), a.mandatory, b.ok, b.offset, string(b.copy), b.mandatory)
	}
	return ""
}

func judgeUAX(w Witness) (vs []violation, st *histStats) {
	st = newStats()
	var reused segmenter.Segmenter
	var cur, shared []rune
	inited := false
	inits := 0
	var kept []uaxRec // results since the last Init
	keptOp := -1
	checkKept := func(at int) {
		for _, k := range kept {
			if k.ok && string(k.text) != string(k.copy) {
				vs = append(vs, violation{"C13/uaxsegmenter/retained-result-changed", fmt.Sprintf("a segment returned during op %d (offset %d, %+q) reads %+q before the next Init", keptOp, k.offset, string(k.copy), string(k.text)), at})
				return
			}
		}
		st.cover["retained-result-recomparisons"] += int64(len(kept))
	}
	for i := range w.Ops {
		op := &w.Ops[i]
		st.ops++
		switch op.K {
		case "init":
			checkKept(i)
			kept = kept[:0]
			// the caller recycles one buffer for all its texts (Init is documented to copy)
			shared = append(shared[:0], op.Text...)
			cur = shared
			pv, where := vrun.Catch(func() { reused.Init(cur) })
			if pv != nil {
				pvF, _ := vrun.Catch(func() { (&segmenter.Segmenter{}).Init(cur) })
				if pvF == nil {
					vs = append(vs, violation{"C13/uaxsegmenter/panic-only-when-reused", fmt.Sprintf("Init panicked on the reused Segmenter only: %v at %s", pv, where), i})
				} else {
					st.c("inconclusive/init-panics-on-fresh-too")
				}
				return
			}
			inited = true
			inits++
			if inits >= 2 {
				st.nontrivial = true
			}
			st.c("op=Init")
		case "iter":
			if !inited {
				continue
			}
			st.c("op=iterate")
			var fresh segmenter.Segmenter
			fresh.Init(cur)
			var its, itsF []*uaxIter
			for _, k := range op.Iters {
				its = append(its, newUAXIter(&reused, k))
				itsF = append(itsF, newUAXIter(&fresh, k))
				st.c("iterator=" + k)
			}
			if len(op.Iters) > 1 {
				st.c("iterators-interleaved")
			}
			for _, k := range op.Order {
				if k >= len(its) {
					continue
				}
				var a, b uaxRec
				pv, where := vrun.Catch(func() { a = its[k].step() })
				pvF, _ := vrun.Catch(func() { b = itsF[k].step() })
				if pv != nil || pvF != nil {
					if pv != nil && pvF == nil {
						vs = append(vs, violation{"C13/uaxsegmenter/panic-only-when-reused", fmt.Sprintf("iterator panicked on the reused Segmenter only: %v at %s", pv, where), i})
					} else {
						st.c("inconclusive/iterator-panics-on-fresh-too")
					}
					return
				}
				if d := a.diff(b); d != "" {
					vs = append(vs, violation{"C13/uaxsegmenter/fresh-differs", fmt.Sprintf("%s iterator over %+q: reused Segmenter %s fresh", op.Iters[k], string(cur), d), i})
					break
				}
				if a.ok {
					kept = append(kept, a)
					keptOp = i
				}
			}
			checkKept(i)
		}
	}
	return
}
