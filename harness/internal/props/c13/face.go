package c13

import (
	"fmt"
	"math"

	"github.com/go-text/typesetting/font"

	"verifharness/internal/gen"
	"verifharness/internal/vrun"
)

var faceQueries = []string{"extents", "extents", "extents", "hadv", "hadv", "vadv", "hext", "vext", "metric", "vorigin", "data"}

func genFaceHistory(r *gen.RNG, i int) Witness {
	w := Witness{Object: "face"}
	var id string
	switch i % 4 {
	case 0, 1:
		id = poolIDs["variable"][r.Intn(len(poolIDs["variable"]))]
	case 2:
		if ids := poolIDs["bitmap"]; len(ids) > 0 {
			id = ids[r.Intn(len(ids))]
			break
		}
		fallthrough
	default:
		id = poolIDs["static"][r.Intn(len(poolIDs["static"]))]
	}
	fi := pool[id]
	w.Mode = fi.class
	w.Faces = []FaceSpec{{Font: id}}
	if r.Bool() {
		w.Faces[0] = genFaceSpec(r, id)
	}
	n := 5 + r.Intn(36)
	// a small working set of glyphs so that the extents cache is hit across setters
	ws := make([]font.GID, 1+r.Intn(5))
	for j := range ws {
		ws[j] = fi.gids[r.Intn(len(fi.gids))]
	}
	if i%16 == 5 {
		// a long train of setters between two queries of the same glyphs: a cache
		// invalidated by a wrapping generation counter (8 or 16 bits) only shows after
		// exactly that many resets
		N := gen.Pick(r, []int{254, 255, 256, 257, 510, 511, 512, 65534, 65535, 65536, 65537})
		tr := Op{K: "train", N: N, Ppem: genPpem(r)}
		if len(fi.axes) > 0 {
			tr.Vars, tr.Vars2 = genVars(r, fi), genVars(r, fi)
		}
		// the state before the train is the one the train does not end in
		pre := Op{K: "setppem", Ppem: tr.Ppem}
		if N%2 == 0 {
			pre.Ppem = [2]uint16{tr.Ppem[0] + 1, tr.Ppem[1] + 1}
		}
		if len(fi.axes) > 0 {
			pre = Op{K: "setvar", Vars: tr.Vars}
			if N%2 == 1 {
				pre.Vars = tr.Vars2
			}
		}
		w.Ops = append(w.Ops, pre)
		for _, g := range ws {
			w.Ops = append(w.Ops, Op{K: "query", Query: "extents", GID: uint32(g)}, Op{K: "query", Query: "hadv", GID: uint32(g)})
		}
		w.Ops = append(w.Ops, tr)
		for _, g := range ws {
			w.Ops = append(w.Ops, Op{K: "query", Query: "extents", GID: uint32(g)}, Op{K: "query", Query: "hadv", GID: uint32(g)}, Op{K: "query", Query: "data", GID: uint32(g)})
		}
		n += len(w.Ops)
	}
	for len(w.Ops) < n {
		k := r.Intn(100)
		switch {
		case k < 12 && len(fi.axes) > 0:
			w.Ops = append(w.Ops, Op{K: "setvar", Vars: genVars(r, fi)})
		case k < 22 && len(fi.axes) > 0:
			w.Ops = append(w.Ops, Op{K: "setcoords", Coords: genCoords(r, fi), InPlace: r.Bool()})
		case k < 32:
			w.Ops = append(w.Ops, Op{K: "setppem", Ppem: genPpem(r)})
		default:
			g := ws[r.Intn(len(ws))]
			if r.Chance(1, 6) {
				g = fi.gids[r.Intn(len(fi.gids))]
			}
			w.Ops = append(w.Ops, Op{K: "query", Query: faceQueries[r.Intn(len(faceQueries))], GID: uint32(g), Metric: uint8(r.Intn(11))})
		}
	}
	return w
}

func f32(v float32) string {
	return fmt.Sprintf("%g/%08x", v, math.Float32bits(v))
}

// query runs one query and renders the result canonically (NaN-safe).
func query(face *font.Face, op *Op) string {
	g := font.GID(op.GID)
	switch op.Query {
	case "extents":
		e, ok := face.GlyphExtents(g)
		return fmt.Sprintf("%s %s %s %s %v", f32(e.XBearing), f32(e.YBearing), f32(e.Width), f32(e.Height), ok)
	case "hadv":
		return f32(face.HorizontalAdvance(g))
	case "vadv":
		return f32(face.VerticalAdvance(g))
	case "hext":
		e, ok := face.FontHExtents()
		return fmt.Sprintf("%s %s %s %v", f32(e.Ascender), f32(e.Descender), f32(e.LineGap), ok)
	case "vext":
		e, ok := face.FontVExtents()
		return fmt.Sprintf("%s %s %s %v", f32(e.Ascender), f32(e.Descender), f32(e.LineGap), ok)
	case "metric":
		return f32(face.LineMetric(font.LineMetric(op.Metric)))
	case "vorigin":
		x, y, ok := face.GlyphVOrigin(g)
		return fmt.Sprintf("%d %d %v", x, y, ok)
	case "data":
		switch d := face.GlyphData(g).(type) {
		case font.GlyphOutline:
			return fmt.Sprintf("outline %v", d.Segments)
		case font.GlyphBitmap:
			return fmt.Sprintf("bitmap %d %dx%d %x outline=%v", d.Format, d.Width, d.Height, vrun.Hash64(d.Data), d.Outline)
		case font.GlyphSVG:
			return fmt.Sprintf("svg %x %v", vrun.Hash64(d.Source), d.Outline)
		case nil:
			return "nil"
		default:
			return fmt.Sprintf("%T", d)
		}
	}
	return "bad query " + op.Query
}

func judgeFace(w Witness) (vs []violation, st *histStats) {
	st = newStats()
	faces, ok := buildFaces(&w)
	if !ok || len(faces) != 1 {
		st.c("skipped/font-missing")
		return
	}
	f := faces[0]
	st.c("font-class=" + f.info.class)
	type qk struct {
		q string
		g uint32
		m uint8
	}
	asked := map[qk]int{} // query -> number of setters seen when last asked
	lastRes := map[qk]string{}
	lastSetter := ""
	setters := 0
	for i := range w.Ops {
		op := &w.Ops[i]
		st.ops++
		switch op.K {
		case "setvar":
			f.setVars(op.Vars)
			setters++
			lastSetter = "SetVariations"
			st.c("op=SetVariations")
		case "setcoords":
			f.setCoords(op.Coords, op.InPlace)
			setters++
			lastSetter = "SetCoords"
			st.c("op=SetCoords")
		case "setppem":
			f.setPpem(op.Ppem)
			setters++
			lastSetter = "SetPpem"
			st.c("op=SetPpem")
		case "train":
			for j := 0; j < op.N; j++ {
				switch {
				case len(op.Vars) > 0 || len(op.Vars2) > 0:
					if j%2 == 0 {
						f.setVars(op.Vars)
					} else {
						f.setVars(op.Vars2)
					}
					lastSetter = "SetVariations"
				case j%2 == 0:
					f.setPpem(op.Ppem)
					lastSetter = "SetPpem"
				default:
					f.setPpem([2]uint16{op.Ppem[0] + 1, op.Ppem[1] + 1})
					lastSetter = "SetPpem"
				}
			}
			setters += op.N
			st.c(fmt.Sprintf("op=setter-train/%d", op.N))
		case "query":
			st.c("op=query/" + op.Query)
			k := qk{op.Query, op.GID, op.Metric}
			if op.Query != "metric" {
				k.m = 0
			}
			if last, seen := asked[k]; seen {
				if last != setters {
					st.c("query-repeated-after-setter")
					st.nontrivial = true
				} else {
					st.c("query-repeated-same-settings(cache hit)")
				}
			}
			asked[k] = setters
			var got, want string
			pv, where := vrun.Catch(func() { got = query(f.face, op) })
			pvF, _ := vrun.Catch(func() { want = query(f.fresh(), op) })
			if pv != nil || pvF != nil {
				if pv != nil && pvF == nil {
					vs = append(vs, violation{"C13/face/panic-only-when-reused", fmt.Sprintf("%s(gid %d) panicked on the used face only: %v at %s", op.Query, op.GID, pv, where), i})
				} else {
					st.c("inconclusive/query-panics-on-fresh-face-too")
				}
				return
			}
			if prev, seen := lastRes[k]; seen && prev != got && (op.Query == "extents" || op.Query == "data") {
				// measured: the setters do change what the (cached) query returns
				st.c("cached-query-result-changed/" + op.Query + "/last-setter=" + lastSetter)
			}
			lastRes[k] = got
			if got != want {
				if len(got) > 300 {
					got = got[:300] + "…"
				}
				if len(want) > 300 {
					want = want[:300] + "…"
				}
				vs = append(vs, violation{"C13/face/" + op.Query + "-differs-from-fresh", fmt.Sprintf("%s %s(gid %d, metric %d) with settings [%s]: used face returns %s, a fresh face given the same settings returns %s", f.info.id, op.Query, op.GID, op.Metric, f.settings(), got, want), i})
			}
		}
	}
	return
}
