package c13

import (
	"bytes"
	"fmt"
	"sync"

	"github.com/go-text/typesetting/font"
	ot "github.com/go-text/typesetting/font/opentype"
	"github.com/go-text/typesetting/font/opentype/tables"

	"verifharness/internal/corpus"
)

// fontInfo is one parsed corpus font with what the generators need to aim.
type fontInfo struct {
	id      string
	font    *font.Font
	axes    []tables.VariationAxisRecord
	runes   []rune     // mapped runes, ascending (capped)
	gids    []font.GID // some glyph ids (from the cmap, plus 0..)
	class   string     // variable | static | bitmap
	hasFV   bool       // GSUB/GPOS FeatureVariations present
	sample  []rune     // a sample text the font covers
	noSpace bool       // no glyph for U+0020: default ignorables are deleted instead of made invisible
}

var variableIDs = []string{
	"ot/common/SourceSans-VF-HVAR.ttf",
	"ot/common/Commissioner-VF.ttf",
	"hb/harfbuzz_reference/text-rendering-tests/fonts/AdobeVFPrototype-Subset.otf",
	"ot/common/Selawik-VF.ttf",
	"ot/common/NotoSansArabic.ttf",
	"ot/common/Mada-VF.ttf",
	"ot/common/Estedad-VF.ttf",
	"ot/toys/CFF2-VF.otf",
	"ot/toys/GVAR-no-HVAR.ttf",
	"hb/harfbuzz_reference/text-rendering-tests/fonts/TestGVARFour.ttf",
}

var staticIDs = []string{
	"repo/Roboto-Regular.ttf",
	"repo/Amiri-Regular.ttf",
	"sys/DejaVuSans.ttf",
	"repo/UbuntuMono-R.ttf",
	"ot/common/FreeSerif.ttf",
	"ot/common/NotoSansMongolian-Regular.ttf",
	"ot/common/Raleway-v4020-Regular.otf",
}

var bitmapIDs = []string{
	"ot/bitmap/NotoColorEmoji.ttf",
	"ot/toys/Sbix1.ttf",
	"ot/toys/CBLC1.ttf",
	"ot/bitmap/IBM3161-bitmap.otb",
}

var samples = [][]rune{
	[]rune("Hamburgefonstiv fi ffl AVA To. $¢ 1/2 Rr"),
	[]rune("السلام عليكم ورحمة الله"),
	[]rune("שלום עולם, מה נשמע"),
	[]rune("Привет, мир! Съешь ещё"),
	[]rune("नमस्ते क्षत्रिय किताब"),
	[]rune("ᠮᠣᠩᠭᠣᠯ ᠪᠢᠴᠢᠭ"),
	[]rune("😀👍🏽 👨‍👩‍👧 ❤️"),
	[]rune("abc ABC 0123 $ab"),
}

var (
	poolOnce sync.Once
	pool     map[string]*fontInfo
	poolIDs  map[string][]string // class -> ids present
	poolNote []string
)

func loadPool() {
	poolOnce.Do(func() {
		pool = map[string]*fontInfo{}
		poolIDs = map[string][]string{}
		add := func(class string, ids []string) {
			for _, id := range ids {
				fi, err := loadFont(id)
				if err != nil {
					poolNote = append(poolNote, fmt.Sprintf("font %s not usable: %v", id, err))
					continue
				}
				fi.class = class
				pool[id] = fi
				poolIDs[class] = append(poolIDs[class], id)
				if fi.noSpace {
					poolIDs["nospace"] = append(poolIDs["nospace"], id)
				}
			}
		}
		add("variable", variableIDs)
		add("static", staticIDs)
		add("bitmap", bitmapIDs)
	})
}

func loadFont(id string) (*fontInfo, error) {
	f := corpus.ByID(id)
	if f == nil {
		return nil, fmt.Errorf("not in corpus")
	}
	fs, err := f.Fonts()
	if err != nil || len(fs) == 0 {
		return nil, fmt.Errorf("parse: %v", err)
	}
	fi := &fontInfo{id: id, font: fs[0]}
	if lds, err := ot.NewLoaders(bytes.NewReader(f.Bytes())); err == nil && len(lds) > 0 {
		if raw, err := lds[0].RawTable(ot.MustNewTag("fvar")); err == nil {
			if fv, _, err := tables.ParseFvar(raw); err == nil {
				fi.axes = fv.FvarRecords.Axis
			}
		}
	}
	fi.hasFV = len(fi.font.GSUB.FeatureVariations) > 0 || len(fi.font.GPOS.FeatureVariations) > 0
	it := fi.font.Cmap.Iter()
	seen := map[font.GID]bool{}
	for it.Next() {
		r, g := it.Char()
		if len(fi.runes) < 6000 {
			fi.runes = append(fi.runes, r)
		}
		if !seen[g] && len(fi.gids) < 400 {
			seen[g] = true
			fi.gids = append(fi.gids, g)
		}
	}
	for g := font.GID(0); g < 12; g++ {
		if !seen[g] {
			fi.gids = append(fi.gids, g)
		}
	}
	fi.gids = append(fi.gids, 0xFFFF) // beyond any glyph count of the pool: must be handled too
	best, bestN := samples[0], -1
	for _, s := range samples {
		n := 0
		for _, r := range s {
			if _, ok := fi.font.Cmap.Lookup(r); ok {
				n++
			}
		}
		if n*100/len(s) > bestN {
			best, bestN = s, n*100/len(s)
		}
	}
	fi.sample = best
	_, hasSpace := fi.font.Cmap.Lookup(' ')
	fi.noSpace = !hasSpace
	if len(fi.runes) == 0 {
		return nil, fmt.Errorf("empty cmap")
	}
	return fi, nil
}
