package c13

import (
	"bytes"
	"encoding/binary"
	"fmt"
	"sort"
	"sync"

	"github.com/go-text/typesetting/font"
	ot "github.com/go-text/typesetting/font/opentype"
	"github.com/go-text/typesetting/font/opentype/tables"

	"verifharness/internal/corpus"
)

// fontInfo is one parsed corpus font with what the generators need to aim.
type fontInfo struct {
	id      string
	font    *font.Font
	axes    []tables.VariationAxisRecord
	runes   []rune     // mapped runes, ascending (capped)
	gids    []font.GID // some glyph ids (from the cmap, plus 0..)
	class   string     // variable | static | bitmap
	hasFV   bool       // GSUB/GPOS FeatureVariations present
	sample  []rune     // a sample text the font covers
	noSpace bool       // no glyph for U+0020: default ignorables are deleted instead of made invisible
}

var variableIDs = []string{
	"ot/common/SourceSans-VF-HVAR.ttf",
	"ot/common/Commissioner-VF.ttf",
	"hb/harfbuzz_reference/text-rendering-tests/fonts/AdobeVFPrototype-Subset.otf",
	"ot/common/Selawik-VF.ttf",
	"ot/common/NotoSansArabic.ttf",
	"ot/common/Mada-VF.ttf",
	"ot/common/Estedad-VF.ttf",
	"ot/toys/CFF2-VF.otf",
	"ot/toys/GVAR-no-HVAR.ttf",
	"hb/harfbuzz_reference/text-rendering-tests/fonts/TestGVARFour.ttf",
}

var staticIDs = []string{
	"repo/Roboto-Regular.ttf",
	"repo/Amiri-Regular.ttf",
	"sys/DejaVuSans.ttf",
	"repo/UbuntuMono-R.ttf",
	"ot/common/FreeSerif.ttf",
	"ot/common/NotoSansMongolian-Regular.ttf",
	"ot/common/Raleway-v4020-Regular.otf",
	// the two corpus fonts with a 'rand' feature: their output depends on a random
	// generator whose state must not survive in a cached plan
	"hb/harfbuzz_reference/in-house/fonts/5bb74492f5e0ffa1fbb72e4c881be035120b6513.ttf",
	"hb/harfbuzz_reference/in-house/fonts/8339c821814d9bad7c77169332327ad8b0f33c81.ttf",
}

// synthTwoStrikes is a font built in memory from ot/toys/Sbix1.ttf: its single
// 'sbix' strike is duplicated under another ppem, so that glyph extents depend
// on Face.SetPpem (no corpus font has that property; without it a stale extents
// cache after SetPpem would be unobservable).
const synthTwoStrikes = "synth/Sbix1-two-strikes"

var bitmapIDs = []string{
	synthTwoStrikes,
	"ot/bitmap/NotoColorEmoji.ttf",
	"ot/toys/Sbix1.ttf",
	"ot/toys/CBLC1.ttf",
	"ot/bitmap/IBM3161-bitmap.otb",
}

var samples = [][]rune{
	[]rune("Hamburgefonstiv fi ffl AVA To. $¢ 1/2 Rr"),
	[]rune("السلام عليكم ورحمة الله"),
	[]rune("שלום עולם, מה נשמע"),
	[]rune("Привет, мир! Съешь ещё"),
	[]rune("नमस्ते क्षत्रिय किताब"),
	[]rune("ᠮᠣᠩᠭᠣᠯ ᠪᠢᠴᠢᠭ"),
	[]rune("😀👍🏽 👨‍👩‍👧 ❤️"),
	[]rune("abc ABC 0123 $ab"),
}

var (
	poolOnce sync.Once
	pool     map[string]*fontInfo
	poolIDs  map[string][]string // class -> ids present
	poolNote []string
)

func loadPool() {
	poolOnce.Do(func() {
		pool = map[string]*fontInfo{}
		poolIDs = map[string][]string{}
		add := func(class string, ids []string) {
			for _, id := range ids {
				fi, err := loadFont(id)
				if err != nil {
					poolNote = append(poolNote, fmt.Sprintf("font %s not usable: %v", id, err))
					continue
				}
				fi.class = class
				pool[id] = fi
				poolIDs[class] = append(poolIDs[class], id)
				if fi.noSpace {
					poolIDs["nospace"] = append(poolIDs["nospace"], id)
				}
			}
		}
		add("variable", variableIDs)
		add("static", staticIDs)
		add("bitmap", bitmapIDs)
	})
}

// buildTwoStrikes rewrites the sfnt in data with its first sbix strike present
// twice, the copy under half the ppem.
func buildTwoStrikes(data []byte) ([]byte, error) {
	ld, err := ot.NewLoader(bytes.NewReader(data))
	if err != nil {
		return nil, err
	}
	sbixTag := ot.MustNewTag("sbix")
	raw, err := ld.RawTable(sbixTag)
	if err != nil || len(raw) < 12 {
		return nil, fmt.Errorf("no sbix table")
	}
	n := int(binary.BigEndian.Uint32(raw[4:]))
	if n < 1 || len(raw) < 8+4*n {
		return nil, fmt.Errorf("bad sbix header")
	}
	start := int(binary.BigEndian.Uint32(raw[8:]))
	end := len(raw)
	if n > 1 {
		end = int(binary.BigEndian.Uint32(raw[12:]))
	}
	if start < 8+4*n || end > len(raw) || end-start < 4 {
		return nil, fmt.Errorf("bad sbix strike offsets")
	}
	strike := raw[start:end]
	ppem := binary.BigEndian.Uint16(strike)
	if ppem < 4 {
		return nil, fmt.Errorf("strike ppem too small")
	}
	out := make([]byte, 16, 16+2*len(strike))
	copy(out, raw[:4])
	binary.BigEndian.PutUint32(out[4:], 2)
	binary.BigEndian.PutUint32(out[8:], 16)
	binary.BigEndian.PutUint32(out[12:], uint32(16+len(strike)))
	out = append(out, strike...)
	out = append(out, strike...)
	binary.BigEndian.PutUint16(out[16+len(strike):], ppem/2)
	var tbs []ot.Table
	for _, tag := range ld.Tables() {
		c, err := ld.RawTable(tag)
		if err != nil {
			return nil, err
		}
		if tag == sbixTag {
			c = out
		}
		tbs = append(tbs, ot.Table{Tag: tag, Content: c})
	}
	sort.Slice(tbs, func(i, j int) bool { return tbs[i].Tag < tbs[j].Tag })
	return ot.WriteTTF(tbs), nil
}

func loadFont(id string) (*fontInfo, error) {
	var data []byte
	var fs []*font.Font
	if id == synthTwoStrikes {
		src := corpus.ByID("ot/toys/Sbix1.ttf")
		if src == nil {
			return nil, fmt.Errorf("source font not in corpus")
		}
		var err error
		if data, err = buildTwoStrikes(src.Bytes()); err != nil {
			return nil, err
		}
		ld, err := ot.NewLoader(bytes.NewReader(data))
		if err != nil {
			return nil, err
		}
		ft, err := font.NewFont(ld)
		if err != nil {
			return nil, err
		}
		fs = []*font.Font{ft}
	} else {
		f := corpus.ByID(id)
		if f == nil {
			return nil, fmt.Errorf("not in corpus")
		}
		var err error
		fs, err = f.Fonts()
		if err != nil || len(fs) == 0 {
			return nil, fmt.Errorf("parse: %v", err)
		}
		data = f.Bytes()
	}
	fi := &fontInfo{id: id, font: fs[0]}
	if lds, err := ot.NewLoaders(bytes.NewReader(data)); err == nil && len(lds) > 0 {
		if raw, err := lds[0].RawTable(ot.MustNewTag("fvar")); err == nil {
			if fv, _, err := tables.ParseFvar(raw); err == nil {
				fi.axes = fv.FvarRecords.Axis
			}
		}
	}
	fi.hasFV = len(fi.font.GSUB.FeatureVariations) > 0 || len(fi.font.GPOS.FeatureVariations) > 0
	it := fi.font.Cmap.Iter()
	seen := map[font.GID]bool{}
	for it.Next() {
		r, g := it.Char()
		if len(fi.runes) < 6000 {
			fi.runes = append(fi.runes, r)
		}
		if !seen[g] && len(fi.gids) < 400 {
			seen[g] = true
			fi.gids = append(fi.gids, g)
		}
	}
	for g := font.GID(0); g < 12; g++ {
		if !seen[g] {
			fi.gids = append(fi.gids, g)
		}
	}
	fi.gids = append(fi.gids, 0xFFFF) // beyond any glyph count of the pool: must be handled too
	best, bestN := samples[0], -1
	for _, s := range samples {
		n := 0
		for _, r := range s {
			if _, ok := fi.font.Cmap.Lookup(r); ok {
				n++
			}
		}
		if n*100/len(s) > bestN {
			best, bestN = s, n*100/len(s)
		}
	}
	fi.sample = best
	_, hasSpace := fi.font.Cmap.Lookup(' ')
	fi.noSpace = !hasSpace
	if len(fi.runes) == 0 {
		return nil, fmt.Errorf("empty cmap")
	}
	return fi, nil
}
