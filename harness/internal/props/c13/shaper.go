package c13

import (
	"fmt"

	"github.com/go-text/typesetting/di"
	"github.com/go-text/typesetting/font"
	ot "github.com/go-text/typesetting/font/opentype"
	"github.com/go-text/typesetting/language"
	"github.com/go-text/typesetting/shaping"
	"golang.org/x/image/math/fixed"

	"verifharness/internal/gen"
	"verifharness/internal/vrun"
)

// ---- generators ---------------------------------------------------------------------------

func genVars(r *gen.RNG, fi *fontInfo) []VarSetting {
	var vs []VarSetting
	for _, a := range fi.axes {
		if r.Chance(1, 4) {
			continue // axis left at its default
		}
		var v float32
		switch r.Intn(5) {
		case 0:
			v = a.Minimum
		case 1:
			v = a.Maximum
		case 2:
			v = a.Default
		default:
			v = a.Minimum + (a.Maximum-a.Minimum)*float32(r.Intn(1001))/1000
		}
		vs = append(vs, VarSetting{Tag: a.Tag.String(), Value: v})
	}
	return vs
}

func genCoords(r *gen.RNG, fi *fontInfo) []float32 {
	cs := make([]float32, len(fi.axes))
	for i := range cs {
		cs[i] = []float32{-1, -0.5, 0, 0.5, 1, float32(r.Intn(2001)-1000) / 1000}[r.Intn(6)]
	}
	return cs
}

var ppems = []uint16{0, 8, 12, 16, 20, 24, 64, 109, 128, 300}

func genPpem(r *gen.RNG) [2]uint16 {
	x := ppems[r.Intn(len(ppems))]
	if r.Chance(1, 4) {
		return [2]uint16{x, ppems[r.Intn(len(ppems))]}
	}
	return [2]uint16{x, x}
}

func pickFonts(r *gen.RNG, n int, needVariable bool) []string {
	var all []string
	all = append(all, poolIDs["variable"]...)
	all = append(all, poolIDs["static"]...)
	all = append(all, poolIDs["bitmap"]...)
	gen.Shuffle(r, all)
	out := all[:min(n, len(all))]
	if needVariable {
		has := false
		for _, id := range out {
			if pool[id].class == "variable" {
				has = true
			}
		}
		if !has {
			// prefer fonts with FeatureVariations half of the time
			cands := poolIDs["variable"]
			id := cands[r.Intn(len(cands))]
			if r.Bool() {
				var fv []string
				for _, c := range cands {
					if pool[c].hasFV {
						fv = append(fv, c)
					}
				}
				if len(fv) > 0 {
					id = fv[r.Intn(len(fv))]
				}
			}
			out[0] = id
		}
	}
	return append([]string(nil), out...)
}

func genFaceSpec(r *gen.RNG, id string) FaceSpec {
	fi := pool[id]
	fs := FaceSpec{Font: id}
	if len(fi.axes) > 0 {
		switch r.Intn(4) {
		case 0: // default instance
		case 1:
			fs.Coords = genCoords(r, fi)
		default:
			fs.Vars = genVars(r, fi)
		}
	}
	if fi.class == "bitmap" || r.Chance(1, 5) {
		fs.Ppem = genPpem(r)
	}
	return fs
}

var shapeSizes = []int{64, 480, 768, 1025, 72 * 64, 1000 * 64}
var shapeLangs = []string{"", "en", "ar", "tr", "zh-hans", "fr"}
var featTags = []string{"liga", "kern", "frac", "smcp", "ss01", "calt", "rvrn", "dlig", "vert"}

func genShapeOp(r *gen.RNG, w *Witness, face int) Op {
	fi := pool[w.Faces[face].Font]
	op := Op{K: "shape", Face: face, Text: genFontText(r, fi, 16)}
	op.Start, op.End = 0, len(op.Text)
	if r.Chance(1, 3) {
		a, b := r.Intn(len(op.Text)+1), r.Intn(len(op.Text)+1)
		if a > b {
			a, b = b, a
		}
		op.Start, op.End = a, b
	}
	switch r.Intn(10) {
	case 0:
		op.Dir = uint8(di.DirectionRTL)
	case 1:
		op.Dir = uint8(di.DirectionTTB)
	case 2:
		d := di.DirectionTTB
		d.SetSideways(true)
		op.Dir = uint8(d)
	default:
		op.Dir = uint8(di.DirectionLTR)
	}
	op.Size = shapeSizes[r.Intn(len(shapeSizes))]
	for _, t := range featTags {
		if r.Chance(1, 6) {
			op.Feats = append(op.Feats, Feat{Tag: t, Value: []uint32{0, 1, 3}[r.Intn(3)]})
		}
	}
	op.Script = uint32(language.Latin)
	for _, c := range op.Text {
		if s := language.LookupScript(c); s.Strong() && s != language.Unknown {
			op.Script = uint32(s)
			if s == language.Arabic || s == language.Hebrew {
				if op.Dir == uint8(di.DirectionLTR) {
					op.Dir = uint8(di.DirectionRTL)
				}
			}
			break
		}
	}
	op.Lang = shapeLangs[r.Intn(len(shapeLangs))]
	return op
}

func genShaperHistory(r *gen.RNG, i int) Witness {
	w := Witness{Object: "shaper"}
	w.Mode = []string{"plain", "shared-font", "mutating"}[i%3]
	switch w.Mode {
	case "plain":
		for _, id := range pickFonts(r, 2+r.Intn(4), false) {
			w.Faces = append(w.Faces, genFaceSpec(r, id))
		}
	case "shared-font":
		v := poolIDs["variable"][r.Intn(len(poolIDs["variable"]))]
		k := 2 + r.Intn(2)
		for j := 0; j < k; j++ {
			fs := genFaceSpec(r, v)
			if j == 0 && r.Bool() {
				fs = FaceSpec{Font: v} // default instance first
			}
			w.Faces = append(w.Faces, fs)
		}
		for _, id := range pickFonts(r, r.Intn(3), false) {
			if id != v {
				w.Faces = append(w.Faces, genFaceSpec(r, id))
			}
		}
	case "mutating":
		for _, id := range pickFonts(r, 2+r.Intn(3), true) {
			w.Faces = append(w.Faces, genFaceSpec(r, id))
		}
	}
	n := 5 + r.Intn(36)
	if r.Chance(3, 4) {
		w.Ops = append(w.Ops, Op{K: "cache", N: []int{0, 1, 2, 8}[r.Intn(4)]})
	}
	last := 0
	for len(w.Ops) < n {
		k := r.Intn(100)
		switch {
		case k < 8:
			w.Ops = append(w.Ops, Op{K: "cache", N: []int{0, 1, 2, 8}[r.Intn(4)]})
		case k < 26 && w.Mode == "mutating":
			f := r.Intn(len(w.Faces))
			if r.Chance(2, 3) {
				f = last
			}
			fi := pool[w.Faces[f].Font]
			switch {
			case len(fi.axes) > 0 && r.Chance(2, 3):
				if r.Bool() {
					w.Ops = append(w.Ops, Op{K: "setvar", Face: f, Vars: genVars(r, fi)})
				} else {
					w.Ops = append(w.Ops, Op{K: "setcoords", Face: f, Coords: genCoords(r, fi), InPlace: r.Bool()})
				}
			default:
				w.Ops = append(w.Ops, Op{K: "setppem", Face: f, Ppem: genPpem(r)})
			}
		default:
			f := r.Intn(len(w.Faces))
			if r.Chance(1, 3) {
				f = last
			}
			last = f
			op := genShapeOp(r, &w, f)
			// repeat an earlier shaping request now and then (same plan key, same text)
			if r.Chance(1, 4) {
				for j := len(w.Ops) - 1; j >= 0; j-- {
					if w.Ops[j].K == "shape" && (w.Ops[j].Face == f || r.Chance(1, 3)) {
						op = w.Ops[j]
						last = op.Face
						break
					}
				}
			}
			w.Ops = append(w.Ops, op)
		}
	}
	return w
}

// ---- LRU model (evidence only: hits / misses / evictions actually provoked) ---------------

type lruModel struct {
	order []*font.Font // oldest first
	max   int
}

func (l *lruModel) touch(k *font.Font) (hit, evicted bool) {
	for i, e := range l.order {
		if e == k {
			l.order = append(append(l.order[:i:i], l.order[i+1:]...), k)
			return true, false
		}
	}
	l.order = append(l.order, k)
	if len(l.order) > l.max {
		l.order = l.order[1:]
		return false, true
	}
	return false, false
}

// ---- interpreter ------------------------------------------------------------------------------

func shapeInput(op *Op, face *font.Face) shaping.Input {
	in := shaping.Input{
		Text:      op.Text,
		RunStart:  op.Start,
		RunEnd:    op.End,
		Direction: di.Direction(op.Dir),
		Face:      face,
		Size:      fixed.Int26_6(op.Size),
		Script:    language.Script(op.Script),
		Language:  language.Language(op.Lang),
	}
	for _, f := range op.Feats {
		in.FontFeatures = append(in.FontFeatures, shaping.FontFeature{Tag: ot.MustNewTag(f.Tag), Value: f.Value})
	}
	return in
}

func planKey(op *Op) string {
	d := di.Direction(op.Dir)
	if d.IsSideways() {
		d = d.SwitchAxis()
	}
	return fmt.Sprint(op.Face, d.Harfbuzz(), op.Script, op.Lang, op.Feats)
}

type coordState struct {
	kind   string
	vars   []VarSetting
	coords []float32
}

func judgeShaper(w Witness) (vs []violation, st *histStats) {
	st = newStats()
	faces, ok := buildFaces(&w)
	if !ok {
		st.c("skipped/font-missing")
		return
	}
	st.c("mode=" + w.Mode)
	var reused shaping.HarfbuzzShaper
	model := lruModel{}
	var outs, copies []shaping.Output
	var outOp []int
	shapedBefore := make([]bool, len(faces))
	firstCoords := map[string]coordState{}
	mutatedSinceShape := make([]bool, len(faces))

	retained := func(at int) {
		for j := range outs {
			if d := diffOutput(outs[j], copies[j], false); d != "" {
				vs = append(vs, violation{"C13/shaper/retained-output-changed", fmt.Sprintf("the Output returned by op %d changed after op %d: %s", outOp[j], at, d), at})
				copies[j] = copyOutput(outs[j])
			}
		}
		st.cover["retained-output-recomparisons"] += int64(len(outs))
	}

	for i := range w.Ops {
		op := &w.Ops[i]
		st.ops++
		switch op.K {
		case "cache":
			reused.SetFontCacheSize(op.N)
			model.max = op.N
			st.c(fmt.Sprintf("op=SetFontCacheSize(%d)", op.N))
		case "setvar":
			faces[op.Face].setVars(op.Vars)
			mutatedSinceShape[op.Face] = true
			st.c("op=Face.SetVariations-between-shapes")
		case "setcoords":
			faces[op.Face].setCoords(op.Coords, op.InPlace)
			mutatedSinceShape[op.Face] = true
			st.c("op=Face.SetCoords-between-shapes")
		case "setppem":
			faces[op.Face].setPpem(op.Ppem)
			mutatedSinceShape[op.Face] = true
			st.c("op=Face.SetPpem-between-shapes")
		case "shape":
			f := faces[op.Face]
			in := shapeInput(op, f.face)
			st.c("op=Shape")
			st.c("font-class=" + f.info.class)
			var out shaping.Output
			pv, where := vrun.Catch(func() { out = reused.Shape(in) })
			var outFresh shaping.Output
			pvF, _ := vrun.Catch(func() { outFresh = (&shaping.HarfbuzzShaper{}).Shape(in) })
			if pv != nil || pvF != nil {
				if pv != nil && pvF == nil {
					vs = append(vs, violation{"C13/shaper/panic-only-when-reused", fmt.Sprintf("Shape panicked on the reused shaper only: %v at %s", pv, where), i})
				} else {
					st.c("inconclusive/shape-panics-on-fresh-shaper-too")
				}
				return // the reused shaper is in an unknown state
			}
			hit, ev := model.touch(f.info.font)
			if hit {
				st.c("font-cache=hit")
				st.nontrivial = true
			} else {
				st.c("font-cache=miss")
			}
			if ev {
				st.c("font-cache=eviction")
				st.nontrivial = true
			}
			sameFontOther := false
			for j, g := range faces {
				if j != op.Face && g.info == f.info && shapedBefore[j] {
					sameFontOther = true
				}
			}
			if sameFontOther {
				st.c("shape=after-another-face-of-the-same-font")
			}
			if mutatedSinceShape[op.Face] && shapedBefore[op.Face] {
				st.c("shape=after-mutation-of-a-face-already-shaped")
			}
			pk := planKey(op)
			first, seenPlan := firstCoords[pk]
			if !seenPlan {
				firstCoords[pk] = coordState{f.kind, f.vars, f.coords}
			} else {
				st.c("shape=plan-key-repeated")
			}

			if d := diffOutput(out, outFresh, false); d != "" {
				key := "C13/shaper/fresh-differs"
				msg := fmt.Sprintf("Shape(face %d %s [%s], text %+q [%d,%d), size %d, feats %v) on the reused shaper differs from a fresh shaper: %s",
					op.Face, f.info.id, f.settings(), string(op.Text), op.Start, op.End, op.Size, op.Feats, d)
				// class 1: the result is what a fresh shaper returns for ANOTHER face of the same font
				for j, g := range faces {
					if j == op.Face || g.info != f.info || !shapedBefore[j] {
						continue
					}
					in2 := in
					in2.Face = g.face
					var pred shaping.Output
					if p, _ := vrun.Catch(func() { pred = (&shaping.HarfbuzzShaper{}).Shape(in2) }); p != nil {
						continue
					}
					pred.Face = in.Face
					if diffOutput(out, pred, false) == "" {
						key = "C13/shaper/font-lru-keyed-by-font"
						msg += fmt.Sprintf(" — it equals what a fresh shaper returns for face %d of the same *font.Font [%s], which was shaped earlier: the shaper's font cache handed out that face's harfbuzz.Font", j, g.settings())
						break
					}
				}
				// class 2: the result is what a shaper returns when its shape plan was compiled under the
				// coordinates this face had when the plan key was first used
				if key == "C13/shaper/fresh-differs" && seenPlan {
					cur := coordState{f.kind, f.vars, f.coords}
					restore := func(s coordState) {
						switch s.kind {
						case "vars":
							f.face.SetVariations(toVariations(s.vars))
						case "coords":
							f.face.SetCoords(toCoords(s.coords))
						default:
							f.face.SetCoords(nil)
						}
					}
					var pred shaping.Output
					p, _ := vrun.Catch(func() {
						var ps shaping.HarfbuzzShaper
						restore(first)
						ps.Shape(in)
						restore(cur)
						pred = ps.Shape(in)
					})
					restore(cur)
					if p == nil && diffOutput(out, pred, false) == "" {
						key = "C13/shaper/plan-cache-ignores-variations"
						msg += fmt.Sprintf(" — it equals what a shaper returns that compiled its shape plan for this (face, direction, script, language, features) under the earlier coordinates [%s %v %v]: the cached plan is reused although the variation coordinates changed", first.kind, first.vars, first.coords)
					}
				}
				vs = append(vs, violation{key, msg, i})
				st.c("differs-from-fresh/" + key)
			}

			// fresh shaper AND fresh face with the same current settings
			ff := f.fresh()
			inFF := in
			inFF.Face = ff
			var outFF shaping.Output
			if p, _ := vrun.Catch(func() { outFF = (&shaping.HarfbuzzShaper{}).Shape(inFF) }); p == nil {
				if d := diffOutput(outFresh, outFF, true); d != "" {
					vs = append(vs, violation{"C13/face/state-leak-seen-through-shape", fmt.Sprintf("fresh shaper, face %d %s [%s]: shaping with the history's face differs from shaping with a newly constructed face given the same settings: %s", op.Face, f.info.id, f.settings(), d), i})
				}
			}

			outs = append(outs, out)
			copies = append(copies, copyOutput(out))
			outOp = append(outOp, i)
			shapedBefore[op.Face] = true
			mutatedSinceShape[op.Face] = false
		}
		retained(i)
	}
	return
}
