package c11

import (
	"bytes"
	"fmt"

	"github.com/go-text/typesetting/fontscan"

	"verifharness/internal/gen"
)

// SetOp is one operation of a RuneSet history.
//
//	add / del / has : on rune R
//	len             : Len()
//	incl            : a.includes(b) with b built by adding BAdd then deleting BDel
//	ser             : serialize → deserialize, state must be unchanged
type SetOp struct {
	K    string `json:"k"`
	R    rune   `json:"r,omitempty"`
	BAdd []rune `json:"b_add,omitempty"`
	BDel []rune `json:"b_del,omitempty"`
}

type SetCase struct {
	Ops []SetOp `json:"ops"`
}

var runeEdges = []rune{0, 1, 0x1F, 0x20, 0x3F, 0x40, 0xFE, 0xFF, 0x100, 0x101, 0x11F, 0x120, 0xFFFF, 0x10000, 0x1FFFF, 0x20000, 0x10FFFE, 0x10FFFF}

func genRune(r *gen.RNG, pages []rune) rune {
	switch r.Intn(10) {
	case 0:
		return gen.Pick(r, runeEdges)
	case 1:
		return rune(r.Intn(nRunes))
	default:
		p := gen.Pick(r, pages)
		switch r.Intn(4) {
		case 0:
			return p<<8 | rune(gen.Pick(r, []int{0, 31, 32, 63, 64, 127, 128, 223, 224, 254, 255}))
		default:
			return p<<8 | rune(r.Intn(256))
		}
	}
}

func genSetCase(seed int64, i int, nOps int) SetCase {
	r := gen.New(seed, "C11/runeset", i)
	np := 1 + r.Intn(5)
	pages := make([]rune, np)
	for k := range pages {
		switch r.Intn(4) {
		case 0:
			pages[k] = rune(r.Intn(4))
		case 1:
			pages[k] = rune(0x10FF - r.Intn(3))
		default:
			pages[k] = rune(r.Intn(0x1100))
		}
	}
	var c SetCase
	var live []rune // runes added so far (possibly deleted again)
	for k := 0; k < nOps; k++ {
		var op SetOp
		switch x := r.Intn(20); {
		case x < 8:
			op = SetOp{K: "add", R: genRune(r, pages)}
			live = append(live, op.R)
		case x < 12:
			op = SetOp{K: "del", R: genRune(r, pages)}
			if len(live) > 0 && r.Chance(2, 3) {
				op.R = gen.Pick(r, live)
			}
		case x < 15:
			op = SetOp{K: "has", R: genRune(r, pages)}
			if len(live) > 0 && r.Bool() {
				op.R = gen.Pick(r, live)
			}
		case x < 16:
			op = SetOp{K: "len"}
		case x < 19:
			op = SetOp{K: "incl"}
			// b: a sample of live runes (likely a subset), sometimes with a foreign
			// rune, sometimes with runes deleted again (leaves empty pages behind)
			for _, l := range live {
				if r.Chance(1, 3) {
					op.BAdd = append(op.BAdd, l)
				}
			}
			if r.Chance(1, 3) {
				op.BAdd = append(op.BAdd, genRune(r, pages))
			}
			if r.Chance(1, 3) {
				x := genRune(r, pages)
				if r.Bool() {
					x = rune(r.Intn(nRunes))
				}
				op.BAdd = append(op.BAdd, x)
				op.BDel = append(op.BDel, x)
			}
			if r.Chance(1, 4) && len(op.BAdd) > 0 {
				op.BDel = append(op.BDel, gen.Pick(r, op.BAdd))
			}
		default:
			op = SetOp{K: "ser"}
		}
		c.Ops = append(c.Ops, op)
	}
	return c
}

type setStats struct {
	ops        map[string]int
	inclTrue   int
	inclFalse  int
	emptyPageB int // b had a page whose runes were all deleted again
	maxLen     int
}

// judgeSet replays the history on a RuneSet and on map[rune]bool, comparing
// every observable after every operation.
func judgeSet(c SetCase) (st setStats, fs []finding) {
	st.ops = map[string]int{}
	var rs fontscan.RuneSet
	model := map[rune]bool{}
	pages := map[rune]bool{} // pages ever touched
	fail := func(kind, format string, a ...any) {
		fs = append(fs, finding{Key: "C11/runeset-" + kind, Msg: fmt.Sprintf(format, a...)})
	}
	checkState := func(step int, what string) bool {
		if rs.Len() != len(model) {
			fail("len", "after op %d (%s): Len() = %d, model has %d runes", step, what, rs.Len(), len(model))
			return false
		}
		for p := range pages {
			for b := rune(0); b < 256; b++ {
				r := p<<8 | b
				if rs.Contains(r) != model[r] {
					fail("state", "after op %d (%s): Contains(U+%04X) = %v, model says %v", step, what, r, rs.Contains(r), model[r])
					return false
				}
			}
		}
		return true
	}
	for i, op := range c.Ops {
		st.ops[op.K]++
		what := op.K
		switch op.K {
		case "add":
			what = fmt.Sprintf("Add(U+%04X)", op.R)
			rs.Add(op.R)
			model[op.R] = true
			pages[op.R>>8] = true
		case "del":
			what = fmt.Sprintf("Delete(U+%04X)", op.R)
			rs.Delete(op.R)
			delete(model, op.R)
			pages[op.R>>8] = true
		case "has":
			if got := rs.Contains(op.R); got != model[op.R] {
				fail("contains", "op %d: Contains(U+%04X) = %v, model says %v", i, op.R, got, model[op.R])
				return
			}
		case "len":
			// checkState compares Len
		case "incl":
			var b fontscan.RuneSet
			mb := map[rune]bool{}
			pb := map[rune]int{}
			for _, r := range op.BAdd {
				b.Add(r)
				mb[r] = true
			}
			for _, r := range op.BDel {
				b.Delete(r)
				delete(mb, r)
			}
			for _, r := range op.BAdd {
				pb[r>>8] += 0
			}
			for r := range mb {
				pb[r>>8]++
			}
			empty := false
			for _, n := range pb {
				if n == 0 {
					empty = true
				}
			}
			if empty {
				st.emptyPageB++
			}
			want := true
			var miss rune
			for r := range mb {
				if !model[r] {
					want = false
					miss = r
					break
				}
			}
			got := rs.VerifIncludes(b)
			if want {
				st.inclTrue++
			} else {
				st.inclFalse++
			}
			if got != want {
				kind := "includes"
				if empty && want && !got {
					kind = "includes-empty-page"
				}
				detail := ""
				if !want {
					detail = fmt.Sprintf(" (U+%04X is in b, not in a)", miss)
				}
				fail(kind, "op %d: a.includes(b) = %v but b ⊆ a is %v%s; |a|=%d |b|=%d, b built by Add%v then Delete%v", i, got, want, detail, len(model), len(mb), hex(op.BAdd), hex(op.BDel))
				return
			}
			// a set includes itself and the empty set
			if !rs.VerifIncludes(rs) {
				fail("includes", "op %d: a.includes(a) = false", i)
				return
			}
			if !rs.VerifIncludes(nil) {
				fail("includes", "op %d: a.includes(∅) = false", i)
				return
			}
		case "ser":
			data := rs.VerifSerialize()
			var back fontscan.RuneSet
			n, err := back.VerifDeserialize(append(append([]byte{}, data...), 0xAA, 0xBB)) // trailing bytes must be left alone
			if err != nil || n != len(data) {
				fail("serialize", "op %d: deserialize(serialize(a)) = (%d, %v), want (%d, nil)", i, n, err, len(data))
				return
			}
			if !bytes.Equal(back.VerifSerialize(), data) {
				fail("serialize", "op %d: serialize(deserialize(serialize(a))) differs", i)
				return
			}
			rs = back // continue on the reloaded value
		}
		if len(model) > st.maxLen {
			st.maxLen = len(model)
		}
		if !checkState(i, what) {
			return
		}
	}
	return
}

func hex(rs []rune) string {
	s := "["
	for i, r := range rs {
		if i > 0 {
			s += " "
		}
		if i >= 12 {
			s += "…"
			break
		}
		s += fmt.Sprintf("%X", r)
	}
	return s + "]"
}

// fixedSetCases are minimal hand written histories judged first.
func fixedSetCases() []SetCase {
	return []SetCase{
		{Ops: []SetOp{{K: "add", R: 0x141}, {K: "incl", BAdd: []rune{0x41}, BDel: []rune{0x41}}}}, // ∅ (with an emptied page) ⊆ a
		{Ops: []SetOp{{K: "add", R: 0x41}, {K: "add", R: 0x10041}, {K: "incl", BAdd: []rune{0x41, 0x10041}}, {K: "del", R: 0x41}, {K: "has", R: 0x41}, {K: "len"}, {K: "ser"}}},
		{Ops: []SetOp{{K: "add", R: 0x1F}, {K: "add", R: 0x20}, {K: "add", R: 0xFF}, {K: "add", R: 0x100}, {K: "del", R: 0x20}, {K: "ser"}, {K: "incl", BAdd: []rune{0x1F, 0x100}}, {K: "incl", BAdd: []rune{0x20}}}},
	}
}
