package c11

import (
	"bytes"
	"fmt"
	"reflect"
	"sort"
	"strings"
	"sync"

	"github.com/go-text/typesetting/font"
	ot "github.com/go-text/typesetting/font/opentype"
	"github.com/go-text/typesetting/fontscan"
	"github.com/go-text/typesetting/language"

	"verifharness/internal/vrun"
)

const (
	nRunes   = 0x110000 // the rune domain of DESIGN §7: 0 … 0x10FFFF
	iterCap  = 6 << 20  // an enumeration longer than this is not judged (inconclusive)
	maxRange = 1 << 26
)

type bitset []uint64

func newBitset() bitset         { return make(bitset, nRunes/64) }
func (b bitset) has(r int) bool { return b[r>>6]&(1<<(uint(r)&63)) != 0 }
func (b bitset) set(r int)      { b[r>>6] |= 1 << (uint(r) & 63) }
func (b bitset) clear()         { clear(b) }
func (b bitset) count() (n int) {
	for _, w := range b {
		for ; w != 0; w &= w - 1 {
			n++
		}
	}
	return n
}

// scratch is the per-worker memory of one cmap scan.
type scratch struct {
	gid      []uint32 // Lookup glyph per rune
	ok       bitset   // Lookup found
	seen     bitset   // yielded by Iter
	gid0     bitset   // yielded by Iter with glyph 0 while Lookup misses
	viaRemap bitset   // found by the remapping wrapper only
	rng      bitset   // union of RuneRanges
	cov      bitset   // a coverage rune set, enumerated
}

var scratchPool = sync.Pool{New: func() any {
	return &scratch{gid: make([]uint32, nRunes), ok: newBitset(), seen: newBitset(), gid0: newBitset(),
		viaRemap: newBitset(), rng: newBitset(), cov: newBitset()}
}}

// scriptOf[r] = language.LookupScript(r), computed once.
var (
	scriptOnce sync.Once
	scriptOf   []language.Script
)

func scripts() []language.Script {
	scriptOnce.Do(func() {
		scriptOf = make([]language.Script, nRunes)
		vrun.ParallelChunks(nRunes, 1<<14, func(lo, hi, _ int) {
			for r := lo; r < hi; r++ {
				scriptOf[r] = language.LookupScript(rune(r))
			}
		})
	})
	return scriptOf
}

// finding is one failed law on one case.
type finding struct {
	Key  string // stable id of the defect class
	Kind string // the law that failed
	Msg  string
}

// typeClass names the dynamic type of a cmap; wrappers show what they wrap.
func typeClass(cm font.Cmap) string {
	if cm == nil {
		return "nil"
	}
	t := reflect.TypeOf(cm)
	name := t.String()
	if in := innerCmap(cm); in != nil {
		name += "{" + typeClass(in) + "}"
	}
	return name
}

// innerCmap returns the cmap wrapped by a remapping struct, or nil.
func innerCmap(cm font.Cmap) font.Cmap {
	v := reflect.ValueOf(cm)
	if v.Kind() == reflect.Struct && v.NumField() == 1 && v.Type().Field(0).Anonymous && v.Type().Field(0).Name == "Cmap" {
		in, _ := v.Field(0).Interface().(font.Cmap)
		return in
	}
	return nil
}

// rangerOf finds RuneRanges on the value (what fontscan sees) or on a pointer to it.
func rangerOf(cm font.Cmap) (font.CmapRuneRanger, string) {
	if rr, ok := cm.(font.CmapRuneRanger); ok {
		return rr, "direct"
	}
	v := reflect.ValueOf(cm)
	if v.Kind() != reflect.Ptr {
		p := reflect.New(v.Type())
		p.Elem().Set(v)
		if rr, ok := p.Interface().(font.CmapRuneRanger); ok {
			return rr, "pointer-receiver"
		}
	}
	return nil, ""
}

type cmapStats struct {
	Class       string
	Mapped      int // |dom L|
	Yielded     int // pairs from Iter
	OutOfDomain int // pairs from Iter outside 0…0x10FFFF
	Ranger      string
	NRanges     int
	Inconcl     string
	Order       string // order of the runes yielded by Iter: ordered | touching | unordered
	MaxRune     rune   // largest rune yielded by Iter
}

// key maps a failed law (kind) to the stable id of its defect class.
//
// A cmap whose segments / groups are not strictly ascending and disjoint
// (measured on the order of Iter) fails many laws at once for one reason — the
// library does not sanitise the order — so these report under one key per
// structure class and the failed laws are listed in the message.
func (st cmapStats) key(kind string) string {
	if st.MaxRune > 0xFFFFFF && (strings.HasPrefix(kind, "coverage-") || strings.HasPrefix(kind, "scripts-")) {
		return "C11/rune-above-ffffff-aliases-a-page"
	}
	switch st.Order {
	case "touching":
		return "C11/touching-segments"
	case "unordered":
		return "C11/unordered-segments"
	}
	switch kind {
	case "iter-extra-glyph0", "ranges-extra-glyph0", "coverage-extra-glyph0":
		return "C11/glyph0-entry-enumerated"
	case "iter-missing-remapped", "ranges-missing-remapped", "coverage-missing-remapped":
		return "C11/remapped-runes-not-enumerated"
	}
	return "C11/" + kind
}

// lawsCmap scans Lookup over the whole domain and judges Iter and RuneRanges
// against it. sc.ok / sc.gid / sc.viaRemap / sc.gid0 stay valid for the caller.
func lawsCmap(cm font.Cmap, sc *scratch, rawCmap []byte) (st cmapStats, fs []finding) {
	arraySeg := format4ArraySegments(rawCmap)
	st.Class = typeClass(cm)
	add := func(kind, format string, a ...any) {
		fs = append(fs, finding{Kind: kind, Msg: fmt.Sprintf(format, a...)})
	}
	defer func() {
		for i := range fs {
			fs[i].Key = st.key(fs[i].Kind)
			fs[i].Msg = "[" + fs[i].Kind + "] " + st.Class + ", Iter order " + st.Order + ": " + fs[i].Msg
		}
	}()
	sc.ok.clear()
	sc.seen.clear()
	sc.gid0.clear()
	sc.viaRemap.clear()
	inner := innerCmap(cm)
	for r := 0; r < nRunes; r++ {
		g, ok := cm.Lookup(rune(r))
		if ok {
			sc.ok.set(r)
			sc.gid[r] = uint32(g)
			st.Mapped++
			if inner != nil {
				if _, ok2 := inner.Lookup(rune(r)); !ok2 {
					sc.viaRemap.set(r)
				}
			}
		}
	}

	// --- Iter: no duplicate rune, exactly the pairs of L
	it := cm.Iter()
	if it == nil {
		add("iter-nil", "Iter() returned nil")
		return st, fs
	}
	var nDup, nExtra0, nExtra, nGid, nGidMod int
	var exDup, exExtra0, exExtra, exGid, exGidMod string
	st.Order = "ordered"
	prev := rune(-1 << 31)
	segmented := !strings.HasSuffix(strings.TrimRight(st.Class, "}"), "font.cmap0") // format 0 enumerates a Go map
	for it.Next() {
		if st.Yielded >= iterCap {
			st.Inconcl = "Iter longer than the cap"
			break
		}
		r, g := it.Char()
		st.Yielded++
		if segmented {
			if r == prev && st.Order == "ordered" {
				st.Order = "touching"
			} else if r < prev || (r == prev && st.Order != "touching") {
				st.Order = "unordered"
			}
			if r == prev && st.Order == "touching" {
				// a second equal rune in a row would be more than touching
			}
			prev = r
		}
		if r > st.MaxRune {
			st.MaxRune = r
		}
		if r < 0 || r >= nRunes {
			st.OutOfDomain++
			continue
		}
		if sc.seen.has(int(r)) {
			if nDup == 0 {
				exDup = fmt.Sprintf("U+%04X yielded again (glyph %d)", r, g)
			}
			nDup++
			continue
		}
		sc.seen.set(int(r))
		if !sc.ok.has(int(r)) {
			if g == 0 {
				sc.gid0.set(int(r))
				if nExtra0 == 0 {
					exExtra0 = fmt.Sprintf("Iter yields (U+%04X, 0) but Lookup(U+%04X) = (_, false)", r, r)
				}
				nExtra0++
			} else {
				if nExtra == 0 {
					exExtra = fmt.Sprintf("Iter yields (U+%04X, %d) but Lookup(U+%04X) = (_, false)", r, g, r)
				}
				nExtra++
			}
			continue
		}
		if lg := sc.gid[r]; lg != uint32(g) {
			if g == 0 && sc.viaRemap.has(int(r)) {
				// glyph 0 entry of the wrapped cmap enumerated as a pair, while Lookup
				// skips it and answers through the remapping: the glyph 0 class
				if nExtra0 == 0 {
					exExtra0 = fmt.Sprintf("Iter yields (U+%04X, 0) (a glyph 0 entry, which Lookup skips: it answers %d through the remapping)", r, lg)
				}
				nExtra0++
			} else if lg&0xFFFF == uint32(g)&0xFFFF && arraySeg(r) {
				// glyph array entry + idDelta: the known class
				if nGidMod == 0 {
					exGidMod = fmt.Sprintf("Iter yields (U+%04X, %d) but Lookup gives %d (equal modulo 65536; the rune lies in a format 4 segment with a glyph index array)", r, g, lg)
				}
				nGidMod++
			} else {
				if nGid == 0 {
					exGid = fmt.Sprintf("Iter yields (U+%04X, %d) but Lookup gives %d", r, g, lg)
				}
				nGid++
			}
		}
	}
	if st.Inconcl == "" {
		var nMiss, nMissRemap int
		var exMiss, exMissRemap string
		for w := range sc.ok {
			d := sc.ok[w] &^ sc.seen[w]
			for d != 0 {
				b := 0
				for d&(1<<uint(b)) == 0 {
					b++
				}
				d &^= 1 << uint(b)
				r := w*64 + b
				if sc.viaRemap.has(r) {
					if nMissRemap == 0 {
						exMissRemap = fmt.Sprintf("Lookup(U+%04X) = (%d, true) through the remapping, never yielded by Iter", r, sc.gid[r])
					}
					nMissRemap++
				} else {
					if nMiss == 0 {
						exMiss = fmt.Sprintf("Lookup(U+%04X) = (%d, true), never yielded by Iter", r, sc.gid[r])
					}
					nMiss++
				}
			}
		}
		if nMiss > 0 {
			add("iter-missing", "%d runes; e.g. %s", nMiss, exMiss)
		}
		if nMissRemap > 0 {
			add("iter-missing-remapped", "%d runes; e.g. %s", nMissRemap, exMissRemap)
		}
	}
	if nDup > 0 {
		add("iter-duplicate", "%d duplicates; e.g. %s", nDup, exDup)
	}
	if nExtra0 > 0 {
		add("iter-extra-glyph0", "%d runes; e.g. %s", nExtra0, exExtra0)
	}
	if nExtra > 0 {
		add("iter-extra", "%d runes; e.g. %s", nExtra, exExtra)
	}
	if nGid > 0 {
		add("iter-glyph", "%d runes; e.g. %s", nGid, exGid)
	}
	if nGidMod > 0 {
		add("iter-glyph-mod65536", "%d runes; e.g. %s", nGidMod, exGidMod)
	}

	// --- RuneRanges: union == dom(L); result independent of the dst buffer
	rr, how := rangerOf(cm)
	st.Ranger = how
	if rr != nil {
		ranges := rr.RuneRanges(nil)
		st.NRanges = len(ranges)
		junk := make([][2]rune, len(ranges)+3)
		for i := range junk {
			junk[i] = [2]rune{0x7777, 0x7778}
		}
		again := rr.RuneRanges(junk)
		small := rr.RuneRanges(make([][2]rune, 0, 1))
		if !reflect.DeepEqual(append([][2]rune{}, ranges...), append([][2]rune{}, again...)) ||
			!reflect.DeepEqual(append([][2]rune{}, ranges...), append([][2]rune{}, small...)) {
			add("ranges-buffer", "RuneRanges(nil)=%v but with a used buffer %v / a short buffer %v", head(ranges), head(again), head(small))
		}
		sc.rng.clear()
		for _, ra := range ranges {
			lo, hi := int64(ra[0]), int64(ra[1])
			if lo < 0 {
				lo = 0
			}
			if hi >= nRunes {
				hi = nRunes - 1
			}
			for r := lo; r <= hi; r++ { // an inverted pair is an empty range
				sc.rng.set(int(r))
			}
		}
		var nX0, nX, nM, nMR int
		var exX0, exX, exM, exMR string
		for r := 0; r < nRunes; r++ {
			inR, inL := sc.rng.has(r), sc.ok.has(r)
			switch {
			case inR && !inL && sc.gid0.has(r):
				if nX0 == 0 {
					exX0 = fmt.Sprintf("U+%04X is inside RuneRanges but Lookup misses it (glyph 0 entry)", r)
				}
				nX0++
			case inR && !inL:
				if nX == 0 {
					exX = fmt.Sprintf("U+%04X is inside RuneRanges but Lookup misses it", r)
				}
				nX++
			case !inR && inL && sc.viaRemap.has(r):
				if nMR == 0 {
					exMR = fmt.Sprintf("Lookup(U+%04X) succeeds through the remapping but RuneRanges omits it", r)
				}
				nMR++
			case !inR && inL:
				if nM == 0 {
					exM = fmt.Sprintf("Lookup(U+%04X) = (%d, true) but RuneRanges omits it", r, sc.gid[r])
				}
				nM++
			}
		}
		sfx := ""
		if how != "direct" {
			sfx = "(" + how + ")"
		}
		if nX0 > 0 {
			add("ranges-extra-glyph0"+sfx, "%d runes; e.g. %s; ranges %v", nX0, exX0, head(ranges))
		}
		if nX > 0 {
			add("ranges-extra"+sfx, "%d runes; e.g. %s; ranges %v", nX, exX, head(ranges))
		}
		if nM > 0 {
			add("ranges-missing"+sfx, "%d runes; e.g. %s; ranges %v", nM, exM, head(ranges))
		}
		if nMR > 0 {
			add("ranges-missing-remapped"+sfx, "%d runes; e.g. %s", nMR, exMR)
		}
	}
	return st, fs
}

func head(r [][2]rune) string {
	if len(r) > 8 {
		return fmt.Sprintf("%x… (%d ranges)", r[:8], len(r))
	}
	return fmt.Sprintf("%x", r)
}

// lawsCoverage judges a recorded coverage (rune set + script set) against the
// loaded face whose Lookup results are in sc.ok.
func lawsCoverage(path string, st cmapStats, rs fontscan.RuneSet, ss fontscan.ScriptSet, outOfDomain bool, sc *scratch) (fs []finding) {
	add := func(kind, format string, a ...any) {
		fs = append(fs, finding{Key: st.key(kind), Kind: kind, Msg: "[" + kind + "] " + st.Class + ", Iter order " + st.Order + ", " + path + ": " + fmt.Sprintf(format, a...)})
	}
	sof := scripts()
	sc.cov.clear()
	var nX0, nX, nM, nMR, nCov int
	var exX0, exX, exM, exMR string
	want := map[language.Script]rune{}
	for r := 0; r < nRunes; r++ {
		c := rs.Contains(rune(r))
		if c {
			nCov++
			sc.cov.set(r)
			if _, ok := want[sof[r]]; !ok {
				want[sof[r]] = rune(r)
			}
		}
		l := sc.ok.has(r)
		switch {
		case c && !l && sc.gid0.has(r):
			if nX0 == 0 {
				exX0 = fmt.Sprintf("Runes.Contains(U+%04X) but the face has no glyph for it (glyph 0 entry of the segment)", r)
			}
			nX0++
		case c && !l:
			if nX == 0 {
				exX = fmt.Sprintf("Runes.Contains(U+%04X) but face.NominalGlyph(U+%04X) = (_, false)", r, r)
			}
			nX++
		case !c && l && sc.viaRemap.has(r):
			if nMR == 0 {
				exMR = fmt.Sprintf("face.NominalGlyph(U+%04X) = (%d, true) through the symbol/PUA remapping, but the coverage lacks the rune", r, sc.gid[r])
			}
			nMR++
		case !c && l:
			if nM == 0 {
				exM = fmt.Sprintf("face.NominalGlyph(U+%04X) = (%d, true) but the coverage lacks the rune", r, sc.gid[r])
			}
			nM++
		}
	}
	if nX0 > 0 {
		add("coverage-extra-glyph0", "%d runes; e.g. %s", nX0, exX0)
	}
	if nX > 0 {
		add("coverage-extra", "%d runes; e.g. %s", nX, exX)
	}
	if nM > 0 {
		add("coverage-missing", "%d runes; e.g. %s", nM, exM)
	}
	if nMR > 0 {
		add("coverage-missing-remapped", "%d runes; e.g. %s", nMR, exMR)
	}
	if !outOfDomain {
		if got := rs.Len(); got != nCov {
			add("coverage-len", "Runes.Len() = %d but %d runes of 0…0x10FFFF are contained", got, nCov)
		}
	}
	// script set: strictly increasing, and exactly the scripts of the runes of the set
	for i := 1; i < len(ss); i++ {
		if ss[i] <= ss[i-1] {
			add("scripts-order", "script set not strictly increasing: %v", ss)
			break
		}
	}
	have := map[language.Script]bool{}
	for _, s := range ss {
		have[s] = true
	}
	var missing, extra []string
	for s, r := range want {
		if !have[s] {
			if s == language.Unknown {
				add("scripts-missing-unknown", "the rune set contains U+%04X (no script: Unknown) but Scripts = %v lacks Unknown", r, ss)
			} else {
				missing = append(missing, fmt.Sprintf("%s (U+%04X)", s, r))
			}
		}
	}
	for _, s := range ss {
		if _, ok := want[s]; !ok {
			if s == language.Unknown {
				if !outOfDomain { // runes above 0x10FFFF have no script either
					add("scripts-extra-unknown", "Scripts contains Unknown but every rune of the set has a script; Scripts = %v", ss)
				}
			} else {
				extra = append(extra, s.String())
			}
		}
	}
	sort.Strings(missing)
	sort.Strings(extra)
	if len(missing) > 0 {
		add("scripts-missing", "the rune set has runes of scripts %v that Scripts = %v lacks", missing, ss)
	}
	if len(extra) > 0 {
		add("scripts-extra", "Scripts lists %v but the rune set has no rune of these scripts", extra)
	}
	return fs
}

// FontCase is the replayable description of one judged font.
type FontCase struct {
	Kind  string     `json:"kind"` // "corpus" | "synth"
	Font  string     `json:"font,omitempty"`
	Index int        `json:"index,omitempty"`
	Synth *SynthSpec `json:"synth,omitempty"`
}

type fontStats struct {
	cmapStats
	Accepted bool
	Reject   string
	Symbol   bool
	Paths    string
}

// judgeFont runs every law on one face of a font file.
func judgeFont(data []byte, index int) (st fontStats, fs []finding) {
	lds, err := ot.NewLoaders(bytes.NewReader(data))
	if err != nil || index >= len(lds) {
		st.Reject = "loader"
		return
	}
	ft, err := font.NewFont(lds[index])
	if err != nil {
		st.Reject = "NewFont: " + err.Error()
		if len(st.Reject) > 70 {
			st.Reject = st.Reject[:70]
		}
		return
	}
	st.Accepted = true
	sc := scratchPool.Get().(*scratch)
	defer scratchPool.Put(sc)
	rawCmap, _ := lds[index].RawTable(ot.MustNewTag("cmap"))
	st.cmapStats, fs = lawsCmap(ft.Cmap, sc, rawCmap)
	if st.Inconcl != "" {
		return
	}
	st.Symbol = innerCmap(ft.Cmap) != nil
	ood := st.OutOfDomain > 0
	if rr, _ := rangerOf(ft.Cmap); rr != nil {
		for _, ra := range rr.RuneRanges(nil) {
			if ra[1] >= nRunes || ra[0] < 0 {
				ood = true
			}
		}
	}

	// path 1: the cmap of the loaded face
	rs1, ss1 := fontscan.VerifCoveragesFromCmap(ft.Cmap)
	fs = append(fs, lawsCoverage("VerifCoveragesFromCmap(face.Cmap)", st.cmapStats, rs1, ss1, ood, sc)...)
	// path 1b: AddFace's footprint
	fp3 := fontscan.VerifFootprintFromFont(ft, fontscan.Location{File: "x"}, ft.Describe())
	if !bytes.Equal(fp3.Runes.VerifSerialize(), rs1.VerifSerialize()) || !bytes.Equal(fp3.Scripts.VerifSerialize(), ss1.VerifSerialize()) {
		fs = append(fs, lawsCoverage("VerifFootprintFromFont", st.cmapStats, fp3.Runes, fp3.Scripts, ood, sc)...)
	}
	// path 2: what the scan / AddFont really does, from the same bytes
	lds2, _ := ot.NewLoaders(bytes.NewReader(data))
	fp2, err := fontscan.VerifFootprintFromLoader(lds2[index], true)
	if err != nil {
		fs = append(fs, finding{Key: "C11/loader-path-rejects", Kind: "loader-path-rejects", Msg: st.Class + ": " + "font.NewFont accepts the file but newFootprintFromLoader fails: " + err.Error()})
		return
	}
	l2 := lawsCoverage("VerifFootprintFromLoader", st.cmapStats, fp2.Runes, fp2.Scripts, ood, sc)
	fs = append(fs, l2...)
	// the two paths must record the same set (sc.cov holds path 2 now)
	same := true
	ex := -1
	for r := 0; r < nRunes; r++ {
		if rs1.Contains(rune(r)) != sc.cov.has(r) {
			same = false
			ex = r
			break
		}
	}
	st.Paths = "equal"
	if !same {
		st.Paths = "differ"
		fs = append(fs, finding{Key: st.key("coverage-paths-differ"), Kind: "coverage-paths-differ",
			Msg: "[coverage-paths-differ] " + st.Class + ", Iter order " + st.Order + ": " + fmt.Sprintf("coverage from the face's cmap and from newFootprintFromLoader differ at U+%04X (cmap path: %v, loader path: %v)", ex, rs1.Contains(rune(ex)), sc.cov.has(ex))})
	}
	return st, dedup(fs)
}

// dedup keeps the first finding per key and law (the two coverage paths usually fail alike).
func dedup(fs []finding) []finding {
	seen := map[string]bool{}
	out := fs[:0]
	for _, f := range fs {
		if !seen[f.Key+f.Kind] {
			seen[f.Key+f.Kind] = true
			out = append(out, f)
		}
	}
	return out
}

// format4ArraySegments reads the format 4 subtables of a raw 'cmap' table on
// its own and reports whether a rune lies in a segment that goes through the
// glyph index array (idRangeOffset != 0). Only used to tell two defect classes
// apart in the key of a finding.
func format4ArraySegments(raw []byte) func(r rune) bool {
	type seg struct{ lo, hi uint16 }
	var segs []seg
	u16 := func(off int) int {
		if off < 0 || off+2 > len(raw) {
			return -1
		}
		return int(raw[off])<<8 | int(raw[off+1])
	}
	n := u16(2)
	for i := 0; i < n; i++ {
		rec := 4 + 8*i
		if rec+8 > len(raw) {
			break
		}
		off := u16(rec+4)<<16 | u16(rec+6)
		if u16(off) != 4 {
			continue
		}
		segCount := u16(off+6) / 2
		for k := 0; k < segCount; k++ {
			end := u16(off + 14 + 2*k)
			start := u16(off + 16 + 2*segCount + 2*k)
			iro := u16(off + 16 + 6*segCount + 2*k)
			if end < 0 || start < 0 || iro < 0 {
				break
			}
			if iro != 0 && start != 0xFFFF && start <= end {
				segs = append(segs, seg{uint16(start), uint16(end)})
			}
		}
	}
	return func(r rune) bool {
		for _, s := range segs {
			if r >= rune(s.lo) && r <= rune(s.hi) {
				return true
			}
		}
		return false
	}
}
