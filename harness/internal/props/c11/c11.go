// Package c11 monitors "Character map lookup, enumeration and coverage agree".
//
// Events: for every cmap the library accepts (corpus fonts and synthetic sfnt
// files assembled around generated raw 'cmap' / 'OS/2' tables): Lookup over all
// 0x110000 code points, the pairs yielded by Iter, the ranges of RuneRanges,
// the rune / script coverage recorded by fontscan through both hook paths
// (face cmap → newCoveragesFromCmap, bytes → newFootprintFromLoader) and
// face.NominalGlyph of the face loaded from the same bytes; for RuneSet, every
// observable after every operation of a generated history.
// Oracles: set equality over the whole domain; map[rune]bool for RuneSet;
// language.LookupScript per rune for the script set.
package c11

import (
	"fmt"
	"sort"
	"strings"

	"verifharness/internal/corpus"
	"verifharness/internal/gen"
	"verifharness/internal/vrun"
)

// Witness is what a replay file holds.
type Witness struct {
	Font *FontCase `json:"font,omitempty"`
	Set  *SetCase  `json:"set,omitempty"`
}

type monitor struct {
	run  *vrun.Run
	base *baseFont
}

func (m *monitor) report(fs []finding, w Witness) {
	for _, f := range fs {
		if f.Kind != "" && !strings.HasSuffix(f.Key, "/"+f.Kind) {
			m.run.Cover("finding " + f.Key + " [" + f.Kind + "]")
		} else {
			m.run.Cover("finding " + f.Key)
		}
		m.run.Violation(f.Key, f.Msg, w)
	}
}

func (m *monitor) judgeFontCase(fc FontCase) {
	run := m.run
	run.Eval(1)
	var data []byte
	var hash uint64
	switch fc.Kind {
	case "corpus":
		f := corpus.ByID(fc.Font)
		if f == nil {
			run.Inconclusive("corpus font missing")
			return
		}
		data = f.Bytes()
		hash = vrun.Hash64("corpus", fc.Font, fc.Index)
	case "synth":
		b := m.base
		if b == nil || b.id != fc.Synth.Base {
			var err error
			if b, err = loadBase(fc.Synth.Base); err != nil {
				run.Inconclusive("base font missing")
				return
			}
		}
		data = assemble(b, *fc.Synth)
		hash = vrun.Hash64("synth", fc.Synth.Cmap, fc.Synth.OS2, fc.Synth.Mode)
	}
	var st fontStats
	var fs []finding
	if pv, where := vrun.Catch(func() { st, fs = judgeFont(data, fc.Index) }); pv != nil {
		run.Cover("finding C11/panic")
		run.Violation("C11/panic/"+vrun.TopFrame(where), fmt.Sprintf("panic: %v at %s", pv, where), Witness{Font: &fc})
		return
	}
	pfx := fc.Kind
	if !st.Accepted {
		run.Cover(pfx + " rejected by the library: " + strings.SplitN(st.Reject, ":", 2)[0])
		return
	}
	if st.Inconcl != "" {
		run.Inconclusive(st.Inconcl)
		return
	}
	run.Cover(pfx + " cmap=" + st.Class)
	run.Cover(pfx + " Iter order " + st.Order)
	if st.Ranger != "" {
		run.Cover(pfx + " RuneRanges " + st.Ranger + " on " + st.Class)
	}
	if st.OutOfDomain > 0 {
		run.Cover(pfx + " cmap with runes above U+10FFFF (those pairs are outside the judged domain)")
	}
	if st.Mapped == 0 {
		run.Cover(pfx + " empty cmap")
	}
	run.Cover(pfx + " coverage paths " + st.Paths)
	if fc.Kind == "synth" {
		for _, tok := range strings.FieldsFunc(fc.Synth.Class, func(r rune) bool { return r == '/' || r == '+' }) {
			run.Cover("synth feature " + tok)
		}
		run.Cover("synth os2=" + fc.Synth.Mode)
		if st.Symbol {
			run.Cover("synth remapper " + st.Class + " os2=" + fc.Synth.Mode)
		}
	}
	if st.Mapped > 0 {
		run.Nontrivial(hash)
	}
	if len(fs) == 0 && run.WantSample() && st.Mapped > 0 && (fc.Kind == "corpus" || st.Symbol || hash%50 == 0) {
		s := map[string]any{"kind": fc.Kind, "cmap": st.Class, "mapped_runes": st.Mapped, "iter_pairs": st.Yielded, "ranges": st.NRanges, "verdict": "all laws held"}
		if fc.Kind == "corpus" {
			s["font"] = fmt.Sprintf("%s#%d", fc.Font, fc.Index)
		} else {
			s["class"] = fc.Synth.Class
			s["os2"] = fc.Synth.Mode
		}
		run.Sample(s)
	}
	m.report(fs, Witness{Font: &fc})
}

func (m *monitor) judgeSetCase(c SetCase) {
	run := m.run
	run.Eval(1)
	var st setStats
	var fs []finding
	if pv, where := vrun.Catch(func() { st, fs = judgeSet(c) }); pv != nil {
		run.Violation("C11/runeset-panic/"+vrun.TopFrame(where), fmt.Sprintf("panic: %v at %s", pv, where), Witness{Set: &c})
		return
	}
	for k, n := range st.ops {
		run.CoverN("runeset op "+k, int64(n))
	}
	run.CoverN("runeset includes → true expected", int64(st.inclTrue))
	run.CoverN("runeset includes → false expected", int64(st.inclFalse))
	run.CoverN("runeset includes with an emptied page in b", int64(st.emptyPageB))
	if st.maxLen >= 2 {
		h := uint64(0)
		for _, op := range c.Ops {
			h = vrun.Hash64(h, op.K, op.R, op.BAdd, op.BDel)
		}
		run.Nontrivial(h)
	}
	m.report(fs, Witness{Set: &c})
}

// Main is the entry point of the C11 monitor.
func Main() {
	run := vrun.Start("C11")
	m := &monitor{run: run}
	rule := "per accepted cmap: Lookup on all 0x110000 code points vs Iter pairs (no duplicate, same pairs) vs RuneRanges union; coverage RuneSet/ScriptSet from " +
		"VerifCoveragesFromCmap, VerifFootprintFromFont and VerifFootprintFromLoader vs NominalGlyph of the face loaded from the same bytes, script set vs LookupScript of every covered rune, Len; " +
		"RuneSet histories vs map[rune]bool with the state compared after every op. " +
		"non-trivial = accepted cmap mapping >= 1 rune (distinct by font id / by hash of the generated cmap+OS/2 bytes), or RuneSet history reaching >= 2 runes (distinct by hash of the ops)"
	assume := []string{
		"rune domain 0…0x10FFFF (DESIGN §7); pairs enumerated above it are counted, not judged",
		"synthetic cmaps are judged only when tables.ParseCmap + font.ProcessCmap (through font.NewFont) accept them",
		"inverted format 12/13 groups (end < start) are not generated: their enumeration is a termination question (C09)",
		"language.LookupScript is the definition of a rune's script",
	}

	if run.Replay != "" {
		var w Witness
		if _, err := vrun.ReadReplay(run.Replay, &w); err != nil {
			fmt.Println("replay:", err)
			run.Finish(vrun.Level{Level: "exploration", Rule: "replay (unreadable)"})
		}
		if w.Font != nil {
			m.judgeFontCase(*w.Font)
		}
		if w.Set != nil {
			m.judgeSetCase(*w.Set)
		}
		run.Finish(vrun.Level{Level: "exploration", Rule: "replay"})
	}

	scripts() // build the per rune script table once

	// ---- (1) hand written boundary cases, sequentially and first: they become
	// the (minimal, deterministic) witnesses of the defect classes they reach
	base, err := loadBase("")
	if err != nil {
		run.Inconclusive("no base font for synthetic files: " + err.Error())
	} else {
		m.base = base
		run.Extra("synthetic_base_font", base.id)
		fixed := fixedSpecs(base)
		run.Extra("synthetic_fixed", len(fixed))
		for i := range fixed {
			m.judgeFontCase(FontCase{Kind: "synth", Synth: &fixed[i]})
		}
	}
	for _, c := range fixedSetCases() {
		m.judgeSetCase(c)
	}
	m.collectionCheck()

	// ---- (2) corpus fonts
	faces := corpus.Faces()
	var special, ordinary []corpus.FaceRef
	for _, fr := range faces {
		switch typeClass(fr.Font().Cmap) {
		case "font.cmap4", "font.cmap12":
			ordinary = append(ordinary, fr)
		default:
			special = append(special, fr) // formats 0/6/10/13, symbol and legacy Arabic wrappers: always judged
		}
	}
	gen.Shuffle(gen.New(run.Seed, "C11/corpus", 0), ordinary)
	nOrd := len(ordinary)
	if !run.Thorough() {
		nOrd = 80 - len(special)
		if nOrd < 40 {
			nOrd = 40
		}
		if nOrd > len(ordinary) {
			nOrd = len(ordinary)
		}
	}
	chosen := append(append([]corpus.FaceRef{}, special...), ordinary[:nOrd]...)
	sort.Slice(chosen, func(i, j int) bool { return chosen[i].String() < chosen[j].String() })
	run.Extra("corpus_faces_available", len(faces))
	run.Extra("corpus_faces_judged", len(chosen))
	vrun.ParallelChunks(len(chosen), 1, func(lo, hi, _ int) {
		for i := lo; i < hi; i++ {
			m.judgeFontCase(FontCase{Kind: "corpus", Font: chosen[i].File.ID, Index: chosen[i].Index})
		}
	})

	// ---- (3) generated cmaps embedded in sfnt files
	if base != nil {
		nSynth := run.Pick(2000, 50000)
		run.Extra("synthetic_generated", nSynth)
		vrun.ParallelChunks(nSynth, 4, func(lo, hi, _ int) {
			for i := lo; i < hi; i++ {
				sp := genSpec(run.Seed, i, base)
				m.judgeFontCase(FontCase{Kind: "synth", Synth: &sp})
			}
		})
	}

	// ---- (4) RuneSet histories
	nSets := run.Pick(20000, 400000)
	run.Extra("runeset_histories", nSets)
	vrun.ParallelFor(nSets, func(i int) {
		m.judgeSetCase(genSetCase(run.Seed, i, 60))
	})

	run.Finish(vrun.Level{Level: "exploration", Rule: rule, Assumptions: assume, Floor: run.Pick(10000, 200000)})
}
