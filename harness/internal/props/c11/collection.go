package c11

// A collection holding an unusable member, scanned from disk: every footprint the
// scan records must point (Location.File, Location.Index) at a face whose character
// map is the recorded coverage. Corpus collections only have usable members, so the
// harness assembles its own .ttc: [member without character map, Roboto, Amiri].

import (
	"bytes"
	"encoding/binary"
	"fmt"
	"os"
	"path/filepath"

	"github.com/go-text/typesetting/font"
	ot "github.com/go-text/typesetting/font/opentype"
	"github.com/go-text/typesetting/fontscan"

	"verifharness/internal/corpus"
	"verifharness/internal/vrun"
)

// buildTTC concatenates sfnt files into one collection (each member keeps its own
// table directory, offsets shifted to the position of its copy).
func buildTTC(members [][]byte) []byte {
	out := make([]byte, 12+4*len(members))
	copy(out, "ttcf")
	binary.BigEndian.PutUint32(out[4:], 0x00010000)
	binary.BigEndian.PutUint32(out[8:], uint32(len(members)))
	for i, m := range members {
		for len(out)%4 != 0 {
			out = append(out, 0)
		}
		pos := len(out)
		binary.BigEndian.PutUint32(out[12+4*i:], uint32(pos))
		out = append(out, m...)
		n := int(binary.BigEndian.Uint16(m[4:]))
		for t := 0; t < n; t++ {
			e := pos + 12 + 16*t
			off := binary.BigEndian.Uint32(out[e+8:])
			binary.BigEndian.PutUint32(out[e+8:], off+uint32(pos))
		}
	}
	return out
}

// withoutCmap renames the 'cmap' directory entry: the loader accepts the member, no
// font and no footprint can be built from it.
func withoutCmap(b []byte) []byte {
	c := append([]byte(nil), b...)
	n := int(binary.BigEndian.Uint16(c[4:]))
	for t := 0; t < n; t++ {
		e := 12 + 16*t
		if string(c[e:e+4]) == "cmap" {
			copy(c[e:], "cmaq")
		}
	}
	return c
}

type nopLog struct{}

func (nopLog) Printf(string, ...interface{}) {}

func (m *monitor) collectionCheck() {
	run := m.run
	a, b := corpus.ByID("repo/Roboto-Regular.ttf"), corpus.ByID("repo/Amiri-Regular.ttf")
	if a == nil || b == nil {
		run.Inconclusive("collection check: Roboto / Amiri not in the corpus")
		return
	}
	orders := [][][]byte{
		{withoutCmap(a.Bytes()), a.Bytes(), b.Bytes()},
		{a.Bytes(), withoutCmap(b.Bytes()), b.Bytes()},
		{a.Bytes(), b.Bytes(), withoutCmap(a.Bytes())},
	}
	for oi, members := range orders {
		os.MkdirAll(vrun.VerifDir()+"/work", 0o755)
		dir, err := os.MkdirTemp(vrun.VerifDir()+"/work", "c11-ttc-")
		if err != nil {
			run.Inconclusive("collection check: " + err.Error())
			return
		}
		path := filepath.Join(dir, "mixed.ttc")
		data := buildTTC(members)
		os.WriteFile(path, data, 0o644)
		func() {
			defer os.RemoveAll(dir)
			var idx fontscan.VerifIndex
			var serr error
			if pv, where := vrun.Catch(func() { idx, serr = fontscan.VerifScan(nopLog{}, fontscan.VerifIndex{}, dir) }); pv != nil {
				run.Violation("C11/collection/scan-panics", fmt.Sprintf("scanning a collection with an unusable member panicked: %v at %s", pv, where), Witness{})
				return
			}
			if serr != nil {
				run.Inconclusive("collection check: scan error " + serr.Error())
				return
			}
			fps := idx.Flatten()
			run.Eval(1)
			run.Cover(fmt.Sprintf("collection-with-unusable-member/order-%d/footprints=%d", oi, len(fps)))
			if len(fps) != 2 {
				run.Violation("C11/collection/usable-members-lost", fmt.Sprintf("collection order %d: the scan records %d footprints, the file has 2 usable members", oi, len(fps)), Witness{})
				return
			}
			lds, err := ot.NewLoaders(bytes.NewReader(data))
			if err != nil {
				run.Inconclusive("collection check: harness collection not loadable: " + err.Error())
				return
			}
			for _, fp := range fps {
				k := int(fp.Location.Index)
				if fp.Location.File != path || k >= len(lds) {
					run.Violation("C11/collection/location", fmt.Sprintf("collection order %d: footprint %q has location %q index %d", oi, fp.Family, fp.Location.File, k), Witness{})
					continue
				}
				ft, err := font.NewFont(lds[k])
				if err != nil {
					run.Violation("C11/collection/location", fmt.Sprintf("collection order %d: footprint %q points at member %d, from which no font can be built: %v", oi, fp.Family, k, err), Witness{})
					continue
				}
				bad := -1
				n := 0
				for r := 0; r < nRunes; r++ {
					_, has := ft.NominalGlyph(rune(r))
					if has {
						n++
					}
					if has != fp.Runes.Contains(rune(r)) && bad < 0 {
						bad = r
					}
				}
				run.Nontrivial(vrun.Hash64("collection", oi, k))
				if bad >= 0 {
					run.Violation("C11/collection/coverage-of-another-member", fmt.Sprintf("collection order %d: footprint %q (location index %d) records a coverage that is not the character map of the face at that location (first difference at U+%04X; the face maps %d runes, the footprint records %d)",
						oi, fp.Family, k, bad, n, fp.Runes.Len()), Witness{})
				}
			}
		}()
	}
}
