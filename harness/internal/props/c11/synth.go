package c11

import (
	"bytes"
	"encoding/binary"
	"fmt"
	"sort"

	ot "github.com/go-text/typesetting/font/opentype"

	"verifharness/internal/corpus"
	"verifharness/internal/gen"
)

// ---------------------------------------------------------------------------
// raw cmap table builders (independent of the library's table types)

type encRec struct {
	plat, enc uint16
	sub       []byte
}

func be16(b []byte, v uint16) []byte { return append(b, byte(v>>8), byte(v)) }
func be32(b []byte, v uint32) []byte { return append(b, byte(v>>24), byte(v>>16), byte(v>>8), byte(v)) }

// buildCmap assembles a 'cmap' table from encoding records (kept in the given order).
func buildCmap(recs []encRec) []byte {
	out := be16(nil, 0)
	out = be16(out, uint16(len(recs)))
	off := uint32(4 + 8*len(recs))
	for _, r := range recs {
		out = be16(out, r.plat)
		out = be16(out, r.enc)
		out = be32(out, off)
		off += uint32(len(r.sub))
	}
	for _, r := range recs {
		out = append(out, r.sub...)
	}
	return out
}

func subFormat0(gids [256]byte) []byte {
	out := be16(nil, 0)
	out = be16(out, 262)
	out = be16(out, 0)
	return append(out, gids[:]...)
}

type seg4 struct {
	Start, End, Delta uint16
	// ArrIndex >= 0: the segment reads glyph ids from glyphArray[ArrIndex:];
	// -1: delta only (idRangeOffset 0); -2: idRangeOffset written as 0xFFFF
	ArrIndex int
}

func subFormat4(segs []seg4, glyphArray []uint16) []byte {
	n := len(segs)
	length := 16 + 8*n + 2*len(glyphArray)
	out := be16(nil, 4)
	out = be16(out, uint16(length)) // may wrap for huge arrays; the library ignores it
	out = be16(out, 0)
	out = be16(out, uint16(2*n))
	sr, es := 2, 0
	for sr*2 <= 2*n {
		sr *= 2
		es++
	}
	out = be16(out, uint16(sr))
	out = be16(out, uint16(es))
	out = be16(out, uint16(2*n-sr))
	for _, s := range segs {
		out = be16(out, s.End)
	}
	out = be16(out, 0)
	for _, s := range segs {
		out = be16(out, s.Start)
	}
	for _, s := range segs {
		out = be16(out, s.Delta)
	}
	for i, s := range segs {
		switch {
		case s.ArrIndex == -1:
			out = be16(out, 0)
		case s.ArrIndex == -2:
			out = be16(out, 0xFFFF)
		default:
			out = be16(out, uint16(2*(n-i+s.ArrIndex)))
		}
	}
	for _, g := range glyphArray {
		out = be16(out, g)
	}
	return out
}

func subFormat6(first uint16, gids []uint16) []byte {
	out := be16(nil, 6)
	out = be16(out, uint16(10+2*len(gids)))
	out = be16(out, 0)
	out = be16(out, first)
	out = be16(out, uint16(len(gids)))
	for _, g := range gids {
		out = be16(out, g)
	}
	return out
}

func subFormat10(start uint32, gids []uint16) []byte {
	out := be16(nil, 10)
	out = be16(out, 0)
	out = be32(out, uint32(20+2*len(gids)))
	out = be32(out, 0)
	out = be32(out, start)
	out = be32(out, uint32(len(gids)))
	for _, g := range gids {
		out = be16(out, g)
	}
	return out
}

type group struct{ Start, End, Glyph uint32 }

func subFormat12or13(format uint16, groups []group) []byte {
	out := be16(nil, format)
	out = be16(out, 0)
	out = be32(out, uint32(16+12*len(groups)))
	out = be32(out, 0)
	out = be32(out, uint32(len(groups)))
	for _, g := range groups {
		out = be32(out, g.Start)
		out = be32(out, g.End)
		out = be32(out, g.Glyph)
	}
	return out
}

// a minimal format 14 subtable: one selector (U+FE00) with one default range
// and one non default mapping.
func subFormat14() []byte {
	out := be16(nil, 14)
	out = be32(out, 0) // length, patched below
	out = be32(out, 1)
	out = append(out, 0x00, 0xFE, 0x00)
	out = be32(out, 21) // default UVS offset
	out = be32(out, 29) // non default UVS offset
	// default UVS at 21
	out = be32(out, 1)
	out = append(out, 0x00, 0x00, 0x41, 2)
	// non default at 29
	out = be32(out, 1)
	out = append(out, 0x00, 0x00, 0x61)
	out = be16(out, 3)
	binary.BigEndian.PutUint32(out[2:], uint32(len(out)))
	return out
}

func subFormat2() []byte {
	out := be16(nil, 2)
	out = be16(out, 6+512)
	out = be16(out, 0)
	return append(out, make([]byte, 512)...)
}

// ---------------------------------------------------------------------------
// sfnt assembly

// SynthSpec is the self-contained description of one synthetic font.
type SynthSpec struct {
	Base  string `json:"base"` // corpus font supplying every other table
	Cmap  []byte `json:"cmap"` // raw 'cmap' table
	OS2   []byte `json:"os2"`  // raw 'OS/2' table; nil with OS2Mode "absent"
	Mode  string `json:"os2_mode"`
	Class string `json:"class"` // what the generator built (evidence only)
}

const preferredBase = "hb/fonts/AdobeBlank2.ttf"

type baseFont struct {
	id     string
	tables []ot.Table // sorted by tag, without cmap and OS/2
	os2    []byte
}

var theBase *baseFont

// loadBase picks the donor font: the preferred one if usable, otherwise the
// smallest corpus .ttf offering the required tables.
func loadBase(id string) (*baseFont, error) {
	try := func(f *corpus.File) *baseFont {
		ld, err := ot.NewLoader(bytes.NewReader(f.Bytes()))
		if err != nil {
			return nil
		}
		b := &baseFont{id: f.ID}
		need := map[string]bool{"head": false, "maxp": false, "name": false, "OS/2": false}
		for _, tg := range ld.Tables() {
			raw, err := ld.RawTable(tg)
			if err != nil {
				return nil
			}
			name := tg.String()
			if _, ok := need[name]; ok {
				need[name] = true
			}
			switch name {
			case "cmap":
				continue
			case "OS/2":
				b.os2 = append([]byte(nil), raw...)
				continue
			}
			b.tables = append(b.tables, ot.Table{Tag: tg, Content: append([]byte(nil), raw...)})
		}
		for _, ok := range need {
			if !ok {
				return nil
			}
		}
		if len(b.os2) < 78 {
			return nil
		}
		sort.Slice(b.tables, func(i, j int) bool { return b.tables[i].Tag < b.tables[j].Tag })
		return b
	}
	if id != "" {
		if f := corpus.ByID(id); f != nil {
			if b := try(f); b != nil {
				return b, nil
			}
		}
		return nil, fmt.Errorf("base font %q unusable", id)
	}
	if f := corpus.ByID(preferredBase); f != nil {
		if b := try(f); b != nil {
			return b, nil
		}
	}
	var best *baseFont
	bestLen := 0
	for _, f := range corpus.Files() {
		if len(f.ID) < 4 || f.ID[len(f.ID)-4:] != ".ttf" {
			continue
		}
		if best != nil && len(f.Bytes()) >= bestLen {
			continue
		}
		if b := try(f); b != nil {
			best, bestLen = b, len(f.Bytes())
		}
	}
	if best == nil {
		return nil, fmt.Errorf("no usable base font in the corpus")
	}
	return best, nil
}

// assemble writes the sfnt file of a spec with opentype.WriteTTF.
func assemble(b *baseFont, sp SynthSpec) []byte {
	tabs := make([]ot.Table, 0, len(b.tables)+2)
	tabs = append(tabs, b.tables...)
	tabs = append(tabs, ot.Table{Tag: ot.MustNewTag("cmap"), Content: sp.Cmap})
	if sp.OS2 != nil {
		tabs = append(tabs, ot.Table{Tag: ot.MustNewTag("OS/2"), Content: sp.OS2})
	}
	sort.Slice(tabs, func(i, j int) bool { return tabs[i].Tag < tabs[j].Tag })
	return ot.WriteTTF(tabs)
}

// ---------------------------------------------------------------------------
// generators

var fontPages = []uint16{0x0000, 0xB100, 0xB200, 0xB300, 0xB400, 0xBA00, 0xBB00, 0xDE00}

// genOS2 returns the OS/2 table and a description of the variant.
func genOS2(r *gen.RNG, b *baseFont, symbol bool) ([]byte, string) {
	k := r.Intn(10)
	if !symbol && k > 2 {
		k = 0 // non symbol cmaps mostly keep the donor table
	}
	patch := func(version, fsSel uint16, cut int) []byte {
		t := append([]byte(nil), b.os2...)
		binary.BigEndian.PutUint16(t[0:], version)
		binary.BigEndian.PutUint16(t[62:], fsSel)
		if cut > 0 && cut < len(t) {
			t = t[:cut]
		}
		return t
	}
	switch k {
	case 0:
		return append([]byte(nil), b.os2...), "donor"
	case 1:
		return nil, "absent"
	case 2:
		return patch(0, 0xB200|0x40, 77), "truncated-77"
	case 3, 4, 5, 6, 7:
		pg := gen.Pick(r, fontPages)
		return patch(0, pg|0x40, 78), fmt.Sprintf("v0-page-%#04x", pg)
	case 8:
		pg := gen.Pick(r, fontPages)
		return patch(uint16(1+r.Intn(5)), pg|0x40, 0), fmt.Sprintf("v>=1-fsSelection-%#04x", pg)
	default:
		return patch(0, uint16(r.Intn(0x10000)), 78), "v0-random-fsSelection"
	}
}

// interesting 16 bit boundaries: bit 31/32 and page 255/256 edges of the rune
// set, script table edges, surrogates, PUA symbol and legacy Arabic areas.
var points16 = []uint16{0, 1, 0x1F, 0x20, 0x3F, 0x40, 0x41, 0x5A, 0x7E, 0x7F, 0x80, 0xFF, 0x100, 0x101, 0x17F, 0x180,
	0x2FF, 0x300, 0x36F, 0x370, 0x3FF, 0x400, 0x5FF, 0x600, 0x621, 0x65E, 0x6FF, 0x7FF, 0x800, 0x8FF, 0x900, 0xE00,
	0x1FFF, 0x2000, 0x20FF, 0x2100, 0x2FFF, 0x3000, 0x4DFF, 0x4E00, 0x9FFF, 0xA000, 0xABFF, 0xAC00, 0xD7FF, 0xD800, 0xDBFF,
	0xDC00, 0xDFFF, 0xE000, 0xEFFF, 0xF000, 0xF020, 0xF0FF, 0xF100, 0xF120, 0xF1FF, 0xF200, 0xF2FF, 0xF300, 0xF8FF, 0xF900,
	0xFDFF, 0xFE00, 0xFEFF, 0xFF00, 0xFFEF, 0xFFF0, 0xFFFC, 0xFFFD, 0xFFFE}

var points32 = []uint32{0, 0x20, 0x41, 0xFF, 0x100, 0x7FF, 0x800, 0x3000, 0xD7FF, 0xE000, 0xF000, 0xF0FF, 0xF100, 0xFFFD, 0xFFFE, 0xFFFF,
	0x10000, 0x10001, 0x100FF, 0x10100, 0x1F5FF, 0x1F600, 0x1F64F, 0x1FFFF, 0x20000, 0x2A6DF, 0x2FFFF, 0x30000, 0xE0000, 0xE01EF,
	0xEFFFF, 0xF0000, 0xFFFFD, 0xFFFFF, 0x100000, 0x10FF00, 0x10FFFD, 0x10FFFE, 0x10FFFF}

type genOpts struct {
	symbolArea bool // aim at U+F000..F2FF (+ some ASCII)
	structure  int  // 0 sorted disjoint, 1 abutting, 2 touching (end==next start), 3 overlapping, 4 unsorted
}

var structNames = []string{"disjoint", "abutting", "touching", "overlapping", "unsorted"}

// genFormat4 builds a format 4 subtable with boundary structure.
func genFormat4(r *gen.RNG, o genOpts) (sub []byte, class string) {
	n := r.Range(1, 10)
	var segs []seg4
	var arr []uint16
	cur := int(gen.Pick(r, points16))
	if o.symbolArea {
		cur = gen.Pick(r, []int{0x20, 0x41, 0xF000, 0xF020, 0xF041, 0xF100, 0xF120, 0xF141})
	}
	feat := map[string]bool{}
	for i := 0; i < n && cur <= 0xFFFE; i++ {
		length := 1 + r.Intn(40)
		switch r.Intn(8) {
		case 0:
			length = 1
		case 1:
			length = 200 + r.Intn(3000)
		case 2:
			length = 256 - cur%256 // stops at a page edge
		}
		if o.symbolArea && length > 0x100 {
			length = 0x20 + r.Intn(0xE0)
		}
		end := cur + length - 1
		if end > 0xFFFE {
			end = 0xFFFE
		}
		s := seg4{Start: uint16(cur), End: uint16(end), ArrIndex: -1}
		switch r.Intn(6) {
		case 0: // plain small glyph ids
			s.Delta = uint16(1 + r.Intn(300) - cur)
		case 1: // start maps to glyph 0
			s.Delta = uint16(-cur)
			feat["delta-to-gid0"] = true
		case 2: // wrap around inside the segment
			mid := cur + r.Intn(end-cur+1)
			s.Delta = uint16(0x10000 - mid)
			feat["delta-wrap"] = true
		default: // glyph array
			cnt := end - cur + 1
			if r.Chance(1, 3) && len(arr) > 0 {
				s.ArrIndex = r.Intn(len(arr)) // share / overlap with earlier entries
				feat["shared-array"] = true
			} else {
				s.ArrIndex = len(arr)
			}
			for len(arr) < s.ArrIndex+cnt {
				g := uint16(1 + r.Intn(500))
				switch r.Intn(8) {
				case 0, 1:
					g = 0
					feat["zero-entry"] = true
				case 2:
					g = uint16(0xFFF0 + r.Intn(16))
				}
				arr = append(arr, g)
			}
			switch r.Intn(4) {
			case 0:
				s.Delta = uint16(r.Intn(0x10000))
				feat["array+delta"] = true
			case 1:
				s.Delta = uint16(1 + r.Intn(40))
				feat["array+delta"] = true
			}
		}
		segs = append(segs, s)
		// next start
		switch o.structure {
		case 1:
			cur = end + 1
		case 2:
			if r.Bool() {
				cur = end
			} else {
				cur = end + 1 + r.Intn(50)
			}
		case 3:
			if r.Bool() && end > int(s.Start) {
				cur = int(s.Start) + r.Intn(end-int(s.Start)+1)
			} else {
				cur = end + 1 + r.Intn(50)
			}
		default:
			switch r.Intn(4) {
			case 0:
				cur = end + 1
			case 1:
				cur = end + 2 + r.Intn(30)
			case 2:
				nx := int(gen.Pick(r, points16))
				if nx <= end {
					nx = end + 2 + r.Intn(2000)
				}
				cur = nx
			default:
				cur = end + 2 + r.Intn(3000)
			}
		}
	}
	if o.structure == 4 && len(segs) >= 2 {
		i := r.Intn(len(segs) - 1)
		j := i + 1 + r.Intn(len(segs)-i-1)
		segs[i], segs[j] = segs[j], segs[i]
	}
	// final segment
	last := r.Intn(8)
	switch last {
	case 0: // none
		feat["no-sentinel"] = true
	case 1: // idRangeOffset 0xFFFF, as some real fonts do
		segs = append(segs, seg4{Start: 0xFFFF, End: 0xFFFF, Delta: 1, ArrIndex: -2})
		feat["sentinel-offset-ffff"] = true
	case 2: // a real segment ending on 0xFFFF
		st := 0xFFFF - r.Intn(20)
		if len(segs) > 0 && int(segs[len(segs)-1].End) >= st && o.structure < 3 {
			st = 0xFFFF
		}
		segs = append(segs, seg4{Start: uint16(st), End: 0xFFFF, Delta: uint16(r.Intn(0x10000)), ArrIndex: -1})
		feat["segment-to-ffff"] = true
	default:
		segs = append(segs, seg4{Start: 0xFFFF, End: 0xFFFF, Delta: 1, ArrIndex: -1})
	}
	// glyph array slack / shortage
	switch r.Intn(12) {
	case 0:
		if len(arr) > 0 {
			arr = arr[:len(arr)-1]
			feat["short-array"] = true
		}
	case 1, 2:
		arr = append(arr, 7, 0, 9)
	}
	class = "f4/" + structNames[o.structure]
	keys := make([]string, 0, len(feat))
	for k := range feat {
		keys = append(keys, k)
	}
	sort.Strings(keys)
	for _, k := range keys {
		class += "+" + k
	}
	return subFormat4(segs, arr), class
}

// genGroups builds format 12 / 13 groups.
func genGroups(r *gen.RNG, o genOpts) (groups []group, class string) {
	n := r.Range(1, 10)
	if r.Chance(1, 25) {
		n = 0
	}
	cur := gen.Pick(r, points32)
	if o.symbolArea {
		cur = gen.Pick(r, []uint32{0x20, 0xF000, 0xF020, 0xF100, 0xF120})
	}
	feat := map[string]bool{}
	limit := uint32(0x10FFFF)
	beyond := !o.symbolArea && r.Chance(1, 10)
	if beyond {
		limit = 0x1100FF
	}
	for i := 0; i < n && cur <= limit; i++ {
		length := uint32(1 + r.Intn(40))
		switch r.Intn(8) {
		case 0:
			length = 1
		case 1:
			length = uint32(200 + r.Intn(20000))
		case 2:
			length = 256 - cur%256
		case 3:
			length = 32 - cur%32
		}
		if o.symbolArea && length > 0x100 {
			length = 0x20 + uint32(r.Intn(0xE0))
		}
		end := cur + length - 1
		if end > limit {
			end = limit
		}
		if end > 0x10FFFF {
			feat["beyond-10ffff"] = true
		}
		g := group{Start: cur, End: end, Glyph: uint32(r.Intn(2000))}
		if r.Chance(1, 6) {
			g.Glyph = 0
			feat["glyph0"] = true
		}
		if r.Chance(1, 10) {
			g.Glyph = 0xFFF0
			feat["gid>16bit"] = true
		}
		groups = append(groups, g)
		switch o.structure {
		case 1:
			cur = end + 1
		case 2:
			if r.Bool() {
				cur = end
			} else {
				cur = end + 1 + uint32(r.Intn(50))
			}
		case 3:
			if r.Bool() && end > g.Start {
				cur = g.Start + uint32(r.Intn(int(end-g.Start)+1))
			} else {
				cur = end + 1 + uint32(r.Intn(50))
			}
		default:
			switch r.Intn(4) {
			case 0:
				cur = end + 1
			case 1:
				cur = end + 2 + uint32(r.Intn(30))
			case 2:
				nx := gen.Pick(r, points32)
				if nx <= end {
					nx = end + 2 + uint32(r.Intn(5000))
				}
				cur = nx
			default:
				cur = end + 2 + uint32(r.Intn(70000))
			}
		}
	}
	if o.structure == 4 && len(groups) >= 2 {
		i := r.Intn(len(groups) - 1)
		j := i + 1 + r.Intn(len(groups)-i-1)
		groups[i], groups[j] = groups[j], groups[i]
	}
	class = structNames[o.structure]
	keys := make([]string, 0, len(feat))
	for k := range feat {
		keys = append(keys, k)
	}
	sort.Strings(keys)
	for _, k := range keys {
		class += "+" + k
	}
	return groups, class
}

func genGids(r *gen.RNG, n int) []uint16 {
	out := make([]uint16, n)
	for i := range out {
		out[i] = uint16(1 + r.Intn(600))
		if r.Chance(1, 5) {
			out[i] = 0
		}
	}
	return out
}

// genSubtable builds one subtable of the requested format.
func genSubtable(r *gen.RNG, format int, o genOpts) ([]byte, string) {
	switch format {
	case 0:
		var g [256]byte
		for i := range g {
			if r.Chance(2, 3) {
				g[i] = byte(r.Intn(256))
			}
		}
		return subFormat0(g), "f0"
	case 4:
		return genFormat4(r, o)
	case 6:
		first := gen.Pick(r, points16)
		if o.symbolArea {
			first = gen.Pick(r, []uint16{0x20, 0xF000, 0xF020, 0xF100, 0xF120})
		}
		n := r.Intn(300)
		cl := "f6"
		if r.Chance(1, 8) {
			n = 0
			cl += "+empty"
		}
		if int(first)+n > 0x10000 {
			cl += "+past-ffff"
		}
		return subFormat6(first, genGids(r, n)), cl
	case 10:
		start := gen.Pick(r, points32)
		if o.symbolArea {
			start = gen.Pick(r, []uint32{0x20, 0xF000, 0xF020, 0xF100, 0xF120})
		}
		n := r.Intn(300)
		cl := "f10"
		if r.Chance(1, 8) {
			n = 0
			cl += "+empty"
		}
		if int(start)+n > 0x110000 {
			cl += "+beyond-10ffff"
		}
		return subFormat10(start, genGids(r, n)), cl
	case 12, 13:
		gs, cl := genGroups(r, o)
		return subFormat12or13(uint16(format), gs), fmt.Sprintf("f%d/%s", format, cl)
	}
	panic("format")
}

var synthFormats = []int{0, 4, 4, 4, 4, 6, 10, 12, 12, 12, 13}

// encoding ids under which the library looks for a Unicode subtable
var unicodeIDs = [][2]uint16{{3, 10}, {0, 6}, {0, 4}, {3, 1}, {0, 3}, {0, 2}, {0, 1}, {0, 0}, {1, 0}}

// genSpec is a pure function of (seed, i).
func genSpec(seed int64, i int, b *baseFont) SynthSpec {
	r := gen.New(seed, "C11/synth", i)
	sp := SynthSpec{Base: b.id}
	symbol := i%3 == 0 // one third symbol / legacy Arabic encodings
	o := genOpts{symbolArea: symbol}
	switch r.Intn(10) {
	case 0, 1:
		o.structure = 1
	case 2, 3:
		o.structure = 2
	case 4:
		o.structure = 3
	case 5:
		o.structure = 4
	}
	format := gen.Pick(r, synthFormats)
	if symbol && r.Chance(2, 3) {
		format = 4
	}
	sub, class := genSubtable(r, format, o)
	var recs []encRec
	if symbol {
		recs = append(recs, encRec{3, 0, sub})
		class = "symbol/" + class
		if r.Chance(1, 4) { // a Unicode subtable as well: symbol must still win in both paths
			s2, _ := genSubtable(r, gen.Pick(r, []int{4, 12}), genOpts{})
			recs = append(recs, encRec{3, 1, s2})
			class += "+unicode-record"
		}
	} else {
		id := gen.Pick(r, unicodeIDs)
		recs = append(recs, encRec{id[0], id[1], sub})
		if r.Chance(1, 4) {
			id2 := gen.Pick(r, unicodeIDs)
			if id2 != id {
				s2, _ := genSubtable(r, gen.Pick(r, synthFormats), genOpts{})
				recs = append(recs, encRec{id2[0], id2[1], s2})
				class += "+second-record"
			}
		}
	}
	if r.Chance(1, 8) {
		recs = append(recs, encRec{0, 5, subFormat14()})
		class += "+f14"
	}
	if r.Chance(1, 12) {
		recs = append(recs, encRec{1, 1, subFormat2()})
		class += "+f2"
	}
	sort.SliceStable(recs, func(a, b int) bool {
		if recs[a].plat != recs[b].plat {
			return recs[a].plat < recs[b].plat
		}
		return recs[a].enc < recs[b].enc
	})
	sp.Cmap = buildCmap(recs)
	sp.OS2, sp.Mode = genOS2(r, b, symbol)
	sp.Class = class
	return sp
}

// dl is the idDelta mapping start to glyph (mod 65536).
func dl(glyph, start int) uint16 { return uint16(glyph - start) }

// fixedSpecs are hand written boundary cases that every run judges.
func fixedSpecs(b *baseFont) []SynthSpec {
	mk := func(class string, os2 []byte, mode string, recs ...encRec) SynthSpec {
		return SynthSpec{Base: b.id, Cmap: buildCmap(recs), OS2: os2, Mode: mode, Class: "fixed/" + class}
	}
	page := func(pg uint16) []byte {
		t := append([]byte(nil), b.os2[:78]...)
		binary.BigEndian.PutUint16(t[0:], 0)
		binary.BigEndian.PutUint16(t[62:], pg|0x40)
		return t
	}
	sent := seg4{Start: 0xFFFF, End: 0xFFFF, Delta: 1, ArrIndex: -1}
	var out []SynthSpec
	// symbol cmap U+F020..F07E, each font page
	sym := subFormat4([]seg4{{Start: 0xF020, End: 0xF07E, Delta: dl(3, 0xF020), ArrIndex: -1}, sent}, nil)
	for _, pg := range fontPages {
		out = append(out, mk(fmt.Sprintf("symbol-f4-page-%#04x", pg), page(pg), fmt.Sprintf("v0-page-%#04x", pg), encRec{3, 0, sym}))
	}
	out = append(out, mk("symbol-f4-no-os2", nil, "absent", encRec{3, 0, sym}))
	out = append(out, mk("symbol-f4-donor-os2", b.os2, "donor", encRec{3, 0, sym}))
	// legacy Arabic PUA area U+F100..F2FF
	pua := subFormat4([]seg4{{Start: 0xF100, End: 0xF2FF, Delta: dl(5, 0xF100), ArrIndex: -1}, sent}, nil)
	for _, pg := range []uint16{0, 0xB200, 0xB300, 0xB100} {
		out = append(out, mk(fmt.Sprintf("arabic-pua-f4-page-%#04x", pg), page(pg), fmt.Sprintf("v0-page-%#04x", pg), encRec{3, 0, pua}))
	}
	// format 4: glyph array with zero entries, delta on top
	out = append(out, mk("f4-zero-entries", b.os2, "donor", encRec{3, 1,
		subFormat4([]seg4{{Start: 0x41, End: 0x46, Delta: 0, ArrIndex: 0}, sent}, []uint16{5, 0, 6, 0, 0, 7})}))
	out = append(out, mk("f4-array-delta-wrap", b.os2, "donor", encRec{3, 1,
		subFormat4([]seg4{{Start: 0x61, End: 0x64, Delta: 0x20, ArrIndex: 0}, sent}, []uint16{0xFFF0, 0xFFDF, 0xFFE0, 1})}))
	out = append(out, mk("f4-delta-wrap", b.os2, "donor", encRec{3, 1,
		subFormat4([]seg4{{Start: 0x100, End: 0x1FF, Delta: 0xFF00 - 0x80, ArrIndex: -1}, sent}, nil)}))
	out = append(out, mk("f4-touching", b.os2, "donor", encRec{3, 1,
		subFormat4([]seg4{{Start: 0x20, End: 0x40, Delta: 1, ArrIndex: -1}, {Start: 0x40, End: 0x60, Delta: 2, ArrIndex: -1}, sent}, nil)}))
	out = append(out, mk("f4-abutting-page-edge", b.os2, "donor", encRec{3, 1,
		subFormat4([]seg4{{Start: 0x80, End: 0xFF, Delta: 1, ArrIndex: -1}, {Start: 0x100, End: 0x11F, Delta: 2, ArrIndex: -1}, {Start: 0x120, End: 0x2FF, Delta: 2, ArrIndex: -1}, sent}, nil)}))
	out = append(out, mk("f4-overlapping", b.os2, "donor", encRec{3, 1,
		subFormat4([]seg4{{Start: 0x10, End: 0x120, Delta: 1, ArrIndex: -1}, {Start: 0x30, End: 0x40, Delta: 9, ArrIndex: -1}, sent}, nil)}))
	out = append(out, mk("f4-unsorted", b.os2, "donor", encRec{3, 1,
		subFormat4([]seg4{{Start: 0x300, End: 0x320, Delta: 1, ArrIndex: -1}, {Start: 0x30, End: 0x40, Delta: 9, ArrIndex: -1}, sent}, nil)}))
	// segments that reach 0xFFFF and are followed (in start order) by further segments: a
	// 16-bit "first rune not covered yet" cursor wraps to 0 there
	out = append(out, mk("f4-duplicate-sentinel", b.os2, "donor", encRec{3, 1,
		subFormat4([]seg4{{Start: 0x41, End: 0x5A, Delta: 1, ArrIndex: -1}, sent, sent}, nil)}))
	out = append(out, mk("f4-overlap-up-to-ffff", b.os2, "donor", encRec{3, 1,
		subFormat4([]seg4{{Start: 0xFF00, End: 0xFFFF, Delta: dl(7, 0xFF00), ArrIndex: -1}, {Start: 0xFF80, End: 0xFFFF, Delta: dl(900, 0xFF80), ArrIndex: -1}}, nil)}))
	out = append(out, mk("f4-segment-to-ffff-then-sentinel", b.os2, "donor", encRec{3, 1,
		subFormat4([]seg4{{Start: 0x20, End: 0x7E, Delta: 1, ArrIndex: -1}, {Start: 0xFFF0, End: 0xFFFF, Delta: dl(300, 0xFFF0), ArrIndex: -1}, sent}, nil)}))
	out = append(out, mk("f4-only-sentinel", b.os2, "donor", encRec{3, 1, subFormat4([]seg4{sent}, nil)}))
	out = append(out, mk("f4-sentinel-offset-ffff", b.os2, "donor", encRec{3, 1,
		subFormat4([]seg4{{Start: 0x41, End: 0x5A, Delta: 1, ArrIndex: -1}, {Start: 0xFFFF, End: 0xFFFF, Delta: 1, ArrIndex: -2}}, nil)}))
	// format 12 / 13
	out = append(out, mk("f12-edges", b.os2, "donor", encRec{3, 10, subFormat12or13(12, []group{
		{0x1F, 0x20, 1}, {0xFF, 0x100, 3}, {0xFFFF, 0x10000, 5}, {0x10FFFF, 0x10FFFF, 9}})}))
	out = append(out, mk("f12-touching", b.os2, "donor", encRec{3, 10, subFormat12or13(12, []group{
		{0x41, 0x50, 1}, {0x50, 0x60, 40}})}))
	out = append(out, mk("f12-overlapping", b.os2, "donor", encRec{3, 10, subFormat12or13(12, []group{
		{0x10, 0x320, 1}, {0x130, 0x140, 900}})}))
	out = append(out, mk("f12-unsorted", b.os2, "donor", encRec{3, 10, subFormat12or13(12, []group{
		{0x1F600, 0x1F64F, 1}, {0x41, 0x5A, 100}})}))
	out = append(out, mk("f12-beyond-10ffff", b.os2, "donor", encRec{3, 10, subFormat12or13(12, []group{
		{0x41, 0x5A, 1}, {0x10FFF0, 0x11000F, 100}})}))
	out = append(out, mk("f12-alias-above-ffffff", b.os2, "donor", encRec{3, 10, subFormat12or13(12, []group{
		{0x61, 0x7A, 1}, {0x1000041, 0x100005A, 100}})}))
	out = append(out, mk("f12-last-script-range", b.os2, "donor", encRec{3, 10, subFormat12or13(12, []group{
		{0x41, 0x5A, 1}, {0xE0100, 0xE01EF, 100}})}))
	// subtables that map nothing at all (no group / only groups the parser drops)
	out = append(out, mk("f12-empty", b.os2, "donor", encRec{3, 10, subFormat12or13(12, nil)}))
	out = append(out, mk("f13-empty", b.os2, "donor", encRec{3, 10, subFormat12or13(13, nil)}))
	out = append(out, mk("f12-only-dropped-groups", b.os2, "donor", encRec{3, 10, subFormat12or13(12, []group{
		{0x110000, 0x11000F, 1}, {0x200000, 0x200010, 100}})}))
	out = append(out, mk("f12-only-reversed-group", b.os2, "donor", encRec{3, 10, subFormat12or13(12, []group{
		{0x60, 0x41, 1}})}))
	out = append(out, mk("f13-many-to-one", b.os2, "donor", encRec{3, 10, subFormat12or13(13, []group{
		{0x0, 0xFF, 1}, {0x100, 0x2FFFF, 2}})}))
	// format 6 / 10
	out = append(out, mk("f6-past-ffff", b.os2, "donor", encRec{3, 1, subFormat6(0xFFF0, []uint16{1, 2, 0, 4, 5, 6, 7, 8, 9, 10, 11, 12, 13, 14, 15, 16, 17, 18})}))
	out = append(out, mk("f6-empty", b.os2, "donor", encRec{3, 1, subFormat6(0x41, nil)}))
	out = append(out, mk("f10-smp", b.os2, "donor", encRec{3, 10, subFormat10(0x1F600, []uint16{1, 0, 3})}))
	out = append(out, mk("f10-to-10ffff", b.os2, "donor", encRec{3, 10, subFormat10(0x10FFFE, []uint16{1, 2})}))
	// format 0
	var g0 [256]byte
	for i := range g0 {
		g0[i] = byte(i)
	}
	g0[0x41] = 0
	out = append(out, mk("f0-identity", b.os2, "donor", encRec{1, 0, subFormat0(g0)}))
	// symbol encoded formats other than 4
	out = append(out, mk("symbol-f6", page(0), "v0-page-0x0000", encRec{3, 0, subFormat6(0xF020, []uint16{1, 2, 3, 4, 0, 6})}))
	out = append(out, mk("symbol-f12", page(0), "v0-page-0x0000", encRec{3, 0, subFormat12or13(12, []group{{0xF041, 0xF05A, 10}})}))
	out = append(out, mk("symbol-f4+ascii", page(0), "v0-page-0x0000", encRec{3, 0,
		subFormat4([]seg4{{Start: 0x41, End: 0x43, Delta: 100, ArrIndex: -1}, {Start: 0xF041, End: 0xF05A, Delta: dl(10, 0xF041), ArrIndex: -1}, sent}, nil)}))
	return out
}

// NamedFile is a harness-built font file.
type NamedFile struct {
	Name string
	Data []byte
}

// WellFormedCmapFonts builds a few fonts on the donor (AdobeBlank2: glyphs 0 and 1) whose
// character maps are valid and use the corners of the formats no corpus font has: a
// format 4 segment with both a glyph index array and a non-zero idDelta (zero entries
// stay 0), delta arithmetic that wraps modulo 65536, formats 6 and 12 with holes. Used
// by C10, which compares the mapping with independent decoders.
func WellFormedCmapFonts() []NamedFile {
	b, err := loadBase(preferredBase)
	if err != nil || b == nil || b.id != preferredBase {
		return nil
	}
	sent := seg4{Start: 0xFFFF, End: 0xFFFF, Delta: 1, ArrIndex: -1}
	mk := func(name string, recs ...encRec) NamedFile {
		return NamedFile{Name: name, Data: assemble(b, SynthSpec{Base: b.id, Cmap: buildCmap(recs), OS2: b.os2, Mode: "donor", Class: "wellformed/" + name})}
	}
	return []NamedFile{
		mk("f4-array-and-negative-delta", encRec{3, 1, subFormat4([]seg4{
			{Start: 0x41, End: 0x44, Delta: 0xFFFF, ArrIndex: 0}, {Start: 0x61, End: 0x62, Delta: 0xFFFF, ArrIndex: 4}, sent}, []uint16{2, 0, 2, 2, 0, 2})}),
		mk("f4-array-and-positive-delta", encRec{3, 1, subFormat4([]seg4{
			{Start: 0x41, End: 0x43, Delta: 2, ArrIndex: 0}, sent}, []uint16{0xFFFF, 0, 0xFFFF})}),
		mk("f4-single-rune-segments-delta-wrap", encRec{3, 1, subFormat4([]seg4{
			{Start: 0x100, End: 0x100, Delta: 0xFF01, ArrIndex: -1}, {Start: 0x2000, End: 0x2000, Delta: 0xE001, ArrIndex: -1},
			{Start: 0xFFFE, End: 0xFFFE, Delta: 3, ArrIndex: -1}, sent}, nil)}),
		mk("f6-with-holes", encRec{3, 1, subFormat6(0x30, []uint16{1, 0, 1, 1, 0})}),
		mk("f12-bmp-and-astral", encRec{3, 10, subFormat12or13(12, []group{{0x41, 0x41, 1}, {0x1F600, 0x1F600, 1}, {0x10FFFF, 0x10FFFF, 1}})}),
	}
}
