package c16

import (
	"bytes"
	"fmt"
	"os"
	"path/filepath"

	fs "github.com/go-text/typesetting/fontscan"

	"verifharness/internal/gen"
	"verifharness/internal/vrun"
)

// HistWitness is a self-contained refresh history: the scanned roots, the
// operations, and for each step whether the previous index went through the
// cache format (serialize + deserialize) before being handed to the scan, as
// it does in refreshSystemFontsIndex.
type HistWitness struct {
	Part    string   `json:"part"` // "history"
	Roots   []string `json:"roots"`
	Ops     []Op     `json:"ops"`
	Persist []bool   `json:"persist"`
	Step    int      `json:"failing_step,omitempty"`
}

var rootConfigs = [][]string{
	{"r0"}, {"r0"}, {"r0", "r1"}, {"r0", "r0/d1"}, {"r0/d1", "r0"}, {"r1", "r0", "r1"},
}

func genHistory(seed int64, idx, steps int) HistWitness {
	r := gen.New(seed, "C16/history", idx)
	w := HistWitness{Part: "history", Roots: gen.Pick(r, rootConfigs)}
	t := newTreeModel(w.Roots)
	for s := 0; s < steps; s++ {
		op := t.genOp(r, w.Roots)
		t.record(op)
		w.Ops = append(w.Ops, op)
		w.Persist = append(w.Persist, r.Bool())
	}
	return w
}

func scanCaught(prev fs.VerifIndex, dirs []string) (idx fs.VerifIndex, err error, pv any, where string) {
	pv, where = vrun.Catch(func() { idx, err = fs.VerifScan(nopLogger{}, prev, dirs...) })
	return
}

// runHistory executes the history below base (a fresh directory, relative to
// the process working directory) and judges every step.
func runHistory(run *vrun.Run, top string, w HistWitness) {
	os.RemoveAll(top)
	defer os.RemoveAll(top)
	base := filepath.Join(top, histPad)
	dirs := make([]string, len(w.Roots))
	for i, r := range w.Roots {
		dirs[i] = filepath.Join(base, r)
		if err := os.MkdirAll(dirs[i], 0o755); err != nil {
			run.Inconclusive("harness: cannot create temp tree")
			return
		}
	}
	for _, d := range dirs {
		os.Chtimes(d, tickTime(0), tickTime(0))
	}
	model := newTreeModel(w.Roots)
	var prev fs.VerifIndex
	var prevM MIndex
	fail := func(step int, key, msg string) {
		ww := w
		ww.Ops, ww.Persist, ww.Step = w.Ops[:step+1], w.Persist[:step+1], step
		run.Violation(key, fmt.Sprintf("history step %d (%s): %s", step, w.Ops[step], msg), ww)
	}
	for step, op := range w.Ops {
		if err := op.apply(base); err != nil {
			run.Inconclusive("harness: file-system operation failed")
			run.Note("history op %v failed: %v", op, err)
			return
		}
		model.record(op)
		run.Eval(1)
		run.Cover("d:op=" + op.Kind)

		fresh, errF, pvF, whereF := scanCaught(fs.VerifIndex{}, dirs)
		if pvF != nil {
			fail(step, "C16/scan/panic@"+vrun.TopFrame(whereF), fmt.Sprintf("from-scratch scan panicked: %v at %s", pvF, whereF))
			return
		}
		inc, errI, pvI, whereI := scanCaught(prev, dirs)
		if pvI != nil {
			fail(step, "C16/scan/panic@"+vrun.TopFrame(whereI), fmt.Sprintf("incremental scan panicked: %v at %s", pvI, whereI))
			return
		}
		freshM, incM := modelIndex(fresh), modelIndex(inc)
		if errStr(errF) != errStr(errI) {
			fail(step, "C16/refresh/error-differs", fmt.Sprintf("incremental scan error %q, from-scratch scan error %q", errStr(errI), errStr(errF)))
			return
		}
		if d := diffIndex(incM, freshM); d != "" {
			fail(step, "C16/refresh/incremental-differs", "incremental vs from-scratch: "+d)
			return
		}
		if errF != nil {
			run.Cover("d:step-with-scan-error")
		} else {
			// what the incremental scan could reuse and had to redo
			reused, redone := 0, 0
			pm := map[S]int64{}
			for _, f := range prevM {
				pm[f.Path] = f.ModTime
			}
			for _, f := range freshM {
				if mt, ok := pm[f.Path]; ok && mt == f.ModTime {
					reused++
				} else {
					redone++
				}
			}
			run.CoverN("d:entries-reusable", int64(reused))
			run.CoverN("d:entries-rescanned", int64(redone))
			if len(prevM) > 0 && !sameIndex(prevM, freshM) {
				run.Nontrivial(vrun.Hash64("hist", prevM.canonBytes(), freshM.canonBytes()))
				if reused > 0 {
					run.Cover("d:step-mixed-reuse-and-change")
				}
			}
			if key, msg := conformance(run, base, w.Roots, model, freshM); key != "" {
				fail(step, key, msg)
				return
			}
		}
		// next previous index, optionally through the cache format
		prev, prevM = inc, incM
		if w.Persist[step] {
			var buf bytes.Buffer
			var back fs.VerifIndex
			var err1, err2 error
			pv, where := vrun.Catch(func() {
				err1 = fs.VerifSerialize(inc, &buf)
				if err1 == nil {
					back, err2 = fs.VerifDeserialize(&buf)
				}
			})
			switch {
			case pv != nil:
				fail(step, "C16/roundtrip/panic@"+vrun.TopFrame(where), fmt.Sprintf("persisting the scanned index panicked: %v at %s", pv, where))
				return
			case err1 != nil || err2 != nil:
				fail(step, "C16/roundtrip/error", fmt.Sprintf("persisting the scanned index failed: serialize=%v deserialize=%v", err1, err2))
				return
			}
			if d := diffIndex(modelIndex(back), incM); d != "" {
				fail(step, "C16/roundtrip/differs", "scanned index read back from the cache format differs: "+d)
				return
			}
			prev = back
			run.Cover("d:prev-through-cache-format")
		}
		if step == len(w.Ops)-1 && len(freshM) >= 3 && run.WantSample() && wantSample("d", 2) {
			var ops []string
			for _, o := range w.Ops {
				ops = append(ops, o.String())
			}
			run.Sample(map[string]any{"part": "d/history", "roots": w.Roots, "ops": ops, "final_entries": len(freshM)})
		}
	}
}

// conformance checks the from-scratch index against an independent walk of
// the tree: no path twice; every entry names something that exists; every
// regular file (directly or through a file symlink) whose name the library
// does not ignore has exactly one entry carrying the modification time of the
// file and the footprints computed directly from its bytes; ignored names have
// no entry.
func conformance(run *vrun.Run, base string, roots []string, model *treeModel, fresh MIndex) (key, msg string) {
	byPath := map[string]MFile{}
	for _, f := range fresh {
		if _, dup := byPath[string(f.Path)]; dup {
			return "C16/conformance/duplicate-path", fmt.Sprintf("path %q appears twice in the from-scratch index", f.Path)
		}
		byPath[string(f.Path)] = f
		if _, err := os.Stat(string(f.Path)); err != nil {
			return "C16/conformance/stale-entry", fmt.Sprintf("index entry %q does not exist in the tree: %v", f.Path, err)
		}
	}
	files, dirLinks, _ := walkDisk(base, roots)
	if dirLinks > 0 {
		run.Cover("d:step-with-dir-symlink")
	}
	for _, df := range files {
		full := base + "/" + df.path
		name := filepath.Base(df.path)
		e, has := byPath[full]
		if fs.VerifIgnoreFontFile(name) {
			run.Cover("d:ignored-name-present")
			if has {
				return "C16/conformance/ignored-file-indexed", fmt.Sprintf("%q has an ignored name but is in the index", full)
			}
			continue
		}
		if !has {
			return "C16/conformance/missing-entry", fmt.Sprintf("regular file %q (symlink=%v) has no entry in the from-scratch index", full, df.symlink)
		}
		if df.symlink {
			run.Cover("d:file-symlink-indexed")
		}
		if e.ModTime != df.mtime {
			return "C16/conformance/mtime", fmt.Sprintf("%q: recorded modTime %d, file has %d", full, e.ModTime, df.mtime)
		}
		n := model.nodes[df.real]
		if n == nil || n.kind != 'f' {
			run.Inconclusive("harness: tree model and disk disagree")
			continue
		}
		want := expectedFootprints(n.content)
		if len(want) > 0 {
			run.Cover("d:font-file-indexed")
		} else {
			run.Cover("d:non-font-file-indexed")
		}
		if len(want) > 1 {
			run.Cover("d:collection-indexed")
		}
		if len(e.Footprints) != len(want) {
			return "C16/conformance/footprints", fmt.Sprintf("%q (%s): %d footprints, direct computation gives %d", full, n.content.key(), len(e.Footprints), len(want))
		}
		for i := range want {
			wfp := want[i]
			wfp.File = S(full)
			if d := diffFootprint(e.Footprints[i], wfp); d != "" {
				return "C16/conformance/footprints", fmt.Sprintf("%q (%s) footprint %d differs from direct computation: %s", full, n.content.key(), i, d)
			}
		}
	}
	return "", ""
}
