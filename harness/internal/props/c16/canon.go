package c16

import (
	"bytes"
	"encoding/base64"
	"encoding/binary"
	"encoding/json"
	"fmt"
	"math"
	"reflect"
	"strings"
	"sync/atomic"
	"unicode/utf8"

	"github.com/go-text/typesetting/font"
	fs "github.com/go-text/typesetting/fontscan"
	"github.com/go-text/typesetting/language"
)

// The monitor's own, library-independent view of an index. "Identical index"
// in the property is read as: the same sequence of files (path, modification
// time), each with the same sequence of footprints, each footprint with the
// same location, family, rune pages, scripts, languages and aspect. nil and
// empty slices describe the same (empty) sequence and are not distinguished;
// floats are compared by bit pattern (so NaN == NaN and +0 != -0).

// S is a byte string that survives JSON (invalid UTF-8 is carried as base64).
type S string

func (s S) MarshalJSON() ([]byte, error) {
	if utf8.ValidString(string(s)) && !strings.ContainsRune(string(s), utf8.RuneError) {
		return json.Marshal(string(s))
	}
	return json.Marshal(map[string]string{"b64": base64.StdEncoding.EncodeToString([]byte(s))})
}

func (s *S) UnmarshalJSON(b []byte) error {
	var str string
	if err := json.Unmarshal(b, &str); err == nil {
		*s = S(str)
		return nil
	}
	var m map[string]string
	if err := json.Unmarshal(b, &m); err != nil {
		return err
	}
	raw, err := base64.StdEncoding.DecodeString(m["b64"])
	*s = S(raw)
	return err
}

// MPage is one page of a rune set.
type MPage struct {
	Ref uint16    `json:"r"`
	Set [8]uint32 `json:"s"`
}

// MFootprint is the model of a fontscan.Footprint.
type MFootprint struct {
	File     S         `json:"file"`
	Index    uint16    `json:"index"`
	Instance uint16    `json:"instance"`
	Family   S         `json:"family"`
	Runes    []MPage   `json:"runes,omitempty"`
	Scripts  []uint32  `json:"scripts,omitempty"`
	Langs    [8]uint64 `json:"langs"`
	Style    uint8     `json:"style"`
	Weight   uint32    `json:"weight_bits"`
	Stretch  uint32    `json:"stretch_bits"`
}

// MFile is the model of one fileFootprints entry.
type MFile struct {
	Path       S            `json:"path"`
	ModTime    int64        `json:"mtime"`
	Footprints []MFootprint `json:"footprints,omitempty"`
}

// MIndex is the model of a systemFontsIndex.
type MIndex []MFile

// modelRunes reads the unexported page structure of a RuneSet through
// reflection (read access to unexported fields is allowed).
func modelRunes(rs fs.RuneSet) []MPage {
	v := reflect.ValueOf(rs)
	n := v.Len()
	if n == 0 {
		return nil
	}
	out := make([]MPage, n)
	for i := 0; i < n; i++ {
		p := v.Index(i)
		out[i].Ref = uint16(p.Field(0).Uint())
		set := p.Field(1)
		for j := 0; j < 8; j++ {
			out[i].Set[j] = uint32(set.Index(j).Uint())
		}
	}
	return out
}

func modelFootprint(fp fs.Footprint) MFootprint {
	m := MFootprint{
		File: S(fp.Location.File), Index: fp.Location.Index, Instance: fp.Location.Instance,
		Family: S(fp.Family), Runes: modelRunes(fp.Runes), Langs: fp.Langs,
		Style: uint8(fp.Aspect.Style), Weight: math.Float32bits(float32(fp.Aspect.Weight)),
		Stretch: math.Float32bits(float32(fp.Aspect.Stretch)),
	}
	for _, s := range fp.Scripts {
		m.Scripts = append(m.Scripts, uint32(s))
	}
	return m
}

func modelIndex(vi fs.VerifIndex) MIndex {
	files := vi.Files()
	out := make(MIndex, len(files))
	for i, f := range files {
		out[i] = MFile{Path: S(f.Path), ModTime: f.ModTime}
		for _, fp := range f.Footprints {
			out[i].Footprints = append(out[i].Footprints, modelFootprint(fp))
		}
	}
	return out
}

// buildFootprint turns a model back into a library value (rune pages are
// rebuilt with RuneSet.Add in page order, which reproduces any page list with
// non-empty pages in the given order as long as refs are distinct).
func buildFootprint(m MFootprint) fs.Footprint {
	var fp fs.Footprint
	fp.Location = fs.Location{File: string(m.File), Index: m.Index, Instance: m.Instance}
	fp.Family = string(m.Family)
	for _, p := range m.Runes {
		for j := 0; j < 8; j++ {
			for b := 0; b < 32; b++ {
				if p.Set[j]&(1<<uint(b)) != 0 {
					fp.Runes.Add(rune(p.Ref)<<8 | rune(j<<5|b))
				}
			}
		}
	}
	if m.Scripts != nil {
		fp.Scripts = make(fs.ScriptSet, len(m.Scripts))
		for i, s := range m.Scripts {
			fp.Scripts[i] = language.Script(s)
		}
	}
	fp.Langs = m.Langs
	fp.Aspect = font.Aspect{Style: font.Style(m.Style), Weight: font.Weight(math.Float32frombits(m.Weight)),
		Stretch: font.Stretch(math.Float32frombits(m.Stretch))}
	return fp
}

func buildIndex(m MIndex) fs.VerifIndex {
	files := make([]fs.VerifFileFootprints, len(m))
	for i, f := range m {
		files[i] = fs.VerifFileFootprints{Path: string(f.Path), ModTime: f.ModTime}
		for _, fp := range f.Footprints {
			files[i].Footprints = append(files[i].Footprints, buildFootprint(fp))
		}
	}
	return fs.VerifNewIndex(files)
}

func putStr(b *bytes.Buffer, s string) {
	var l [4]byte
	binary.BigEndian.PutUint32(l[:], uint32(len(s)))
	b.Write(l[:])
	b.WriteString(s)
}

func putU(b *bytes.Buffer, v uint64) {
	var l [8]byte
	binary.BigEndian.PutUint64(l[:], v)
	b.Write(l[:])
}

func (m MFootprint) canon(b *bytes.Buffer) {
	putStr(b, string(m.File))
	putU(b, uint64(m.Index)<<16|uint64(m.Instance))
	putStr(b, string(m.Family))
	putU(b, uint64(len(m.Runes)))
	for _, p := range m.Runes {
		putU(b, uint64(p.Ref))
		for _, w := range p.Set {
			putU(b, uint64(w))
		}
	}
	putU(b, uint64(len(m.Scripts)))
	for _, s := range m.Scripts {
		putU(b, uint64(s))
	}
	for _, l := range m.Langs {
		putU(b, l)
	}
	putU(b, uint64(m.Style))
	putU(b, uint64(m.Weight))
	putU(b, uint64(m.Stretch))
}

func (f MFile) canonBytes() []byte {
	var b bytes.Buffer
	putStr(&b, string(f.Path))
	putU(&b, uint64(f.ModTime))
	putU(&b, uint64(len(f.Footprints)))
	for _, fp := range f.Footprints {
		fp.canon(&b)
	}
	return b.Bytes()
}

func (m MIndex) canonBytes() []byte {
	var b bytes.Buffer
	putU(&b, uint64(len(m)))
	for _, f := range m {
		c := f.canonBytes()
		putU(&b, uint64(len(c)))
		b.Write(c)
	}
	return b.Bytes()
}

func sameFile(a, b MFile) bool { return bytes.Equal(a.canonBytes(), b.canonBytes()) }

func sameIndex(a, b MIndex) bool { return bytes.Equal(a.canonBytes(), b.canonBytes()) }

func clip[T ~string](s T) string {
	if len(s) > 60 {
		return fmt.Sprintf("%q…(%d bytes)", s[:60], len(s))
	}
	return fmt.Sprintf("%q", s)
}

func diffFootprint(a, b MFootprint) string {
	switch {
	case a.File != b.File:
		return fmt.Sprintf("Location.File %s vs %s", clip(a.File), clip(b.File))
	case a.Index != b.Index || a.Instance != b.Instance:
		return fmt.Sprintf("Location index/instance %d/%d vs %d/%d", a.Index, a.Instance, b.Index, b.Instance)
	case a.Family != b.Family:
		return fmt.Sprintf("Family %s vs %s", clip(a.Family), clip(b.Family))
	case len(a.Runes) != len(b.Runes):
		return fmt.Sprintf("rune pages %d vs %d", len(a.Runes), len(b.Runes))
	case len(a.Scripts) != len(b.Scripts):
		return fmt.Sprintf("scripts %d vs %d", len(a.Scripts), len(b.Scripts))
	case a.Langs != b.Langs:
		return fmt.Sprintf("Langs %x vs %x", a.Langs, b.Langs)
	case a.Style != b.Style:
		return fmt.Sprintf("Style %d vs %d", a.Style, b.Style)
	case a.Weight != b.Weight:
		return fmt.Sprintf("Weight bits %#x vs %#x", a.Weight, b.Weight)
	case a.Stretch != b.Stretch:
		return fmt.Sprintf("Stretch bits %#x vs %#x", a.Stretch, b.Stretch)
	}
	for i := range a.Runes {
		if a.Runes[i] != b.Runes[i] {
			return fmt.Sprintf("rune page %d: ref %#x set %x vs ref %#x set %x", i, a.Runes[i].Ref, a.Runes[i].Set, b.Runes[i].Ref, b.Runes[i].Set)
		}
	}
	for i := range a.Scripts {
		if a.Scripts[i] != b.Scripts[i] {
			return fmt.Sprintf("script %d: %#x vs %#x", i, a.Scripts[i], b.Scripts[i])
		}
	}
	return ""
}

func diffFile(a, b MFile) string {
	switch {
	case a.Path != b.Path:
		return fmt.Sprintf("path %s vs %s", clip(a.Path), clip(b.Path))
	case a.ModTime != b.ModTime:
		return fmt.Sprintf("%s: modTime %d vs %d", clip(a.Path), a.ModTime, b.ModTime)
	case len(a.Footprints) != len(b.Footprints):
		return fmt.Sprintf("%s: %d vs %d footprints", clip(a.Path), len(a.Footprints), len(b.Footprints))
	}
	for i := range a.Footprints {
		if d := diffFootprint(a.Footprints[i], b.Footprints[i]); d != "" {
			return fmt.Sprintf("%s footprint %d: %s", clip(a.Path), i, d)
		}
	}
	return ""
}

// diffIndex describes the first difference ("" when identical).
func diffIndex(a, b MIndex) string {
	n := len(a)
	if len(b) < n {
		n = len(b)
	}
	for i := 0; i < n; i++ {
		if d := diffFile(a[i], b[i]); d != "" {
			return fmt.Sprintf("entry %d: %s", i, d)
		}
	}
	if len(a) != len(b) {
		paths := func(m MIndex) []string {
			var p []string
			for _, f := range m {
				p = append(p, string(f.Path))
			}
			return p
		}
		return fmt.Sprintf("%d vs %d entries (%q vs %q)", len(a), len(b), paths(a), paths(b))
	}
	return ""
}

// sampleQuota spreads the few evidence samples over the parts.
var sampleQuota = map[string]*atomic.Int32{"a": {}, "b": {}, "c": {}, "d": {}}

func wantSample(part string, max int32) bool {
	q := sampleQuota[part]
	if q.Load() >= max {
		return false
	}
	return q.Add(1) <= max
}

func errStr(err error) string {
	if err == nil {
		return ""
	}
	return err.Error()
}
