package c16

import (
	"math"
	"strings"

	"verifharness/internal/gen"
)

// Synthetic footprints: the extremes the quantifier names (empty sets, 255
// scripts, maximal strings, extreme floats) plus ordinary random values.

var extremeFloats = []uint32{
	0, 0x80000000, // +0, -0
	0x7F800000, 0xFF800000, // +Inf, -Inf
	0x7FC00000, 0x7FC00001, 0xFFC12345, 0x7F800001, // quiet / signalling NaNs with payloads
	0x00000001, 0x807FFFFF, // denormals
	0x7F7FFFFF, 0xFF7FFFFF, // +-MaxFloat32
	math.Float32bits(400), math.Float32bits(1), math.Float32bits(0.5), math.Float32bits(1000),
}

func genString(r *gen.RNG, maxLen int) string {
	switch r.Intn(8) {
	case 0:
		return ""
	case 1:
		return strings.Repeat("x", maxLen) // maximal
	case 2:
		return strings.Repeat("é", maxLen/2) + strings.Repeat("y", maxLen%2)
	case 3:
		b := make([]byte, r.Intn(40))
		for i := range b {
			b[i] = byte(r.U64()) // arbitrary bytes, including NUL and invalid UTF-8
		}
		return string(b)
	}
	const al = "abcdefghijklmnopqrstuvwxyz /._-0123456789"
	b := make([]byte, 1+r.Intn(24))
	for i := range b {
		b[i] = al[r.Intn(len(al))]
	}
	return string(b)
}

func genRunes(r *gen.RNG, big bool) []MPage {
	var pages int
	switch r.Intn(6) {
	case 0:
		return nil // empty set
	case 1:
		pages = 1
	case 2:
		pages = 2 + r.Intn(6)
	default:
		pages = 1 + r.Intn(3)
	}
	if big && r.Chance(1, 3) {
		pages = 0x1100 // every page of the code space
	}
	out := make([]MPage, 0, pages)
	ref := uint16(r.Intn(4))
	for i := 0; i < pages; i++ {
		p := MPage{Ref: ref}
		switch r.Intn(4) {
		case 0:
			for j := range p.Set {
				p.Set[j] = 0xFFFFFFFF
			}
		case 1:
			p.Set[r.Intn(8)] = 1 << uint(r.Intn(32))
		default:
			for j := range p.Set {
				p.Set[j] = uint32(r.U64())
			}
			p.Set[0] |= 1 // never an empty page (RuneSet.Add cannot build one)
		}
		out = append(out, p)
		if pages == 0x1100 {
			ref++
		} else {
			ref += uint16(1 + r.Intn(40))
		}
	}
	return out
}

func genScripts(r *gen.RNG) []uint32 {
	var n int
	switch r.Intn(6) {
	case 0:
		return nil
	case 1:
		n = 255 // the most one length byte can express
	case 2:
		n = 1
	default:
		n = 1 + r.Intn(6)
	}
	out := make([]uint32, n)
	v := uint32(r.U64()) >> 8
	for i := range out {
		out[i] = v
		v += 1 + uint32(r.Intn(1<<16))
	}
	if r.Chance(1, 6) {
		out[len(out)-1] = 0xFFFFFFFF
	}
	return out
}

// genFootprint draws one synthetic footprint. maxStr bounds string lengths
// (65535 is the format's maximum).
func genFootprint(r *gen.RNG, maxStr int, big bool) MFootprint {
	m := MFootprint{
		File:   S(genString(r, maxStr)),
		Family: S(genString(r, maxStr)),
		Runes:  genRunes(r, big),
	}
	m.Scripts = genScripts(r)
	switch r.Intn(4) {
	case 0: // empty language set
	case 1:
		for i := range m.Langs {
			m.Langs[i] = ^uint64(0)
		}
	default:
		for i := range m.Langs {
			m.Langs[i] = r.U64()
		}
	}
	switch r.Intn(3) {
	case 0:
		m.Index, m.Instance = 0, 0
	case 1:
		m.Index, m.Instance = 0xFFFF, 0xFFFF
	default:
		m.Index, m.Instance = uint16(r.Intn(8)), uint16(r.U64())
	}
	m.Style = uint8(r.U64())
	if r.Bool() {
		m.Style = uint8(r.Intn(4))
	}
	m.Weight = gen.Pick(r, extremeFloats)
	m.Stretch = gen.Pick(r, extremeFloats)
	if r.Chance(1, 4) {
		m.Weight = uint32(r.U64())
	}
	return m
}

var extremeTimes = []int64{0, 1, -1, math.MaxInt64, math.MinInt64, 1_700_000_000_123_456_789, 0x0102030405060708}

// genSynthIndex draws a synthetic index of nFiles entries.
func genSynthIndex(r *gen.RNG, nFiles, maxStr int, big bool) MIndex {
	out := make(MIndex, 0, nFiles)
	for i := 0; i < nFiles; i++ {
		f := MFile{Path: S(genString(r, maxStr)), ModTime: gen.Pick(r, extremeTimes)}
		if r.Chance(1, 3) {
			f.ModTime = int64(r.U64())
		}
		nfp := r.Intn(4)
		if r.Chance(1, 5) {
			nfp = 0 // a file that is not a font: empty footprint list
		}
		for j := 0; j < nfp; j++ {
			f.Footprints = append(f.Footprints, genFootprint(r, maxStr, big))
		}
		out = append(out, f)
	}
	return out
}
