package c16

import (
	"bytes"
	"compress/gzip"
	"encoding/base64"
	"encoding/json"
	"fmt"
	"io"
	"math/bits"
	"os"
	"path/filepath"
	"regexp"
	"sort"
	"sync"

	fs "github.com/go-text/typesetting/fontscan"

	"verifharness/internal/corpus"
	"verifharness/internal/gen"
	"verifharness/internal/vrun"
)

// FaultSpec describes one index used for fault enumeration: a small tree
// (built by Tree below <base>/r0) and either the scan of that tree or a
// synthetic index whose paths do not exist in the tree.
type FaultSpec struct {
	Tree  []Op   `json:"tree"`
	Synth MIndex `json:"synth,omitempty"`
	N     int    `json:"gz_len"`      // length of the cache file F
	M     int    `json:"payload_len"` // length of the uncompressed payload P
	// Corpus: the index is the scan of the whole font corpus (no temp tree);
	// its faults are sampled (Sampled cases) instead of enumerated.
	Corpus  bool  `json:"corpus,omitempty"`
	Sampled int   `json:"sampled,omitempty"`
	Seed    int64 `json:"seed,omitempty"`
}

func corpusDirs() []string {
	u := corpus.UtilsDir()
	return []string{filepath.Join(u, "harfbuzz"), filepath.Join(u, "opentype"), filepath.Join(corpus.RepoDir(), "font/testdata"), "/usr/share/fonts/truetype/dejavu"}
}

// FaultWitness is a self-contained fault case.
type FaultWitness struct {
	Part    string    `json:"part"`    // "fault"
	K       int       `json:"context"` // context number: names the tree directory, which is part of every indexed path
	Spec    FaultSpec `json:"spec"`
	Variant string    `json:"variant"` // gz-prefix, gz-byte, pl-prefix, pl-byte, crash-*
	Pos     int       `json:"pos"`
	Val     int       `json:"val"`
	Image   string    `json:"image_base64"` // the faulted cache file
	Strict  bool      `json:"strict"`
}

type faultCtx struct {
	k      int
	spec   FaultSpec
	base   string
	dirs   []string
	origM  MIndex
	F, P   []byte
	freshM MIndex
	freshE string
	seen   map[uint64]bool
}

func gunzip(b []byte) ([]byte, error) {
	zr, err := gzip.NewReader(bytes.NewReader(b))
	if err != nil {
		return nil, err
	}
	return io.ReadAll(zr)
}

var gzPool = sync.Pool{New: func() any { return gzip.NewWriter(io.Discard) }}

// gz compresses with the standard library (a pooled writer: flate.NewWriter
// allocates more than a megabyte).
func gz(b []byte) []byte {
	var buf bytes.Buffer
	zw := gzPool.Get().(*gzip.Writer)
	zw.Reset(&buf)
	zw.Write(b)
	zw.Close()
	gzPool.Put(zw)
	return buf.Bytes()
}

// genFaultSpec draws the tree / index of fault context k. shrink reduces the
// size (used when the cache file would exceed the enumeration bound).
func genFaultSpec(seed int64, k, shrink int) FaultSpec {
	r := gen.New(seed, "C16/fault-index", k)
	smallFonts()
	var sp FaultSpec
	t := newTreeModel([]string{"r0"})
	add := func(o Op) { o.DirTick = t.next(); t.record(o); sp.Tree = append(sp.Tree, o) }
	nFonts := 1 + r.Intn(10)
	if k%8 == 7 {
		nFonts = 0 // empty index / junk only
	}
	nFonts -= 2 * shrink
	if nFonts < 0 {
		nFonts = 0
	}
	if r.Bool() {
		add(Op{Kind: "mkdir", Path: "r0/sub"})
	}
	for i := 0; i < nFonts; i++ {
		d := gen.Pick(r, t.sorted("d"))
		c := genContent(r, true)
		switch r.Intn(6) {
		case 0, 1:
			c = Content{Font: gen.Pick(r, poolMedium)}
		case 2:
			c = Content{Font: gen.Pick(r, poolRich)}
		}
		add(Op{Kind: "write", Path: d + "/" + gen.Pick(r, fontNames), Content: c, Tick: t.next()})
	}
	if r.Bool() {
		add(Op{Kind: "write", Path: "r0/" + gen.Pick(r, junkNames), Content: genContent(r, false), Tick: t.next()})
	}
	if r.Chance(1, 3) {
		add(Op{Kind: "write", Path: "r0/" + gen.Pick(r, ignoredNames), Content: genContent(r, true), Tick: t.next()})
	}
	if files := t.sorted("f"); len(files) > 0 && r.Chance(1, 3) {
		add(Op{Kind: "symlink", Path: "r0/l.ttf", To: relTarget("r0/l.ttf", gen.Pick(r, files), false)})
	}
	if t.nodes["r0/sub"] != nil && r.Chance(1, 4) {
		add(Op{Kind: "symlink", Path: "r0/ld", To: "sub"})
	}
	if k%4 == 3 {
		// synthetic index: paths that never exist in the tree
		n := 1 + r.Intn(3)
		if shrink > 0 {
			n = 1
		}
		sp.Synth = genSynthIndex(r, n, 30, false)
		for i := range sp.Synth {
			sp.Synth[i].Path = S(fmt.Sprintf("syn/%d/%s", i, sp.Synth[i].Path))
			maxPages := 2 - shrink
			if maxPages < 0 {
				maxPages = 0
			}
			for j := range sp.Synth[i].Footprints {
				fp := &sp.Synth[i].Footprints[j]
				if len(fp.Runes) > maxPages {
					fp.Runes = fp.Runes[:maxPages]
				}
				if len(fp.Scripts) > 12 {
					fp.Scripts = fp.Scripts[:12]
				}
			}
		}
	}
	return sp
}

// buildFaultCtx creates the tree on disk (when build is set) and computes the
// original index, its cache file and payload, and the from-scratch scan.
func buildFaultCtx(k int, sp FaultSpec, base string, build bool) (*faultCtx, error) {
	c := &faultCtx{k: k, spec: sp, base: base, dirs: []string{filepath.Join(base, "r0")}, seen: map[uint64]bool{}}
	if sp.Corpus {
		c.dirs, build = corpusDirs(), false
	}
	if build {
		os.RemoveAll(base)
		if err := os.MkdirAll(c.dirs[0], 0o755); err != nil {
			return nil, err
		}
		os.Chtimes(c.dirs[0], tickTime(0), tickTime(0))
		for _, o := range sp.Tree {
			if err := o.apply(base); err != nil {
				return nil, fmt.Errorf("tree op %v: %w", o, err)
			}
		}
	}
	fresh, err, pv, where := scanCaught(fs.VerifIndex{}, c.dirs)
	if pv != nil {
		return nil, fmt.Errorf("scan panicked: %v at %s", pv, where)
	}
	c.freshM, c.freshE = modelIndex(fresh), errStr(err)
	orig := fresh
	if sp.Synth != nil {
		orig = buildIndex(sp.Synth)
	}
	c.origM = modelIndex(orig)
	var buf bytes.Buffer
	if err := fs.VerifSerialize(orig, &buf); err != nil {
		return nil, fmt.Errorf("serialize: %w", err)
	}
	c.F = buf.Bytes()
	c.P, err = gunzip(c.F)
	if err != nil {
		return nil, fmt.Errorf("independent gunzip of the cache file: %w", err)
	}
	return c, nil
}

// payloadWellFormed is an independent structural reader of the uncompressed
// cache payload (format v6): version, entry count, then exactly that many
// length-prefixed segments, each holding path, modification time and whole
// footprints. Bytes after the last declared entry are allowed: the statement
// does not fix the grammar, the library's reader ignores them, and a monitor
// that rejected them would ask for more than "error or well-formed index"
// (first version of this oracle did, and raised a false alarm on a payload
// whose last segment size had been shortened to a footprint boundary). A
// faulted payload that still passes differs from a valid one only in content,
// which a reader of this grammar cannot notice.
func payloadWellFormed(p []byte) bool {
	u16 := func(b []byte) int { return int(b[0])<<8 | int(b[1]) }
	u32 := func(b []byte) int { return int(b[0])<<24 | int(b[1])<<16 | int(b[2])<<8 | int(b[3]) }
	str := func(b []byte) int { // bytes taken by a length-prefixed string, -1 if it does not fit
		if len(b) < 2 || len(b) < 2+u16(b) {
			return -1
		}
		return 2 + u16(b)
	}
	if len(p) < 6 || u16(p) != 6 {
		return false
	}
	count := u32(p[2:])
	p = p[6:]
	for i := 0; i < count; i++ {
		if len(p) < 4 || len(p) < 4+u32(p) {
			return false
		}
		seg := p[4 : 4+u32(p)]
		p = p[4+u32(p):]
		n := str(seg)
		if n < 0 || len(seg) < n+8 {
			return false
		}
		seg = seg[n+8:]
		for len(seg) > 0 {
			if n = str(seg); n < 0 || len(seg) < n+4 { // Location.File, index, instance
				return false
			}
			seg = seg[n+4:]
			if n = str(seg); n < 0 { // family
				return false
			}
			seg = seg[n:]
			if len(seg) < 2 || len(seg) < 2+34*u16(seg) { // rune pages
				return false
			}
			seg = seg[2+34*u16(seg):]
			if len(seg) < 1 || len(seg) < 1+4*int(seg[0]) { // scripts
				return false
			}
			seg = seg[1+4*int(seg[0]):]
			if len(seg) < 64+9 { // languages, aspect
				return false
			}
			seg = seg[64+9:]
		}
	}
	return true
}

// number of fault cases of a context
func (sp FaultSpec) cases() int {
	if sp.Sampled > 0 {
		return sp.Sampled
	}
	return (sp.N + 1) + 4*sp.N + (sp.M + 1) + 4*sp.M
}

func byteVariant(b byte, v int) byte {
	switch v {
	case 0:
		return 0x00
	case 1:
		return 0xFF
	case 2:
		return ^b
	}
	return b + 1
}

// faultCase names case j of the context: fault kind, position and byte variant.
func (c *faultCtx) faultCase(j int) (variant string, pos, val int) {
	n, m := len(c.F), len(c.P)
	if c.spec.Sampled > 0 {
		r := gen.New(c.spec.Seed, "C16/sampled-fault", j)
		switch j % 10 {
		case 0, 1, 2:
			return "gz-prefix", r.Intn(n + 1), 0
		case 3, 4, 5, 6:
			return "gz-byte", r.Intn(n), r.Intn(4)
		case 7:
			return "pl-prefix", r.Intn(m + 1), 0
		}
		return "pl-byte", r.Intn(m), r.Intn(4)
	}
	switch {
	case j <= n:
		return "gz-prefix", j, 0
	case j < n+1+4*n:
		j -= n + 1
		return "gz-byte", j / 4, j % 4
	case j < n+1+4*n+m+1:
		return "pl-prefix", j - (n + 1 + 4*n), 0
	}
	j -= n + 1 + 4*n + m + 1
	return "pl-byte", j / 4, j % 4
}

// materialize builds the faulted cache file (nil when the byte mutation is
// the identity) and tells which recovery law applies.
func (c *faultCtx) materialize(variant string, pos, val int) (image []byte, strict bool) {
	switch variant {
	case "gz-prefix":
		return c.F[:pos:pos], true
	case "gz-byte":
		nb := byteVariant(c.F[pos], val)
		if nb == c.F[pos] {
			return nil, true
		}
		img := append([]byte(nil), c.F...)
		img[pos] = nb
		return img, true
	case "pl-prefix":
		return gz(c.P[:pos]), !payloadWellFormed(c.P[:pos])
	}
	nb := byteVariant(c.P[pos], val)
	if nb == c.P[pos] {
		return nil, false
	}
	pl := append([]byte(nil), c.P...)
	pl[pos] = nb
	return gz(pl), !payloadWellFormed(pl)
}

// Budgets of the reader on a faulted file of length n: generous multiples of
// what was calibrated on the unchanged tree (see evidence "b:max-*").
func allocBudget(n int) uint64 { return 16<<20 + 4096*uint64(n) }

const cpuBudget = 2.0 // seconds of thread CPU for one read

// maxDeaths bounds the confirmed child deaths after which the enumeration stops.
const maxDeaths = 12

var digits = regexp.MustCompile(`[0-9]+`)

// meter makes the allocation figure meaningful: only set in single-goroutine
// workers.
type meterCfg struct{ alloc bool }

// judgeImage applies the reader laws and the recovery law to one left-over
// cache file. strict: the image is a file-level fault (what a crash or a disk
// can produce) or a payload fault that breaks the payload's own structure, so
// the scan that follows must equal the from-scratch scan. Otherwise (a
// structurally intact payload re-compressed with a valid checksum, which no
// reader of this format can tell from a good one) every entry of the scan must be either the
// from-scratch entry or an entry of the accepted index with the same path and
// modification time (the cache key, DESIGN §7).
func judgeImage(run *vrun.Run, c *faultCtx, variant string, pos, val int, image []byte, strict bool, mc meterCfg) {
	run.Eval(1)
	wit := func() FaultWitness {
		w := FaultWitness{Part: "fault", K: c.k, Spec: c.spec, Variant: variant, Pos: pos, Val: val, Strict: strict}
		if len(image) <= 64<<10 {
			w.Image = base64.StdEncoding.EncodeToString(image)
		}
		return w
	}
	at := fmt.Sprintf("index %d, %s pos=%d val=%d (file of %d bytes)", c.k, variant, pos, val, len(image))
	var R fs.VerifIndex
	var err error
	a0, t0 := vrun.AllocBytes(), vrun.ThreadCPU()
	pv, where := vrun.Catch(func() { R, err = fs.VerifDeserialize(bytes.NewReader(image)) })
	t1, a1 := vrun.ThreadCPU(), vrun.AllocBytes()
	if pv != nil {
		run.Violation("C16/reader/panic@"+vrun.TopFrame(where), fmt.Sprintf("%s: reading the file panicked: %v at %s", at, pv, where), wit())
		return
	}
	if mc.alloc {
		d := a1 - a0
		run.Cover("b:alloc-per-read<2^" + fmt.Sprint(bits.Len64(d)))
		if d > allocBudget(len(image)) {
			run.Violation("C16/reader/alloc-budget", fmt.Sprintf("%s: reading allocated %d bytes, budget %d", at, d, allocBudget(len(image))), wit())
			return
		}
		for k := 0; k < 2 && t1-t0 > cpuBudget; k++ {
			// re-measure: the verdict is the minimum of three readings (see DESIGN §10, CPU meters)
			run.Cover("b:cpu-remeasured")
			u0 := vrun.ThreadCPU()
			vrun.Catch(func() { fs.VerifDeserialize(bytes.NewReader(image)) })
			if u := vrun.ThreadCPU() - u0; u < t1-t0 {
				t1 = t0 + u
			}
		}
		if t1-t0 > cpuBudget {
			run.Violation("C16/reader/cpu-budget", fmt.Sprintf("%s: reading took %.2fs CPU, budget %.1fs", at, t1-t0, cpuBudget), wit())
			return
		}
		run.Cover("b:cpu-us-per-read<2^" + fmt.Sprint(bits.Len64(uint64((t1-t0)*1e6))))
	}
	if err != nil {
		run.Cover("b:" + variant + ":rejected")
		cls := digits.ReplaceAllString(err.Error(), "N")
		run.Cover("b:error: " + cls)
		run.Nontrivial(vrun.Hash64("rej", c.k, variant, cls))
		if !R.IsNil() && len(R.Files()) > 0 {
			run.Violation("C16/reader/error-with-index", at+": an error was returned together with a non-empty index", wit())
		}
		return
	}
	Rm := modelIndex(R)
	same := sameIndex(Rm, c.origM)
	if same {
		run.Cover("b:" + variant + ":accepted-identical")
	} else {
		run.Cover("b:" + variant + ":accepted-altered")
	}
	if variant == "pl-byte" || variant == "pl-prefix" {
		if strict {
			run.Cover("b:" + variant + ":accepted-though-payload-structure-broken")
		} else {
			run.Cover("b:" + variant + ":accepted-payload-structure-intact")
		}
	}
	canon := Rm.canonBytes()
	h := vrun.Hash64("acc", c.k, strict, canon)
	if c.seen[h] {
		run.Cover("b:accepted-same-as-earlier-case")
		return
	}
	c.seen[h] = true
	run.Nontrivial(h)
	// well-formed: re-serializes and round-trips
	var buf bytes.Buffer
	var back fs.VerifIndex
	var e1, e2 error
	pv, where = vrun.Catch(func() {
		e1 = fs.VerifSerialize(R, &buf)
		if e1 == nil {
			back, e2 = fs.VerifDeserialize(bytes.NewReader(buf.Bytes()))
		}
	})
	switch {
	case pv != nil:
		run.Violation("C16/reader/accepted-index-panics@"+vrun.TopFrame(where), fmt.Sprintf("%s: re-serializing the accepted index panicked: %v at %s", at, pv, where), wit())
		return
	case e1 != nil || e2 != nil:
		run.Violation("C16/reader/accepted-not-wellformed", fmt.Sprintf("%s: the accepted index does not re-serialize (serialize=%v, read back=%v)", at, e1, e2), wit())
		return
	}
	if d := diffIndex(modelIndex(back), Rm); d != "" {
		run.Violation("C16/reader/accepted-not-roundtrip", at+": the accepted index does not round-trip: "+d, wit())
		return
	}
	// recovery: a scan with the accepted index as previous index
	inc, errI, pvI, whereI := scanCaught(R, c.dirs)
	if pvI != nil {
		run.Violation("C16/recovery/panic@"+vrun.TopFrame(whereI), fmt.Sprintf("%s: scan with the accepted index panicked: %v at %s", at, pvI, whereI), wit())
		return
	}
	incM := modelIndex(inc)
	if errStr(errI) != c.freshE {
		run.Violation("C16/recovery/error-differs", fmt.Sprintf("%s: scan with the accepted index: error %q, from scratch %q", at, errStr(errI), c.freshE), wit())
		return
	}
	if sameIndex(incM, c.freshM) {
		run.Cover("b:recovery-equals-from-scratch")
		if !same && len(c.freshM) > 0 && run.WantSample() && wantSample("b", 1) {
			run.Sample(map[string]any{"part": "b/fault", "case": at, "accepted": "altered index: " + diffIndex(Rm, c.origM), "recovery": "scan(prev)=scan(nil)"})
		}
		return
	}
	// weak law
	if len(incM) != len(c.freshM) {
		run.Violation("C16/recovery/mismatch", fmt.Sprintf("%s: scan with the accepted index differs from the from-scratch scan: %s", at, diffIndex(incM, c.freshM)), wit())
		return
	}
	for i := range incM {
		if sameFile(incM[i], c.freshM[i]) {
			continue
		}
		ok := false
		for _, rf := range Rm {
			if rf.Path == c.freshM[i].Path && rf.ModTime == c.freshM[i].ModTime && sameFile(rf, incM[i]) {
				ok = true
				break
			}
		}
		if !ok {
			run.Violation("C16/recovery/mismatch", fmt.Sprintf("%s: entry %d of the scan with the accepted index is neither the from-scratch entry nor an entry of the accepted index with the same path and modification time: %s", at, i, diffFile(incM[i], c.freshM[i])), wit())
			return
		}
	}
	if strict && (variant == "pl-byte" || variant == "pl-prefix") {
		run.Violation("C16/recovery/malformed-payload-content-reused",
			fmt.Sprintf("%s: a payload whose length fields are inconsistent was accepted without error, and the following scan keeps the altered entry instead of rebuilding it: %s", at, diffIndex(incM, c.freshM)), wit())
		return
	}
	if strict {
		run.Violation("C16/recovery/corrupt-file-content-reused",
			fmt.Sprintf("%s: the corrupted cache file was accepted without error although its gzip checksum no longer matches, and the following scan keeps the altered entry instead of rebuilding it: %s", at, diffIndex(incM, c.freshM)), wit())
		return
	}
	run.Cover("b:recovery-reuses-undetectable-payload-change")
}

// ---------------------------------------------------------------- plan shared by parent and workers

type faultPlan struct {
	Specs []FaultSpec `json:"specs"`
}

func (p faultPlan) offsets() []int {
	off := make([]int, len(p.Specs)+1)
	for i, s := range p.Specs {
		off[i+1] = off[i] + s.cases()
	}
	return off
}

func readPlan(path string) (faultPlan, error) {
	var p faultPlan
	b, err := os.ReadFile(path)
	if err != nil {
		return p, err
	}
	return p, json.Unmarshal(b, &p)
}

// faultWorker is the child side of part (b).
func faultWorker(run *vrun.Run, root string) {
	if err := os.Chdir(root); err != nil {
		fmt.Fprintln(os.Stderr, "chdir:", err)
		os.Exit(3)
	}
	plan, err := readPlan("plan.json")
	if err != nil {
		fmt.Fprintln(os.Stderr, "plan:", err)
		os.Exit(3)
	}
	off := plan.offsets()
	// A defect that kills the reader on thousands of inputs would restart
	// this chunk once per input. Every restart carries the confirmed deaths
	// in --skip: they are recorded in a shared directory and the enumeration
	// is abandoned (inconclusive, never "held") once maxDeaths are known.
	// Solo confirmation runs (one case) always execute.
	os.MkdirAll("deaths", 0o755)
	for idx := range run.Skip {
		os.WriteFile(filepath.Join("deaths", fmt.Sprint(idx)), nil, 0o644)
	}
	abandoned := false
	if ents, _ := os.ReadDir("deaths"); len(ents) >= maxDeaths && run.WorkerHi-run.WorkerLo > 1 {
		abandoned = true
		run.Inconclusive(fmt.Sprintf("fault enumeration chunk abandoned after %d confirmed child deaths", maxDeaths))
	}
	var cur *faultCtx
	run.WorkerLoop(30, func(i int) {
		if abandoned {
			return
		}
		k := sort.SearchInts(off, i+1) - 1
		if k < 0 || k >= len(plan.Specs) {
			return
		}
		if cur == nil || cur.k != k {
			c, err := buildFaultCtx(k, plan.Specs[k], fmt.Sprintf("b%d", k), false)
			if err != nil || len(c.F) != plan.Specs[k].N || len(c.P) != plan.Specs[k].M {
				run.Inconclusive("harness: fault context differs between parent and worker")
				cur = &faultCtx{k: k}
				return
			}
			cur = c
		}
		if cur.F == nil {
			return
		}
		variant, pos, val := cur.faultCase(i - off[k])
		image, strict := cur.materialize(variant, pos, val)
		if image == nil {
			run.Cover("b:" + variant + ":identity-mutation-skipped")
			return
		}
		judgeImage(run, cur, variant, pos, val, image, strict, meterCfg{alloc: true})
	})
}
