// Package c16 monitors "The system font index survives persistence,
// corruption and incremental refresh".
//
// Events: what VerifSerialize / VerifDeserialize / VerifScan /
// VerifSerializeToFile / VerifRefreshSystemFontsIndex return (or panic with)
// on (a) generated indexes, (b) every prefix and every single-byte change of
// small cache files and of their re-compressed payloads, (c) the files the real
// serializeToFile leaves behind when a write system call fails (strace fault
// injection) and (d) temp directory trees that evolve by random histories.
// Oracles: a library-independent model of an index (canon.go) compared for
// identity; "error or well-formed"; incremental scan == from-scratch scan.
package c16

import (
	"bytes"
	"encoding/base64"
	"encoding/json"
	"fmt"
	"os"
	"path/filepath"
	"sort"
	"strings"
	"sync"
	"sync/atomic"
	"time"

	fs "github.com/go-text/typesetting/fontscan"

	"verifharness/internal/corpus"
	"verifharness/internal/gen"
	"verifharness/internal/vrun"
)

// mkRoot creates the run's temp directory and makes it the working directory:
// every tree is addressed by a relative path, so index bytes (and with them
// the enumerated case counts) do not depend on the random directory name.
func mkRoot() string {
	root, err := os.MkdirTemp("", "c16-*")
	if err != nil {
		fmt.Fprintln(os.Stderr, "temp dir:", err)
		os.Exit(3)
	}
	if err := os.Chdir(root); err != nil {
		fmt.Fprintln(os.Stderr, "chdir:", err)
		os.Exit(3)
	}
	return root
}

func Main() {
	if len(os.Args) > 1 && os.Args[1] == helperArg {
		helperMain(os.Args[2:])
	}
	run := vrun.Start("C16")
	if run.Worker {
		if len(run.Args) < 1 {
			fmt.Fprintln(os.Stderr, "worker: missing root")
			os.Exit(3)
		}
		faultWorker(run, run.Args[0])
		run.Finish(vrun.Level{})
	}
	if run.Replay != "" {
		// the working directory changes below
		if abs, err := filepath.Abs(run.Replay); err == nil {
			run.Replay = abs
		}
	}
	root := mkRoot()
	cleanup := func() {
		os.Chdir("/")
		os.RemoveAll(root)
	}
	if run.Replay != "" {
		replay(run)
		cleanup()
		run.Finish(vrun.Level{Level: "fault_enumeration", Rule: "replay"})
	}
	t0 := time.Now()
	partA(run)
	tA := time.Since(t0)
	partD(run)
	tD := time.Since(t0) - tA
	ctxs, plan := partBPrepare(run)
	partC(run, root, ctxs)
	tC := time.Since(t0) - tA - tD
	partBRun(run, root, ctxs, plan)
	tB := time.Since(t0) - tA - tD - tC
	run.Extra("part_wall_s", map[string]float64{"a_roundtrip": tA.Seconds(), "d_histories": tD.Seconds(), "b_fault_enumeration": tB.Seconds(), "c_crash_points": tC.Seconds()})
	cleanup()
	run.Finish(vrun.Level{
		Level: "fault_enumeration",
		Rule: "(a) generated indexes (synthetic extremes, corpus footprints, whole corpus scan in thorough): serialize/deserialize, per-footprint and through a file; " +
			"(b) for each small cache file F (<=4 KiB) and its payload P: every prefix of F, every byte of F set to 00/FF/^b/b+1, every prefix of P re-gzipped, every byte of P x4 re-gzipped, in child processes under ulimit -v with allocation and CPU metered per read; " +
			"(c) every write call of serializeTo failed through a failing writer, and every write system call of the real serializeToFile failed (ENOSPC/EIO) or shortened under strace; left-over files judged as in (b); real refreshSystemFontsIndex on left-over files; " +
			"(d) random histories on temp trees, after every step scan(prev)==scan(nil) on (index, error) plus conformance of the from-scratch index to an independent walk. " +
			"non-trivial = (a) index with at least one footprint, by hash of its model; (b,c) distinct (index, fault kind, error class) for rejected files and distinct accepted indexes; (d) steps where the previous index was non-empty and the tree change altered the index, by hash of (previous, current)",
		Assumptions: []string{
			"identity of indexes = same sequence of (path, modTime, footprints); nil and empty slices are the same; floats by bit pattern",
			"content changes always come with a new modification time (logical clock through os.Chtimes); the cache is keyed by path + modification time by design",
			"a payload fault re-compressed with a valid gzip checksum that leaves the payload's own structure intact (independent structural reader in fault.go: version, count, consistent segment and field lengths; trailing bytes allowed) cannot be told from a good file by any reader of this grammar: the recovery law for it accepts, per entry, the from-scratch entry or the accepted entry with the same path and modification time; file-level faults (prefixes, byte changes of F, crash images) and payload faults that break the structure must recover to exactly the from-scratch scan",
			"the whole-corpus index (thorough) gets 12000 sampled faults instead of the full enumeration",
			"reader budgets: bytes allocated <= 16 MiB + 4096*len(file), CPU <= 2 s per read",
			"expected footprints in the conformance law come from newFootprintFromLoader applied directly to the file bytes",
		},
		Floor: run.Pick(2000, 20000),
	})
}

// ---------------------------------------------------------------- (a) round trip

// RoundTripWitness is a self-contained index.
type RoundTripWitness struct {
	Part  string `json:"part"` // "roundtrip"
	Index MIndex `json:"index"`
	Note  string `json:"note,omitempty"`
}

func corpusFile(r *gen.RNG, path string) MFile {
	files := corpus.Files()
	var id string
	if r.Chance(3, 4) {
		id = gen.Pick(r, smallFonts())
	} else {
		id = files[r.Intn(len(files))].ID
	}
	f := MFile{Path: S(path), ModTime: tickTime(int64(r.Intn(1 << 20))).UnixNano()}
	for _, fp := range expectedFootprints(Content{Font: id}) {
		fp.File = S(path)
		f.Footprints = append(f.Footprints, fp)
	}
	return f
}

func genRoundTripIndex(seed int64, i int) MIndex {
	r := gen.New(seed, "C16/roundtrip", i)
	switch i % 4 {
	case 0:
		return genSynthIndex(r, r.Intn(7), 40, false)
	case 1:
		return genSynthIndex(r, 1+r.Intn(3), 65535, true)
	case 2:
		var m MIndex
		for j, n := 0, 1+r.Intn(12); j < n; j++ {
			m = append(m, corpusFile(r, fmt.Sprintf("/usr/share/fonts/d%d/f%d.ttf", r.Intn(3), j)))
		}
		return m
	}
	m := genSynthIndex(r, r.Intn(4), 300, false)
	for j, n := 0, 1+r.Intn(5); j < n; j++ {
		m = append(m, corpusFile(r, fmt.Sprintf("fonts/%d.otf", j)))
	}
	gen.Shuffle(r, m)
	return m
}

func judgeRoundTrip(run *vrun.Run, m MIndex, tag string, viaFile string) {
	run.Eval(1)
	wit := RoundTripWitness{Part: "roundtrip", Index: m, Note: tag}
	orig := buildIndex(m)
	om := modelIndex(orig)
	if !sameIndex(om, m) {
		run.Inconclusive("harness: model -> library -> model is not the identity")
		return
	}
	nfp, maxStr, maxScripts, maxPages := 0, 0, 0, 0
	for _, f := range m {
		nfp += len(f.Footprints)
		if len(f.Path) > maxStr {
			maxStr = len(f.Path)
		}
		for _, fp := range f.Footprints {
			if len(fp.Family) > maxStr {
				maxStr = len(fp.Family)
			}
			if len(fp.Scripts) > maxScripts {
				maxScripts = len(fp.Scripts)
			}
			if len(fp.Runes) > maxPages {
				maxPages = len(fp.Runes)
			}
			if len(fp.Runes) == 0 {
				run.Cover("a:footprint-empty-runeset")
			}
			if len(fp.Scripts) == 0 {
				run.Cover("a:footprint-empty-scriptset")
			}
			if fp.Weight&0x7F800000 == 0x7F800000 || fp.Stretch&0x7F800000 == 0x7F800000 {
				run.Cover("a:footprint-nan-or-inf-aspect")
			}
		}
		if len(f.Footprints) == 0 {
			run.Cover("a:file-without-footprint")
		}
	}
	if len(m) == 0 {
		run.Cover("a:empty-index")
	}
	if maxStr == 65535 {
		run.Cover("a:index-with-65535-byte-string")
	}
	if maxScripts == 255 {
		run.Cover("a:index-with-255-scripts")
	}
	if maxPages >= 0x1100 {
		run.Cover("a:index-with-4352-rune-pages")
	}
	run.Cover("a:kind=" + tag)
	if nfp > 0 {
		run.Nontrivial(vrun.Hash64("rt", m.canonBytes()))
	}
	var buf bytes.Buffer
	var back fs.VerifIndex
	var e1, e2 error
	pv, where := vrun.Catch(func() {
		e1 = fs.VerifSerialize(orig, &buf)
		if e1 == nil {
			back, e2 = fs.VerifDeserialize(bytes.NewReader(buf.Bytes()))
		}
	})
	switch {
	case pv != nil:
		run.Violation("C16/roundtrip/panic@"+vrun.TopFrame(where), fmt.Sprintf("round trip panicked: %v at %s", pv, where), wit)
		return
	case e1 != nil || e2 != nil:
		run.Violation("C16/roundtrip/error", fmt.Sprintf("round trip failed: serialize=%v deserialize=%v", e1, e2), wit)
		return
	}
	if d := diffIndex(modelIndex(back), om); d != "" {
		run.Violation("C16/roundtrip/differs", "index read back differs from the one written: "+d, wit)
		return
	}
	run.CoverN("a:cache-bytes", int64(buf.Len()))
	// the payload, decoded by the standard library alone, must carry the version and the entry count
	if pl, err := gunzip(buf.Bytes()); err != nil || len(pl) < 6 || int(pl[2])<<24|int(pl[3])<<16|int(pl[4])<<8|int(pl[5]) != len(m) {
		run.Violation("C16/roundtrip/payload-header", fmt.Sprintf("the written cache is not a gzip stream whose payload starts with version and the entry count %d (err=%v)", len(m), err), wit)
		return
	}
	// per footprint
	for _, f := range orig.Files() {
		for _, fp := range f.Footprints {
			var got fs.Footprint
			var n int
			var err error
			var data []byte
			pv, where := vrun.Catch(func() {
				data = fp.VerifSerialize()
				n, err = got.VerifDeserialize(data)
			})
			if pv != nil {
				run.Violation("C16/roundtrip/panic@"+vrun.TopFrame(where), fmt.Sprintf("footprint round trip panicked: %v at %s", pv, where), wit)
				return
			}
			if err != nil || n != len(data) {
				run.Violation("C16/roundtrip/footprint", fmt.Sprintf("footprint of %d bytes read back with n=%d err=%v", len(data), n, err), wit)
				return
			}
			if d := diffFootprint(modelFootprint(got), modelFootprint(fp)); d != "" {
				run.Violation("C16/roundtrip/footprint", "footprint read back differs: "+d, wit)
				return
			}
			run.Cover("a:footprint-roundtrips")
		}
	}
	// through a file, in a directory that does not exist yet
	if viaFile != "" {
		path := filepath.Join(viaFile, "cache", "font_index_v6.cache")
		var fback fs.VerifIndex
		if buf.Len()%2 == 0 {
			// the cache path already holds a (larger) cache file, as after fonts were removed:
			// writing must replace it, not overwrite its beginning
			os.MkdirAll(filepath.Dir(path), 0o700)
			old := append(append([]byte(nil), buf.Bytes()...), bytes.Repeat([]byte{0xAB}, 64+buf.Len())...)
			os.WriteFile(path, old, 0o600)
			run.Cover("a:file-rewritten-over-a-larger-file")
		}
		pv, where := vrun.Catch(func() {
			e1 = fs.VerifSerializeToFile(orig, path)
			if e1 == nil {
				fback, e2 = fs.VerifDeserializeFile(path)
			}
		})
		onDisk, _ := os.ReadFile(path)
		os.RemoveAll(viaFile)
		switch {
		case pv != nil:
			run.Violation("C16/roundtrip/panic@"+vrun.TopFrame(where), fmt.Sprintf("file round trip panicked: %v at %s", pv, where), wit)
			return
		case e1 != nil || e2 != nil:
			run.Violation("C16/roundtrip/file-error", fmt.Sprintf("file round trip failed: serializeToFile=%v deserializeIndexFile=%v", e1, e2), wit)
			return
		}
		if d := diffIndex(modelIndex(fback), om); d != "" {
			run.Violation("C16/roundtrip/file-differs", "index read back from the file differs: "+d, wit)
			return
		}
		if !bytes.Equal(onDisk, buf.Bytes()) {
			run.Violation("C16/roundtrip/file-bytes", fmt.Sprintf("serializeToFile wrote %d bytes that differ from the %d bytes of serializeTo", len(onDisk), buf.Len()), wit)
			return
		}
		run.Cover("a:file-roundtrips")
	}
	if nfp >= 2 && len(m) <= 4 && len(m) >= 2 && run.WantSample() && wantSample("a", 2) {
		var s []string
		for _, f := range m {
			s = append(s, fmt.Sprintf("%s mtime=%d footprints=%d", clip(f.Path), f.ModTime, len(f.Footprints)))
		}
		run.Sample(map[string]any{"part": "a/roundtrip", "kind": tag, "files": s, "cache_bytes": buf.Len()})
	}
}

func partA(run *vrun.Run) {
	n := run.Pick(40, 400)
	kinds := []string{"synthetic-small", "synthetic-extreme", "corpus", "mixed"}
	vrun.ParallelFor(n, func(i int) {
		judgeRoundTrip(run, genRoundTripIndex(run.Seed, i), kinds[i%4], fmt.Sprintf("a%d", i))
	})
	// boundary slide: pad entries push the size prefix of the entries that follow, byte by
	// byte, across each multiple of 32 KiB of the uncompressed payload (the inflater ends a
	// Read there, so a reader that does not insist on full reads loses sync exactly then)
	slides := run.Pick(256, 3*256)
	vrun.ParallelFor(slides, func(i int) {
		r := gen.New(run.Seed, "C16/slide", i%8)
		var m MIndex
		remaining := 32768*(1+i/256) - 200 + i%256
		for j := 0; remaining > 0; j++ {
			n := remaining
			if n > 60000 {
				n = 60000
			}
			m = append(m, MFile{Path: S(fmt.Sprintf("/pad%d/", j) + strings.Repeat("p", n)), ModTime: tickTime(int64(j)).UnixNano()})
			remaining -= n + 24
		}
		m = append(m, genSynthIndex(r, 6, 40, false)...)
		judgeRoundTrip(run, m, "boundary-slide", fmt.Sprintf("s%d", i))
	})
	if run.Thorough() {
		// the whole corpus, scanned by the real scanner
		u := corpus.UtilsDir()
		dirs := []string{filepath.Join(u, "harfbuzz"), filepath.Join(u, "opentype"), filepath.Join(corpus.RepoDir(), "font/testdata"), "/usr/share/fonts/truetype/dejavu"}
		idx, err, pv, where := scanCaught(fs.VerifIndex{}, dirs)
		if pv != nil {
			run.Violation("C16/scan/panic@"+vrun.TopFrame(where), fmt.Sprintf("scanning the corpus panicked: %v at %s", pv, where), RoundTripWitness{Part: "corpus-scan"})
			return
		}
		if err != nil {
			run.Inconclusive("corpus scan returned an error")
			run.Note("corpus scan: %v", err)
			return
		}
		m := modelIndex(idx)
		run.Extra("corpus_index_files", len(m))
		judgeRoundTrip(run, m, "whole-corpus-scan", "acorpus")
		// and an incremental scan over the unchanged corpus is the same index
		inc, err2, pv2, where2 := scanCaught(idx, dirs)
		if pv2 != nil || err2 != nil {
			run.Violation("C16/refresh/error-differs", fmt.Sprintf("incremental corpus scan: err=%v panic=%v %s", err2, pv2, where2), RoundTripWitness{Part: "corpus-scan"})
			return
		}
		if d := diffIndex(modelIndex(inc), m); d != "" {
			run.Violation("C16/refresh/incremental-differs", "corpus: incremental vs from-scratch: "+d, RoundTripWitness{Part: "corpus-scan"})
		}
	}
}

// ---------------------------------------------------------------- (d) histories

func partD(run *vrun.Run) {
	nh, steps := run.Pick(1500, 20000), run.Pick(14, 30)
	run.Extra("histories", map[string]int{"count": nh, "steps_each": steps})
	smallFonts()
	vrun.ParallelFor(nh, func(i int) {
		runHistory(run, fmt.Sprintf("h%d", i), genHistory(run.Seed, i, steps))
	})
}

// ---------------------------------------------------------------- (b) fault enumeration

const maxCacheFile = 4096

func partBPrepare(run *vrun.Run) ([]*faultCtx, faultPlan) {
	K := run.Pick(40, 400)
	var plan faultPlan
	var ctxs []*faultCtx
	for k := 0; k < K; k++ {
		var c *faultCtx
		for shrink := 0; shrink <= 5; shrink++ {
			sp := genFaultSpec(run.Seed, k, shrink)
			cc, err := buildFaultCtx(k, sp, fmt.Sprintf("b%d", k), true)
			if err != nil {
				run.Note("fault context %d: %v", k, err)
				break
			}
			if len(cc.F) <= maxCacheFile {
				c = cc
				break
			}
		}
		if c == nil {
			run.Inconclusive("harness: no fault context within the size bound")
			plan.Specs = append(plan.Specs, FaultSpec{})
			continue
		}
		c.spec.N, c.spec.M = len(c.F), len(c.P)
		plan.Specs = append(plan.Specs, c.spec)
		ctxs = append(ctxs, c)
		run.Cover("b:index-entries=" + fmt.Sprint(len(c.origM)))
		if c.spec.Synth != nil {
			run.Cover("b:index-kind=synthetic")
		} else {
			run.Cover("b:index-kind=scan-of-tree")
		}
	}
	if run.Thorough() {
		// the whole corpus index: sampled faults
		sp := FaultSpec{Corpus: true, Sampled: 12000, Seed: run.Seed}
		c, err := buildFaultCtx(K, sp, "", false)
		if err != nil || c.freshE != "" {
			run.Inconclusive("harness: corpus index context unavailable")
			plan.Specs = append(plan.Specs, FaultSpec{})
		} else {
			c.spec.N, c.spec.M = len(c.F), len(c.P)
			plan.Specs = append(plan.Specs, c.spec)
			ctxs = append(ctxs, c)
			run.Cover("b:index-kind=whole-corpus-scan(sampled)")
			run.Extra("corpus_index", map[string]int{"entries": len(c.origM), "cache_file_bytes": len(c.F), "payload_bytes": len(c.P), "sampled_faults": sp.Sampled})
		}
	}
	return ctxs, plan
}

func partBRun(run *vrun.Run, root string, ctxs []*faultCtx, plan faultPlan) {
	b, _ := json.Marshal(plan)
	if err := os.WriteFile("plan.json", b, 0o644); err != nil {
		run.Inconclusive("harness: cannot write plan")
		return
	}
	off := plan.offsets()
	total := off[len(off)-1]
	var nF, nP int
	for _, s := range plan.Specs {
		if s.Sampled == 0 {
			nF += s.N
			nP += s.M
		}
	}
	run.Extra("fault_enumeration", map[string]int{"indexes": len(ctxs), "cache_file_bytes_total": nF, "payload_bytes_total": nP, "cases": total})
	// the children run under a small address-space limit so that a runaway
	// allocation dies at once instead of filling the machine; keep glibc from
	// reserving one 64 MiB arena per thread inside that limit
	os.Setenv("MALLOC_ARENA_MAX", "1")
	run.RunChildren(vrun.ChildCfg{N: total, Chunk: 3000, MemKiB: 1536 << 10, ExtraArgs: []string{root}}, func(d vrun.Death) {
		k := sort.SearchInts(off, d.Case+1) - 1
		var wit any = map[string]any{"case": d.Case}
		at := fmt.Sprintf("fault case %d", d.Case)
		for _, c := range ctxs {
			if c.k == k {
				variant, pos, val := c.faultCase(d.Case - off[k])
				image, strict := c.materialize(variant, pos, val)
				w := FaultWitness{Part: "fault", K: c.k, Spec: c.spec, Variant: variant, Pos: pos, Val: val, Strict: strict}
				if len(image) <= 64<<10 {
					w.Image = base64.StdEncoding.EncodeToString(image)
				}
				wit = w
				at = fmt.Sprintf("index %d, %s pos=%d val=%d", k, variant, pos, val)
			}
		}
		run.Violation("C16/reader/"+d.Kind+"-death", fmt.Sprintf("%s: the process reading the file died (%s): %s", at, d.Kind, vrun.FatalHead(d.Detail)), wit)
	})
}

// ---------------------------------------------------------------- (c) crash points

func partC(run *vrun.Run, root string, ctxs []*faultCtx) {
	// failing writer at every write call, every context
	vrun.ParallelFor(len(ctxs), func(i int) {
		c := ctxs[i]
		if c.spec.Corpus {
			return
		}
		cc := *c
		cc.seen = map[uint64]bool{}
		orig := buildIndex(c.origM)
		writerFaults(run, &cc, orig)
	})
	ok, why := straceAvailable(root)
	run.Extra("strace_injection_works", ok)
	if !ok {
		run.Inconclusive("strace fault injection unavailable: " + why)
		return
	}
	// real serializeToFile under strace: every write system call
	var sel []*faultCtx
	for _, c := range ctxs {
		if c.spec.Synth == nil && len(c.origM) > 0 && !c.spec.Corpus {
			sel = append(sel, c)
		}
	}
	if n := run.Pick(6, 64); len(sel) > n {
		sel = sel[:n]
	}
	var wg sync.WaitGroup
	sem := make(chan struct{}, 16)
	for i, c := range sel {
		wg.Add(1)
		sem <- struct{}{}
		go func(i int, c *faultCtx) {
			defer wg.Done()
			defer func() { <-sem }()
			cc := *c
			cc.seen = map[uint64]bool{}
			dir := fmt.Sprintf("s%d", i)
			os.MkdirAll(dir, 0o755)
			straceSweep(run, &cc, dir, run.Thorough() || i == 0)
			os.RemoveAll(dir)
		}(i, c)
	}
	wg.Wait()
	refreshSweep(run, root)
}

// refreshSweep: the cache of the default font directories (host fonts plus a
// temp XDG data directory) is written under strace with a failure at every
// write system call; the real refreshSystemFontsIndex then runs on every
// left-over file.
func refreshSweep(run *vrun.Run, root string) {
	xdg := filepath.Join(root, "xdg")
	os.Setenv("XDG_DATA_DIRS", xdg)
	os.Setenv("XDG_DATA_HOME", filepath.Join(root, "xdg-home"))
	r := gen.New(run.Seed, "C16/refresh", 0)
	t := newTreeModel([]string{"xdg/fonts"})
	for i := 0; i < 3; i++ {
		op := Op{Kind: "write", Path: "xdg/fonts/" + fontNames[i], Content: genContent(r, true), Tick: t.next()}
		os.MkdirAll("xdg/fonts", 0o755)
		if err := op.apply("."); err != nil {
			run.Inconclusive("harness: cannot build XDG font dir")
			return
		}
	}
	dirs, err := fs.DefaultFontDirectories(nopLogger{})
	found := false
	for _, d := range dirs {
		if strings.HasPrefix(d, xdg) {
			found = true
		}
	}
	if err != nil || !found {
		run.Inconclusive("refresh: temp XDG directory not among the default font directories")
		return
	}
	run.Extra("refresh_font_dirs", len(dirs))
	scratch, errS, pv, _ := scanCaught(fs.VerifIndex{}, dirs)
	if pv != nil || errS != nil {
		run.Inconclusive("refresh: scan of default directories failed")
		return
	}
	want := modelIndex(scratch)
	var buf bytes.Buffer
	if err := fs.VerifSerialize(scratch, &buf); err != nil {
		run.Inconclusive("refresh: cannot serialize")
		return
	}
	G := buf.Bytes()
	os.MkdirAll("rf", 0o755)
	in, out := "rf/good.cache", "rf/out.cache"
	os.WriteFile(in, G, 0o644)
	base, err := straceHelper(in, out, "")
	if err != nil || base.exit != 0 {
		run.Inconclusive("refresh: strace baseline failed")
		return
	}
	W := len(base.writes)
	run.CoverN("c:refresh-strace-write-syscalls", int64(W))
	stride := 1
	if !run.Thorough() && W > 24 {
		stride = (W + 23) / 24
	}
	type job struct {
		N    int
		kind string
	}
	var jobs []job
	for N := 1; N <= W; N += stride {
		jobs = append(jobs, job{N, "ENOSPC"}, job{N, "short"})
	}
	// also: no cache at all, an empty file, the intact file
	jobs = append(jobs, job{0, "missing"}, job{0, "empty"}, job{0, "intact"})
	var failed atomic.Bool
	vrun.ParallelFor(len(jobs), func(i int) {
		if failed.Load() {
			return
		}
		j := jobs[i]
		dir := fmt.Sprintf("rf/j%d", i)
		os.MkdirAll(dir, 0o755)
		defer os.RemoveAll(dir)
		leftover := filepath.Join(dir, "left.cache")
		cachePath := filepath.Join(dir, "cachedir", "font_index_v6.cache")
		var img []byte
		switch j.kind {
		case "missing":
		case "empty":
			img = []byte{}
		case "intact":
			img = G
		default:
			inject := fmt.Sprintf("error=ENOSPC:when=%d", j.N)
			if j.kind == "short" {
				inject = fmt.Sprintf("retval=1:when=%d", j.N)
				if base.writes[j.N-1] < 2 {
					return
				}
			}
			res, err := straceHelper(in, leftover, inject)
			if err != nil || res.injected != 1 {
				run.Inconclusive("strace run unusable")
				run.Note("refresh strace %s: err=%v injected=%d exit=%d log=%q", inject, err, res.injected, res.exit, res.log)
				return
			}
			img, _ = os.ReadFile(leftover)
			if j.kind == "ENOSPC" && res.exit != 7 {
				run.Violation("C16/writer/error-swallowed", fmt.Sprintf("refresh cache: write system call %d of %d failed with ENOSPC but serializeToFile returned nil", j.N, W), FaultWitness{Part: "refresh", Variant: "crash-strace-ENOSPC", Pos: j.N})
				failed.Store(true)
				return
			}
		}
		run.Eval(1)
		run.Cover("c:refresh-on-leftover:" + j.kind)
		wit := FaultWitness{Part: "refresh", Variant: "refresh-" + j.kind, Pos: j.N, Image: base64.StdEncoding.EncodeToString(img), Strict: true}
		if len(img) > 1<<16 {
			wit.Image = ""
		}
		if img != nil {
			os.MkdirAll(filepath.Dir(cachePath), 0o755)
			os.WriteFile(cachePath, img, 0o644)
		}
		var got fs.VerifIndex
		var err error
		pv, where := vrun.Catch(func() { got, err = fs.VerifRefreshSystemFontsIndex(nopLogger{}, cachePath) })
		at := fmt.Sprintf("refreshSystemFontsIndex on the file left by %s at write %d/%d (%d of %d bytes)", j.kind, j.N, W, len(img), len(G))
		if pv != nil {
			run.Violation("C16/refresh/panic@"+vrun.TopFrame(where), fmt.Sprintf("%s panicked: %v at %s", at, pv, where), wit)
			return
		}
		if err != nil {
			run.Violation("C16/refresh/leftover-not-recovered", fmt.Sprintf("%s returned an error instead of rebuilding: %v", at, err), wit)
			return
		}
		gm := modelIndex(got)
		if d := diffIndex(gm, want); d != "" {
			key := "C16/recovery/mismatch"
			if _, rerr := fs.VerifDeserialize(bytes.NewReader(img)); rerr == nil && img != nil {
				key = "C16/recovery/corrupt-file-content-reused"
			}
			run.Violation(key, fmt.Sprintf("%s differs from the from-scratch scan: %s", at, d), wit)
			return
		}
		back, err := fs.VerifDeserializeFile(cachePath)
		if err != nil {
			run.Violation("C16/refresh/cache-not-rewritten", fmt.Sprintf("%s: the cache file written by the refresh cannot be read: %v", at, err), wit)
			return
		}
		if d := diffIndex(modelIndex(back), gm); d != "" {
			run.Violation("C16/refresh/cache-not-rewritten", fmt.Sprintf("%s: the cache file written by the refresh differs from the returned index: %s", at, d), wit)
			return
		}
		run.Nontrivial(vrun.Hash64("refresh", j.kind, j.N, img))
		run.Cover("c:refresh-recovered")
	})
	os.RemoveAll("rf")
	os.RemoveAll("xdg")
}

// ---------------------------------------------------------------- replay

func replay(run *vrun.Run) {
	var probe struct {
		Part string `json:"part"`
	}
	if _, err := vrun.ReadReplay(run.Replay, &probe); err != nil {
		fmt.Println("replay:", err)
		return
	}
	switch probe.Part {
	case "roundtrip":
		var w RoundTripWitness
		vrun.ReadReplay(run.Replay, &w)
		judgeRoundTrip(run, w.Index, w.Note, "areplay")
	case "history":
		var w HistWitness
		vrun.ReadReplay(run.Replay, &w)
		runHistory(run, "h0", w)
	case "fault":
		var w FaultWitness
		vrun.ReadReplay(run.Replay, &w)
		c, err := buildFaultCtx(w.K, w.Spec, fmt.Sprintf("b%d", w.K), true)
		if err != nil {
			fmt.Println("replay: cannot rebuild the fault context:", err)
			return
		}
		switch {
		case w.Variant == "writer-fail":
			writerFaults(run, c, buildIndex(c.origM))
		case w.Image != "" || (w.Variant == "gz-prefix" && w.Pos == 0):
			img, _ := base64.StdEncoding.DecodeString(w.Image)
			judgeImage(run, c, w.Variant, w.Pos, w.Val, img, w.Strict, meterCfg{alloc: true})
		case strings.HasPrefix(w.Variant, "gz-") || strings.HasPrefix(w.Variant, "pl-"):
			if img, strict := c.materialize(w.Variant, w.Pos, w.Val); img != nil {
				judgeImage(run, c, w.Variant, w.Pos, w.Val, img, strict, meterCfg{alloc: true})
			}
		default:
			if ok, _ := straceAvailable("."); ok {
				os.MkdirAll("s0", 0o755)
				straceSweep(run, c, "s0", true)
			}
		}
	case "refresh":
		refreshSweep(run, mustGetwd())
	default:
		fmt.Println("replay: unknown witness part", probe.Part)
	}
}

func mustGetwd() string {
	d, _ := os.Getwd()
	return d
}
