package c16

import (
	"bytes"
	"fmt"
	"os"
	"path/filepath"
	"sort"
	"strings"
	"sync"
	"time"

	ot "github.com/go-text/typesetting/font/opentype"
	fs "github.com/go-text/typesetting/fontscan"

	"verifharness/internal/corpus"
	"verifharness/internal/gen"
)

// nopLogger satisfies fontscan.Logger.
type nopLogger struct{}

func (nopLogger) Printf(string, ...interface{}) {}

// ---------------------------------------------------------------- contents

// Content names the bytes of a file: a corpus font, a prefix of one, or
// generated junk. It is self-contained given the corpus.
type Content struct {
	Font string `json:"font,omitempty"` // corpus file id
	Cut  int    `json:"cut,omitempty"`  // >0: only the first Cut bytes of the font
	Junk int64  `json:"junk,omitempty"` // junk stream id (Font == "")
	Len  int    `json:"len,omitempty"`  // junk length
}

func (c Content) key() string { return fmt.Sprintf("%s|%d|%d|%d", c.Font, c.Cut, c.Junk, c.Len) }

func (c Content) bytes() []byte {
	if c.Font != "" {
		f := corpus.ByID(c.Font)
		if f == nil {
			return nil
		}
		b := f.Bytes()
		if c.Cut > 0 && c.Cut < len(b) {
			b = b[:c.Cut]
		}
		return b
	}
	r := gen.New(c.Junk, "C16/junk", c.Len)
	b := make([]byte, c.Len)
	if c.Junk%2 == 0 {
		for i := range b {
			b[i] = byte(r.U64())
		}
	} else {
		const txt = "font index readme\n"
		for i := range b {
			b[i] = txt[i%len(txt)]
		}
	}
	return b
}

var (
	expMu    sync.Mutex
	expCache = map[string][]MFootprint{}
)

// expectedFootprints computes, directly from the bytes and with fresh
// buffers, the footprints a scan of a file with this content must record
// (Location.File left empty; Index = loader index, failed loaders skipped).
func expectedFootprints(c Content) []MFootprint {
	k := c.key()
	expMu.Lock()
	if v, ok := expCache[k]; ok {
		expMu.Unlock()
		return v
	}
	expMu.Unlock()
	var out []MFootprint
	func() {
		defer func() { recover() }()
		lds, _ := ot.NewLoaders(bytes.NewReader(c.bytes()))
		for i, ld := range lds {
			fp, err := fs.VerifFootprintFromLoader(ld, false)
			if err != nil {
				continue
			}
			fp.Location.Index = uint16(i)
			out = append(out, modelFootprint(fp))
		}
	}()
	expMu.Lock()
	expCache[k] = out
	expMu.Unlock()
	return out
}

var (
	poolOnce   sync.Once
	pool       []string // corpus ids of small files
	poolMulti  []string // small collections
	poolMedium []string // files up to 512 KiB (larger rune sets)
	poolRich   []string // real-world fonts (many rune pages)
)

// smallFonts lists corpus files of at most 24 KiB (deterministic order).
func smallFonts() []string {
	poolOnce.Do(func() {
		for _, f := range corpus.Files() {
			st, err := os.Stat(f.Abs)
			if err != nil || st.Size() == 0 {
				continue
			}
			if st.Size() <= 512<<10 || strings.HasPrefix(f.ID, "repo/") || strings.HasPrefix(f.ID, "sys/") {
				poolMedium = append(poolMedium, f.ID)
			}
			if strings.HasPrefix(f.ID, "repo/") || strings.HasPrefix(f.ID, "sys/") {
				poolRich = append(poolRich, f.ID)
			}
			if st.Size() > 24<<10 {
				continue
			}
			pool = append(pool, f.ID)
			e := strings.ToLower(filepath.Ext(f.ID))
			if e == ".ttc" || e == ".dfont" {
				poolMulti = append(poolMulti, f.ID)
			}
		}
	})
	return pool
}

// ---------------------------------------------------------------- logical clock

// tickTime maps a logical tick to a modification time. Seconds are unique per
// tick (survives file systems with coarse timestamps); nanoseconds are odd
// values to exercise the full 64-bit stamp.
func tickTime(tick int64) time.Time {
	return time.Unix(1_000_000_000+tick*3, (tick*100_000_007+1)%1_000_000_000)
}

// ---------------------------------------------------------------- operations

// Op is one file-system change of a history (paths relative to the history
// directory).
type Op struct {
	Kind    string  `json:"kind"`
	Path    string  `json:"path,omitempty"`
	To      string  `json:"to,omitempty"` // rename destination / symlink target (as stored in the link)
	Content Content `json:"content,omitempty"`
	Tick    int64   `json:"tick,omitempty"`
	// DirTick: logical time given to the directories the operation modifies
	// (their modification time shows up in the index through directory
	// symlinks; without it the index bytes would depend on the wall clock).
	DirTick int64 `json:"dir_tick,omitempty"`
}

func (o Op) String() string {
	switch o.Kind {
	case "write":
		return fmt.Sprintf("write %s <- %s @%d", o.Path, o.Content.key(), o.Tick)
	case "touch":
		return fmt.Sprintf("touch %s @%d", o.Path, o.Tick)
	case "rename", "symlink":
		return fmt.Sprintf("%s %s -> %s", o.Kind, o.Path, o.To)
	}
	return o.Kind + " " + o.Path
}

// apply performs the operation below base and stamps the directories it
// modified with the operation's logical directory time.
func (o Op) apply(base string) error {
	if err := o.apply1(base); err != nil {
		return err
	}
	if o.DirTick != 0 {
		t := tickTime(o.DirTick)
		stamp := func(p string) {
			if st, err := os.Lstat(p); err == nil && st.IsDir() {
				os.Chtimes(p, t, t)
			}
		}
		stamp(filepath.Dir(filepath.Join(base, o.Path)))
		if o.Kind == "rename" {
			stamp(filepath.Dir(filepath.Join(base, o.To)))
			stamp(filepath.Join(base, o.To))
		}
		if o.Kind == "mkdir" {
			stamp(filepath.Join(base, o.Path))
		}
	}
	return nil
}

func (o Op) apply1(base string) error {
	p := filepath.Join(base, o.Path)
	switch o.Kind {
	case "write":
		// never write through a symlink: replace the directory entry
		if st, err := os.Lstat(p); err == nil && st.Mode()&os.ModeSymlink != 0 {
			os.Remove(p)
		}
		if err := os.WriteFile(p, o.Content.bytes(), 0o644); err != nil {
			return err
		}
		t := tickTime(o.Tick)
		return os.Chtimes(p, t, t)
	case "touch":
		t := tickTime(o.Tick)
		return os.Chtimes(p, t, t)
	case "remove":
		return os.Remove(p)
	case "rmtree":
		return os.RemoveAll(p)
	case "mkdir":
		return os.MkdirAll(p, 0o755)
	case "rename":
		return os.Rename(p, filepath.Join(base, o.To))
	case "symlink":
		os.Remove(p)
		return os.Symlink(o.To, p)
	}
	return fmt.Errorf("unknown op %q", o.Kind)
}

// ---------------------------------------------------------------- tree model (generator side)

type node struct {
	kind    byte // 'f' file, 'd' directory, 'l' symlink
	content Content
	tick    int64
	target  string // symlink: path relative to the history dir of what it points to ("" = dangling)
}

type treeModel struct {
	nodes map[string]*node
	tick  int64
}

func newTreeModel(roots []string) *treeModel {
	t := &treeModel{nodes: map[string]*node{}}
	for _, r := range roots {
		parts := strings.Split(r, "/")
		for i := range parts {
			t.nodes[strings.Join(parts[:i+1], "/")] = &node{kind: 'd'}
		}
	}
	return t
}

func (t *treeModel) sorted(kind string) []string {
	var out []string
	for p, n := range t.nodes {
		if strings.IndexByte(kind, n.kind) >= 0 {
			out = append(out, p)
		}
	}
	sort.Strings(out)
	return out
}

func (t *treeModel) next() int64 { t.tick++; return t.tick }

func hasPrefixPath(p, dir string) bool { return p == dir || strings.HasPrefix(p, dir+"/") }

// record mirrors an applied op in the model.
func (t *treeModel) record(o Op) {
	switch o.Kind {
	case "write":
		t.nodes[o.Path] = &node{kind: 'f', content: o.Content, tick: o.Tick}
	case "touch":
		t.nodes[o.Path].tick = o.Tick
	case "remove":
		delete(t.nodes, o.Path)
	case "rmtree":
		for p := range t.nodes {
			if hasPrefixPath(p, o.Path) {
				delete(t.nodes, p)
			}
		}
	case "mkdir":
		t.nodes[o.Path] = &node{kind: 'd'}
	case "rename":
		moved := map[string]*node{}
		for p, n := range t.nodes {
			if hasPrefixPath(p, o.Path) {
				moved[o.To+strings.TrimPrefix(p, o.Path)] = n
				delete(t.nodes, p)
			}
		}
		for p, n := range moved {
			t.nodes[p] = n
		}
	case "symlink":
		t.nodes[o.Path] = &node{kind: 'l', target: o.To}
	}
}

var fontNames = []string{"a.ttf", "b.otf", "c.ttc", "A.TTF", "z.woff", "font", "m.dfont", "n.otb", "b.ttf"}
var junkNames = []string{"readme.txt", "notes", "x.ttf", "fonts.cache-1", "y.otf"}
var ignoredNames = []string{".hidden.ttf", "m.afm", "p.pfb", "q.pcf.gz", "e.enc.gz", "fonts.dir", "fonts.scale", "fonts.alias", "x.pfm", "x.pcf", ".uuid"}
var dirNames = []string{"d1", "d2", "n", "m", "TTF"}
var linkNames = []string{"l.ttf", "k.otf", "ld", "lk", "a.ttf"}

func genContent(r *gen.RNG, wantFont bool) Content {
	p := smallFonts()
	if wantFont {
		if len(poolMulti) > 0 && r.Chance(1, 8) {
			return Content{Font: gen.Pick(r, poolMulti)}
		}
		return Content{Font: gen.Pick(r, p)}
	}
	switch r.Intn(4) {
	case 0:
		return Content{Junk: int64(r.Intn(1000))*2 + 2, Len: r.Intn(300)}
	case 1:
		return Content{Junk: int64(r.Intn(1000))*2 + 1, Len: 1 + r.Intn(200)}
	case 2:
		return Content{Junk: 2, Len: 0} // empty file
	}
	id := gen.Pick(r, p)
	n := len(corpus.ByID(id).Bytes())
	return Content{Font: id, Cut: 1 + r.Intn(n)} // truncated font
}

// maxDepth bounds how deep below the history directory a path may lie. A
// relative symlink that is renamed elsewhere keeps its text, so it may climb
// up to maxDepth levels above its new place: histPad private directory levels
// above the roots keep such links inside the history's own directory.
const (
	maxDepth = 7
	histPad  = "p/p/p/p/p/p/p/p"
)

func depth(p string) int { return strings.Count(p, "/") + 1 }

func (t *treeModel) subtreeDepth(p string) int {
	d := 0
	for q := range t.nodes {
		if hasPrefixPath(q, p) && depth(q)-depth(p) > d {
			d = depth(q) - depth(p)
		}
	}
	return d
}

// genOp draws the next operation of a history from the current model. It
// always returns an applicable operation.
func (t *treeModel) genOp(r *gen.RNG, roots []string) Op {
	op := t.genOp1(r, roots)
	op.DirTick = t.next()
	return op
}

func (t *treeModel) genOp1(r *gen.RNG, roots []string) Op {
	for tries := 0; ; tries++ {
		dirs := t.sorted("d")
		files := t.sorted("f")
		links := t.sorted("l")
		isRoot := func(p string) bool {
			for _, q := range roots {
				if hasPrefixPath(q, p) {
					return true
				}
			}
			return false
		}
		k := r.Intn(100)
		switch {
		case k < 26 || len(files) == 0 && k < 60: // add a file (or overwrite one)
			d := gen.Pick(r, dirs)
			var name string
			var c Content
			switch x := r.Intn(10); {
			case x < 6:
				name, c = gen.Pick(r, fontNames), genContent(r, true)
			case x < 8:
				name, c = gen.Pick(r, junkNames), genContent(r, false)
			default:
				name, c = gen.Pick(r, ignoredNames), genContent(r, r.Bool())
			}
			p := d + "/" + name
			if n := t.nodes[p]; n != nil && n.kind == 'd' {
				continue
			}
			return Op{Kind: "write", Path: p, Content: c, Tick: t.next()}
		case k < 38: // replace content
			if len(files) == 0 {
				continue
			}
			p := gen.Pick(r, files)
			return Op{Kind: "write", Path: p, Content: genContent(r, r.Chance(3, 4)), Tick: t.next()}
		case k < 48: // touch
			if len(files) == 0 {
				continue
			}
			return Op{Kind: "touch", Path: gen.Pick(r, files), Tick: t.next()}
		case k < 60: // remove file or link
			cand := append(append([]string{}, files...), links...)
			// dangling links make the whole scan fail; get rid of them sooner
			for _, l := range links {
				if t.dangling(l) {
					cand = append(cand, l, l, l)
				}
			}
			if len(cand) == 0 {
				continue
			}
			return Op{Kind: "remove", Path: gen.Pick(r, cand)}
		case k < 72: // rename
			cand := append(append([]string{}, files...), links...)
			for _, d := range dirs {
				if !isRoot(d) {
					cand = append(cand, d)
				}
			}
			if len(cand) == 0 {
				continue
			}
			src := gen.Pick(r, cand)
			sn := t.nodes[src]
			dd := gen.Pick(r, dirs)
			var name string
			switch {
			case sn.kind == 'd':
				name = gen.Pick(r, dirNames)
			case r.Chance(1, 5):
				name = gen.Pick(r, ignoredNames)
			case r.Chance(1, 2):
				name = filepath.Base(src)
			default:
				name = gen.Pick(r, fontNames)
			}
			dst := dd + "/" + name
			if dst == src || hasPrefixPath(dst, src) || depth(dst)+t.subtreeDepth(src) > maxDepth {
				continue
			}
			if dn := t.nodes[dst]; dn != nil && (sn.kind == 'd' || dn.kind == 'd') {
				continue
			}
			return Op{Kind: "rename", Path: src, To: dst}
		case k < 79: // mkdir
			p := gen.Pick(r, dirs) + "/" + gen.Pick(r, dirNames)
			if t.nodes[p] != nil || depth(p) >= maxDepth {
				continue
			}
			return Op{Kind: "mkdir", Path: p}
		case k < 83: // remove a directory tree
			var cand []string
			for _, d := range dirs {
				if !isRoot(d) {
					cand = append(cand, d)
				}
			}
			if len(cand) == 0 {
				continue
			}
			return Op{Kind: "rmtree", Path: gen.Pick(r, cand)}
		case k < 92: // file symlink (new or retargeted)
			if len(files) == 0 {
				continue
			}
			p := gen.Pick(r, dirs) + "/" + gen.Pick(r, linkNames)
			if len(links) > 0 && r.Chance(1, 3) {
				p = gen.Pick(r, links)
			}
			if n := t.nodes[p]; n != nil && n.kind != 'l' {
				continue
			}
			tgt := gen.Pick(r, files)
			return Op{Kind: "symlink", Path: p, To: relTarget(p, tgt, r.Chance(1, 4))}
		case k < 98: // directory symlink (possibly a loop to an ancestor)
			p := gen.Pick(r, dirs) + "/" + gen.Pick(r, linkNames)
			if n := t.nodes[p]; n != nil && n.kind != 'l' {
				continue
			}
			return Op{Kind: "symlink", Path: p, To: relTarget(p, gen.Pick(r, dirs), false)}
		default: // dangling symlink
			if tries < 3 && !r.Chance(1, 3) {
				continue
			}
			p := gen.Pick(r, dirs) + "/" + gen.Pick(r, linkNames)
			if n := t.nodes[p]; n != nil && n.kind != 'l' {
				continue
			}
			return Op{Kind: "symlink", Path: p, To: "nowhere.ttf"}
		}
	}
}

// relTarget returns the link text for a link at path p pointing to tgt (both
// relative to the history dir): always a relative path, optionally spelled
// with a leading "./".
func relTarget(p, tgt string, detour bool) string {
	rel, err := filepath.Rel(filepath.Dir(p), tgt)
	if err != nil {
		return tgt
	}
	if detour {
		// same target through "./"
		return "./" + rel
	}
	return rel
}

// resolve follows a link text from the link's location in the model.
func (t *treeModel) resolve(link string) (string, *node) {
	seen := 0
	p := link
	for {
		n := t.nodes[p]
		if n == nil {
			return "", nil
		}
		if n.kind != 'l' {
			return p, n
		}
		seen++
		if seen > 8 {
			return "", nil
		}
		p = filepath.Join(filepath.Dir(p), n.target)
	}
}

func (t *treeModel) dangling(link string) bool {
	_, n := t.resolve(link)
	return n == nil
}

// ---------------------------------------------------------------- independent tree walk (conformance side)

type diskFile struct {
	path    string // as the scanner would spell it: root + "/" + relative
	mtime   int64  // of the file the path resolves to
	real    string // path of the regular file it resolves to, relative to base
	symlink bool
}

// walkDisk lists, for the given roots below base, every non-directory entry
// reachable without descending through symlinks that resolves to a regular
// file, with the spelling filepath.WalkDir(root) gives it.
func walkDisk(base string, roots []string) (files []diskFile, dirLinks, broken int) {
	seen := map[string]bool{}
	var rec func(dir string)
	rec = func(dir string) {
		ents, err := os.ReadDir(filepath.Join(base, dir))
		if err != nil {
			return
		}
		for _, e := range ents {
			p := dir + "/" + e.Name()
			if e.IsDir() {
				rec(p)
				continue
			}
			if seen[p] {
				continue
			}
			seen[p] = true
			st, err := os.Stat(filepath.Join(base, p))
			if err != nil {
				broken++
				continue
			}
			if st.IsDir() {
				dirLinks++
				continue
			}
			if !st.Mode().IsRegular() {
				continue
			}
			df := diskFile{path: p, mtime: st.ModTime().UnixNano(), real: p}
			if e.Type()&os.ModeSymlink != 0 {
				df.symlink = true
				if rp, err := filepath.EvalSymlinks(filepath.Join(base, p)); err == nil {
					if ab, err := filepath.EvalSymlinks(base); err == nil {
						if rel, err := filepath.Rel(ab, rp); err == nil {
							df.real = rel
						}
					}
				}
			}
			files = append(files, df)
		}
	}
	for _, r := range roots {
		st, err := os.Lstat(filepath.Join(base, r))
		if err != nil || !st.IsDir() {
			continue
		}
		rec(r)
	}
	return
}
