package c16

import (
	"bytes"
	"errors"
	"fmt"
	"os"
	"os/exec"
	"path/filepath"
	"regexp"
	"runtime"
	"strconv"
	"strings"

	fs "github.com/go-text/typesetting/fontscan"

	"verifharness/internal/vrun"
)

const helperArg = "c16-write-helper"

// helperMain is the process traced by strace: it loads a good cache file and
// writes it again with the real serializeToFile. Exit 0: serializeToFile
// returned nil; exit 7: it returned an error; exit 8: the input was unusable.
func helperMain(args []string) {
	// strace counts "when=N" per traced thread: keep every write on one thread
	runtime.LockOSThread()
	if len(args) != 2 {
		os.Exit(8)
	}
	vi, err := fs.VerifDeserializeFile(args[0])
	if err != nil {
		fmt.Fprintln(os.Stderr, "helper: input:", err)
		os.Exit(8)
	}
	if err := fs.VerifSerializeToFile(vi, args[1]); err != nil {
		fmt.Fprintln(os.Stderr, "helper: serializeToFile:", err)
		os.Exit(7)
	}
	os.Exit(0)
}

var writeLine = regexp.MustCompile(`write\((\d+)<?[^,]*, .*, (\d+)\)\s+= (-?\d+)`)

type straceResult struct {
	exit     int
	writes   []int // requested sizes of the traced writes, in order
	injected int   // number of "(INJECTED)" lines
	log      string
}

// straceHelper runs the helper under strace, tracing only writes to out.
func straceHelper(in, out, inject string) (straceResult, error) {
	exe, err := os.Executable()
	if err != nil {
		return straceResult{}, err
	}
	logf := out + ".strace"
	defer os.Remove(logf)
	absOut, _ := filepath.Abs(out)
	args := []string{"-f", "-o", logf, "-e", "trace=write", "-P", absOut}
	if inject != "" {
		args = append(args, "-e", "inject=write:"+inject)
	}
	args = append(args, exe, helperArg, in, out)
	cmd := exec.Command("strace", args...)
	cmd.Env = append(os.Environ(), "GOMAXPROCS=2", "GOTRACEBACK=single")
	var stderr bytes.Buffer
	cmd.Stderr = &stderr
	err = cmd.Run()
	res := straceResult{}
	if err != nil {
		var ee *exec.ExitError
		if !errors.As(err, &ee) {
			return res, err
		}
		res.exit = ee.ExitCode()
	}
	b, _ := os.ReadFile(logf)
	res.log = string(b)
	for _, l := range strings.Split(res.log, "\n") {
		if m := writeLine.FindStringSubmatch(l); m != nil {
			n, _ := strconv.Atoi(m[2])
			res.writes = append(res.writes, n)
		}
		if strings.Contains(l, "(INJECTED)") {
			res.injected++
		}
	}
	if res.exit != 0 && res.exit != 7 {
		return res, fmt.Errorf("helper exit %d: %s", res.exit, strings.TrimSpace(stderr.String()))
	}
	return res, nil
}

// straceAvailable probes that fault injection really takes effect here.
func straceAvailable(dir string) (bool, string) {
	if _, err := exec.LookPath("strace"); err != nil {
		return false, "strace not installed"
	}
	probe := filepath.Join(dir, "probe.txt")
	defer os.Remove(probe)
	cmd := exec.Command("strace", "-f", "-o", "/dev/null", "-e", "trace=write", "-e", "inject=write:error=ENOSPC:when=1",
		"sh", "-c", "echo hello > "+probe)
	err := cmd.Run()
	st, serr := os.Stat(probe)
	if err == nil {
		return false, "injected ENOSPC did not make the traced process fail"
	}
	if serr != nil || st.Size() != 0 {
		return false, "injected ENOSPC did not prevent the write"
	}
	return true, ""
}

// failingWriter fails at the k-th Write call (1-based), after accepting
// `partial` bytes of that call.
type failingWriter struct {
	buf     bytes.Buffer
	calls   int
	failAt  int
	partial int
}

var errInjected = errors.New("injected write failure")

func (w *failingWriter) Write(p []byte) (int, error) {
	w.calls++
	if w.calls == w.failAt {
		n := w.partial
		if n > len(p) {
			n = len(p)
		}
		w.buf.Write(p[:n])
		return n, errInjected
	}
	return w.buf.Write(p)
}

// writerFaults drives serializeTo with a writer failing at every write call:
// the error must be reported (never swallowed) and what reached the writer is
// a crash image that goes through the reader laws.
func writerFaults(run *vrun.Run, c *faultCtx, orig fs.VerifIndex) {
	count := &failingWriter{}
	if err := fs.VerifSerialize(orig, count); err != nil {
		return
	}
	total := count.calls
	run.CoverN("c:writer-calls-enumerated", int64(total))
	for k := 1; k <= total; k++ {
		for _, partial := range []int{0, 1} {
			w := &failingWriter{failAt: k, partial: partial}
			var err error
			pv, where := vrun.Catch(func() { err = fs.VerifSerialize(orig, w) })
			run.Eval(1)
			wit := FaultWitness{Part: "fault", K: c.k, Spec: c.spec, Variant: "writer-fail", Pos: k, Val: partial}
			if pv != nil {
				run.Violation("C16/writer/panic@"+vrun.TopFrame(where), fmt.Sprintf("index %d: serializeTo panicked when write call %d failed: %v at %s", c.k, k, pv, where), wit)
				return
			}
			if err == nil {
				run.Violation("C16/writer/error-swallowed", fmt.Sprintf("index %d: write call %d of %d failed (after %d bytes) but serializeTo returned nil; %d of %d bytes reached the file", c.k, k, total, partial, w.buf.Len(), len(c.F)), wit)
				return
			}
			run.Cover("c:writer-failure-reported")
			img := append([]byte(nil), w.buf.Bytes()...)
			if !bytes.HasPrefix(c.F, img) {
				run.Inconclusive("harness: failing-writer image is not a prefix of the cache file")
				continue
			}
			judgeImage(run, c, "crash-writer", k, partial, img, true, meterCfg{})
		}
	}
}

// straceSweep writes the cache of context c with the real serializeToFile
// under strace, injecting a failure (ENOSPC / EIO) or a lying short write at
// every write system call, and judges every left-over file.
func straceSweep(run *vrun.Run, c *faultCtx, dir string, eio bool) {
	in := filepath.Join(dir, "good.cache")
	out := filepath.Join(dir, "out.cache")
	if err := os.WriteFile(in, c.F, 0o644); err != nil {
		run.Inconclusive("harness: cannot write temp cache")
		return
	}
	defer os.Remove(in)
	defer os.Remove(out)
	base, err := straceHelper(in, out, "")
	if err != nil || base.exit != 0 {
		run.Inconclusive("strace baseline run failed")
		run.Note("strace baseline: %v (exit %d)", err, base.exit)
		return
	}
	got, _ := os.ReadFile(out)
	sum := 0
	for _, n := range base.writes {
		sum += n
	}
	if !bytes.Equal(got, c.F) || sum != len(c.F) {
		// the cache file written by the real serializeToFile must be the
		// same bytes serializeTo produces in memory
		run.Inconclusive("strace baseline: traced writes do not add up to the cache file")
		run.Note("strace baseline: file %d bytes, F %d bytes, traced writes sum %d", len(got), len(c.F), sum)
		return
	}
	W := len(base.writes)
	run.CoverN("c:strace-write-syscalls", int64(W))
	kinds := []string{"ENOSPC", "short"}
	if eio {
		kinds = append(kinds, "EIO")
	}
	for N := 1; N <= W; N++ {
		for _, kind := range kinds {
			os.Remove(out)
			inject := fmt.Sprintf("error=%s:when=%d", kind, N)
			short := 0
			if kind == "short" {
				short = 1 + (N*7)%base.writes[N-1]
				if short >= base.writes[N-1] {
					short = base.writes[N-1] - 1
				}
				if short <= 0 {
					continue
				}
				inject = fmt.Sprintf("retval=%d:when=%d", short, N)
			}
			res, err := straceHelper(in, out, inject)
			run.Eval(1)
			if err != nil || res.injected != 1 {
				run.Inconclusive("strace run unusable")
				run.Note("strace %s: err=%v injected=%d", inject, err, res.injected)
				continue
			}
			run.Cover("c:strace-run:" + kind)
			img, _ := os.ReadFile(out)
			wit := FaultWitness{Part: "fault", K: c.k, Spec: c.spec, Variant: "crash-strace-" + kind, Pos: N, Val: short, Strict: true}
			before := 0
			for _, n := range base.writes[:N-1] {
				before += n
			}
			if kind != "short" {
				if res.exit != 7 {
					run.Violation("C16/writer/error-swallowed", fmt.Sprintf("index %d: write system call %d of %d failed with %s but serializeToFile returned nil; the file has %d of %d bytes", c.k, N, W, kind, len(img), len(c.F)), wit)
					return
				}
				run.Cover("c:strace-failure-reported")
				if !bytes.Equal(img, c.F[:before]) {
					run.Inconclusive("strace: left-over file is not the expected prefix")
					continue
				}
			} else {
				// the kernel "accepted" `short` bytes that never reached the
				// file: the left-over file misses them
				want := append(append([]byte(nil), c.F[:before]...), c.F[before+short:]...)
				if !bytes.Equal(img, want) {
					run.Inconclusive("strace: short-write image is not the expected file with a hole")
					continue
				}
			}
			judgeImage(run, c, "crash-strace-"+kind, N, short, img, true, meterCfg{})
			if N == W/2+1 && run.WantSample() && wantSample("c", 1) {
				run.Sample(map[string]any{"part": "c/strace", "inject": inject, "helper_exit": res.exit, "leftover_bytes": len(img), "of": len(c.F)})
			}
		}
	}
}
