package c14

import "github.com/go-text/typesetting/font"

// cssBest is a small, self-contained transcription of the style matching
// step of CSS Fonts (level 3 §5.2 item 4, with the level 4 wording of the
// 400–500 weight rule, of which the level 3 rule is the restriction to
// multiples of 100): given the aspects of the faces of one family and the
// requested aspect, it returns the (stretch, style, weight) triple that the
// algorithm selects. Oblique and italic are one style in this library.
// Candidates have non-zero fields (DESIGN §7); zero fields of the query take
// the defaults normal / normal / 400.
func cssBest(cands []font.Aspect, q font.Aspect) font.Aspect {
	if len(cands) == 0 {
		return font.Aspect{}
	}
	if q.Style == 0 {
		q.Style = font.StyleNormal
	}
	if q.Stretch == 0 {
		q.Stretch = font.StretchNormal
	}
	if q.Weight == 0 {
		q.Weight = font.WeightNormal
	}

	// 1. font-stretch: exact; else for normal or condensed requests the closest
	// narrower width, then the closest wider; for expanded requests the reverse.
	var stretch font.Stretch
	{
		var exact bool
		var below, above font.Stretch // closest on each side, 0 = none
		for _, c := range cands {
			s := c.Stretch
			switch {
			case s == q.Stretch:
				exact = true
			case s < q.Stretch:
				if below == 0 || s > below {
					below = s
				}
			default:
				if above == 0 || s < above {
					above = s
				}
			}
		}
		switch {
		case exact:
			stretch = q.Stretch
		case q.Stretch <= font.StretchNormal:
			stretch = below
			if below == 0 {
				stretch = above
			}
		default:
			stretch = above
			if above == 0 {
				stretch = below
			}
		}
	}
	var l1 []font.Aspect
	for _, c := range cands {
		if c.Stretch == stretch {
			l1 = append(l1, c)
		}
	}

	// 2. font-style: italic → italic/oblique, else normal; normal → normal, else italic/oblique
	style := q.Style
	{
		has := false
		for _, c := range l1 {
			if c.Style == q.Style {
				has = true
			}
		}
		if !has {
			if q.Style == font.StyleItalic {
				style = font.StyleNormal
			} else {
				style = font.StyleItalic
			}
		}
	}
	var l2 []font.Aspect
	for _, c := range l1 {
		if c.Style == style {
			l2 = append(l2, c)
		}
	}
	if len(l2) == 0 { // a candidate style outside {normal, italic}: not in the property's grid
		return font.Aspect{}
	}

	// 3. font-weight
	var weight font.Weight
	{
		var exact bool
		var below, above font.Weight // closest lighter / bolder
		for _, c := range l2 {
			w := c.Weight
			switch {
			case w == q.Weight:
				exact = true
			case w < q.Weight:
				if below == 0 || w > below {
					below = w
				}
			default:
				if above == 0 || w < above {
					above = w
				}
			}
		}
		switch {
		case exact:
			weight = q.Weight
		case q.Weight >= 400 && q.Weight <= 500:
			// bolder weights up to 500 in ascending order, then lighter ones
			// descending, then bolder than 500 ascending
			switch {
			case above != 0 && above <= 500:
				weight = above
			case below != 0:
				weight = below
			default:
				weight = above
			}
		case q.Weight < 400:
			weight = below
			if below == 0 {
				weight = above
			}
		default:
			weight = above
			if above == 0 {
				weight = below
			}
		}
	}
	return font.Aspect{Style: style, Weight: weight, Stretch: stretch}
}
