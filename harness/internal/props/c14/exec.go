package c14

import (
	"bytes"
	"fmt"
	"math"
	"path/filepath"
	"sort"
	"strings"
	"sync"

	"github.com/go-text/typesetting/font"
	ot "github.com/go-text/typesetting/font/opentype"
	"github.com/go-text/typesetting/fontscan"
	"github.com/go-text/typesetting/language"

	"verifharness/internal/vrun"
)

// Loc mirrors fontscan.Location in witnesses.
type Loc struct {
	File     string `json:"file"`
	Index    uint16 `json:"index"`
	Instance uint16 `json:"instance"`
}

func (l Loc) loc() fontscan.Location {
	return fontscan.Location{File: l.File, Index: l.Index, Instance: l.Instance}
}

// Asp mirrors font.Aspect in witnesses.
type Asp struct {
	Style   uint8   `json:"style"`
	Weight  float32 `json:"weight"`
	Stretch float32 `json:"stretch"`
}

func (a Asp) aspect() font.Aspect {
	return font.Aspect{Style: font.Style(a.Style), Weight: font.Weight(a.Weight), Stretch: font.Stretch(a.Stretch)}
}

// Op is one operation of a FontMap history.
//
//	AddFace    Font (pool id), Loc, Family, Aspect
//	AddFont    Font (pool id: its file is added), FileID, Family ("" = keep the file's)
//	AddSys     Font (pool id: footprints of its file appended as UseSystemFonts would, not user provided)
//	SetQuery   Families, Aspect
//	SetScript  Script
//	CacheSize  Size
//	Resolve    Rune
//	ResolveLang Lang
//	Meta       N (re-reads location/metadata of the N-th face answered so far)
type Op struct {
	K        string   `json:"k"`
	Font     string   `json:"font,omitempty"`
	Loc      *Loc     `json:"loc,omitempty"`
	FileID   string   `json:"file_id,omitempty"`
	Family   string   `json:"family,omitempty"`
	Aspect   *Asp     `json:"aspect,omitempty"`
	Families []string `json:"families,omitempty"`
	Script   uint32   `json:"script,omitempty"`
	Size     int      `json:"size,omitempty"`
	Rune     rune     `json:"rune,omitempty"`
	Lang     uint16   `json:"lang,omitempty"`
	N        int      `json:"n,omitempty"`
}

// History is a replayable case.
type History struct {
	Ops []Op `json:"ops"`
}

type silent struct{}

func (silent) Printf(string, ...interface{}) {}

// countLogger discards the messages and counts them: ResolveFace logs on its
// slow path when it falls through to the script / arbitrary steps, never on a
// rune cache hit, which makes cache hits observable for those answers.
type countLogger struct{ n int }

func (c *countLogger) Printf(string, ...interface{}) { c.n++ }

// fileInfo caches what the harness knows about a pool file.
type fileInfo struct {
	fonts []*font.Font
	descs []font.Description
	sys   []fontscan.Footprint
	err   error
}

var (
	fileMu    sync.Mutex
	fileCache = map[string]*fileInfo{}
)

func infoOf(pf *poolFont) *fileInfo {
	fileMu.Lock()
	defer fileMu.Unlock()
	if fi, ok := fileCache[pf.FileID]; ok {
		return fi
	}
	fi := &fileInfo{}
	fileCache[pf.FileID] = fi
	lds, err := ot.NewLoaders(bytes.NewReader(pf.Data))
	if err != nil {
		fi.err = err
		return fi
	}
	for i, ld := range lds {
		ft, err := font.NewFont(ld)
		if err != nil {
			fi.err = err
			return fi
		}
		desc, _ := font.Describe(ld, nil)
		fp, err := fontscan.VerifFootprintFromLoader(ld, false)
		if err != nil {
			fi.err = err
			return fi
		}
		fp.Location = fontscan.Location{File: pf.Abs, Index: uint16(i)}
		fi.fonts = append(fi.fonts, ft)
		fi.descs = append(fi.descs, desc)
		fi.sys = append(fi.sys, fp)
	}
	return fi
}

// insertion is what the harness expects the database to hold for one face.
type insertion struct {
	loc    fontscan.Location
	family string // normalised
	aspect font.Aspect
	origin string     // face | font | sys
	face   *font.Face // AddFace: the very pointer given
	ft     *font.Font // an independently parsed copy of the font (fingerprint)
	user   bool
}

type finding struct {
	Key string
	Msg string
	At  int // op index
}

// lruModel predicts cache hits / evictions of the documented LRU (evidence only).
type lruModel struct {
	keys []string // most recent last
}

func (l *lruModel) touch(k string, max int) (hit bool, evicted int) {
	for i, x := range l.keys {
		if x == k {
			l.keys = append(append(l.keys[:i:i], l.keys[i+1:]...), k)
			return true, 0
		}
	}
	l.keys = append(l.keys, k)
	for len(l.keys) > max && len(l.keys) > 0 {
		l.keys = l.keys[1:]
		evicted++
	}
	return false, evicted
}

type stats struct {
	cover    map[string]int
	resolves int // ResolveFace judged on a non empty database
	samples  []string
}

func (s *stats) c(k string) { s.cover[k]++ }

type world struct {
	hist     *fontscan.FontMap
	adds     []int // indices of the Add* ops executed so far
	ops      []Op
	faces    map[int]*font.Face // AddFace op index → the face given to every map
	ins      []insertion        // database order
	byLoc    map[fontscan.Location]int
	hasQ     bool
	query    fontscan.Query
	hasS     bool
	script   language.Script
	size     int
	lru      lruModel
	answered []answered
	st       *stats
	hasSys   bool
	deep     bool // run the compositional list law as well
	log      *countLogger
}

type answered struct {
	ft  *font.Font
	loc fontscan.Location
}

func normFamilies(fs []string) []string {
	out := make([]string, len(fs))
	for i, f := range fs {
		out[i] = font.NormalizeFamily(f)
	}
	return out
}

// applyAdd executes an Add* op on a map.
func (w *world) applyAdd(fm *fontscan.FontMap, idx int) error {
	op := w.ops[idx]
	pf, err := poolGet(op.Font)
	if err != nil {
		return err
	}
	switch op.K {
	case "AddFace":
		face := w.faces[idx]
		if face == nil {
			face = font.NewFace(pf.Font)
			w.faces[idx] = face
		}
		fm.AddFace(face, op.Loc.loc(), font.Description{Family: op.Family, Aspect: op.Aspect.aspect()})
	case "AddFont":
		return fm.AddFont(bytes.NewReader(pf.Data), op.FileID, op.Family)
	case "AddSys":
		fi := infoOf(pf)
		if fi.err != nil {
			return fi.err
		}
		fm.VerifAppendFootprints(fi.sys...)
	}
	return nil
}

// record extends the model of the database after an Add* op.
func (w *world) record(idx int) error {
	op := w.ops[idx]
	pf, err := poolGet(op.Font)
	if err != nil {
		return err
	}
	add := func(in insertion) error {
		if _, dup := w.byLoc[in.loc]; dup {
			return fmt.Errorf("generator: duplicate location %v", in.loc)
		}
		w.byLoc[in.loc] = len(w.ins)
		w.ins = append(w.ins, in)
		return nil
	}
	switch op.K {
	case "AddFace":
		given := op.Aspect.aspect()
		given.SetDefaults() // unspecified fields of a description mean regular
		return add(insertion{loc: op.Loc.loc(), family: font.NormalizeFamily(op.Family), aspect: given, origin: "face", face: w.faces[idx], ft: pf.Font, user: true})
	case "AddFont":
		fi := infoOf(pf)
		if fi.err != nil {
			return fi.err
		}
		for i := range fi.fonts {
			fam := font.NormalizeFamily(fi.descs[i].Family)
			if op.Family != "" {
				fam = font.NormalizeFamily(op.Family)
			}
			if err := add(insertion{loc: fontscan.Location{File: op.FileID, Index: uint16(i)}, family: fam, aspect: fi.descs[i].Aspect, origin: "font", ft: fi.fonts[i], user: true}); err != nil {
				return err
			}
		}
	case "AddSys":
		fi := infoOf(pf)
		if fi.err != nil {
			return fi.err
		}
		w.hasSys = true
		for i, fp := range fi.sys {
			if err := add(insertion{loc: fp.Location, family: fp.Family, aspect: fp.Aspect, origin: "sys", ft: fi.fonts[i]}); err != nil {
				return err
			}
		}
	}
	return nil
}

// fresh builds the reference: a new map without rune cache that saw only the
// Add* calls, then the current query and script.
func (w *world) fresh() (*fontscan.FontMap, error) {
	fm := fontscan.NewFontMap(silent{})
	fm.SetRuneCacheSize(0)
	for _, idx := range w.adds {
		if err := w.applyAdd(fm, idx); err != nil {
			return nil, err
		}
	}
	if w.hasQ {
		fm.SetQuery(fontscan.Query{Families: append([]string(nil), w.query.Families...), Aspect: w.query.Aspect})
	}
	if w.hasS {
		fm.SetScript(w.script)
	}
	return fm, nil
}

func (w *world) describeState() string {
	return fmt.Sprintf("query=%q aspect=%+v script=%s cache size=%d database=%d faces", w.query.Families, w.query.Aspect, scriptName(w.script), w.size, len(w.ins))
}

func scriptName(s language.Script) string {
	if s == 0 {
		return "(unset)"
	}
	return s.String()
}

// fingerprint tells whether ft decodes like want (same font program).
func sameFont(ft, want *font.Font, probes []rune) bool {
	if ft == want {
		return true
	}
	if ft.Upem() != want.Upem() {
		return false
	}
	f1, f2 := font.NewFace(ft), font.NewFace(want)
	for _, r := range probes {
		g1, ok1 := ft.NominalGlyph(r)
		g2, ok2 := want.NominalGlyph(r)
		if g1 != g2 || ok1 != ok2 {
			return false
		}
		if ok1 && (f1.HorizontalAdvance(g1) != f2.HorizontalAdvance(g2) || ft.GlyphName(g1) != want.GlyphName(g2)) {
			return false
		}
	}
	// members of a collection may share their character map: the names tell them apart
	if d1, d2 := ft.Describe(), want.Describe(); d1 != d2 {
		return false
	}
	return true
}

var probeRunes = []rune{' ', 'A', 'a', '1', 0xE9, 0x3B1, 0x416, 0x5D0, 0x627, 0x915, 0xE01, 0x3042, 0x4E00, 0xAC00, 0x1F600}

// checkAnswer judges location, metadata and identity of an answered face (law 5).
func (w *world) checkAnswer(at int, what string, face *font.Face) *finding {
	loc := w.hist.FontLocation(face.Font)
	i, ok := w.byLoc[loc]
	if !ok {
		return &finding{"C14/location", fmt.Sprintf("%s: FontLocation of the answer is %+v, which is not a location given to the map", what, loc), at}
	}
	in := w.ins[i]
	if in.origin == "face" && face != in.face {
		return &finding{"C14/face-identity", fmt.Sprintf("%s: the answer is registered at %+v but is not the *font.Face given to AddFace for that location", what, loc), at}
	}
	if !sameFont(face.Font, in.ft, probeRunes) {
		return &finding{"C14/face-identity", fmt.Sprintf("%s: the answer registered at %+v does not decode like the font inserted there", what, loc), at}
	}
	fam, asp := w.hist.FontMetadata(face.Font)
	if fam != in.family || asp != in.aspect {
		return &finding{"C14/metadata", fmt.Sprintf("%s: FontMetadata of the answer at %+v is (%q, %+v), inserted with (%q, %+v)", what, loc, fam, asp, in.family, in.aspect), at}
	}
	return nil
}

// listLaws checks the implementation independent laws of the candidate lists
// of the reference map (law 4); vc comes from fm.
func (w *world) listLaws(at int, fm *fontscan.FontMap, vc fontscan.VerifCandidates) *finding {
	db := vc.Database
	q := w.query
	fail := func(law, format string, a ...any) *finding {
		return &finding{"C14/list-" + law, fmt.Sprintf(format, a...) + " | " + w.describeState(), at}
	}
	valid := func(name string, l []int) *finding {
		seen := map[int]bool{}
		for _, i := range l {
			if i < 0 || i >= len(db) {
				return fail("index", "%s holds index %d outside the database", name, i)
			}
			if seen[i] {
				return fail("duplicate", "%s = %v lists a footprint twice", name, l)
			}
			seen[i] = true
		}
		return nil
	}
	// (the exact list may repeat a footprint: one entry per *queried* family, and a
	// query may name a family twice or reach it through a generic name as well)
	for _, e := range vc.WithoutFallback {
		if e < 0 || e >= len(db) {
			return fail("index", "withoutFallback holds index %d outside the database", e)
		}
	}
	for _, nl := range []struct {
		name string
		l    []int
	}{{"withFallback", vc.WithFallback}, {"manual", vc.Manual}, {"script", vc.Script}} {
		if f := valid(nl.name, nl.l); f != nil {
			return f
		}
	}
	aspectsOf := func(pred func(i int) bool) []font.Aspect {
		var out []font.Aspect
		for i := range db {
			if pred(i) {
				out = append(out, db[i].Aspect)
			}
		}
		return out
	}
	// every exact entry: CSS-best aspect within its own family; a user provided
	// face wins over a system one of the same family and aspect
	for _, e := range vc.WithoutFallback {
		fam := db[e].Family
		best := cssBest(aspectsOf(func(i int) bool { return db[i].Family == fam }), q.Aspect)
		if db[e].Aspect != best {
			return fail("exact-aspect", "withoutFallback entry %d (family %q) has aspect %+v; CSS §5.2 selects %+v among the faces of that family", e, fam, db[e].Aspect, best)
		}
		if !db[e].VerifIsUserProvided() {
			for i := range db {
				if db[i].Family == fam && db[i].Aspect == best && db[i].VerifIsUserProvided() {
					return fail("exact-user-first", "withoutFallback entry %d (family %q) is a system font although the user provided face %d has the same family and aspect", e, fam, i)
				}
			}
		}
	}
	// alignment with the query: non generic families give exactly one entry iff
	// the family exists, with that family; generic ones give at most one
	{
		nq := normFamilies(q.Families)
		pos := 0
		okAlign := true
		var why string
		// greedy alignment is exact: an entry for a non generic family must carry
		// that family, and an optional generic entry is consumed only if the next
		// entry cannot belong to the rest of the query (decided by backtracking)
		var match func(qi, ei int) bool
		match = func(qi, ei int) bool {
			if qi == len(nq) {
				return ei == len(vc.WithoutFallback)
			}
			f := nq[qi]
			if fontscan.VerifIsGenericFamily(q.Families[qi]) {
				if match(qi+1, ei) {
					return true
				}
				return ei < len(vc.WithoutFallback) && match(qi+1, ei+1)
			}
			exists := false
			for i := range db {
				if db[i].Family == f {
					exists = true
					break
				}
			}
			if !exists {
				return match(qi+1, ei)
			}
			if ei >= len(vc.WithoutFallback) || db[vc.WithoutFallback[ei]].Family != f {
				return false
			}
			return match(qi+1, ei+1)
		}
		_ = pos
		if !match(0, 0) {
			okAlign = false
			var fams []string
			for _, e := range vc.WithoutFallback {
				fams = append(fams, db[e].Family)
			}
			why = fmt.Sprintf("withoutFallback families %q cannot be produced, one entry per queried family in query order, from query %q", fams, q.Families)
		}
		if !okAlign {
			return fail("exact-families", "%s", why)
		}
	}
	// manual: the user provided faces of CSS-best aspect, in insertion order
	{
		best := cssBest(aspectsOf(func(i int) bool { return db[i].VerifIsUserProvided() }), q.Aspect)
		var want []int
		for i := range db {
			if db[i].VerifIsUserProvided() && db[i].Aspect == best {
				want = append(want, i)
			}
		}
		if !equalInts(want, vc.Manual) {
			return fail("manual", "manual = %v, want the user provided faces of aspect %+v in insertion order = %v", vc.Manual, best, want)
		}
	}
	// script list: every face covering the script, insertion order
	{
		var want []int
		for i := range db {
			if db[i].Scripts.VerifContains(w.script) {
				want = append(want, i)
			}
		}
		if !equalInts(want, vc.Script) {
			return fail("script", "script list = %v, want the faces whose Scripts contain %s = %v", vc.Script, scriptName(w.script), want)
		}
	}
	// withFallback: one common aspect A; every face of a queried family or of the
	// current script with aspect A is present; none of them has a CSS-better aspect
	{
		nq := map[string]bool{}
		for _, f := range normFamilies(q.Families) {
			nq[f] = true
		}
		inK := func(i int) bool {
			return nq[db[i].Family] || (w.script != 0 && db[i].Scripts.VerifContains(w.script))
		}
		kAspects := aspectsOf(inK)
		if len(kAspects) > 0 && len(vc.WithFallback) == 0 {
			return fail("fallback-empty", "withFallback is empty although %d faces match a queried family or the script", len(kAspects))
		}
		if len(vc.WithFallback) > 0 {
			a := db[vc.WithFallback[0]].Aspect
			in := map[int]bool{}
			for _, i := range vc.WithFallback {
				in[i] = true
				if db[i].Aspect != a {
					return fail("fallback-aspect", "withFallback mixes aspects %+v and %+v", a, db[i].Aspect)
				}
			}
			if best := cssBest(append(kAspects, a), q.Aspect); best != a {
				return fail("fallback-aspect", "withFallback keeps aspect %+v although a face of a queried family / the script has the CSS-better aspect %+v", a, best)
			}
			for i := range db {
				if inK(i) && db[i].Aspect == a && !in[i] {
					return fail("fallback-missing", "face %d (family %q) matches a queried family or the script and has the retained aspect %+v but is not in withFallback = %v", i, db[i].Family, a, vc.WithFallback)
				}
			}
		}
	}
	// order of withFallback (documented on scoredFootprints.Less): strong substitutes
	// before weak ones; among strong ones only the score; among weak ones the faces
	// covering the current script first, then the score. Scores come from the
	// library's own substitution table (hook), the order is re-derived here.
	{
		sc := fm.VerifSubstitutionScores()
		type ent struct {
			strong    bool
			score     int
			hasScript bool
			family    bool // matched by family (otherwise by script only: after every family match)
		}
		get := func(i int) ent {
			e := ent{hasScript: w.script != 0 && db[i].Scripts.VerifContains(w.script)}
			if v, ok := sc[db[i].Family]; ok {
				e.family, e.strong, e.score = true, v.Strong, v.Score
			} else {
				e.score = math.MaxInt // matched by script only: weak, worse than any family match
			}
			return e
		}
		// the documented comparator, ties included: same score => user provided first, then
		// "regular" over "mono" (family name holds "mono"), then .ttf/.ttc before the rest;
		// what is still equal keeps the order of the database (the sort is stable)
		lessDoc := func(ia, ib int) bool {
			a, b := get(ia), get(ib)
			if a.strong != b.strong {
				return a.strong
			}
			if !a.strong && a.hasScript != b.hasScript {
				return a.hasScript
			}
			if a.score != b.score {
				return a.score < b.score
			}
			if ua, ub := db[ia].VerifIsUserProvided(), db[ib].VerifIsUserProvided(); ua != ub {
				return ua
			}
			if ma, mb := strings.Contains(db[ia].Family, "mono"), strings.Contains(db[ib].Family, "mono"); ma != mb {
				return !ma
			}
			tt := func(i int) bool {
				e := strings.ToLower(filepath.Ext(db[i].Location.File))
				return e == ".ttf" || e == ".ttc"
			}
			if ta, tb := tt(ia), tt(ib); ta != tb {
				return ta
			}
			return false
		}
		var model []int
		for i := range db {
			if e := get(i); e.family || e.hasScript {
				model = append(model, i)
			}
		}
		sort.SliceStable(model, func(x, y int) bool { return lessDoc(model[x], model[y]) })
		pos := map[int]int{}
		for k, i := range model {
			pos[i] = k
		}
		for k := 0; k+1 < len(vc.WithFallback); k++ {
			ia, ib := vc.WithFallback[k], vc.WithFallback[k+1]
			pa, oka := pos[ia]
			pb, okb := pos[ib]
			if oka && okb && pa > pb {
				return fail("fallback-order", "entries %d (family %q, %+v) and %d (family %q, %+v) of withFallback = %v are in the opposite order of the documented comparator (strong before weak; weak: script support first; score; user provided; regular over mono; TrueType first; database order) under script %s; documented order of all candidates: %v",
					ia, db[ia].Family, get(ia), ib, db[ib].Family, get(ib), vc.WithFallback, scriptName(w.script), model)
			}
		}
		if len(vc.WithFallback) > 1 {
			w.st.c("list law: withFallback order re-derived from the substitution scores")
		}
	}
	// compositionality of the exact list: the entry of each queried family does
	// not depend on the other families of the query
	if w.deep && len(q.Families) > 1 {
		var concat []int
		for _, f := range q.Families {
			fm.SetQuery(fontscan.Query{Families: []string{f}, Aspect: q.Aspect})
			one := fm.VerifCandidates().WithoutFallback
			if len(one) > 1 {
				return fail("exact-one-per-family", "query [%q] alone gives %d exact entries", f, len(one))
			}
			concat = append(concat, one...)
		}
		fm.SetQuery(fontscan.Query{Families: append([]string(nil), q.Families...), Aspect: q.Aspect})
		if !equalInts(concat, vc.WithoutFallback) {
			return fail("exact-compositional", "withoutFallback = %v for the whole query but the single family queries give %v", vc.WithoutFallback, concat)
		}
		w.st.c("list law: exact list compositional over the query families")
	}
	return nil
}

func equalInts(a, b []int) bool {
	if len(a) != len(b) {
		return false
	}
	for i := range a {
		if a[i] != b[i] {
			return false
		}
	}
	return true
}

func (w *world) lruKey(r rune) string {
	return fmt.Sprintf("%q|%d|%v|%d", w.query.Families, w.script, w.query.Aspect, r)
}

// run executes the history; the first failed law stops it.
func runHistory(h History, deep bool) (st *stats, f *finding, err error) {
	st = &stats{cover: map[string]int{}}
	lg := &countLogger{}
	w := &world{hist: fontscan.NewFontMap(lg), log: lg, ops: h.Ops, faces: map[int]*font.Face{}, byLoc: map[fontscan.Location]int{}, size: 4096, st: st, deep: deep}
	for i, op := range h.Ops {
		st.c("op " + op.K)
		var fnd *finding
		var ierr error
		pv, where := vrun.Catch(func() { fnd, ierr = w.step(i, op) })
		if pv != nil {
			return st, &finding{"C14/panic/" + vrun.TopFrame(where), fmt.Sprintf("op %d %s panicked: %v at %s | %s", i, op.K, pv, where, w.describeState()), i}, nil
		}
		if ierr != nil {
			return st, nil, ierr
		}
		if fnd != nil {
			return st, fnd, nil
		}
	}
	// end of history: the candidate lists of the long lived map equal those of a fresh map
	if len(w.ins) > 0 {
		var fnd *finding
		pv, where := vrun.Catch(func() {
			fm, e := w.fresh()
			if e != nil {
				err = e
				return
			}
			a, b := w.hist.VerifCandidates(), fm.VerifCandidates()
			if !equalInts(a.WithoutFallback, b.WithoutFallback) || !equalInts(a.WithFallback, b.WithFallback) || !equalInts(a.Manual, b.Manual) || !equalInts(a.Script, b.Script) {
				fnd = &finding{"C14/stale-candidates", fmt.Sprintf("at the end of the history the map's candidate lists are (%v %v %v %v), a fresh map with the same fonts, query and script builds (%v %v %v %v) | %s",
					a.WithoutFallback, a.WithFallback, a.Manual, a.Script, b.WithoutFallback, b.WithFallback, b.Manual, b.Script, w.describeState()), len(h.Ops) - 1}
			}
		})
		if pv != nil {
			return st, &finding{"C14/panic/" + vrun.TopFrame(where), fmt.Sprintf("end of history: panic %v at %s", pv, where), len(h.Ops) - 1}, nil
		}
		if fnd != nil {
			return st, fnd, nil
		}
		st.c("end of history: candidate lists equal those of a fresh map")
	}
	return st, nil, err
}

func (w *world) step(i int, op Op) (*finding, error) {
	st := w.st
	switch op.K {
	case "AddFace", "AddFont", "AddSys":
		if err := w.applyAdd(w.hist, i); err != nil {
			return nil, err
		}
		w.adds = append(w.adds, i)
		if err := w.record(i); err != nil {
			return nil, err
		}
		w.lru.keys = nil
	case "SetQuery":
		w.hasQ = true
		w.query = fontscan.Query{Families: append([]string(nil), op.Families...)}
		if op.Aspect != nil {
			w.query.Aspect = op.Aspect.aspect()
		}
		// the map gets its own copy: the caller's slice is not shared with the model
		w.hist.SetQuery(fontscan.Query{Families: append([]string(nil), op.Families...), Aspect: w.query.Aspect})
		if len(w.query.Families) == 0 {
			w.query.Families = []string{""} // documented normalisation of an empty list
		}
		generic := false
		for _, f := range op.Families {
			if fontscan.VerifIsGenericFamily(f) {
				generic = true
			}
		}
		st.c(fmt.Sprintf("query with %d families", len(op.Families)))
		if generic {
			st.c("query with a generic family")
		}
	case "SetScript":
		w.hasS = true
		w.script = language.Script(op.Script)
		w.hist.SetScript(w.script)
	case "CacheSize":
		w.size = op.Size
		w.hist.SetRuneCacheSize(op.Size)
		st.c(fmt.Sprintf("rune cache size set to %d", op.Size))
	case "Resolve":
		return w.resolve(i, op.Rune)
	case "ResolveLang":
		return w.resolveLang(i, fontscan.LangID(op.Lang))
	case "Meta":
		if len(w.answered) == 0 {
			return nil, nil
		}
		a := w.answered[op.N%len(w.answered)]
		if loc := w.hist.FontLocation(a.ft); loc != a.loc {
			return &finding{"C14/location", fmt.Sprintf("op %d: FontLocation of a face answered earlier changed from %+v to %+v", i, a.loc, loc), i}, nil
		}
		in := w.ins[w.byLoc[a.loc]]
		if fam, asp := w.hist.FontMetadata(a.ft); fam != in.family || asp != in.aspect {
			return &finding{"C14/metadata", fmt.Sprintf("op %d: FontMetadata of a face answered earlier is (%q,%+v), inserted with (%q,%+v)", i, fam, asp, in.family, in.aspect), i}, nil
		}
		st.c("metadata re-read later in the history")
	}
	return nil, nil
}

func (w *world) resolve(at int, r rune) (*finding, error) {
	st := w.st
	logged := w.log.n
	got := w.hist.ResolveFace(r)
	logged = w.log.n - logged
	if len(w.ins) == 0 {
		st.c("ResolveFace on an empty map (not judged)")
		if got != nil {
			return &finding{"C14/face-from-empty-map", fmt.Sprintf("op %d: ResolveFace(%U) on a map without fonts returned a face", at, r), at}, nil
		}
		return nil, nil
	}
	what := fmt.Sprintf("op %d ResolveFace(%U)", at, r)
	// evidence: what the documented LRU would do
	hit, ev := w.lru.touch(w.lruKey(r), w.size)
	cacheWord := "miss"
	if hit {
		cacheWord = "hit"
	}
	st.c(fmt.Sprintf("ResolveFace with cache size %d: LRU model predicts %s", w.size, cacheWord))
	if ev > 0 && w.size > 0 {
		st.cover["LRU model predicts evictions"] += ev
	}
	if got == nil {
		return &finding{"C14/nil-face", what + " returned nil with fonts in the map | " + w.describeState(), at}, nil
	}
	st.resolves++
	if f := w.checkAnswer(at, what, got); f != nil {
		f.Msg += " | " + w.describeState()
		return f, nil
	}
	gl := w.hist.FontLocation(got.Font)
	w.answered = append(w.answered, answered{got.Font, gl})

	// (2) cache transparency: a fresh cache-less map
	fm, err := w.fresh()
	if err != nil {
		return nil, err
	}
	exp := fm.ResolveFace(r)
	if exp == nil {
		return &finding{"C14/nil-face", what + ": the fresh reference map returned nil | " + w.describeState(), at}, nil
	}
	el := fm.FontLocation(exp.Font)
	vc := fm.VerifCandidates()
	if len(vc.Database) != len(w.ins) {
		return nil, fmt.Errorf("database has %d footprints, the model %d", len(vc.Database), len(w.ins))
	}
	// (3) priority law on the reference
	tier, idx := "arbitrary", -1
	for _, l := range []struct {
		name string
		list []int
	}{{"exact", vc.WithoutFallback}, {"fallback", vc.WithFallback}, {"manual", vc.Manual}, {"script", vc.Script}} {
		for _, i := range l.list {
			if vc.Database[i].Runes.Contains(r) {
				tier, idx = l.name, i
				break
			}
		}
		if idx >= 0 {
			break
		}
	}
	st.c("answer tier: " + tier)
	if tier == "script" || tier == "arbitrary" {
		// the slow path logs before these steps; silence means the rune cache answered
		obs := "miss"
		if logged == 0 {
			obs = "hit"
		}
		st.c(fmt.Sprintf("observed through the logger (tier script/arbitrary), cache size %d: cache %s", w.size, obs))
		if obs == cacheWord {
			st.c("LRU model agrees with the observed hit/miss")
		} else {
			st.c("LRU model DISAGREES with the observed hit/miss (evidence only)")
		}
	}
	st.c(fmt.Sprintf("database size %s", bucket(len(w.ins))))
	if w.hasSys {
		st.c("ResolveFace with system (not user provided) footprints in the database")
	}
	if idx >= 0 {
		if want := vc.Database[idx].Location; el != want {
			return &finding{"C14/priority", fmt.Sprintf("%s on a fresh map answers %+v; the first candidate covering the rune in exact%v ++ fallback%v ++ manual%v ++ script%v is footprint %d at %+v (tier %s) | %s",
				what, el, vc.WithoutFallback, vc.WithFallback, vc.Manual, vc.Script, idx, want, tier, w.describeState()), at}, nil
		}
	} else {
		if _, ok := w.byLoc[el]; !ok {
			return &finding{"C14/priority", fmt.Sprintf("%s: no candidate covers the rune and the arbitrary answer %+v is not a face of the map", what, el), at}, nil
		}
	}
	if gl != el {
		if idx < 0 && w.hasSys {
			// With lazily loaded system footprints the "arbitrary face" is the first
			// face that happened to be loaded: outside the AddFace/AddFont databases
			// the property quantifies over. Counted, not judged.
			st.c("arbitrary answer differs from the fresh map with system footprints (history dependent firstFace; outside the quantifier, not judged)")
		} else {
			return &finding{"C14/cache-transparency", fmt.Sprintf("%s answers the face at %+v; a fresh map without rune cache that only saw the same Add* calls, query and script answers %+v (tier %s; the LRU model predicts a cache %s) | %s",
				what, gl, el, tier, cacheWord, w.describeState()), at}, nil
		}
	}
	if len(st.samples) < 2 {
		st.samples = append(st.samples, fmt.Sprintf("%s → %+v (tier %s, cache %s) | %s", what, gl, tier, cacheWord, w.describeState()))
	}
	// (4) list laws on the reference lists
	if f := w.listLaws(at, fm, vc); f != nil {
		return f, nil
	}
	return nil, nil
}

func (w *world) resolveLang(at int, lang fontscan.LangID) (*finding, error) {
	st := w.st
	got := w.hist.ResolveFaceForLang(lang)
	if len(w.ins) == 0 {
		if got != nil {
			return &finding{"C14/face-from-empty-map", fmt.Sprintf("op %d: ResolveFaceForLang on an empty map returned a face", at), at}, nil
		}
		return nil, nil
	}
	what := fmt.Sprintf("op %d ResolveFaceForLang(%d)", at, lang)
	fm, err := w.fresh()
	if err != nil {
		return nil, err
	}
	exp := fm.ResolveFaceForLang(lang)
	vc := fm.VerifCandidates()
	idx := -1
	for _, l := range [][]int{vc.WithoutFallback, vc.WithFallback, vc.Manual} {
		for _, i := range l {
			if vc.Database[i].Langs.Contains(lang) {
				idx = i
				break
			}
		}
		if idx >= 0 {
			break
		}
	}
	if idx < 0 {
		st.c("ResolveFaceForLang → nil (no candidate supports the language)")
		if exp != nil {
			return &finding{"C14/priority-lang", what + ": no candidate supports the language but a face is returned | " + w.describeState(), at}, nil
		}
		if got != nil {
			return &finding{"C14/cache-transparency-lang", what + " returns a face, a fresh map returns nil | " + w.describeState(), at}, nil
		}
		return nil, nil
	}
	st.c("ResolveFaceForLang → face")
	if exp == nil || fm.FontLocation(exp.Font) != vc.Database[idx].Location {
		return &finding{"C14/priority-lang", fmt.Sprintf("%s on a fresh map does not answer the first candidate supporting the language (footprint %d at %+v) | %s", what, idx, vc.Database[idx].Location, w.describeState()), at}, nil
	}
	if got == nil {
		return &finding{"C14/cache-transparency-lang", what + " returns nil, a fresh map returns a face | " + w.describeState(), at}, nil
	}
	if f := w.checkAnswer(at, what, got); f != nil {
		return f, nil
	}
	if gl, el := w.hist.FontLocation(got.Font), fm.FontLocation(exp.Font); gl != el {
		return &finding{"C14/cache-transparency-lang", fmt.Sprintf("%s answers %+v, a fresh map %+v | %s", what, gl, el, w.describeState()), at}, nil
	}
	w.answered = append(w.answered, answered{got.Font, w.hist.FontLocation(got.Font)})
	return nil, nil
}

func bucket(n int) string {
	switch {
	case n <= 1:
		return "1"
	case n <= 3:
		return "2-3"
	case n <= 6:
		return "4-6"
	case n <= 12:
		return "7-12"
	}
	return ">12"
}

// shrink removes operations that the failure does not need (greedy, one pass
// from the end), keeping the failing key.
func shrink(h History, f *finding) (History, *finding) {
	cur := History{Ops: append([]Op(nil), h.Ops[:f.At+1]...)}
	best := f
	if _, f2, err := runHistory(cur, true); err != nil || f2 == nil || f2.Key != f.Key {
		return h, f // truncation changed the outcome (end of history law): keep the original
	} else {
		best = f2
	}
	for i := len(cur.Ops) - 2; i >= 0; i-- {
		try := History{Ops: append(append([]Op(nil), cur.Ops[:i]...), cur.Ops[i+1:]...)}
		_, f2, err := runHistory(try, true)
		if err == nil && f2 != nil && f2.Key == f.Key {
			cur, best = try, f2
		}
	}
	return cur, best
}

func sortedKeys(m map[string]int) []string {
	out := make([]string, 0, len(m))
	for k := range m {
		out = append(out, k)
	}
	sort.Strings(out)
	return out
}

var _ = strings.Join
