package c14

import (
	"bytes"
	"encoding/binary"
	"fmt"
	"sort"
	"strings"
	"sync"

	"github.com/go-text/typesetting/font"
	ot "github.com/go-text/typesetting/font/opentype"
	"github.com/go-text/typesetting/fontscan"
	"github.com/go-text/typesetting/language"

	"verifharness/internal/corpus"
)

// poolFont is one corpus face usable in databases.
type poolFont struct {
	ID      string // "corpusid#index"
	FileID  string
	Index   int
	Abs     string
	Data    []byte
	Font    *font.Font
	Runes   []rune            // sample of covered runes
	Scripts []language.Script // script coverage
	Desc    font.Description  // what the file says (package level font.Describe)
	NFaces  int               // faces in the file
	Langs   []uint16          // languages the footprint supports
}

var (
	poolOnce sync.Once
	pool     []*poolFont
	poolByID map[string]*poolFont
)

func validAspect(a font.Aspect) bool {
	return (a.Style == font.StyleNormal || a.Style == font.StyleItalic) && a.Weight > 0 && a.Stretch > 0
}

// buildPool selects small corpus faces with diverse script coverage; a pure
// function of the corpus.
func buildPool() []*poolFont {
	poolOnce.Do(func() {
		poolByID = map[string]*poolFont{}
		perScript := map[language.Script]int{}
		collections := 0
		for _, fr := range corpus.Faces() {
			data := fr.File.Bytes()
			if len(data) > 120<<10 || len(data) == 0 {
				continue
			}
			ext := strings.ToLower(fr.File.ID[strings.LastIndex(fr.File.ID, ".")+1:])
			if ext != "ttf" && ext != "otf" && ext != "ttc" {
				continue
			}
			lds, err := ot.NewLoaders(bytes.NewReader(data))
			if err != nil || fr.Index >= len(lds) {
				continue
			}
			if len(lds) > 1 {
				if fr.Index == 0 {
					collections++
				}
				if collections > 2 {
					continue
				}
			}
			ft := fr.Font()
			desc, _ := font.Describe(lds[fr.Index], nil)
			if !validAspect(desc.Aspect) || desc.Family == "" {
				continue
			}
			fp := fontscan.VerifFootprintFromFont(ft, fontscan.Location{}, desc)
			n := fp.Runes.Len()
			if n < 8 || n > 6000 {
				continue
			}
			// key: the first script that is not Common / Inherited / Unknown
			key := language.Script(0)
			for _, s := range fp.Scripts {
				if s.Strong() && s != language.Unknown {
					key = s
					break
				}
			}
			if perScript[key] >= 3 && len(lds) == 1 {
				continue
			}
			perScript[key]++
			pf := &poolFont{ID: fr.String(), FileID: fr.File.ID, Index: fr.Index, Abs: fr.File.Abs, Data: data, Font: ft,
				Scripts: fp.Scripts, Desc: desc, NFaces: len(lds)}
			// sample runes: spread over the cmap
			it := ft.Cmap.Iter()
			var all []rune
			for it.Next() && len(all) < 6000 {
				r, g := it.Char()
				if g != 0 && r >= 0 && r <= 0x10FFFF {
					if _, ok := ft.Cmap.Lookup(r); ok && fp.Runes.Contains(r) {
						all = append(all, r)
					}
				}
			}
			sort.Slice(all, func(i, j int) bool { return all[i] < all[j] })
			for k := 0; k < 16 && len(all) > 0; k++ {
				pf.Runes = append(pf.Runes, all[k*len(all)/16])
			}
			if len(pf.Runes) == 0 {
				continue
			}
			for l := 1; l < 512 && len(pf.Langs) < 12; l++ {
				if fp.Langs.Contains(fontscan.LangID(l)) {
					pf.Langs = append(pf.Langs, uint16(l))
				}
			}
			pool = append(pool, pf)
			poolByID[pf.ID] = pf
			if len(pool) >= 64 {
				break
			}
		}
		addSyntheticCollection()
	})
	return pool
}

// addSyntheticCollection packs three single-face pool fonts of different families into
// one .ttc (the corpus collections hold faces of one family that decode alike): AddFont
// on it must register each member under its own index and answer with the member's face.
func addSyntheticCollection() {
	var donors []*poolFont
	fams := map[string]bool{}
	for _, pf := range pool {
		if pf.NFaces != 1 || len(pf.Data) < 12 || string(pf.Data[:4]) == "ttcf" || string(pf.Data[:4]) == "wOFF" || fams[pf.Desc.Family] {
			continue
		}
		if tag := string(pf.Data[:4]); tag != "OTTO" && tag != "\x00\x01\x00\x00" && tag != "true" {
			continue
		}
		fams[pf.Desc.Family] = true
		donors = append(donors, pf)
		if len(donors) == 3 {
			break
		}
	}
	if len(donors) < 2 {
		return
	}
	var members [][]byte
	for _, d := range donors {
		members = append(members, d.Data)
	}
	ttc := buildTTC(members)
	lds, err := ot.NewLoaders(bytes.NewReader(ttc))
	if err != nil || len(lds) != len(donors) {
		return
	}
	const fileID = "synth/collection-1.ttc"
	for i, d := range donors {
		ft, err := font.NewFont(lds[i])
		if err != nil {
			return
		}
		cp := *d
		cp.ID, cp.FileID, cp.Index, cp.Abs = fmt.Sprintf("%s#%d", fileID, i), fileID, i, ""
		cp.Data, cp.Font, cp.NFaces = ttc, ft, len(donors)
		pool = append(pool, &cp)
		poolByID[cp.ID] = &cp
	}
}

// buildTTC concatenates sfnt files into a collection (table offsets rebased).
func buildTTC(members [][]byte) []byte {
	out := make([]byte, 12+4*len(members))
	copy(out, "ttcf")
	binary.BigEndian.PutUint32(out[4:], 0x00010000)
	binary.BigEndian.PutUint32(out[8:], uint32(len(members)))
	for i, m := range members {
		for len(out)%4 != 0 {
			out = append(out, 0)
		}
		pos := len(out)
		binary.BigEndian.PutUint32(out[12+4*i:], uint32(pos))
		out = append(out, m...)
		n := int(binary.BigEndian.Uint16(m[4:]))
		for t := 0; t < n; t++ {
			e := pos + 12 + 16*t
			off := binary.BigEndian.Uint32(out[e+8:])
			binary.BigEndian.PutUint32(out[e+8:], off+uint32(pos))
		}
	}
	return out
}

func poolGet(id string) (*poolFont, error) {
	buildPool()
	if p, ok := poolByID[id]; ok {
		return p, nil
	}
	// a replay may name a face that a changed corpus no longer selects
	fr, ok := corpus.ParseRef(id)
	if !ok {
		return nil, fmt.Errorf("unknown font %q", id)
	}
	lds, err := ot.NewLoaders(bytes.NewReader(fr.File.Bytes()))
	if err != nil {
		return nil, err
	}
	desc, _ := font.Describe(lds[fr.Index], nil)
	return &poolFont{ID: id, FileID: fr.File.ID, Index: fr.Index, Abs: fr.File.Abs, Data: fr.File.Bytes(), Font: fr.Font(), Desc: desc, NFaces: len(lds)}, nil
}
