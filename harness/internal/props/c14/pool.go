package c14

import (
	"bytes"
	"fmt"
	"sort"
	"strings"
	"sync"

	"github.com/go-text/typesetting/font"
	ot "github.com/go-text/typesetting/font/opentype"
	"github.com/go-text/typesetting/fontscan"
	"github.com/go-text/typesetting/language"

	"verifharness/internal/corpus"
)

// poolFont is one corpus face usable in databases.
type poolFont struct {
	ID      string // "corpusid#index"
	FileID  string
	Index   int
	Abs     string
	Data    []byte
	Font    *font.Font
	Runes   []rune            // sample of covered runes
	Scripts []language.Script // script coverage
	Desc    font.Description  // what the file says (package level font.Describe)
	NFaces  int               // faces in the file
	Langs   []uint16          // languages the footprint supports
}

var (
	poolOnce sync.Once
	pool     []*poolFont
	poolByID map[string]*poolFont
)

func validAspect(a font.Aspect) bool {
	return (a.Style == font.StyleNormal || a.Style == font.StyleItalic) && a.Weight > 0 && a.Stretch > 0
}

// buildPool selects small corpus faces with diverse script coverage; a pure
// function of the corpus.
func buildPool() []*poolFont {
	poolOnce.Do(func() {
		poolByID = map[string]*poolFont{}
		perScript := map[language.Script]int{}
		collections := 0
		for _, fr := range corpus.Faces() {
			data := fr.File.Bytes()
			if len(data) > 120<<10 || len(data) == 0 {
				continue
			}
			ext := strings.ToLower(fr.File.ID[strings.LastIndex(fr.File.ID, ".")+1:])
			if ext != "ttf" && ext != "otf" && ext != "ttc" {
				continue
			}
			lds, err := ot.NewLoaders(bytes.NewReader(data))
			if err != nil || fr.Index >= len(lds) {
				continue
			}
			if len(lds) > 1 {
				if fr.Index == 0 {
					collections++
				}
				if collections > 2 {
					continue
				}
			}
			ft := fr.Font()
			desc, _ := font.Describe(lds[fr.Index], nil)
			if !validAspect(desc.Aspect) || desc.Family == "" {
				continue
			}
			fp := fontscan.VerifFootprintFromFont(ft, fontscan.Location{}, desc)
			n := fp.Runes.Len()
			if n < 8 || n > 6000 {
				continue
			}
			// key: the first script that is not Common / Inherited / Unknown
			key := language.Script(0)
			for _, s := range fp.Scripts {
				if s.Strong() && s != language.Unknown {
					key = s
					break
				}
			}
			if perScript[key] >= 3 && len(lds) == 1 {
				continue
			}
			perScript[key]++
			pf := &poolFont{ID: fr.String(), FileID: fr.File.ID, Index: fr.Index, Abs: fr.File.Abs, Data: data, Font: ft,
				Scripts: fp.Scripts, Desc: desc, NFaces: len(lds)}
			// sample runes: spread over the cmap
			it := ft.Cmap.Iter()
			var all []rune
			for it.Next() && len(all) < 6000 {
				r, g := it.Char()
				if g != 0 && r >= 0 && r <= 0x10FFFF {
					if _, ok := ft.Cmap.Lookup(r); ok && fp.Runes.Contains(r) {
						all = append(all, r)
					}
				}
			}
			sort.Slice(all, func(i, j int) bool { return all[i] < all[j] })
			for k := 0; k < 16 && len(all) > 0; k++ {
				pf.Runes = append(pf.Runes, all[k*len(all)/16])
			}
			if len(pf.Runes) == 0 {
				continue
			}
			for l := 1; l < 512 && len(pf.Langs) < 12; l++ {
				if fp.Langs.Contains(fontscan.LangID(l)) {
					pf.Langs = append(pf.Langs, uint16(l))
				}
			}
			pool = append(pool, pf)
			poolByID[pf.ID] = pf
			if len(pool) >= 64 {
				break
			}
		}
	})
	return pool
}

func poolGet(id string) (*poolFont, error) {
	buildPool()
	if p, ok := poolByID[id]; ok {
		return p, nil
	}
	// a replay may name a face that a changed corpus no longer selects
	fr, ok := corpus.ParseRef(id)
	if !ok {
		return nil, fmt.Errorf("unknown font %q", id)
	}
	lds, err := ot.NewLoaders(bytes.NewReader(fr.File.Bytes()))
	if err != nil {
		return nil, err
	}
	desc, _ := font.Describe(lds[fr.Index], nil)
	return &poolFont{ID: id, FileID: fr.File.ID, Index: fr.Index, Abs: fr.File.Abs, Data: fr.File.Bytes(), Font: fr.Font(), Desc: desc, NFaces: len(lds)}, nil
}
