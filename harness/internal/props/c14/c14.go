// Package c14 monitors "Font resolution is total, cache-transparent and
// follows the documented priority".
//
// Events: every call / return of a generated history of AddFace, AddFont,
// (hook) VerifAppendFootprints, SetQuery, SetScript, SetRuneCacheSize,
// ResolveFace, ResolveFaceForLang, FontLocation and FontMetadata on one
// long lived fontscan.FontMap.
// Oracles, per ResolveFace: (1) non nil; (2) same face as a brand new FontMap
// with rune cache size 0 that replays only the Add* calls, the current query
// and the current script; (3) on that reference map, the answer is the first
// footprint of exact ++ fallback ++ manual ++ script (hook VerifCandidates)
// whose Runes contain the rune; (4) list laws that do not depend on the
// implementation (own CSS §5.2 reference); (5) location / metadata / identity
// of the answer as given at insertion. The long lived map is never touched by
// a hook before the end of the history.
package c14

import (
	"fmt"
	"sort"
	"sync"

	"github.com/go-text/typesetting/font"
	"github.com/go-text/typesetting/language"

	"verifharness/internal/gen"
	"verifharness/internal/vrun"
)

var familyPool = []string{
	"Alpha", "Beta Sans", "beta sans", "BETA  SANS", "gamma mono", "Mono", "ab", "c", "a", "bc", "abc", "",
	"Arial", "Helvetica", "Liberation Sans", "Times New Roman", "Times", "DejaVu Serif", "DejaVu Sans", "DejaVu Sans Mono",
	"Noto Sans", "Noto Serif", "Noto Sans Mono", "Courier New", "Noto Color Emoji", "XITS Math", "Impact", "Comic Sans MS",
	"Nimbus Sans", "Calibri", "Carlito", "serif",
}

var genericFamilies = []string{"serif", "sans-serif", "monospace", "cursive", "fantasy", "math", "emoji"}

var stretches = []font.Stretch{0.5, 0.625, 0.75, 0.875, 1, 1.125, 1.25, 1.5, 2}
var weights = []font.Weight{100, 200, 300, 350, 400, 450, 500, 550, 600, 700, 800, 900, 950, 1000, 1}

var fixedScripts = []language.Script{language.Latin, language.Arabic, language.Cyrillic, language.Greek, language.Hebrew, language.Han,
	language.Devanagari, language.Thai, language.Common, language.Unknown, language.Script(0x12345678)}

var commonRunes = []rune{' ', '1', 'A', 'a', '.', 0xE9, 0x627, 0x4E00, 0x1F600, 0xE000, 0x10FFFF, 0xD800, 0, 0xFFFD}

func genAspect(r *gen.RNG) Asp {
	a := Asp{Style: uint8(1 + r.Intn(2)), Weight: float32(gen.Pick(r, weights)), Stretch: float32(gen.Pick(r, stretches))}
	// descriptions with unspecified (zero) fields are legitimate: they mean regular
	switch r.Intn(16) {
	case 0:
		a = Asp{}
	case 1:
		a.Weight = 0
	case 2:
		a.Style, a.Stretch = 0, 0
	}
	return a
}

// a few aspects per history so that equal aspects and near misses are common
func genQueryAspect(r *gen.RNG, palette []Asp) *Asp {
	switch r.Intn(8) {
	case 0:
		return nil // zero aspect: defaults
	case 1:
		a := Asp{Style: uint8(r.Intn(3)), Weight: float32(gen.Pick(r, []float32{0, 400, 430, 500, 700, 1000})), Stretch: float32(gen.Pick(r, []float32{0, 0.9, 1, 1.1, 2}))}
		return &a
	case 2:
		a := genAspect(r)
		return &a
	default:
		a := gen.Pick(r, palette)
		switch r.Intn(4) { // perturb one field
		case 0:
			a.Weight = float32(gen.Pick(r, weights))
		case 1:
			a.Stretch = float32(gen.Pick(r, stretches))
		case 2:
			a.Style = uint8(1 + r.Intn(2))
		}
		return &a
	}
}

var extensions = []string{".ttf", ".otf", ".TTC", "", ".woff"}

// genHistory is a pure function of (seed, i).
func genHistory(seed int64, i int, nOps int) History {
	r := gen.New(seed, "C14/history", i)
	p := buildPool()
	nFonts := gen.Pick(r, []int{1, 1, 2, 2, 3, 3, 4, 5, 6, 8, 10, 12, 16, 20, 28}) // >= 13 candidates: sort.Sort stops being an insertion sort
	if nFonts > len(p) {
		nFonts = len(p)
	}
	order := make([]int, len(p))
	for k := range order {
		order[k] = k
	}
	gen.Shuffle(r, order)
	chosen := make([]*poolFont, nFonts)
	for k := range chosen {
		chosen[k] = p[order[k]]
	}
	withSys := r.Chance(1, 4)

	// palettes
	nFam := 1 + r.Intn(4)
	fams := make([]string, nFam)
	for k := range fams {
		fams[k] = gen.Pick(r, familyPool)
	}
	nAsp := 1 + r.Intn(4)
	asps := make([]Asp, nAsp)
	for k := range asps {
		asps[k] = genAspect(r)
	}
	var runes []rune
	var scripts []uint32
	scripts = append(scripts, 0)
	langs := []uint16{uint16(language.LangEn), uint16(language.LangAr), uint16(r.Intn(284)), uint16(r.Intn(600))}
	for k, pf := range chosen {
		n := 3
		if k >= 4 {
			n = 1
		}
		for j := 0; j < n; j++ {
			runes = append(runes, gen.Pick(r, pf.Runes))
		}
		if len(pf.Scripts) > 0 {
			scripts = append(scripts, uint32(gen.Pick(r, pf.Scripts)))
		}
		if len(pf.Langs) > 0 {
			langs = append(langs, gen.Pick(r, pf.Langs))
		}
	}
	for k := 0; k < 2; k++ {
		runes = append(runes, gen.Pick(r, commonRunes))
	}
	scripts = append(scripts, uint32(gen.Pick(r, fixedScripts)))
	if len(runes) > 10 {
		gen.Shuffle(r, runes[3:]) // the runes of the first font added stay
		runes = runes[:10]
	}
	if len(scripts) > 4 {
		gen.Shuffle(r, scripts[1:])
		scripts = scripts[:4]
	}
	genFamilies := func() []string {
		n := gen.Pick(r, []int{0, 1, 1, 2, 2, 3, 4})
		out := make([]string, 0, n)
		for k := 0; k < n; k++ {
			switch r.Intn(10) {
			case 0, 1:
				out = append(out, gen.Pick(r, genericFamilies))
			case 2:
				out = append(out, gen.Pick(r, familyPool))
			case 3:
				out = append(out, gen.Pick(r, []string{"no such family", "ab", "c", "a", "bc", "abc"}))
			default:
				out = append(out, gen.Pick(r, fams))
			}
		}
		return out
	}
	type q struct {
		fams []string
		asp  *Asp
	}
	queries := make([]q, 2+r.Intn(2))
	for k := range queries {
		queries[k] = q{genFamilies(), genQueryAspect(r, asps)}
	}
	if r.Chance(1, 6) && len(queries) >= 2 {
		// same concatenation, different split: the rune cache hashes the families back to back
		queries[0].fams = []string{"ab", "c"}
		queries[1].fams = []string{"a", "bc"}
		queries[1].asp = queries[0].asp
	}

	var h History
	next := 0 // next unused font
	usedSys := map[string]bool{}
	var sysAdded []*poolFont
	twins := 0
	addOp := func() Op {
		if len(sysAdded) > 0 && r.Chance(1, 3) {
			// the same file again as a user font under its own family: a system and a
			// user provided face with equal family and aspect (distinct locations)
			pf := gen.Pick(r, sysAdded)
			twins++
			return Op{K: "AddFont", Font: pf.ID, FileID: fmt.Sprintf("twin-%d.ttf", twins)}
		}
		pf := chosen[next]
		next++
		kind := r.Intn(10)
		switch {
		case withSys && kind < 4 && !usedSys[pf.FileID] && pf.NFaces == 1:
			usedSys[pf.FileID] = true
			sysAdded = append(sysAdded, pf)
			return Op{K: "AddSys", Font: pf.ID}
		case kind < 5 || pf.NFaces > 1 && kind < 8:
			fam := ""
			if r.Chance(2, 3) {
				fam = gen.Pick(r, fams)
			}
			return Op{K: "AddFont", Font: pf.ID, FileID: fmt.Sprintf("file-%d%s", next, gen.Pick(r, extensions)), Family: fam}
		default:
			a := gen.Pick(r, asps)
			if r.Chance(1, 4) {
				a = genAspect(r)
			}
			return Op{K: "AddFace", Font: pf.ID, Loc: &Loc{File: fmt.Sprintf("mem-%d%s", next, gen.Pick(r, extensions)), Index: uint16(r.Intn(3)), Instance: uint16(r.Intn(2))},
				Family: gen.Pick(r, fams), Aspect: &a}
		}
	}
	if !r.Chance(1, 20) {
		// most histories start by loading a part of their fonts
		for k := 1 + r.Intn(nFonts); k > 0 && next < len(chosen); k-- {
			h.Ops = append(h.Ops, addOp())
		}
	}
	for len(h.Ops) < nOps {
		x := r.Intn(100)
		switch {
		case x < 14 && next < len(chosen):
			h.Ops = append(h.Ops, addOp())
		case x < 26:
			qq := gen.Pick(r, queries)
			h.Ops = append(h.Ops, Op{K: "SetQuery", Families: append([]string(nil), qq.fams...), Aspect: qq.asp})
		case x < 36:
			h.Ops = append(h.Ops, Op{K: "SetScript", Script: gen.Pick(r, scripts)})
		case x < 41:
			h.Ops = append(h.Ops, Op{K: "CacheSize", Size: gen.Pick(r, []int{0, 1, 3, 4096})})
		case x < 47:
			h.Ops = append(h.Ops, Op{K: "ResolveLang", Lang: gen.Pick(r, langs)})
		case x < 53:
			h.Ops = append(h.Ops, Op{K: "Meta", N: r.Intn(64)})
		default:
			h.Ops = append(h.Ops, Op{K: "Resolve", Rune: gen.Pick(r, runes)})
		}
	}
	return h
}

func hashHistory(h History) uint64 {
	x := uint64(0)
	for _, op := range h.Ops {
		x = vrun.Hash64(x, op.K, op.Font, op.FileID, op.Family, fmt.Sprint(op.Loc), fmt.Sprint(op.Aspect), fmt.Sprint(op.Families), op.Script, op.Size, op.Rune, op.Lang, op.N)
	}
	return x
}

type monitor struct {
	run  *vrun.Run
	mu   sync.Mutex
	seen map[string]bool
}

func (m *monitor) judge(h History, i int) {
	run := m.run
	run.Eval(1)
	st, f, err := runHistory(h, i%4 == 0)
	if err != nil {
		run.Inconclusive("harness: " + err.Error())
		return
	}
	for _, k := range sortedKeys(st.cover) {
		run.CoverN(k, int64(st.cover[k]))
	}
	if st.resolves > 0 {
		run.Nontrivial(hashHistory(h))
	}
	if f != nil {
		run.Cover("finding " + f.Key)
		m.mu.Lock()
		first := !m.seen[f.Key]
		m.seen[f.Key] = true
		m.mu.Unlock()
		if first { // only the case that becomes the replay file is minimised
			sh, f2 := shrink(h, f)
			run.Violation(f.Key, f2.Msg, sh)
		} else {
			run.Violation(f.Key, f.Msg, h)
		}
		return
	}
	if run.WantSample() && len(st.samples) > 0 && i%7 == 0 {
		run.Sample(map[string]any{"history": i, "ops": len(h.Ops), "judged_resolves": st.resolves, "example": st.samples[0]})
	}
}

// Main is the entry point of the C14 monitor.
func Main() {
	run := vrun.Start("C14")
	m := &monitor{run: run, seen: map[string]bool{}}
	rule := "histories of 40 operations on one FontMap (databases of 1–12 corpus faces via AddFace / AddFont, a quarter of the histories also with not-user-provided footprints through the hook); " +
		"every ResolveFace on a non empty database is judged against a fresh cache-less map, the priority law over VerifCandidates of that map, list laws with an own CSS §5.2 reference, and location/metadata/identity as inserted. " +
		"non-trivial = history with >= 1 judged ResolveFace on a non empty database; distinct by hash of the operations"
	assume := []string{
		"Locations, and *font.Font objects given to AddFace, are distinct within a history (DESIGN §7)",
		"candidate aspects have non zero fields and style normal/italic; query aspects may have zero fields",
		"rune cache sizes 0, 1, 3, 4096 (negative sizes are outside the property's configurations)",
		"with lazily loaded system footprints the 'arbitrary face' answer is history dependent (first face loaded); such cases are counted, not judged: the property quantifies over AddFace/AddFont databases",
		"cache hits and evictions in the evidence are predicted by an LRU model of the documented size, the library does not expose them",
	}
	if run.Replay != "" {
		var h History
		if _, err := vrun.ReadReplay(run.Replay, &h); err != nil {
			fmt.Println("replay:", err)
			run.Finish(vrun.Level{Level: "exploration", Rule: "replay (unreadable)"})
		}
		buildPool()
		m.judge(h, 0)
		run.Finish(vrun.Level{Level: "exploration", Rule: "replay"})
	}

	p := buildPool()
	run.Extra("pool_faces", len(p))
	ids := make([]string, len(p))
	for i, pf := range p {
		ids[i] = pf.ID
	}
	sort.Strings(ids)
	run.Extra("pool", ids)
	if len(p) < 8 {
		run.Inconclusive("font pool too small")
		run.Finish(vrun.Level{Level: "exploration", Rule: rule, Assumptions: assume, Floor: 1})
	}
	for _, h := range fixedHistories() {
		m.judge(h, 0)
	}
	n := run.Pick(5000, 300000)
	run.Extra("histories", n)
	vrun.ParallelFor(n, func(i int) { m.judge(genHistory(run.Seed, i, 40), i) })
	run.Finish(vrun.Level{Level: "exploration", Rule: rule, Assumptions: assume, Floor: run.Pick(3000, 150000)})
}

// fixedHistories are small hand written scenarios judged first (they name the
// cache invalidation points of the statement directly).
func fixedHistories() []History {
	p := buildPool()
	if len(p) < 3 {
		return nil
	}
	a, b, c := p[0], p[1], p[2]
	ra, rb := a.Runes[0], b.Runes[0]
	reg := &Asp{Style: 1, Weight: 400, Stretch: 1}
	bold := &Asp{Style: 1, Weight: 700, Stretch: 1}
	return []History{
		// AddFace after a cached answer
		{Ops: []Op{
			{K: "AddFace", Font: a.ID, Loc: &Loc{File: "a.ttf"}, Family: "fa", Aspect: reg},
			{K: "SetQuery", Families: []string{"fb", "fa"}},
			{K: "Resolve", Rune: rb}, {K: "Resolve", Rune: rb},
			{K: "AddFace", Font: b.ID, Loc: &Loc{File: "b.ttf"}, Family: "fb", Aspect: reg},
			{K: "Resolve", Rune: rb}, {K: "Resolve", Rune: ra},
		}},
		// same rune and query under two scripts
		{Ops: []Op{
			{K: "AddFace", Font: a.ID, Loc: &Loc{File: "a.ttf"}, Family: "fa", Aspect: reg},
			{K: "AddFace", Font: b.ID, Loc: &Loc{File: "b.ttf"}, Family: "fb", Aspect: bold},
			{K: "AddFace", Font: c.ID, Loc: &Loc{File: "c.otf"}, Family: "fc", Aspect: reg},
			{K: "SetQuery", Families: []string{"nothing"}},
			{K: "SetScript", Script: uint32(firstScript(b))}, {K: "Resolve", Rune: ' '}, {K: "Resolve", Rune: rb},
			{K: "SetScript", Script: uint32(firstScript(c))}, {K: "Resolve", Rune: ' '}, {K: "Resolve", Rune: rb},
			{K: "SetScript", Script: uint32(firstScript(a))}, {K: "Resolve", Rune: ' '},
		}},
		// query change between two resolutions of one rune, tiny cache
		{Ops: []Op{
			{K: "CacheSize", Size: 1},
			{K: "AddFace", Font: a.ID, Loc: &Loc{File: "a.ttf"}, Family: "fa", Aspect: reg},
			{K: "AddFace", Font: b.ID, Loc: &Loc{File: "b.ttf"}, Family: "fb", Aspect: reg},
			{K: "SetQuery", Families: []string{"fa"}}, {K: "Resolve", Rune: ' '},
			{K: "SetQuery", Families: []string{"fb"}}, {K: "Resolve", Rune: ' '},
			{K: "SetQuery", Families: []string{"fa"}, Aspect: bold}, {K: "Resolve", Rune: ' '}, {K: "Resolve", Rune: ra}, {K: "Resolve", Rune: ' '},
		}},
	}
}

func firstScript(pf *poolFont) language.Script {
	for _, s := range pf.Scripts {
		if s.Strong() && s != language.Unknown {
			return s
		}
	}
	if len(pf.Scripts) > 0 {
		return pf.Scripts[0]
	}
	return language.Latin
}
