package c14

import (
	"testing"
	"time"
)

func TestTiming(t *testing.T) {
	t0 := time.Now()
	p := buildPool()
	t.Logf("pool %d faces in %v", len(p), time.Since(t0))
	t0 = time.Now()
	n := 200
	res := 0
	for i := 0; i < n; i++ {
		st, f, err := runHistory(genHistory(1, i, 40), i%4 == 0)
		if err != nil {
			t.Log(err)
		}
		if f != nil {
			t.Log(f.Key, f.Msg)
		}
		res += st.resolves
	}
	t.Logf("%d histories, %d resolves in %v", n, res, time.Since(t0))
}
