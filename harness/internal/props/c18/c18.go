// Package c18 monitors "Glyphs not flagged unsafe-to-break are safe cut
// points".
//
// Oracle: upstream's hb-buffer-verify algorithm re-implemented over the public
// API: shape the whole item (monotone cluster level); cut at every cluster
// boundary whose adjacent glyph (per direction) lacks GlyphUnsafeToBreak;
// shape each fragment with AddRunes(text, start, len) — which supplies up to
// five runes of context on both sides — with BOT / EOT cleared on inner edges;
// the concatenation must equal the whole shaping in gid, cluster, advances and
// offsets (flag differences ignored, as upstream does); flags uniform within
// each cluster. In addition every safe boundary is cut ON ITS OWN (two pieces):
// the all-at-once procedure is blind to a missing flag whenever the other
// cuts isolate the glyphs involved (e.g. "1⁄2⁄3": a slash separated from its
// digit cannot form a fraction in any piece).
//
// Three-valued: whenever the Go reconstruction differs, the same procedure is
// run on libharfbuzz 6.0.0 for the same input. Only "Go fails its own
// reconstruction AND the reference passes its own reconstruction AND the input
// is outside the C05 skew classes" is a violation.
package c18

import (
	"fmt"
	"os"
	"path/filepath"
	"time"

	"verifharness/internal/gen"
	"verifharness/internal/hbref"
	"verifharness/internal/props/c05"
	"verifharness/internal/vrun"
)

const (
	clsNotMonotone = "output clusters not monotone at a monotone cluster level (C05 / C01 matter, precondition of the statement)"
	keyAsUpstream  = "C18/as-upstream" // open known finding: the reference fails the same procedure on the same input
	clsRefNoCuts   = "reference flags every boundary unsafe for this input (nothing to reconstruct on the reference)"
)

type shapeFn func(lo, hi, flags int) ([]c05.G, bool)

// monotone checks cluster monotonicity in the direction of the run.
func monotone(gs []c05.G, backward bool) bool {
	for i := 1; i < len(gs); i++ {
		if gs[i-1].Cluster != gs[i].Cluster && (gs[i-1].Cluster < gs[i].Cluster) == backward {
			return false
		}
	}
	return true
}

// reconstruct is hb-buffer-verify's unsafe-to-break check. It returns the
// concatenation of the fragment shapings, the number of safe interior cuts and
// the number of interior cluster boundaries flagged unsafe.
func reconstruct(whole []c05.G, backward bool, lo, hi, flags int, shape shapeFn) (recon []c05.G, safe, unsafe int, ok bool) {
	ok = true
	n := len(whole)
	textStart, textEnd := lo, lo
	if backward {
		textStart, textEnd = hi, hi
	}
	for end := 1; end <= n; end++ {
		off := 0
		if backward {
			off = 1
		}
		if end < n {
			if whole[end].Cluster == whole[end-1].Cluster {
				continue
			}
			if whole[end-off].Mask&hbref.GlyphFlagUnsafeToBreak != 0 {
				unsafe++
				continue
			}
			safe++
		}
		if end == n {
			if backward {
				textStart = lo
			} else {
				textEnd = hi
			}
		} else if backward {
			textStart = whole[end-1].Cluster
		} else {
			textEnd = whole[end].Cluster
		}
		if !(textStart < textEnd) || textStart < lo || textEnd > hi {
			return nil, safe, unsafe, false
		}
		fl := flags
		if textStart > lo {
			fl &^= c05.FBot
		}
		if textEnd < hi {
			fl &^= c05.FEot
		}
		frag, fok := shape(textStart, textEnd, fl)
		if !fok {
			return nil, safe, unsafe, false
		}
		recon = append(recon, frag...)
		if backward {
			textEnd = textStart
		} else {
			textStart = textEnd
		}
	}
	return recon, safe, unsafe, true
}

// safeBoundary reports whether the glyph boundary before index end is one the
// shaper declares safe, and the text position it corresponds to.
func safeBoundary(whole []c05.G, backward bool, end int) (t int, safe bool) {
	if end <= 0 || end >= len(whole) || whole[end].Cluster == whole[end-1].Cluster {
		return 0, false
	}
	if backward {
		return whole[end-1].Cluster, whole[end-1].Mask&hbref.GlyphFlagUnsafeToBreak == 0
	}
	return whole[end].Cluster, whole[end].Mask&hbref.GlyphFlagUnsafeToBreak == 0
}

// cutAt shapes the two pieces of the item cut at text position t and returns
// their concatenation in glyph order.
func cutAt(backward bool, lo, hi, t, flags int, shape shapeFn) ([]c05.G, bool) {
	first, ok1 := shape(lo, t, flags&^c05.FEot)
	second, ok2 := shape(t, hi, flags&^c05.FBot)
	if !ok1 || !ok2 {
		return nil, false
	}
	if backward {
		return append(append([]c05.G(nil), second...), first...), true
	}
	return append(append([]c05.G(nil), first...), second...), true
}

// singleCuts checks every safe boundary on its own: the item is cut there and
// only there ("cutting the text at ANY cluster boundary whose adjacent glyph is
// not flagged unsafe-to-break"). It returns the text position and the
// reconstruction of the first failing cut (t = -1: all pass) and the number
// of cuts tried.
func singleCuts(whole []c05.G, backward bool, lo, hi, flags int, shape shapeFn) (failT int, failRecon []c05.G, tried int) {
	for end := 1; end < len(whole); end++ {
		t, safe := safeBoundary(whole, backward, end)
		if !safe || t <= lo || t >= hi {
			continue
		}
		tried++
		recon, ok := cutAt(backward, lo, hi, t, flags, shape)
		if !ok || !c05.Equal(recon, whole) {
			return t, recon, tried
		}
	}
	return -1, nil, tried
}

// claimsSafe: does this shaping have a cluster boundary at text position t
// that is not flagged unsafe-to-break?
func claimsSafe(whole []c05.G, backward bool, t int) bool {
	for end := 1; end < len(whole); end++ {
		if bt, safe := safeBoundary(whole, backward, end); bt == t && whole[end].Cluster != whole[end-1].Cluster {
			return safe
		}
	}
	return false
}

// uniformFlags: the unsafe-to-break flag is the same on all glyphs of a cluster.
func uniformFlags(gs []c05.G) bool {
	for i := 1; i < len(gs); i++ {
		if gs[i].Cluster == gs[i-1].Cluster && (gs[i].Mask&1) != (gs[i-1].Mask&1) {
			return false
		}
	}
	return true
}

type verdict struct {
	kind, class, key, msg string
	cat                   string
	rs                    c05.Resolved
	safe, unsafe          int
	single                int // single cuts tried
	whole                 []c05.G
}

func judge(p *c05.Pair, c *c05.Case, sk *c05.Skew) verdict {
	var v verdict
	v.rs = p.Resolve(c)
	v.cat = c05.ShaperCategory(v.rs.Script, v.rs.Dir)
	backward := v.rs.Dir == hbref.DirRTL || v.rs.Dir == hbref.DirBTT
	lo, hi := c.Off, len(c.Text)
	if c.Len >= 0 && c.Off+c.Len < hi {
		hi = c.Off + c.Len
	}
	var panicked any
	var where string
	goShape := func(a, b, fl int) ([]c05.G, bool) {
		out, pv, w := p.ShapeGoRange(c, v.rs, a, b, fl)
		if pv != nil {
			panicked, where = pv, w
			return nil, false
		}
		return out, true
	}
	whole, ok := goShape(lo, hi, c.Flags)
	if !ok {
		v.kind, v.class, v.msg = "inconclusive", c05.ClsGoPanic, fmt.Sprintf("%v at %s", panicked, where)
		return v
	}
	v.whole = whole
	if !monotone(whole, backward) {
		v.kind, v.class = "inconclusive", clsNotMonotone
		return v
	}
	recon, safe, unsafe, rok := reconstruct(whole, backward, lo, hi, c.Flags, goShape)
	v.safe, v.unsafe = safe, unsafe
	if panicked != nil {
		v.kind, v.class, v.msg = "inconclusive", c05.ClsGoPanic, fmt.Sprintf("%v at %s", panicked, where)
		return v
	}
	goUniform := uniformFlags(whole)
	allOK := rok && c05.Equal(recon, whole) && goUniform
	// every safe boundary cut on its own (when there is a single safe boundary
	// the all-at-once reconstruction already is that cut)
	failT := -1
	var failRecon []c05.G
	if allOK && safe >= 2 {
		failT, failRecon, v.single = singleCuts(whole, backward, lo, hi, c.Flags, goShape)
		if panicked != nil {
			v.kind, v.class, v.msg = "inconclusive", c05.ClsGoPanic, fmt.Sprintf("%v at %s", panicked, where)
			return v
		}
	}
	if allOK && failT < 0 {
		v.kind = "held"
		return v
	}
	// the library fails its own reconstruction. The reference is the arbiter of whether
	// that is the port or upstream behaviour; on inputs where the two are known to differ
	// for a reason outside the port (version skew, DESIGN §7) it cannot arbitrate.
	if cls := c05.InputSkew(p, c, v.rs, v.cat, sk); cls != "" {
		v.kind, v.class = "inconclusive", cls
		return v
	}
	// the Go side fails: what does the reference do on the same input?
	cShape := func(a, b, fl int) ([]c05.G, bool) { return p.ShapeCRange(c, v.rs, a, b, fl) }
	cwhole, cok := cShape(lo, hi, c.Flags)
	if !cok || !monotone(cwhole, backward) {
		v.kind, v.class = "inconclusive", c05.ClsCFail
		return v
	}
	crecon, csafe, _, crok := reconstruct(cwhole, backward, lo, hi, c.Flags, cShape)
	asUpstream := func(what string) verdict {
		// the library violates the statement and so does the reference, by the same
		// procedure on the same input: open known finding, the reference is the prediction
		v.kind, v.key = "violated", keyAsUpstream
		v.msg = fmt.Sprintf("%s; libharfbuzz %s fails the same procedure on the same input: font=%s#%d text=%s item=[%d,%d) %s\n  whole: %s\n  C    : %s",
			what, sk.HBVersion, c.Font, c.Index, c05.U(c.Text), lo, hi, c.Settings(), fmtFlags(whole), fmtFlags(cwhole))
		return v
	}
	if !crok || !c05.Equal(crecon, cwhole) {
		return asUpstream("reconstruction from the pieces cut at the boundaries not flagged unsafe-to-break differs from the whole shaping")
	}
	if allOK && failT >= 0 {
		// a single cut fails on the Go side. The reference does not show the
		// failure if it does not claim that boundary safe at all, or if it does
		// and its own cut there reproduces its whole shaping.
		refSays := "the reference flags that boundary unsafe-to-break (or has no cluster boundary there)"
		if claimsSafe(cwhole, backward, failT) {
			cr, ok := cutAt(backward, lo, hi, failT, c.Flags, cShape)
			if !ok || !c05.Equal(cr, cwhole) {
				return asUpstream(fmt.Sprintf("single cut at text position %d differs from the whole shaping", failT))
			}
			refSays = "the reference declares the same boundary safe and passes the same cut"
		}
		v.kind = "violated"
		v.key = fmt.Sprintf("C18/%s#%d/%s/single cut differs", c.Font, c.Index, v.cat)
		if !c05.Equal(cwhole, whole) {
			if w := c05.Judge(p, c, sk); w.Kind == "violated" && len(w.Key) > 11 && w.Key[:11] == "C05/defect/" {
				v.key = "C18/consequence of " + w.Key
			}
		}
		v.msg = fmt.Sprintf("single cut at text position %d differs (cutting at all %d safe boundaries at once reconstructs fine): font=%s#%d text=%s item=[%d,%d) %s (resolved dir=%d); %s\n  whole: %s\n  cut  : %s\n  C    : %s",
			failT, safe, c.Font, c.Index, c05.U(c.Text), lo, hi, c.Settings(), v.rs.Dir, refSays, fmtFlags(whole), fmtFlags(failRecon), fmtFlags(cwhole))
		return v
	}
	what := "reconstruction differs"
	if !rok {
		what = "fragment could not be cut (cluster values outside the item or not increasing)"
	} else if c05.Equal(recon, whole) && !goUniform {
		if !uniformFlags(cwhole) {
			return asUpstream("unsafe-to-break flag not uniform within a cluster")
		}
		what = "unsafe-to-break flag not uniform within a cluster"
	} else if csafe == 0 && safe > 0 && !c05.Equal(cwhole, whole) {
		// the reference cut nowhere and shapes the text differently: its "pass" says
		// nothing about these cuts (when the whole shapings agree, the library claims a
		// boundary safe that the reference flags, and its own cut fails: a violation)
		v.kind, v.class = "inconclusive", clsRefNoCuts
		return v
	}
	v.kind = "violated"
	same := "the reference produces the same whole shaping"
	if !c05.Equal(cwhole, whole) {
		same = "the reference's whole shaping differs (see C05)"
	}
	v.key = fmt.Sprintf("C18/%s#%d/%s/%s", c.Font, c.Index, v.cat, what)
	if rok && len(recon) == len(whole) {
		// only mark offsets differ, zero on one side: the stale base cache of
		// MarkLigPos / MarkBasePos (see c05.KeyLastBaseCache)
		only := true
		for i := range whole {
			a, b := whole[i], recon[i]
			if a.GID != b.GID || a.Cluster != b.Cluster || a.XAdv != b.XAdv || a.YAdv != b.YAdv {
				only = false
			}
			if (a.XOff != b.XOff || a.YOff != b.YOff) && !((a.XOff == 0 && a.YOff == 0) || (b.XOff == 0 && b.YOff == 0)) {
				only = false
			}
		}
		if only && c05.Equal(cwhole, whole) {
			v.key = "C18/defect/mark attachment differs between whole text and fragment (stale lastBase cache shared by MarkLigPos and MarkBasePos)"
		}
	}
	if !c05.Equal(cwhole, whole) {
		// the whole shapings already differ: when C05 attributes that to one of
		// its known port defects, file the failure under that defect
		if w := c05.Judge(p, c, sk); w.Kind == "violated" && len(w.Key) > 11 && w.Key[:11] == "C05/defect/" {
			v.key = "C18/consequence of " + w.Key
		}
	}
	v.msg = fmt.Sprintf("%s: font=%s#%d text=%s item=[%d,%d) %s (resolved dir=%d); %d safe cuts; reference passes its own reconstruction with %d safe cuts; %s\n  whole: %s\n  recon: %s\n  C    : %s",
		what, c.Font, c.Index, c05.U(c.Text), lo, hi, c.Settings(), v.rs.Dir, safe, csafe, same, fmtFlags(whole), fmtFlags(recon), fmtFlags(cwhole))
	return v
}

// fmtFlags prints glyphs with a '#' on the unsafe-to-break ones.
func fmtFlags(gs []c05.G) string {
	s := c05.Fmt(gs)
	if len(gs) > 64 {
		return s
	}
	out := "["
	for i, g := range gs {
		if i > 0 {
			out += "|"
		}
		out += fmt.Sprintf("%d=%d", g.GID, g.Cluster)
		if g.XOff != 0 || g.YOff != 0 {
			out += fmt.Sprintf("@%d,%d", g.XOff, g.YOff)
		}
		out += fmt.Sprintf("+%d", g.XAdv)
		if g.Mask&1 != 0 {
			out += "#"
		}
	}
	return out + "]"
}

func srcClass(src string) string {
	n := 0
	for i, ch := range src {
		if ch == ':' {
			n++
			if n == 2 {
				return src[:i]
			}
		}
	}
	return src
}

var dirName = map[int]string{4: "LTR", 5: "RTL", 6: "TTB", 7: "BTT"}

type sample struct {
	Font     string `json:"font"`
	Text     string `json:"text"`
	Settings string `json:"settings"`
	Whole    string `json:"whole_shaping_hash_marks_unsafe_to_break"`
	Safe     int    `json:"safe_cuts"`
	Unsafe   int    `json:"unsafe_boundaries"`
}

var shrunk = map[string]bool{}

func record(run *vrun.Run, p *c05.Pair, c *c05.Case, v *verdict, pairs c05.PairSet, sk *c05.Skew) {
	run.Eval(1)
	run.Cover("verdict=" + v.kind)
	run.Cover("cat=" + v.cat)
	run.Cover("src=" + srcClass(c.Src))
	run.Cover("dir=" + dirName[v.rs.Dir])
	run.Cover("fontkind=" + p.Info.Kinds() + "|" + v.cat)
	run.Cover(fmt.Sprintf("cluster_level=%d", c.CL))
	for _, f := range c.Feats {
		if f.Start != 0 || f.End >= 0 {
			run.Cover("features=ranged")
			break
		}
	}
	if pairs != nil {
		pairs[p.Ref()+"|"+v.cat] = true
	}
	switch v.kind {
	case "held":
		run.CoverN("safe-cuts-checked", int64(v.safe))
		run.CoverN("single-cuts-checked", int64(v.single))
		run.CoverN("unsafe-boundaries-seen", int64(v.unsafe))
		if v.safe > 0 && v.unsafe > 0 {
			run.Nontrivial(c.Hash())
			run.Cover("held-nontrivial")
			if run.WantSample() && len(v.whole) < 14 {
				run.Sample(sample{Font: p.Ref(), Text: c05.U(c.Item()), Settings: c.Settings(), Whole: fmtFlags(v.whole), Safe: v.safe, Unsafe: v.unsafe})
			}
		} else if v.safe > 0 {
			run.Cover("held-all-boundaries-safe")
		} else {
			run.Cover("held-no-safe-cut")
		}
	case "inconclusive":
		run.Inconclusive(v.class)
	case "violated":
		run.Nontrivial(c.Hash())
		run.Cover("violated-cases")
		if !shrunk[v.key] {
			shrunk[v.key] = true
			key := v.key
			m := c05.Shrink(*c, 100, func(d *c05.Case) bool {
				w := judge(p, d, sk)
				return w.kind == "violated" && w.key == key
			})
			mv := judge(p, &m, sk)
			if mv.kind == "violated" && mv.key == key {
				run.Violation(key, mv.msg, &m)
				return
			}
		}
		run.Violation(v.key, v.msg, c)
	}
}

func level() vrun.Level {
	return vrun.Level{
		Level: "exploration",
		Rule: "cases: every face with GSUB/GPOS/kern and without morx that both sides accept x generated texts (per-script alphabets, misc class tuples, real text, mutations of upstream trigger strings) x {LTR,RTL} x script/language tags x features (global and ranged) x variations x cluster levels 0/1 x flags; every safe boundary of every shaped result is cut (hb-buffer-verify). " +
			"verdict: held / inconclusive (C05 skew class of the input, non-monotone output, reference also fails) / violated (Go fails, reference passes, outside skew). " +
			"non-trivial = a shaped result with at least one safe interior boundary and at least one unsafe one; distinct by hash of (font, text, item, settings)",
		Assumptions: []string{
			"reference: libharfbuzz.so.0 " + hbref.Version() + " running the same reconstruction on the same input",
			"fragments get their context from AddRunes(text, start, len) (up to 5 runes on each side), BOT/EOT cleared on inner edges, as upstream's hb-buffer-verify does",
			"the C05 skew classes (judge.go of package c05) apply",
		},
		Floor: 3000,
	}
}

func eligible(p *c05.Pair) bool {
	fi := p.Info
	return (fi.GSUB || fi.GPOS || fi.Kern) && !fi.Morx && !fi.GoMorx
}

// Main is the entry point of cmd/c18.
func Main() {
	run := vrun.Start("C18")
	wd := run.WorkDir()
	planPath := filepath.Join(wd, "plan.json")
	opts := c05.GenOpts{NoCmapLocal: true, OnlyLTRRTL: true, Monotone: true}

	if run.Replay != "" {
		var c c05.Case
		if _, err := vrun.ReadReplay(run.Replay, &c); err != nil {
			fmt.Println("replay:", err)
			os.Exit(2)
		}
		sk := c05.ComputeSkew()
		p, ok := c05.Open(c.Font, c.Index)
		if !ok {
			fmt.Println("replay: font not available:", c.Font)
			os.Exit(2)
		}
		v := judge(p, &c, sk)
		fmt.Printf("replay verdict: %s %s\n%s\n", v.kind, v.class, v.msg)
		record(run, p, &c, &v, nil, sk)
		run.Finish(vrun.Level{Level: "exploration", Rule: "replay"})
	}

	if run.Worker {
		pl, err := c05.LoadPlan(planPath)
		if err != nil {
			fmt.Fprintln(os.Stderr, "plan:", err)
			os.Exit(3)
		}
		pairs := c05.PairSet{}
		var cur *c05.Pair
		curRef := ""
		nRandom := len(pl.Faces) * pl.Batches
		sweepPairs := map[string]*c05.Pair{}
		fracs := c05.FractionTexts()
		run.WorkerLoop(180, func(i int) {
			if i >= nRandom+len(pl.Faces) {
				// multi-cluster sweep: [letter mark letter letter mark letter] for one (alphabet, mark) item
				k := i - nRandom - len(pl.Faces)
				for vv := 0; vv < c05.MultiVariants; vv++ {
					c, ref := c05.MultiClusterCase(k, vv, pl.SweepFaces)
					p, ok := sweepPairs[ref]
					if !ok {
						if len(sweepPairs) > 12 {
							for r, q := range sweepPairs {
								if q != nil {
									q.Close()
								}
								delete(sweepPairs, r)
							}
						}
						p, _ = c05.Open(c.Font, c.Index)
						if p != nil && !eligible(p) {
							p.Close()
							p = nil
						}
						sweepPairs[ref] = p
					}
					if p == nil {
						continue
					}
					w := judge(p, &c, pl.Skew)
					record(run, p, &c, &w, pairs, pl.Skew)
				}
				return
			}
			fraction := i >= nRandom
			ref := ""
			if fraction {
				ref = pl.Faces[i-nRandom]
			} else {
				ref = pl.Faces[i/pl.Batches]
			}
			if ref != curRef {
				if cur != nil {
					cur.Close()
					cur = nil
				}
				id, idx := c05.SplitRef(ref)
				p, ok := c05.Open(id, idx)
				curRef = ref
				if !ok {
					run.Inconclusive("face could not be opened in the worker")
					return
				}
				cur = p
			}
			if cur == nil {
				return
			}
			if fraction {
				// lookup sweep: texts drawn from the coverage tables of the face's own lookups
				for _, c := range c05.LookupSweep(cur, i-nRandom, pl.LookupCap) {
					if c.Dir == hbref.DirTTB {
						continue
					}
					c := c
					w := judge(cur, &c, pl.Skew)
					record(run, cur, &c, &w, pairs, pl.Skew)
				}
				// fraction chains on faces that have frac, numr and dnom
				if !c05.HasFractions(cur.Info) {
					return
				}
				for _, text := range fracs {
					for _, dir := range []int{hbref.DirLTR, hbref.DirRTL} {
						for cl := 0; cl < 2; cl++ {
							c := c05.Case{Font: cur.File.ID, Index: cur.Index, Text: text, Len: -1, Dir: dir, CL: cl, Flags: c05.FBot | c05.FEot, Src: "ix:fraction-chains"}
							w := judge(cur, &c, pl.Skew)
							record(run, cur, &c, &w, pairs, pl.Skew)
						}
					}
				}
				return
			}
			for k := 0; k < pl.PerTask; k++ {
				r := gen.New(run.Seed, "C18/case/"+ref, (i%pl.Batches)*pl.PerTask+k)
				c := c05.GenCase(r, cur, opts)
				v := judge(cur, &c, pl.Skew)
				record(run, cur, &c, &v, pairs, pl.Skew)
			}
		})
		pairs.Save(filepath.Join(wd, fmt.Sprintf("pairs-%d-%d.txt", run.WorkerLo, run.WorkerHi)))
		run.Finish(level())
	}

	// parent
	old, _ := filepath.Glob(filepath.Join(wd, "pairs-*.txt"))
	for _, f := range old {
		os.Remove(f)
	}
	t0 := time.Now()
	sk := c05.ComputeSkew()
	all, _ := c05.EligibleFaces()
	var faces []string
	skipped := 0
	for _, ref := range all {
		id, idx := c05.SplitRef(ref)
		p, ok := c05.Open(id, idx)
		if !ok {
			continue
		}
		if eligible(p) {
			faces = append(faces, ref)
		} else {
			skipped++
		}
		p.Close()
	}
	pl := &c05.Plan{Faces: faces, Skew: sk, Batches: run.Pick(8, 60), PerTask: run.Pick(75, 75), LookupCap: run.Pick(150, 1500),
		PairItems: c05.PairSweepItems(), SweepFaces: c05.PairSweepFaces(faces)}
	if err := c05.SavePlan(planPath, pl); err != nil {
		fmt.Fprintln(os.Stderr, "plan:", err)
		os.Exit(3)
	}
	run.Extra("setup_s", time.Since(t0).Seconds())
	run.Extra("faces_with_GSUB_GPOS_or_kern_and_no_morx", len(faces))
	run.Extra("faces_skipped_morx_or_no_layout", skipped)
	run.Extra("reference_version", sk.HBVersion)
	n := len(faces) * pl.Batches
	run.Extra("random_cases_planned", n*pl.PerTask)
	run.Extra("multi_cluster_sweep_cases_planned", pl.PairItems*c05.MultiVariants)
	nRandom := n
	n += len(faces) + pl.PairItems
	run.RunChildren(vrun.ChildCfg{N: n, Chunk: run.Pick(64, 300), StallWall: 600 * time.Second}, func(d vrun.Death) {
		run.Inconclusive("go side died in a worker (C01): " + d.Kind)
		what := "multi-cluster sweep"
		if d.Case < nRandom {
			what = "face " + faces[d.Case/pl.Batches]
		} else if d.Case < nRandom+len(faces) {
			what = "fraction chains on face " + faces[d.Case-nRandom]
		}
		run.Note("task %d (%s): %s", d.Case, what, vrun.FatalHead(d.Detail))
	})
	nf, np, perCat := c05.MergePairSets(wd)
	run.Extra("fonts_reached", nf)
	run.Extra("font_x_shaper_category_pairs_reached", np)
	run.Extra("fonts_per_shaper_category", perCat)
	run.Finish(level())
}
