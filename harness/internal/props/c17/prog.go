package c17

import (
	"math"
	"runtime"
	"runtime/debug"
	"strings"
	"sync/atomic"

	"github.com/go-text/typesetting/di"
	"github.com/go-text/typesetting/font"
	ot "github.com/go-text/typesetting/font/opentype"
	"github.com/go-text/typesetting/font/opentype/tables"
	"github.com/go-text/typesetting/fontscan"
	"github.com/go-text/typesetting/harfbuzz"
	"github.com/go-text/typesetting/language"
	"github.com/go-text/typesetting/segmenter"
	"github.com/go-text/typesetting/shaping"
	"golang.org/x/image/math/fixed"

	"verifharness/internal/gen"
)

// IMPORTANT (race pass): nothing in this file may synchronise goroutines with
// each other while a program runs - no channels, mutexes, atomics, sync.Pool
// (hence no fmt), no shared writable state. The only exception is the
// overlapObs, which is nil in the race pass.

type opKind uint8

const (
	opNewFace opKind = iota
	opSetVar
	opSetPpem
	opFontMetrics
	opAdvances
	opExtents
	opGlyphData
	opNames
	opCmap
	opLayout
	opShape
	opHBShape
	opSplit
	opUSegment
	opFMAdd
	opFMResolve
	opSysFonts
	nOpKinds
)

var opName = [nOpKinds]string{"newface", "setvariations", "setppem", "fontmetrics", "advances", "extents", "glyphdata",
	"names", "cmap", "layout", "shape", "hbshape", "split", "segmenter", "fontmap-addface", "fontmap-resolve", "systemfonts"}

// relative frequencies
var opWeights = [nOpKinds]int{40, 60, 30, 60, 90, 90, 110, 60, 50, 30, 150, 100, 50, 20, 25, 30, 5}

const (
	pseudoNone   = 255 // "font" of operations that use no shared font
	pseudoSystem = 254 // the process-global system font index
)

// env is everything the goroutines of one round share. Apart from the
// *font.Font values it is plain data, written before the start barrier and
// only read afterwards.
type env struct {
	fonts    []*sharedFont
	varFonts []int // slots with variation axes
	bmpFonts []int // slots with bitmap strikes
	sysDir   string
	nOps     int
}

// result is the private result slot of one program execution.
type result struct {
	Digests []uint64
	Kinds   []uint8
	Fonts   []uint8
	Panics  int
	Final   uint64
	pairs   map[uint32]int // overlap pass only
}

type hasher uint64

const fnvOff, fnvPrime = 14695981039346656037, 1099511628211

func (h *hasher) u64(v uint64) {
	x := uint64(*h)
	for i := 0; i < 8; i++ {
		x ^= v & 0xff
		x *= fnvPrime
		v >>= 8
	}
	*h = hasher(x)
}
func (h *hasher) i(v int)            { h.u64(uint64(int64(v))) }
func (h *hasher) f(v float32)        { h.u64(uint64(math.Float32bits(v))) }
func (h *hasher) fx(v fixed.Int26_6) { h.u64(uint64(int64(v))) }
func (h *hasher) b(v bool) {
	if v {
		h.u64(1)
	} else {
		h.u64(0)
	}
}
func (h *hasher) s(v string) {
	x := uint64(*h)
	for i := 0; i < len(v); i++ {
		x ^= uint64(v[i])
		x *= fnvPrime
	}
	*h = hasher(x)
	h.u64(uint64(len(v)))
}
func (h *hasher) bytes(v []byte) {
	x := uint64(*h)
	for i := 0; i < len(v); i++ {
		x ^= uint64(v[i])
		x *= fnvPrime
	}
	*h = hasher(x)
	h.u64(uint64(len(v)))
}

type nopLogger struct{}

func (nopLogger) Printf(string, ...interface{}) {}

// overlapObs is the "active operation" table of the second (non-race) pass.
type overlapObs struct {
	active []atomic.Uint32 // per goroutine: 0 idle, else 1 + kind<<8 + font slot
}

func (o *overlapObs) begin(slot int, k opKind, f int, seen map[uint32]int) {
	code := 1 + uint32(k)<<8 + uint32(f)
	o.active[slot].Store(code)
	for j := range o.active {
		if j == slot {
			continue
		}
		c := o.active[j].Load()
		if c == 0 {
			continue
		}
		c--
		if int(c&0xff) != f {
			continue
		}
		ka, kb := uint32(k), c>>8
		if ka > kb {
			ka, kb = kb, ka
		}
		seen[ka<<16|kb<<8|uint32(f)]++
	}
}

func (o *overlapObs) end(slot int) { o.active[slot].Store(0) }

// gstate is the PRIVATE state of one goroutine: faces, shaper, buffer,
// segmenters, font map. Nothing in it is reachable from another goroutine.
type gstate struct {
	e    *env
	rng  *gen.RNG
	obs  *overlapObs
	slot int

	faces    []*font.Face
	hbFonts  []*harfbuzz.Font
	shaper   shaping.HarfbuzzShaper
	buf      *harfbuzz.Buffer
	seg      shaping.Segmenter
	useg     segmenter.Segmenter
	fm       *fontscan.FontMap
	fmCount  int
	fmSystem bool

	res *result
}

// runProgram executes program `prog` of round `round`: a pure function of
// (seed, round, prog) and of what the library returns.
func runProgram(e *env, seed int64, round, prog int, obs *overlapObs, slot int) *result {
	g := &gstate{e: e, rng: gen.New(seed, "C17/prog", round*4096+prog), obs: obs, slot: slot}
	g.faces = make([]*font.Face, len(e.fonts))
	g.hbFonts = make([]*harfbuzz.Font, len(e.fonts))
	g.shaper.SetFontCacheSize(3 + g.rng.Intn(6))
	g.res = &result{Digests: make([]uint64, 0, e.nOps), Kinds: make([]uint8, 0, e.nOps), Fonts: make([]uint8, 0, e.nOps)}
	if obs != nil {
		g.res.pairs = map[uint32]int{}
	}
	total := 0
	for _, w := range opWeights {
		total += w
	}
	final := hasher(fnvOff)
	for i := 0; i < e.nOps; i++ {
		if g.rng.Chance(1, 3) {
			runtime.Gosched()
		}
		// choose the operation, then the font
		x := g.rng.Intn(total)
		k := opKind(0)
		for ; k < nOpKinds; k++ {
			if x < opWeights[k] {
				break
			}
			x -= opWeights[k]
		}
		f := g.rng.Intn(len(e.fonts))
		switch {
		case k == opSetVar && len(e.varFonts) > 0 && g.rng.Chance(7, 8):
			f = e.varFonts[g.rng.Intn(len(e.varFonts))]
		case (k == opSetPpem || k == opGlyphData) && len(e.bmpFonts) > 0 && g.rng.Chance(1, 3):
			f = e.bmpFonts[g.rng.Intn(len(e.bmpFonts))]
		}
		fcode := f
		switch k {
		case opUSegment:
			fcode = pseudoNone
		case opSysFonts:
			fcode = pseudoSystem
		}
		if obs != nil {
			obs.begin(slot, k, fcode, g.res.pairs)
		}
		d := g.exec(k, f)
		if obs != nil {
			obs.end(slot)
		}
		g.res.Digests = append(g.res.Digests, d)
		g.res.Kinds = append(g.res.Kinds, uint8(k))
		g.res.Fonts = append(g.res.Fonts, uint8(fcode))
		final.u64(d)
	}
	g.res.Final = uint64(final)
	return g.res
}

// exec runs one operation and returns the digest of everything it observed.
func (g *gstate) exec(k opKind, f int) (d uint64) {
	h := hasher(fnvOff)
	defer func() {
		if e := recover(); e != nil {
			g.res.Panics++
			h.s("panic")
			h.s(panicText(e))
			h.s(panicSite())
			d = uint64(h)
		}
	}()
	h.u64(uint64(k))
	switch k {
	case opNewFace:
		g.faces[f] = font.NewFace(g.e.fonts[f].Font)
		g.hbFonts[f] = nil
		h.u64(uint64(g.faces[f].Upem()))
	case opSetVar:
		g.opSetVar(&h, f)
	case opSetPpem:
		sizes := [...]uint16{0, 8, 12, 16, 20, 32, 64, 109, 128, 300}
		x := sizes[g.rng.Intn(len(sizes))]
		y := x
		if g.rng.Chance(1, 4) {
			y = sizes[g.rng.Intn(len(sizes))]
		}
		fc := g.face(f)
		fc.SetPpem(x, y)
		g.hbFonts[f] = nil
		a, b := fc.Ppem()
		h.u64(uint64(a)<<16 | uint64(b))
	case opFontMetrics:
		g.opFontMetrics(&h, f)
	case opAdvances:
		fc := g.face(f)
		for n := g.rng.Range(1, 16); n > 0; n-- {
			gid := g.gid(f)
			h.f(fc.HorizontalAdvance(gid))
			h.f(fc.VerticalAdvance(gid))
			x, y, ok := fc.GlyphVOrigin(gid)
			h.i(int(x))
			h.i(int(y))
			h.b(ok)
			x, y, ok = fc.GlyphHOrigin(gid)
			h.i(int(x))
			h.i(int(y))
			h.b(ok)
		}
	case opExtents:
		fc := g.face(f)
		for n := g.rng.Range(1, 16); n > 0; n-- {
			ext, ok := fc.GlyphExtents(g.gid(f))
			h.f(ext.XBearing)
			h.f(ext.YBearing)
			h.f(ext.Width)
			h.f(ext.Height)
			h.b(ok)
		}
	case opGlyphData:
		g.opGlyphData(&h, f)
	case opNames:
		g.opNames(&h, f)
	case opCmap:
		g.opCmap(&h, f)
	case opLayout:
		g.opLayout(&h, f)
	case opShape:
		in := g.shapeInput(f)
		out := g.shaper.Shape(in)
		hashOutput(&h, &out)
	case opHBShape:
		g.opHBShape(&h, f)
	case opSplit:
		g.opSplit(&h, f)
	case opUSegment:
		g.opUSegment(&h)
	case opFMAdd:
		g.fmAdd(&h, f)
	case opFMResolve:
		g.opFMResolve(&h, f)
	case opSysFonts:
		g.opSysFonts(&h)
	}
	return uint64(h)
}

func panicText(e any) string {
	switch v := e.(type) {
	case error:
		return v.Error()
	case string:
		return v
	}
	return "panic value of another type"
}

// panicSite returns the innermost go-text function of the panicking stack
// (names only: deterministic across runs).
func panicSite() string {
	for _, l := range strings.Split(string(debug.Stack()), "\n") {
		if strings.HasPrefix(l, goTextPrefix) {
			if k := strings.LastIndex(l, "("); k > 0 {
				l = l[:k]
			}
			return l
		}
	}
	return ""
}

func (g *gstate) face(f int) *font.Face {
	if g.faces[f] == nil {
		g.faces[f] = font.NewFace(g.e.fonts[f].Font)
	}
	return g.faces[f]
}

func (g *gstate) gid(f int) font.GID {
	n := g.e.fonts[f].Info.NGlyphs
	if g.rng.Chance(1, 40) {
		return font.GID(n + g.rng.Intn(3)) // just outside
	}
	return font.GID(g.rng.Intn(n))
}

var specialRunes = []rune{' ', ' ', 0x200D, 0x200C, 0x0301, 0x200F, '\n', 0xFE0F, 0x00AD, 0x25CC, '-', '1', '/', '2'}

// fontText draws a text from the font's own cmap, with locality.
func (g *gstate) fontText(f int, maxLen int) []rune {
	rs := g.e.fonts[f].Info.Runes
	n := g.rng.Range(1, maxLen)
	if ph := g.e.fonts[f].Info.Phrases; len(ph) > 0 && g.rng.Chance(1, 3) {
		return append([]rune(nil), ph[g.rng.Intn(len(ph))]...)
	}
	out := make([]rune, 0, n)
	if len(rs) == 0 {
		for i := 0; i < n; i++ {
			out = append(out, rune('a'+g.rng.Intn(26)))
		}
		return out
	}
	w := g.rng.Intn(len(rs))
	for i := 0; i < n; i++ {
		switch g.rng.Intn(16) {
		case 0:
			out = append(out, specialRunes[g.rng.Intn(len(specialRunes))])
		case 1:
			w = g.rng.Intn(len(rs))
			fallthrough
		default:
			out = append(out, rs[(w+g.rng.Intn(40))%len(rs)])
		}
	}
	return out
}

var sampleTexts = [][]rune{
	[]rune("The quick (brown) fox — jumps over 12/3 lazy dogs. fi ffl"),
	[]rune("مرحبا بالعالم، هذا نص عربي ١٢٣ مع English داخل السطر."),
	[]rune("שלום עולם (בדיקה) 123"),
	[]rune("हिन्दी क्षत्रिय कर्ता श्री द्वि"),
	[]rune("日本語のテキスト、縦書き「テスト」。"),
	[]rune("ภาษาไทย ทดสอบ การตัดคำ"),
	[]rune("é ǟ \U0001F468‍\U0001F469‍\U0001F467 \U0001F1EB\U0001F1F7 ok"),
	[]rune("line one\nline two three\r\nfour"),
	[]rune("Ελληνικά кириллица ქართული հայերեն"),
}

func (g *gstate) mixedText(f int) []rune {
	var out []rune
	for n := g.rng.Range(1, 3); n > 0; n-- {
		if g.rng.Bool() {
			t := sampleTexts[g.rng.Intn(len(sampleTexts))]
			a := g.rng.Intn(len(t))
			b := a + g.rng.Range(1, 24)
			if b > len(t) {
				b = len(t)
			}
			out = append(out, t[a:b]...)
		} else {
			out = append(out, g.fontText(g.rng.Intn(len(g.e.fonts)), 12)...)
		}
		if g.rng.Bool() {
			out = append(out, ' ')
		}
	}
	out = append(out, g.fontText(f, 8)...)
	return out
}

var dirs = []di.Direction{di.DirectionLTR, di.DirectionLTR, di.DirectionRTL, di.DirectionTTB, di.DirectionBTT}
var sizes = []fixed.Int26_6{64, 480, 768, 16*64 + 1, 72 * 64, 1000 * 64}
var langs = []language.Language{"", "en", "ar", "tr", "zh-hans", "hi", "fr"}
var commonFeatures = []string{"liga", "kern", "frac", "smcp", "ss01", "vert", "calt", "dlig"}

func (g *gstate) features(f int) []shaping.FontFeature {
	if g.rng.Chance(1, 2) {
		return nil
	}
	var out []shaping.FontFeature
	info := g.e.fonts[f].Info
	for n := g.rng.Range(1, 3); n > 0; n-- {
		var tag ot.Tag
		if len(info.Features) > 0 && g.rng.Bool() {
			tag = info.Features[g.rng.Intn(len(info.Features))]
		} else {
			tag = ot.MustNewTag(commonFeatures[g.rng.Intn(len(commonFeatures))])
		}
		out = append(out, shaping.FontFeature{Tag: tag, Value: uint32([...]int{0, 1, 1, 3}[g.rng.Intn(4)])})
	}
	return out
}

func (g *gstate) script(text []rune) language.Script {
	if g.rng.Chance(1, 8) {
		return language.Script(0)
	}
	for _, r := range text {
		s := language.LookupScript(r)
		if s != language.Common && s != language.Inherited && s != language.Unknown {
			return s
		}
	}
	return language.Latin
}

func (g *gstate) shapeInput(f int) shaping.Input {
	text := g.fontText(f, 24)
	in := shaping.Input{Text: text, RunStart: 0, RunEnd: len(text), Face: g.face(f)}
	if g.rng.Chance(1, 6) && len(text) > 2 {
		in.RunStart = g.rng.Intn(len(text) / 2)
		in.RunEnd = in.RunStart + 1 + g.rng.Intn(len(text)-in.RunStart)
	}
	in.Direction = dirs[g.rng.Intn(len(dirs))]
	if in.Direction.IsVertical() && g.rng.Chance(1, 3) {
		in.Direction.SetSideways(true)
	}
	in.Size = sizes[g.rng.Intn(len(sizes))]
	in.Script = g.script(text)
	in.Language = langs[g.rng.Intn(len(langs))]
	in.FontFeatures = g.features(f)
	return in
}

func hashOutput(h *hasher, out *shaping.Output) {
	h.i(len(out.Glyphs))
	for i := range out.Glyphs {
		gl := &out.Glyphs[i]
		h.u64(uint64(gl.GlyphID))
		h.i(gl.ClusterIndex)
		h.i(gl.RuneCount)
		h.i(gl.GlyphCount)
		h.u64(uint64(gl.Mask))
		h.fx(gl.XAdvance)
		h.fx(gl.YAdvance)
		h.fx(gl.XOffset)
		h.fx(gl.YOffset)
		h.fx(gl.Width)
		h.fx(gl.Height)
		h.fx(gl.XBearing)
		h.fx(gl.YBearing)
	}
	h.fx(out.Advance)
	h.fx(out.LineBounds.Ascent)
	h.fx(out.LineBounds.Descent)
	h.fx(out.LineBounds.Gap)
	h.fx(out.GlyphBounds.Ascent)
	h.fx(out.GlyphBounds.Descent)
	h.u64(uint64(out.Direction))
	h.i(out.Runes.Offset)
	h.i(out.Runes.Count)
}

func (g *gstate) opSetVar(h *hasher, f int) {
	fc := g.face(f)
	info := g.e.fonts[f].Info
	g.hbFonts[f] = nil
	if g.rng.Chance(1, 10) {
		fc.SetCoords(nil)
		h.i(len(fc.Coords()))
		return
	}
	if len(info.MidCoords) > 0 && g.rng.Chance(1, 4) {
		// the slice every goroutine of the round shares (read-only for the library)
		fc.SetCoords(info.MidCoords)
		for _, c := range fc.Coords() {
			h.u64(uint64(uint16(c)))
		}
		return
	}
	var vs []font.Variation
	for _, a := range info.Axes {
		if g.rng.Chance(2, 3) {
			var v float32
			switch g.rng.Intn(6) {
			case 0:
				v = a.Min
			case 1:
				v = a.Max
			case 2:
				v = a.Def
			case 3:
				v = a.Min + (a.Max-a.Min)*float32(g.rng.Intn(17))/16
			case 4:
				v = a.Max + 10
			default:
				v = a.Def + (a.Max-a.Def)*float32(g.rng.Intn(9))/8
			}
			vs = append(vs, font.Variation{Tag: a.Tag, Value: v})
		}
	}
	if g.rng.Chance(1, 6) {
		vs = append(vs, font.Variation{Tag: ot.MustNewTag("wght"), Value: float32(100 * g.rng.Range(1, 9))})
	}
	fc.SetVariations(vs)
	cs := fc.Coords()
	h.i(len(cs))
	for _, c := range cs {
		h.u64(uint64(uint16(c)))
	}
	if len(info.Axes) > 0 && g.rng.Chance(1, 3) {
		// the shared-font side of the same computation
		design := make([]float32, len(info.Axes))
		for i, a := range info.Axes {
			design[i] = a.Min + (a.Max-a.Min)*float32(g.rng.Intn(5))/4
		}
		for _, c := range fc.Font.NormalizeVariations(design) {
			h.u64(uint64(uint16(c)))
		}
	}
}

func (g *gstate) opFontMetrics(h *hasher, f int) {
	fc := g.face(f)
	e1, ok1 := fc.FontHExtents()
	e2, ok2 := fc.FontVExtents()
	for _, e := range []font.FontExtents{e1, e2} {
		h.f(e.Ascender)
		h.f(e.Descender)
		h.f(e.LineGap)
	}
	h.b(ok1)
	h.b(ok2)
	for m := font.LineMetric(0); m <= font.XHeight; m++ {
		h.f(fc.LineMetric(m))
	}
	h.u64(uint64(fc.Upem()))
	h.b(fc.HasVerticalMetrics())
	if g.e.fonts[f].Info.NGlyphs < 4000 && g.rng.Chance(1, 6) {
		h.b(fc.Font.IsMonospace())
	}
}

func hashOutline(h *hasher, o font.GlyphOutline) {
	h.i(len(o.Segments))
	for _, s := range o.Segments {
		h.u64(uint64(s.Op))
		for _, a := range s.Args {
			h.f(a.X)
			h.f(a.Y)
		}
	}
}

func (g *gstate) opGlyphData(h *hasher, f int) {
	fc := g.face(f)
	for n := g.rng.Range(1, 4); n > 0; n-- {
		gid := g.gid(f)
		if g.rng.Chance(1, 8) {
			runtime.Gosched()
		}
		switch d := fc.GlyphData(gid).(type) {
		case font.GlyphOutline:
			h.u64(1)
			hashOutline(h, d)
			if g.rng.Chance(1, 4) {
				// Sideways rewrites the returned segments in place: legitimate
				// use of a value the caller owns.
				d.Sideways(float32(g.rng.Intn(500)))
				hashOutline(h, d)
			}
		case font.GlyphBitmap:
			h.u64(2)
			h.u64(uint64(d.Format))
			h.i(d.Width)
			h.i(d.Height)
			h.bytes(d.Data)
			if d.Outline != nil {
				hashOutline(h, *d.Outline)
			}
		case font.GlyphSVG:
			h.u64(3)
			h.bytes(d.Source)
			hashOutline(h, d.Outline)
		default:
			h.u64(4)
		}
		x, y, ok := fc.GetGlyphContourPoint(gid, uint16(g.rng.Intn(12)))
		h.i(int(x))
		h.i(int(y))
		h.b(ok)
	}
}

func (g *gstate) opNames(h *hasher, f int) {
	ft := g.e.fonts[f].Font
	for n := g.rng.Range(1, 8); n > 0; n-- {
		h.s(ft.GlyphName(g.gid(f)))
	}
	if g.rng.Bool() {
		d := ft.Describe()
		h.s(d.Family)
		h.u64(uint64(d.Aspect.Style))
		h.f(float32(d.Aspect.Weight))
		h.f(float32(d.Aspect.Stretch))
	}
	for _, bs := range ft.BitmapSizes() {
		h.u64(uint64(bs.Height)<<48 | uint64(bs.Width)<<32 | uint64(bs.XPpem)<<16 | uint64(bs.YPpem))
	}
	text := g.fontText(f, 8)
	for _, r := range text {
		gid, ok := ft.NominalGlyph(r)
		h.u64(uint64(gid))
		h.b(ok)
		gid, ok = ft.VariationGlyph(r, [...]rune{0xFE00, 0xFE0F, 0xFE0E, 0xE0100}[g.rng.Intn(4)])
		h.u64(uint64(gid))
		h.b(ok)
	}
}

func (g *gstate) opCmap(h *hasher, f int) {
	ft := g.e.fonts[f].Font
	for _, r := range g.fontText(f, 16) {
		gid, ok := ft.Cmap.Lookup(r)
		h.u64(uint64(gid))
		h.b(ok)
	}
	// The iteration order is not part of the contract (format 0 tables are
	// backed by a Go map, at most 256 entries): combine the entries
	// commutatively and never stop half-way through a small table. Tables with
	// more than 5000 entries are slice-backed, their order is fixed.
	it := ft.Cmap.Iter()
	var sum, cnt uint64
	for cnt < 5000 && it.Next() {
		r, gid := it.Char()
		e := hasher(fnvOff)
		e.u64(uint64(r)<<32 | uint64(gid))
		sum += uint64(e)
		cnt++
	}
	h.u64(sum)
	h.u64(cnt)
	if rr, ok := ft.Cmap.(font.CmapRuneRanger); ok && g.rng.Bool() {
		rgs := rr.RuneRanges(nil)
		h.i(len(rgs))
		for i, x := range rgs {
			if i >= 64 {
				break
			}
			h.u64(uint64(x[0])<<32 | uint64(x[1]))
		}
	}
}

func (g *gstate) opLayout(h *hasher, f int) {
	ft := g.e.fonts[f].Font
	info := g.e.fonts[f].Info
	fc := g.face(f)
	for _, la := range []*font.Layout{&ft.GSUB.Layout, &ft.GPOS.Layout} {
		h.i(len(la.Scripts))
		h.i(len(la.Features))
		if len(info.Scripts) > 0 {
			h.i(la.FindScript(info.Scripts[g.rng.Intn(len(info.Scripts))]))
		}
		h.i(la.FindScript(ot.MustNewTag("latn")))
		if len(info.Features) > 0 {
			idx, ok := la.FindFeatureIndex(info.Features[g.rng.Intn(len(info.Features))])
			h.u64(uint64(idx))
			h.b(ok)
		}
		h.i(la.FindVariationIndex(fc.Coords()))
	}
	h.i(len(ft.GSUB.Lookups))
	h.i(len(ft.GPOS.Lookups))
	h.i(len(ft.Morx))
	h.i(len(ft.Kerx))
	h.i(len(ft.Kern))
	h.b(ft.GDEF.GlyphClassDef != nil)
	if ft.GDEF.GlyphClassDef != nil {
		for n := 4; n > 0; n-- {
			c, ok := ft.GDEF.GlyphClassDef.Class(tables.GlyphID(g.gid(f)))
			h.u64(uint64(c))
			h.b(ok)
		}
	}
}

func (g *gstate) hbFont(f int) *harfbuzz.Font {
	if g.hbFonts[f] == nil {
		g.hbFonts[f] = harfbuzz.NewFont(g.face(f))
	}
	return g.hbFonts[f]
}

var hbDirs = []harfbuzz.Direction{harfbuzz.LeftToRight, harfbuzz.LeftToRight, harfbuzz.RightToLeft, harfbuzz.TopToBottom, harfbuzz.BottomToTop}

func (g *gstate) opHBShape(h *hasher, f int) {
	if g.buf == nil {
		g.buf = harfbuzz.NewBuffer()
	}
	hf := g.hbFont(f)
	text := g.fontText(f, 24)
	b := g.buf
	b.Clear()
	off, n := 0, len(text)
	if g.rng.Chance(1, 6) && len(text) > 3 {
		off = g.rng.Intn(len(text) / 2)
		n = 1 + g.rng.Intn(len(text)-off)
	}
	b.AddRunes(text, off, n)
	b.Flags = harfbuzz.ShappingOptions(g.rng.Intn(128))
	b.ClusterLevel = harfbuzz.ClusterLevel(g.rng.Intn(3))
	if g.rng.Chance(1, 3) {
		b.GuessSegmentProperties()
	} else {
		b.Props.Direction = hbDirs[g.rng.Intn(len(hbDirs))]
		b.Props.Script = g.script(text)
		if b.Props.Script == 0 {
			b.Props.Script = language.Latin
		}
		b.Props.Language = langs[g.rng.Intn(len(langs))]
	}
	sc := int32([...]int{0, 1000, 2048, 64 * 16, 64 * 72}[g.rng.Intn(5)])
	if sc != 0 {
		hf.XScale, hf.YScale = sc, sc
	}
	hf.Ptem = float32(g.rng.Intn(3) * 12)
	var feats []harfbuzz.Feature
	for _, ff := range g.features(f) {
		ft := harfbuzz.Feature{Tag: ff.Tag, Value: ff.Value, Start: harfbuzz.FeatureGlobalStart, End: harfbuzz.FeatureGlobalEnd}
		if g.rng.Chance(1, 3) {
			ft.Start = g.rng.Intn(len(text))
			ft.End = ft.Start + g.rng.Range(1, 6)
		}
		feats = append(feats, ft)
	}
	if g.rng.Chance(1, 6) {
		runtime.Gosched()
	}
	b.Shape(hf, feats)
	h.i(len(b.Info))
	h.i(len(b.Pos))
	for i := range b.Info {
		h.u64(uint64(b.Info[i].Glyph))
		h.i(b.Info[i].Cluster)
		h.u64(uint64(b.Info[i].Mask))
	}
	for i := range b.Pos {
		h.i(int(b.Pos[i].XAdvance))
		h.i(int(b.Pos[i].YAdvance))
		h.i(int(b.Pos[i].XOffset))
		h.i(int(b.Pos[i].YOffset))
	}
	for i := 0; i < len(b.Info) && i < 4; i++ {
		ext, ok := hf.GlyphExtents(b.Info[i].Glyph)
		h.i(int(ext.XBearing))
		h.i(int(ext.YBearing))
		h.i(int(ext.Width))
		h.i(int(ext.Height))
		h.b(ok)
		h.i(int(hf.GlyphHAdvance(b.Info[i].Glyph)))
	}
	fe := hf.ExtentsForDirection(b.Props.Direction)
	h.f(fe.Ascender)
	h.f(fe.Descender)
	h.f(fe.LineGap)
}

// privFontmap is a per-goroutine shaping.Fontmap over private faces.
type privFontmap []*font.Face

func (p privFontmap) ResolveFace(r rune) *font.Face {
	for _, f := range p {
		if _, ok := f.NominalGlyph(r); ok {
			return f
		}
	}
	return p[0]
}

func (g *gstate) fontIndex(ft *font.Font) int {
	if ft == nil {
		return -2
	}
	for i, sf := range g.e.fonts {
		if sf.Font == ft {
			return i
		}
	}
	return -1
}

func (g *gstate) opSplit(h *hasher, f int) {
	text := g.mixedText(f)
	in := shaping.Input{Text: text, RunStart: 0, RunEnd: len(text)}
	in.Direction = dirs[g.rng.Intn(len(dirs))]
	in.Size = sizes[g.rng.Intn(len(sizes))]
	in.Language = langs[g.rng.Intn(len(langs))]
	in.Script = language.Latin
	var fmap shaping.Fontmap
	if g.fm != nil && g.fmCount > 0 && g.rng.Bool() {
		g.fm.SetQuery(fontscan.Query{Families: []string{g.e.fonts[f].Info.Family}})
		fmap = g.fm
	} else {
		pm := privFontmap{g.face(f)}
		for n := g.rng.Intn(3); n > 0; n-- {
			pm = append(pm, g.face(g.rng.Intn(len(g.e.fonts))))
		}
		fmap = pm
	}
	var runs []shaping.Input
	switch g.rng.Intn(4) {
	case 0:
		runs = shaping.SplitByFace(in, fmap)
	default:
		runs = g.seg.Split(in, fmap)
	}
	h.i(len(runs))
	for _, r := range runs {
		h.i(r.RunStart)
		h.i(r.RunEnd)
		h.u64(uint64(r.Direction))
		h.u64(uint64(r.Script))
		h.s(string(r.Language))
		if r.Face != nil {
			h.i(g.fontIndex(r.Face.Font))
		} else {
			h.i(-3)
		}
	}
	if g.rng.Chance(1, 4) {
		runtime.Gosched()
	}
	// the usual pipeline: shape (some of) the runs
	for i := 0; i < len(runs) && i < 3; i++ {
		if runs[i].Face == nil {
			continue
		}
		out := g.shaper.Shape(runs[i])
		hashOutput(h, &out)
	}
}

func (g *gstate) opUSegment(h *hasher) {
	text := g.mixedText(g.rng.Intn(len(g.e.fonts)))
	g.useg.Init(text)
	li := g.useg.LineIterator()
	for li.Next() {
		l := li.Line()
		h.i(l.Offset)
		h.i(len(l.Text))
		h.b(l.IsMandatoryBreak)
	}
	gi := g.useg.GraphemeIterator()
	for gi.Next() {
		x := gi.Grapheme()
		h.i(x.Offset)
		h.i(len(x.Text))
	}
	wi := g.useg.WordIterator()
	for wi.Next() {
		x := wi.Word()
		h.i(x.Offset)
		h.i(len(x.Text))
	}
}

func (g *gstate) fmAdd(h *hasher, f int) {
	if g.fm == nil {
		g.fm = fontscan.NewFontMap(nopLogger{})
		g.fm.SetRuneCacheSize(16 + g.rng.Intn(64))
	}
	sf := g.e.fonts[f]
	md := sf.Font.Describe()
	g.fmCount++
	// distinct locations (C14's restriction: the caller is responsible for them)
	loc := fontscan.Location{File: sf.ID.File, Index: uint16(sf.ID.Index), Instance: uint16(g.fmCount)}
	g.fm.AddFace(g.face(f), loc, md)
	h.s(md.Family)
	h.i(g.fmCount)
}

var genericFamilies = []string{"sans-serif", "serif", "monospace", "DejaVu Sans", "Arial", "no such family", ""}
var aspects = []font.Aspect{{}, {Style: font.StyleItalic}, {Weight: font.WeightBold}, {Stretch: font.StretchCondensed}, {Style: font.StyleNormal, Weight: font.WeightNormal, Stretch: font.StretchNormal}}

func (g *gstate) opFMResolve(h *hasher, f int) {
	if g.fm == nil || g.fmCount == 0 {
		g.fmAdd(h, f)
	}
	info := g.e.fonts[f].Info
	var q fontscan.Query
	switch g.rng.Intn(3) {
	case 0:
		q.Families = []string{info.Family}
	case 1:
		q.Families = []string{genericFamilies[g.rng.Intn(len(genericFamilies))], info.Family}
	default:
		q.Families = []string{genericFamilies[g.rng.Intn(len(genericFamilies))]}
	}
	q.Aspect = aspects[g.rng.Intn(len(aspects))]
	g.fm.SetQuery(q)
	text := g.fontText(f, 8)
	if g.rng.Bool() {
		g.fm.SetScript(g.script(text))
	}
	for _, r := range text {
		fc := g.fm.ResolveFace(r)
		if fc == nil {
			h.i(-3)
			continue
		}
		idx := g.fontIndex(fc.Font)
		h.i(idx)
		loc := g.fm.FontLocation(fc.Font)
		h.s(loc.File)
		h.u64(uint64(loc.Index)<<16 | uint64(loc.Instance))
		fam, asp := g.fm.FontMetadata(fc.Font)
		h.s(fam)
		h.u64(uint64(asp.Style))
		h.f(float32(asp.Weight))
		if idx >= 0 {
			// "and use them": a query on whatever face the map handed back
			gid, _ := fc.NominalGlyph(r)
			h.f(fc.HorizontalAdvance(gid))
		}
	}
	if g.rng.Chance(1, 4) {
		lid, ok := language.NewLangID(langs[1+g.rng.Intn(len(langs)-1)])
		if ok {
			fc := g.fm.ResolveFaceForLang(lid)
			if fc != nil {
				h.i(g.fontIndex(fc.Font))
			} else {
				h.i(-3)
			}
		}
	}
}

func (g *gstate) opSysFonts(h *hasher) {
	fps, err := fontscan.SystemFonts(nopLogger{}, g.e.sysDir)
	h.b(err == nil)
	h.i(len(fps))
	for i, fp := range fps {
		if i >= 8 {
			break
		}
		h.s(fp.Family)
		h.s(fp.Location.File)
	}
	if g.rng.Bool() {
		if g.fm == nil {
			g.fm = fontscan.NewFontMap(nopLogger{})
		}
		if !g.fmSystem {
			g.fmSystem = true
			h.b(g.fm.UseSystemFonts(g.e.sysDir) == nil)
		}
		loc, ok := g.fm.FindSystemFont([...]string{"DejaVu Sans", "dejavu serif", "nope"}[g.rng.Intn(3)])
		h.s(loc.File)
		h.b(ok)
		g.fm.SetQuery(fontscan.Query{Families: []string{"serif"}})
		fc := g.fm.ResolveFace('a')
		if fc != nil {
			h.s(g.fm.FontLocation(fc.Font).File)
		}
	}
}
