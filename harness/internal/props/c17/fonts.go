package c17

import (
	"bytes"
	"fmt"
	"sort"
	"strings"

	"github.com/go-text/typesetting/font"
	ot "github.com/go-text/typesetting/font/opentype"
	"github.com/go-text/typesetting/font/opentype/tables"

	"verifharness/internal/corpus"
	"verifharness/internal/gen"
)

// The slots of a round: one shared *font.Font per slot ("collection" shares two
// faces of one file).
var slotKinds = []string{"glyf", "cff", "cff2", "var", "aat-morx", "aat-kerx", "kern", "bitmap", "sbix", "sbix-dupe", "svg", "ot-layout", "collection", "aat-trak", "indic-context3"}

// fonts are re-parsed every round; keep that cheap. The kinds with very few
// small representatives may use larger files.
const (
	maxFontFileSize     = 2 << 20
	maxRareFontFileSize = 12 << 20
)

// faceID names one face of a corpus file: "hb/fonts/x.ttf#0".
type faceID struct {
	File  string `json:"file"`
	Index int    `json:"index"`
}

func (f faceID) String() string { return fmt.Sprintf("%s#%d", f.File, f.Index) }

// slotSpec is the ordered candidate list for one slot of one round: the child
// uses the first candidate that loads.
type slotSpec struct {
	Kind  string   `json:"kind"`
	Cands []faceID `json:"cands"`
}

// classify reads the table directory of every corpus file (no parsing of the
// tables, no *font.Font is created) and lists the candidate faces per slot kind.
func classify() map[string][]faceID {
	out := map[string][]faceID{}
	for _, f := range corpus.Files() {
		data := f.Bytes()
		if len(data) == 0 || len(data) > maxRareFontFileSize {
			continue
		}
		small := len(data) <= maxFontFileSize
		if strings.HasSuffix(strings.ToLower(f.ID), ".cff") {
			continue
		}
		lds, err := safeLoaders(data)
		if err != nil || len(lds) == 0 {
			continue
		}
		for i, ld := range lds {
			if i >= 4 {
				break
			}
			has := func(t string) bool { return ld.HasTable(ot.MustNewTag(t)) }
			if !has("cmap") || !has("head") || !has("maxp") {
				continue
			}
			id := faceID{f.ID, i}
			add := func(k string) {
				if small || k == "bitmap" || k == "collection" || k == "cff2" || k == "sbix" {
					out[k] = append(out[k], id)
				}
			}
			switch {
			case has("CFF2"):
				add("cff2")
			case has("CFF "):
				add("cff")
			}
			if has("sbix") {
				add("sbix")
			}
			if has("CBLC") || has("EBLC") || has("bloc") {
				add("bitmap")
			}
			if has("morx") {
				add("aat-morx")
			}
			if has("kerx") {
				add("aat-kerx")
			}
			if has("kern") && !has("morx") {
				add("kern")
			}
			if has("SVG ") {
				add("svg")
			}
			if has("trak") {
				add("aat-trak")
			}
			if f.ID == teluguDonor {
				add("indic-context3")
			}
			if has("fvar") && has("gvar") && has("glyf") {
				add("var")
			}
			if has("glyf") && has("GSUB") && has("GPOS") && has("GDEF") && !has("fvar") {
				add("ot-layout")
			}
			if has("glyf") && !has("fvar") && !has("morx") {
				add("glyf")
			}
			if len(lds) >= 2 && i == 0 {
				add("collection")
			}
		}
	}
	if _, err := synthSbix(); err == nil {
		out["sbix-dupe"] = []faceID{{synthSbixDupes, 0}}
	}
	if _, err := synthPatched(synthTrakNoSizes); err == nil {
		// listed three times: a third or more of the rounds take it
		out["aat-trak"] = append(out["aat-trak"], faceID{synthTrakNoSizes, 0}, faceID{synthTrakNoSizes, 0}, faceID{synthTrakNoSizes, 0})
	}
	if _, err := synthPatched(synthTeluguCtx3); err == nil {
		out["indic-context3"] = append(out["indic-context3"], faceID{synthTeluguCtx3, 0}, faceID{synthTeluguCtx3, 0})
	}
	for _, l := range out {
		sort.Slice(l, func(i, j int) bool {
			if l[i].File != l[j].File {
				return l[i].File < l[j].File
			}
			return l[i].Index < l[j].Index
		})
	}
	return out
}

func safeLoaders(data []byte) (lds []*ot.Loader, err error) {
	defer func() {
		if e := recover(); e != nil {
			err = fmt.Errorf("panic: %v", e)
		}
	}()
	return ot.NewLoaders(bytes.NewReader(data))
}

// pickSlots draws the font set of a round: a pure function of (seed, round).
func pickSlots(seed int64, round int, cands map[string][]faceID) []slotSpec {
	r := gen.New(seed, "C17/fonts", round)
	var out []slotSpec
	for _, k := range slotKinds {
		l := cands[k]
		if len(l) == 0 {
			continue
		}
		sp := slotSpec{Kind: k}
		start := r.Intn(len(l))
		for j := 0; j < 4 && j < len(l); j++ {
			sp.Cands = append(sp.Cands, l[(start+j*7)%len(l)])
		}
		out = append(out, sp)
	}
	return out
}

// ---------------------------------------------------------------------------
// child side

type axis struct {
	Tag           ot.Tag
	Min, Def, Max float32
}

// scout is what the program generator knows about a font. It is computed on a
// PRIVATE parse of the file (never shared, never handed to a goroutine), so that
// preparing a round does not touch - and possibly warm up - the shared objects.
type scout struct {
	ID       string
	NGlyphs  int
	Runes    []rune // sample of mapped runes, in windows of consecutive cmap entries
	Axes     []axis
	Features []ot.Tag
	Scripts  []ot.Tag
	Family   string
	OK       bool
	// MidCoords: normalized coordinates of the middle of the design space, computed on the
	// private parse. One slice per font: the goroutines of a round hand this very slice to
	// Face.SetCoords (an application that normalizes once and configures all its faces).
	MidCoords []font.VarCoord
	// Phrases: texts known to reach a rarely taken path of the shaper with this font
	Phrases [][]rune
}

var scoutCache = map[string]*scout{}

func loadFace(id faceID) (ft *font.Font, ld *ot.Loader, err error) {
	defer func() {
		if e := recover(); e != nil {
			err = fmt.Errorf("panic while loading: %v", e)
		}
	}()
	data, err := fileBytes(id.File)
	if err != nil {
		return nil, nil, err
	}
	lds, err := ot.NewLoaders(bytes.NewReader(data))
	if err != nil {
		return nil, nil, err
	}
	if id.Index >= len(lds) {
		return nil, nil, fmt.Errorf("no face %d in %s", id.Index, id.File)
	}
	ft, err = font.NewFont(lds[id.Index])
	return ft, lds[id.Index], err
}

func getScout(id faceID) *scout {
	key := id.String()
	if s, ok := scoutCache[key]; ok {
		return s
	}
	s := &scout{ID: key}
	scoutCache[key] = s
	func() {
		defer func() {
			if e := recover(); e != nil {
				s.OK = false
			}
		}()
		ft, ld, err := loadFace(id)
		if err != nil {
			return
		}
		if raw, err := ld.RawTable(ot.MustNewTag("maxp")); err == nil {
			if mp, _, err := tables.ParseMaxp(raw); err == nil {
				s.NGlyphs = int(mp.NumGlyphs)
			}
		}
		if raw, err := ld.RawTable(ot.MustNewTag("fvar")); err == nil {
			if fv, _, err := tables.ParseFvar(raw); err == nil {
				for _, a := range fv.FvarRecords.Axis {
					s.Axes = append(s.Axes, axis{a.Tag, a.Minimum, a.Default, a.Maximum})
				}
			}
		}
		// mapped runes
		var all []rune
		it := ft.Cmap.Iter()
		for it.Next() && len(all) < 200000 {
			r, _ := it.Char()
			all = append(all, r)
		}
		sort.Slice(all, func(i, j int) bool { return all[i] < all[j] })
		if len(all) <= 4096 {
			s.Runes = all
		} else {
			const win = 64
			for w := 0; w < 64; w++ {
				st := w * (len(all) - win) / 63
				s.Runes = append(s.Runes, all[st:st+win]...)
			}
		}
		seenF := map[ot.Tag]bool{}
		for _, l := range []font.Layout{ft.GSUB.Layout, ft.GPOS.Layout} {
			for _, f := range l.Features {
				if !seenF[f.Tag] && len(s.Features) < 64 {
					seenF[f.Tag] = true
					s.Features = append(s.Features, f.Tag)
				}
			}
			for _, sc := range l.Scripts {
				if len(s.Scripts) < 32 {
					s.Scripts = append(s.Scripts, sc.Tag)
				}
			}
		}
		s.Family = ft.Describe().Family
		if id.File == synthTeluguCtx3 || id.File == teluguDonor {
			s.Phrases = teluguPhrases
			s.Runes = append(s.Runes, teluguUnsupported)
		}
		if len(s.Axes) > 0 {
			design := make([]float32, len(s.Axes))
			for i, a := range s.Axes {
				design[i] = a.Min + (a.Max-a.Min)*3/8
			}
			s.MidCoords = ft.NormalizeVariations(design)
		}
		s.OK = s.NGlyphs > 0
	}()
	return s
}

// sharedFont is one shared object of a round.
type sharedFont struct {
	Slot int // index into env.fonts
	Kind string
	ID   faceID
	Info *scout
	Font *font.Font // parsed fresh for the round; untouched until the start barrier
}
