package c17

// A synthetic sbix font with 'dupe' glyphs (a glyph record whose data is the index of
// another glyph, as Apple Color Emoji uses): no corpus font has any, and resolving one is
// a place where a parsed font could be tempted to memoise into shared state.

import (
	"bytes"
	"encoding/binary"
	"fmt"
	"sort"
	"sync"

	ot "github.com/go-text/typesetting/font/opentype"

	"verifharness/internal/corpus"
)

const synthSbixDupes = "synth/Sbix3-dupes.ttf"

var (
	synthOnce sync.Once
	synthFile []byte
	synthErr  error
)

// synthSbix rewrites ot/toys/Sbix3.ttf: glyph 4 keeps its PNG, glyph 3 becomes a dupe of
// 4, glyph 2 a dupe of 3 (a chain), glyphs 0 and 1 stay empty.
func synthSbix() ([]byte, error) {
	synthOnce.Do(func() {
		f := corpus.ByID("ot/toys/Sbix3.ttf")
		if f == nil {
			synthErr = fmt.Errorf("ot/toys/Sbix3.ttf not in the corpus")
			return
		}
		ld, err := ot.NewLoader(bytes.NewReader(f.Bytes()))
		if err != nil {
			synthErr = err
			return
		}
		sbixTag := ot.MustNewTag("sbix")
		raw, err := ld.RawTable(sbixTag)
		maxp, err2 := ld.RawTable(ot.MustNewTag("maxp"))
		if err != nil || err2 != nil || len(raw) < 12 || len(maxp) < 6 {
			synthErr = fmt.Errorf("sbix / maxp unreadable")
			return
		}
		ng := int(binary.BigEndian.Uint16(maxp[4:]))
		so := int(binary.BigEndian.Uint32(raw[8:]))
		if ng != 5 || binary.BigEndian.Uint32(raw[4:]) != 1 || so+4+4*(ng+1) > len(raw) {
			synthErr = fmt.Errorf("unexpected shape of Sbix3.ttf")
			return
		}
		strike := raw[so:]
		off := func(g int) int { return int(binary.BigEndian.Uint32(strike[4+4*g:])) }
		if off(4) >= off(5) || off(5) > len(strike) || string(strike[off(4)+4:off(4)+8]) != "png " {
			synthErr = fmt.Errorf("glyph 4 of Sbix3.ttf is not a PNG glyph")
			return
		}
		dupe := func(target uint16) []byte {
			r := make([]byte, 10)
			copy(r[4:], "dupe")
			binary.BigEndian.PutUint16(r[8:], target)
			return r
		}
		recs := [][]byte{nil, nil, dupe(3), dupe(4), strike[off(4):off(5)]}
		ns := append([]byte(nil), strike[:4]...)
		pos := 4 + 4*(ng+1)
		for _, r := range recs {
			ns = binary.BigEndian.AppendUint32(ns, uint32(pos))
			pos += len(r)
		}
		ns = binary.BigEndian.AppendUint32(ns, uint32(pos))
		for _, r := range recs {
			ns = append(ns, r...)
		}
		nt := append([]byte(nil), raw[:8]...)
		nt = binary.BigEndian.AppendUint32(nt, 12)
		nt = append(nt, ns...)
		var tbs []ot.Table
		for _, tag := range ld.Tables() {
			c, err := ld.RawTable(tag)
			if err != nil {
				synthErr = err
				return
			}
			if tag == sbixTag {
				c = nt
			}
			tbs = append(tbs, ot.Table{Tag: tag, Content: c})
		}
		sort.Slice(tbs, func(i, j int) bool { return tbs[i].Tag < tbs[j].Tag })
		synthFile = ot.WriteTTF(tbs)
	})
	return synthFile, synthErr
}

// Two corpus fonts with one 16-bit field changed each, so that a rarely taken path of the
// shaper runs while the goroutines share the parsed font:
//   - TRAK.ttf whose track 0 entry has no per-size values (null offset): tracking under a
//     point size takes the "no values" path of getTracking;
//   - a Telugu font whose 'blwf' chained context lookup (format 3) has the virama as input
//     coverage: the Indic shaper's would-substitute queries reach a format 3 context.
const (
	synthTrakNoSizes  = "synth/TRAK-track0-no-sizes.ttf"
	synthTeluguCtx3   = "synth/Telugu-blwf-context3-on-virama.ttf"
	trakDonor         = "hb/harfbuzz_reference/in-house/fonts/TRAK.ttf"
	teluguDonor       = "hb/harfbuzz_reference/in-house/fonts/e716f6bd00a108d186b7e9f47b4515565f784f36.ttf"
	teluguUnsupported = 0x0C17 // GA: not in the donor's cmap
)

// teluguPhrases make the would-substitute queries see <virama, .notdef> and <virama, consonant>.
var teluguPhrases = [][]rune{
	{0x0C17, 0x0C4D, 0x0C15},
	{0x0C15, 0x0C4D, 0x0C17, 0x0C3F},
	{0x0C1A, 0x0C3F, 0x0C32, 0x0C4D, 0x0C15, 0x0C42, 0x0C30, 0x0C4D},
	{0x0C17, 0x0C42, 0x0C30, 0x0C4D, 0x0C15},
	{0x0C30, 0x0C4D, 0x0C17, 0x0C4D, 0x0C30, 0x0C3E},
}

var (
	patchMu    sync.Mutex
	patchCache = map[string][]byte{}
)

func tableOf(b []byte, tag string) (off, length int, ok bool) {
	if len(b) < 12 {
		return
	}
	n := int(binary.BigEndian.Uint16(b[4:]))
	for i := 0; i < n && 12+16*i+16 <= len(b); i++ {
		rec := b[12+16*i:]
		if string(rec[:4]) == tag {
			off, length = int(binary.BigEndian.Uint32(rec[8:])), int(binary.BigEndian.Uint32(rec[12:]))
			return off, length, off+length <= len(b)
		}
	}
	return
}

func synthPatched(id string) ([]byte, error) {
	patchMu.Lock()
	defer patchMu.Unlock()
	if b, ok := patchCache[id]; ok {
		if b == nil {
			return nil, fmt.Errorf("%s cannot be built", id)
		}
		return b, nil
	}
	patchCache[id] = nil
	be16 := func(b []byte, o int) int {
		if o+2 > len(b) {
			return 0
		}
		return int(binary.BigEndian.Uint16(b[o:]))
	}
	switch id {
	case synthTrakNoSizes:
		f := corpus.ByID(trakDonor)
		if f == nil {
			break
		}
		out := append([]byte(nil), f.Bytes()...)
		off, length, ok := tableOf(out, "trak")
		if !ok || length < 12 {
			break
		}
		t := out[off : off+length]
		h := be16(t, 6)
		if h == 0 || h+8 > len(t) {
			break
		}
		n := be16(t, h)
		for j := 0; j < n && h+8+8*j+8 <= len(t); j++ {
			e := t[h+8+8*j:]
			if binary.BigEndian.Uint32(e) == 0 {
				e[6], e[7] = 0, 0
				patchCache[id] = out
				break
			}
		}
	case synthTeluguCtx3:
		f := corpus.ByID(teluguDonor)
		if f == nil {
			break
		}
		out := append([]byte(nil), f.Bytes()...)
		off, length, ok := tableOf(out, "GSUB")
		if !ok || length < 10 {
			break
		}
		g := out[off : off+length]
		ll := be16(g, 8)
		if be16(g, ll) <= 8 {
			break
		}
		lk := ll + be16(g, ll+2+2*8)
		typ := be16(g, lk)
		sub := lk + be16(g, lk+6)
		if typ == 7 && sub+8 <= len(g) {
			typ = be16(g, sub+2)
			sub += int(binary.BigEndian.Uint32(g[sub+4:]))
		}
		if typ != 6 || be16(g, sub) != 3 {
			break
		}
		in := sub + 4 + 2*be16(g, sub+2)
		if be16(g, in) != 1 {
			break
		}
		cov := sub + be16(g, in+2)
		if be16(g, cov) != 1 || be16(g, cov+2) != 1 || be16(g, cov+4) != 18 || cov+6 > len(g) {
			break
		}
		binary.BigEndian.PutUint16(g[cov+4:], 7) // the virama
		patchCache[id] = out
	}
	if patchCache[id] == nil {
		return nil, fmt.Errorf("%s cannot be built", id)
	}
	return patchCache[id], nil
}

// fileBytes returns the content of a corpus or synthetic file.
func fileBytes(id string) ([]byte, error) {
	if id == synthSbixDupes {
		return synthSbix()
	}
	if id == synthTrakNoSizes || id == synthTeluguCtx3 {
		return synthPatched(id)
	}
	f := corpus.ByID(id)
	if f == nil {
		return nil, fmt.Errorf("no corpus file %s", id)
	}
	return f.Bytes(), nil
}
