package c17

// A synthetic sbix font with 'dupe' glyphs (a glyph record whose data is the index of
// another glyph, as Apple Color Emoji uses): no corpus font has any, and resolving one is
// a place where a parsed font could be tempted to memoise into shared state.

import (
	"bytes"
	"encoding/binary"
	"fmt"
	"sort"
	"sync"

	ot "github.com/go-text/typesetting/font/opentype"

	"verifharness/internal/corpus"
)

const synthSbixDupes = "synth/Sbix3-dupes.ttf"

var (
	synthOnce sync.Once
	synthFile []byte
	synthErr  error
)

// synthSbix rewrites ot/toys/Sbix3.ttf: glyph 4 keeps its PNG, glyph 3 becomes a dupe of
// 4, glyph 2 a dupe of 3 (a chain), glyphs 0 and 1 stay empty.
func synthSbix() ([]byte, error) {
	synthOnce.Do(func() {
		f := corpus.ByID("ot/toys/Sbix3.ttf")
		if f == nil {
			synthErr = fmt.Errorf("ot/toys/Sbix3.ttf not in the corpus")
			return
		}
		ld, err := ot.NewLoader(bytes.NewReader(f.Bytes()))
		if err != nil {
			synthErr = err
			return
		}
		sbixTag := ot.MustNewTag("sbix")
		raw, err := ld.RawTable(sbixTag)
		maxp, err2 := ld.RawTable(ot.MustNewTag("maxp"))
		if err != nil || err2 != nil || len(raw) < 12 || len(maxp) < 6 {
			synthErr = fmt.Errorf("sbix / maxp unreadable")
			return
		}
		ng := int(binary.BigEndian.Uint16(maxp[4:]))
		so := int(binary.BigEndian.Uint32(raw[8:]))
		if ng != 5 || binary.BigEndian.Uint32(raw[4:]) != 1 || so+4+4*(ng+1) > len(raw) {
			synthErr = fmt.Errorf("unexpected shape of Sbix3.ttf")
			return
		}
		strike := raw[so:]
		off := func(g int) int { return int(binary.BigEndian.Uint32(strike[4+4*g:])) }
		if off(4) >= off(5) || off(5) > len(strike) || string(strike[off(4)+4:off(4)+8]) != "png " {
			synthErr = fmt.Errorf("glyph 4 of Sbix3.ttf is not a PNG glyph")
			return
		}
		dupe := func(target uint16) []byte {
			r := make([]byte, 10)
			copy(r[4:], "dupe")
			binary.BigEndian.PutUint16(r[8:], target)
			return r
		}
		recs := [][]byte{nil, nil, dupe(3), dupe(4), strike[off(4):off(5)]}
		ns := append([]byte(nil), strike[:4]...)
		pos := 4 + 4*(ng+1)
		for _, r := range recs {
			ns = binary.BigEndian.AppendUint32(ns, uint32(pos))
			pos += len(r)
		}
		ns = binary.BigEndian.AppendUint32(ns, uint32(pos))
		for _, r := range recs {
			ns = append(ns, r...)
		}
		nt := append([]byte(nil), raw[:8]...)
		nt = binary.BigEndian.AppendUint32(nt, 12)
		nt = append(nt, ns...)
		var tbs []ot.Table
		for _, tag := range ld.Tables() {
			c, err := ld.RawTable(tag)
			if err != nil {
				synthErr = err
				return
			}
			if tag == sbixTag {
				c = nt
			}
			tbs = append(tbs, ot.Table{Tag: tag, Content: c})
		}
		sort.Slice(tbs, func(i, j int) bool { return tbs[i].Tag < tbs[j].Tag })
		synthFile = ot.WriteTTF(tbs)
	})
	return synthFile, synthErr
}

// fileBytes returns the content of a corpus or synthetic file.
func fileBytes(id string) ([]byte, error) {
	if id == synthSbixDupes {
		return synthSbix()
	}
	f := corpus.ByID(id)
	if f == nil {
		return nil, fmt.Errorf("no corpus file %s", id)
	}
	return f.Bytes(), nil
}
