// Package c17 monitors "A parsed font can be shared by concurrent goroutines".
//
// Events: (1) the reports of the Go race detector while N goroutines run random
// programs over shared *font.Font values (everything else - Face, shaper,
// buffer, segmenters, FontMap - is private to a goroutine, as the library
// documents); (2) the digest of everything each program observed, compared with
// the same program run alone; (3) in a second pass, which operations were
// actually active at the same time on the same font.
//
// Process structure: the parent (this file) plans the rounds and starts child
// processes of the same binary (child.go) with GORACE pointing the reports to
// files under work/C17; it never trusts a child's exit code, only the files.
package c17

import (
	"encoding/json"
	"fmt"
	"os"
	"os/exec"
	"path/filepath"
	"sort"
	"strconv"
	"strings"
	"sync"
	"time"

	"verifharness/internal/corpus"
	"verifharness/internal/vrun"
)

var goroutineCounts = []int{2, 8, 16, 64}
var procCounts = []int{2, 4, 16}

const (
	maxRaceLogBytes = 24 << 20 // parent kills a child whose race log grows beyond this
	opsPerProgram   = 200
	pairFloor       = 50
	historySize     = 3
)

// witness is the content of a replay file.
type witness struct {
	What        string     `json:"what"`   // race | result-differs | fatal
	Source      string     `json:"source"` // which pass produced it
	Seed        int64      `json:"seed"`
	Ops         int        `json:"ops_per_program"`
	MaxDistinct int        `json:"max_distinct_programs"`
	Round       roundSpec  `json:"round"`
	SweepFace   string     `json:"sweep_face,omitempty"` // metadata sweep: the face ("file#index"), parsed fresh, 4 goroutines
	SweepSeen   []string   `json:"sweep_faces_seen,omitempty"`
	FontsUsed   []fontRec  `json:"fonts_used"`
	Report      *raceBlock `json:"race_report,omitempty"`
	Occurrences int        `json:"occurrences,omitempty"`
	RoundsSeen  []int      `json:"rounds_seen,omitempty"`
	Variants    []string   `json:"other_distinct_stack_pairs,omitempty"`
	Mismatch    *mismatch  `json:"mismatch,omitempty"`
	Fatal       string     `json:"fatal,omitempty"`
}

// job is one child process.
type job struct {
	name     string
	spec     childSpec
	specPath string
	errPath  string
	watchdog time.Duration
	stall    time.Duration

	// results
	recs       []rec
	header     *rec
	done       bool
	killed     bool
	killReason string
	exitNote   string
	wall       time.Duration
	logFiles   []string
	blocks     []raceBlock
}

func (j *job) run(wd string) {
	exe, err := os.Executable()
	if err != nil {
		j.exitNote = err.Error()
		return
	}
	j.specPath = filepath.Join(wd, "spec-"+j.name+".json")
	j.errPath = filepath.Join(wd, "stderr-"+j.name+".txt")
	j.spec.Out = filepath.Join(wd, "out-"+j.name+".jsonl")
	j.spec.RaceLog = filepath.Join(wd, "racelog-"+j.name)
	j.spec.SysDir = filepath.Join(wd, "syscache-"+j.name)
	os.MkdirAll(j.spec.SysDir, 0o755)
	b, _ := json.Marshal(j.spec)
	os.WriteFile(j.specPath, b, 0o644)
	cmd := exec.Command(exe, "--tier", "quick", "--seed", strconv.FormatInt(j.spec.Seed, 10), "child", j.specPath)
	ef, _ := os.Create(j.errPath)
	cmd.Stdout, cmd.Stderr = ef, ef
	env := []string{}
	for _, kv := range os.Environ() {
		if strings.HasPrefix(kv, "GORACE=") || strings.HasPrefix(kv, "GOMAXPROCS=") || strings.HasPrefix(kv, "GOTRACEBACK=") {
			continue
		}
		env = append(env, kv)
	}
	env = append(env, fmt.Sprintf("GORACE=halt_on_error=0 log_path=%s exitcode=0 history_size=%d", j.spec.RaceLog, historySize), "GOTRACEBACK=all")
	cmd.Env = env
	t0 := time.Now()
	if err := cmd.Start(); err != nil {
		ef.Close()
		j.exitNote = "cannot start child: " + err.Error()
		return
	}
	done := make(chan error, 1)
	go func() { done <- cmd.Wait() }()
	// Wall-clock supervision. None of these limits produces a verdict by
	// itself: a killed child makes the run inconclusive unless the files it
	// left behind already contain a violation.
	tick := time.NewTicker(500 * time.Millisecond)
	lastSig, lastChange := int64(-1), time.Now()
wait:
	for {
		select {
		case err = <-done:
			break wait
		case <-tick.C:
			var logBytes, sig int64
			files, _ := filepath.Glob(j.spec.RaceLog + ".*")
			for _, f := range append(files, j.spec.Out) {
				if st, e := os.Stat(f); e == nil {
					sig += st.Size()
					if f != j.spec.Out {
						logBytes += st.Size()
					}
				}
			}
			if sig != lastSig {
				lastSig, lastChange = sig, time.Now()
			}
			switch {
			case logBytes > maxRaceLogBytes:
				j.killReason = fmt.Sprintf("race log grew beyond %d MiB (reports are abundant; no point in continuing)", maxRaceLogBytes>>20)
			case time.Since(t0) > j.watchdog:
				j.killReason = fmt.Sprintf("wall-clock watchdog (%s)", j.watchdog)
			case j.stall > 0 && time.Since(lastChange) > j.stall:
				j.killReason = fmt.Sprintf("no progress (no round finished, no report written) for %s", j.stall)
			}
			if j.killReason != "" {
				cmd.Process.Kill()
				err = <-done
				j.killed = true
				break wait
			}
		}
	}
	tick.Stop()
	ef.Close()
	j.wall = time.Since(t0)
	if err != nil {
		j.exitNote = err.Error() // informational only: the verdict comes from the files
	}
	// records
	if b, err := os.ReadFile(j.spec.Out); err == nil {
		for _, line := range strings.Split(string(b), "\n") {
			if strings.TrimSpace(line) == "" {
				continue
			}
			var r rec
			if json.Unmarshal([]byte(line), &r) != nil {
				continue // torn last line of a dead child
			}
			switch r.Type {
			case "header":
				h := r
				j.header = &h
			case "done":
				j.done = true
			default:
				j.recs = append(j.recs, r)
			}
		}
	}
	// race detector log files
	files, _ := filepath.Glob(j.spec.RaceLog + ".*")
	sort.Strings(files)
	for _, f := range files {
		bl, err := parseRaceLog(f)
		if err != nil {
			continue
		}
		j.logFiles = append(j.logFiles, f)
		j.blocks = append(j.blocks, bl...)
	}
}

// roundOf attributes a report block to the round during which it was written.
func (j *job) roundOf(b *raceBlock) (r *rec, inProgress bool) {
	var lastBegin *rec
	for i := range j.recs {
		rc := &j.recs[i]
		if (rc.Type == "round" || rc.Type == "sface") && rc.LogBegin <= b.Offset && b.Offset < rc.LogEnd {
			return rc, false
		}
		if (rc.Type == "begin" || rc.Type == "sbegin") && rc.LogBegin <= b.Offset {
			lastBegin = rc
		}
	}
	return lastBegin, true
}

func (j *job) specOfRound(round int) roundSpec {
	for _, rs := range j.spec.Rounds {
		if rs.Round == round {
			return rs
		}
	}
	return roundSpec{Round: round}
}

func planRounds(seed int64, lo, hi int, cands map[string][]faceID) []roundSpec {
	var out []roundSpec
	for r := lo; r < hi; r++ {
		out = append(out, roundSpec{
			Round: r,
			N:     goroutineCounts[r%len(goroutineCounts)],
			Procs: procCounts[(r/len(goroutineCounts))%len(procCounts)],
			Slots: pickSlots(seed, r, cands),
		})
	}
	return out
}

func cleanWork(wd string) {
	for _, pat := range []string{"racelog-*", "spec-*", "out-*", "stderr-*"} {
		fs, _ := filepath.Glob(filepath.Join(wd, pat))
		for _, f := range fs {
			os.Remove(f)
		}
	}
	ds, _ := filepath.Glob(filepath.Join(wd, "syscache-*"))
	for _, d := range ds {
		os.RemoveAll(d)
	}
}

// judge turns what the jobs left behind into verdicts. It returns the reasons
// (if any) why the whole run must be reported as inconclusive.
type tally struct {
	blocksTotal, blocksGoText, blocksHarness int
	entryPairs, stackPairs                   map[string]int
	logFiles                                 []string
	forced                                   []string // reasons forcing an inconclusive run
}

func judge(run *vrun.Run, jobs []*job, t *tally) {
	type group struct {
		first    *raceBlock
		job      *job
		round    *rec
		n        int
		rounds   map[int]bool
		faces    map[string]bool
		variants map[string]string
	}
	groups := map[string]*group{}
	var order []string
	for _, j := range jobs {
		t.logFiles = append(t.logFiles, j.logFiles...)
		if j.header == nil {
			t.forced = append(t.forced, fmt.Sprintf("child %s wrote no header (%s)", j.name, j.exitNote))
		} else if !j.header.RaceEnabled {
			t.forced = append(t.forced, "the binary was not built with -race (harness/cmd/c17/RACE missing?)")
		}
		for i := range j.blocks {
			b := &j.blocks[i]
			t.blocksTotal++
			if !b.GoText {
				t.blocksHarness++
				t.forced = append(t.forced, "race report without any go-text frame (a race of the harness itself) in "+filepath.Base(b.LogFile))
				fmt.Printf("INCONCLUSIVE property=C17 HARNESS RACE: a DATA RACE report of child %q contains no go-text frame; the monitor itself is racy and must be fixed:\n%s\n", j.name, indent(b.Text, 60))
				run.Note("harness-only race report in %s:\n%s", b.LogFile, truncateLines(b.Text, 40))
				continue
			}
			t.blocksGoText++
			t.entryPairs[b.Key1]++
			t.stackPairs[b.Key2]++
			g := groups[b.Key1]
			if g == nil {
				rc, _ := j.roundOf(b)
				g = &group{first: b, job: j, round: rc, rounds: map[int]bool{}, faces: map[string]bool{}, variants: map[string]string{}}
				groups[b.Key1] = g
				order = append(order, b.Key1)
			}
			g.n++
			if rc, _ := j.roundOf(b); rc != nil {
				if isSweepRec(rc) {
					g.faces[rc.Face] = true
				} else {
					g.rounds[rc.Round] = true
				}
			}
			if b.Key2 != g.first.Key2 && len(g.variants) < 4 {
				if _, ok := g.variants[b.Key2]; !ok {
					g.variants[b.Key2] = truncateLines(b.Text, 60)
				}
			}
		}
		// result comparison
		for i := range j.recs {
			rc := &j.recs[i]
			if rc.Type == "sface" {
				for k := range rc.Mismatches {
					m := rc.Mismatches[k]
					if m.NonDet {
						run.Inconclusive("query " + m.Kind + " is not deterministic even when run alone")
						run.Note("sweep of %s: query %s: two solo runs on fresh parses disagree; not judged", rc.Face, m.Kind)
						continue
					}
					w := witness{What: "result-differs", Source: j.name, Seed: j.spec.Seed, SweepFace: rc.Face, Mismatch: &m}
					run.Violation("C17/result-differs/"+m.Kind,
						fmt.Sprintf("metadata sweep of %s (fresh parse, %d goroutines): goroutine %d, query %s returned digest %#x while running concurrently, %#x when the same list runs alone on another fresh parse (two solo runs agree)",
							rc.Face, rc.N, m.Goroutine, m.Kind, m.Conc, m.Solo), w)
				}
				continue
			}
			if rc.Type != "round" {
				continue
			}
			for k := range rc.Mismatches {
				m := rc.Mismatches[k]
				if m.NonDet {
					run.Inconclusive("operation " + m.Kind + " is not deterministic even when the program runs alone")
					run.Note("round %d program %d op %d (%s on %s): two solo runs disagree; not judged", rc.Round, m.Program, m.Op, m.Kind, m.Font)
					continue
				}
				w := witness{What: "result-differs", Source: j.name, Seed: j.spec.Seed, Ops: j.spec.Ops, MaxDistinct: j.spec.MaxDistinct,
					Round: j.specOfRound(rc.Round), FontsUsed: rc.Fonts, Mismatch: &m}
				run.Violation("C17/result-differs/"+m.Kind+"/"+m.FontKind,
					fmt.Sprintf("round %d (N=%d, GOMAXPROCS=%d): goroutine %d, operation #%d %s on %s [%s] returned digest %#x while running concurrently, %#x when the same program runs alone (two solo runs agree)",
						rc.Round, rc.N, rc.Procs, m.Goroutine, m.Op, m.Kind, m.Font, m.FontKind, m.Conc, m.Solo), w)
			}
		}
		// dead or unfinished children
		if !j.done {
			fatal := fatalFromStderr(j.errPath)
			var cur *rec
			for i := range j.recs {
				if j.recs[i].Type == "begin" || j.recs[i].Type == "sbegin" {
					cur = &j.recs[i]
				}
			}
			switch {
			case fatal.goText != "":
				w := witness{What: "fatal", Source: j.name, Seed: j.spec.Seed, Ops: j.spec.Ops, MaxDistinct: j.spec.MaxDistinct, Fatal: fatal.text}
				where := "before the first round"
				if cur != nil && isSweepRec(cur) {
					w.SweepFace = cur.Face
					where = "in the metadata sweep of " + cur.Face
				} else if cur != nil {
					w.Round = j.specOfRound(cur.Round)
					where = fmt.Sprintf("in round %d", cur.Round)
				}
				run.Violation("C17/fatal/"+fatal.head+"/"+fatal.goText,
					fmt.Sprintf("child %s died %s with %q in %s", j.name, where, fatal.head, fatal.goText), w)
			case j.killed:
				nGo := 0
				for i := range j.blocks {
					if j.blocks[i].GoText {
						nGo++
					}
				}
				run.Note("child %s was killed: %s (%d go-text race reports in its log)", j.name, j.killReason, nGo)
				if nGo == 0 {
					t.forced = append(t.forced, fmt.Sprintf("child %s was killed: %s", j.name, j.killReason))
				}
			default:
				t.forced = append(t.forced, fmt.Sprintf("child %s did not finish (%s; %s)", j.name, j.exitNote, fatal.head))
			}
		}
	}
	for _, k := range order {
		g := groups[k]
		b := g.first
		w := witness{What: "race", Source: g.job.name, Seed: g.job.spec.Seed, Ops: g.job.spec.Ops, MaxDistinct: g.job.spec.MaxDistinct,
			Report: b, Occurrences: g.n}
		where := "outside a round"
		if g.round != nil && isSweepRec(g.round) {
			w.SweepFace = g.round.Face
			where = fmt.Sprintf("metadata sweep of %s (fresh parse, %d goroutines)", g.round.Face, sweepGoroutines)
		} else if g.round != nil {
			w.Round = g.job.specOfRound(g.round.Round)
			w.FontsUsed = g.round.Fonts
			where = fmt.Sprintf("round %d (N=%d, GOMAXPROCS=%d)", g.round.Round, w.Round.N, w.Round.Procs)
		}
		for r := range g.rounds {
			w.RoundsSeen = append(w.RoundsSeen, r)
		}
		for f := range g.faces {
			w.SweepSeen = append(w.SweepSeen, f)
		}
		sort.Strings(w.SweepSeen)
		if len(w.SweepSeen) > 30 {
			w.SweepSeen = w.SweepSeen[:30]
		}
		sort.Ints(w.RoundsSeen)
		if len(w.RoundsSeen) > 30 {
			w.RoundsSeen = w.RoundsSeen[:30]
		}
		var vk []string
		for k2 := range g.variants {
			vk = append(vk, k2)
		}
		sort.Strings(vk)
		for _, k2 := range vk {
			w.Variants = append(w.Variants, g.variants[k2])
		}
		run.Violation("C17/race/"+b.Key1,
			fmt.Sprintf("DATA RACE reported by the race detector, %s, %d report(s) between API entries [%s]: %s",
				where, g.n, b.Key1, strings.Join(b.innermostGoText(), " <-> ")), w)
	}
}

func isSweepRec(r *rec) bool { return r.Type == "sface" || r.Type == "sbegin" }

type fatalInfo struct{ head, goText, text string }

// fatalFromStderr looks for a runtime fatal error (e.g. "concurrent map
// writes") in a dead child's output and for the go-text frame it came from.
func fatalFromStderr(path string) fatalInfo {
	b, err := os.ReadFile(path)
	if err != nil {
		return fatalInfo{}
	}
	s := string(b)
	k := strings.Index(s, "fatal error:")
	if k < 0 {
		return fatalInfo{head: vrun.FatalHead(s)}
	}
	s = s[k:]
	lines := strings.Split(s, "\n")
	fi := fatalInfo{head: strings.TrimSpace(lines[0])}
	// first goroutine dump after the header is the faulting one
	for _, l := range lines[1:] {
		if strings.HasPrefix(l, goTextPrefix) {
			fn := l
			if k := strings.LastIndex(fn, "("); k > 0 {
				fn = fn[:k]
			}
			fi.goText = strings.TrimPrefix(fn, goTextPrefix)
			break
		}
		if strings.HasPrefix(l, "goroutine ") && fi.goText == "" && strings.Contains(s[:strings.Index(s, l)], "goroutine ") {
			// reached the second goroutine without a go-text frame in the first
			break
		}
	}
	if len(lines) > 80 {
		lines = lines[:80]
	}
	fi.text = strings.Join(lines, "\n")
	return fi
}

func indent(s string, maxLines int) string {
	return "    " + strings.ReplaceAll(truncateLines(s, maxLines), "\n", "\n    ")
}

func truncateLines(s string, n int) string {
	l := strings.Split(s, "\n")
	if len(l) > n {
		l = append(l[:n], "…")
	}
	return strings.Join(l, "\n")
}

func runJobs(wd string, jobs []*job, parallel int) {
	sem := make(chan struct{}, parallel)
	var wg sync.WaitGroup
	for _, j := range jobs {
		wg.Add(1)
		sem <- struct{}{}
		go func(j *job) {
			defer wg.Done()
			defer func() { <-sem }()
			j.run(wd)
		}(j)
	}
	wg.Wait()
}

// selfTest checks the pipeline race detector -> log file -> parser with a
// deliberate race inside the harness.
func selfTest(run *vrun.Run, wd string) (ok bool, detail string) {
	j := &job{name: "selftest", spec: childSpec{Mode: "selftest", Seed: run.Seed}, watchdog: 5 * time.Minute}
	j.run(wd)
	if j.header == nil || !j.done {
		return false, "self-test child did not run: " + j.exitNote
	}
	if !j.header.RaceEnabled {
		return false, "the binary is not built with -race"
	}
	for _, b := range j.blocks {
		if !b.GoText && strings.Contains(b.Text, "c17.selfTestBump") && len(b.Access) == 2 {
			return true, fmt.Sprintf("%d report block(s) parsed from %d file(s)", len(j.blocks), len(j.logFiles))
		}
	}
	return false, fmt.Sprintf("the deliberate harness race was not found in the race log (%d blocks in %d files)", len(j.blocks), len(j.logFiles))
}

func Main() {
	run := vrun.Start("C17")
	if len(run.Args) >= 2 && run.Args[0] == "child" {
		childMain(run.Args[1])
		return
	}
	wd := run.WorkDir()
	if d := os.Getenv("VERIF_EVIDENCE_DIR"); d != "" {
		// scratch-repo mode (./check with VERIF_REPO): keep its files apart from
		// those of a run against /repo that may be going on at the same time
		wd = filepath.Join(wd, filepath.Base(d))
		os.MkdirAll(wd, 0o755)
	}
	cleanWork(wd)
	if run.Replay != "" {
		replay(run, wd)
		return
	}

	nRounds := run.Pick(36, 600)
	raceChildren := run.Pick(5, 15)
	overlapChildren := run.Pick(3, 12)
	sweepChildren := run.Pick(4, 8)
	maxDistinct := 16
	watchdog := time.Duration(run.Pick(20, 120)) * time.Minute
	stall := time.Duration(run.Pick(2, 6)) * time.Minute

	t := &tally{entryPairs: map[string]int{}, stackPairs: map[string]int{}}
	stOK, stDetail := selfTest(run, wd)
	run.Extra("selftest", stDetail)
	if !stOK {
		t.forced = append(t.forced, "race detector self-test failed: "+stDetail)
	}

	cands := classify()
	candCount := map[string]int{}
	for k, l := range cands {
		candCount[k] = len(l)
	}
	run.Extra("corpus_candidates_by_kind", candCount)

	excluded := probeCorpus(run, wd, cands)
	run.Extra("faces_excluded_by_probe", excluded)
	for k, l := range cands {
		var keep []faceID
		for _, id := range l {
			if _, bad := excluded[id.String()]; !bad {
				keep = append(keep, id)
			}
		}
		cands[k] = keep
	}
	for _, k := range slotKinds {
		if len(cands[k]) == 0 {
			run.Note("no usable corpus font of kind %q (slot left out of every round)", k)
		}
	}

	var jobs []*job
	per := (nRounds + raceChildren - 1) / raceChildren
	for c := 0; c*per < nRounds; c++ {
		lo, hi := c*per, (c+1)*per
		if hi > nRounds {
			hi = nRounds
		}
		jobs = append(jobs, &job{name: fmt.Sprintf("race%02d", c), watchdog: watchdog, stall: stall,
			spec: childSpec{Mode: "race", Seed: run.Seed, Ops: opsPerProgram, MaxDistinct: maxDistinct, Solo: true, Rounds: planRounds(run.Seed, lo, hi, cands)}})
	}
	// second pass: what was interleaved (atomic active-operation table; its own
	// synchronisation is why it is not the race pass)
	var ovls []*job
	per = (nRounds + overlapChildren - 1) / overlapChildren
	for c := 0; c*per < nRounds; c++ {
		lo, hi := c*per, (c+1)*per
		if hi > nRounds {
			hi = nRounds
		}
		ovls = append(ovls, &job{name: fmt.Sprintf("overlap%02d", c), watchdog: watchdog, stall: stall,
			spec: childSpec{Mode: "overlap", Seed: run.Seed, Ops: opsPerProgram, MaxDistinct: maxDistinct, Rounds: planRounds(run.Seed, lo, hi, cands)}})
	}
	// third pass: all-fonts metadata sweep (race detector, fresh parse per face)
	swFaces, swFiles := sweepFaces(run.Pick(4<<20, maxRareFontFileSize))
	var sweeps []*job
	for c := 0; c < sweepChildren; c++ {
		var mine []faceID
		for i := c; i < len(swFaces); i += sweepChildren {
			mine = append(mine, swFaces[i])
		}
		if len(mine) > 0 {
			sweeps = append(sweeps, &job{name: fmt.Sprintf("sweep%02d", c), watchdog: watchdog, stall: stall,
				spec: childSpec{Mode: "sweep", Seed: run.Seed, Faces: mine, Repeats: run.Pick(2, 4)}})
		}
	}
	all := append(append([]*job{}, jobs...), ovls...)
	all = append(all, sweeps...)
	t0 := time.Now()
	runJobs(wd, all, len(all))
	passWall := time.Since(t0)

	judge(run, all, t)

	// ---- evidence
	var rounds, goroutines, panics, roundSamples int
	var ops, ovlOps int64
	fontsByKind := map[string]map[string]bool{}
	var concMs, soloMs, loadMs int64
	for _, j := range jobs {
		for i := range j.recs {
			rc := &j.recs[i]
			if rc.Type != "round" {
				continue
			}
			rounds++
			goroutines += rc.N
			ops += rc.Ops
			panics += rc.Panics
			concMs += rc.ConcMs
			soloMs += rc.SoloMs
			loadMs += rc.LoadMs
			run.Eval(int(rc.Ops))
			run.Cover(fmt.Sprintf("goroutines=%d", rc.N))
			run.Cover(fmt.Sprintf("gomaxprocs=%d", rc.Procs))
			run.Cover(fmt.Sprintf("goroutines=%d,gomaxprocs=%d", rc.N, rc.Procs))
			for _, f := range rc.Fonts {
				if fontsByKind[f.Kind] == nil {
					fontsByKind[f.Kind] = map[string]bool{}
				}
				fontsByKind[f.Kind][f.ID] = true
				run.Cover("font-kind=" + f.Kind)
			}
			for k, n := range rc.OpCounts {
				run.CoverN("op="+k, int64(n))
			}
			if roundSamples < 3 && (rc.Round < 2 || rc.N == 64) {
				roundSamples++
				run.Sample(map[string]any{"round": rc.Round, "goroutines": rc.N, "gomaxprocs": rc.Procs, "fonts": rc.Fonts,
					"operations": rc.Ops, "panics_recovered": rc.Panics, "concurrent_ms": rc.ConcMs, "alone_ms": rc.SoloMs})
			}
		}
	}
	pairKind := map[string]int{}
	pairFont := map[string]int{}
	pairOps := map[string]int{}
	ovlRounds := 0
	for _, ovl := range ovls {
		for i := range ovl.recs {
			rc := &ovl.recs[i]
			if rc.Type != "round" {
				continue
			}
			ovlRounds++
			ovlOps += rc.Ops
			for key, n := range rc.Pairs {
				p := strings.SplitN(key, "|", 4)
				pairFont[key] += n
				pairKind[p[0]+"|"+p[1]+"|"+p[2]] += n
				pairOps[p[0]+"|"+p[1]] += n
			}
		}
	}
	var swDone, swUnusable, swMismatch int
	var swOps int64
	swSeen := map[string]bool{}
	for _, sj := range sweeps {
		for i := range sj.recs {
			rc := &sj.recs[i]
			if rc.Type != "sface" {
				continue
			}
			if rc.Flag != "" {
				if !swSeen[rc.Face] {
					swUnusable++
				}
				swSeen[rc.Face] = true
				continue
			}
			swDone++
			swSeen[rc.Face] = true
			swOps += rc.Ops
			swMismatch += rc.MismatchTotal
		}
	}
	swBlocks := 0
	for _, sj := range sweeps {
		swBlocks += len(sj.blocks)
	}
	run.Extra("metadata_sweep", map[string]any{"corpus_files": swFiles, "faces_planned": len(swFaces), "faces_swept_distinct": len(swSeen) - swUnusable,
		"sweeps_executed": swDone, "faces_not_loadable": swUnusable, "goroutines_per_sweep": "4 (even repetitions) / 2 (odd repetitions)", "repetitions_per_face": run.Pick(2, 4), "queries_per_goroutine": len(sweepQueryNames),
		"query_executions": swOps, "digest_mismatches": swMismatch, "race_report_blocks": swBlocks, "child_processes": len(sweeps), "queries": sweepQueryNames})
	run.CoverN("sweep-faces", int64(len(swSeen)-swUnusable))
	if len(swSeen) < len(swFaces) && run.Violations() == 0 {
		t.forced = append(t.forced, fmt.Sprintf("the metadata sweep visited only %d of %d faces", len(swSeen), len(swFaces)))
	}
	if ovlRounds < nRounds && run.Violations() == 0 {
		t.forced = append(t.forced, fmt.Sprintf("the overlap pass completed only %d of %d rounds", ovlRounds, nRounds))
	}
	if rounds < nRounds && run.Violations() == 0 {
		t.forced = append(t.forced, fmt.Sprintf("the race pass completed only %d of %d rounds", rounds, nRounds))
	}
	if len(t.forced) == 0 {
		for k := range pairKind {
			run.Nontrivial(vrun.Hash64(k))
		}
	}
	type kv struct {
		K string
		V int
	}
	var top []kv
	for k, v := range pairKind {
		top = append(top, kv{k, v})
	}
	sort.Slice(top, func(i, j int) bool {
		if top[i].V != top[j].V {
			return top[i].V > top[j].V
		}
		return top[i].K < top[j].K
	})
	for i := 0; i < len(top) && i < 3; i++ {
		run.Sample(map[string]any{"overlapped_pair(opA|opB|font kind)": top[i].K, "times_seen_simultaneously_active": top[i].V})
	}
	fk := map[string]int{}
	for k, m := range fontsByKind {
		fk[k] = len(m)
	}
	run.Extra("rounds", rounds)
	run.Extra("rounds_planned", nRounds)
	run.Extra("goroutines", goroutines)
	run.Extra("operations_executed_race_pass", ops)
	run.Extra("operations_executed_overlap_pass", ovlOps)
	run.Extra("overlap_pass_rounds", ovlRounds)
	run.Extra("panics_recovered_inside_operations", panics)
	run.Extra("distinct_fonts_by_kind", fk)
	run.Extra("race_log_files_read", len(t.logFiles))
	run.Extra("race_log_files", baseNames(t.logFiles))
	run.Extra("race_report_blocks", map[string]int{"total": t.blocksTotal, "with_go_text_frames": t.blocksGoText, "harness_only": t.blocksHarness,
		"distinct_by_api_entry_pair": len(t.entryPairs), "distinct_by_stack_pair": len(t.stackPairs)})
	run.Extra("overlap_distinct_pairs", map[string]int{"(opA,opB,font kind)": len(pairKind), "(opA,opB,font file)": len(pairFont), "(opA,opB)": len(pairOps)})
	run.Extra("child_processes", map[string]any{"race": len(jobs), "overlap": len(ovls), "sweep": len(sweeps), "selftest": 1})
	run.Extra("timing_informational", map[string]any{"passes_wall_s": passWall.Seconds(), "sum_concurrent_ms": concMs, "sum_alone_ms": soloMs, "sum_font_load_ms": loadMs})
	if len(t.forced) > 0 {
		seen := map[string]bool{}
		var rs []string
		for _, f := range t.forced {
			if !seen[f] {
				seen[f] = true
				rs = append(rs, f)
				run.Inconclusive(f)
				fmt.Printf("INCONCLUSIVE property=C17 %s\n", f)
			}
		}
		run.Extra("inconclusive_reason", rs)
	}
	if rounds < nRounds {
		run.Note("only %d of %d planned rounds completed", rounds, nRounds)
	}
	run.Finish(level())
}

func level() vrun.Level {
	return vrun.Level{
		Level: "exploration",
		Rule: "evaluations = operations executed by the goroutine programs of the race pass (programs of " + strconv.Itoa(opsPerProgram) + " operations, each compared with the same program run alone afterwards in the same process; in 64-goroutine rounds 16 distinct programs are each run by 4 goroutines). " +
			"A child process that observes no race writes no race log file, so race_log_files_read=0 is the normal outcome; coverage.selftest shows that a deliberate harness race did reach a log file and the parser. " +
			"distinct_nontrivial = distinct (operation kind A, operation kind B, font kind slot) triples observed simultaneously active on the same shared font by the atomic active-operation table of the second pass; floor " + strconv.Itoa(pairFloor) + ". " +
			"Third pass (coverage.metadata_sweep): every face of every corpus file is parsed fresh and queried by 4 goroutines with a fixed list of metadata/metric/glyph queries under the race detector, digests compared with the same list run alone on another fresh parse. " +
			"It is forced to 0 (run inconclusive) when coverage.inconclusive_reason is present: harness-only race report, race detector self-test failure, child death, watchdog.",
		Assumptions: []string{
			"the Go race detector (happens-before, reports only races that the executed schedule exposes; no alarm means none observed, not none possible)",
			"only *font.Font is shared; Face, HarfbuzzShaper, harfbuzz.Buffer/Font, Segmenters and FontMap are private to a goroutine as documented",
			"the race pass adds no synchronisation between the start barrier and the final join; result slots are private and merged after Wait",
			"programs are a pure function of (VERIF_SEED, round, program index); schedules are not reproducible, so replay files carry the observed report",
		},
		Floor: pairFloor,
	}
}

func baseNames(l []string) []string {
	var out []string
	for _, f := range l {
		out = append(out, filepath.Base(f))
	}
	if len(out) > 40 {
		out = append(out[:40], "…")
	}
	return out
}

// replay re-executes the round of a witness several times under the race
// detector. Schedules are not reproducible: not observing the report again is
// inconclusive, not a pass.
func replay(run *vrun.Run, wd string) {
	var w witness
	if _, err := vrun.ReadReplay(run.Replay, &w); err != nil {
		fmt.Println("replay:", err)
		os.Exit(2)
	}
	if w.SweepFace != "" {
		replaySweep(run, wd, &w)
		return
	}
	if len(w.Round.Slots) == 0 {
		fmt.Println("INCONCLUSIVE property=C17 the witness carries no round to re-execute")
		run.Inconclusive("witness without round parameters")
		run.Finish(vrun.Level{Level: "exploration", Rule: "replay"})
	}
	const reps = 6
	j := &job{name: "replay", watchdog: 30 * time.Minute, stall: 5 * time.Minute,
		spec: childSpec{Mode: "race", Seed: w.Seed, Ops: w.Ops, MaxDistinct: w.MaxDistinct, Solo: true, Repeats: reps, Rounds: []roundSpec{w.Round}}}
	if j.spec.Ops == 0 {
		j.spec.Ops = opsPerProgram
	}
	j.run(wd)
	t := &tally{entryPairs: map[string]int{}, stackPairs: map[string]int{}}
	judge(run, []*job{j}, t)
	for i := range j.recs {
		if j.recs[i].Type == "round" {
			run.Eval(j.recs[i].N)
		}
	}
	if run.Violations() == 0 {
		msg := fmt.Sprintf("not observed again in %d executions of round %d (N=%d, GOMAXPROCS=%d); races depend on the schedule - the recorded report stays in the replay file", reps, w.Round.Round, w.Round.N, w.Round.Procs)
		run.Inconclusive(msg)
		fmt.Printf("INCONCLUSIVE property=C17 %s\n", msg)
	}
	for _, f := range t.forced {
		run.Inconclusive(f)
		fmt.Printf("INCONCLUSIVE property=C17 %s\n", f)
	}
	run.Finish(vrun.Level{Level: "exploration", Rule: "replay"})
}

// probeCorpus runs probeFace over every candidate face in child processes and
// returns the faces to leave out, with the reason. A face on which the probe
// child dies or stalls is left out as well.
func probeCorpus(run *vrun.Run, wd string, cands map[string][]faceID) map[string]string {
	seen := map[string]bool{}
	var faces []faceID
	for _, k := range slotKinds {
		for _, id := range cands[k] {
			if !seen[id.String()] {
				seen[id.String()] = true
				faces = append(faces, id)
			}
			if k == "collection" {
				id2 := faceID{id.File, id.Index + 1}
				if !seen[id2.String()] {
					seen[id2.String()] = true
					faces = append(faces, id2)
				}
			}
		}
	}
	sort.Slice(faces, func(i, j int) bool { return faces[i].String() < faces[j].String() })
	excluded := map[string]string{}
	var mu sync.Mutex
	const procs = 16
	var wg sync.WaitGroup
	probed := 0
	for c := 0; c < procs; c++ {
		var mine []faceID
		for i := c; i < len(faces); i += procs {
			mine = append(mine, faces[i])
		}
		wg.Add(1)
		go func(c int, mine []faceID) {
			defer wg.Done()
			for attempt := 0; len(mine) > 0 && attempt < 50; attempt++ {
				j := &job{name: fmt.Sprintf("probe%02d", c), watchdog: 15 * time.Minute, stall: 90 * time.Second,
					spec: childSpec{Mode: "probe", Seed: run.Seed, Faces: mine}}
				j.run(wd)
				done := map[string]bool{}
				open := ""
				mu.Lock()
				for _, r := range j.recs {
					switch r.Type {
					case "pbegin":
						open = r.Face
					case "pend":
						open = ""
						done[r.Face] = true
						probed++
						if r.Flag != "" {
							excluded[r.Face] = r.Flag
						}
					}
				}
				if open != "" {
					excluded[open] = "probe did not finish (" + j.killReason + j.exitNote + ")"
					done[open] = true
				}
				mu.Unlock()
				if j.done {
					return
				}
				var rest []faceID
				for _, id := range mine {
					if !done[id.String()] {
						rest = append(rest, id)
					}
				}
				if len(rest) == len(mine) { // no progress at all: give up on this share
					mu.Lock()
					for _, id := range rest {
						excluded[id.String()] = "probe child could not run"
					}
					mu.Unlock()
					return
				}
				mine = rest
			}
		}(c, mine)
	}
	wg.Wait()
	run.Extra("faces_probed", probed)
	return excluded
}

func parseFaceID(s string) (faceID, bool) {
	k := strings.LastIndex(s, "#")
	if k < 0 {
		return faceID{}, false
	}
	idx, err := strconv.Atoi(s[k+1:])
	if err != nil {
		return faceID{}, false
	}
	return faceID{File: s[:k], Index: idx}, true
}

func replaySweep(run *vrun.Run, wd string, w *witness) {
	id, ok := parseFaceID(w.SweepFace)
	if !ok {
		fmt.Println("replay: bad sweep face", w.SweepFace)
		os.Exit(2)
	}
	const reps = 20
	j := &job{name: "replay", watchdog: 30 * time.Minute, stall: 5 * time.Minute,
		spec: childSpec{Mode: "sweep", Seed: w.Seed, Faces: []faceID{id}, Repeats: reps}}
	j.run(wd)
	t := &tally{entryPairs: map[string]int{}, stackPairs: map[string]int{}}
	judge(run, []*job{j}, t)
	for i := range j.recs {
		if j.recs[i].Type == "sface" {
			run.Eval(j.recs[i].N)
		}
	}
	if run.Violations() == 0 {
		msg := fmt.Sprintf("not observed again in %d sweeps of %s (fresh parse, %d goroutines); the recorded report stays in the replay file", reps, w.SweepFace, sweepGoroutines)
		run.Inconclusive(msg)
		fmt.Printf("INCONCLUSIVE property=C17 %s\n", msg)
	}
	for _, f := range t.forced {
		run.Inconclusive(f)
		fmt.Printf("INCONCLUSIVE property=C17 %s\n", f)
	}
	run.Finish(vrun.Level{Level: "exploration", Rule: "replay"})
}

// sweepFaces lists every face of every corpus file up to maxBytes.
func sweepFaces(maxBytes int) (faces []faceID, files int) {
	for _, f := range corpus.Files() {
		data := f.Bytes()
		if len(data) == 0 || len(data) > maxBytes {
			continue
		}
		lds, err := safeLoaders(data)
		if err != nil || len(lds) == 0 {
			continue
		}
		files++
		for i := range lds {
			faces = append(faces, faceID{f.ID, i})
		}
	}
	return faces, files
}
