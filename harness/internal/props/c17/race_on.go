//go:build race

package c17

const raceEnabled = true
