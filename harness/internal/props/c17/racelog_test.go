package c17

import "testing"

const sampleLog = `==================
WARNING: DATA RACE
Read at 0x00c001445df0 by goroutine 25:
  github.com/go-text/typesetting/font.(*Font).Describe()
      /tmp/wt-c17/font/metadata.go:451 +0x52
  github.com/go-text/typesetting/fontscan.(*FontMap).AddFace()
      /tmp/wt-c17/fontscan/fontmap.go:306 +0x11
  verifharness/internal/props/c17.(*gstate).opNames()
      /verif/harness/internal/props/c17/prog.go:640 +0x364

Previous write at 0x00c001445df0 by goroutine 28:
  github.com/go-text/typesetting/font.(*Font).Describe()
      /tmp/wt-c17/font/metadata.go:456 +0x252
  verifharness/internal/props/c17.runRound.func1()
      /verif/harness/internal/props/c17/child.go:230 +0x1d7

Goroutine 25 (running) created at:
  verifharness/internal/props/c17.runRound()
      /verif/harness/internal/props/c17/child.go:225 +0xa29

Goroutine 28 (finished) created at:
  github.com/go-text/typesetting/should.not.count()
      /x.go:1 +0x1
==================
==================
WARNING: DATA RACE
Write at 0x00c000012345 by goroutine 7:
  verifharness/internal/props/c17.selfTestBump()
      /verif/harness/internal/props/c17/child.go:150 +0x30

Previous write at 0x00c000012345 by goroutine 8:
  [failed to restore the stack]

Goroutine 7 (running) created at:
  verifharness/internal/props/c17.selfTestRace()
      /verif/harness/internal/props/c17/child.go:140 +0x1
==================
Found 2 data race(s)
`

func TestParseRaceLog(t *testing.T) {
	bl := parseRaceText("x", sampleLog)
	if len(bl) != 2 {
		t.Fatalf("want 2 blocks, got %d", len(bl))
	}
	a, b := bl[0], bl[1]
	if !a.GoText || len(a.Access) != 2 || len(a.Access[0].Frames) != 3 || a.Access[0].Frames[0].Line != 451 {
		t.Fatalf("block 0 misparsed: %+v", a)
	}
	if a.Key1 != "font.(*Font).Describe | fontscan.(*FontMap).AddFace" {
		t.Fatalf("key1 = %q", a.Key1)
	}
	if a.Access[0].Kind != "read" || a.Access[1].Kind != "write" {
		t.Fatalf("kinds: %q %q", a.Access[0].Kind, a.Access[1].Kind)
	}
	if b.GoText || len(b.Access) != 2 || !b.Access[1].Failed {
		t.Fatalf("block 1 misparsed: %+v", b)
	}
	if b.Key1 != "(no go-text frame) | (stack not restored)" {
		t.Fatalf("key1 = %q", b.Key1)
	}
	if a.Offset != 19 {
		t.Fatalf("offset = %d", a.Offset)
	}
}
