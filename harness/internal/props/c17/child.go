package c17

import (
	"encoding/json"
	"fmt"
	"os"
	"runtime"
	"sort"
	"sync"
	"sync/atomic"
	"time"

	"github.com/go-text/typesetting/font"
	"github.com/go-text/typesetting/harfbuzz"

	"verifharness/internal/gen"
)

const (
	probeBlowupFactor = 16
	extraSoloRuns     = 6
	maxChildLogBytes  = 4 << 20 // a child stops after the round in which its race log passes this size
)

// roundSpec fixes everything about a round except the schedule.
type roundSpec struct {
	Round int        `json:"round"`
	N     int        `json:"goroutines"`
	Procs int        `json:"gomaxprocs"`
	Slots []slotSpec `json:"slots"`
}

// childSpec is the job description handed to a child process (JSON file).
type childSpec struct {
	Mode        string      `json:"mode"` // race | overlap | selftest
	Seed        int64       `json:"seed"`
	Ops         int         `json:"ops"`
	MaxDistinct int         `json:"max_distinct_programs"` // goroutine g runs program g % MaxDistinct
	Rounds      []roundSpec `json:"rounds"`
	Faces       []faceID    `json:"faces,omitempty"` // probe and sweep modes
	Repeats     int         `json:"repeats"`         // every round is executed this many times (replay)
	Solo        bool        `json:"solo"`            // compare with the programs run alone
	Out         string      `json:"out"`             // JSONL records
	RaceLog     string      `json:"race_log"`
	SysDir      string      `json:"sys_dir"`
}

type fontRec struct {
	Slot int    `json:"slot"`
	Kind string `json:"kind"`
	ID   string `json:"id"`
}

type mismatch struct {
	Goroutine int    `json:"goroutine"`
	Program   int    `json:"program"`
	Op        int    `json:"op_index"`
	Kind      string `json:"op_kind"`
	FontKind  string `json:"font_kind"`
	Font      string `json:"font"`
	Solo      uint64 `json:"digest_alone"`
	Conc      uint64 `json:"digest_concurrent"`
	NonDet    bool   `json:"nondeterministic_alone"` // a second solo run disagreed with the first one too
}

// rec is one line of the child's output file.
type rec struct {
	Type        string `json:"type"` // header | begin | round | stopped | pbegin | pend | sbegin | sface | done
	Pid         int    `json:"pid,omitempty"`
	RaceEnabled bool   `json:"race_enabled,omitempty"`
	Mode        string `json:"mode,omitempty"`

	Face     string `json:"face,omitempty"`      // probe mode
	Flag     string `json:"flag,omitempty"`      // probe mode: "" | unusable | blowup
	ProbeMax int    `json:"probe_max,omitempty"` // probe mode: largest glyph count / input length seen

	Round         int            `json:"round"`
	Rep           int            `json:"rep,omitempty"`
	N             int            `json:"goroutines,omitempty"`
	Procs         int            `json:"gomaxprocs,omitempty"`
	Fonts         []fontRec      `json:"fonts,omitempty"`
	Skipped       []string       `json:"skipped_candidates,omitempty"`
	Ops           int64          `json:"ops,omitempty"`
	OpCounts      map[string]int `json:"op_counts,omitempty"`
	Panics        int            `json:"panics,omitempty"`
	Mismatches    []mismatch     `json:"mismatches,omitempty"`
	MismatchTotal int            `json:"mismatch_total,omitempty"`
	Pairs         map[string]int `json:"pairs,omitempty"` // overlap pass: "opA|opB|font kind|font id" -> times seen
	LogBegin      int64          `json:"log_begin"`       // size of the race log before / after the round
	LogEnd        int64          `json:"log_end"`
	ConcMs        int64          `json:"conc_ms,omitempty"`
	SoloMs        int64          `json:"solo_ms,omitempty"`
	LoadMs        int64          `json:"load_ms,omitempty"`
}

func childMain(specPath string) {
	b, err := os.ReadFile(specPath)
	if err != nil {
		fmt.Fprintln(os.Stderr, "child spec:", err)
		os.Exit(3)
	}
	var cs childSpec
	if err := json.Unmarshal(b, &cs); err != nil {
		fmt.Fprintln(os.Stderr, "child spec:", err)
		os.Exit(3)
	}
	out, err := os.OpenFile(cs.Out, os.O_CREATE|os.O_WRONLY|os.O_TRUNC, 0o644)
	if err != nil {
		fmt.Fprintln(os.Stderr, "child out:", err)
		os.Exit(3)
	}
	emit := func(r rec) {
		line, _ := json.Marshal(r)
		out.Write(append(line, '\n'))
	}
	emit(rec{Type: "header", Pid: os.Getpid(), RaceEnabled: raceEnabled, Mode: cs.Mode})
	logFile := fmt.Sprintf("%s.%d", cs.RaceLog, os.Getpid())
	logSize := func() int64 {
		st, err := os.Stat(logFile)
		if err != nil {
			return 0
		}
		return st.Size()
	}
	switch cs.Mode {
	case "selftest":
		selfTestRace()
	case "probe":
		for _, id := range cs.Faces {
			emit(rec{Type: "pbegin", Face: id.String()})
			t0 := time.Now()
			flag, mx := probeFace(id)
			emit(rec{Type: "pend", Face: id.String(), Flag: flag, ProbeMax: mx, LoadMs: time.Since(t0).Milliseconds()})
		}
	case "sweep":
		if cs.Repeats < 1 {
			cs.Repeats = 1
		}
		for _, id := range cs.Faces {
			for rep := 0; rep < cs.Repeats; rep++ {
				emit(rec{Type: "sbegin", Face: id.String(), Rep: rep, LogBegin: logSize()})
				r := sweepFace(id, rep, logSize)
				emit(r)
				if r.LogEnd > maxChildLogBytes {
					emit(rec{Type: "stopped", Face: id.String(), LogEnd: r.LogEnd})
					emit(rec{Type: "done"})
					out.Close()
					os.Exit(0)
				}
			}
		}
	case "race", "overlap":
		if cs.Repeats < 1 {
			cs.Repeats = 1
		}
		for _, rs := range cs.Rounds {
			for rep := 0; rep < cs.Repeats; rep++ {
				emit(rec{Type: "begin", Round: rs.Round, Rep: rep, LogBegin: logSize()})
				r := runRound(&cs, rs, rep, logSize)
				emit(r)
				if r.LogEnd > maxChildLogBytes {
					// plenty of reports already: more rounds add nothing
					emit(rec{Type: "stopped", Round: rs.Round, LogEnd: r.LogEnd})
					emit(rec{Type: "done"})
					out.Close()
					os.Exit(0)
				}
			}
		}
	default:
		fmt.Fprintln(os.Stderr, "child: unknown mode", cs.Mode)
		os.Exit(3)
	}
	emit(rec{Type: "done"})
	out.Close()
	os.Exit(0)
}

// selfTestVar is raced on deliberately (harness-only race) so that the parent
// can check that reports reach the log files and that the parser reads them.
var selfTestVar int

func selfTestRace() {
	runBarrier(2, func(int) {
		for i := 0; i < 50; i++ {
			selfTestBump()
			runtime.Gosched()
		}
	})
}

//go:noinline
func selfTestBump() { selfTestVar++ }

// buildEnv parses the round's fonts afresh. The returned *font.Font values are
// not touched again before the goroutines start.
func buildEnv(cs *childSpec, rs roundSpec) (*env, []string) {
	e := &env{nOps: cs.Ops, sysDir: cs.SysDir}
	var skipped []string
	add := func(kind string, id faceID) bool {
		info := getScout(id)
		if !info.OK || len(info.Runes) < 1 {
			skipped = append(skipped, id.String()+": not usable")
			return false
		}
		ft, _, err := loadFace(id)
		if err != nil {
			skipped = append(skipped, id.String()+": "+err.Error())
			return false
		}
		sf := &sharedFont{Slot: len(e.fonts), Kind: kind, ID: id, Info: info, Font: ft}
		e.fonts = append(e.fonts, sf)
		if len(info.Axes) > 0 {
			e.varFonts = append(e.varFonts, sf.Slot)
		}
		if kind == "bitmap" || kind == "sbix" || kind == "sbix-dupe" {
			e.bmpFonts = append(e.bmpFonts, sf.Slot)
		}
		return true
	}
	for _, sl := range rs.Slots {
		for _, c := range sl.Cands {
			if add(sl.Kind, c) {
				if sl.Kind == "collection" {
					add(sl.Kind, faceID{c.File, c.Index + 1})
				}
				break
			}
		}
	}
	return e, skipped
}

func runRound(cs *childSpec, rs roundSpec, rep int, logSize func() int64) rec {
	r := rec{Type: "round", Round: rs.Round, Rep: rep, N: rs.N, Procs: rs.Procs, LogBegin: logSize(), OpCounts: map[string]int{}}
	t0 := time.Now()
	e, skipped := buildEnv(cs, rs)
	r.Skipped = skipped
	r.LoadMs = time.Since(t0).Milliseconds()
	for _, sf := range e.fonts {
		r.Fonts = append(r.Fonts, fontRec{sf.Slot, sf.Kind, sf.ID.String()})
	}
	if len(e.fonts) == 0 {
		r.LogEnd = logSize()
		return r
	}
	distinct := cs.MaxDistinct
	if distinct <= 0 || distinct > rs.N {
		distinct = rs.N
	}
	var obs *overlapObs
	if cs.Mode == "overlap" {
		obs = &overlapObs{active: make([]atomic.Uint32, rs.N)}
	}
	prev := runtime.GOMAXPROCS(rs.Procs)
	results := make([]*result, rs.N)
	t1 := time.Now()
	runBarrier(rs.N, func(g int) {
		results[g] = runProgram(e, cs.Seed, rs.Round, g%distinct, obs, g)
	})
	r.ConcMs = time.Since(t1).Milliseconds()
	runtime.GOMAXPROCS(prev)
	for _, res := range results {
		r.Ops += int64(len(res.Digests))
		r.Panics += res.Panics
		for _, k := range res.Kinds {
			r.OpCounts[opName[k]]++
		}
	}
	fontName := func(code uint8) (kind, id string) {
		switch code {
		case pseudoNone:
			return "none", "none"
		case pseudoSystem:
			return "system-index", "system-index"
		}
		return e.fonts[code].Kind, e.fonts[code].ID.String()
	}
	if obs != nil {
		r.Pairs = map[string]int{}
		for _, res := range results {
			for key, n := range res.pairs {
				fk, fid := fontName(uint8(key & 0xff))
				r.Pairs[opName[(key>>16)&0xff]+"|"+opName[(key>>8)&0xff]+"|"+fk+"|"+fid] += n
			}
		}
	}
	if cs.Solo {
		t2 := time.Now()
		solo := make([]*result, distinct)
		for p := 0; p < distinct; p++ {
			solo[p] = runProgram(e, cs.Seed, rs.Round, p, nil, 0)
		}
		solo2 := map[int][]*result{}
		for g, res := range results {
			p := g % distinct
			s := solo[p]
			if res.Final == s.Final && len(res.Digests) == len(s.Digests) {
				continue
			}
			i := 0
			for i < len(res.Digests) && i < len(s.Digests) && res.Digests[i] == s.Digests[i] {
				i++
			}
			if i >= len(res.Digests) || i >= len(s.Digests) {
				continue
			}
			// Is the operation deterministic at all? Run the program alone a few
			// more times: any disagreement among solo runs (or a solo run that
			// reproduces the "concurrent" digest) means the difference is not an
			// effect of sharing.
			if solo2[p] == nil {
				for k := 0; k < extraSoloRuns; k++ {
					solo2[p] = append(solo2[p], runProgram(e, cs.Seed, rs.Round, p, nil, 0))
				}
			}
			fk, fid := fontName(s.Fonts[i])
			m := mismatch{Goroutine: g, Program: p, Op: i, Kind: opName[s.Kinds[i]], FontKind: fk, Font: fid,
				Solo: s.Digests[i], Conc: res.Digests[i]}
			for _, s2 := range solo2[p] {
				for j := 0; j <= i && j < len(s2.Digests); j++ {
					if s2.Digests[j] != s.Digests[j] {
						m.NonDet = true
					}
				}
			}
			r.Mismatches = append(r.Mismatches, m)
		}
		sort.Slice(r.Mismatches, func(i, j int) bool { return r.Mismatches[i].Goroutine < r.Mismatches[j].Goroutine })
		r.MismatchTotal = len(r.Mismatches)
		if len(r.Mismatches) > 8 {
			r.Mismatches = r.Mismatches[:8]
		}
		r.SoloMs = time.Since(t2).Milliseconds()
	}
	r.LogEnd = logSize()
	return r
}

// probeFace screens a corpus face before it may be drawn for a round, on a
// private parse and a single goroutine: a fixed series of shapings with texts
// from the face's own cmap. Faces on which the shaper multiplies the input
// (the upstream budget-exhaustion tests, e.g. a morx insertion loop that fills
// the buffer up to its 16384-glyph budget) would make a 64-goroutine round
// under the race detector last for minutes; they are excluded from the
// workload (that behaviour is C01's subject). The criterion is the output
// length, not time, so the selection is deterministic.
func probeFace(id faceID) (flag string, maxRatio int) {
	info := getScout(id)
	if !info.OK || len(info.Runes) < 1 {
		return "unusable", 0
	}
	ft, _, err := loadFace(id)
	if err != nil {
		return "unusable", 0
	}
	e := &env{fonts: []*sharedFont{{Slot: 0, Kind: "probe", ID: id, Info: info, Font: ft}}}
	g := &gstate{e: e, rng: gen.New(1, "C17/probe", 0), res: &result{}}
	g.faces = make([]*font.Face, 1)
	g.hbFonts = make([]*harfbuzz.Font, 1)
	n := 24
	if len(ft.Morx) > 0 {
		n = 64
	}
	for i := 0; i < n; i++ {
		in := g.shapeInput(0)
		nOut := 0
		func() {
			defer func() { recover() }()
			out := g.shaper.Shape(in)
			nOut = len(out.Glyphs)
		}()
		if r := nOut / (len(in.Text) + 1); r > maxRatio {
			maxRatio = r
		}
		if nOut > probeBlowupFactor*len(in.Text)+64 {
			return "blowup", maxRatio
		}
	}
	return "", maxRatio
}

// runBarrier releases n goroutines from a start barrier, runs work(g) in each
// and returns when all have finished.
//
// Discipline of the race pass: between the start barrier and the end of
// work(g) the monitor adds no synchronisation. A goroutine that has finished
// does NOT exit: it closes its own channel and then blocks on a channel that the
// coordinator closes after it has heard from everybody. (The race detector
// drops a report when the goroutine that made the earlier of the two accesses
// has already exited and its stack can no longer be restored; keeping every
// goroutine alive until the end makes detection reliable.) The edges this adds
// are worker-end -> coordinator -> worker-after-its-end: they order nothing
// that happens inside work, so they cannot hide a race between two workers.
func runBarrier(n int, work func(g int)) {
	start := make(chan struct{})
	release := make(chan struct{})
	finished := make([]chan struct{}, n)
	var exited sync.WaitGroup
	for g := 0; g < n; g++ {
		finished[g] = make(chan struct{})
		exited.Add(1)
		go func(g int, mine chan struct{}) {
			<-start
			work(g)
			close(mine)
			<-release
			exited.Done()
		}(g, finished[g])
	}
	close(start)
	for g := 0; g < n; g++ {
		<-finished[g]
	}
	close(release)
	exited.Wait()
}
