package c17

import (
	"io"
	"os"
	"sort"
	"strconv"
	"strings"
)

// goTextPrefix identifies a frame of the library under verification by its
// import path (function names do not depend on where the tree is checked out,
// so this also works for scratch worktrees). The trailing slash keeps
// "github.com/go-text/typesetting-utils/..." out.
const goTextPrefix = "github.com/go-text/typesetting/"

type frame struct {
	Fn   string `json:"fn"`
	File string `json:"file,omitempty"`
	Line int    `json:"line,omitempty"`
}

type raceStack struct {
	Header string  `json:"header"` // "Write at 0x... by goroutine 12:"
	Kind   string  `json:"kind"`   // "write" | "read" | "atomic write" ...
	Failed bool    `json:"failed"` // "[failed to restore the stack]"
	Frames []frame `json:"frames"` // innermost first
}

// raceBlock is one "WARNING: DATA RACE" report of the race detector.
type raceBlock struct {
	LogFile string      `json:"log_file"`
	Offset  int64       `json:"offset"` // byte offset of the WARNING line in the log file
	Text    string      `json:"text"`   // verbatim report
	Access  []raceStack `json:"access"` // the (usually two) conflicting accesses
	GoText  bool        `json:"go_text"`
	Key1    string      `json:"key_entry_pair"` // pair of outermost go-text frames
	Key2    string      `json:"key_stack_pair"` // both stacks, line numbers stripped
}

func isGoText(fn string) bool { return strings.HasPrefix(fn, goTextPrefix) }

// parseRaceLog splits a race detector log into report blocks.
func parseRaceLog(path string) ([]raceBlock, error) {
	f, err := os.Open(path)
	if err != nil {
		return nil, err
	}
	defer f.Close()
	// a log is at most maxRaceLogBytes (+ what was written before the kill)
	b, err := io.ReadAll(io.LimitReader(f, 64<<20))
	if err != nil {
		return nil, err
	}
	return parseRaceText(path, string(b)), nil
}

func parseRaceText(path, s string) []raceBlock {
	var out []raceBlock
	off := 0
	var cur []string
	curOff := int64(-1)
	flush := func() {
		if curOff >= 0 {
			out = append(out, buildBlock(path, curOff, cur))
		}
		cur, curOff = nil, -1
	}
	for len(s) > 0 {
		k := strings.IndexByte(s, '\n')
		var line string
		adv := 0
		if k < 0 {
			line, adv = s, len(s)
		} else {
			line, adv = s[:k], k+1
		}
		t := strings.TrimRight(line, "\r")
		switch {
		case strings.HasPrefix(t, "WARNING: DATA RACE"):
			flush()
			curOff = int64(off)
			cur = append(cur, t)
		case strings.HasPrefix(t, "=================="):
			flush()
		default:
			if curOff >= 0 {
				cur = append(cur, t)
			}
		}
		s = s[adv:]
		off += adv
	}
	flush()
	return out
}

func buildBlock(path string, off int64, lines []string) raceBlock {
	blk := raceBlock{LogFile: path, Offset: off, Text: strings.Join(lines, "\n")}
	// sections are separated by empty lines
	var sections [][]string
	var sec []string
	for _, l := range lines[1:] {
		if strings.TrimSpace(l) == "" {
			if len(sec) > 0 {
				sections = append(sections, sec)
				sec = nil
			}
			continue
		}
		sec = append(sec, l)
	}
	if len(sec) > 0 {
		sections = append(sections, sec)
	}
	for _, sc := range sections {
		h := sc[0]
		if !(strings.Contains(h, " at 0x") && strings.Contains(h, " by ")) {
			continue // "Goroutine N (running) created at:" and anything else
		}
		st := raceStack{Header: strings.TrimSpace(h)}
		lh := strings.ToLower(st.Header)
		lh = strings.TrimPrefix(lh, "previous ")
		if k := strings.Index(lh, " at 0x"); k > 0 {
			st.Kind = lh[:k]
		}
		for i := 1; i < len(sc); i++ {
			l := sc[i]
			if strings.Contains(l, "failed to restore the stack") {
				st.Failed = true
				continue
			}
			if strings.HasPrefix(l, "      ") { // location line without a function line: ignore
				continue
			}
			fn := strings.TrimSpace(l)
			if k := strings.LastIndex(fn, "("); k > 0 && strings.HasSuffix(fn, ")") {
				fn = fn[:k]
			}
			fr := frame{Fn: fn}
			if i+1 < len(sc) && strings.HasPrefix(sc[i+1], "      ") {
				loc := strings.TrimSpace(sc[i+1])
				if k := strings.Index(loc, " +0x"); k > 0 {
					loc = loc[:k]
				}
				if k := strings.LastIndex(loc, ":"); k > 0 {
					fr.File = loc[:k]
					fr.Line, _ = strconv.Atoi(loc[k+1:])
				} else {
					fr.File = loc
				}
				i++
			}
			st.Frames = append(st.Frames, fr)
		}
		blk.Access = append(blk.Access, st)
	}
	var k1, k2 []string
	for _, st := range blk.Access {
		entry := ""
		var fns []string
		for _, fr := range st.Frames {
			fns = append(fns, fr.Fn)
			if isGoText(fr.Fn) {
				blk.GoText = true
				entry = fr.Fn // frames are innermost first: the last one wins = outermost
			}
		}
		switch {
		case entry != "":
		case st.Failed:
			entry = "(stack not restored)"
		default:
			entry = "(no go-text frame)"
		}
		k1 = append(k1, strings.TrimPrefix(entry, goTextPrefix))
		full := st.Kind + ": " + strings.Join(fns, " < ")
		if st.Failed {
			full = st.Kind + ": (stack not restored)"
		}
		k2 = append(k2, strings.ReplaceAll(full, goTextPrefix, ""))
	}
	sort.Strings(k1)
	sort.Strings(k2)
	blk.Key1 = strings.Join(k1, " | ")
	blk.Key2 = strings.Join(k2, " || ")
	return blk
}

// innermostGoText returns the innermost go-text frame of each access stack
// ("where the access happened"), for messages.
func (b *raceBlock) innermostGoText() []string {
	var out []string
	for _, st := range b.Access {
		got := "(none)"
		for _, fr := range st.Frames {
			if isGoText(fr.Fn) {
				got = st.Kind + " in " + strings.TrimPrefix(fr.Fn, goTextPrefix) + " " + shortFile(fr.File) + ":" + strconv.Itoa(fr.Line)
				break
			}
		}
		out = append(out, got)
	}
	return out
}

func shortFile(p string) string {
	if k := strings.Index(p, "/font/"); k >= 0 {
		return p[k+1:]
	}
	for _, d := range []string{"/harfbuzz/", "/shaping/", "/fontscan/", "/segmenter/", "/language/", "/unicodedata/", "/di/"} {
		if k := strings.LastIndex(p, d); k >= 0 {
			return p[k+1:]
		}
	}
	return p
}
