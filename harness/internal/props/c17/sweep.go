package c17

import (
	"sort"

	"github.com/go-text/typesetting/font"
	"github.com/go-text/typesetting/fontscan"
)

// The all-fonts metadata sweep (third pass, inside the race-detector build).
//
// The random rounds draw about a dozen fonts each, so a defect that needs one
// particular corpus font AND a query that only a few operations make (a write
// into the shared font on the first Describe of a legacy-weight font, say) can
// go unvisited for many rounds. The sweep visits EVERY corpus face once: parse
// it fresh, release sweepGoroutines goroutines from the barrier, each running
// the same fixed list of cheap read-only queries on the shared *font.Font and
// on a private Face / private FontMap, and compare each goroutine's digests
// with the same list run alone on another fresh parse of the same file.

const sweepGoroutines = 4

var sweepQueryNames = []string{"Describe", "IsMonospace", "HasVerticalMetrics", "Upem", "NominalGlyph", "VariationGlyph",
	"GlyphName", "BitmapSizes", "NewFace+FontHExtents", "FontVExtents", "LineMetric", "HorizontalAdvance", "GlyphExtents",
	"GlyphData", "FontMap.AddFace+ResolveFace"}

// sweepQueries runs the fixed list and returns one digest per query. Panics
// are folded into the digest (they are C09's subject, not C17's).
func sweepQueries(ft *font.Font, id faceID, runes [3]rune) []uint64 {
	out := make([]uint64, 0, len(sweepQueryNames))
	var fc *font.Face
	step := func(f func(h *hasher)) {
		h := hasher(fnvOff)
		func() {
			defer func() {
				if e := recover(); e != nil {
					h.s("panic")
					h.s(panicText(e))
				}
			}()
			f(&h)
		}()
		out = append(out, uint64(h))
	}
	var md font.Description
	step(func(h *hasher) { // Describe
		md = ft.Describe()
		h.s(md.Family)
		h.u64(uint64(md.Aspect.Style))
		h.f(float32(md.Aspect.Weight))
		h.f(float32(md.Aspect.Stretch))
	})
	step(func(h *hasher) { h.b(ft.IsMonospace()) })
	step(func(h *hasher) { h.b(ft.HasVerticalMetrics()) })
	step(func(h *hasher) { h.u64(uint64(ft.Upem())) })
	step(func(h *hasher) {
		for _, r := range runes {
			g, ok := ft.NominalGlyph(r)
			h.u64(uint64(g))
			h.b(ok)
		}
	})
	step(func(h *hasher) {
		for _, sel := range []rune{0xFE0F, 0xFE00} {
			g, ok := ft.VariationGlyph(runes[0], sel)
			h.u64(uint64(g))
			h.b(ok)
		}
	})
	step(func(h *hasher) {
		for gid := font.GID(0); gid < 3; gid++ {
			h.s(ft.GlyphName(gid))
		}
	})
	step(func(h *hasher) {
		for _, bs := range ft.BitmapSizes() {
			h.u64(uint64(bs.Height)<<48 | uint64(bs.Width)<<32 | uint64(bs.XPpem)<<16 | uint64(bs.YPpem))
		}
	})
	step(func(h *hasher) {
		fc = font.NewFace(ft)
		e, ok := fc.FontHExtents()
		h.f(e.Ascender)
		h.f(e.Descender)
		h.f(e.LineGap)
		h.b(ok)
	})
	if fc == nil { // NewFace panicked: nothing more to ask
		for len(out) < len(sweepQueryNames) {
			out = append(out, 0)
		}
		return out
	}
	step(func(h *hasher) {
		e, ok := fc.FontVExtents()
		h.f(e.Ascender)
		h.f(e.Descender)
		h.f(e.LineGap)
		h.b(ok)
	})
	step(func(h *hasher) {
		for m := font.LineMetric(0); m <= font.XHeight; m++ {
			h.f(fc.LineMetric(m))
		}
	})
	step(func(h *hasher) {
		for gid := font.GID(0); gid < 3; gid++ {
			h.f(fc.HorizontalAdvance(gid))
		}
	})
	step(func(h *hasher) {
		for gid := font.GID(0); gid < 3; gid++ {
			e, ok := fc.GlyphExtents(gid)
			h.f(e.XBearing)
			h.f(e.YBearing)
			h.f(e.Width)
			h.f(e.Height)
			h.b(ok)
		}
	})
	step(func(h *hasher) {
		for gid := font.GID(0); gid < 3; gid++ {
			switch d := fc.GlyphData(gid).(type) {
			case font.GlyphOutline:
				h.u64(1)
				hashOutline(h, d)
			case font.GlyphBitmap:
				h.u64(2)
				h.u64(uint64(d.Format))
				h.i(d.Width)
				h.i(d.Height)
				h.bytes(d.Data)
				if d.Outline != nil {
					hashOutline(h, *d.Outline)
				}
			case font.GlyphSVG:
				h.u64(3)
				h.bytes(d.Source)
				hashOutline(h, d.Outline)
			default:
				h.u64(4)
			}
		}
	})
	step(func(h *hasher) {
		fm := fontscan.NewFontMap(nopLogger{})
		fm.AddFace(fc, fontscan.Location{File: id.File, Index: uint16(id.Index)}, md)
		fm.SetQuery(fontscan.Query{Families: []string{md.Family}})
		for _, r := range runes {
			got := fm.ResolveFace(r)
			h.b(got == fc)
		}
		fam, asp := fm.FontMetadata(ft)
		h.s(fam)
		h.f(float32(asp.Weight))
	})
	return out
}

// sweepRunes picks three mapped runes on the PRIVATE reference parse (the
// three smallest of the first entries; the iteration order of a format 0 cmap
// is not fixed, its size is at most 256).
func sweepRunes(ft *font.Font) (out [3]rune) {
	out = [3]rune{'a', '0', 0x4E00}
	defer func() { recover() }()
	var rs []rune
	it := ft.Cmap.Iter()
	for len(rs) < 300 && it.Next() {
		r, _ := it.Char()
		rs = append(rs, r)
	}
	sort.Slice(rs, func(i, j int) bool { return rs[i] < rs[j] })
	for i := 0; i < 3 && i < len(rs); i++ {
		out[i] = rs[i*(len(rs)-1)/2]
	}
	return out
}

func sweepFace(id faceID, rep int, logSize func() int64) rec {
	n := sweepGoroutines
	if rep%2 == 1 {
		n = 2 // odd repetitions: two goroutines only (fewer accesses competing for the detector's per-word history)
	}
	r := rec{Type: "sface", Face: id.String(), Rep: rep, N: n, LogBegin: logSize()}
	ref, _, err := loadFace(id)
	if err != nil {
		r.Flag = "unusable"
		r.LogEnd = logSize()
		return r
	}
	runes := sweepRunes(ref)
	alone := sweepQueries(ref, id, runes)
	// the shared object: a fresh parse nobody has queried yet
	shared, _, err := loadFace(id)
	if err != nil {
		r.Flag = "unusable"
		r.LogEnd = logSize()
		return r
	}
	results := make([][]uint64, n)
	runBarrier(n, func(g int) {
		results[g] = sweepQueries(shared, id, runes)
	})
	r.Ops = int64((n + 1) * len(sweepQueryNames))
	var alone2 []uint64
	for g, res := range results {
		for q := range alone {
			if q < len(res) && res[q] == alone[q] {
				continue
			}
			if alone2 == nil {
				if ref2, _, err := loadFace(id); err == nil {
					alone2 = sweepQueries(ref2, id, runes)
				}
			}
			m := mismatch{Goroutine: g, Program: 0, Op: q, Kind: "sweep:" + sweepQueryNames[q], FontKind: "sweep", Font: id.String(), Solo: alone[q]}
			if q < len(res) {
				m.Conc = res[q]
			}
			if alone2 == nil || q >= len(alone2) || alone2[q] != alone[q] {
				m.NonDet = true
			}
			r.Mismatches = append(r.Mismatches, m)
			break // first differing query of this goroutine
		}
	}
	r.MismatchTotal = len(r.Mismatches)
	r.LogEnd = logSize()
	return r
}
