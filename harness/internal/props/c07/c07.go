// Package c07 monitors "Itemization partitions the text into uniform runs".
//
// Events: the []Input returned by (*shaping.Segmenter).Split, shaping.SplitByFace
// and shaping.SplitByFontGlyphs, and the calls they make on the harness's Fontmap
// (SetScript / ResolveFace, with arguments, in order).
// Oracle: partition, same-slice, level-parity (reference UBA levels from a copy of
// the x/text core, internal/ref/bidi), specific-script uniformity, vertical
// orientation, face, Fontmap protocol, language and history laws. See DESIGN §6 C07.
package c07

import (
	"fmt"
	"strings"
	"sync"
	"unicode"

	"github.com/go-text/typesetting/di"
	"github.com/go-text/typesetting/font"
	ot "github.com/go-text/typesetting/font/opentype"
	"github.com/go-text/typesetting/harfbuzz"
	"github.com/go-text/typesetting/language"
	"github.com/go-text/typesetting/shaping"
	"github.com/go-text/typesetting/unicodedata"
	"golang.org/x/image/math/fixed"

	"verifharness/internal/corpus"
	"verifharness/internal/gen"
	refbidi "verifharness/internal/ref/bidi"
	"verifharness/internal/vrun"
)

// ---- witness -----------------------------------------------------------------

// FontmapSpec describes a harness Fontmap: a pure function F(script hint, rune)
// over K faces.
type FontmapSpec struct {
	Kind       string `json:"kind"` // one | script | runehash | hintrune | cmap
	K          int    `json:"k"`
	Seed       uint64 `json:"seed"`
	WithScript bool   `json:"with_script"` // implements shaping.FontmapScript
}

// Op is one call.
type Op struct {
	API       string      `json:"api"` // Split | SplitByFace | SplitByFontGlyphs
	Text      []rune      `json:"text"`
	RunStart  int         `json:"run_start"`
	RunEnd    int         `json:"run_end"`
	Direction uint8       `json:"direction"`
	Lang      string      `json:"lang"`
	Script    uint32      `json:"script,omitempty"` // input script (face-only entry points)
	Size      int         `json:"size"`
	NFeat     int         `json:"nfeat"`
	Face      int         `json:"face"` // index of the dummy face put in Input.Face, -1 = nil
	FM        FontmapSpec `json:"fontmap"`
}

// Witness is a history of calls; the Split calls share one Segmenter.
type Witness struct {
	Ops  []Op   `json:"ops"`
	Note string `json:"note,omitempty"`
}

// ---- faces ---------------------------------------------------------------------

const nDummy = 6

var realFaceIDs = []string{"repo/Roboto-Regular.ttf", "repo/Amiri-Regular.ttf", "sys/DejaVuSans.ttf", "repo/UbuntuMono-R.ttf"}

var (
	facesOnce sync.Once
	dummy     []*font.Face // distinct Face values over one Font: identity is all that matters
	realFaces []*font.Face
)

func loadFaces() {
	facesOnce.Do(func() {
		for _, id := range realFaceIDs {
			f := corpus.ByID(id)
			if f == nil {
				panic("C07: corpus font missing: " + id)
			}
			fs, err := f.Fonts()
			if err != nil || len(fs) == 0 {
				panic("C07: cannot load " + id)
			}
			realFaces = append(realFaces, font.NewFace(fs[0]))
		}
		for i := 0; i < nDummy; i++ {
			dummy = append(dummy, font.NewFace(realFaces[i%2].Font))
		}
	})
}

func faceName(f *font.Face) string {
	if f == nil {
		return "nil"
	}
	for i, d := range dummy {
		if d == f {
			return fmt.Sprintf("D%d", i)
		}
	}
	for i, d := range realFaces {
		if d == f {
			return fmt.Sprintf("R%d", i)
		}
	}
	return fmt.Sprintf("?%p", f)
}

// ---- recording Fontmap -----------------------------------------------------------

type event struct {
	set    bool
	script language.Script // SetScript argument
	r      rune            // ResolveFace argument
	hint   language.Script // hint in force at ResolveFace time
}

type recFM struct {
	spec  FontmapSpec
	faces []*font.Face
	hint  language.Script
	ev    []event
}

func mix64(x uint64) uint64 {
	x ^= x >> 33
	x *= 0xff51afd7ed558ccd
	x ^= x >> 33
	x *= 0xc4ceb9fe1a85ec53
	x ^= x >> 33
	return x
}

// pick is the pure function F(hint, rune) of the Fontmap.
func (m *recFM) pick(hint language.Script, r rune) *font.Face {
	k := uint64(len(m.faces))
	switch m.spec.Kind {
	case "one":
		return m.faces[0]
	case "script":
		return m.faces[mix64(m.spec.Seed^uint64(language.LookupScript(r)))%k]
	case "runehash":
		return m.faces[mix64(m.spec.Seed^uint64(uint32(r))*0x9E3779B97F4A7C15)%k]
	case "hintrune":
		return m.faces[mix64(m.spec.Seed^uint64(uint32(r))*0x9E3779B97F4A7C15^uint64(hint)<<32)%k]
	case "cmap": // first face whose cmap has the rune, else the first face
		for _, f := range m.faces {
			if _, ok := f.Font.Cmap.Lookup(r); ok {
				return f
			}
		}
		return m.faces[0]
	}
	panic("bad fontmap kind " + m.spec.Kind)
}

func (m *recFM) ResolveFace(r rune) *font.Face {
	m.ev = append(m.ev, event{r: r, hint: m.hint})
	return m.pick(m.hint, r)
}

type recFMScript struct{ *recFM }

func (m recFMScript) SetScript(s language.Script) {
	m.hint = s
	m.ev = append(m.ev, event{set: true, script: s})
}

func newFM(spec FontmapSpec) *recFM {
	m := &recFM{spec: spec}
	if spec.Kind == "cmap" {
		// a seed-dependent rotation of the real faces
		for i := 0; i < spec.K; i++ {
			m.faces = append(m.faces, realFaces[(int(spec.Seed%uint64(len(realFaces)))+i)%len(realFaces)])
		}
	} else {
		for i := 0; i < spec.K; i++ {
			m.faces = append(m.faces, dummy[(int(spec.Seed%nDummy)+i)%nDummy])
		}
	}
	return m
}

func (m *recFM) asFontmap() shaping.Fontmap {
	if m.spec.WithScript {
		return recFMScript{m}
	}
	return m
}

// ---- the documented set of runes that do not select a font -----------------------

func ignorable(r rune) bool {
	return unicode.Is(unicode.Cc, r) || unicode.Is(unicode.Cs, r) || unicode.Is(unicode.Zl, r) ||
		unicode.Is(unicode.Zp, r) || (unicode.Is(unicode.Zs, r) && r != 0x1680) || harfbuzz.IsDefaultIgnorable(r)
}

// ---- running one op ------------------------------------------------------------------

func (op *Op) input() shaping.Input {
	in := shaping.Input{
		Text:      append(make([]rune, 0, len(op.Text)+2), op.Text...), // fresh slice, spare capacity
		RunStart:  op.RunStart,
		RunEnd:    op.RunEnd,
		Direction: di.Direction(op.Direction),
		Language:  language.Language(op.Lang),
		Script:    language.Script(op.Script),
		Size:      fixed.Int26_6(op.Size),
	}
	if op.NFeat > 0 {
		in.FontFeatures = make([]shaping.FontFeature, op.NFeat)
		for i := range in.FontFeatures {
			in.FontFeatures[i] = shaping.FontFeature{Tag: ot.Tag(0x6c696761 + i), Value: uint32(i + 1)}
		}
	}
	if op.Face >= 0 {
		in.Face = dummy[op.Face%nDummy]
	}
	return in
}

// call runs op on seg (Split) or the package level function.
func call(op *Op, in shaping.Input, seg *shaping.Segmenter, m *recFM) (out []shaping.Input, pv any, where string) {
	pv, where = vrun.Catch(func() {
		switch op.API {
		case "Split":
			out = seg.Split(in, m.asFontmap())
		case "SplitByFace":
			out = shaping.SplitByFace(in, m.asFontmap())
		case "SplitByFontGlyphs":
			out = shaping.SplitByFontGlyphs(in, m.faces)
		default:
			panic("bad api " + op.API)
		}
	})
	return
}

func sameSlice[T any](a, b []T) bool {
	if len(a) != len(b) {
		return false
	}
	if len(a) == 0 {
		return true
	}
	return &a[0] == &b[0]
}

func cloneRuns(out []shaping.Input) []shaping.Input { return append([]shaping.Input(nil), out...) }

func eqRun(a, b shaping.Input) bool {
	return sameSlice(a.Text, b.Text) && a.RunStart == b.RunStart && a.RunEnd == b.RunEnd && a.Direction == b.Direction &&
		a.Face == b.Face && sameSlice(a.FontFeatures, b.FontFeatures) && a.Size == b.Size && a.Script == b.Script && a.Language == b.Language
}

func eqRuns(a, b []shaping.Input) bool {
	if len(a) != len(b) {
		return false
	}
	for i := range a {
		if !eqRun(a[i], b[i]) {
			return false
		}
	}
	return true
}

func fmtRuns(out []shaping.Input) string {
	var sb strings.Builder
	for _, o := range out {
		fmt.Fprintf(&sb, "[%d,%d dir=%d %s %q %s] ", o.RunStart, o.RunEnd, uint8(o.Direction), o.Script, string(o.Language), faceName(o.Face))
	}
	return sb.String()
}

func fmtEvents(ev []event) string {
	var sb strings.Builder
	for i, e := range ev {
		if i > 40 {
			sb.WriteString("…")
			break
		}
		if e.set {
			fmt.Fprintf(&sb, "Set(%s) ", e.script)
		} else {
			fmt.Fprintf(&sb, "R(%U) ", e.r)
		}
	}
	return sb.String()
}

func eqEvents(a, b []event) bool {
	if len(a) != len(b) {
		return false
	}
	for i := range a {
		if a[i] != b[i] {
			return false
		}
	}
	return true
}

// ---- the laws -----------------------------------------------------------------------

type fail struct{ law, msg string }

// stats describes what a judged call exercised (for the evidence file).
type stats struct {
	runs         int
	rtlRuns      int
	ltrRuns      int
	scripts      int
	orientMixed  bool
	reading      string
	x9Skipped    int
	hasParaSep   bool
	hasBracket   bool
	bracketPairs int // matched bracket pairs the bracket law judged
	langChanged  bool
	inherited    int // runs without specific-script rune whose script is not Common
	faces        int
	ignOnlyRuns  int
}

func maskProgression(d di.Direction) di.Direction {
	d.SetProgression(di.FromTopLeft)
	return d
}

func expectLang(in language.Language, s language.Script) language.Language {
	l := in
	if l == "" {
		l = "en"
	}
	id, ok := language.NewLangID(l)
	if !ok {
		return in // unknown to the library: documented as left untouched
	}
	if id.UseScript(s) {
		return id.Language()
	}
	if r := language.ScriptToLang[s]; r != 0 {
		return r.Language()
	}
	return id.Language()
}

// checkLaws judges one call. textCopy / featCopy are copies taken before the call.
func checkLaws(op *Op, in shaping.Input, textCopy []rune, featCopy []shaping.FontFeature, out []shaping.Input, m *recFM) (fs []fail, st stats) {
	add := func(law, format string, a ...any) { fs = append(fs, fail{law, fmt.Sprintf(format, a...)}) }

	// caller data untouched
	for i := range textCopy {
		if in.Text[i] != textCopy[i] {
			add("text-modified", "Text[%d] changed from %U to %U", i, textCopy[i], in.Text[i])
			break
		}
	}
	for i := range featCopy {
		if in.FontFeatures[i] != featCopy[i] {
			add("features-modified", "FontFeatures[%d] changed", i)
			break
		}
	}

	// --- partition
	st.runs = len(out)
	if in.RunStart >= in.RunEnd {
		if len(out) != 1 {
			add("partition-empty", "empty range [%d,%d): %d runs returned, want the single unchanged run", in.RunStart, in.RunEnd, len(out))
		} else if out[0].RunStart != in.RunStart || out[0].RunEnd != in.RunEnd {
			add("partition-empty", "empty range [%d,%d) returned as [%d,%d)", in.RunStart, in.RunEnd, out[0].RunStart, out[0].RunEnd)
		}
	} else {
		if len(out) == 0 {
			add("partition", "no run returned for [%d,%d)", in.RunStart, in.RunEnd)
			return
		}
		pos := in.RunStart
		for i, o := range out {
			if o.RunStart != pos {
				add("partition", "run %d starts at %d, want %d (runs: %s)", i, o.RunStart, pos, fmtRuns(out))
				return
			}
			if o.RunEnd <= o.RunStart {
				add("partition", "run %d is empty or inverted [%d,%d) (runs: %s)", i, o.RunStart, o.RunEnd, fmtRuns(out))
				return
			}
			if o.RunEnd > in.RunEnd {
				add("partition", "run %d ends at %d beyond RunEnd %d (runs: %s)", i, o.RunEnd, in.RunEnd, fmtRuns(out))
				return
			}
			pos = o.RunEnd
		}
		if pos != in.RunEnd {
			add("partition", "runs end at %d, want %d (runs: %s)", pos, in.RunEnd, fmtRuns(out))
			return
		}
	}
	// --- untouched fields
	for i, o := range out {
		if !sameSlice(o.Text, in.Text) {
			add("text-slice", "run %d: Text is not the input slice (len %d vs %d)", i, len(o.Text), len(in.Text))
		}
		if o.Size != in.Size {
			add("size", "run %d: Size %d, want %d", i, o.Size, in.Size)
		}
		if !sameSlice(o.FontFeatures, in.FontFeatures) || (in.FontFeatures == nil) != (o.FontFeatures == nil) {
			add("features", "run %d: FontFeatures is not the input slice", i)
		}
	}
	if len(fs) > 0 {
		return
	}
	if in.RunStart >= in.RunEnd {
		return
	}

	split := op.API == "Split"
	inDir := in.Direction

	// --- direction: axis and orientation
	for i, o := range out {
		if !split {
			if o.Direction != inDir {
				add("face-only/direction", "run %d: Direction %d, want the input's %d", i, uint8(o.Direction), uint8(inDir))
			}
			if o.Script != in.Script {
				add("face-only/script", "run %d: Script %s, want the input's %s", i, o.Script, in.Script)
			}
			if o.Language != in.Language {
				add("face-only/language", "run %d: Language %q, want the input's %q", i, string(o.Language), string(in.Language))
			}
			continue
		}
		if o.Direction.IsVertical() != inDir.IsVertical() {
			add("axis", "run %d: axis differs from the input's (run dir %d, input dir %d)", i, uint8(o.Direction), uint8(inDir))
			continue
		}
		if inDir.IsVertical() && !inDir.HasVerticalOrientation() {
			if !o.Direction.HasVerticalOrientation() {
				add("orientation", "run %d [%d,%d): vertical orientation not resolved (dir %d)", i, o.RunStart, o.RunEnd, uint8(o.Direction))
				continue
			}
			vo := scanVerticalOrientation(o.Script)
			for k := o.RunStart; k < o.RunEnd; k++ {
				if want := vo.Orientation(in.Text[k]); want != o.Direction.IsSideways() {
					add("orientation", "run %d [%d,%d) script %s sideways=%v holds %U at %d whose orientation is sideways=%v",
						i, o.RunStart, o.RunEnd, o.Script, o.Direction.IsSideways(), in.Text[k], k, want)
					break
				}
			}
		} else if maskProgression(o.Direction) != maskProgression(inDir) {
			add("orientation-copied", "run %d: direction bits %d, want the input's %d apart from the progression", i, uint8(o.Direction), uint8(inDir))
		}
	}
	if split {
		o0 := out[0].Direction.IsSideways()
		for _, o := range out {
			if o.Direction.IsSideways() != o0 {
				st.orientMixed = true
			}
		}
	}

	// --- bidi level parity
	if split {
		fs = append(fs, checkLevels(in, out, &st)...)
	}
	for _, o := range out {
		if o.Direction.Progression() == di.TowardTopLeft {
			st.rtlRuns++
		} else {
			st.ltrRuns++
		}
	}

	// --- script
	if split {
		inRange := map[language.Script]bool{}
		for k := in.RunStart; k < in.RunEnd; k++ {
			if s := language.LookupScript(in.Text[k]); s.Strong() {
				inRange[s] = true
			}
		}
		seen := map[language.Script]bool{}
		for i, o := range out {
			seen[o.Script] = true
			specific := false
			for k := o.RunStart; k < o.RunEnd; k++ {
				s := language.LookupScript(in.Text[k])
				if !s.Strong() {
					continue
				}
				specific = true
				if s != o.Script {
					add("script-uniformity", "run %d [%d,%d) has script %s but holds %U (%s) at %d (runs: %s)", i, o.RunStart, o.RunEnd, o.Script, in.Text[k], s, k, fmtRuns(out))
					break
				}
			}
			if !specific && o.Script != language.Common {
				st.inherited++
				if !inRange[o.Script] {
					add("script-inherited", "run %d [%d,%d) holds no rune with a specific script and has script %s, which no rune of [%d,%d) has", i, o.RunStart, o.RunEnd, o.Script, in.RunStart, in.RunEnd)
				}
			}
		}
		st.scripts = len(seen)
		bf, np := bracketLaw(in, out)
		fs = append(fs, bf...)
		st.bracketPairs = np
	}

	// --- language
	if split {
		for i, o := range out {
			if want := expectLang(in.Language, o.Script); o.Language != want {
				add("language", "run %d: script %s, input language %q: got %q, documented resolution gives %q", i, o.Script, string(in.Language), string(o.Language), string(want))
			}
			if o.Language != in.Language {
				st.langChanged = true
			}
		}
	}

	// --- Fontmap protocol: ResolveFace once, in order, for every rune that may
	// select a font; with script support, under SetScript(run.Script).
	scriptAt := func(k int) language.Script {
		for _, o := range out {
			if k >= o.RunStart && k < o.RunEnd {
				return o.Script
			}
		}
		return 0
	}
	hintAt := map[int]language.Script{} // hint in force when ResolveFace was called for the rune at a position
	if op.API != "SplitByFontGlyphs" {
		p := in.RunStart
		for _, e := range m.ev {
			if e.set {
				continue
			}
			q := p
			found := false
			for ; q < in.RunEnd; q++ {
				if in.Text[q] == e.r && (!split || !m.spec.WithScript || scriptAt(q) == e.hint) {
					found = true
					break
				}
				if !ignorable(in.Text[q]) {
					break
				}
			}
			if !found {
				if q < in.RunEnd && in.Text[q] == e.r {
					add("fontmap/setscript", "ResolveFace(%U) for the rune at %d was called under script hint %s, the run's script is %s (calls: %s)", e.r, q, e.hint, scriptAt(q), fmtEvents(m.ev))
				} else {
					add("fontmap/resolve-order", "ResolveFace(%U) does not correspond to the next rune that may select a font (position %d) (calls: %s)", e.r, q, fmtEvents(m.ev))
				}
				p = -1
				break
			}
			hintAt[q] = e.hint
			p = q + 1
		}
		if p >= 0 {
			for ; p < in.RunEnd; p++ {
				if !ignorable(in.Text[p]) {
					add("fontmap/resolve-missing", "ResolveFace was not called for %U at %d, which may select a font", in.Text[p], p)
					break
				}
			}
		}
	}
	// --- face
	faces := map[*font.Face]bool{}
	for i, o := range out {
		faces[o.Face] = true
		if o.Face == nil {
			add("face-nil", "run %d [%d,%d) has a nil Face", i, o.RunStart, o.RunEnd)
			continue
		}
		all := true
		for k := o.RunStart; k < o.RunEnd; k++ {
			r := in.Text[k]
			if ignorable(r) {
				continue
			}
			all = false
			// Split with script support: the hint must be the run's script (the
			// protocol law above checks that it was). Otherwise the Fontmap
			// answers under whatever hint was in force at the call.
			hint := o.Script
			if !split || !m.spec.WithScript {
				hint = hintAt[k]
			}
			if want := m.pick(hint, r); want != o.Face {
				add("face", "run %d [%d,%d) script %s has face %s but F(%s,%U)=%s for the rune at %d", i, o.RunStart, o.RunEnd, o.Script, faceName(o.Face), hint, r, faceName(want), k)
				break
			}
		}
		if all {
			st.ignOnlyRuns++
		}
	}
	st.faces = len(faces)

	return
}

func isX9Removed(r rune) bool {
	p, _ := refbidi.LookupRune(r)
	switch p.Class() {
	case refbidi.LRE, refbidi.RLE, refbidi.LRO, refbidi.RLO, refbidi.PDF, refbidi.BN:
		return true
	}
	return false
}

func isParaSep(r rune) bool {
	p, _ := refbidi.LookupRune(r)
	return p.Class() == refbidi.B
}

func isBracket(r rune) bool {
	p, _ := refbidi.LookupRune(r)
	return p.IsBracket()
}

// checkLevels compares the progression of every run with the parity of the
// reference embedding levels of Text[RunStart:RunEnd].
func checkLevels(in shaping.Input, out []shaping.Input, st *stats) (fs []fail) {
	sub := in.Text[in.RunStart:in.RunEnd]
	n := len(sub)
	obs := make([]int8, n)
	for _, o := range out {
		p := int8(0)
		if o.Direction.Progression() == di.TowardTopLeft {
			p = 1
		}
		for k := o.RunStart; k < o.RunEnd; k++ {
			obs[k-in.RunStart] = p
		}
	}
	skip := make([]bool, n)
	firstB := n
	for i, r := range sub {
		if isX9Removed(r) {
			skip[i] = true
			st.x9Skipped++
		}
		if isBracket(r) {
			st.hasBracket = true
		}
		if firstB == n && isParaSep(r) {
			firstB = i
			st.hasParaSep = true
		}
	}
	rtl := in.Direction.Progression() == di.TowardTopLeft
	forced, auto := refbidi.ForceLTR, refbidi.AutoLTR
	if rtl {
		forced, auto = refbidi.ForceRTL, refbidi.AutoRTL
	}
	match := func(lv []int8, lo, hi int) int {
		for i := lo; i < hi; i++ {
			if !skip[i] && lv[i]&1 != obs[i] {
				return i
			}
		}
		return -1
	}
	lvF := refbidi.Levels(sub, forced, true)
	lvA := refbidi.Levels(sub, auto, true)
	mF, mA := match(lvF, 0, n), match(lvA, 0, n)
	switch {
	case mF < 0 && mA < 0:
		st.reading = "both"
	case mF < 0:
		st.reading = "forced"
	case mA < 0:
		st.reading = "first-strong"
	}
	if mF < 0 || mA < 0 {
		return nil
	}
	// Refuted under both readings of the paragraph level. Attribute the
	// deviation to a class: (a) bracket pairs never resolved (rule N0 skipped),
	// (b) text from the first paragraph separator on not resolved at all.
	at := mF
	if mA > at {
		at = mA
	}
	describe := func() string {
		var sb strings.Builder
		fmt.Fprintf(&sb, "Text[%d:%d]=%+q paragraph direction %s: ", in.RunStart, in.RunEnd, string(sub), map[bool]string{false: "LTR", true: "RTL"}[rtl])
		fmt.Fprintf(&sb, "run progressions (0=LTR,1=RTL) %v; reference levels forced %v / first-strong %v; first disagreement under both readings at or before index %d (%U)", obs, lvF, lvA, at, sub[at])
		return sb.String()
	}
	noN0 := match(refbidi.Levels(sub, forced, false), 0, n) < 0 || match(refbidi.Levels(sub, auto, false), 0, n) < 0
	if noN0 {
		return []fail{{"bidi/bracket-pairs-unresolved", "levels equal UAX#9 without rule N0 (bracket pairs): " + describe()}}
	}
	if firstB < n {
		// does the first paragraph alone agree, and is everything from the
		// separator on lumped with the last run before it?
		tail := true
		for i := firstB; i < n; i++ {
			want := obs[i]
			if firstB > 0 {
				want = obs[firstB-1]
			}
			if obs[i] != want {
				tail = false
			}
		}
		head := sub[:firstB]
		okN0, okNoN0 := true, true
		if firstB > 0 {
			okN0 = match(refbidi.Levels(head, forced, true), 0, firstB) < 0 || match(refbidi.Levels(head, auto, true), 0, firstB) < 0
			okNoN0 = match(refbidi.Levels(head, forced, false), 0, firstB) < 0 || match(refbidi.Levels(head, auto, false), 0, firstB) < 0
		}
		if tail && okN0 {
			return []fail{{"bidi/after-paragraph-separator", fmt.Sprintf("the text from the first paragraph separator (index %d, %U) on is given the direction of the run before it instead of being resolved as a paragraph of its own: %s", firstB, sub[firstB], describe())}}
		}
		if tail && okNoN0 {
			return []fail{
				{"bidi/after-paragraph-separator", fmt.Sprintf("the text from the first paragraph separator (index %d) on is not resolved (and bracket pairs before it are not): %s", firstB, describe())},
				{"bidi/bracket-pairs-unresolved", "first paragraph equals UAX#9 without rule N0; text after the separator not resolved: " + describe()},
			}
		}
	}
	return []fail{{"level-parity", describe()}}
}

// ---- judging a history ---------------------------------------------------------------

type opResult struct {
	fails []fail
	st    stats
	out   []shaping.Input
}

// judgeHistory runs the ops; Split ops share one Segmenter. It returns, per op,
// the laws that failed.
func judgeHistory(w Witness) []opResult {
	loadFaces()
	res := make([]opResult, len(w.Ops))
	var reused shaping.Segmenter
	var prevOut, prevCopy []shaping.Input // last Split result of the reused segmenter and its copy
	prevIdx := -1
	for i := range w.Ops {
		op := &w.Ops[i]
		add := func(law, format string, a ...any) {
			res[i].fails = append(res[i].fails, fail{law, fmt.Sprintf(format, a...)})
		}
		in := op.input()
		textCopy := append([]rune(nil), in.Text...)
		featCopy := append([]shaping.FontFeature(nil), in.FontFeatures...)

		// retained result still intact right before the invalidation point
		if op.API == "Split" && prevIdx >= 0 {
			if !eqRuns(prevOut, prevCopy) {
				res[prevIdx].fails = append(res[prevIdx].fails, fail{"history/retained-result", fmt.Sprintf("result of op %d changed before the next Split: was %s now %s", prevIdx, fmtRuns(prevCopy), fmtRuns(prevOut))})
			}
		}

		mR := newFM(op.FM)
		out, pv, where := call(op, in, &reused, mR)
		if pv != nil {
			add("panic", "%s panicked: %v at %s", op.API, pv, where)
			reused = shaping.Segmenter{}
			prevIdx = -1
			continue
		}
		res[i].out = cloneRuns(out)
		fs, st := checkLaws(op, in, textCopy, featCopy, out, mR)
		res[i].fails = append(res[i].fails, fs...)
		res[i].st = st

		// the same call on a fresh segmenter
		var fresh shaping.Segmenter
		mF := newFM(op.FM)
		outF, pvF, whereF := call(op, in, &fresh, mF)
		if pvF != nil {
			add("panic", "%s on a fresh Segmenter panicked: %v at %s", op.API, pvF, whereF)
		} else {
			if !eqRuns(out, outF) {
				add("history/fresh-differs", "op %d (%s): reused Segmenter returned %s, a fresh one %s", i, op.API, fmtRuns(out), fmtRuns(outF))
			}
			if !eqEvents(mR.ev, mF.ev) {
				add("history/fontmap-calls-differ", "op %d (%s): Fontmap calls on the reused Segmenter %s, on a fresh one %s", i, op.API, fmtEvents(mR.ev), fmtEvents(mF.ev))
			}
		}
		if op.API == "Split" {
			prevOut, prevCopy, prevIdx = out, cloneRuns(out), i
		}
	}
	if prevIdx >= 0 && !eqRuns(prevOut, prevCopy) {
		res[prevIdx].fails = append(res[prevIdx].fails, fail{"history/retained-result", "last result changed without any further call"})
	}
	return res
}

func dirName(d uint8) string {
	x := di.Direction(d)
	s := []string{"LTR", "RTL", "TTB", "BTT"}[d&3]
	if x.HasVerticalOrientation() {
		if x.IsSideways() {
			s += "+sideways"
		} else {
			s += "+upright"
		}
	}
	return s
}

func bucket(n int) string {
	switch {
	case n <= 3:
		return fmt.Sprint(n)
	case n <= 5:
		return "4-5"
	case n <= 9:
		return "6-9"
	}
	return "10+"
}

// report records evidence and violations for one judged history.
func report(run *vrun.Run, w Witness, res []opResult, flavour string) {
	splitsBefore := 0
	local := map[string]int64{}
	cover := func(c string) { local[c]++ }
	defer func() {
		for c, n := range local {
			run.CoverN(c, n)
		}
		run.Eval(len(w.Ops))
	}()
	for i := range w.Ops {
		op := &w.Ops[i]
		r := &res[i]
		cover("api=" + op.API)
		cover("dir=" + dirName(op.Direction))
		fk := "fontmap=" + op.FM.Kind
		if op.FM.WithScript {
			fk += "+SetScript"
		}
		if op.API != "SplitByFontGlyphs" {
			cover(fk)
		}
		cover("runs=" + bucket(r.st.runs))
		switch {
		case op.RunStart >= op.RunEnd:
			cover("range=empty")
		case op.RunStart == 0 && op.RunEnd == len(op.Text):
			cover("range=whole")
		case op.RunStart > 0:
			cover("range=RunStart>0")
		default:
			cover("range=prefix")
		}
		if flavour != "" {
			cover("text=" + flavour)
		}
		if op.API == "Split" {
			if r.st.rtlRuns > 0 && r.st.ltrRuns > 0 {
				cover("bidi=mixed-runs")
				if op.RunStart > 0 {
					cover("bidi=mixed-runs,RunStart>0")
				}
			} else if r.st.rtlRuns > 0 {
				cover("bidi=rtl-only")
			}
			if r.st.reading != "" {
				cover("level-reading-matched=" + r.st.reading)
			}
			if r.st.scripts > 1 {
				cover("script=several")
			}
			if r.st.inherited > 0 {
				cover("script=run-of-neutrals-inherits")
			}
			if r.st.orientMixed {
				cover("orientation=mixed-in-output")
			}
			if r.st.langChanged {
				cover("language=resolved-to-other")
			}
			if r.st.hasParaSep {
				cover("text-has=paragraph-separator")
			}
			if r.st.bracketPairs > 0 {
				cover("matched-bracket-pairs-judged=" + bucket(r.st.bracketPairs))
			}
			if r.st.hasBracket {
				cover("text-has=bracket")
			}
			if r.st.x9Skipped > 0 {
				cover("text-has=explicit-format-or-BN(level not judged there)")
			}
			cover("reuse=split-after-" + bucket(splitsBefore) + "-splits")
			splitsBefore++
		}
		if r.st.faces > 1 {
			cover("faces=several-in-output")
		}
		if r.st.ignOnlyRuns > 0 {
			cover("face=run-without-selecting-rune")
		}
		if op.Face >= 0 {
			cover("input.Face=set")
		}
		if r.st.runs >= 2 {
			run.Nontrivial(vrun.Hash64(op.API, op.Text, op.RunStart, op.RunEnd, op.Direction, op.Lang, op.Script, op.Face, op.FM.Kind, op.FM.K, op.FM.Seed, op.FM.WithScript))
		}
		if len(r.fails) == 0 && r.st.runs >= 3 && op.API == "Split" && len(op.Text) <= 14 && run.WantSample() {
			run.Sample(map[string]any{"api": op.API, "text": fmt.Sprintf("%+q", string(op.Text)), "range": []int{op.RunStart, op.RunEnd}, "direction": dirName(op.Direction),
				"lang": op.Lang, "fontmap": op.FM, "runs": fmtRuns(r.out)})
		}
		seen := map[string]bool{}
		for _, f := range r.fails {
			if seen[f.law] {
				continue
			}
			seen[f.law] = true
			// smallest self-contained witness: the op alone if it fails alone
			wit := Witness{Ops: []Op{*op}, Note: f.law}
			if strings.HasPrefix(f.law, "history/") {
				wit = Witness{Ops: w.Ops[:min(len(w.Ops), i+2)], Note: f.law}
			} else {
				alone := judgeHistory(wit)
				still := false
				for _, g := range alone[0].fails {
					if g.law == f.law {
						still = true
					}
				}
				if !still {
					wit = Witness{Ops: w.Ops[:i+1], Note: f.law + " (only inside this history)"}
				}
			}
			run.Violation("C07/"+f.law, fmt.Sprintf("%s %s [%d,%d) dir=%s lang=%q text=%+q: %s", op.API, f.law, op.RunStart, op.RunEnd, dirName(op.Direction), op.Lang, string(op.Text), f.msg), wit)
		}
	}
}

// Main is the entry point of the C07 monitor.
func Main() {
	run := vrun.Start("C07")
	loadFaces()
	if run.Replay != "" {
		var w Witness
		if _, err := vrun.ReadReplay(run.Replay, &w); err != nil {
			fmt.Println("replay:", err)
			run.Finish(vrun.Level{Level: "exploration", Rule: "replay (unreadable)"})
		}
		report(run, w, judgeHistory(w), "")
		run.Finish(vrun.Level{Level: "exploration", Rule: "replay"})
	}

	selfTest(run)

	// (1) short texts, every sub-range (empty ones included), one Segmenter per text
	nSmall := run.Pick(30000, 300000)
	vrun.ParallelFor(nSmall, func(i int) {
		r := gen.New(run.Seed, "C07/small", i)
		text, fl := genText(r, r.Intn(9))
		var w Witness
		for a := 0; a <= len(text); a++ {
			for b := a; b <= len(text); b++ {
				w.Ops = append(w.Ops, genOp(r, text, a, b))
			}
		}
		gen.Shuffle(r, w.Ops)
		report(run, w, judgeHistory(w), fl)
	})
	// (2) histories over longer texts with random sub-ranges
	nHist := run.Pick(300000, 3000000)
	vrun.ParallelFor(nHist, func(i int) {
		r := gen.New(run.Seed, "C07/hist", i)
		var w Witness
		k := 1 + r.Intn(8)
		fl := ""
		for j := 0; j < k; j++ {
			text, f := genText(r, r.Intn(41))
			fl = f
			a, b := genRange(r, len(text))
			w.Ops = append(w.Ops, genOp(r, text, a, b))
		}
		report(run, w, judgeHistory(w), fl)
	})

	run.Finish(vrun.Level{
		Level: "exploration",
		Rule: "streams: (1) texts of 0..8 runes x every sub-range incl. empty, shuffled, one reused Segmenter per text; (2) histories of 1..8 calls, texts of 0..40 runes, random sub-ranges; " +
			"each call draws API (Split/SplitByFace/SplitByFontGlyphs), 8 directions, 19 languages, Fontmap kind x script support, Input.Face nil or set. " +
			"non-trivial = the call returned >= 2 runs; distinct by hash of (api, text, range, direction, language, script, face, fontmap)",
		Assumptions: []string{
			"reference embedding levels: verbatim copy of golang.org/x/text v0.21.0 unicode/bidi core (UAX#9 reference port, Unicode 15 tables) with canonical bracket pair values (BD14-16); self-tested on UAX#9 examples at start",
			"both readings of the paragraph level are accepted (forced by Direction, or first strong with Direction as fallback); characters removed by X9 (LRE/RLE/LRO/RLO/PDF/BN) are not judged, their level is not normative",
			"values that are not Unicode scalar values are treated as U+FFFD by the reference (Go string conversion semantics)",
			"sub-ranges satisfy 0 <= RunStart <= RunEnd <= len(Text)",
			"neutrals: only the weak inheritance law (script Common or a script occurring in the range) is asserted; matched brackets (Unicode BidiBrackets pairs the library's delimiter table lists, properly nested, in a range that is one left-to-right bidi run): the run of the closing bracket has the script of the run of the opening one",
		},
		Floor: run.Pick(200000, 2000000),
	})
}

// selfTest checks the reference on examples whose levels are given in UAX #9,
// so that a broken reference makes the run inconclusive instead of noisy.
func selfTest(run *vrun.Run) {
	type tc struct {
		text string
		para int
		want []int8
	}
	tests := []tc{
		{"a(b)c", refbidi.ForceRTL, []int8{2, 2, 2, 2, 2}},
		{"א(ב)c", refbidi.ForceLTR, []int8{1, 1, 1, 1, 0}},
		{"a (ב) b", refbidi.ForceLTR, []int8{0, 0, 0, 1, 0, 0, 0}},
		{"אב 12 cd", refbidi.AutoLTR, []int8{1, 1, 1, 2, 2, 1, 2, 2}},
		{"", refbidi.AutoRTL, []int8{}},
		{" ", refbidi.AutoRTL, []int8{1}},
		{"a\nא", refbidi.AutoLTR, []int8{0, 0, 1}},
	}
	bad := false
	for _, t := range tests {
		got := refbidi.Levels([]rune(t.text), t.para, true)
		if fmt.Sprint(got) != fmt.Sprint(t.want) {
			bad = true
			run.Inconclusive("reference self-test failed")
			run.Note("reference self-test failed for %+q para %d: got %v want %v", t.text, t.para, got, t.want)
		}
	}
	if bad {
		run.Finish(vrun.Level{Level: "exploration", Rule: "reference self-test failed: nothing judged", Floor: 1})
	}
}

// scanVerticalOrientation is the model of unicodedata.LookupVerticalOrientation: a linear
// scan of the table (hook), so that a lookup that misses entries does not mislead the
// orientation law.
func scanVerticalOrientation(sc language.Script) unicodedata.ScriptVerticalOrientation {
	for _, e := range unicodedata.VerifUprightOrMixedScripts() {
		if s, _, _ := e.VerifFields(); s == uint32(sc) {
			return e
		}
	}
	// not listed: fully sideways, which is what the lookup documents for every other script
	return unicodedata.LookupVerticalOrientation(language.Script(0xFFFFFFFE))
}
