package c07

// Matched bracket pairs: the script itemization registers paired delimiters so
// that a closing bracket takes the script of its opening bracket ("matched
// brackets follow their context"). The pairing used by the law is Unicode's
// BidiBrackets data read from the harness copy of the x/text tables, restricted to
// pairs whose two members the library's table lists (hook VerifPairedDelims).

import (
	"fmt"
	"sync"

	"github.com/go-text/typesetting/di"
	"github.com/go-text/typesetting/shaping"

	"verifharness/internal/gen"
	refbidi "verifharness/internal/ref/bidi"
)

var (
	brOnce    sync.Once
	brCloser  map[rune]rune // opening -> closing, both listed by the library
	brIsClose map[rune]bool
	brOther   map[rune]bool // listed by the library, pairing not given by BidiBrackets (quotation marks, ...)
	brPairs   [][2]rune
)

func bracketInit() {
	brOnce.Do(func() {
		listed := map[rune]bool{}
		for _, r := range shaping.VerifPairedDelims() {
			listed[r] = true
		}
		brCloser, brIsClose, brOther = map[rune]rune{}, map[rune]bool{}, map[rune]bool{}
		inPair := map[rune]bool{}
		for _, p := range refbidi.BracketPairs() {
			if listed[p[0]] && listed[p[1]] {
				brCloser[p[0]] = p[1]
				brIsClose[p[1]] = true
				inPair[p[0]], inPair[p[1]] = true, true
				brPairs = append(brPairs, p)
			}
		}
		for r := range listed {
			if !inPair[r] {
				brOther[r] = true
			}
		}
	})
}

// bracketLaw applies when the requested range is a single left-to-right bidi run
// (no right-to-left or explicit-formatting character, no paragraph separator,
// left-to-right / top-to-bottom paragraph) whose listed delimiters are all
// BidiBrackets members and properly nested: then the run holding a closing
// bracket has the script of the run holding its opening bracket.
func bracketLaw(in shaping.Input, out []shaping.Input) (fs []fail, pairs int) {
	bracketInit()
	if p := in.Direction.Progression(); p != di.FromTopLeft {
		return nil, 0
	}
	type open struct {
		r rune
		k int
	}
	var stack []open
	var matched [][2]int
	law := "script/matched-bracket"
	for k := in.RunStart; k < in.RunEnd; k++ {
		r := in.Text[k]
		p, _ := refbidi.LookupRune(r)
		switch p.Class() {
		case refbidi.R, refbidi.AL, refbidi.AN, refbidi.B, refbidi.LRE, refbidi.RLE, refbidi.LRO, refbidi.RLO, refbidi.PDF,
			refbidi.LRI, refbidi.RLI, refbidi.FSI, refbidi.PDI:
			return nil, 0
		}
		if r >= 0x298D && r <= 0x2990 {
			// open known finding: Unicode pairs U+298D with U+2990 and U+298F with U+298E, the
			// library's table pairs adjacent code points; any failure of a text holding one
			// of these four is filed there
			law = "script/matched-bracket-crossed-pairs"
		}
		switch {
		case brOther[r]:
			return nil, 0
		case brCloser[r] != 0:
			stack = append(stack, open{r, k})
		case brIsClose[r]:
			if len(stack) == 0 || brCloser[stack[len(stack)-1].r] != r {
				return nil, 0
			}
			matched = append(matched, [2]int{stack[len(stack)-1].k, k})
			stack = stack[:len(stack)-1]
		}
	}
	if len(stack) != 0 || len(matched) == 0 {
		return nil, 0
	}
	runOf := func(k int) int {
		for i, o := range out {
			if k >= o.RunStart && k < o.RunEnd {
				return i
			}
		}
		return -1
	}
	for _, m := range matched {
		a, b := runOf(m[0]), runOf(m[1])
		if a < 0 || b < 0 {
			continue // the partition law reports that
		}
		if out[a].Script != out[b].Script {
			fs = append(fs, fail{law, fmt.Sprintf("%U at %d is in a run of script %s, its matching %U at %d in a run of script %s (runs: %s)",
				in.Text[m[0]], m[0], out[a].Script, in.Text[m[1]], m[1], out[b].Script, fmtRuns(out))})
			break
		}
	}
	return fs, len(matched)
}

var brWords = [][]rune{aLatin, aHan, aKana, aHangul, []rune("абв"), []rune("αβγ"), []rune("कखग"), []rune("กขค")}

// genBracketText builds a properly nested text over the listed bracket pairs, words of
// several left-to-right scripts between the brackets. Pair k of the list is always used.
func genBracketText(r *gen.RNG, n, k int) []rune {
	bracketInit()
	if len(brPairs) == 0 {
		return []rune("(a)")
	}
	var text []rune
	word := func() {
		w := brWords[r.Intn(len(brWords))]
		for j, m := 0, 1+r.Intn(3); j < m; j++ {
			text = append(text, w[r.Intn(len(w))])
		}
		if r.Chance(1, 4) {
			text = append(text, ' ')
		}
	}
	var nest func(depth int, first bool)
	nest = func(depth int, first bool) {
		p := brPairs[r.Intn(len(brPairs))]
		if first {
			p = brPairs[k%len(brPairs)]
		}
		text = append(text, p[0])
		if r.Chance(3, 4) {
			word()
		}
		if depth < 3 && len(text) < n && r.Chance(1, 2) {
			nest(depth+1, false)
			if r.Chance(1, 2) {
				word()
			}
		}
		text = append(text, p[1])
	}
	if r.Chance(3, 4) {
		word()
	}
	nest(0, true)
	for len(text) < n && r.Chance(2, 3) {
		word()
		if r.Chance(1, 2) {
			nest(0, false)
		}
	}
	return text
}
