package c07

import (
	"github.com/go-text/typesetting/di"

	"verifharness/internal/gen"
)

// ---- text generator --------------------------------------------------------

var (
	aLatin    = []rune("abcdeXYZ")
	aHebrew   = []rune("אבגדה")
	aArabic   = []rune("ابتثج")
	aDigit    = []rune("0123456789")
	aANDigit  = []rune("٠١٢٣") // Arabic-Indic digits (AN)
	aENDigit  = []rune("۰۱۲")  // Extended Arabic-Indic digits (EN)
	aOpen     = []rune{'(', '[', '{', '<', 0xAB, 0x2018, 0x201C, 0x2039, 0x300C, 0x300E, 0x3008, 0x2329, 0x207D, 0x2768, 0xFF08}
	aClose    = []rune{')', ']', '}', '>', 0xBB, 0x2019, 0x201D, 0x203A, 0x300D, 0x300F, 0x3009, 0x232A, 0x207E, 0x2769, 0xFF09}
	aNeutral  = []rune(" ,.!?-/:;+=*&@#%'\"")
	aNumSep   = []rune("$€%+-,./:°#")
	aHan      = []rune("漢字中文")
	aKana     = []rune("あいうアイウー")
	aCJKPunct = []rune("。、「」ＡＢ１（）〜…")
	aHangul   = []rune("한글")
	aOther    = [][]rune{[]rune("абв"), []rune("αβγ"), []rune("कखगि्"), []rune("กขค"), []rune("աբգ"), []rune("ᠠᠡᠢ"), []rune("ꡀꡁ"), []rune("ܐܒܓ"), []rune("ހށނ")}
	aMarks    = []rune{0x0301, 0x0308, 0x064B, 0x05B0, 0x20D0, 0x3099, 0x0651}
	aBidiCtl  = []rune{0x200E, 0x200F, 0x061C, 0x202A, 0x202B, 0x202C, 0x202D, 0x202E, 0x2066, 0x2067, 0x2068, 0x2069}
	aIgnor    = []rune{0x200D, 0x200C, 0x00AD, 0xFE0F, 0xFE00, 0x034F, 0x2060, 0xFEFF, 0xE0001, 0x180E, 0x115F}
	aSpace    = []rune{' ', 0x00A0, 0x2003, 0x2009, 0x1680, 0x3000, 0x202F, 0x205F}
	aCtrl     = []rune{'\t', '\r', 0x000B, 0x0000, 0x007F, 0x001F, 0x2028}
	aParaSep  = []rune{'\n', 0x001C, 0x001D, 0x001E, 0x0085, 0x2029}
	aWeird    = []rune{0xD800, 0xDFFF, 0xFFFF, 0x10FFFF, 0x0378, 0xE000, 0xF0000, 0x1F600, 0x1F1E6, 0x2764, 0xFFFD, 0x06DD}
)

func otherScript(r *gen.RNG) []rune { return aOther[r.Intn(len(aOther))] }

// genText builds a text of n runes out of short same-class words.
func genText(r *gen.RNG, n int) (text []rune, flavour string) {
	type w struct {
		set    []rune
		weight int
	}
	var mix []w
	fl := r.Intn(9)
	if fl == 8 {
		return genBracketText(r, n, r.Intn(1<<20)), "bracket-pairs"
	}
	oth := otherScript(r)
	switch fl {
	case 0: // bidi with brackets
		flavour = "bidi-brackets"
		mix = []w{{aLatin, 6}, {aHebrew, 6}, {aArabic, 3}, {aDigit, 3}, {aOpen, 5}, {aClose, 5}, {aNeutral, 5}, {aANDigit, 1}, {aNumSep, 1}}
	case 1: // bidi controls
		flavour = "bidi-controls"
		mix = []w{{aLatin, 5}, {aHebrew, 5}, {aArabic, 3}, {aDigit, 2}, {aBidiCtl, 6}, {aNeutral, 4}, {aOpen, 2}, {aClose, 2}, {aENDigit, 1}, {aANDigit, 1}}
	case 2: // CJK / vertical
		flavour = "cjk"
		mix = []w{{aHan, 6}, {aKana, 5}, {aCJKPunct, 5}, {aLatin, 3}, {aDigit, 2}, {aHangul, 2}, {aOpen, 2}, {aClose, 2}, {aNeutral, 2}, {aMarks, 1}, {oth, 2}}
	case 3: // many scripts
		flavour = "multi-script"
		mix = []w{{aLatin, 4}, {oth, 5}, {otherScript(r), 4}, {aHebrew, 2}, {aHan, 2}, {aMarks, 3}, {aNeutral, 4}, {aOpen, 3}, {aClose, 3}, {aDigit, 2}}
	case 4: // ignorables, spaces, controls
		flavour = "ignorables"
		mix = []w{{aLatin, 4}, {aHebrew, 3}, {aIgnor, 5}, {aSpace, 6}, {aCtrl, 3}, {aMarks, 2}, {aHan, 2}, {aWeird, 2}, {aNeutral, 2}}
	case 5: // paragraph separators inside
		flavour = "para-separators"
		mix = []w{{aLatin, 6}, {aHebrew, 6}, {aArabic, 2}, {aParaSep, 2}, {aNeutral, 4}, {aDigit, 2}, {aSpace, 1}}
	case 6: // everything
		flavour = "everything"
		mix = []w{{aLatin, 3}, {aHebrew, 3}, {aArabic, 2}, {aDigit, 2}, {aANDigit, 1}, {aENDigit, 1}, {aOpen, 3}, {aClose, 3}, {aNeutral, 3},
			{aNumSep, 1}, {aHan, 2}, {aKana, 1}, {aCJKPunct, 1}, {aHangul, 1}, {oth, 2}, {aMarks, 2}, {aBidiCtl, 2}, {aIgnor, 2}, {aSpace, 2}, {aCtrl, 1}, {aWeird, 2}}
	default: // neutrals and brackets only, few strong characters
		flavour = "neutral-heavy"
		mix = []w{{aNeutral, 8}, {aOpen, 6}, {aClose, 6}, {aSpace, 3}, {aDigit, 2}, {aLatin, 1}, {aHebrew, 1}, {aHan, 1}, {aMarks, 1}}
	}
	tot := 0
	for _, m := range mix {
		tot += m.weight
	}
	for len(text) < n {
		k := r.Intn(tot)
		var set []rune
		for _, m := range mix {
			if k < m.weight {
				set = m.set
				break
			}
			k -= m.weight
		}
		wl := 1 + r.Intn(4)
		if r.Chance(1, 40) {
			// any code point (surrogates included)
			text = append(text, rune(r.Intn(0x110000)))
			continue
		}
		for j := 0; j < wl && len(text) < n; j++ {
			text = append(text, set[r.Intn(len(set))])
		}
	}
	return text, flavour
}

// ---- configuration generator -------------------------------------------------

func allDirections() []di.Direction {
	ds := []di.Direction{di.DirectionLTR, di.DirectionRTL, di.DirectionTTB, di.DirectionBTT}
	for _, base := range []di.Direction{di.DirectionTTB, di.DirectionBTT} {
		for _, sw := range []bool{true, false} {
			d := base
			d.SetSideways(sw)
			ds = append(ds, d)
		}
	}
	return ds
}

var directions = allDirections()

var languages = []string{"", "en", "fr", "ar", "he", "ru", "zh", "ja", "ko", "tr", "hi", "fr-be", "en-us", "xx", "zz-unknown", "und", "EN", "el", "th",
	// tags that share a primary subtag but have their own entry in the language table
	"pa", "pa-pk", "ku-tr", "ku-iq", "mn-mn", "mn-cn", "zh-cn", "zh-tw", "az-az", "az-ir", "ks", "ks-devanagari"}

var fmKinds = []string{"one", "script", "runehash", "hintrune", "cmap"}

func genFontmap(r *gen.RNG) FontmapSpec {
	s := FontmapSpec{Kind: fmKinds[r.Intn(len(fmKinds))], K: 1 + r.Intn(5), Seed: r.U64() >> 1, WithScript: r.Bool()}
	if s.Kind == "one" {
		s.K = 1
	}
	if s.Kind == "cmap" && s.K > len(realFaceIDs) {
		s.K = len(realFaceIDs)
	}
	return s
}

// genOp draws the configuration of one call for a given text and range.
func genOp(r *gen.RNG, text []rune, start, end int) Op {
	op := Op{Text: text, RunStart: start, RunEnd: end}
	switch k := r.Intn(10); {
	case k < 7:
		op.API = "Split"
	case k < 9:
		op.API = "SplitByFace"
	default:
		op.API = "SplitByFontGlyphs"
	}
	// horizontal directions twice as likely as each vertical flavour
	if r.Chance(1, 2) {
		op.Direction = uint8(directions[r.Intn(2)])
	} else {
		op.Direction = uint8(directions[r.Intn(len(directions))])
	}
	op.Lang = languages[r.Intn(len(languages))]
	op.Size = []int{0, 64, 768, 1000*64 + 1}[r.Intn(4)]
	op.NFeat = []int{0, 0, 1, 3}[r.Intn(4)]
	op.Face = -1
	if r.Chance(1, 4) {
		op.Face = r.Intn(nDummy)
	}
	op.FM = genFontmap(r)
	if op.API == "SplitByFontGlyphs" {
		op.FM.Kind = "cmap"
		op.FM.WithScript = false
		if op.FM.K > len(realFaceIDs) {
			op.FM.K = len(realFaceIDs)
		}
	}
	if op.API != "Split" {
		// script / language are inputs of the face-only entry points
		op.Script = []uint32{0, 0x4c61746e, 0x48656272, 0x5a797979}[r.Intn(4)]
	}
	return op
}

// genRange draws a sub-range of [0,n].
func genRange(r *gen.RNG, n int) (int, int) {
	switch r.Intn(8) {
	case 0, 1, 2: // whole text
		return 0, n
	case 3: // prefix
		return 0, r.Intn(n + 1)
	case 4: // suffix
		return r.Intn(n + 1), n
	case 5: // empty
		k := r.Intn(n + 1)
		return k, k
	default:
		a, b := r.Intn(n+1), r.Intn(n+1)
		if a > b {
			a, b = b, a
		}
		return a, b
	}
}
